(* C11 — static checks of the catalog construction: proofs about model/Catalog.v (build and its
   stages) and, for macros, model/Core.v (collect_macro, expand).

   Method.  add_all walks the expanded forest in pre-order; [preorder_all] lists the nodes it visits
   with their ancestors and [run] is the same fold over that list (add_all_run).  The run-wide
   state only grows along an accepted run ([ble], step_le): names, interaction ids, URL paths,
   similar-path bindings and every filled singleton slot stay.  A fault is a SECOND directive that
   meets the slot / name that an EARLIER directive left behind: its step cannot succeed, so the
   fold cannot, so build is never COk.  The "located" theorems give the exact diagnostic when
   every directive before the second occurrence was processed without error. *)
From Coq Require Import List NArith Bool String Lia.
From JV.lib Require Import Bytes.
From JV.gen Require Import DirectiveTables TagName.
From JV.model Require Import ScannerSem Core Description PathParams TagTitle Catalog.
From JV.proofs Require Import PathParamsProofs.
Import ListNotations.
Open Scope N_scope.

(* ------------------------------------------------------------------------------------------ *)
(* small facts                                                                                 *)
(* ------------------------------------------------------------------------------------------ *)

Lemma sc_kind_eqb_eq a b : kind_eqb a b = true <-> a = b.
Proof. split; [destruct a, b; try reflexivity; discriminate | intros ->; now destruct b]. Qed.

Lemma sc_kind_eqb_refl a : kind_eqb a a = true.
Proof. now destruct a. Qed.

Lemma sc_kind_eqb_ne a b : a <> b -> kind_eqb a b = false.
Proof. intros H. destruct (kind_eqb a b) eqn:E; [apply sc_kind_eqb_eq in E; contradiction | reflexivity]. Qed.

Lemma sc_beq_false a b : beq a b = false <-> a <> b.
Proof.
  split.
  - intros H E. subst. rewrite beq_refl in H. discriminate.
  - intros H. destruct (beq a b) eqn:E; [apply beq_eq in E; contradiction | reflexivity].
Qed.

Lemma sc_beq_sym a b : beq a b = beq b a.
Proof.
  destruct (beq a b) eqn:E.
  - apply beq_eq in E. subst. symmetry. apply beq_refl.
  - symmetry. apply sc_beq_false. apply sc_beq_false in E. congruence.
Qed.

Lemma proto_eqb_eq a b : proto_eqb a b = true <-> a = b.
Proof. destruct a, b; simpl; split; congruence. Qed.

Lemma iid_eqb_eq a b : iid_eqb a b = true <-> a = b.
Proof.
  unfold iid_eqb. destruct a as [p m q], b as [p' m' q']; simpl.
  rewrite !andb_true_iff, proto_eqb_eq, !beq_eq. split.
  - intros [[-> ->] ->]. reflexivity.
  - intros H. injection H as -> -> ->. auto.
Qed.

Lemma iid_eqb_refl a : iid_eqb a a = true.
Proof. now apply iid_eqb_eq. Qed.

Lemma coords_eqb_refl c : coords_eqb c c = true.
Proof. unfold coords_eqb. now rewrite beq_refl, N.eqb_refl. Qed.

(* cres *)
Lemma cbind_ok {A B} (x : cres A) (f : A -> cres B) r :
  x >>=c f = COk r -> exists a, x = COk a /\ f a = COk r.
Proof. destruct x; simpl; try discriminate. intros H. eauto. Qed.

Lemma cbind_err {A B} (x : cres A) (f : A -> cres B) e :
  x >>=c f = CErr e -> x = CErr e \/ exists a, x = COk a /\ f a = CErr e.
Proof. destruct x; simpl; try discriminate; intros H; [right; eauto | left; congruence]. Qed.

Lemma cbind_assoc {A B C} (x : cres A) (f : A -> cres B) (g : B -> cres C) :
  (x >>=c f) >>=c g = x >>=c (fun a => f a >>=c g).
Proof. now destruct x. Qed.

Definition not_ok {A} (x : cres A) : Prop := forall a, x <> COk a.

Lemma not_ok_bind_l {A B} (x : cres A) (f : A -> cres B) : not_ok x -> not_ok (x >>=c f).
Proof. intros H a E. apply cbind_ok in E as (y & Ey & _). exact (H y Ey). Qed.

Lemma not_ok_bind_r {A B} (x : cres A) (f : A -> cres B) :
  (forall a, x = COk a -> not_ok (f a)) -> not_ok (x >>=c f).
Proof. intros H r E. apply cbind_ok in E as (y & Ey & Ef). exact (H y Ey r Ef). Qed.

Lemma not_ok_err {A} e : not_ok (@CErr A e).
Proof. intros a; discriminate. Qed.
Lemma not_ok_kerr {A} d cls : not_ok (@kerr A d cls).
Proof. intros a; discriminate. Qed.
Lemma not_ok_panic {A} w : not_ok (@CPanic A w).
Proof. intros a; discriminate. Qed.

(* ---- ordered maps on association lists ---- *)
Section OMapFacts.
  Context {K V : Type} (keq : K -> K -> bool).
  Hypothesis keq_eq : forall a b, keq a b = true <-> a = b.

  Lemma keq_refl a : keq a a = true.
  Proof. now apply keq_eq. Qed.

  Lemma om_has_app (m : list (K * V)) x k : om_has keq (m ++ x) k = om_has keq m k || om_has keq x k.
  Proof. unfold om_has. apply existsb_app. Qed.

  Lemma om_has_snoc (m : list (K * V)) k v : om_has keq (m ++ [(k, v)]) k = true.
  Proof. rewrite om_has_app. unfold om_has at 2. simpl. rewrite keq_refl. now rewrite orb_true_r. Qed.

  Lemma om_has_mono_app (m : list (K * V)) x k : om_has keq m k = true -> om_has keq (m ++ x) k = true.
  Proof. intros H. now rewrite om_has_app, H. Qed.

  Lemma om_has_update (m : list (K * V)) j f k : om_has keq (om_update keq m j f) k = om_has keq m k.
  Proof.
    unfold om_has, om_update. induction m as [|e m IH]; [reflexivity|]. simpl. rewrite IH.
    destruct (keq (fst e) j); reflexivity.
  Qed.

  Lemma om_get_has (m : list (K * V)) k : om_has keq m k = true <-> exists v, om_get keq m k = Some v.
  Proof.
    unfold om_has, om_get. induction m as [|e m IH]; simpl.
    - split; [discriminate | intros [v H]; discriminate].
    - destruct (keq (fst e) k); simpl; [split; eauto | exact IH].
  Qed.

  Lemma om_get_none_has (m : list (K * V)) k : om_get keq m k = None <-> om_has keq m k = false.
  Proof.
    destruct (om_has keq m k) eqn:E.
    - apply om_get_has in E as [v ->]. split; discriminate.
    - split; [reflexivity|]. intros _. destruct (om_get keq m k) eqn:G; [|reflexivity].
      assert (om_has keq m k = true) by (apply om_get_has; eauto). congruence.
  Qed.

  Lemma om_get_app_l (m : list (K * V)) x k v : om_get keq m k = Some v -> om_get keq (m ++ x) k = Some v.
  Proof.
    unfold om_get. induction m as [|e m IH]; simpl; [discriminate|].
    destruct (keq (fst e) k); [tauto | exact IH].
  Qed.

  Lemma om_get_app_r (m : list (K * V)) x k : om_has keq m k = false -> om_get keq (m ++ x) k = om_get keq x k.
  Proof.
    unfold om_get, om_has. induction m as [|e m IH]; simpl; [reflexivity|].
    destruct (keq (fst e) k); simpl; [discriminate | exact IH].
  Qed.

  Lemma om_get_update (m : list (K * V)) j f k :
    om_get keq (om_update keq m j f) k =
    match om_get keq m k with Some v => Some (if keq k j then f v else v) | None => None end.
  Proof.
    unfold om_get, om_update. induction m as [|e m IH]; [reflexivity|]. simpl.
    destruct (keq (fst e) j) eqn:Ej; simpl.
    - destruct (keq (fst e) k) eqn:Ek; simpl.
      + apply keq_eq in Ek. subst k. now rewrite Ej.
      + exact IH.
    - destruct (keq (fst e) k) eqn:Ek; simpl.
      + apply keq_eq in Ek. subst k. now rewrite Ej.
      + exact IH.
  Qed.

  Lemma om_get_in (m : list (K * V)) k v : om_get keq m k = Some v -> In (k, v) m.
  Proof.
    unfold om_get. induction m as [|e m IH]; simpl; [discriminate|].
    destruct (keq (fst e) k) eqn:E.
    - intros H. injection H as <-. apply keq_eq in E. subst k. left. now destruct e.
    - intros H. right. exact (IH H).
  Qed.
End OMapFacts.

(* ------------------------------------------------------------------------------------------ *)
(* pre-order of a forest with ancestors; the fold that add_all is                               *)
(* ------------------------------------------------------------------------------------------ *)

Fixpoint dtree_ind' (P : dtree -> Prop) (H : forall d kids, Forall P kids -> P (DNode d kids)) (t : dtree) : P t :=
  match t with
  | DNode d kids =>
    H d kids ((fix go (l : list dtree) : Forall P l :=
                 match l with [] => Forall_nil P | k :: r => Forall_cons k (dtree_ind' P H k) (go r) end) kids)
  end.

(* the nodes of t in the order addDirectiveBranch visits them, each with its ancestors (innermost first) *)
Fixpoint preorder (t : dtree) (anc : list dtree) {struct t} : list (dtree * list dtree) :=
  (t, anc) ::
  (fix go (ks : list dtree) : list (dtree * list dtree) :=
     match ks with [] => [] | k :: r => preorder k (t :: anc) ++ go r end) (tree_kids t).

Definition preorder_kids (t : dtree) (anc : list dtree) (ks : list dtree) : list (dtree * list dtree) :=
  flat_map (fun k => preorder k (t :: anc)) ks.

Lemma preorder_eq t anc : preorder t anc = (t, anc) :: preorder_kids t anc (tree_kids t).
Proof.
  destruct t as [d kids]. reflexivity.
Qed.

Definition preorder_all (ts : list dtree) : list (dtree * list dtree) := flat_map (fun t => preorder t []) ts.

Section Run.
  Variable body_text : coords -> bytes.

  Definition step (x : dtree * list dtree) (b : bstate) : cres bstate :=
    add_directive body_text [] (fst x) (snd x) b.

  Fixpoint run (l : list (dtree * list dtree)) (b : bstate) : cres bstate :=
    match l with [] => COk b | x :: r => step x b >>=c run r end.

  Lemma run_app l1 l2 b : run (l1 ++ l2) b = run l1 b >>=c run l2.
  Proof.
    revert b. induction l1 as [|x l1 IH]; intros b; [reflexivity|].
    cbn [app run]. rewrite cbind_assoc. destruct (step x b); simpl; auto.
  Qed.

  Lemma add_branch_run t : forall anc b, add_branch body_text [] t anc b = run (preorder t anc) b.
  Proof.
    apply (dtree_ind' (fun t => forall anc b, add_branch body_text [] t anc b = run (preorder t anc) b)).
    intros d kids IH anc b.
    rewrite preorder_eq. cbn [run add_branch tree_kids]. unfold step at 1. cbn [fst snd].
    destruct (add_directive body_text [] (DNode d kids) anc b) as [b1| | |]; simpl; try reflexivity.
    unfold preorder_kids. generalize (DNode d kids) as T. intros T. revert b1.
    induction IH as [|k r Hk _ IHr]; intros b1; [reflexivity|].
    cbn [flat_map]. rewrite run_app, Hk. destruct (run (preorder k (T :: anc)) b1); simpl; auto.
  Qed.

  Lemma add_all_run ts b : add_all body_text [] ts b = run (preorder_all ts) b.
  Proof.
    revert b. induction ts as [|t r IH]; intros b; [reflexivity|].
    cbn [add_all preorder_all flat_map]. rewrite run_app, add_branch_run.
    destruct (run (preorder t []) b); simpl; auto.
  Qed.

  Lemma run_split l1 x l2 b b' :
    run (l1 ++ x :: l2) b = COk b' ->
    exists b1 b2, run l1 b = COk b1 /\ step x b1 = COk b2 /\ run l2 b2 = COk b'.
  Proof.
    rewrite run_app. intros H. apply cbind_ok in H as (b1 & H1 & H2). cbn [run] in H2.
    apply cbind_ok in H2 as (b2 & H2 & H3). eauto.
  Qed.

  (* the first error of the fold is the error of one step, everything before it went through *)
  Lemma run_first_error l b e :
    run l b = CErr e ->
    exists l1 x l2 b1, l = l1 ++ x :: l2 /\ run l1 b = COk b1 /\ step x b1 = CErr e.
  Proof.
    revert b. induction l as [|x l IH]; intros b; [discriminate|]. cbn [run]. intros H.
    apply cbind_err in H as [H | (b1 & H1 & H2)].
    - exists [], x, l, b. auto.
    - destruct (IH _ H2) as (l1 & y & l2 & b2 & -> & Hr & Hs).
      exists (x :: l1), y, l2, b2. split; [reflexivity|]. split; [|exact Hs]. cbn [run]. now rewrite H1.
  Qed.

  Lemma run_prefix_error l1 x l2 b b1 e :
    run l1 b = COk b1 -> step x b1 = CErr e -> run (l1 ++ x :: l2) b = CErr e.
  Proof. intros H1 H2. rewrite run_app, H1. cbn [cbind run]. now rewrite H2. Qed.
End Run.

(* ------------------------------------------------------------------------------------------ *)
(* what an accepted step never takes back                                                       *)
(* ------------------------------------------------------------------------------------------ *)

Definition req_le (r r' : request) : Prop :=
  (q_body r <> None -> q_body r' <> None) /\ (q_headers r <> None -> q_headers r' <> None).
Definition http_le (h h' : http_i) : Prop :=
  (hi_desc h <> None -> hi_desc h' <> None) /\
  (hi_query h <> None -> hi_query h' <> None) /\
  (forall r, hi_request h = Some r -> exists r', hi_request h' = Some r' /\ req_le r r').
Definition rpc_le (r r' : rpc_i) : Prop :=
  (ri_desc r <> None -> ri_desc r' <> None) /\
  (ri_params r <> None -> ri_params r' <> None) /\
  (ri_result r <> None -> ri_result r' <> None).
Definition info_le (i i' : info) : Prop :=
  (in_title i <> [] -> in_title i' <> []) /\
  (in_version i <> [] -> in_version i' <> []) /\
  (in_desc i <> None -> in_desc i' <> None).
Definition tag_le (t t' : tag) : Prop := t_desc t <> None -> t_desc t' <> None.
Definition tags_le (tg tg' : list (bytes * tag)) : Prop :=
  forall n t, om_get beq tg n = Some t -> exists t', om_get beq tg' n = Some t' /\ tag_le t t'.
Definition names_le {V} (m m' : list (bytes * V)) : Prop :=
  forall n, om_has beq m n = true -> om_has beq m' n = true.

Record cle (c c' : catalog) : Prop := {
  cle_types : names_le (c_types c) (c_types c');
  cle_servers : names_le (c_servers c) (c_servers c');
  cle_info : forall i, c_info c = Some i -> exists i', c_info c' = Some i' /\ info_le i i';
  cle_http : forall k h, get_http c k = Some h -> exists h', get_http c' k = Some h' /\ http_le h h';
  cle_rpc : forall k r, get_rpc c k = Some r -> exists r', get_rpc c' k = Some r' /\ rpc_le r r';
  cle_keys : forall k, om_has iid_eqb (c_inters c) k = true -> om_has iid_eqb (c_inters c') k = true;
  cle_tags : tags_le (c_tags c) (c_tags c')
}.

Record ble (b b' : bstate) : Prop := {
  ble_cat : cle (b_cat b) (b_cat b');
  ble_urls : forall p, existsb (beq p) (b_urls b) = true -> existsb (beq p) (b_urls b') = true;
  ble_prot : forall c, existsb (coords_eqb c) (b_protocols b) = true -> existsb (coords_eqb c) (b_protocols b') = true;
  ble_sim : forall k v, sp_lookup k (b_similar b) = Some v -> sp_lookup k (b_similar b') = Some v
}.

Lemma req_le_refl r : req_le r r. Proof. split; auto. Qed.
Lemma http_le_refl h : http_le h h.
Proof. split; [auto|]. split; [auto|]. intros r Hr. exists r. split; [exact Hr | apply req_le_refl]. Qed.
Lemma rpc_le_refl r : rpc_le r r. Proof. repeat split; auto. Qed.
Lemma info_le_refl i : info_le i i. Proof. repeat split; auto. Qed.
Lemma tags_le_refl tg : tags_le tg tg. Proof. intros n t H. exists t. split; [exact H | exact (fun x => x)]. Qed.

Lemma req_le_trans a b c : req_le a b -> req_le b c -> req_le a c.
Proof. intros [A1 A2] [B1 B2]. split; auto. Qed.
Lemma http_le_trans a b c : http_le a b -> http_le b c -> http_le a c.
Proof.
  intros (A1 & A2 & A3) (B1 & B2 & B3). split; [auto|]. split; [auto|].
  intros r Hr. destruct (A3 r Hr) as (r1 & H1 & L1). destruct (B3 r1 H1) as (r2 & H2 & L2).
  exists r2. split; [exact H2 | exact (req_le_trans _ _ _ L1 L2)].
Qed.
Lemma rpc_le_trans a b c : rpc_le a b -> rpc_le b c -> rpc_le a c.
Proof. intros (A1 & A2 & A3) (B1 & B2 & B3). repeat split; auto. Qed.
Lemma info_le_trans a b c : info_le a b -> info_le b c -> info_le a c.
Proof. intros (A1 & A2 & A3) (B1 & B2 & B3). repeat split; auto. Qed.
Lemma tags_le_trans a b c : tags_le a b -> tags_le b c -> tags_le a c.
Proof.
  intros A B n t H. destruct (A n t H) as (t1 & H1 & L1). destruct (B n t1 H1) as (t2 & H2 & L2).
  exists t2. split; [exact H2 | intros X; exact (L2 (L1 X))].
Qed.

Lemma cle_refl c : cle c c.
Proof.
  constructor; try (intros n H; exact H).
  - intros i H. exists i. split; [exact H | apply info_le_refl].
  - intros k h H. exists h. split; [exact H | apply http_le_refl].
  - intros k r H. exists r. split; [exact H | apply rpc_le_refl].
  - apply tags_le_refl.
Qed.

Lemma cle_trans a b c : cle a b -> cle b c -> cle a c.
Proof.
  intros A B. constructor.
  - intros n H. apply (cle_types _ _ B). apply (cle_types _ _ A). exact H.
  - intros n H. apply (cle_servers _ _ B). apply (cle_servers _ _ A). exact H.
  - intros i H. destruct (cle_info _ _ A i H) as (i1 & H1 & L1). destruct (cle_info _ _ B i1 H1) as (i2 & H2 & L2).
    exists i2. split; [exact H2 | exact (info_le_trans _ _ _ L1 L2)].
  - intros k h H. destruct (cle_http _ _ A k h H) as (h1 & H1 & L1). destruct (cle_http _ _ B k h1 H1) as (h2 & H2 & L2).
    exists h2. split; [exact H2 | exact (http_le_trans _ _ _ L1 L2)].
  - intros k r H. destruct (cle_rpc _ _ A k r H) as (r1 & H1 & L1). destruct (cle_rpc _ _ B k r1 H1) as (r2 & H2 & L2).
    exists r2. split; [exact H2 | exact (rpc_le_trans _ _ _ L1 L2)].
  - intros k H. apply (cle_keys _ _ B). apply (cle_keys _ _ A). exact H.
  - exact (tags_le_trans _ _ _ (cle_tags _ _ A) (cle_tags _ _ B)).
Qed.

Lemma ble_refl b : ble b b.
Proof. constructor; auto. apply cle_refl. Qed.

Lemma ble_trans a b c : ble a b -> ble b c -> ble a c.
Proof.
  intros A B. constructor.
  - exact (cle_trans _ _ _ (ble_cat _ _ A) (ble_cat _ _ B)).
  - intros p H. apply (ble_urls _ _ B). apply (ble_urls _ _ A). exact H.
  - intros p H. apply (ble_prot _ _ B). apply (ble_prot _ _ A). exact H.
  - intros k v H. apply (ble_sim _ _ B). apply (ble_sim _ _ A). exact H.
Qed.

Lemma ble_with_cat b c' : cle (b_cat b) c' -> ble b (with_cat b c').
Proof. intros H. constructor; auto. Qed.

(* ---- interactions ---- *)
Lemma get_http_upd_http c j f k :
  get_http (upd_http c j f) k = match get_http c k with Some h => Some (if iid_eqb k j then f h else h) | None => None end.
Proof.
  unfold get_http, upd_http, upd_inters. cbn [c_inters]. rewrite (om_get_update iid_eqb iid_eqb_eq).
  destruct (om_get iid_eqb (c_inters c) k) as [[h|r]|]; destruct (iid_eqb k j); reflexivity.
Qed.
Lemma get_rpc_upd_http c j f k : get_rpc (upd_http c j f) k = get_rpc c k.
Proof.
  unfold get_rpc, upd_http, upd_inters. cbn [c_inters]. rewrite (om_get_update iid_eqb iid_eqb_eq).
  destruct (om_get iid_eqb (c_inters c) k) as [[h|r]|]; destruct (iid_eqb k j); reflexivity.
Qed.
Lemma get_rpc_upd_rpc c j f k :
  get_rpc (upd_rpc c j f) k = match get_rpc c k with Some h => Some (if iid_eqb k j then f h else h) | None => None end.
Proof.
  unfold get_rpc, upd_rpc, upd_inters. cbn [c_inters]. rewrite (om_get_update iid_eqb iid_eqb_eq).
  destruct (om_get iid_eqb (c_inters c) k) as [[h|r]|]; destruct (iid_eqb k j); reflexivity.
Qed.
Lemma get_http_upd_rpc c j f k : get_http (upd_rpc c j f) k = get_http c k.
Proof.
  unfold get_http, upd_rpc, upd_inters. cbn [c_inters]. rewrite (om_get_update iid_eqb iid_eqb_eq).
  destruct (om_get iid_eqb (c_inters c) k) as [[h|r]|]; destruct (iid_eqb k j); reflexivity.
Qed.

(* builders, in "transitive form": from what is known about c1 to an update of c1 *)
Lemma cle_upd_jsight c c1 v : cle c c1 -> cle c (upd_jsight c1 v).
Proof.
  intros H. apply (cle_trans _ _ _ H). pose proof (cle_refl c1) as R.
  constructor; destruct R; assumption.
Qed.

Lemma cle_upd_info c c1 i' : cle c c1 -> (forall i, c_info c1 = Some i -> info_le i i') -> cle c (upd_info c1 (Some i')).
Proof.
  intros H Hi. apply (cle_trans _ _ _ H). pose proof (cle_refl c1) as R.
  constructor; try (destruct R; assumption).
  intros i E. exists i'. split; [reflexivity | exact (Hi i E)].
Qed.

Lemma cle_upd_http_all c c1 j f : cle c c1 -> (forall h, http_le h (f h)) -> cle c (upd_http c1 j f).
Proof.
  intros H Hf. apply (cle_trans _ _ _ H). pose proof (cle_refl c1) as R.
  constructor; try (destruct R; assumption).
  - intros k h E. rewrite get_http_upd_http, E. destruct (iid_eqb k j).
    + exists (f h). split; [reflexivity | apply Hf].
    + exists h. split; [reflexivity | apply http_le_refl].
  - intros k r E. rewrite get_rpc_upd_http, E. exists r. split; [reflexivity | apply rpc_le_refl].
  - intros k E. unfold upd_http, upd_inters. cbn [c_inters]. now rewrite om_has_update.
Qed.

Lemma cle_upd_rpc_all c c1 j f : cle c c1 -> (forall h, rpc_le h (f h)) -> cle c (upd_rpc c1 j f).
Proof.
  intros H Hf. apply (cle_trans _ _ _ H). pose proof (cle_refl c1) as R.
  constructor; try (destruct R; assumption).
  - intros k h E. rewrite get_http_upd_rpc, E. exists h. split; [reflexivity | apply http_le_refl].
  - intros k r E. rewrite get_rpc_upd_rpc, E. destruct (iid_eqb k j).
    + exists (f r). split; [reflexivity | apply Hf].
    + exists r. split; [reflexivity | apply rpc_le_refl].
  - intros k E. unfold upd_rpc, upd_inters. cbn [c_inters]. now rewrite om_has_update.
Qed.

Lemma tags_le_update tg n f : (forall t, tag_le t (f t)) -> tags_le tg (om_update beq tg n f).
Proof.
  intros Hf m t E. rewrite (om_get_update beq beq_eq), E. destruct (beq m n).
  - exists (f t). split; [reflexivity | apply Hf].
  - exists t. split; [reflexivity | exact (fun x => x)].
Qed.

Lemma cle_upd_tags c c1 tg' : cle c c1 -> tags_le (c_tags c1) tg' -> cle c (upd_tags c1 tg').
Proof.
  intros H Ht. apply (cle_trans _ _ _ H). pose proof (cle_refl c1) as R.
  constructor; destruct R; assumption.
Qed.

Lemma cle_upd_servers c c1 s' : cle c c1 -> names_le (c_servers c1) s' -> cle c (upd_servers c1 s').
Proof.
  intros H Hs. apply (cle_trans _ _ _ H). pose proof (cle_refl c1) as R.
  constructor; destruct R; assumption.
Qed.

Lemma cle_upd_types c c1 t' : cle c c1 -> names_le (c_types c1) t' -> cle c (upd_types c1 t').
Proof.
  intros H Hs. apply (cle_trans _ _ _ H). pose proof (cle_refl c1) as R.
  constructor; destruct R; assumption.
Qed.

Lemma names_le_snoc {V} (m : list (bytes * V)) x : names_le m (m ++ [x]).
Proof. intros n H. now apply om_has_mono_app. Qed.

Lemma names_le_update {V} (m : list (bytes * V)) n f : names_le m (om_update beq m n f).
Proof. intros k H. now rewrite om_has_update. Qed.

Lemma cle_new_inter c c1 i x : cle c c1 -> cle c (upd_inters c1 (c_inters c1 ++ [(i, x)])).
Proof.
  intros H. apply (cle_trans _ _ _ H). pose proof (cle_refl c1) as R.
  constructor; try (destruct R; assumption).
  - intros k h E. exists h. split; [|apply http_le_refl].
    unfold get_http in *. cbn [upd_inters c_inters].
    destruct (om_get iid_eqb (c_inters c1) k) as [[h'|r]|] eqn:G; try discriminate.
    now rewrite (om_get_app_l _ _ _ _ _ G).
  - intros k r E. exists r. split; [|apply rpc_le_refl].
    unfold get_rpc in *. cbn [upd_inters c_inters].
    destruct (om_get iid_eqb (c_inters c1) k) as [[h'|r']|] eqn:G; try discriminate.
    now rewrite (om_get_app_l _ _ _ _ _ G).
  - intros k E. cbn [upd_inters c_inters]. now apply om_has_mono_app.
Qed.

Lemma cle_upd_http c c1 j f : cle c c1 -> (forall h, get_http c1 j = Some h -> http_le h (f h)) -> cle c (upd_http c1 j f).
Proof.
  intros H Hf. apply (cle_trans _ _ _ H). pose proof (cle_refl c1) as R.
  constructor; try (destruct R; assumption).
  - intros k h E. rewrite get_http_upd_http, E. destruct (iid_eqb k j) eqn:Ek.
    + apply iid_eqb_eq in Ek. subst k. exists (f h). split; [reflexivity | apply Hf; exact E].
    + exists h. split; [reflexivity | apply http_le_refl].
  - intros k r E. rewrite get_rpc_upd_http, E. exists r. split; [reflexivity | apply rpc_le_refl].
  - intros k E. unfold upd_http, upd_inters. cbn [c_inters]. now rewrite om_has_update.
Qed.

Lemma cle_upd_rpc c c1 j f : cle c c1 -> (forall h, get_rpc c1 j = Some h -> rpc_le h (f h)) -> cle c (upd_rpc c1 j f).
Proof.
  intros H Hf. apply (cle_trans _ _ _ H). pose proof (cle_refl c1) as R.
  constructor; try (destruct R; assumption).
  - intros k h E. rewrite get_http_upd_rpc, E. exists h. split; [reflexivity | apply http_le_refl].
  - intros k r E. rewrite get_rpc_upd_rpc, E. destruct (iid_eqb k j) eqn:Ek.
    + apply iid_eqb_eq in Ek. subst k. exists (f r). split; [reflexivity | apply Hf; exact E].
    + exists r. split; [reflexivity | apply rpc_le_refl].
  - intros k E. unfold upd_rpc, upd_inters. cbn [c_inters]. now rewrite om_has_update.
Qed.

Ltac step_kind Hk :=
  unfold step, add_directive; cbv zeta; cbn [fst snd]; rewrite Hk;
  cbn [kind_in existsb kind_eqb kind_idx N.eqb Pos.eqb is_http_method http_method_list orb andb negb].

Ltac reduce_kind Hk :=
  cbv zeta; try rewrite !Hk;
  cbn [kind_in existsb kind_eqb kind_idx N.eqb Pos.eqb is_http_method http_method_list orb andb negb cbind].

(* take an if/match cascade that must equal COk apart *)
Ltac crack Hk :=
  repeat first
  [ match goal with
    | |- kerr _ _ = COk _ -> _ => intros; discriminate
    | |- CErr _ = COk _ -> _ => intros; discriminate
    | |- CPanic _ = COk _ -> _ => intros; discriminate
    | |- berr _ _ = COk _ -> _ => unfold berr, kerr
    | |- (kerr _ _ >>=c _) = COk _ -> _ => intros; discriminate
    | |- (COk _ >>=c _) = COk _ -> _ => cbn [cbind]
    | |- add_request _ _ _ = COk _ -> _ => unfold add_request; reduce_kind Hk
    | |- add_response _ _ _ = COk _ -> _ => unfold add_response; reduce_kind Hk
    | |- (match ?x with _ => _ end >>=c _) = COk _ -> _ => destruct x eqn:?
    | |- match ?x with _ => _ end = COk _ -> _ => destruct x eqn:?
    end ].


Ltac norm_hyps :=
  repeat match goal with
  | H : negb _ = false |- _ => apply negb_false_iff in H
  | H : negb _ = true |- _ => apply negb_true_iff in H
  | H : beq _ _ = true |- _ => apply beq_eq in H
  | H : beq _ _ = false |- _ => apply sc_beq_false in H
  end.

Ltac le_side :=
  let x := fresh "x" in let Hx := fresh "Hx" in
  intros x Hx;
  try (match type of Hx with
       | ?lhs = Some _ => match goal with G : lhs = Some _ |- _ => rewrite G in Hx; injection Hx as <- end
       end);
  try congruence;
  norm_hyps;
  unfold http_le, req_le, rpc_le, info_le, tag_le, set_last_response;
  repeat match goal with |- context[match hi_request ?h with _ => _ end] => destruct (hi_request h) eqn:? end;
  cbn [hi_desc hi_query hi_request q_body q_headers ri_desc ri_params ri_result in_title in_version in_desc t_desc];
  repeat split; intros;
  try congruence;
  try (match goal with
       | G : ?lhs = Some ?r0, H : ?lhs = Some ?r |- exists r', _ = Some r' /\ _ => rewrite G in H; injection H as <-
       end);
  try (eexists; split; [first [eassumption | reflexivity]|]; first [apply req_le_refl | split; cbn [q_body q_headers]; intros; congruence]).

Ltac build_cle :=
  lazymatch goal with
  | |- cle ?c ?c => apply cle_refl
  | |- cle _ (upd_jsight _ _) => apply cle_upd_jsight; build_cle
  | |- cle _ (upd_info _ _) => apply cle_upd_info; [build_cle | le_side]
  | |- cle _ (upd_http _ _ _) => apply cle_upd_http; [build_cle | le_side]
  | |- cle _ (upd_rpc _ _ _) => apply cle_upd_rpc; [build_cle | le_side]
  | |- cle _ (upd_tags _ (om_update _ _ _ _)) => apply cle_upd_tags; [build_cle | apply tags_le_update; intros ?; unfold tag_le; cbn [t_desc]; congruence]
  | |- cle _ (upd_servers _ (_ ++ _)) => apply cle_upd_servers; [build_cle | apply names_le_snoc]
  | |- cle _ (upd_servers _ (om_update _ _ _ _)) => apply cle_upd_servers; [build_cle | apply names_le_update]
  | |- cle _ (upd_types _ (_ ++ _)) => apply cle_upd_types; [build_cle | apply names_le_snoc]
  end.

Ltac finish :=
  let H := fresh in intros H; injection H as <-;
  first [ apply ble_refl | apply ble_with_cat; build_cle ].


(* ---- checkSimilarPaths keeps every binding it accepted ---- *)
Lemma params_of_entries_nodup p : NoDup (map fst (entries (params_of p))).
Proof. unfold params_of. rewrite entries_params by apply segments_good. apply key_entries_nodup. apply segments_good. Qed.

Lemma similar_ok_keeps st p st' k v :
  check_similar_paths st (params_of p) = SPOk st' -> sp_lookup k st = Some v -> sp_lookup k st' = Some v.
Proof.
  intros H Hl. pose proof (params_of_entries_nodup p) as Hnd.
  apply check_similar_ok_inv in H as [-> Hc]; [|exact Hnd].
  rewrite sp_lookup_app. destruct (sp_lookup k (rev (entries (params_of p)))) as [w|] eqn:E; [|exact Hl].
  apply sp_lookup_in in E; [|rewrite map_rev; apply NoDup_rev; exact Hnd].
  apply in_rev in E. destruct (Hc k w E) as [H|H]; congruence.
Qed.

(* every binding of the path is in the map afterwards *)
Lemma similar_ok_binds st p st' k v :
  check_similar_paths st (params_of p) = SPOk st' -> In (k, v) (key_entries (segments p)) -> sp_lookup k st' = Some v.
Proof.
  intros H Hin. pose proof (params_of_entries_nodup p) as Hnd.
  apply check_similar_ok_inv in H as [-> Hc]; [|exact Hnd].
  rewrite sp_lookup_app. unfold params_of. rewrite entries_params by apply segments_good.
  apply lookup_rev_entries in Hin; [|apply segments_good]. now rewrite Hin.
Qed.

Lemma check_path_inv d b p b1 :
  check_path d b p = COk b1 ->
  path_parameters_checked p = GOk (POk (params_of p)) /\
  check_similar_paths (b_similar b) (params_of p) = SPOk (b_similar b1) /\
  b_cat b1 = b_cat b /\ b_urls b1 = b_urls b /\ b_protocols b1 = b_protocols b.
Proof.
  unfold check_path. destruct (path_parameters_checked p) as [[pp| |n]|w] eqn:E; try discriminate.
  pose proof (proj1 (checked_ok_lemma p pp) E) as [-> _].
  destruct (check_similar_paths (b_similar b) (params_of p)) eqn:Es; [|discriminate].
  intros H. injection H as <-. cbn. auto.
Qed.

Lemma check_path_le d b p b1 : check_path d b p = COk b1 -> ble b b1.
Proof.
  intros H. apply check_path_inv in H as (_ & Hs & Hc & Hu & Hp).
  constructor.
  - rewrite Hc. apply cle_refl.
  - now rewrite Hu.
  - now rewrite Hp.
  - intros k v. exact (similar_ok_keeps _ _ _ k v Hs).
Qed.

(* ---- tags ---- *)
Definition tags_go (td : directive) (i : option iid) :=
  fix go (ns : list bytes) (acc : list bytes) (tg : list (bytes * tag)) : cres (list bytes * list (bytes * tag)) :=
    match ns with
    | [] => COk (acc, tg)
    | n :: r =>
      match om_get beq tg n with
      | None => kerr td "tag not found"
      | Some t => if t_auto t then kerr td "tag not found"
                  else go r (acc ++ [n]) (match i with Some j => om_update beq tg n (fun t => tag_add_iid t j) | None => tg end)
      end
    end.

Lemma tags_from_directive_eq td i tags :
  tags_from_directive td i tags =
  if negb (beq (d_annot td) []) then kerr td "annotation is forbidden"
  else match d_unnamed td with
       | [] => kerr td "required parameter"
       | names => tags_go td i names [] tags
       end.
Proof. reflexivity. Qed.

Definition tags_directive (me : dtree) (anc : list dtree) : option directive :=
  match child_of_kind KTags (tree_kids me) with
  | Some td => Some td
  | None =>
    match anc with
    | a :: _ => if kind_eqb (d_kind (tree_dir a)) KURL then child_of_kind KTags (tree_kids a) else None
    | [] => None
    end
  end.

Lemma tags_for_eq me anc i tags :
  tags_for me anc i tags =
  match tags_directive me anc with
  | Some td => tags_from_directive td (Some i) tags
  | None =>
    let n := auto_tag_name (i_path i) in
    let tg := if om_has beq tags n then tags
              else tags ++ [(n, {| t_title := pathTagTitle (i_path i); t_desc := None; t_http := []; t_rpc := []; t_auto := true |})] in
    COk ([n], om_update beq tg n (fun t => tag_add_iid t i))
  end.
Proof.
  unfold tags_for, tags_directive.
  destruct (child_of_kind KTags (tree_kids me)); [reflexivity|].
  destruct anc as [|a r]; [reflexivity|].
  destruct (kind_eqb (d_kind (tree_dir a)) KURL); [|reflexivity].
  destruct (child_of_kind KTags (tree_kids a)); reflexivity.
Qed.

Lemma tag_add_iid_le t i : tag_le t (tag_add_iid t i).
Proof. unfold tag_le, tag_add_iid. destruct (i_proto i); cbn [t_desc]; auto. Qed.

Lemma tags_go_le td i ns : forall acc tg r, tags_go td i ns acc tg = COk r -> tags_le tg (snd r).
Proof.
  induction ns as [|n ns IH]; intros acc tg r; cbn [tags_go].
  - intros H. injection H as <-. apply tags_le_refl.
  - destruct (om_get beq tg n) as [t|]; [|discriminate]. destruct (t_auto t); [discriminate|]. intros H.
    eapply tags_le_trans; [|exact (IH _ _ _ H)]. destruct i as [j|]; [|apply tags_le_refl].
    apply tags_le_update. intros t0. apply tag_add_iid_le.
Qed.

Lemma tags_le_snoc tg x : tags_le tg (tg ++ [x]).
Proof.
  intros n t H. exists t. split; [|exact (fun y => y)]. exact (om_get_app_l beq _ _ _ _ H).
Qed.

Lemma tags_from_directive_le td i tags r : tags_from_directive td i tags = COk r -> tags_le tags (snd r).
Proof.
  rewrite tags_from_directive_eq. destruct (negb (beq (d_annot td) [])); [discriminate|].
  destruct (d_unnamed td) eqn:E; [discriminate|]. apply tags_go_le.
Qed.

Lemma tags_for_le me anc i tags r : tags_for me anc i tags = COk r -> tags_le tags (snd r).
Proof.
  rewrite tags_for_eq. destruct (tags_directive me anc) as [td|].
  - apply tags_from_directive_le.
  - cbv zeta. intros H. injection H as <-. cbn [snd].
    eapply tags_le_trans; [|apply tags_le_update; intros t0; apply tag_add_iid_le].
    destruct (om_has beq tags (auto_tag_name (i_path i))); [apply tags_le_refl | apply tags_le_snoc].
Qed.

(* ---- the step lemma ---- *)
Lemma ble_new_inter b1 tg' i x :
  tags_le (c_tags (b_cat b1)) tg' ->
  ble b1 (with_cat b1 (upd_inters (upd_tags (b_cat b1) tg') (c_inters (b_cat b1) ++ [(i, x)]))).
Proof.
  intros Ht. apply ble_with_cat.
  apply (cle_new_inter (b_cat b1) (upd_tags (b_cat b1) tg') i x).
  apply cle_upd_tags; [apply cle_refl | exact Ht].
Qed.

Lemma step_le bt x b b' : step bt x b = COk b' -> ble b b'.
Proof.
  destruct x as [t anc].
  destruct (d_kind (tree_dir t)) eqn:Hk; step_kind Hk; crack Hk; try solve [finish].
  all: try (* URL *)
    (intros H; apply cbind_ok in H as (b1 & H1 & H); apply check_path_le in H1;
     apply (ble_trans _ _ _ H1); revert H; crack Hk;
     intros H; injection H as <-; constructor; cbn [b_cat b_urls b_protocols b_similar]; auto using cle_refl;
     intros q Hq; cbn [existsb]; rewrite Hq; apply orb_true_r).
  all: try (* HTTP methods *)
    (intros H; apply cbind_ok in H as (b1 & H1 & H); apply check_path_le in H1;
     apply (ble_trans _ _ _ H1); revert H; crack Hk;
     intros H; apply cbind_ok in H as (tg & Ht & H); injection H as <-;
     apply ble_new_inter; exact (tags_for_le _ _ _ _ _ Ht)).
  all: try (* Tags: only checked *)
    (intros H; apply cbind_ok in H as (r0 & _ & H); injection H as <-; apply ble_refl).
  - (* Protocol *)
    intros H; injection H as <-. constructor; cbn [b_cat b_urls b_protocols b_similar]; auto using cle_refl.
    intros q Hq. cbn [existsb]. rewrite Hq. apply orb_true_r.
  - (* Method *)
    intros H. apply cbind_ok in H as (tg & Ht & H). injection H as <-.
    apply ble_new_inter. exact (tags_for_le _ _ _ _ _ Ht).
Qed.

Lemma run_le bt l : forall b b', run bt l b = COk b' -> ble b b'.
Proof.
  induction l as [|x l IH]; intros b b' H.
  - injection H as <-. apply ble_refl.
  - cbn [run] in H. apply cbind_ok in H as (b1 & H1 & H2).
    exact (ble_trans _ _ _ (step_le _ _ _ _ H1) (IH _ _ H2)).
Qed.

(* ------------------------------------------------------------------------------------------ *)
(* occurrences, and the two principles every theorem below is an instance of                    *)
(* ------------------------------------------------------------------------------------------ *)

Definition node : Set := (dtree * list dtree)%type.
Definition ndir (x : node) : directive := tree_dir (fst x).
Definition nanc (x : node) : list dtree := snd x.

(* x stands before y in l (x and y are different occurrences) *)
Definition occurs_before {A} (x y : A) (l : list A) : Prop := exists l1 l2 l3, l = l1 ++ x :: l2 ++ y :: l3.
(* y follows x immediately *)
Definition occurs_next {A} (x y : A) (l : list A) : Prop := exists l1 l3, l = l1 ++ x :: y :: l3.

Ltac kred := cbn [kind_in existsb kind_eqb kind_idx N.eqb Pos.eqb is_http_method http_method_list orb andb negb cbind].

Section Principles.
  Variable bt : coords -> bytes.

  Lemma run_one_not_ok l x :
    In x l -> (forall b, not_ok (step bt x b)) -> forall b0, not_ok (run bt l b0).
  Proof.
    intros Hin Hx b0 b' H. apply in_split in Hin as (l1 & l2 & ->).
    apply run_split in H as (b1 & b2 & _ & Hs & _). exact (Hx b1 b2 Hs).
  Qed.

  Lemma run_two_not_ok (F : bstate -> Prop) l x y :
    occurs_before x y l ->
    (forall b b', step bt x b = COk b' -> F b') ->
    (forall b b', ble b b' -> F b -> F b') ->
    (forall b, F b -> not_ok (step bt y b)) ->
    forall b0, not_ok (run bt l b0).
  Proof.
    intros (l1 & l2 & l3 & ->) HA HM HB b0 b' H.
    apply run_split in H as (b1 & b2 & _ & Hx & H).
    apply run_split in H as (b3 & b4 & H23 & Hy & _).
    apply run_le in H23. exact (HB b3 (HM _ _ H23 (HA _ _ Hx)) b4 Hy).
  Qed.

  Lemma run_next_not_ok (F : bstate -> Prop) l x y :
    occurs_next x y l ->
    (forall b b', step bt x b = COk b' -> F b') ->
    (forall b, F b -> not_ok (step bt y b)) ->
    forall b0, not_ok (run bt l b0).
  Proof.
    intros (l1 & l3 & ->) HA HB b0 b' H.
    apply run_split in H as (b1 & b2 & _ & Hx & H). cbn [run] in H.
    apply cbind_ok in H as (b4 & Hy & _). exact (HB b2 (HA _ _ Hx) b4 Hy).
  Qed.

  (* the exact diagnostic, when everything before y went through *)
  Lemma run_located l1 y l3 b0 b1 e :
    run bt l1 b0 = COk b1 -> step bt y b1 = CErr e -> run bt (l1 ++ y :: l3) b0 = CErr e.
  Proof. apply run_prefix_error. Qed.
End Principles.

(* ---- build, stage by stage ---- *)
Definition init_b (en : list (bytes * bytes)) (tg : list (bytes * tag)) : bstate :=
  {| b_cat := upd_tags (upd_enums empty_catalog en) tg; b_urls := []; b_similar := []; b_protocols := [] |}.

Section BuildInv.
  Variable pp : coords -> option (list bytes).
  Variable bt : coords -> bytes.

  Lemma build_ok_inv post c :
    build pp bt [] post = COk c ->
    exists en tg pvs all,
      collect_enums post [] = COk en /\ collect_tags post [] = COk tg /\ check_dup_types post [] = COk tt /\
      collect_paths_all pp post [] = COk pvs /\ bind_all pvs [] = COk all /\
      ((post = [] /\ validate (upd_tags (upd_enums empty_catalog en) tg) = COk c) \/
       (exists first rest b, post = first :: rest /\ d_kind (tree_dir first) = KJsight /\
          run bt (preorder_all post) (init_b en tg) = COk b /\
          validate (set_pathvars (b_cat b) all) = COk c)).
  Proof.
    unfold build. intros H.
    apply cbind_ok in H as (en & He & H). apply cbind_ok in H as (tg & Ht & H).
    apply cbind_ok in H as ([] & Hd & H).
    apply cbind_ok in H as (pvs & Hp & H). exists en, tg, pvs.
    destruct post as [|first rest].
    - apply cbind_ok in H as (all & Ha & H). exists all. repeat split; auto.
    - destruct (negb (kind_eqb (d_kind (tree_dir first)) KJsight)) eqn:Ej; [discriminate|].
      apply cbind_ok in H as (b & Hb & H). apply cbind_ok in H as (all & Ha & H).
      exists all. repeat split; auto. right. exists first, rest, b.
      apply negb_false_iff, sc_kind_eqb_eq in Ej. rewrite <- add_all_run. auto.
  Qed.

  Lemma build_not_ok_run post :
    preorder_all post <> [] -> (forall b0, not_ok (run bt (preorder_all post) b0)) ->
    not_ok (build pp bt [] post).
  Proof.
    intros Hne Hr c H. apply build_ok_inv in H as (en & tg & pvs & all & _ & _ & _ & _ & _ & [[-> _] | (f & r & b & _ & _ & Hb & _)]).
    - now apply Hne.
    - exact (Hr _ _ Hb).
  Qed.

  Lemma occurs_before_ne {A} (x y : A) l : occurs_before x y l -> l <> [].
  Proof. intros (l1 & l2 & l3 & ->) E. destruct l1; discriminate. Qed.
  Lemma occurs_next_ne {A} (x y : A) l : occurs_next x y l -> l <> [].
  Proof. intros (l1 & l3 & ->) E. destruct l1; discriminate. Qed.
  Lemma in_ne {A} (x : A) l : In x l -> l <> [].
  Proof. intros H E. subst. exact H. Qed.

  (* the exact diagnostic of build when the earlier stages and every directive before y went through *)
  Lemma build_located post en tg pvs l1 y l3 b1 e :
    collect_enums post [] = COk en -> collect_tags post [] = COk tg -> check_dup_types post [] = COk tt ->
    collect_paths_all pp post [] = COk pvs ->
    (exists first rest, post = first :: rest /\ d_kind (tree_dir first) = KJsight) ->
    preorder_all post = l1 ++ y :: l3 ->
    run bt l1 (init_b en tg) = COk b1 -> step bt y b1 = CErr e ->
    build pp bt [] post = CErr e.
  Proof.
    intros He Ht Hd Hp (first & rest & -> & Hj) Hl Hr Hs. unfold build. rewrite He, Ht, Hd, Hp. cbn [cbind].
    rewrite Hj. cbn [kind_eqb kind_idx N.eqb negb]. rewrite add_all_run, Hl.
    fold (init_b en tg). rewrite (run_prefix_error bt _ _ _ _ _ _ Hr Hs). reflexivity.
  Qed.
End BuildInv.

(* ------------------------------------------------------------------------------------------ *)
(* ids                                                                                          *)
(* ------------------------------------------------------------------------------------------ *)

Lemma http_method_of_self d anc : is_http_method (d_kind d) = true -> http_method_of d anc = Some (d_kind d).
Proof. intros H. destruct anc; cbn [http_method_of]; now rewrite H. Qed.

Lemma http_id_method d anc p :
  is_http_method (d_kind d) = true -> path_of d anc = PathOk p ->
  http_id d anc = IdOk {| i_proto := PHttp; i_method := method_name (d_kind d); i_path := p |}.
Proof. intros Hm Hp. unfold http_id. now rewrite Hp, (http_method_of_self _ _ Hm). Qed.

Lemma http_id_method_inv d anc i :
  is_http_method (d_kind d) = true -> http_id d anc = IdOk i ->
  exists p, path_of d anc = PathOk p /\ i = {| i_proto := PHttp; i_method := method_name (d_kind d); i_path := p |}.
Proof.
  intros Hm. unfold http_id. destruct (path_of d anc) as [p| |]; try discriminate.
  rewrite (http_method_of_self _ _ Hm). intros H. injection H as <-. eauto.
Qed.

(* ------------------------------------------------------------------------------------------ *)
(* per kind: what an accepted step leaves behind (…_adds) and what makes a step impossible
   (…_refuses)                                                                                  *)
(* ------------------------------------------------------------------------------------------ *)
Section Steps.
  Variable bt : coords -> bytes.

  (* ---- TYPE ---- *)
  Lemma type_adds t anc b b' :
    d_kind (tree_dir t) = KType -> step bt (t, anc) b = COk b' ->
    om_has beq (c_types (b_cat b')) (named (tree_dir t) (bs "Name")) = true.
  Proof.
    intros Hk. step_kind Hk. crack Hk. intros H. injection H as <-.
    cbn [b_cat with_cat upd_types c_types]. apply (om_has_snoc beq beq_eq).
  Qed.
  Lemma type_refuses t anc b :
    d_kind (tree_dir t) = KType -> om_has beq (c_types (b_cat b)) (named (tree_dir t) (bs "Name")) = true ->
    not_ok (step bt (t, anc) b).
  Proof. intros Hk Hh b'. unfold not. step_kind Hk. crack Hk. intros; congruence. Qed.
  Lemma type_dup_error t anc b :
    d_kind (tree_dir t) = KType -> named (tree_dir t) (bs "Name") <> [] ->
    om_has beq (c_types (b_cat b)) (named (tree_dir t) (bs "Name")) = true ->
    step bt (t, anc) b = CErr (kw_err (tree_dir t) (msg "duplicate names")).
  Proof. intros Hk Hn Hh. step_kind Hk. rewrite (proj2 (sc_beq_false _ _) Hn), Hh. reflexivity. Qed.

  (* ---- SERVER ---- *)
  Lemma server_adds t anc b b' :
    d_kind (tree_dir t) = KServer -> step bt (t, anc) b = COk b' ->
    om_has beq (c_servers (b_cat b')) (named (tree_dir t) (bs "Name")) = true.
  Proof.
    intros Hk. step_kind Hk. crack Hk. intros H. injection H as <-.
    cbn [b_cat with_cat upd_servers c_servers]. apply (om_has_snoc beq beq_eq).
  Qed.
  Lemma server_refuses t anc b :
    d_kind (tree_dir t) = KServer -> om_has beq (c_servers (b_cat b)) (named (tree_dir t) (bs "Name")) = true ->
    not_ok (step bt (t, anc) b).
  Proof. intros Hk Hh b'. unfold not. step_kind Hk. crack Hk. intros; congruence. Qed.
  Lemma server_dup_error t anc b :
    d_kind (tree_dir t) = KServer -> named (tree_dir t) (bs "Name") <> [] ->
    om_has beq (c_servers (b_cat b)) (named (tree_dir t) (bs "Name")) = true ->
    step bt (t, anc) b = CErr (kw_err (tree_dir t) (msg "duplicate names")).
  Proof. intros Hk Hn Hh. step_kind Hk. rewrite (proj2 (sc_beq_false _ _) Hn), Hh. reflexivity. Qed.

  (* ---- HTTP methods ---- *)
  Lemma method_adds t anc b b' p :
    is_http_method (d_kind (tree_dir t)) = true -> path_of (tree_dir t) anc = PathOk p ->
    step bt (t, anc) b = COk b' ->
    om_has iid_eqb (c_inters (b_cat b')) {| i_proto := PHttp; i_method := method_name (d_kind (tree_dir t)); i_path := p |} = true.
  Proof.
    intros Hm Hp. destruct (d_kind (tree_dir t)) eqn:Hk; try discriminate Hm.
    all: step_kind Hk; rewrite Hp; intros H; apply cbind_ok in H as (b1 & _ & H); revert H; crack Hk.
    all: intros H; apply cbind_ok in H as (tg & _ & H); injection H as <-.
    all: cbn [b_cat with_cat upd_inters c_inters]; apply (om_has_snoc iid_eqb iid_eqb_eq).
  Qed.
  Lemma method_refuses t anc b p :
    is_http_method (d_kind (tree_dir t)) = true -> path_of (tree_dir t) anc = PathOk p ->
    om_has iid_eqb (c_inters (b_cat b)) {| i_proto := PHttp; i_method := method_name (d_kind (tree_dir t)); i_path := p |} = true ->
    not_ok (step bt (t, anc) b).
  Proof.
    intros Hm Hp. destruct (d_kind (tree_dir t)) eqn:Hk; try discriminate Hm.
    all: intros Hh b'; unfold not; step_kind Hk; rewrite Hp; intros H; apply cbind_ok in H as (b1 & H1 & H).
    all: apply check_path_inv in H1 as (_ & _ & Hc & _); rewrite Hc, Hh in H; discriminate.
  Qed.
  Lemma method_dup_error t anc b p b1 :
    is_http_method (d_kind (tree_dir t)) = true -> path_of (tree_dir t) anc = PathOk p ->
    check_path (tree_dir t) b p = COk b1 ->
    om_has iid_eqb (c_inters (b_cat b)) {| i_proto := PHttp; i_method := method_name (d_kind (tree_dir t)); i_path := p |} = true ->
    step bt (t, anc) b = CErr (kw_err (tree_dir t) (msg "method is already defined")).
  Proof.
    intros Hm Hp Hc. destruct (d_kind (tree_dir t)) eqn:Hk; try discriminate Hm.
    all: intros Hh; step_kind Hk; rewrite Hp, Hc; cbn [cbind].
    all: apply check_path_inv in Hc as (_ & _ & Hc & _); rewrite Hc, Hh; reflexivity.
  Qed.

  (* ---- JSON-RPC Method ---- *)
  Lemma rpc_adds t anc b b' i :
    d_kind (tree_dir t) = KMethod -> rpc_id (tree_dir t) anc = IdOk i ->
    step bt (t, anc) b = COk b' -> om_has iid_eqb (c_inters (b_cat b')) i = true.
  Proof.
    intros Hk Hi. step_kind Hk. rewrite Hi. crack Hk.
    intros H; apply cbind_ok in H as (tg & _ & H); injection H as <-.
    cbn [b_cat with_cat upd_inters c_inters]; apply (om_has_snoc iid_eqb iid_eqb_eq).
  Qed.
  Lemma rpc_refuses t anc b i :
    d_kind (tree_dir t) = KMethod -> rpc_id (tree_dir t) anc = IdOk i ->
    om_has iid_eqb (c_inters (b_cat b)) i = true -> not_ok (step bt (t, anc) b).
  Proof. intros Hk Hi Hh b'. unfold not. step_kind Hk. rewrite Hi, Hh. crack Hk. Qed.

  (* ---- URL ---- *)
  Lemma url_adds t anc b b' p :
    d_kind (tree_dir t) = KURL -> path_of (tree_dir t) anc = PathOk p ->
    step bt (t, anc) b = COk b' -> existsb (beq p) (b_urls b') = true.
  Proof.
    intros Hk Hp. step_kind Hk. rewrite Hp. crack Hk.
    intros H; apply cbind_ok in H as (b1 & _ & H); revert H; crack Hk.
    all: intros H; injection H as <-; cbn [b_urls existsb]; now rewrite beq_refl.
  Qed.
  Lemma url_refuses t anc b p :
    d_kind (tree_dir t) = KURL -> path_of (tree_dir t) anc = PathOk p ->
    existsb (beq p) (b_urls b) = true -> not_ok (step bt (t, anc) b).
  Proof.
    intros Hk Hp Hh b'. unfold not. step_kind Hk. rewrite Hp. crack Hk.
    intros H; apply cbind_ok in H as (b1 & H1 & H).
    apply check_path_inv in H1 as (_ & _ & _ & Hu & _). rewrite Hu, Hh in H. discriminate.
  Qed.

  (* ---- similar paths: URL and HTTP methods register their path ---- *)
  Definition registers_path (x : node) (p : bytes) : Prop :=
    (d_kind (ndir x) = KURL \/ is_http_method (d_kind (ndir x)) = true) /\ path_of (ndir x) (nanc x) = PathOk p.
  Definition sim_has (p : bytes) (b : bstate) : Prop :=
    forall k v, In (k, v) (key_entries (segments p)) -> sp_lookup k (b_similar b) = Some v.

  Lemma registers_adds x b b' p : registers_path x p -> step bt x b = COk b' -> sim_has p b'.
  Proof.
    destruct x as [t anc]. unfold registers_path, ndir, nanc. cbn [fst snd]. intros [[Hk|Hm] Hp].
    - step_kind Hk. rewrite Hp. crack Hk.
      intros H; apply cbind_ok in H as (b1 & H1 & H); revert H; crack Hk.
      all: intros H; injection H as <-; apply check_path_inv in H1 as (_ & Hs & _).
      all: intros k v Hin; cbn [b_similar]; exact (similar_ok_binds _ _ _ _ _ Hs Hin).
    - destruct (d_kind (tree_dir t)) eqn:Hk; try discriminate Hm.
      all: step_kind Hk; rewrite Hp; intros H; apply cbind_ok in H as (b1 & H1 & H); revert H; crack Hk.
      all: intros H; apply cbind_ok in H as (tg & _ & H); injection H as <-.
      all: apply check_path_inv in H1 as (_ & Hs & _).
      all: intros k v Hin; cbn [b_similar with_cat]; exact (similar_ok_binds _ _ _ _ _ Hs Hin).
  Qed.

  Lemma check_path_conflict d b p1 p2 :
    sim_has p1 b -> conflict (segments p1) (segments p2) -> not_ok (check_path d b p2).
  Proof.
    intros Hs (i & n1 & n2 & H1 & H2 & Hf & Hn) b1 H.
    apply check_path_inv in H as (_ & Hc & _).
    apply check_similar_ok_inv in Hc as [_ Hc]; [|apply params_of_entries_nodup].
    assert (E1 : In (join_byte 47 (firstn i (segments p1)), n1) (key_entries (segments p1)))
      by (apply key_entries_in; exists i; auto).
    assert (E2 : In (join_byte 47 (firstn i (segments p1)), n2) (key_entries (segments p2)))
      by (apply key_entries_in; exists i; rewrite Hf; auto).
    apply Hs in E1. unfold sp_compat, params_of in Hc. rewrite entries_params in Hc by apply segments_good.
    destruct (Hc _ _ E2) as [X|X]; congruence.
  Qed.

  Lemma registers_refuses x b p1 p2 :
    registers_path x p2 -> sim_has p1 b -> conflict (segments p1) (segments p2) -> not_ok (step bt x b).
  Proof.
    destruct x as [t anc]. unfold registers_path, ndir, nanc. cbn [fst snd]. intros [[Hk|Hm] Hp] Hs Hc b'; unfold not.
    - step_kind Hk. rewrite Hp. crack Hk.
      intros H; apply cbind_ok in H as (b1 & H1 & _). exact (check_path_conflict _ _ _ _ Hs Hc _ H1).
    - destruct (d_kind (tree_dir t)) eqn:Hk; try discriminate Hm.
      all: step_kind Hk; rewrite Hp; intros H; apply cbind_ok in H as (b1 & H1 & _).
      all: exact (check_path_conflict _ _ _ _ Hs Hc _ H1).
  Qed.

  (* ---- Title, Version ---- *)
  Definition title_set (b : bstate) : Prop := exists i, c_info (b_cat b) = Some i /\ in_title i <> [].
  Definition version_set (b : bstate) : Prop := exists i, c_info (b_cat b) = Some i /\ in_version i <> [].
  Definition info_desc_set (b : bstate) : Prop := exists i, c_info (b_cat b) = Some i /\ in_desc i <> None.

  Lemma title_adds t anc b b' : d_kind (tree_dir t) = KTitle -> step bt (t, anc) b = COk b' -> title_set b'.
  Proof.
    intros Hk. step_kind Hk. crack Hk. intros H. injection H as <-. norm_hyps.
    eexists. split; [reflexivity|]. cbn [in_title]. assumption.
  Qed.
  Lemma title_refuses t anc b : d_kind (tree_dir t) = KTitle -> title_set b -> not_ok (step bt (t, anc) b).
  Proof.
    intros Hk (i & Hi & Hn) b'. unfold not. step_kind Hk. rewrite Hi. crack Hk. norm_hyps. intros; congruence.
  Qed.
  Lemma title_dup_error t anc b :
    d_kind (tree_dir t) = KTitle -> named (tree_dir t) (bs "Title") <> [] -> d_annot (tree_dir t) = [] ->
    title_set b -> step bt (t, anc) b = CErr (kw_err (tree_dir t) (msg "not a unique directive")).
  Proof.
    intros Hk Hn Ha (i & Hi & Ht). step_kind Hk. rewrite (proj2 (sc_beq_false _ _) Hn), Ha, Hi.
    rewrite (proj2 (sc_beq_false _ _) Ht). reflexivity.
  Qed.
  Lemma version_adds t anc b b' : d_kind (tree_dir t) = KVersion -> step bt (t, anc) b = COk b' -> version_set b'.
  Proof.
    intros Hk. step_kind Hk. crack Hk. intros H. injection H as <-. norm_hyps.
    eexists. split; [reflexivity|]. cbn [in_version]. assumption.
  Qed.
  Lemma version_refuses t anc b : d_kind (tree_dir t) = KVersion -> version_set b -> not_ok (step bt (t, anc) b).
  Proof.
    intros Hk (i & Hi & Hn) b'. unfold not. step_kind Hk. rewrite Hi. crack Hk. norm_hyps. intros; congruence.
  Qed.

  (* ---- Description ---- *)
  Lemma desc_info_adds t anc b b' p :
    d_kind (tree_dir t) = KDescription -> parent_dir anc = Some p -> d_kind p = KInfo ->
    step bt (t, anc) b = COk b' -> info_desc_set b'.
  Proof.
    intros Hk Hp Hpk. step_kind Hk. rewrite Hp. cbv beta iota. rewrite Hpk. kred. crack Hk.
    intros H. injection H as <-. eexists. split; [reflexivity|]. cbn [in_desc]. discriminate.
  Qed.
  Lemma desc_info_refuses t anc b p :
    d_kind (tree_dir t) = KDescription -> parent_dir anc = Some p -> d_kind p = KInfo ->
    info_desc_set b -> not_ok (step bt (t, anc) b).
  Proof.
    intros Hk Hp Hpk (i & Hi & Hn) b'. unfold not. step_kind Hk. rewrite Hp. cbv beta iota. rewrite Hpk, Hi. kred.
    crack Hk. intros; congruence.
  Qed.

  Definition http_has (Q : http_i -> Prop) (i : iid) (b : bstate) : Prop := exists h, get_http (b_cat b) i = Some h /\ Q h.
  Definition rpc_has (Q : rpc_i -> Prop) (i : iid) (b : bstate) : Prop := exists h, get_rpc (b_cat b) i = Some h /\ Q h.

  Lemma desc_http_adds t anc b b' p i :
    d_kind (tree_dir t) = KDescription -> parent_dir anc = Some p -> is_http_method (d_kind p) = true ->
    http_id (tree_dir t) anc = IdOk i ->
    step bt (t, anc) b = COk b' -> http_has (fun h => hi_desc h <> None) i b'.
  Proof.
    intros Hk Hp Hm Hi. destruct (d_kind p) eqn:Hpk; try discriminate Hm.
    all: step_kind Hk; rewrite Hp; cbv beta iota; rewrite Hpk, Hi; kred; crack Hk.
    all: intros H; injection H as <-; unfold http_has; cbn [b_cat with_cat]; rewrite get_http_upd_http.
    all: match goal with G : get_http _ _ = Some _ |- _ => rewrite G end; rewrite iid_eqb_refl; eexists; split; [reflexivity|]; cbn [hi_desc]; discriminate.
  Qed.
  Lemma desc_http_refuses t anc b p i :
    d_kind (tree_dir t) = KDescription -> parent_dir anc = Some p -> is_http_method (d_kind p) = true ->
    http_id (tree_dir t) anc = IdOk i -> http_has (fun h => hi_desc h <> None) i b ->
    not_ok (step bt (t, anc) b).
  Proof.
    intros Hk Hp Hm Hi (h & Hg & Hd) b'. unfold not. destruct (d_kind p) eqn:Hpk; try discriminate Hm.
    all: step_kind Hk; rewrite Hp; cbv beta iota; rewrite Hpk, Hi; kred; crack Hk; intros; congruence.
  Qed.

  Lemma desc_rpc_adds t anc b b' p i :
    d_kind (tree_dir t) = KDescription -> parent_dir anc = Some p -> d_kind p = KMethod ->
    rpc_id (tree_dir t) anc = IdOk i ->
    step bt (t, anc) b = COk b' -> rpc_has (fun h => ri_desc h <> None) i b'.
  Proof.
    intros Hk Hp Hpk Hi. step_kind Hk; rewrite Hp; cbv beta iota; rewrite Hpk, Hi; kred; crack Hk.
    intros H; injection H as <-; unfold rpc_has; cbn [b_cat with_cat]; rewrite get_rpc_upd_rpc.
    match goal with G : get_rpc _ _ = Some _ |- _ => rewrite G end; rewrite iid_eqb_refl; eexists; split; [reflexivity|]; cbn [ri_desc]; discriminate.
  Qed.
  Lemma desc_rpc_refuses t anc b p i :
    d_kind (tree_dir t) = KDescription -> parent_dir anc = Some p -> d_kind p = KMethod ->
    rpc_id (tree_dir t) anc = IdOk i -> rpc_has (fun h => ri_desc h <> None) i b ->
    not_ok (step bt (t, anc) b).
  Proof.
    intros Hk Hp Hpk Hi (h & Hg & Hd) b'. unfold not.
    step_kind Hk; rewrite Hp; cbv beta iota; rewrite Hpk, Hi; kred; crack Hk; intros; congruence.
  Qed.

  Definition tag_desc_set (n : bytes) (b : bstate) : Prop := exists t, om_get beq (c_tags (b_cat b)) n = Some t /\ t_desc t <> None.
  Lemma desc_tag_adds t anc b b' p :
    d_kind (tree_dir t) = KDescription -> parent_dir anc = Some p -> d_kind p = KTAG ->
    step bt (t, anc) b = COk b' -> tag_desc_set (named p (bs "TagName")) b'.
  Proof.
    intros Hk Hp Hpk. step_kind Hk; rewrite Hp; cbv beta iota; rewrite Hpk; kred; crack Hk.
    intros H; injection H as <-; unfold tag_desc_set; cbn [b_cat with_cat upd_tags c_tags].
    rewrite (om_get_update beq beq_eq).
    match goal with G : om_get _ _ _ = Some _ |- _ => rewrite G end; rewrite beq_refl; eexists; split; [reflexivity|]; cbn [t_desc]; discriminate.
  Qed.
  Lemma desc_tag_refuses t anc b p :
    d_kind (tree_dir t) = KDescription -> parent_dir anc = Some p -> d_kind p = KTAG ->
    tag_desc_set (named p (bs "TagName")) b -> not_ok (step bt (t, anc) b).
  Proof.
    intros Hk Hp Hpk (tt & Hg & Hd) b'. unfold not.
    step_kind Hk; rewrite Hp; cbv beta iota; rewrite Hpk; kred; crack Hk; intros; congruence.
  Qed.

  (* ---- Query ---- *)
  Lemma query_adds t anc b b' i :
    d_kind (tree_dir t) = KQuery -> http_id (tree_dir t) anc = IdOk i ->
    step bt (t, anc) b = COk b' -> http_has (fun h => hi_query h <> None) i b'.
  Proof.
    intros Hk Hi. step_kind Hk. rewrite Hi. crack Hk.
    intros H; injection H as <-; unfold http_has; cbn [b_cat with_cat]; rewrite get_http_upd_http.
    match goal with G : get_http _ _ = Some _ |- _ => rewrite G end; rewrite iid_eqb_refl; eexists; split; [reflexivity|]; cbn [hi_query]; discriminate.
  Qed.
  Lemma query_refuses t anc b i :
    d_kind (tree_dir t) = KQuery -> http_id (tree_dir t) anc = IdOk i ->
    http_has (fun h => hi_query h <> None) i b -> not_ok (step bt (t, anc) b).
  Proof.
    intros Hk Hi (h & Hg & Hd) b'. unfold not. step_kind Hk. rewrite Hi. crack Hk. intros; congruence.
  Qed.

  (* ---- Protocol ---- *)
  Lemma protocol_adds t anc b b' p :
    d_kind (tree_dir t) = KProtocol -> parent_dir anc = Some p ->
    step bt (t, anc) b = COk b' -> existsb (coords_eqb (d_kw p)) (b_protocols b') = true.
  Proof.
    intros Hk Hp. step_kind Hk. rewrite Hp. crack Hk. intros H. injection H as <-.
    cbn [b_protocols existsb]. now rewrite coords_eqb_refl.
  Qed.
  Lemma protocol_refuses t anc b p :
    d_kind (tree_dir t) = KProtocol -> parent_dir anc = Some p ->
    existsb (coords_eqb (d_kw p)) (b_protocols b) = true -> not_ok (step bt (t, anc) b).
  Proof. intros Hk Hp Hh b'. unfold not. step_kind Hk. rewrite Hp, Hh. crack Hk. Qed.

  (* ---- Request: Body, Headers ---- *)
  Definition req_has (Q : request -> Prop) (i : iid) (b : bstate) : Prop :=
    http_has (fun h => exists rq, hi_request h = Some rq /\ Q rq) i b.

  Lemma req_body_adds t anc b b' p i :
    d_kind (tree_dir t) = KBody -> parent_dir anc = Some p -> d_kind p = KRequest ->
    http_id (tree_dir t) anc = IdOk i ->
    step bt (t, anc) b = COk b' -> req_has (fun rq => q_body rq <> None) i b'.
  Proof.
    intros Hk Hp Hpk Hi. step_kind Hk. rewrite Hp. cbv beta iota. rewrite Hpk. kred.
    match goal with |- (if ?c then _ else _) = _ -> _ => destruct c; [discriminate|] end.
    unfold add_request; reduce_kind Hk; rewrite Hi; crack Hk.
    all: intros H; injection H as <-; unfold req_has, http_has; cbn [b_cat with_cat]; rewrite get_http_upd_http.
    all: match goal with G : get_http _ _ = Some _ |- _ => rewrite G end; rewrite iid_eqb_refl; eexists; split; [reflexivity|].
    all: cbn [hi_request]; eexists; split; [reflexivity|]; cbn [q_body]; discriminate.
  Qed.
  Lemma req_body_refuses t anc b p i :
    d_kind (tree_dir t) = KBody -> parent_dir anc = Some p -> d_kind p = KRequest ->
    http_id (tree_dir t) anc = IdOk i -> req_has (fun rq => q_body rq <> None) i b ->
    not_ok (step bt (t, anc) b).
  Proof.
    intros Hk Hp Hpk Hi (h & Hg & rq & Hr & Hq) b'. unfold not. step_kind Hk. rewrite Hp. cbv beta iota. rewrite Hpk. kred.
    match goal with |- (if ?c then _ else _) = _ -> _ => destruct c; [discriminate|] end.
    unfold add_request; reduce_kind Hk; rewrite Hi; crack Hk. all: intros; congruence.
  Qed.
  (* a Body under a directive that carries its schema in its own parameters *)
  Lemma body_under_inline_refuses t anc b p :
    d_kind (tree_dir t) = KBody -> parent_dir anc = Some p -> d_named p <> [] -> d_kind p <> KMacro ->
    step bt (t, anc) b = CErr (kw_err p (msg "parameters are unacceptable, according to the Body directive")).
  Proof.
    intros Hk Hp Hn Hm. step_kind Hk. rewrite Hp. cbv beta iota. rewrite (sc_kind_eqb_ne _ _ Hm).
    destruct (d_named p); [congruence|]. reflexivity.
  Qed.

  Lemma req_headers_adds t anc b b' i :
    d_kind (tree_dir t) = KHeaders -> parent_kind_is anc KRequest = true ->
    http_id (tree_dir t) anc = IdOk i ->
    step bt (t, anc) b = COk b' -> req_has (fun rq => q_headers rq <> None) i b'.
  Proof.
    intros Hk Hp Hi. step_kind Hk. rewrite Hp, Hi. crack Hk.
    intros H; injection H as <-; unfold req_has, http_has; cbn [b_cat with_cat]; rewrite get_http_upd_http.
    match goal with G : get_http _ _ = Some _ |- _ => rewrite G end; rewrite iid_eqb_refl; eexists; split; [reflexivity|].
    cbn [hi_request]; eexists; split; [reflexivity|]; cbn [q_headers]; discriminate.
  Qed.
  Lemma req_headers_refuses t anc b i :
    d_kind (tree_dir t) = KHeaders -> parent_kind_is anc KRequest = true ->
    http_id (tree_dir t) anc = IdOk i -> req_has (fun rq => q_headers rq <> None) i b ->
    not_ok (step bt (t, anc) b).
  Proof.
    intros Hk Hp Hi (h & Hg & rq & Hr & Hq) b'. unfold not. step_kind Hk. rewrite Hp, Hi. crack Hk. intros; congruence.
  Qed.

  (* ---- response Headers: the slot of the LAST response ---- *)
  Definition last_resp_headers (i : iid) (b : bstate) : Prop :=
    http_has (fun h => exists r rs, rev (hi_responses h) = r :: rs /\ r_headers r <> None) i b.

  Lemma resp_headers_adds t anc b b' i :
    d_kind (tree_dir t) = KHeaders -> parent_kind_is anc KRequest = false -> parent_kind_is anc KHTTPResponseCode = true ->
    http_id (tree_dir t) anc = IdOk i ->
    step bt (t, anc) b = COk b' -> last_resp_headers i b'.
  Proof.
    intros Hk Hq Hp Hi. step_kind Hk. rewrite Hq, Hp, Hi. crack Hk.
    intros H; injection H as <-; unfold last_resp_headers, http_has; cbn [b_cat with_cat]; rewrite get_http_upd_http.
    match goal with G : get_http _ _ = Some _ |- _ => rewrite G end; rewrite iid_eqb_refl; eexists; split; [reflexivity|].
    unfold set_last_response. cbn [hi_responses].
    match goal with G : rev _ = _ :: _ |- _ => rewrite G end. rewrite rev_involutive.
    eexists. eexists. split; [reflexivity|]. cbn [r_headers]. discriminate.
  Qed.
  Lemma resp_headers_refuses t anc b i :
    d_kind (tree_dir t) = KHeaders -> parent_kind_is anc KRequest = false -> parent_kind_is anc KHTTPResponseCode = true ->
    http_id (tree_dir t) anc = IdOk i -> last_resp_headers i b -> not_ok (step bt (t, anc) b).
  Proof.
    intros Hk Hq Hp Hi (h & Hg & r & rs & Hr & Hh) b'. unfold not. step_kind Hk. rewrite Hq, Hp, Hi. crack Hk.
    intros; congruence.
  Qed.
  (* ---- response Body: the slot of the LAST response ---- *)
  Definition last_resp_body (i : iid) (b : bstate) : Prop :=
    http_has (fun h => exists r rs, rev (hi_responses h) = r :: rs /\ r_body r <> None) i b.

  Lemma resp_body_adds t anc b b' p i :
    d_kind (tree_dir t) = KBody -> parent_dir anc = Some p -> d_kind p = KHTTPResponseCode ->
    http_id (tree_dir t) anc = IdOk i ->
    step bt (t, anc) b = COk b' -> last_resp_body i b'.
  Proof.
    intros Hk Hp Hpk Hi. step_kind Hk. rewrite Hp. cbv beta iota. rewrite Hpk. kred.
    match goal with |- (if ?c then _ else _) = _ -> _ => destruct c; [discriminate|] end.
    unfold add_response; reduce_kind Hk; rewrite ?Hi; crack Hk.
    all: intros H; injection H as <-; unfold last_resp_body, http_has; cbn [b_cat with_cat]; rewrite get_http_upd_http.
    all: match goal with G : get_http _ _ = Some _ |- _ => rewrite G end; rewrite iid_eqb_refl; eexists; split; [reflexivity|].
    all: unfold set_last_response; cbn [hi_responses].
    all: match goal with G : rev _ = _ :: _ |- _ => rewrite G end; rewrite rev_involutive.
    all: eexists; eexists; split; [reflexivity|]; cbn [r_body]; discriminate.
  Qed.
  Lemma resp_body_refuses t anc b p i :
    d_kind (tree_dir t) = KBody -> parent_dir anc = Some p -> d_kind p = KHTTPResponseCode ->
    http_id (tree_dir t) anc = IdOk i -> last_resp_body i b -> not_ok (step bt (t, anc) b).
  Proof.
    intros Hk Hp Hpk Hi (h & Hg & r & rs & Hr & Hb) b'. unfold not. step_kind Hk. rewrite Hp. cbv beta iota. rewrite Hpk. kred.
    match goal with |- (if ?c then _ else _) = _ -> _ => destruct c; [discriminate|] end.
    unfold add_response; reduce_kind Hk; rewrite ?Hi; crack Hk. all: intros; congruence.
  Qed.
End Steps.

(* ------------------------------------------------------------------------------------------ *)
(* what was left behind stays ([ble])                                                           *)
(* ------------------------------------------------------------------------------------------ *)
Lemma http_has_mono (Q : http_i -> Prop) i b b' :
  (forall h h', http_le h h' -> Q h -> Q h') -> ble b b' -> http_has Q i b -> http_has Q i b'.
Proof.
  intros HQ Hle (h & Hg & Hq). destruct (cle_http _ _ (ble_cat _ _ Hle) i h Hg) as (h' & Hg' & L).
  exists h'. split; [exact Hg' | exact (HQ _ _ L Hq)].
Qed.
Lemma rpc_has_mono (Q : rpc_i -> Prop) i b b' :
  (forall h h', rpc_le h h' -> Q h -> Q h') -> ble b b' -> rpc_has Q i b -> rpc_has Q i b'.
Proof.
  intros HQ Hle (h & Hg & Hq). destruct (cle_rpc _ _ (ble_cat _ _ Hle) i h Hg) as (h' & Hg' & L).
  exists h'. split; [exact Hg' | exact (HQ _ _ L Hq)].
Qed.
Lemma req_has_mono (Q : request -> Prop) i b b' :
  (forall r r', req_le r r' -> Q r -> Q r') -> ble b b' -> req_has Q i b -> req_has Q i b'.
Proof.
  intros HQ. apply http_has_mono. intros h h' (_ & _ & L) (rq & Hr & Hq).
  destruct (L rq Hr) as (rq' & Hr' & Lr). exists rq'. split; [exact Hr' | exact (HQ _ _ Lr Hq)].
Qed.
Lemma title_set_mono b b' : ble b b' -> title_set b -> title_set b'.
Proof.
  intros Hle (i & Hi & Hn). destruct (cle_info _ _ (ble_cat _ _ Hle) i Hi) as (i' & Hi' & (L & _ & _)).
  exists i'. auto.
Qed.
Lemma version_set_mono b b' : ble b b' -> version_set b -> version_set b'.
Proof.
  intros Hle (i & Hi & Hn). destruct (cle_info _ _ (ble_cat _ _ Hle) i Hi) as (i' & Hi' & (_ & L & _)).
  exists i'. auto.
Qed.
Lemma info_desc_set_mono b b' : ble b b' -> info_desc_set b -> info_desc_set b'.
Proof.
  intros Hle (i & Hi & Hn). destruct (cle_info _ _ (ble_cat _ _ Hle) i Hi) as (i' & Hi' & (_ & _ & L)).
  exists i'. auto.
Qed.
Lemma tag_desc_set_mono n b b' : ble b b' -> tag_desc_set n b -> tag_desc_set n b'.
Proof.
  intros Hle (t & Ht & Hn). destruct (cle_tags _ _ (ble_cat _ _ Hle) n t Ht) as (t' & Ht' & L).
  exists t'. split; [exact Ht' | exact (L Hn)].
Qed.
Lemma sim_has_mono p b b' : ble b b' -> sim_has p b -> sim_has p b'.
Proof. intros Hle H k v Hin. apply (ble_sim _ _ Hle). exact (H k v Hin). Qed.

(* ------------------------------------------------------------------------------------------ *)
(* required parameters: the step fails whatever the state                                       *)
(* ------------------------------------------------------------------------------------------ *)
Section Required.
  Variable bt : coords -> bytes.
  Definition req_err (d : directive) : cerr := kw_err d (msg "required parameter").

  Lemma jsight_requires t anc b :
    d_kind (tree_dir t) = KJsight -> named (tree_dir t) (bs "Version") = [] -> step bt (t, anc) b = CErr (req_err (tree_dir t)).
  Proof. intros Hk Hn. step_kind Hk. rewrite Hn. reflexivity. Qed.
  Lemma title_requires t anc b :
    d_kind (tree_dir t) = KTitle -> named (tree_dir t) (bs "Title") = [] -> step bt (t, anc) b = CErr (req_err (tree_dir t)).
  Proof. intros Hk Hn. step_kind Hk. rewrite Hn. reflexivity. Qed.
  Lemma version_requires t anc b :
    d_kind (tree_dir t) = KVersion -> named (tree_dir t) (bs "Version") = [] -> step bt (t, anc) b = CErr (req_err (tree_dir t)).
  Proof. intros Hk Hn. step_kind Hk. rewrite Hn. reflexivity. Qed.
  Lemma server_requires t anc b :
    d_kind (tree_dir t) = KServer -> named (tree_dir t) (bs "Name") = [] -> step bt (t, anc) b = CErr (req_err (tree_dir t)).
  Proof. intros Hk Hn. step_kind Hk. rewrite Hn. reflexivity. Qed.
  Lemma baseurl_requires t anc b :
    d_kind (tree_dir t) = KBaseURL -> named (tree_dir t) (bs "Path") = [] -> step bt (t, anc) b = CErr (req_err (tree_dir t)).
  Proof. intros Hk Hn. step_kind Hk. rewrite Hn. reflexivity. Qed.
  Lemma type_requires t anc b :
    d_kind (tree_dir t) = KType -> named (tree_dir t) (bs "Name") = [] -> step bt (t, anc) b = CErr (req_err (tree_dir t)).
  Proof. intros Hk Hn. step_kind Hk. rewrite Hn. reflexivity. Qed.
  Lemma rpc_method_requires t anc b :
    d_kind (tree_dir t) = KMethod -> named (tree_dir t) (bs "MethodName") = [] -> step bt (t, anc) b = CErr (req_err (tree_dir t)).
  Proof. intros Hk Hn. step_kind Hk. rewrite Hn. reflexivity. Qed.
  (* Protocol checks the annotation first *)
  Lemma protocol_requires t anc b :
    d_kind (tree_dir t) = KProtocol -> named (tree_dir t) (bs "ProtocolName") = [] -> d_annot (tree_dir t) = [] ->
    step bt (t, anc) b = CErr (req_err (tree_dir t)).
  Proof. intros Hk Hn Ha. step_kind Hk. rewrite Hn, Ha. reflexivity. Qed.
  Lemma protocol_requires_not_ok t anc b :
    d_kind (tree_dir t) = KProtocol -> named (tree_dir t) (bs "ProtocolName") = [] -> not_ok (step bt (t, anc) b).
  Proof. intros Hk Hn b'. unfold not. step_kind Hk. rewrite Hn. cbn [beq]. crack Hk. Qed.

  (* Tags: every Tags directive is checked where it stands (addTags -> CheckTags) *)
  Lemma tags_from_requires td i tags : d_unnamed td = [] -> not_ok (tags_from_directive td i tags).
  Proof. intros Hu r. rewrite tags_from_directive_eq, Hu. destruct (negb (beq (d_annot td) [])); discriminate. Qed.

  Definition is_interaction (k : kind) : Prop := is_http_method k = true \/ k = KMethod.

  Lemma tags_requires t anc b :
    d_kind (tree_dir t) = KTags -> d_unnamed (tree_dir t) = [] -> not_ok (step bt (t, anc) b).
  Proof.
    intros Hk Hu b'. unfold not. step_kind Hk. intros H. apply cbind_ok in H as (r & Hr & _).
    exact (tags_from_requires _ _ _ Hu _ Hr).
  Qed.
  Lemma tags_requires_error t anc b :
    d_kind (tree_dir t) = KTags -> d_unnamed (tree_dir t) = [] -> d_annot (tree_dir t) = [] ->
    step bt (t, anc) b = CErr (req_err (tree_dir t)).
  Proof. intros Hk Hu Ha. step_kind Hk. rewrite tags_from_directive_eq, Hu, Ha. reflexivity. Qed.
End Required.

(* ------------------------------------------------------------------------------------------ *)
(* ENUM names (collect_enums, over the top-level list before expansion), TAG names
   (collect_tags, over the expanded top-level list)                                             *)
(* ------------------------------------------------------------------------------------------ *)
Lemma collect_enums_app l1 l2 e : collect_enums (l1 ++ l2) e = collect_enums l1 e >>=c collect_enums l2.
Proof.
  revert e. induction l1 as [|t l1 IH]; intros e; [reflexivity|]. cbn [app collect_enums].
  destruct (kind_eqb (d_kind (tree_dir t)) KEnum); [|apply IH].
  destruct (beq (named (tree_dir t) (bs "Name")) []); [reflexivity|].
  destruct (d_body (tree_dir t)); [|apply IH].
  destruct (om_has beq e (named (tree_dir t) (bs "Name"))); [reflexivity | apply IH].
Qed.

Lemma collect_enums_mono l : forall e e', collect_enums l e = COk e' -> names_le e e'.
Proof.
  induction l as [|t l IH]; intros e e'; cbn [collect_enums].
  - intros H. injection H as <-. intros n H; exact H.
  - destruct (kind_eqb (d_kind (tree_dir t)) KEnum); [|apply IH].
    destruct (beq (named (tree_dir t) (bs "Name")) []); [discriminate|].
    destruct (d_body (tree_dir t)); [|apply IH].
    destruct (om_has beq e (named (tree_dir t) (bs "Name"))); [discriminate|].
    intros H n Hn. apply (IH _ _ H). now apply om_has_mono_app.
Qed.

Definition is_enum_decl (t : dtree) (n : bytes) : Prop :=
  d_kind (tree_dir t) = KEnum /\ named (tree_dir t) (bs "Name") = n /\ d_body (tree_dir t) <> None.

Lemma collect_enums_head_adds t l e e' n :
  is_enum_decl t n -> collect_enums (t :: l) e = COk e' -> om_has beq e' n = true.
Proof.
  intros (Hk & Hn & Hb). cbn [collect_enums]. rewrite Hk, Hn. cbn [kind_eqb kind_idx N.eqb Pos.eqb].
  destruct (beq n []); [discriminate|]. destruct (d_body (tree_dir t)); [|congruence].
  destruct (om_has beq e n); [discriminate|]. intros H. apply (collect_enums_mono _ _ _ H). apply (om_has_snoc beq beq_eq).
Qed.

Lemma collect_enums_head_refuses t l e n :
  is_enum_decl t n -> om_has beq e n = true -> not_ok (collect_enums (t :: l) e).
Proof.
  intros (Hk & Hn & Hb) Hh r. cbn [collect_enums]. rewrite Hk, Hn, Hh. cbn [kind_eqb kind_idx N.eqb Pos.eqb].
  destruct (beq n []); [discriminate|]. destruct (d_body (tree_dir t)); [discriminate | congruence].
Qed.

Lemma dup_enum_not_ok pre pe t1 t2 n :
  occurs_before t1 t2 pre -> is_enum_decl t1 n -> is_enum_decl t2 n -> not_ok (collect_enums pre pe).
Proof.
  intros (l1 & l2 & l3 & ->) H1 H2 r H. rewrite collect_enums_app in H.
  apply cbind_ok in H as (e1 & _ & H).
  change (t1 :: l2 ++ t2 :: l3) with ((t1 :: l2) ++ t2 :: l3) in H. rewrite collect_enums_app in H.
  apply cbind_ok in H as (e2 & H12 & H).
  assert (Hh : om_has beq e2 n = true).
  { change (t1 :: l2) with ([t1] ++ l2) in H12. rewrite collect_enums_app in H12.
    apply cbind_ok in H12 as (e1' & Ha & Hb). apply (collect_enums_mono _ _ _ Hb).
    exact (collect_enums_head_adds _ _ _ _ _ H1 Ha). }
  exact (collect_enums_head_refuses _ _ _ _ H2 Hh _ H).
Qed.

Lemma dup_enum_error l1 t1 l2 t2 l3 pe e' n :
  is_enum_decl t1 n -> is_enum_decl t2 n -> n <> [] ->
  collect_enums (l1 ++ t1 :: l2) pe = COk e' ->
  collect_enums (l1 ++ t1 :: l2 ++ t2 :: l3) pe = CErr (kw_err (tree_dir t2) (msg "duplicate names")).
Proof.
  intros H1 H2 Hne H.
  replace (l1 ++ t1 :: l2 ++ t2 :: l3) with ((l1 ++ t1 :: l2) ++ t2 :: l3) by (rewrite <- app_assoc; reflexivity).
  rewrite collect_enums_app, H. cbn [cbind].
  assert (Hh : om_has beq e' n = true).
  { rewrite collect_enums_app in H. apply cbind_ok in H as (e1 & _ & H).
    change (t1 :: l2) with ([t1] ++ l2) in H. rewrite collect_enums_app in H.
    apply cbind_ok in H as (e1' & Ha & Hb). apply (collect_enums_mono _ _ _ Hb).
    exact (collect_enums_head_adds _ _ _ _ _ H1 Ha). }
  destruct H2 as (Hk & Hn & Hb). cbn [collect_enums]. rewrite Hk, Hn, Hh, (proj2 (sc_beq_false _ _) Hne).
  cbn [kind_eqb kind_idx N.eqb Pos.eqb]. destruct (d_body (tree_dir t2)); [reflexivity | congruence].
Qed.

Lemma enum_requires pre pe t :
  In t pre -> d_kind (tree_dir t) = KEnum -> named (tree_dir t) (bs "Name") = [] -> not_ok (collect_enums pre pe).
Proof.
  intros Hin Hk Hn r H. apply in_split in Hin as (l1 & l2 & ->). rewrite collect_enums_app in H.
  apply cbind_ok in H as (e1 & _ & H). cbn [collect_enums] in H. rewrite Hk, Hn in H. discriminate.
Qed.

Lemma collect_tags_app l1 l2 e : collect_tags (l1 ++ l2) e = collect_tags l1 e >>=c collect_tags l2.
Proof.
  revert e. induction l1 as [|t l1 IH]; intros e; [reflexivity|]. cbn [app collect_tags].
  destruct (kind_eqb (d_kind (tree_dir t)) KTAG); [|apply IH].
  destruct (beq (named (tree_dir t) (bs "TagName")) []); [reflexivity|].
  destruct (om_has beq e (named (tree_dir t) (bs "TagName"))); [reflexivity | apply IH].
Qed.

Lemma collect_tags_mono l : forall e e', collect_tags l e = COk e' -> names_le e e'.
Proof.
  induction l as [|t l IH]; intros e e'; cbn [collect_tags].
  - intros H. injection H as <-. intros n H; exact H.
  - destruct (kind_eqb (d_kind (tree_dir t)) KTAG); [|apply IH].
    destruct (beq (named (tree_dir t) (bs "TagName")) []); [discriminate|].
    destruct (om_has beq e (named (tree_dir t) (bs "TagName"))); [discriminate|].
    intros H n Hn. apply (IH _ _ H). now apply om_has_mono_app.
Qed.

(* the names collect_tags can produce: the declared ones *)
Lemma collect_tags_keys l : forall e e' n, collect_tags l e = COk e' -> om_has beq e' n = true ->
  om_has beq e n = true \/ exists t, In t l /\ d_kind (tree_dir t) = KTAG /\ named (tree_dir t) (bs "TagName") = n.
Proof.
  induction l as [|t l IH]; intros e e' n; cbn [collect_tags].
  - intros H. injection H as <-. auto.
  - destruct (kind_eqb (d_kind (tree_dir t)) KTAG) eqn:Hk.
    + destruct (beq (named (tree_dir t) (bs "TagName")) []); [discriminate|].
      destruct (om_has beq e (named (tree_dir t) (bs "TagName"))); [discriminate|].
      intros H Hn. destruct (IH _ _ _ H Hn) as [Hh | (t' & Hin & Hk' & Hn')].
      * rewrite om_has_app in Hh. apply orb_true_iff in Hh as [Hh|Hh]; [left; exact Hh|].
        right. exists t. split; [left; reflexivity|]. split; [now apply sc_kind_eqb_eq|].
        unfold om_has in Hh. cbn [existsb fst] in Hh. rewrite orb_false_r in Hh. now apply beq_eq in Hh.
      * right. exists t'. split; [right; exact Hin | auto].
    + intros H Hn. destruct (IH _ _ _ H Hn) as [Hh | (t' & Hin & Hk' & Hn')]; [left; exact Hh|].
      right. exists t'. split; [right; exact Hin | auto].
Qed.

Definition is_tag_decl (t : dtree) (n : bytes) : Prop :=
  d_kind (tree_dir t) = KTAG /\ named (tree_dir t) (bs "TagName") = n.

Lemma collect_tags_head_adds t l e e' n :
  is_tag_decl t n -> collect_tags (t :: l) e = COk e' -> om_has beq e' n = true.
Proof.
  intros (Hk & Hn). cbn [collect_tags]. rewrite Hk, Hn. cbn [kind_eqb kind_idx N.eqb Pos.eqb].
  destruct (beq n []); [discriminate|]. destruct (om_has beq e n); [discriminate|].
  intros H. apply (collect_tags_mono _ _ _ H). apply (om_has_snoc beq beq_eq).
Qed.

Lemma collect_tags_head_refuses t l e n :
  is_tag_decl t n -> om_has beq e n = true -> not_ok (collect_tags (t :: l) e).
Proof.
  intros (Hk & Hn) Hh r. cbn [collect_tags]. rewrite Hk, Hn, Hh. cbn [kind_eqb kind_idx N.eqb Pos.eqb].
  destruct (beq n []); discriminate.
Qed.

Lemma dup_tag_not_ok post e0 t1 t2 n :
  occurs_before t1 t2 post -> is_tag_decl t1 n -> is_tag_decl t2 n -> not_ok (collect_tags post e0).
Proof.
  intros (l1 & l2 & l3 & ->) H1 H2 r H. rewrite collect_tags_app in H.
  apply cbind_ok in H as (e1 & _ & H).
  change (t1 :: l2 ++ t2 :: l3) with ((t1 :: l2) ++ t2 :: l3) in H. rewrite collect_tags_app in H.
  apply cbind_ok in H as (e2 & H12 & H).
  assert (Hh : om_has beq e2 n = true).
  { change (t1 :: l2) with ([t1] ++ l2) in H12. rewrite collect_tags_app in H12.
    apply cbind_ok in H12 as (e1' & Ha & Hb). apply (collect_tags_mono _ _ _ Hb).
    exact (collect_tags_head_adds _ _ _ _ _ H1 Ha). }
  exact (collect_tags_head_refuses _ _ _ _ H2 Hh _ H).
Qed.

Lemma dup_tag_error l1 t1 l2 t2 l3 e0 e' n :
  is_tag_decl t1 n -> is_tag_decl t2 n -> n <> [] ->
  collect_tags (l1 ++ t1 :: l2) e0 = COk e' ->
  collect_tags (l1 ++ t1 :: l2 ++ t2 :: l3) e0 = CErr (kw_err (tree_dir t2) (msg "duplicate names")).
Proof.
  intros H1 H2 Hne H.
  replace (l1 ++ t1 :: l2 ++ t2 :: l3) with ((l1 ++ t1 :: l2) ++ t2 :: l3) by (rewrite <- app_assoc; reflexivity).
  rewrite collect_tags_app, H. cbn [cbind].
  assert (Hh : om_has beq e' n = true).
  { rewrite collect_tags_app in H. apply cbind_ok in H as (e1 & _ & H).
    change (t1 :: l2) with ([t1] ++ l2) in H. rewrite collect_tags_app in H.
    apply cbind_ok in H as (e1' & Ha & Hb). apply (collect_tags_mono _ _ _ Hb).
    exact (collect_tags_head_adds _ _ _ _ _ H1 Ha). }
  destruct H2 as (Hk & Hn). cbn [collect_tags]. rewrite Hk, Hn, Hh, (proj2 (sc_beq_false _ _) Hne). reflexivity.
Qed.

Lemma tag_requires post e0 t :
  In t post -> d_kind (tree_dir t) = KTAG -> named (tree_dir t) (bs "TagName") = [] -> not_ok (collect_tags post e0).
Proof.
  intros Hin Hk Hn r H. apply in_split in Hin as (l1 & l2 & ->). rewrite collect_tags_app in H.
  apply cbind_ok in H as (e1 & _ & H). cbn [collect_tags] in H. rewrite Hk, Hn in H. discriminate.
Qed.

(* ------------------------------------------------------------------------------------------ *)
(* MACRO / PASTE (model/Core.v)                                                                 *)
(* ------------------------------------------------------------------------------------------ *)
Definition is_macro_decl (t : dtree) (n : bytes) : Prop :=
  d_kind (tree_dir t) = KMacro /\ named (tree_dir t) (bs "Name") = n.

Lemma macro_lookup_snoc m n t : macro_lookup (m ++ [(n, t)]) n <> None.
Proof.
  unfold macro_lookup. induction m as [|e m IH]; cbn [app find fst].
  - now rewrite beq_refl.
  - destruct (beq (fst e) n); [discriminate | exact IH].
Qed.

Lemma macro_lookup_mono_app m x n : macro_lookup m n <> None -> macro_lookup (m ++ x) n <> None.
Proof.
  unfold macro_lookup. induction m as [|e m IH]; cbn [app find]; [congruence|].
  destruct (beq (fst e) n); [discriminate | exact IH].
Qed.

Lemma collect_macro_mono ts : forall m r n, collect_macro ts m = COk r -> macro_lookup m n <> None -> macro_lookup (snd r) n <> None.
Proof.
  induction ts as [|t ts IH]; intros m r n; cbn [collect_macro].
  - intros H. injection H as <-. auto.
  - destruct (kind_eqb (d_kind (tree_dir t)) KMacro).
    + destruct (negb (beq (d_annot (tree_dir t)) [])); [discriminate|].
      destruct (beq (named (tree_dir t) (bs "Name")) []); [discriminate|].
      destruct (tree_kids t); [discriminate|].
      destruct (macro_lookup m (named (tree_dir t) (bs "Name"))); [discriminate|].
      intros H Hn. apply (IH _ _ _ H). now apply macro_lookup_mono_app.
    + intros H Hn. apply cbind_ok in H as (x & Hx & H). injection H as <-. cbn [snd]. exact (IH _ _ _ Hx Hn).
Qed.

Lemma collect_macro_head_adds t ts m r n :
  is_macro_decl t n -> collect_macro (t :: ts) m = COk r -> macro_lookup (snd r) n <> None.
Proof.
  intros (Hk & Hn). cbn [collect_macro]. rewrite Hk, Hn. cbn [kind_eqb kind_idx N.eqb Pos.eqb].
  destruct (negb (beq (d_annot (tree_dir t)) [])); [discriminate|].
  destruct (beq n []); [discriminate|]. destruct (tree_kids t); [discriminate|].
  destruct (macro_lookup m n); [discriminate|].
  intros H. apply (collect_macro_mono _ _ _ _ H). apply macro_lookup_snoc.
Qed.

Lemma collect_macro_head_refuses t ts m n :
  is_macro_decl t n -> macro_lookup m n <> None -> not_ok (collect_macro (t :: ts) m).
Proof.
  intros (Hk & Hn) Hl r. cbn [collect_macro]. rewrite Hk, Hn. cbn [kind_eqb kind_idx N.eqb Pos.eqb].
  destruct (negb (beq (d_annot (tree_dir t)) [])); [discriminate|].
  destruct (beq n []); [discriminate|]. destruct (tree_kids t); [discriminate|].
  destruct (macro_lookup m n); [discriminate | congruence].
Qed.

Lemma dup_macro_collect l1 t1 l2 t2 l3 n : forall m,
  is_macro_decl t1 n -> is_macro_decl t2 n -> not_ok (collect_macro (l1 ++ t1 :: l2 ++ t2 :: l3) m).
Proof.
  intros m H1 H2. revert m.
  assert (Hmid : forall m, macro_lookup m n <> None -> not_ok (collect_macro (l2 ++ t2 :: l3) m)).
  { induction l2 as [|t l2 IH]; intros m Hl; cbn [app].
    - exact (collect_macro_head_refuses _ _ _ _ H2 Hl).
    - intros r. cbn [collect_macro]. destruct (kind_eqb (d_kind (tree_dir t)) KMacro).
      + destruct (negb (beq (d_annot (tree_dir t)) [])); [discriminate|].
        destruct (beq (named (tree_dir t) (bs "Name")) []); [discriminate|].
        destruct (tree_kids t); [discriminate|].
        destruct (macro_lookup m (named (tree_dir t) (bs "Name"))); [discriminate|].
        apply IH. now apply macro_lookup_mono_app.
      + intros H. apply cbind_ok in H as (x & Hx & _). exact (IH _ Hl _ Hx). }
  induction l1 as [|t l1 IH]; intros m; cbn [app].
  - intros r H. pose proof H as H'. revert H'. cbn [collect_macro].
    destruct H1 as (Hk & Hn). rewrite Hk, Hn. cbn [kind_eqb kind_idx N.eqb Pos.eqb].
    destruct (negb (beq (d_annot (tree_dir t1)) [])); [discriminate|].
    destruct (beq n []); [discriminate|]. destruct (tree_kids t1); [discriminate|].
    destruct (macro_lookup m n); [discriminate|].
    apply Hmid. apply macro_lookup_snoc.
  - intros r. cbn [collect_macro]. destruct (kind_eqb (d_kind (tree_dir t)) KMacro).
    + destruct (negb (beq (d_annot (tree_dir t)) [])); [discriminate|].
      destruct (beq (named (tree_dir t) (bs "Name")) []); [discriminate|].
      destruct (tree_kids t); [discriminate|].
      destruct (macro_lookup m (named (tree_dir t) (bs "Name"))); [discriminate|]. apply IH.
    + intros H. apply cbind_ok in H as (x & Hx & _). exact (IH _ _ Hx).
Qed.

Lemma expand_not_ok_of_collect ts : not_ok (collect_macro ts []) -> not_ok (expand ts).
Proof. intros H. unfold expand. now apply not_ok_bind_l. Qed.
Lemma expand_full_not_ok_of_collect ts : not_ok (collect_macro ts []) -> not_ok (expand_full ts).
Proof. intros H. unfold expand_full. now apply not_ok_bind_l. Qed.

Lemma macro_requires ts t : forall m,
  In t ts -> d_kind (tree_dir t) = KMacro -> named (tree_dir t) (bs "Name") = [] -> not_ok (collect_macro ts m).
Proof.
  induction ts as [|t0 ts IH]; intros m Hin Hk Hn r; [destruct Hin|]. cbn [collect_macro].
  destruct Hin as [->|Hin].
  - rewrite Hk, Hn. cbn [kind_eqb kind_idx N.eqb Pos.eqb beq].
    destruct (negb (beq (d_annot (tree_dir t)) [])); discriminate.
  - destruct (kind_eqb (d_kind (tree_dir t0)) KMacro).
    + destruct (negb (beq (d_annot (tree_dir t0)) [])); [discriminate|].
      destruct (beq (named (tree_dir t0) (bs "Name")) []); [discriminate|].
      destruct (tree_kids t0); [discriminate|].
      destruct (macro_lookup m (named (tree_dir t0) (bs "Name"))); [discriminate|]. exact (IH _ Hin Hk Hn _).
    + intros H. apply cbind_ok in H as (x & Hx & _). exact (IH _ Hin Hk Hn _ Hx).
Qed.

(* what collect_macro returns: the non-macro trees stay, in order; the table holds declared names only *)
Lemma collect_macro_rest ts : forall m r t,
  collect_macro ts m = COk r -> In t ts -> d_kind (tree_dir t) <> KMacro -> In t (fst r).
Proof.
  induction ts as [|t0 ts IH]; intros m r t H Hin Hk; [destruct Hin|]. cbn [collect_macro] in H.
  destruct (kind_eqb (d_kind (tree_dir t0)) KMacro) eqn:E.
  - destruct Hin as [->|Hin]; [apply sc_kind_eqb_eq in E; contradiction|].
    destruct (negb (beq (d_annot (tree_dir t0)) [])); [discriminate|].
    destruct (beq (named (tree_dir t0) (bs "Name")) []); [discriminate|].
    destruct (tree_kids t0); [discriminate|].
    destruct (macro_lookup m (named (tree_dir t0) (bs "Name"))); [discriminate|]. exact (IH _ _ _ H Hin Hk).
  - apply cbind_ok in H as (x & Hx & H). injection H as <-. cbn [fst].
    destruct Hin as [->|Hin]; [left; reflexivity | right; exact (IH _ _ _ Hx Hin Hk)].
Qed.

Lemma macro_lookup_app_none m x n : macro_lookup m n = None -> macro_lookup (m ++ x) n = macro_lookup x n.
Proof.
  unfold macro_lookup. induction m as [|e m IH]; cbn [app find]; [reflexivity|].
  destruct (beq (fst e) n); [discriminate | exact IH].
Qed.

Lemma collect_macro_table ts : forall m r n,
  collect_macro ts m = COk r -> macro_lookup (snd r) n <> None ->
  macro_lookup m n <> None \/ exists t, In t ts /\ is_macro_decl t n.
Proof.
  induction ts as [|t0 ts IH]; intros m r n H Hl; cbn [collect_macro] in H.
  - injection H as <-. left. exact Hl.
  - destruct (kind_eqb (d_kind (tree_dir t0)) KMacro) eqn:E.
    + destruct (negb (beq (d_annot (tree_dir t0)) [])); [discriminate|].
      destruct (beq (named (tree_dir t0) (bs "Name")) []); [discriminate|].
      destruct (tree_kids t0); [discriminate|].
      destruct (macro_lookup m (named (tree_dir t0) (bs "Name"))) eqn:El; [discriminate|].
      destruct (IH _ _ _ H Hl) as [Hm | (t & Hin & Hd)].
      * destruct (macro_lookup m n) eqn:Em; [left; discriminate|].
        rewrite (macro_lookup_app_none _ _ _ Em) in Hm. unfold macro_lookup in Hm. cbn [find fst] in Hm.
        destruct (beq (named (tree_dir t0) (bs "Name")) n) eqn:Eb; [|congruence].
        right. exists t0. split; [left; reflexivity|]. split; [now apply sc_kind_eqb_eq | now apply beq_eq].
      * right. exists t. split; [right; exact Hin | exact Hd].
    + apply cbind_ok in H as (x & Hx & H). injection H as <-. cbn [snd] in Hl.
      destruct (IH _ _ _ Hx Hl) as [Hm | (t & Hin & Hd)]; [left; exact Hm|].
      right. exists t. split; [right; exact Hin | exact Hd].
Qed.

(* a top-level PASTE that cannot be expanded stops paste_list, whatever the fuel *)
Lemma paste_list_bad_paste m ts t :
  In t ts -> d_kind (tree_dir t) = KPaste ->
  (named (tree_dir t) (bs "Name") = [] \/ macro_lookup m (named (tree_dir t) (bs "Name")) = None) ->
  forall fuel p, not_ok (paste_list fuel m ts p).
Proof.
  intros Hin Hk Hbad. induction ts as [|t0 ts IH]; [destruct Hin|].
  intros fuel p r. destruct fuel as [|f]; [discriminate|]. cbn [paste_list].
  destruct Hin as [->|Hin].
  - rewrite Hk. cbn [kind_eqb kind_idx N.eqb Pos.eqb].
    destruct (negb (beq (d_annot (tree_dir t)) [])); [discriminate|].
    destruct Hbad as [Hn|Hl].
    + rewrite Hn. cbn [beq]. discriminate.
    + destruct (beq (named (tree_dir t) (bs "Name")) []); [discriminate|]. rewrite Hl. discriminate.
  - intros H. apply cbind_ok in H as (p2 & _ & H). exact (IH Hin _ _ _ H).
Qed.

Lemma expand_bad_paste ts t :
  In t ts -> d_kind (tree_dir t) = KPaste ->
  (named (tree_dir t) (bs "Name") = [] \/
   forall t', In t' ts -> ~ is_macro_decl t' (named (tree_dir t) (bs "Name"))) ->
  not_ok (expand ts).
Proof.
  intros Hin Hk Hbad r. unfold expand. intros H. apply cbind_ok in H as ([rest m] & Hc & H).
  apply cbind_ok in H as (u & _ & H). apply cbind_ok in H as (p & Hp & _).
  assert (Hr : In t rest) by (apply (collect_macro_rest _ _ _ _ Hc Hin); congruence).
  refine (paste_list_bad_paste m rest t Hr Hk _ _ _ _ Hp).
  destruct Hbad as [Hn | Hno]; [left; exact Hn|]. right.
  destruct (macro_lookup m (named (tree_dir t) (bs "Name"))) eqn:El; [|reflexivity]. exfalso.
  destruct (collect_macro_table _ _ _ (named (tree_dir t) (bs "Name")) Hc) as [Hm | (t' & Hin' & Hd)].
  - cbn [snd]. congruence.
  - now apply Hm.
  - exact (Hno t' Hin' Hd).
Qed.

(* ------------------------------------------------------------------------------------------ *)
(* Tags can name declared tags only: a name that no TAG directive declares is, at any moment,
   absent from the collection or an automatic path tag                                          *)
(* ------------------------------------------------------------------------------------------ *)
Definition auto_or_absent (n : bytes) (tags : list (bytes * tag)) : Prop :=
  forall t, om_get beq tags n = Some t -> t_auto t = true.

Lemma auto_or_absent_update n tags m f :
  (forall t, t_auto (f t) = t_auto t) -> auto_or_absent n tags -> auto_or_absent n (om_update beq tags m f).
Proof.
  intros Hf H t. rewrite (om_get_update beq beq_eq). destruct (om_get beq tags n) as [t0|] eqn:E; [|discriminate].
  intros X. injection X as <-. destruct (beq n m); [rewrite Hf|]; exact (H t0 E).
Qed.

Lemma tag_add_iid_auto t i : t_auto (tag_add_iid t i) = t_auto t.
Proof. unfold tag_add_iid. now destruct (i_proto i). Qed.

Lemma tags_go_auto td i ns n : forall acc tg r,
  tags_go td i ns acc tg = COk r -> auto_or_absent n tg -> auto_or_absent n (snd r).
Proof.
  induction ns as [|m ns IH]; intros acc tg r; cbn [tags_go].
  - intros H. injection H as <-. auto.
  - destruct (om_get beq tg m) as [t|]; [|discriminate]. destruct (t_auto t); [discriminate|]. intros H Ha.
    apply (IH _ _ _ H). destruct i as [j|]; [|exact Ha]. apply auto_or_absent_update; [|exact Ha].
    intros t0. apply tag_add_iid_auto.
Qed.

Lemma tags_go_undeclared td i ns n : forall acc tg, In n ns -> auto_or_absent n tg -> not_ok (tags_go td i ns acc tg).
Proof.
  induction ns as [|m ns IH]; intros acc tg Hin Ha r; [destruct Hin|]. cbn [tags_go].
  destruct (om_get beq tg m) as [t|] eqn:G; [|discriminate]. destruct (t_auto t) eqn:Et; [discriminate|].
  destruct Hin as [->|Hin].
  - rewrite (Ha t G) in Et. discriminate.
  - apply IH; [exact Hin|]. destruct i as [j|]; [|exact Ha]. apply auto_or_absent_update; [|exact Ha].
    intros t0. apply tag_add_iid_auto.
Qed.

Lemma tags_from_directive_undeclared td i tags n :
  In n (d_unnamed td) -> auto_or_absent n tags -> not_ok (tags_from_directive td i tags).
Proof.
  intros Hin Ha r. rewrite tags_from_directive_eq. destruct (negb (beq (d_annot td) [])); [discriminate|].
  destruct (d_unnamed td) eqn:E; [destruct Hin|]. exact (tags_go_undeclared _ _ _ _ _ _ Hin Ha r).
Qed.

Lemma tags_from_directive_auto td i tags r n :
  tags_from_directive td i tags = COk r -> auto_or_absent n tags -> auto_or_absent n (snd r).
Proof.
  rewrite tags_from_directive_eq. destruct (negb (beq (d_annot td) [])); [discriminate|].
  destruct (d_unnamed td) eqn:E; [discriminate|]. apply tags_go_auto.
Qed.

Lemma tags_for_auto me anc i tags r n :
  tags_for me anc i tags = COk r -> auto_or_absent n tags -> auto_or_absent n (snd r).
Proof.
  rewrite tags_for_eq. destruct (tags_directive me anc) as [td|]; [apply tags_from_directive_auto|].
  cbv zeta. intros H Ha. injection H as <-. cbn [snd].
  apply auto_or_absent_update; [intros t0; apply tag_add_iid_auto|].
  destruct (om_has beq tags (auto_tag_name (i_path i))) eqn:Eh; [exact Ha|].
  intros t. destruct (om_get beq tags n) as [t0|] eqn:G.
  - rewrite (om_get_app_l beq _ _ _ _ G). intros X. injection X as <-. exact (Ha t0 G).
  - rewrite (om_get_app_r beq); [|now apply (om_get_none_has beq)]. unfold om_get. cbn [find fst snd].
    destruct (beq (auto_tag_name (i_path i)) n); [|discriminate]. intros X. injection X as <-. reflexivity.
Qed.

(* the declared names: collect_tags *)
Lemma collect_tags_undeclared post tg n :
  collect_tags post [] = COk tg -> (forall t, In t post -> ~ is_tag_decl t n) -> auto_or_absent n tg.
Proof.
  intros H Hno t G. exfalso.
  assert (Hh : om_has beq tg n = true) by (apply (om_get_has beq); eauto).
  destruct (collect_tags_keys _ _ _ _ H Hh) as [X | (t' & Hin & Hk & Hn)]; [discriminate|].
  exact (Hno t' Hin (conj Hk Hn)).
Qed.

Section TagKeys.
  Variable bt : coords -> bytes.

  Lemma step_keeps_undeclared x b b' n :
    step bt x b = COk b' -> auto_or_absent n (c_tags (b_cat b)) -> auto_or_absent n (c_tags (b_cat b')).
  Proof.
    destruct x as [t anc].
    destruct (d_kind (tree_dir t)) eqn:Hk; step_kind Hk; crack Hk.
    all: try solve [intros H; injection H as <-; cbn [b_cat with_cat c_tags upd_jsight upd_info upd_servers upd_types upd_http upd_rpc upd_inters upd_tags];
                    first [exact (fun X => X) | (intros Ha; apply auto_or_absent_update; [intros ?; reflexivity | exact Ha])]].
    all: try (intros H; apply cbind_ok in H as (b1 & H1 & H); apply check_path_inv in H1 as (_ & _ & Hc & _); revert H; crack Hk).
    all: try solve [intros H; injection H as <-; cbn [b_cat]; rewrite Hc; exact (fun X => X)].
    all: try solve [intros H Ha; apply cbind_ok in H as (tg & Ht & H); injection H as <-;
                    cbn [b_cat with_cat c_tags upd_inters upd_tags]; try rewrite <- Hc in Ha; exact (tags_for_auto _ _ _ _ _ _ Ht Ha)].
    (* Tags *)
    all: intros H; apply cbind_ok in H as (r0 & _ & H); injection H as <-; exact (fun X => X).
  Qed.

  Lemma run_keeps_undeclared l n : forall b b',
    run bt l b = COk b' -> auto_or_absent n (c_tags (b_cat b)) -> auto_or_absent n (c_tags (b_cat b')).
  Proof.
    induction l as [|x l IH]; intros b b' H Ha.
    - injection H as <-. exact Ha.
    - cbn [run] in H. apply cbind_ok in H as (b1 & H1 & H2). exact (IH _ _ H2 (step_keeps_undeclared _ _ _ _ H1 Ha)).
  Qed.

  Lemma tags_undeclared_refuses t anc b n :
    d_kind (tree_dir t) = KTags -> In n (d_unnamed (tree_dir t)) -> auto_or_absent n (c_tags (b_cat b)) ->
    not_ok (step bt (t, anc) b).
  Proof.
    intros Hk Hin Ha b'. unfold not. step_kind Hk. intros H. apply cbind_ok in H as (r & Hr & _).
    exact (tags_from_directive_undeclared _ _ _ _ Hin Ha _ Hr).
  Qed.
End TagKeys.

(* ------------------------------------------------------------------------------------------ *)
(* C11: the theorems                                                                            *)
(* ------------------------------------------------------------------------------------------ *)
(* ------------------------------------------------------------------------------------------ *)
(* TYPE names (check_dup_types = collectUserTypes, over the expanded top-level list, before the
   types are compiled and before add_all)                                                       *)
(* ------------------------------------------------------------------------------------------ *)
Definition is_type_decl (t : dtree) (n : bytes) : Prop :=
  d_kind (tree_dir t) = KType /\ named (tree_dir t) (bs "Name") = n.

Fixpoint types_seen (ts : list dtree) (seen : list bytes) : list bytes :=
  match ts with
  | [] => seen
  | t :: r =>
    if kind_eqb (d_kind (tree_dir t)) KType then
      if beq (named (tree_dir t) (bs "Name")) [] then types_seen r seen
      else types_seen r (named (tree_dir t) (bs "Name") :: seen)
    else types_seen r seen
  end.

Lemma cdt_app l1 : forall l2 seen,
  check_dup_types (l1 ++ l2) seen =
  match check_dup_types l1 seen with COk _ => check_dup_types l2 (types_seen l1 seen) | x => x end.
Proof.
  induction l1 as [|t l1 IH]; intros l2 seen; cbn [app check_dup_types types_seen].
  - destruct (check_dup_types l2 seen) as [[]| | |]; reflexivity.
  - destruct (kind_eqb (d_kind (tree_dir t)) KType); [|apply IH].
    destruct (beq (named (tree_dir t) (bs "Name")) []); [apply IH|].
    destruct (existsb (beq (named (tree_dir t) (bs "Name"))) seen); [reflexivity | apply IH].
Qed.

Lemma types_seen_mono l : forall seen n, existsb (beq n) seen = true -> existsb (beq n) (types_seen l seen) = true.
Proof.
  induction l as [|t l IH]; intros seen n H; cbn [types_seen]; [exact H|].
  destruct (kind_eqb (d_kind (tree_dir t)) KType); [|now apply IH].
  destruct (beq (named (tree_dir t) (bs "Name")) []); apply IH; [exact H|]. cbn [existsb]. rewrite H. apply orb_true_r.
Qed.

Lemma types_seen_head t l seen n :
  is_type_decl t n -> n <> [] -> existsb (beq n) (types_seen (t :: l) seen) = true.
Proof.
  intros (Hk & Hn) Hne. cbn [types_seen]. rewrite Hk, Hn, (proj2 (sc_beq_false _ _) Hne).
  cbn [kind_eqb kind_idx N.eqb Pos.eqb]. apply types_seen_mono. cbn [existsb]. now rewrite beq_refl.
Qed.

Lemma cdt_head_error t l seen n :
  is_type_decl t n -> n <> [] -> existsb (beq n) seen = true ->
  check_dup_types (t :: l) seen = CErr (kw_err (tree_dir t) (msg "duplicate names")).
Proof.
  intros (Hk & Hn) Hne Hs. cbn [check_dup_types]. rewrite Hk, Hn, (proj2 (sc_beq_false _ _) Hne), Hs. reflexivity.
Qed.

Lemma dup_type_check_error l1 t1 l2 t2 l3 seen n u :
  is_type_decl t1 n -> is_type_decl t2 n -> n <> [] ->
  check_dup_types (l1 ++ t1 :: l2) seen = COk u ->
  check_dup_types (l1 ++ t1 :: l2 ++ t2 :: l3) seen = CErr (kw_err (tree_dir t2) (msg "duplicate names")).
Proof.
  intros H1 H2 Hne H.
  replace (l1 ++ t1 :: l2 ++ t2 :: l3) with ((l1 ++ t1 :: l2) ++ t2 :: l3) by (rewrite <- app_assoc; reflexivity).
  rewrite cdt_app, H. apply (cdt_head_error _ _ _ n H2 Hne).
  rewrite cdt_app in H. destruct (check_dup_types l1 seen); try discriminate.
  clear H. revert seen. induction l1 as [|t l1 IH]; intros seen; cbn [app].
  - exact (types_seen_head _ _ _ _ H1 Hne).
  - cbn [types_seen]. destruct (kind_eqb (d_kind (tree_dir t)) KType); [|apply IH].
    destruct (beq (named (tree_dir t) (bs "Name")) []); apply IH.
Qed.

Lemma dup_type_check_not_ok post seen t1 t2 n :
  occurs_before t1 t2 post -> is_type_decl t1 n -> is_type_decl t2 n -> n <> [] -> not_ok (check_dup_types post seen).
Proof.
  intros (l1 & l2 & l3 & ->) H1 H2 Hne u H.
  destruct (check_dup_types (l1 ++ t1 :: l2) seen) as [v| | |] eqn:E.
  - rewrite (dup_type_check_error _ _ _ _ l3 _ _ _ H1 H2 Hne E) in H. discriminate.
  - replace (l1 ++ t1 :: l2 ++ t2 :: l3) with ((l1 ++ t1 :: l2) ++ t2 :: l3) in H by (rewrite <- app_assoc; reflexivity).
    rewrite cdt_app, E in H. discriminate.
  - replace (l1 ++ t1 :: l2 ++ t2 :: l3) with ((l1 ++ t1 :: l2) ++ t2 :: l3) in H by (rewrite <- app_assoc; reflexivity).
    rewrite cdt_app, E in H. discriminate.
  - replace (l1 ++ t1 :: l2 ++ t2 :: l3) with ((l1 ++ t1 :: l2) ++ t2 :: l3) in H by (rewrite <- app_assoc; reflexivity).
    rewrite cdt_app, E in H. discriminate.
Qed.

Lemma enum_requires_error l1 t l2 e0 e1 :
  d_kind (tree_dir t) = KEnum -> named (tree_dir t) (bs "Name") = [] -> collect_enums l1 e0 = COk e1 ->
  collect_enums (l1 ++ t :: l2) e0 = CErr (kw_err (tree_dir t) (msg "required parameter")).
Proof. intros Hk Hn H. rewrite collect_enums_app, H. cbn [cbind collect_enums]. rewrite Hk, Hn. reflexivity. Qed.

Section C11.
  Variable pp : coords -> option (list bytes).
  Variable bt : coords -> bytes.

  Definition stages_ok (post : list dtree) en tg pvs : Prop :=
    collect_enums post [] = COk en /\ collect_tags post [] = COk tg /\ check_dup_types post [] = COk tt /\
    collect_paths_all pp post [] = COk pvs /\
    exists first rest, post = first :: rest /\ d_kind (tree_dir first) = KJsight.

  (* generic: whatever the fault, the first diagnostic of add_all is the diagnostic of ONE directive,
     and every directive before it was processed without error *)
  Lemma first_error_is_a_step_lemma post en tg pvs e :
    stages_ok post en tg pvs ->
    run bt (preorder_all post) (init_b en tg) = CErr e ->
    build pp bt [] post = CErr e /\
    exists l1 y l3 b1, preorder_all post = l1 ++ y :: l3 /\ run bt l1 (init_b en tg) = COk b1 /\ step bt y b1 = CErr e.
  Proof.
    intros (He & Ht & Hd & Hp & Hj) Hr. destruct (run_first_error bt _ _ _ Hr) as (l1 & y & l3 & b1 & Hl & H1 & Hs).
    split; [|eauto 8]. exact (build_located pp bt _ _ _ _ _ _ _ _ _ He Ht Hd Hp Hj Hl H1 Hs).
  Qed.

  Lemma located_lemma post en tg pvs l1 y l3 b1 e :
    stages_ok post en tg pvs -> preorder_all post = l1 ++ y :: l3 ->
    run bt l1 (init_b en tg) = COk b1 -> step bt y b1 = CErr e -> build pp bt [] post = CErr e.
  Proof. intros (He & Ht & Hd & Hp & Hj) Hl Hr Hs. exact (build_located pp bt _ _ _ _ _ _ _ _ _ He Ht Hd Hp Hj Hl Hr Hs). Qed.

  (* two occurrences: x leaves F behind, F stays, y cannot be added while F holds *)
  Lemma two_lemma (F : bstate -> Prop) post x y :
    occurs_before x y (preorder_all post) ->
    (forall b b', step bt x b = COk b' -> F b') ->
    (forall b b', ble b b' -> F b -> F b') ->
    (forall b, F b -> not_ok (step bt y b)) ->
    not_ok (build pp bt [] post).
  Proof.
    intros Ho HA HM HB. apply build_not_ok_run; [exact (occurs_before_ne _ _ _ Ho)|].
    exact (run_two_not_ok bt F _ x y Ho HA HM HB).
  Qed.

  Lemma one_lemma post x :
    In x (preorder_all post) -> (forall b, not_ok (step bt x b)) -> not_ok (build pp bt [] post).
  Proof.
    intros Hin Hx. apply build_not_ok_run; [exact (in_ne _ _ Hin)|]. exact (run_one_not_ok bt _ x Hin Hx).
  Qed.

  Lemma F_at_second (F : bstate -> Prop) l1 x l2 b0 b1 :
    (forall b b', step bt x b = COk b' -> F b') -> (forall b b', ble b b' -> F b -> F b') ->
    run bt (l1 ++ x :: l2) b0 = COk b1 -> F b1.
  Proof.
    intros HA HM H. apply run_split in H as (a & a' & _ & Hx & H2). apply run_le in H2. exact (HM _ _ H2 (HA _ _ Hx)).
  Qed.

  (* ---- duplicate names ---- *)
  Lemma dup_type_lemma post x y :
    occurs_before x y (preorder_all post) -> d_kind (ndir x) = KType -> d_kind (ndir y) = KType ->
    named (ndir x) (bs "Name") = named (ndir y) (bs "Name") -> not_ok (build pp bt [] post).
  Proof.
    destruct x as [t1 a1], y as [t2 a2]. unfold ndir. cbn [fst]. intros Ho K1 K2 En.
    apply (two_lemma (fun b => om_has beq (c_types (b_cat b)) (named (tree_dir t2) (bs "Name")) = true) _ _ _ Ho).
    - intros b b' H. rewrite <- En. exact (type_adds bt _ _ _ _ K1 H).
    - intros b b' L. apply (cle_types _ _ (ble_cat _ _ L)).
    - intros b. apply type_refuses. exact K2.
  Qed.

  (* collectUserTypes: the second TYPE of a name, in the top-level list; precedes add_all, so it wins over
     "JSIGHT should be the first directive" and every add_all diagnostic *)
  Lemma dup_type_toplevel_lemma post t1 t2 n :
    occurs_before t1 t2 post -> is_type_decl t1 n -> is_type_decl t2 n -> n <> [] -> not_ok (build pp bt [] post).
  Proof.
    intros Ho H1 H2 Hne. unfold build. apply not_ok_bind_r. intros en _. apply not_ok_bind_r. intros tg _.
    apply not_ok_bind_l. exact (dup_type_check_not_ok _ _ _ _ _ Ho H1 H2 Hne).
  Qed.

  Lemma dup_type_located_lemma en tg l1 t1 l2 t2 l3 n u :
    collect_enums (l1 ++ t1 :: l2 ++ t2 :: l3) [] = COk en -> collect_tags (l1 ++ t1 :: l2 ++ t2 :: l3) [] = COk tg ->
    is_type_decl t1 n -> is_type_decl t2 n -> n <> [] -> check_dup_types (l1 ++ t1 :: l2) [] = COk u ->
    build pp bt [] (l1 ++ t1 :: l2 ++ t2 :: l3) = CErr (kw_err (tree_dir t2) (msg "duplicate names")).
  Proof.
    intros He Ht H1 H2 Hne H. unfold build. rewrite He, Ht. cbn [cbind].
    now rewrite (dup_type_check_error _ _ _ _ l3 _ _ _ H1 H2 Hne H).
  Qed.

  Lemma dup_server_lemma post x y :
    occurs_before x y (preorder_all post) -> d_kind (ndir x) = KServer -> d_kind (ndir y) = KServer ->
    named (ndir x) (bs "Name") = named (ndir y) (bs "Name") -> not_ok (build pp bt [] post).
  Proof.
    destruct x as [t1 a1], y as [t2 a2]. unfold ndir. cbn [fst]. intros Ho K1 K2 En.
    apply (two_lemma (fun b => om_has beq (c_servers (b_cat b)) (named (tree_dir t2) (bs "Name")) = true) _ _ _ Ho).
    - intros b b' H. rewrite <- En. exact (server_adds bt _ _ _ _ K1 H).
    - intros b b' L. apply (cle_servers _ _ (ble_cat _ _ L)).
    - intros b. apply server_refuses. exact K2.
  Qed.

  Lemma dup_server_located_lemma post en tg pvs l1 x l2 y l3 b1 :
    stages_ok post en tg pvs -> preorder_all post = l1 ++ x :: l2 ++ y :: l3 ->
    d_kind (ndir x) = KServer -> d_kind (ndir y) = KServer ->
    named (ndir x) (bs "Name") = named (ndir y) (bs "Name") -> named (ndir y) (bs "Name") <> [] ->
    run bt (l1 ++ x :: l2) (init_b en tg) = COk b1 ->
    build pp bt [] post = CErr (kw_err (ndir y) (msg "duplicate names")).
  Proof.
    destruct x as [t1 a1], y as [t2 a2]. unfold ndir. cbn [fst]. intros Hs Hl K1 K2 En Hne Hr.
    apply (located_lemma _ _ _ _ (l1 ++ (t1, a1) :: l2) (t2, a2) l3 b1 _ Hs); [now rewrite <- app_assoc | exact Hr|].
    apply server_dup_error; [exact K2 | exact Hne|].
    apply (F_at_second (fun b => om_has beq (c_servers (b_cat b)) (named (tree_dir t2) (bs "Name")) = true) _ _ _ _ _) with (3 := Hr).
    - intros b b' H. rewrite <- En. exact (server_adds bt _ _ _ _ K1 H).
    - intros b b' L. apply (cle_servers _ _ (ble_cat _ _ L)).
  Qed.

  Lemma dup_enum_lemma post t1 t2 n :
    occurs_before t1 t2 post -> is_enum_decl t1 n -> is_enum_decl t2 n -> not_ok (build pp bt [] post).
  Proof. intros Ho H1 H2. unfold build. apply not_ok_bind_l. exact (dup_enum_not_ok _ _ _ _ _ Ho H1 H2). Qed.

  Lemma dup_enum_located_lemma l1 t1 l2 t2 l3 n e' :
    is_enum_decl t1 n -> is_enum_decl t2 n -> n <> [] -> collect_enums (l1 ++ t1 :: l2) [] = COk e' ->
    build pp bt [] (l1 ++ t1 :: l2 ++ t2 :: l3) = CErr (kw_err (tree_dir t2) (msg "duplicate names")).
  Proof. intros H1 H2 Hn H. unfold build. now rewrite (dup_enum_error _ _ _ _ _ _ _ _ H1 H2 Hn H). Qed.

  Lemma dup_tag_lemma post t1 t2 n :
    occurs_before t1 t2 post -> is_tag_decl t1 n -> is_tag_decl t2 n -> not_ok (build pp bt [] post).
  Proof.
    intros Ho H1 H2. unfold build. apply not_ok_bind_r. intros en _. apply not_ok_bind_l.
    exact (dup_tag_not_ok _ _ _ _ _ Ho H1 H2).
  Qed.

  Lemma dup_tag_located_lemma en l1 t1 l2 t2 l3 n e' :
    collect_enums (l1 ++ t1 :: l2 ++ t2 :: l3) [] = COk en ->
    is_tag_decl t1 n -> is_tag_decl t2 n -> n <> [] -> collect_tags (l1 ++ t1 :: l2) [] = COk e' ->
    build pp bt [] (l1 ++ t1 :: l2 ++ t2 :: l3) = CErr (kw_err (tree_dir t2) (msg "duplicate names")).
  Proof. intros He H1 H2 Hn H. unfold build. rewrite He. cbn [cbind]. now rewrite (dup_tag_error _ _ _ _ _ _ _ _ H1 H2 Hn H). Qed.

  (* ---- the same HTTP method on the same path, the same JSON-RPC method, the same URL ---- *)
  Lemma dup_method_lemma post x y i :
    occurs_before x y (preorder_all post) ->
    is_http_method (d_kind (ndir x)) = true -> is_http_method (d_kind (ndir y)) = true ->
    http_id (ndir x) (nanc x) = IdOk i -> http_id (ndir y) (nanc y) = IdOk i ->
    not_ok (build pp bt [] post).
  Proof.
    destruct x as [t1 a1], y as [t2 a2]. unfold ndir, nanc. cbn [fst snd]. intros Ho M1 M2 I1 I2.
    destruct (http_id_method_inv _ _ _ M1 I1) as (p1 & P1 & E1).
    destruct (http_id_method_inv _ _ _ M2 I2) as (p2 & P2 & E2).
    apply (two_lemma (fun b => om_has iid_eqb (c_inters (b_cat b)) i = true) _ _ _ Ho).
    - intros b b' H. rewrite E1. exact (method_adds bt _ _ _ _ _ M1 P1 H).
    - intros b b' L. apply (cle_keys _ _ (ble_cat _ _ L)).
    - intros b Hh. apply (method_refuses bt _ _ _ _ M2 P2). now rewrite <- E2.
  Qed.

  Lemma dup_method_located_lemma post en tg pvs l1 x l2 y l3 b1 b2 i :
    stages_ok post en tg pvs -> preorder_all post = l1 ++ x :: l2 ++ y :: l3 ->
    is_http_method (d_kind (ndir x)) = true -> is_http_method (d_kind (ndir y)) = true ->
    http_id (ndir x) (nanc x) = IdOk i -> http_id (ndir y) (nanc y) = IdOk i ->
    run bt (l1 ++ x :: l2) (init_b en tg) = COk b1 ->
    check_path (ndir y) b1 (i_path i) = COk b2 ->      (* its path is not itself at fault *)
    build pp bt [] post = CErr (kw_err (ndir y) (msg "method is already defined")).
  Proof.
    destruct x as [t1 a1], y as [t2 a2]. unfold ndir, nanc. cbn [fst snd]. intros Hs Hl M1 M2 I1 I2 Hr Hc.
    destruct (http_id_method_inv _ _ _ M1 I1) as (p1 & P1 & E1).
    destruct (http_id_method_inv _ _ _ M2 I2) as (p2 & P2 & E2).
    apply (located_lemma _ _ _ _ (l1 ++ (t1, a1) :: l2) (t2, a2) l3 b1 _ Hs); [now rewrite <- app_assoc | exact Hr|].
    assert (Ep : i_path i = p2) by (rewrite E2; reflexivity). rewrite Ep in Hc.
    apply (method_dup_error bt _ _ _ _ _ M2 P2 Hc). rewrite <- E2.
    apply (F_at_second (fun b => om_has iid_eqb (c_inters (b_cat b)) i = true) _ _ _ _ _) with (3 := Hr).
    - intros b b' H. rewrite E1. exact (method_adds bt _ _ _ _ _ M1 P1 H).
    - intros b b' L. apply (cle_keys _ _ (ble_cat _ _ L)).
  Qed.

  Lemma dup_rpc_method_lemma post x y i :
    occurs_before x y (preorder_all post) -> d_kind (ndir x) = KMethod -> d_kind (ndir y) = KMethod ->
    rpc_id (ndir x) (nanc x) = IdOk i -> rpc_id (ndir y) (nanc y) = IdOk i ->
    not_ok (build pp bt [] post).
  Proof.
    destruct x as [t1 a1], y as [t2 a2]. unfold ndir, nanc. cbn [fst snd]. intros Ho K1 K2 I1 I2.
    apply (two_lemma (fun b => om_has iid_eqb (c_inters (b_cat b)) i = true) _ _ _ Ho).
    - intros b b' H. exact (rpc_adds bt _ _ _ _ _ K1 I1 H).
    - intros b b' L. apply (cle_keys _ _ (ble_cat _ _ L)).
    - intros b Hh. exact (rpc_refuses bt _ _ _ _ K2 I2 Hh).
  Qed.

  Lemma dup_url_lemma post x y p :
    occurs_before x y (preorder_all post) -> d_kind (ndir x) = KURL -> d_kind (ndir y) = KURL ->
    path_of (ndir x) (nanc x) = PathOk p -> path_of (ndir y) (nanc y) = PathOk p ->
    not_ok (build pp bt [] post).
  Proof.
    destruct x as [t1 a1], y as [t2 a2]. unfold ndir, nanc. cbn [fst snd]. intros Ho K1 K2 P1 P2.
    apply (two_lemma (fun b => existsb (beq p) (b_urls b) = true) _ _ _ Ho).
    - intros b b' H. exact (url_adds bt _ _ _ _ _ K1 P1 H).
    - intros b b' L. apply (ble_urls _ _ L).
    - intros b Hh. exact (url_refuses bt _ _ _ _ K2 P2 Hh).
  Qed.

  (* a URL directive's path is its Path parameter *)
  Lemma url_path_of d anc : d_kind d = KURL -> path_raw d anc = Some (named d (bs "Path")).
  Proof. intros Hk. destruct anc; cbn [path_raw]; rewrite Hk; reflexivity. Qed.

  Lemma similar_paths_lemma post x y p1 p2 :
    occurs_before x y (preorder_all post) -> registers_path x p1 -> registers_path y p2 ->
    (exists m, register_paths [] 0 [p1; p2] = GOk (RegReject 1 m)) ->
    not_ok (build pp bt [] post).
  Proof.
    intros Ho R1 R2 Hc. apply similar_two_iff_lemma in Hc. fold (conflict (segments p1) (segments p2)) in Hc.
    apply (two_lemma (sim_has p1) _ _ _ Ho).
    - intros b b' H. exact (registers_adds bt _ _ _ _ R1 H).
    - intros b b' L. exact (sim_has_mono _ _ _ L).
    - intros b Hh. exact (registers_refuses bt _ _ _ _ R2 Hh Hc).
  Qed.

  (* ---- a second singleton child ---- *)
  Lemma second_title_lemma post x y :
    occurs_before x y (preorder_all post) -> d_kind (ndir x) = KTitle -> d_kind (ndir y) = KTitle ->
    not_ok (build pp bt [] post).
  Proof.
    destruct x as [t1 a1], y as [t2 a2]. unfold ndir. cbn [fst]. intros Ho K1 K2.
    apply (two_lemma title_set _ _ _ Ho).
    - intros b b'. apply title_adds. exact K1.
    - exact title_set_mono.
    - intros b. apply title_refuses. exact K2.
  Qed.

  Lemma second_title_located_lemma post en tg pvs l1 x l2 y l3 b1 :
    stages_ok post en tg pvs -> preorder_all post = l1 ++ x :: l2 ++ y :: l3 ->
    d_kind (ndir x) = KTitle -> d_kind (ndir y) = KTitle ->
    named (ndir y) (bs "Title") <> [] -> d_annot (ndir y) = [] ->
    run bt (l1 ++ x :: l2) (init_b en tg) = COk b1 ->
    build pp bt [] post = CErr (kw_err (ndir y) (msg "not a unique directive")).
  Proof.
    destruct x as [t1 a1], y as [t2 a2]. unfold ndir. cbn [fst]. intros Hs Hl K1 K2 Hn Ha Hr.
    apply (located_lemma _ _ _ _ (l1 ++ (t1, a1) :: l2) (t2, a2) l3 b1 _ Hs); [now rewrite <- app_assoc | exact Hr|].
    apply title_dup_error; auto.
    apply (F_at_second title_set _ _ _ _ _) with (3 := Hr); [intros b b'; apply title_adds; exact K1 | exact title_set_mono].
  Qed.

  Lemma second_version_lemma post x y :
    occurs_before x y (preorder_all post) -> d_kind (ndir x) = KVersion -> d_kind (ndir y) = KVersion ->
    not_ok (build pp bt [] post).
  Proof.
    destruct x as [t1 a1], y as [t2 a2]. unfold ndir. cbn [fst]. intros Ho K1 K2.
    apply (two_lemma version_set _ _ _ Ho).
    - intros b b'. apply version_adds. exact K1.
    - exact version_set_mono.
    - intros b. apply version_refuses. exact K2.
  Qed.

  Definition parent_is (x : node) (p : directive) : Prop := parent_dir (nanc x) = Some p.

  Lemma second_description_info_lemma post x y p1 p2 :
    occurs_before x y (preorder_all post) -> d_kind (ndir x) = KDescription -> d_kind (ndir y) = KDescription ->
    parent_is x p1 -> d_kind p1 = KInfo -> parent_is y p2 -> d_kind p2 = KInfo ->
    not_ok (build pp bt [] post).
  Proof.
    destruct x as [t1 a1], y as [t2 a2]. unfold ndir, nanc, parent_is. cbn [fst snd]. intros Ho K1 K2 P1 Q1 P2 Q2.
    apply (two_lemma info_desc_set _ _ _ Ho).
    - intros b b'. exact (desc_info_adds bt _ _ _ _ _ K1 P1 Q1).
    - exact info_desc_set_mono.
    - intros b. exact (desc_info_refuses bt _ _ _ _ K2 P2 Q2).
  Qed.

  Lemma second_description_http_lemma post x y p1 p2 i :
    occurs_before x y (preorder_all post) -> d_kind (ndir x) = KDescription -> d_kind (ndir y) = KDescription ->
    parent_is x p1 -> is_http_method (d_kind p1) = true -> parent_is y p2 -> is_http_method (d_kind p2) = true ->
    http_id (ndir x) (nanc x) = IdOk i -> http_id (ndir y) (nanc y) = IdOk i ->
    not_ok (build pp bt [] post).
  Proof.
    destruct x as [t1 a1], y as [t2 a2]. unfold ndir, nanc, parent_is. cbn [fst snd]. intros Ho K1 K2 P1 Q1 P2 Q2 I1 I2.
    apply (two_lemma (http_has (fun h => hi_desc h <> None) i) _ _ _ Ho).
    - intros b b'. exact (desc_http_adds bt _ _ _ _ _ _ K1 P1 Q1 I1).
    - intros b b'. apply http_has_mono. intros h h' (L & _). exact L.
    - intros b. exact (desc_http_refuses bt _ _ _ _ _ K2 P2 Q2 I2).
  Qed.

  Lemma second_description_rpc_lemma post x y p1 p2 i :
    occurs_before x y (preorder_all post) -> d_kind (ndir x) = KDescription -> d_kind (ndir y) = KDescription ->
    parent_is x p1 -> d_kind p1 = KMethod -> parent_is y p2 -> d_kind p2 = KMethod ->
    rpc_id (ndir x) (nanc x) = IdOk i -> rpc_id (ndir y) (nanc y) = IdOk i ->
    not_ok (build pp bt [] post).
  Proof.
    destruct x as [t1 a1], y as [t2 a2]. unfold ndir, nanc, parent_is. cbn [fst snd]. intros Ho K1 K2 P1 Q1 P2 Q2 I1 I2.
    apply (two_lemma (rpc_has (fun h => ri_desc h <> None) i) _ _ _ Ho).
    - intros b b'. exact (desc_rpc_adds bt _ _ _ _ _ _ K1 P1 Q1 I1).
    - intros b b'. apply rpc_has_mono. intros h h' (L & _). exact L.
    - intros b. exact (desc_rpc_refuses bt _ _ _ _ _ K2 P2 Q2 I2).
  Qed.

  Lemma second_description_tag_lemma post x y p1 p2 :
    occurs_before x y (preorder_all post) -> d_kind (ndir x) = KDescription -> d_kind (ndir y) = KDescription ->
    parent_is x p1 -> d_kind p1 = KTAG -> parent_is y p2 -> d_kind p2 = KTAG ->
    named p1 (bs "TagName") = named p2 (bs "TagName") ->
    not_ok (build pp bt [] post).
  Proof.
    destruct x as [t1 a1], y as [t2 a2]. unfold ndir, nanc, parent_is. cbn [fst snd]. intros Ho K1 K2 P1 Q1 P2 Q2 En.
    apply (two_lemma (tag_desc_set (named p2 (bs "TagName"))) _ _ _ Ho).
    - intros b b' H. rewrite <- En. exact (desc_tag_adds bt _ _ _ _ _ K1 P1 Q1 H).
    - intros b b'. apply tag_desc_set_mono.
    - intros b. exact (desc_tag_refuses bt _ _ _ _ K2 P2 Q2).
  Qed.

  Lemma second_query_lemma post x y i :
    occurs_before x y (preorder_all post) -> d_kind (ndir x) = KQuery -> d_kind (ndir y) = KQuery ->
    http_id (ndir x) (nanc x) = IdOk i -> http_id (ndir y) (nanc y) = IdOk i ->
    not_ok (build pp bt [] post).
  Proof.
    destruct x as [t1 a1], y as [t2 a2]. unfold ndir, nanc. cbn [fst snd]. intros Ho K1 K2 I1 I2.
    apply (two_lemma (http_has (fun h => hi_query h <> None) i) _ _ _ Ho).
    - intros b b'. exact (query_adds bt _ _ _ _ _ K1 I1).
    - intros b b'. apply http_has_mono. intros h h' (_ & L & _). exact L.
    - intros b. exact (query_refuses bt _ _ _ _ K2 I2).
  Qed.

  Lemma second_protocol_lemma post x y p1 p2 :
    occurs_before x y (preorder_all post) -> d_kind (ndir x) = KProtocol -> d_kind (ndir y) = KProtocol ->
    parent_is x p1 -> parent_is y p2 -> d_kw p1 = d_kw p2 ->
    not_ok (build pp bt [] post).
  Proof.
    destruct x as [t1 a1], y as [t2 a2]. unfold ndir, nanc, parent_is. cbn [fst snd]. intros Ho K1 K2 P1 P2 Ek.
    apply (two_lemma (fun b => existsb (coords_eqb (d_kw p2)) (b_protocols b) = true) _ _ _ Ho).
    - intros b b' H. rewrite <- Ek. exact (protocol_adds bt _ _ _ _ _ K1 P1 H).
    - intros b b' L. apply (ble_prot _ _ L).
    - intros b. exact (protocol_refuses bt _ _ _ _ K2 P2).
  Qed.

  Lemma second_request_body_lemma post x y p1 p2 i :
    occurs_before x y (preorder_all post) -> d_kind (ndir x) = KBody -> d_kind (ndir y) = KBody ->
    parent_is x p1 -> d_kind p1 = KRequest -> parent_is y p2 -> d_kind p2 = KRequest ->
    http_id (ndir x) (nanc x) = IdOk i -> http_id (ndir y) (nanc y) = IdOk i ->
    not_ok (build pp bt [] post).
  Proof.
    destruct x as [t1 a1], y as [t2 a2]. unfold ndir, nanc, parent_is. cbn [fst snd]. intros Ho K1 K2 P1 Q1 P2 Q2 I1 I2.
    apply (two_lemma (req_has (fun rq => q_body rq <> None) i) _ _ _ Ho).
    - intros b b'. exact (req_body_adds bt _ _ _ _ _ _ K1 P1 Q1 I1).
    - intros b b'. apply req_has_mono. intros r r' (L & _). exact L.
    - intros b. exact (req_body_refuses bt _ _ _ _ _ K2 P2 Q2 I2).
  Qed.

  (* Request / response with its schema in its own parameters, and a Body child: diagnostic at the PARENT *)
  Lemma body_under_inline_lemma post x p :
    In x (preorder_all post) -> d_kind (ndir x) = KBody -> parent_is x p -> d_named p <> [] -> d_kind p <> KMacro ->
    not_ok (build pp bt [] post).
  Proof.
    destruct x as [t a]. unfold ndir, nanc, parent_is. cbn [fst snd]. intros Hin K P Hn Hm.
    apply (one_lemma _ _ Hin). intros b b'. unfold step. cbn [fst snd].
    pose proof (body_under_inline_refuses bt t a b p K P Hn Hm) as E. unfold step in E. cbn [fst snd] in E. rewrite E. discriminate.
  Qed.

  Lemma second_request_headers_lemma post x y i :
    occurs_before x y (preorder_all post) -> d_kind (ndir x) = KHeaders -> d_kind (ndir y) = KHeaders ->
    parent_kind_is (nanc x) KRequest = true -> parent_kind_is (nanc y) KRequest = true ->
    http_id (ndir x) (nanc x) = IdOk i -> http_id (ndir y) (nanc y) = IdOk i ->
    not_ok (build pp bt [] post).
  Proof.
    destruct x as [t1 a1], y as [t2 a2]. unfold ndir, nanc. cbn [fst snd]. intros Ho K1 K2 P1 P2 I1 I2.
    apply (two_lemma (req_has (fun rq => q_headers rq <> None) i) _ _ _ Ho).
    - intros b b'. exact (req_headers_adds bt _ _ _ _ _ K1 P1 I1).
    - intros b b'. apply req_has_mono. intros r r' (_ & L). exact L.
    - intros b. exact (req_headers_refuses bt _ _ _ _ K2 P2 I2).
  Qed.

  (* response Headers: the slot belongs to the LAST response of the interaction; proved for a second
     Headers that follows the first one immediately *)
  Lemma second_response_headers_adjacent_lemma post x y i :
    occurs_next x y (preorder_all post) -> d_kind (ndir x) = KHeaders -> d_kind (ndir y) = KHeaders ->
    parent_kind_is (nanc x) KHTTPResponseCode = true -> parent_kind_is (nanc y) KHTTPResponseCode = true ->
    http_id (ndir x) (nanc x) = IdOk i -> http_id (ndir y) (nanc y) = IdOk i ->
    not_ok (build pp bt [] post).
  Proof.
    destruct x as [t1 a1], y as [t2 a2]. unfold ndir, nanc. cbn [fst snd]. intros Ho K1 K2 P1 P2 I1 I2.
    assert (Q : forall a, parent_kind_is a KHTTPResponseCode = true -> parent_kind_is a KRequest = false).
    { intros a. unfold parent_kind_is. destruct (parent_dir a) as [p|]; [|discriminate].
      intros H. apply sc_kind_eqb_eq in H. now rewrite H. }
    apply build_not_ok_run; [exact (occurs_next_ne _ _ _ Ho)|].
    apply (run_next_not_ok bt (last_resp_headers i) _ _ _ Ho).
    - intros b b'. exact (resp_headers_adds bt _ _ _ _ _ K1 (Q _ P1) P1 I1).
    - intros b. exact (resp_headers_refuses bt _ _ _ _ K2 (Q _ P2) P2 I2).
  Qed.

  (* ---- required parameters ---- *)
  Definition required_table : list (kind * string) :=
    [(KJsight, "Version"); (KTitle, "Title"); (KVersion, "Version"); (KServer, "Name"); (KBaseURL, "Path");
     (KType, "Name"); (KMethod, "MethodName")]%string.

  Lemma required_step_lemma x pn b :
    In (d_kind (ndir x), pn) required_table -> named (ndir x) (bs pn) = [] ->
    step bt x b = CErr (req_err (ndir x)).
  Proof.
    destruct x as [t a]. unfold ndir. cbn [fst]. intros Hin Hn. unfold required_table in Hin. cbn [In] in Hin.
    repeat (destruct Hin as [E|Hin]; [injection E as Ek <-|]); try destruct Hin.
    - now apply jsight_requires.
    - now apply title_requires.
    - now apply version_requires.
    - now apply server_requires.
    - now apply baseurl_requires.
    - now apply type_requires.
    - now apply rpc_method_requires.
  Qed.

  Lemma missing_required_lemma post x pn :
    In x (preorder_all post) -> In (d_kind (ndir x), pn) required_table -> named (ndir x) (bs pn) = [] ->
    not_ok (build pp bt [] post).
  Proof.
    intros Hin Ht Hn. apply (one_lemma _ _ Hin). intros b b'. rewrite (required_step_lemma _ _ _ Ht Hn). discriminate.
  Qed.

  Lemma missing_required_located_lemma post en tg pvs l1 y l3 b1 pn :
    stages_ok post en tg pvs -> preorder_all post = l1 ++ y :: l3 ->
    In (d_kind (ndir y), pn) required_table -> named (ndir y) (bs pn) = [] ->
    run bt l1 (init_b en tg) = COk b1 ->
    build pp bt [] post = CErr (req_err (ndir y)).
  Proof. intros Hs Hl Ht Hn Hr. exact (located_lemma _ _ _ _ _ _ _ _ _ Hs Hl Hr (required_step_lemma _ _ _ Ht Hn)). Qed.

  Lemma missing_protocol_name_lemma post x :
    In x (preorder_all post) -> d_kind (ndir x) = KProtocol -> named (ndir x) (bs "ProtocolName") = [] ->
    not_ok (build pp bt [] post).
  Proof.
    destruct x as [t a]. unfold ndir. cbn [fst]. intros Hin K Hn. apply (one_lemma _ _ Hin).
    intros b. now apply protocol_requires_not_ok.
  Qed.

  Lemma missing_tags_parameter_lemma post x :
    In x (preorder_all post) -> d_kind (ndir x) = KTags -> d_unnamed (ndir x) = [] -> not_ok (build pp bt [] post).
  Proof.
    destruct x as [t a]. unfold ndir. cbn [fst]. intros Hin K Hu. apply (one_lemma _ _ Hin).
    intros b. exact (tags_requires bt _ _ _ K Hu).
  Qed.

  Lemma missing_tags_parameter_located_lemma post en tg pvs l1 y l3 b1 :
    stages_ok post en tg pvs -> preorder_all post = l1 ++ y :: l3 ->
    d_kind (ndir y) = KTags -> d_unnamed (ndir y) = [] -> d_annot (ndir y) = [] ->
    run bt l1 (init_b en tg) = COk b1 ->
    build pp bt [] post = CErr (req_err (ndir y)).
  Proof.
    destruct y as [t a]. unfold ndir. cbn [fst]. intros Hs Hl K Hu Ha Hr.
    exact (located_lemma _ _ _ _ _ _ _ _ _ Hs Hl Hr (tags_requires_error bt _ _ _ K Hu Ha)).
  Qed.

  Lemma missing_enum_name_lemma post t :
    In t post -> d_kind (tree_dir t) = KEnum -> named (tree_dir t) (bs "Name") = [] -> not_ok (build pp bt [] post).
  Proof. intros Hin K Hn. unfold build. apply not_ok_bind_l. exact (enum_requires _ _ _ Hin K Hn). Qed.

  (* located at the ENUM itself, also when a macro brought it in (the forest is the expanded one) *)
  Lemma missing_enum_name_located_lemma l1 t l2 e1 :
    d_kind (tree_dir t) = KEnum -> named (tree_dir t) (bs "Name") = [] -> collect_enums l1 [] = COk e1 ->
    build pp bt [] (l1 ++ t :: l2) = CErr (req_err (tree_dir t)).
  Proof. intros K Hn H. unfold build. now rewrite (enum_requires_error _ _ _ _ _ K Hn H). Qed.

  Lemma missing_tag_name_lemma post t :
    In t post -> d_kind (tree_dir t) = KTAG -> named (tree_dir t) (bs "TagName") = [] -> not_ok (build pp bt [] post).
  Proof.
    intros Hin K Hn. unfold build. apply not_ok_bind_r. intros en _. apply not_ok_bind_l. exact (tag_requires _ _ _ Hin K Hn).
  Qed.

  (* ---- a Tags directive - under a method, under a URL with or without a method that takes its tags
     from it - naming a tag that no TAG directive declares ---- *)
  Lemma undeclared_at post en tg l1 b1 n :
    collect_tags post [] = COk tg -> (forall t, In t post -> ~ is_tag_decl t n) ->
    run bt l1 (init_b en tg) = COk b1 -> auto_or_absent n (c_tags (b_cat b1)).
  Proof.
    intros Htg Hdecl H1. apply (run_keeps_undeclared bt _ n _ _ H1). cbn [init_b b_cat upd_tags c_tags].
    exact (collect_tags_undeclared _ _ _ Htg Hdecl).
  Qed.

  Lemma undefined_tag_lemma post x n :
    In x (preorder_all post) -> d_kind (ndir x) = KTags -> In n (d_unnamed (ndir x)) ->
    (forall t, In t post -> ~ is_tag_decl t n) ->
    not_ok (build pp bt [] post).
  Proof.
    destruct x as [t a]. unfold ndir. cbn [fst]. intros Hx K Hin Hdecl c H.
    apply build_ok_inv in H as (en & tg & pvs & all & _ & Htg & _ & _ & _ & [[-> _] | (f & r & b & _ & _ & Hb & _)]).
    - destruct Hx.
    - apply in_split in Hx as (l1 & l3 & Hl). rewrite Hl in Hb. apply run_split in Hb as (b1 & b2 & H1 & Hs & _).
      exact (tags_undeclared_refuses bt t a b1 n K Hin (undeclared_at _ _ _ _ _ _ Htg Hdecl H1) _ Hs).
  Qed.

  (* the diagnostic, when the undeclared name is the first one of the directive *)
  Lemma undefined_tag_located_lemma post en tg pvs l1 y l3 b1 n rest :
    stages_ok post en tg pvs -> preorder_all post = l1 ++ y :: l3 ->
    d_kind (ndir y) = KTags -> d_annot (ndir y) = [] -> d_unnamed (ndir y) = n :: rest ->
    (forall t, In t post -> ~ is_tag_decl t n) ->
    run bt l1 (init_b en tg) = COk b1 ->
    build pp bt [] post = CErr (kw_err (ndir y) (msg "tag not found")).
  Proof.
    destruct y as [t a]. unfold ndir. cbn [fst]. intros Hs Hl K Ha Hu Hdecl Hr.
    apply (located_lemma _ _ _ _ _ _ _ _ _ Hs Hl Hr).
    destruct Hs as (_ & Htg & _). pose proof (undeclared_at _ _ _ _ _ _ Htg Hdecl Hr) as Hau.
    step_kind K. rewrite tags_from_directive_eq, Ha, Hu. cbn [beq negb tags_go].
    destruct (om_get beq (c_tags (b_cat b1)) n) as [t0|] eqn:G; [|reflexivity]. now rewrite (Hau t0 G).
  Qed.
End C11.

(* ---- macros: statements on Core.expand / Core.expand_full ---- *)
Lemma dup_macro_lemma ts t1 t2 n :
  occurs_before t1 t2 ts -> is_macro_decl t1 n -> is_macro_decl t2 n -> not_ok (expand ts) /\ not_ok (expand_full ts).
Proof.
  intros (l1 & l2 & l3 & ->) H1 H2.
  split; [apply expand_not_ok_of_collect | apply expand_full_not_ok_of_collect]; exact (dup_macro_collect _ _ _ _ _ _ _ H1 H2).
Qed.

Lemma collect_macro_has l : forall m r t n,
  collect_macro l m = COk r -> In t l -> is_macro_decl t n -> macro_lookup (snd r) n <> None.
Proof.
  induction l as [|t0 l IH]; intros m r t n H Hin Hd; [destruct Hin|].
  destruct Hin as [->|Hin]; [exact (collect_macro_head_adds _ _ _ _ _ Hd H)|].
  cbn [collect_macro] in H. destruct (kind_eqb (d_kind (tree_dir t0)) KMacro).
  - destruct (negb (beq (d_annot (tree_dir t0)) [])); [discriminate|].
    destruct (beq (named (tree_dir t0) (bs "Name")) []); [discriminate|].
    destruct (tree_kids t0); [discriminate|].
    destruct (macro_lookup m (named (tree_dir t0) (bs "Name"))); [discriminate|]. exact (IH _ _ _ _ H Hin Hd).
  - apply cbind_ok in H as (x & Hx & H). injection H as <-. cbn [snd]. exact (IH _ _ _ _ Hx Hin Hd).
Qed.

Lemma collect_macro_app_err l : forall r m x e,
  collect_macro l m = COk x -> collect_macro r (snd x) = CErr e -> collect_macro (l ++ r) m = CErr e.
Proof.
  induction l as [|t0 l IH]; intros r m x e H Hr.
  - injection H as <-. exact Hr.
  - cbn [app collect_macro] in *. destruct (kind_eqb (d_kind (tree_dir t0)) KMacro).
    + destruct (negb (beq (d_annot (tree_dir t0)) [])); [discriminate|].
      destruct (beq (named (tree_dir t0) (bs "Name")) []); [discriminate|].
      destruct (tree_kids t0); [discriminate|].
      destruct (macro_lookup m (named (tree_dir t0) (bs "Name"))); [discriminate|]. exact (IH _ _ _ _ H Hr).
    + apply cbind_ok in H as (y & Hy & H). injection H as <-. cbn [snd] in Hr. now rewrite (IH _ _ _ _ Hy Hr).
Qed.

(* the diagnostic: at the second MACRO, when the list up to it is collected without error *)
Lemma dup_macro_error l1 t1 l2 t2 l3 n x :
  is_macro_decl t1 n -> is_macro_decl t2 n -> d_annot (tree_dir t2) = [] -> n <> [] -> tree_kids t2 <> [] ->
  collect_macro (l1 ++ t1 :: l2) [] = COk x ->
  expand (l1 ++ t1 :: l2 ++ t2 :: l3) = CErr (kw_err (tree_dir t2) CEDupName).
Proof.
  intros H1 H2 Ha2 Hn Hk2 Hc. unfold expand.
  replace (l1 ++ t1 :: l2 ++ t2 :: l3) with ((l1 ++ t1 :: l2) ++ t2 :: l3) by (rewrite <- app_assoc; reflexivity).
  rewrite (collect_macro_app_err _ _ _ _ (kw_err (tree_dir t2) CEDupName) Hc); [reflexivity|].
  assert (Hin1 : In t1 (l1 ++ t1 :: l2)) by (apply in_or_app; right; left; reflexivity).
  pose proof (collect_macro_has _ _ _ t1 n Hc Hin1 H1) as Hl.
  cbn [collect_macro]. destruct H2 as (K2 & N2). rewrite K2, N2, Ha2, (proj2 (sc_beq_false _ _) Hn).
  cbn [kind_eqb kind_idx N.eqb Pos.eqb beq negb]. destruct (tree_kids t2); [congruence|].
  destruct (macro_lookup (snd x) n); [reflexivity | congruence].
Qed.

Lemma expand_full_bad_paste ts t :
  In t ts -> d_kind (tree_dir t) = KPaste ->
  (named (tree_dir t) (bs "Name") = [] \/
   forall t', In t' ts -> ~ is_macro_decl t' (named (tree_dir t) (bs "Name"))) ->
  not_ok (expand_full ts).
Proof.
  intros Hin Hk Hbad r. unfold expand_full. intros H. apply cbind_ok in H as ([rest m] & Hc & H).
  apply cbind_ok in H as (u & _ & H). apply cbind_ok in H as (p & Hp & _).
  assert (Hr : In t rest) by (apply (collect_macro_rest _ _ _ _ Hc Hin); congruence).
  refine (paste_list_bad_paste m rest t Hr Hk _ _ _ _ Hp).
  destruct Hbad as [Hn | Hno]; [left; exact Hn|]. right.
  destruct (macro_lookup m (named (tree_dir t) (bs "Name"))) eqn:El; [|reflexivity]. exfalso.
  destruct (collect_macro_table _ _ _ (named (tree_dir t) (bs "Name")) Hc) as [Hm | (t' & Hin' & Hd)].
  - cbn [snd]. congruence.
  - now apply Hm.
  - exact (Hno t' Hin' Hd).
Qed.

Lemma undefined_macro_lemma ts t :
  In t ts -> d_kind (tree_dir t) = KPaste ->
  (forall t', In t' ts -> ~ is_macro_decl t' (named (tree_dir t) (bs "Name"))) ->
  not_ok (expand ts) /\ not_ok (expand_full ts).
Proof. intros Hin Hk Hno. split; [apply (expand_bad_paste ts t) | apply (expand_full_bad_paste ts t)]; auto. Qed.

Lemma missing_paste_name_lemma ts t :
  In t ts -> d_kind (tree_dir t) = KPaste -> named (tree_dir t) (bs "Name") = [] ->
  not_ok (expand ts) /\ not_ok (expand_full ts).
Proof. intros Hin Hk Hn. split; [apply (expand_bad_paste ts t) | apply (expand_full_bad_paste ts t)]; auto. Qed.

Lemma missing_macro_name_lemma ts t :
  In t ts -> d_kind (tree_dir t) = KMacro -> named (tree_dir t) (bs "Name") = [] ->
  not_ok (expand ts) /\ not_ok (expand_full ts).
Proof.
  intros Hin Hk Hn. split; [apply expand_not_ok_of_collect | apply expand_full_not_ok_of_collect]; exact (macro_requires _ _ _ Hin Hk Hn).
Qed.

(* ------------------------------------------------------------------------------------------ *)
(* examples (vm_compute): one accepted forest and, for every fault kind, its faulted variant     *)
(* ------------------------------------------------------------------------------------------ *)
Module C11Examples.
  Definition co (i : N) : coords := {| c_file := bs "a.jst"; c_beg := i; c_end := i |}.
  (* directive of kind k whose keyword stands at offset i *)
  Definition D (k : kind) (i : N) (nm : list (bytes * bytes)) (un : list bytes) (body : option coords) (kids : list dtree) : dtree :=
    DNode {| d_kind := k; d_keyword := kind_keyword k; d_kw := co i; d_named := nm; d_unnamed := un; d_annot := [];
             d_body := body; d_explicit := false; d_trace := [] |} kids.
  Definition R (code : string) (i : N) (nm : list (bytes * bytes)) (kids : list dtree) : dtree :=
    DNode {| d_kind := KHTTPResponseCode; d_keyword := bs code; d_kw := co i; d_named := nm; d_unnamed := []; d_annot := [];
             d_body := None; d_explicit := false; d_trace := [] |} kids.
  Definition p (k v : string) : bytes * bytes := (bs k, bs v).
  Definition B (i : N) : option coords := Some (co i).
  Definition any := [p "SchemaNotation" "any"].

  (* JSIGHT 0.3 / INFO (Title, Version, Description) / SERVER @s (BaseUrl) / TAG @g (Description) / TYPE @t /
     ENUM @e / URL /a/{id} (Path, GET (Tags @g, Description, Query, Request (Headers, Body any), 200 (Headers, Body any)))
     / URL /rpc (Protocol json-rpc-2.0, Method foo (Description, Params, Result));
     the parameters are lists of extra directives put at the named place *)
  Definition doc (top info server tag url get req resp rpcurl rpc : list dtree) : list dtree :=
    [ D KJsight 0 [p "Version" "0.3"] [] None [];
      D KInfo 10 [] [] None ([D KTitle 11 [p "Title" "T"] [] None []; D KVersion 12 [p "Version" "1"] [] None [];
                              D KDescription 13 [] [] (B 14) []] ++ info);
      D KServer 20 [p "Name" "@s"] [] None ([D KBaseURL 21 [p "Path" "http://x"] [] None []] ++ server);
      D KTAG 30 [p "TagName" "@g"] [] None ([D KDescription 31 [] [] (B 32) []] ++ tag);
      D KType 40 [p "Name" "@t"] [] (B 41) [];
      D KEnum 45 [p "Name" "@e"] [] (B 46) [];
      D KURL 50 [p "Path" "/a/{id}"] [] None
        ([D KPath 51 [] [] (B 52) [];
          D KGet 53 [] [] None
            ([D KTags 54 [] [bs "@g"] None []; D KDescription 55 [] [] (B 56) []; D KQuery 57 [] [] (B 58) [];
              D KRequest 59 [] [] None ([D KHeaders 60 [] [] (B 61) []; D KBody 62 any [] None []] ++ req);
              R "200" 63 [] ([D KHeaders 64 [] [] (B 65) []; D KBody 66 any [] None []] ++ resp)] ++ get)] ++ url);
      D KURL 70 [p "Path" "/rpc"] [] None
        ([D KProtocol 71 [p "ProtocolName" "json-rpc-2.0"] [] None [];
          D KMethod 72 [p "MethodName" "foo"] [] None
            ([D KDescription 73 [] [] (B 74) []; D KParams 75 [] [] (B 76) []; D KResult 77 [] [] (B 78) []] ++ rpc)] ++ rpcurl)
    ] ++ top.

  Definition props (c : coords) : option (list bytes) := if c_beg c =? 52 then Some [bs "id"] else None.
  Definition text (c : coords) : bytes := bs "text".
  Definition go (f : list dtree) : cres catalog := build props text [] f.

  Inductive verdict : Set := Accepted | RejectedAt (idx : N) (cls : cerr_kind) | Other.
  Definition see (r : cres catalog) : verdict :=
    match r with COk _ => Accepted | CErr e => RejectedAt (ce_idx e) (ce_kind e) | _ => Other end.
  Definition seex (r : cres (list dtree)) : verdict :=
    match r with COk _ => Accepted | CErr e => RejectedAt (ce_idx e) (ce_kind e) | _ => Other end.
  Definition base := doc [] [] [] [] [] [] [] [] [] [].

  Example base_accepted : see (go base) = Accepted.
  Proof. vm_compute. reflexivity. Qed.

  (* every faulted variant puts ONE extra directive at offset 100 (or 100/101) *)
  Example ex_dup_type : see (go (doc [D KType 100 [p "Name" "@t"] [] (B 101) []] [] [] [] [] [] [] [] [] [])) = RejectedAt 100 (msg "duplicate names").
  Proof. vm_compute. reflexivity. Qed.
  Example ex_dup_enum : see (go (doc [D KEnum 100 [p "Name" "@e"] [] (B 101) []] [] [] [] [] [] [] [] [] [])) = RejectedAt 100 (msg "duplicate names").
  Proof. vm_compute. reflexivity. Qed.
  Example ex_dup_server : see (go (doc [D KServer 100 [p "Name" "@s"] [] None []] [] [] [] [] [] [] [] [] [])) = RejectedAt 100 (msg "duplicate names").
  Proof. vm_compute. reflexivity. Qed.
  Example ex_dup_tag : see (go (doc [D KTAG 100 [p "TagName" "@g"] [] None []] [] [] [] [] [] [] [] [] [])) = RejectedAt 100 (msg "duplicate names").
  Proof. vm_compute. reflexivity. Qed.
  Example ex_dup_method_sibling : see (go (doc [] [] [] [] [D KGet 100 [] [] None [R "200" 101 any []]] [] [] [] [] [])) = RejectedAt 100 (msg "method is already defined").
  Proof. vm_compute. reflexivity. Qed.
  Example ex_dup_method_other_spelling : see (go (doc [D KGet 100 [p "Path" "/a/{id}"] [] None [R "200" 101 any []]] [] [] [] [] [] [] [] [] [])) = RejectedAt 100 (msg "method is already defined").
  Proof. vm_compute. reflexivity. Qed.
  Example ex_dup_rpc_method : see (go (doc [] [] [] [] [] [] [] [] [D KMethod 100 [p "MethodName" "foo"] [] None []] [])) = RejectedAt 100 (msg "method is already defined").
  Proof. vm_compute. reflexivity. Qed.
  Example ex_dup_url : see (go (doc [D KURL 100 [p "Path" "/a/{id}"] [] None []] [] [] [] [] [] [] [] [] [])) = RejectedAt 100 (msg "non-unique path").
  Proof. vm_compute. reflexivity. Qed.
  Example ex_similar_paths : see (go (doc [D KGet 100 [p "Path" "/a/{other}"] [] None [R "200" 101 any []]] [] [] [] [] [] [] [] [] [])) = RejectedAt 100 (msg "similar paths").
  Proof. vm_compute. reflexivity. Qed.
  Example ex_second_title : see (go (doc [] [D KTitle 100 [p "Title" "U"] [] None []] [] [] [] [] [] [] [] [])) = RejectedAt 100 (msg "not a unique directive").
  Proof. vm_compute. reflexivity. Qed.
  Example ex_second_version : see (go (doc [] [D KVersion 100 [p "Version" "2"] [] None []] [] [] [] [] [] [] [] [])) = RejectedAt 100 (msg "not a unique directive").
  Proof. vm_compute. reflexivity. Qed.
  Example ex_second_description_info : see (go (doc [] [D KDescription 100 [] [] (B 101) []] [] [] [] [] [] [] [] [])) = RejectedAt 100 (msg "not a unique directive").
  Proof. vm_compute. reflexivity. Qed.
  Example ex_second_description_tag : see (go (doc [] [] [] [D KDescription 100 [] [] (B 101) []] [] [] [] [] [] [])) = RejectedAt 100 (msg "not a unique directive").
  Proof. vm_compute. reflexivity. Qed.
  Example ex_second_description_http : see (go (doc [] [] [] [] [] [D KDescription 100 [] [] (B 101) []] [] [] [] [])) = RejectedAt 100 (msg "not a unique directive").
  Proof. vm_compute. reflexivity. Qed.
  Example ex_second_description_rpc : see (go (doc [] [] [] [] [] [] [] [] [] [D KDescription 100 [] [] (B 101) []])) = RejectedAt 100 (msg "not a unique directive").
  Proof. vm_compute. reflexivity. Qed.
  Example ex_second_query : see (go (doc [] [] [] [] [] [D KQuery 100 [] [] (B 101) []] [] [] [] [])) = RejectedAt 100 (msg "not a unique directive").
  Proof. vm_compute. reflexivity. Qed.
  Example ex_second_protocol : see (go (doc [] [] [] [] [] [] [] [] [D KProtocol 100 [p "ProtocolName" "json-rpc-2.0"] [] None []] [])) = RejectedAt 100 (msg "the directive Protocol must be unique").
  Proof. vm_compute. reflexivity. Qed.
  Example ex_second_request_body : see (go (doc [] [] [] [] [] [] [D KBody 100 any [] None []] [] [] [])) = RejectedAt 100 (msg "not a unique directive").
  Proof. vm_compute. reflexivity. Qed.
  Example ex_second_request_headers : see (go (doc [] [] [] [] [] [] [D KHeaders 100 [] [] (B 101) []] [] [] [])) = RejectedAt 100 (msg "not a unique directive").
  Proof. vm_compute. reflexivity. Qed.
  Example ex_second_response_headers : see (go (doc [] [] [] [] [] [] [] [D KHeaders 100 [] [] (B 101) []] [] [])) = RejectedAt 100 (msg "not a unique directive").
  Proof. vm_compute. reflexivity. Qed.
  Example ex_second_path : see (go (doc [] [] [] [] [D KPath 100 [] [] (B 52) []] [] [] [] [] [])) = RejectedAt 100 (msg "not a unique directive").
  Proof. vm_compute. reflexivity. Qed.
  (* Request / response with the schema in its parameters and a Body child: the diagnostic is at the PARENT (offset 100) *)
  Example ex_inline_request_and_body :
    see (go (doc [D KPost 98 [p "Path" "/b"] [] None [D KRequest 100 any [] None [D KBody 101 any [] None []]; R "200" 102 any []]] [] [] [] [] [] [] [] [] []))
    = RejectedAt 100 (msg "parameters are unacceptable, according to the Body directive").
  Proof. vm_compute. reflexivity. Qed.
  Example ex_inline_response_and_body :
    see (go (doc [D KGet 98 [p "Path" "/b"] [] None [R "200" 100 any [D KBody 101 any [] None []]]] [] [] [] [] [] [] [] [] []))
    = RejectedAt 100 (msg "parameters are unacceptable, according to the Body directive").
  Proof. vm_compute. reflexivity. Qed.
  (* a second Body under a response that has no parameters (accepted before /repo rejected it) *)
  Example ex_second_response_body : see (go (doc [] [] [] [] [] [] [] [D KBody 100 any [] None []] [] [])) = RejectedAt 100 (msg "not a unique directive").
  Proof. vm_compute. reflexivity. Qed.

  (* required parameters *)
  Example ex_missing_type_name : see (go (doc [D KType 100 [] [] (B 101) []] [] [] [] [] [] [] [] [] [])) = RejectedAt 100 (msg "required parameter").
  Proof. vm_compute. reflexivity. Qed.
  Example ex_missing_enum_name : see (go (doc [D KEnum 100 [] [] (B 101) []] [] [] [] [] [] [] [] [] [])) = RejectedAt 100 (msg "required parameter").
  Proof. vm_compute. reflexivity. Qed.
  Example ex_missing_server_name : see (go (doc [D KServer 100 [] [] None []] [] [] [] [] [] [] [] [] [])) = RejectedAt 100 (msg "required parameter").
  Proof. vm_compute. reflexivity. Qed.
  Example ex_missing_tag_name : see (go (doc [D KTAG 100 [] [] None []] [] [] [] [] [] [] [] [] [])) = RejectedAt 100 (msg "required parameter").
  Proof. vm_compute. reflexivity. Qed.
  Example ex_missing_title : see (go (doc [] [D KTitle 100 [] [] None []] [] [] [] [] [] [] [] [])) = RejectedAt 100 (msg "required parameter").
  Proof. vm_compute. reflexivity. Qed.
  Example ex_missing_version : see (go (doc [] [D KVersion 100 [] [] None []] [] [] [] [] [] [] [] [])) = RejectedAt 100 (msg "required parameter").
  Proof. vm_compute. reflexivity. Qed.
  Example ex_missing_baseurl : see (go (doc [] [] [D KBaseURL 100 [] [] None []] [] [] [] [] [] [] [])) = RejectedAt 100 (msg "required parameter").
  Proof. vm_compute. reflexivity. Qed.
  Example ex_missing_protocol_name : see (go (doc [] [] [] [] [] [] [] [] [D KProtocol 100 [] [] None []] [])) = RejectedAt 100 (msg "required parameter").
  Proof. vm_compute. reflexivity. Qed.
  Example ex_missing_method_name : see (go (doc [] [] [] [] [] [] [] [] [D KMethod 100 [] [] None []] [])) = RejectedAt 100 (msg "required parameter").
  Proof. vm_compute. reflexivity. Qed.
  Example ex_missing_jsight_version : see (go [D KJsight 100 [] [] None []]) = RejectedAt 100 (msg "required parameter").
  Proof. vm_compute. reflexivity. Qed.
  Example ex_tags_without_parameters :
    see (go (doc [D KGet 98 [p "Path" "/b"] [] None [D KTags 100 [] [] None []; R "200" 102 any []]] [] [] [] [] [] [] [] [] [])) = RejectedAt 100 (msg "required parameter").
  Proof. vm_compute. reflexivity. Qed.

  (* tags *)
  Example ex_undefined_tag :
    see (go (doc [D KGet 98 [p "Path" "/b"] [] None [D KTags 100 [] [bs "@nope"] None []; R "200" 102 any []]] [] [] [] [] [] [] [] [] [])) = RejectedAt 100 (msg "tag not found").
  Proof. vm_compute. reflexivity. Qed.
  (* "@a" is declared nowhere; it is the automatic tag of GET /a: rejected wherever GET /a stands *)
  Example ex_undeclared_tag_equal_to_an_automatic_one :
    see (go [D KJsight 0 [p "Version" "0.3"] [] None [];
             D KGet 10 [p "Path" "/a"] [] None [R "200" 11 any []];
             D KGet 20 [p "Path" "/b"] [] None [D KTags 21 [] [bs "@a"] None []; R "200" 22 any []]]) = RejectedAt 21 (msg "tag not found")
    /\ see (go [D KJsight 0 [p "Version" "0.3"] [] None [];
                D KGet 20 [p "Path" "/b"] [] None [D KTags 21 [] [bs "@a"] None []; R "200" 22 any []];
                D KGet 10 [p "Path" "/a"] [] None [R "200" 11 any []]]) = RejectedAt 21 (msg "tag not found").
  Proof. vm_compute. split; reflexivity. Qed.
  (* the Tags of a URL whose only method has its own Tags, and of a URL without methods *)
  Example ex_undefined_tag_in_url_tags_nobody_inherits :
    see (go (doc [] [] [] [] [D KTags 100 [] [bs "@nope"] None []] [] [] [] [] [])) = RejectedAt 100 (msg "tag not found")
    /\ see (go [D KJsight 0 [p "Version" "0.3"] [] None []; D KURL 10 [p "Path" "/u"] [] None [D KTags 100 [] [bs "@nope"] None []]])
       = RejectedAt 100 (msg "tag not found").
  Proof. vm_compute. split; reflexivity. Qed.

  (* macros (Core.expand) *)
  Definition M (i : N) (name : string) : dtree := D KMacro i [p "Name" name] [] None [D KType (i + 1) [p "Name" name] [] (B (i + 2)) []].
  Example ex_macros_accepted : seex (expand [D KJsight 0 [p "Version" "0.3"] [] None []; M 10 "@m"; M 20 "@n"; D KPaste 30 [p "Name" "@m"] [] None []]) = Accepted.
  Proof. vm_compute. reflexivity. Qed.
  Example ex_dup_macro : seex (expand [D KJsight 0 [p "Version" "0.3"] [] None []; M 10 "@m"; M 20 "@n"; M 100 "@m"]) = RejectedAt 100 CEDupName.
  Proof. vm_compute. reflexivity. Qed.
  Example ex_undefined_macro : seex (expand [D KJsight 0 [p "Version" "0.3"] [] None []; M 10 "@m"; D KPaste 100 [p "Name" "@zz"] [] None []]) = RejectedAt 100 (CEWrapped CEMacroNotFound).
  Proof. vm_compute. reflexivity. Qed.
  Example ex_missing_macro_name : seex (expand [D KJsight 0 [p "Version" "0.3"] [] None []; D KMacro 100 [] [] None [D KType 101 [p "Name" "@x"] [] (B 102) []]]) = RejectedAt 100 CENameRequired.
  Proof. vm_compute. reflexivity. Qed.
  Example ex_missing_paste_name : seex (expand [D KJsight 0 [p "Version" "0.3"] [] None []; M 10 "@m"; D KPaste 100 [] [] None []]) = RejectedAt 100 (CEWrapped CENameRequired).
  Proof. vm_compute. reflexivity. Qed.
End C11Examples.

(* ------------------------------------------------------------------------------------------ *)
(* response Body / Headers: only a response-code directive renews the slot of the last response   *)
(* ------------------------------------------------------------------------------------------ *)
Definition last_Q (P : response -> Prop) (h : http_i) : Prop := exists r rs, rev (hi_responses h) = r :: rs /\ P r.
Definition stable_P (P : response -> Prop) : Prop :=
  (forall r b, P r -> P {| r_code := r_code r; r_annot := r_annot r; r_body := Some b; r_headers := r_headers r; r_dir := r_dir r |}) /\
  (forall r s, P r -> P {| r_code := r_code r; r_annot := r_annot r; r_body := r_body r; r_headers := Some s; r_dir := r_dir r |}).
Definition chas (Q : http_i -> Prop) (i : iid) (c : catalog) : Prop := exists h, get_http c i = Some h /\ Q h.

Lemma chas_upd_http (Q : http_i -> Prop) i c j f : (forall h, Q h -> Q (f h)) -> chas Q i c -> chas Q i (upd_http c j f).
Proof.
  intros Hf (h & Hg & Hq). unfold chas. rewrite get_http_upd_http, Hg.
  destruct (iid_eqb i j); eexists; split; try reflexivity; auto.
Qed.
Lemma chas_upd_rpc (Q : http_i -> Prop) i c j f : chas Q i c -> chas Q i (upd_rpc c j f).
Proof. intros (h & Hg & Hq). unfold chas. rewrite get_http_upd_rpc. eauto. Qed.
Lemma chas_same (Q : http_i -> Prop) i c c' : c_inters c' = c_inters c -> chas Q i c -> chas Q i c'.
Proof. intros E (h & Hg & Hq). exists h. split; [|exact Hq]. unfold get_http in *. now rewrite E. Qed.
Lemma chas_new (Q : http_i -> Prop) i c k x : chas Q i c -> chas Q i (upd_inters c (c_inters c ++ [(k, x)])).
Proof.
  intros (h & Hg & Hq). exists h. split; [|exact Hq]. unfold get_http in *. cbn [upd_inters c_inters].
  destruct (om_get iid_eqb (c_inters c) i) as [[h'|r]|] eqn:G; try discriminate.
  now rewrite (om_get_app_l _ _ _ _ _ G).
Qed.

Lemma last_Q_set_last (P : response -> Prop) h g : (forall r, P r -> P (g r)) -> last_Q P h -> last_Q P (set_last_response h g).
Proof.
  intros Hg (r & rs & E & Hh). unfold last_Q, set_last_response. cbn [hi_responses]. rewrite E, rev_involutive.
  exists (g r), rs. split; [reflexivity | exact (Hg r Hh)].
Qed.

Ltac solve_Q HP :=
  let h := fresh "h" in let Hq := fresh "Hq" in
  intros h Hq;
  first [ exact Hq
        | apply last_Q_set_last; [intros ? ?; first [apply (proj1 HP) | apply (proj2 HP)]; assumption | exact Hq]
        | (destruct (hi_request h); exact Hq) ].

Ltac build_q HP :=
  lazymatch goal with
  | H : chas ?Q ?i ?c |- chas ?Q ?i ?c => exact H
  | |- chas _ _ (upd_http _ _ _) => apply chas_upd_http; [solve_Q HP | build_q HP]
  | |- chas _ _ (upd_rpc _ _ _) => apply chas_upd_rpc; build_q HP
  | |- chas ?Q ?i (upd_inters ?c (_ ++ [(?k, ?x)])) => refine (chas_new Q i c k x _); build_q HP
  | |- chas _ _ (upd_jsight ?c _) => apply (chas_same _ _ c); [reflexivity | build_q HP]
  | |- chas _ _ (upd_info ?c _) => apply (chas_same _ _ c); [reflexivity | build_q HP]
  | |- chas _ _ (upd_tags ?c _) => apply (chas_same _ _ c); [reflexivity | build_q HP]
  | |- chas _ _ (upd_servers ?c _) => apply (chas_same _ _ c); [reflexivity | build_q HP]
  | |- chas _ _ (upd_types ?c _) => apply (chas_same _ _ c); [reflexivity | build_q HP]
  end.

Lemma step_keeps_last (P : response -> Prop) bt x b b' i :
  stable_P P -> d_kind (ndir x) <> KHTTPResponseCode -> step bt x b = COk b' ->
  chas (last_Q P) i (b_cat b) -> chas (last_Q P) i (b_cat b').
Proof.
  destruct x as [t anc]. unfold ndir. cbn [fst]. intros HP Hne.
  destruct (d_kind (tree_dir t)) eqn:Hk; try congruence; step_kind Hk; crack Hk.
  all: try solve [intros H Hc; injection H as <-; cbn [b_cat with_cat]; build_q HP].
  all: try (intros H; apply cbind_ok in H as (b1 & H1 & H); apply check_path_inv in H1 as (_ & _ & Ec & _); revert H; crack Hk).
  all: try solve [intros H Hc; injection H as <-; cbn [b_cat]; rewrite Ec; exact Hc].
  all: try solve [intros H Hc; apply cbind_ok in H as (tg & _ & H); injection H as <-; cbn [b_cat with_cat];
                  try rewrite <- Ec in Hc; first [exact Hc | build_q HP]].
Qed.

Lemma run_keeps_last (P : response -> Prop) bt l i : forall b b',
  stable_P P -> (forall x, In x l -> d_kind (ndir x) <> KHTTPResponseCode) ->
  run bt l b = COk b' -> chas (last_Q P) i (b_cat b) -> chas (last_Q P) i (b_cat b').
Proof.
  induction l as [|x l IH]; intros b b' HP Hno H Hq.
  - injection H as <-. exact Hq.
  - cbn [run] in H. apply cbind_ok in H as (b1 & H1 & H2).
    apply (IH b1 b' HP (fun y Hy => Hno y (or_intror Hy)) H2).
    exact (step_keeps_last P bt x b b1 i HP (Hno x (or_introl eq_refl)) H1 Hq).
Qed.

Lemma headers_stable : stable_P (fun r => r_headers r <> None).
Proof. split; intros r x H; cbn [r_headers]; [exact H | discriminate]. Qed.
Lemma body_stable : stable_P (fun r => r_body r <> None).
Proof. split; intros r x H; cbn [r_body]; [discriminate | exact H]. Qed.

Lemma response_parent_not_request a : parent_kind_is a KHTTPResponseCode = true -> parent_kind_is a KRequest = false.
Proof.
  unfold parent_kind_is. destruct (parent_dir a) as [p|]; [|discriminate].
  intros H. apply sc_kind_eqb_eq in H. now rewrite H.
Qed.

Lemma second_response_headers_lemma (pp : coords -> option (list bytes)) (bt : coords -> bytes) post l1 x l2 y l3 i :
  preorder_all post = l1 ++ x :: l2 ++ y :: l3 ->
  (forall z, In z l2 -> d_kind (ndir z) <> KHTTPResponseCode) ->
  d_kind (ndir x) = KHeaders -> d_kind (ndir y) = KHeaders ->
  parent_kind_is (nanc x) KHTTPResponseCode = true -> parent_kind_is (nanc y) KHTTPResponseCode = true ->
  http_id (ndir x) (nanc x) = IdOk i -> http_id (ndir y) (nanc y) = IdOk i ->
  not_ok (build pp bt [] post).
Proof.
  destruct x as [t1 a1], y as [t2 a2]. unfold ndir, nanc. cbn [fst snd]. intros Hl Hno K1 K2 P1 P2 I1 I2.
  apply build_not_ok_run; [rewrite Hl; destruct l1; discriminate|]. rewrite Hl.
  intros b0 b' H. apply run_split in H as (b1 & b2 & _ & Hx & H). apply run_split in H as (b3 & b4 & H23 & Hy & _).
  pose proof (resp_headers_adds bt _ _ _ _ _ K1 (response_parent_not_request _ P1) P1 I1 Hx) as F2.
  pose proof (run_keeps_last _ bt l2 i b2 b3 headers_stable Hno H23 F2) as F3.
  exact (resp_headers_refuses bt _ _ _ _ K2 (response_parent_not_request _ P2) P2 I2 F3 _ Hy).
Qed.

(* two Body directives under one response *)
Lemma second_response_body_lemma (pp : coords -> option (list bytes)) (bt : coords -> bytes) post l1 x l2 y l3 p1 p2 i :
  preorder_all post = l1 ++ x :: l2 ++ y :: l3 ->
  (forall z, In z l2 -> d_kind (ndir z) <> KHTTPResponseCode) ->
  d_kind (ndir x) = KBody -> d_kind (ndir y) = KBody ->
  parent_is x p1 -> d_kind p1 = KHTTPResponseCode -> parent_is y p2 -> d_kind p2 = KHTTPResponseCode ->
  http_id (ndir x) (nanc x) = IdOk i -> http_id (ndir y) (nanc y) = IdOk i ->
  not_ok (build pp bt [] post).
Proof.
  destruct x as [t1 a1], y as [t2 a2]. unfold ndir, nanc, parent_is. cbn [fst snd]. intros Hl Hno K1 K2 P1 Q1 P2 Q2 I1 I2.
  apply build_not_ok_run; [rewrite Hl; destruct l1; discriminate|]. rewrite Hl.
  intros b0 b' H. apply run_split in H as (b1 & b2 & _ & Hx & H). apply run_split in H as (b3 & b4 & H23 & Hy & _).
  pose proof (resp_body_adds bt _ _ _ _ _ _ K1 P1 Q1 I1 Hx) as F2.
  pose proof (run_keeps_last _ bt l2 i b2 b3 body_stable Hno H23 F2) as F3.
  exact (resp_body_refuses bt _ _ _ _ _ K2 P2 Q2 I2 F3 _ Hy).
Qed.

(* ... "not a unique directive" at the second Body, when everything before it went through *)
Lemma resp_body_dup_error bt t anc b p i nt :
  d_kind (tree_dir t) = KBody -> parent_dir anc = Some p -> d_kind p = KHTTPResponseCode -> d_named p = [] ->
  http_id (tree_dir t) anc = IdOk i ->
  named (tree_dir t) (bs "Type") = [] -> norm_notation (named (tree_dir t) (bs "SchemaNotation")) = Some nt ->
  d_body (tree_dir t) <> None ->
  last_resp_body i b ->
  step bt (t, anc) b = CErr (kw_err (tree_dir t) (msg "not a unique directive")).
Proof.
  intros Hk Hp Hpk Hn Hi Hty Hnt Hb (h & Hg & r & rs & Hr & Hbody).
  step_kind Hk. rewrite Hp. cbv beta iota. rewrite Hpk, Hn. kred.
  unfold add_response. reduce_kind Hk. rewrite Hty, Hnt, Hi, Hg, Hr. cbn [beq negb andb cbind].
  rewrite andb_false_r. cbn [andb].
  destruct (d_body (tree_dir t)); [|congruence]. destruct (r_body r); [|congruence].
  rewrite andb_false_r. reflexivity.
Qed.

Lemma second_response_body_located_lemma (pp : coords -> option (list bytes)) (bt : coords -> bytes)
      post en tg pvs l1 x l2 y l3 b1 p1 p2 i nt :
  stages_ok pp post en tg pvs -> preorder_all post = l1 ++ x :: l2 ++ y :: l3 ->
  (forall z, In z l2 -> d_kind (ndir z) <> KHTTPResponseCode) ->
  d_kind (ndir x) = KBody -> d_kind (ndir y) = KBody ->
  parent_is x p1 -> d_kind p1 = KHTTPResponseCode -> parent_is y p2 -> d_kind p2 = KHTTPResponseCode -> d_named p2 = [] ->
  http_id (ndir x) (nanc x) = IdOk i -> http_id (ndir y) (nanc y) = IdOk i ->
  named (ndir y) (bs "Type") = [] -> norm_notation (named (ndir y) (bs "SchemaNotation")) = Some nt -> d_body (ndir y) <> None ->
  run bt (l1 ++ x :: l2) (init_b en tg) = COk b1 ->
  build pp bt [] post = CErr (kw_err (ndir y) (msg "not a unique directive")).
Proof.
  destruct x as [t1 a1], y as [t2 a2]. unfold ndir, nanc, parent_is. cbn [fst snd].
  intros Hs Hl Hno K1 K2 P1 Q1 P2 Q2 N2 I1 I2 Hty Hnt Hb Hr.
  apply (located_lemma pp bt _ _ _ _ (l1 ++ (t1, a1) :: l2) (t2, a2) l3 b1 _ Hs); [now rewrite <- app_assoc | exact Hr|].
  apply (resp_body_dup_error bt _ _ _ _ _ _ K2 P2 Q2 N2 I2 Hty Hnt Hb).
  apply run_split in Hr as (c1 & c2 & _ & Hx & H23).
  pose proof (resp_body_adds bt _ _ _ _ _ _ K1 P1 Q1 I1 Hx) as F2.
  exact (run_keeps_last _ bt l2 i c2 b1 body_stable Hno H23 F2).
Qed.
