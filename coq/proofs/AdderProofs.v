(* The regenerated key set of core.directiveFunctions (gen/DirectiveTables.adder_kinds, read by go2coq from
   NewJApiCore on every run) against the hand model Catalog.add_directive:
     - a kind that has no entry in the table is a no-op of the model, as `addDirective` says (`if !ok { return nil }`);
     - the kinds the model has a case for are exactly the keys of the table.
   A Go change that drops an entry (the directive is then silently ignored) or adds one (a kind the model ignores
   starts to act) changes adder_kinds and breaks one of the two. *)
From Coq Require Import List NArith Bool String Lia.
From JV.lib Require Import Bytes.
From JV.gen Require Import DirectiveTables.
From JV.model Require Import ScannerSem Core Description PathParams TagTitle Catalog.
Import ListNotations.
Open Scope N_scope.

(* the kinds Catalog.add_directive has a case for, in the order of its cases *)
Definition modelled_adders : list kind :=
  [KJsight; KInfo; KTitle; KVersion; KDescription; KServer; KBaseURL; KType; KURL;
   KGet; KPost; KPut; KPatch; KDelete; KQuery; KRequest; KHTTPResponseCode; KHeaders; KBody;
   KProtocol; KMethod; KParams; KResult; KTags].

Definition same_kind_set (a b : list kind) : bool :=
  forallb (fun k => kind_in k b) a && forallb (fun k => kind_in k a) b.

Lemma adders_agree_lemma : same_kind_set modelled_adders adder_kinds = true.
Proof. vm_compute. reflexivity. Qed.

Lemma http_methods_are_adders_lemma : forallb (fun k => kind_in k adder_kinds) http_method_list = true.
Proof. vm_compute. reflexivity. Qed.

Lemma same_kind_set_in a b k : same_kind_set a b = true -> kind_in k b = false -> kind_in k a = false.
Proof.
  unfold same_kind_set. intros H Hb. apply andb_prop in H as [Ha _].
  destruct (kind_in k a) eqn:Hka; [|reflexivity].
  unfold kind_in in Hka. apply existsb_exists in Hka as [x [Hx Hkx]].
  rewrite forallb_forall in Ha. specialize (Ha x Hx).
  unfold kind_eqb in Hkx. apply N.eqb_eq in Hkx.
  assert (k = x) as -> by (destruct k, x; try reflexivity; vm_compute in Hkx; discriminate Hkx).
  rewrite Ha in Hb. discriminate Hb.
Qed.

Section Adders.
  Variable body_text : coords -> bytes.
  Variable banned : list kind.

  Lemma add_directive_noop_outside_model t anc b :
    kind_in (d_kind (tree_dir t)) banned = false ->
    kind_in (d_kind (tree_dir t)) modelled_adders = false ->
    add_directive body_text banned t anc b = COk b.
  Proof.
    intros Hban Hk. unfold add_directive. cbv zeta. rewrite Hban.
    destruct (d_kind (tree_dir t)); try (vm_compute in Hk; discriminate Hk); reflexivity.
  Qed.

  (* stated on the REGENERATED table *)
  Lemma no_adder_is_noop_lemma t anc b :
    kind_in (d_kind (tree_dir t)) banned = false ->
    kind_in (d_kind (tree_dir t)) adder_kinds = false ->
    add_directive body_text banned t anc b = COk b.
  Proof.
    intros Hban Hk. apply add_directive_noop_outside_model; [exact Hban|].
    exact (same_kind_set_in _ _ _ adders_agree_lemma Hk).
  Qed.

  (* ... and a banned kind is refused whether or not it has an adder: the ban test comes first *)
  Lemma banned_before_adder_lemma t anc b :
    kind_in (d_kind (tree_dir t)) banned = true ->
    add_directive body_text banned t anc b = CErr (kw_err (tree_dir t) (CENotAllowed (d_kind (tree_dir t)))).
  Proof. intros Hban. unfold add_directive. cbv zeta. rewrite Hban. reflexivity. Qed.
End Adders.

(* the kinds without an adder, on the regenerated tables: Path (bound later), ENUM, MACRO, PASTE, INCLUDE, TAG
   (collected by passes of their own) *)
Lemma kinds_without_adder_lemma :
  filter (fun k => negb (kind_in k adder_kinds)) all_kinds = [KPath; KEnum; KMacro; KPaste; KInclude; KTAG].
Proof. vm_compute. reflexivity. Qed.
