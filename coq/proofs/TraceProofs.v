(* C02, core-model part: where the errors of the project scan (model/Core.v) point, and what
   their include trace is.
   - every error of the scan names a file of the project that was really opened (the root, or a
     regular file reached through INCLUDE), and its byte index lies inside that file;
   - an error raised by the scan loop carries the include chain of the scanner stack as it is at
     that moment, innermost first; an error about a directive carries the directive's own tracer,
     and the directive was read from the file being read, under the stack as it is (the pending
     directive is placed before an INCLUDE is entered: /repo c51680e);
   - every entry (file, offset) of every trace names a project file whose bytes at that offset
     spell INCLUDE;
   - the tracer of a directive is the chain of the stack at the moment its keyword was read when
     no file holds more than one INCLUDE; with two INCLUDEs in one file it is not (the tracer is
     cached per including file NAME: finding C02/stale-include-tracer).
   The scanner is the real one: lexeme positions come from the metatheory of the regenerated
   table (TM_Loop.next_sound), under len_sane oracles and contents made of bytes. *)
From Coq Require Import List NArith ZArith Bool String Lia.
From JV.lib Require Import Bytes Paths.
From JV.gen Require Import DirectiveTables ScannerTable ScannerTyping IncludeName.
From JV.model Require Import ScannerSem TableCheck Params Description Jerr Core.
From JV.proofs Require Import BytesLemmas TM_Basics TM_Stack TM_Events TM_Dispatch TM_Loop ScanTheorems
                              IncludeNameProofs PathsProofs IncludeProofs BanProofs.
Import ListNotations.
Open Scope N_scope.

(* ---- the read position never runs further than one past the end ---- *)

Section LoopPos.
  Variable ty : typing.
  Hypothesis Hok : table_ok ty = true.
  Variable jsc_len enum_len : bytes -> len_result.
  Hypothesis jsc_sane : len_sane jsc_len.
  Hypothesis enum_sane : len_sane enum_len.
  Variable data : bytes.
  Variable size : N.

  Notation GI := (GI ty size).
  Notation MM := (MM ty size).

  Lemma main_loop_pos fuel : forall s g,
    GI s g -> AllB g -> (MM g < Z.of_nat fuel)%Z -> pos g <= size + 1 ->
    match main_loop jsc_len enum_len data size fuel g with
    | Ok (g', _) => pos g' <= size + 1
    | _ => True
    end.
  Proof.
    induction fuel as [|fuel IH]; intros s g HG HA Hfuel Hpos.
    - exact I.
    - cbn [main_loop].
      destruct (pos g <=? size) eqn:Epos; [|exact Hpos].
      apply N.leb_le in Epos.
      destruct HG as (Hrel & Hos & Hsz & HEv & HL & HT).
      pose proof (HT Epos) as HI.
      assert (HZ : Zip size g) by (destruct HI as (_ & _ & HZ & _); exact HZ).
      assert (Hbyte : exists c, (if pos g =? size then Some 0 else hd_error (rest g)) = Some c /\ c < 256 /\
                                (pos g = size -> c = 0) /\ (pos g < size -> hd_error (rest g) = Some c)).
      { destruct (pos g =? size) eqn:E.
        - exists 0. apply N.eqb_eq in E. repeat split; try reflexivity; try lia.
        - apply N.eqb_neq in E. destruct HZ as [_ Z2].
          destruct (rest g) as [|c r] eqn:Er; [simpl in Z2; lia|].
          exists c. destruct HA as [_ HAr]. rewrite Er in HAr. inversion HAr; subst.
          repeat split; try reflexivity; try assumption. intros; lia. }
      destruct Hbyte as (c & Hc & Hc256 & Hcz & Hcn).
      rewrite Hc.
      destruct ((c =? 0) && negb (pos g =? size)) eqn:Enul; [exact I|].
      assert (Hc0 : c = 0 -> pos g = size).
      { intros ->. simpl in Enul. destruct (pos g =? size) eqn:E; [apply N.eqb_eq; exact E | discriminate]. }
      assert (Hc1 : c <> 0 -> pos g < size).
      { intros Hne. destruct (N.eq_dec (pos g) size) as [E|E]; [specialize (Hcz E); contradiction | lia]. }
      assert (Hrf : (rho ty (reg g) < Z.of_nat redo_fuel)%Z).
      { destruct (ok_sane ty Hok (reg g)) as (_ & H & _). unfold RHO_MAX in H. unfold redo_fuel. lia. }
      pose proof (dispatch_sound ty Hok jsc_len enum_len jsc_sane enum_sane data size c s Hc256 redo_fuel g Hc0 Hc1 HI Hrf) as Hd.
      destruct (dispatch jsc_len enum_len data size redo_fuel c g) as [g1|p e| |] eqn:Ed; cbn [obind] in *; try exact I.
      destruct Hd as (HZ1 & HEv1 & Hsz1 & HLp1 & HI2 & HMM2).
      pose proof (dispatch_allb jsc_len enum_len data size _ _ _ _ Ed HA) as HA1.
      set (g2 := advance g1 1) in *.
      assert (HA2 : AllB g2) by (apply advance_allb; exact HA1).
      assert (Hp2 : pos g2 = pos g1 + 1) by reflexivity.
      (* GI s g2, as in main_loop_sound: obtained there; here we only need what drain_sound needs *)
      assert (Hrel2 : estk_rel s g2).
      { unfold g2, advance, estk_rel. cbn [estk set_zip].
        assert (He : estk g1 = estk g).
        { clear - Ed. revert g g1 Ed. generalize redo_fuel as f. induction f as [|f IHf]; intros g g1 Ed; cbn [dispatch] in Ed; [discriminate|].
          destruct (eval_tree data size (step_tree (reg g)) c g) as [ax| | |]; cbn [obind] in Ed; try discriminate.
          destruct (exec_acts jsc_len enum_len (fst ax) g) as [gx| | |] eqn:Ex; cbn [obind] in Ed; try discriminate.
          assert (Hx : estk gx = estk g).
          { clear - Ex. revert g gx Ex. induction (fst ax) as [|a l IHl]; intros g gx Ex; simpl in Ex.
            - injection Ex as <-. reflexivity.
            - destruct (exec_act jsc_len enum_len a g) as [gy| | |] eqn:Ea; simpl in Ex; try discriminate.
              rewrite (IHl _ _ Ex).
              destruct a; simpl in Ea.
              + destruct (pos g <? back); [discriminate|]. injection Ea as <-. reflexivity.
              + injection Ea as <-. reflexivity.
              + injection Ea as <-. reflexivity.
              + injection Ea as <-. reflexivity.
              + destruct (sstk g); [discriminate|]. injection Ea as <-. reflexivity.
              + destruct (pos g <? n); [discriminate|]. injection Ea as <-. reflexivity.
              + unfold read_body in Ea. destruct (jsc_len (rest g)); [|discriminate]. injection Ea as <-. destruct (0 <? n); reflexivity.
              + unfold read_body in Ea. destruct (enum_len (rest g)); [|discriminate]. injection Ea as <-. destruct (0 <? n); reflexivity. }
          destruct (snd ax).
          - injection Ed as <-. exact Hx.
          - rewrite (IHf _ _ Ed). exact Hx.
          - discriminate. }
        unfold estk_rel in Hrel. rewrite He. exact Hrel. }
      assert (HG2 : GI s g2).
      { split; [exact Hrel2|]. split; [exact Hos|]. split; [exact Hsz|].
        split; [exact HEv1|]. split; [unfold g2, advance; simpl; rewrite HLp1; exact HL|].
        intros H. apply HI2. unfold g2, advance in H. simpl in H. exact H. }
      pose proof (drain_sound ty Hok size (List.length (finds g2)) s g2 HG2 HA2 (le_n _)) as Hdr.
      destruct (drain (List.length (finds g2)) g2) as [[g3 ol]|p e| |]; cbn [obind fst snd] in *; try exact I.
      destruct Hdr as (s3 & HG3 & HA3 & Hm3 & Hp3 & Hr3 & Hol).
      destruct ol as [l|].
      + lia.
      + assert (Hfuel3 : (MM g3 < Z.of_nat fuel)%Z) by lia.
        apply (IH s3 g3 HG3 HA3 Hfuel3). lia.
  Qed.

  Lemma next_pos fuel s g :
    GI s g -> AllB g -> (MM g < Z.of_nat fuel)%Z -> pos g <= size + 1 ->
    match next jsc_len enum_len data size fuel g with
    | Ok (g', _) => pos g' <= size + 1
    | _ => True
    end.
  Proof.
    intros HG HA Hfuel Hpos. unfold next.
    destruct (finds g) as [|ev fs] eqn:Ef.
    - apply (main_loop_pos fuel s g HG HA Hfuel Hpos).
    - destruct HG as (Hrel & Hos & Hsz & [sEnd Hrun] & HL & HT).
      rewrite Ef in Hrun. simpl in Hrun.
      destruct (ev_step size s ev) as [s1|] eqn:Est; [|discriminate].
      destruct (ev_step_props size _ _ _ Est) as (Hos1 & Hm1 & Hsz1).
      assert (Hrel' : estk_rel s (set_finds g fs)) by exact Hrel.
      destruct (process_event_sound ty Hok size s ev s1 (set_finds g fs) Hrel' Hos Est) as (g1 & ol & Hpe & Hshape & Hrel1 & Hol).
      rewrite Hpe. cbn [obind fst snd].
      assert (HT1 : pos g <= size -> InvTy ty size s1 (set_finds g fs)).
      { intros H. eapply invty_shift; [exact Ef | exact Est | exact (HT H)]. }
      assert (HG1 : GI s1 g1 /\ AllB g1 /\ pos g1 = pos g /\ reg g1 = reg g /\ finds g1 = fs).
      { destruct Hshape as [->|[e' ->]].
        - split; [|repeat split; try reflexivity; apply HA].
          split; [exact Hrel1|]. split; [exact Hos1|]. split; [exact Hsz1|].
          split; [eexists; exact Hrun|]. split; [exact HL|]. exact HT1.
        - split; [|repeat split; try reflexivity; apply HA].
          split; [exact Hrel1|]. split; [exact Hos1|]. split; [exact Hsz1|].
          split; [eexists; exact Hrun|]. split; [exact HL|]. exact HT1. }
      destruct HG1 as (HG1 & HA1 & Hp1 & Hr1 & Hf1).
      assert (HMM1 : (MM g1 + 1 <= MM g)%Z).
      { unfold TM_Dispatch.MM, TM_Dispatch.PhiR', TM_Dispatch.PhiR. rewrite Hp1, Hr1, Hf1, Ef. simpl List.length. lia. }
      destruct ol as [l|].
      + lia.
      + assert (Hfuel1 : (MM g1 < Z.of_nat fuel)%Z) by lia.
        apply (main_loop_pos fuel s1 g1 HG1 HA1 Hfuel1). lia.
  Qed.
End LoopPos.

(* ---- the invariant of one scanner between two calls of Next() ---- *)

(* F = the frontier: every lexeme still to come begins at or after F *)
Definition sinv (x : scn) (F : N) : Prop :=
  sc_size x = N.of_nat (List.length (sc_data x)) /\
  pos (sc_cfg x) <= sc_size x + 1 /\
  exists o, GI gen_typing (sc_size x) (o, F) (sc_cfg x) /\ AllB (sc_cfg x) /\
            (MM gen_typing (sc_size x) (sc_cfg x) < Z.of_nat (scan_fuel (sc_data x)))%Z.

Lemma new_scanner_sinv name content : Forall isb content -> sinv (new_scanner name content) 0.
Proof.
  intros Hb. unfold sinv, new_scanner; cbn [sc_size sc_data sc_cfg].
  split; [reflexivity|]. split; [simpl; lia|].
  destruct (init_GI gen_typing gen_table_ok content Hb) as [HG HA].
  exists None. split; [exact HG|]. split; [exact HA|]. apply init_MM. exact gen_table_ok.
Qed.

Lemma sc_next_sinv jsc enum x F :
  len_sane jsc -> len_sane enum -> sinv x F ->
  match sc_next jsc enum x with
  | Ok (x1, Some l) =>
    exists F', sinv x1 F' /\ F <= lb l /\ lb l <= le l + 1 /\ le l + 1 <= F' /\ le l + 1 <= sc_size x /\ F <= F'
  | Ok (x1, None) => sc_size x < pos (sc_cfg x1) /\ pos (sc_cfg x1) <= sc_size x + 1
  | Err p _ => p <= sc_size x
  | _ => False
  end.
Proof.
  intros Hj He (Hsz & Hpos & o & HG & HA & HM).
  pose proof (next_sound gen_typing gen_table_ok jsc enum Hj He (sc_data x) (sc_size x) (scan_fuel (sc_data x)) (o, F) (sc_cfg x) HG HA HM) as Hn.
  pose proof (next_pos gen_typing gen_table_ok jsc enum Hj He (sc_data x) (sc_size x) (scan_fuel (sc_data x)) (o, F) (sc_cfg x) HG HA HM Hpos) as Hp.
  unfold sc_next.
  destruct (next jsc enum (sc_data x) (sc_size x) (scan_fuel (sc_data x)) (sc_cfg x)) as [[g' ol]|p e| |]; cbn [obind fst snd]; try exact Hn.
  destruct Hn as ([o' F'] & HG' & HA' & Hmono & Hol). cbn [snd] in *.
  destruct ol as [l|].
  - destruct Hol as ([Hl1 Hl2] & Hlb & Hle & HMM).
    exists F'. split.
    + unfold sinv; cbn [sc_size sc_data sc_cfg]. split; [exact Hsz|]. split; [exact Hp|].
      exists o'. split; [exact HG'|]. split; [exact HA'|]. lia.
    + repeat split; try assumption.
  - cbn [sc_cfg]. split; [exact Hol|exact Hp].
Qed.

(* ---- vocabulary ---- *)

Definition kw_include : bytes := kind_keyword KInclude.
Example kw_include_text : kw_include = bs "INCLUDE".
Proof. reflexivity. Qed.

(* the bytes of [data] from offset [off] on begin with [w] *)
Definition spells_at (data : bytes) (off : N) (w : bytes) : Prop :=
  firstn (List.length w) (skipn (N.to_nat off) data) = w.

(* the include chain of a scanner stack [(file_k, offset of its INCLUDE); ...; (root, ...)], top
   (= innermost includer) first: (including file, offset of the INCLUDE keyword in it) *)
Fixpoint include_chain (st : list (scn * N)) : list (bytes * N) :=
  match st with
  | [] => []
  | (includer, off) :: outer => (sc_file includer, off) :: include_chain outer
  end.

(* the model's stack_trace is that chain *)
Lemma stack_trace_is_chain st : stack_trace st = include_chain st.
Proof. induction st as [|[x off] r IH]; simpl; [reflexivity|]. rewrite <- IH. reflexivity. Qed.

Lemma firstn_spells {A} (w L : list A) n : firstn n L = w -> firstn (List.length w) L = w /\ (List.length w <= n)%nat.
Proof.
  intros <-. split; [|apply firstn_le_length].
  rewrite firstn_length. destruct (Nat.le_ge_cases n (List.length L)) as [H|H].
  - rewrite Nat.min_l by exact H. reflexivity.
  - rewrite Nat.min_r by exact H. rewrite firstn_all. symmetry. apply firstn_all2. exact H.
Qed.

Lemma value_of_cases x l : (exists v, value_of x l = COk v) \/ (exists w, value_of x l = CPanic w).
Proof. unfold value_of. destruct (lex_value _ _ l); [left|right|right|right]; eexists; reflexivity. Qed.

Lemma value_of_not_err x l e : value_of x l <> CErr e.
Proof. destruct (value_of_cases x l) as [[v H]|[w H]]; rewrite H; discriminate. Qed.

(* the text of a lexeme is where the lexeme says it is *)
Lemma value_spells x l kw :
  value_of x l = COk kw ->
  spells_at (sc_data x) (lb l) kw /\ lb l + N.of_nat (List.length kw) <= le l + 1 /\ le l + 1 <= sc_size x.
Proof.
  unfold value_of, lex_value.
  destruct ((lb l <=? le l + 1) && (le l + 1 <=? sc_size x)) eqn:E; [|discriminate].
  apply andb_true_iff in E. destruct E as [E1 E2]. apply N.leb_le in E1, E2.
  intros H. injection H as H. unfold suffix in H. apply firstn_spells in H. destruct H as [H1 H2].
  split; [exact H1|]. split; [lia|exact E2].
Qed.

(* ---- at most one INCLUDE per file (decidable) ---- *)

Fixpoint include_offsets_from (off : N) (data : bytes) : list N :=
  match data with
  | [] => []
  | _ :: r => (if has_prefix kw_include data then [off] else []) ++ include_offsets_from (off + 1) r
  end.
(* the offsets at which the bytes INCLUDE occur *)
Definition include_offsets (data : bytes) : list N := include_offsets_from 0 data.
Definition single_include (data : bytes) : bool := (List.length (include_offsets data) <=? 1)%nat.
Definition single_include_per_file (files : fsys) : bool :=
  forallb (fun e => match snd e with FFile c => single_include c | FDir => true end) files.

Lemma spells_prefix data n : spells_at data (N.of_nat n) kw_include -> has_prefix kw_include (skipn n data) = true.
Proof.
  unfold spells_at. rewrite Nat2N.id. intros H. apply has_prefix_spec.
  exists (skipn (List.length kw_include) (skipn n data)).
  pose proof (firstn_skipn (List.length kw_include) (skipn n data)) as E. rewrite H in E. symmetry. exact E.
Qed.

Lemma include_offsets_from_in data : forall base n,
  has_prefix kw_include (skipn n data) = true -> In (base + N.of_nat n) (include_offsets_from base data).
Proof.
  induction data as [|c r IH]; intros base n H.
  - destruct n; simpl in H; discriminate.
  - destruct n as [|n].
    + cbn [skipn] in H. cbn [include_offsets_from]. rewrite H. left. simpl. lia.
    + cbn [skipn] in H. cbn [include_offsets_from]. apply in_or_app. right.
      replace (base + N.of_nat (S n)) with (base + 1 + N.of_nat n) by lia. apply IH. exact H.
Qed.

Lemma single_include_unique data o1 o2 :
  single_include data = true -> spells_at data o1 kw_include -> spells_at data o2 kw_include -> o1 = o2.
Proof.
  intros Hs H1 H2.
  assert (Hin : forall o, spells_at data o kw_include -> In o (include_offsets data)).
  { intros o Ho. rewrite <- (N2Nat.id o) in Ho. apply spells_prefix in Ho.
    pose proof (include_offsets_from_in data 0 (N.to_nat o) Ho) as Hi. rewrite N2Nat.id in Hi. exact Hi. }
  apply Hin in H1. apply Hin in H2. unfold single_include in Hs. apply Nat.leb_le in Hs.
  destruct (include_offsets data) as [|a [|b r]]; simpl in *; [contradiction| |lia].
  destruct H1 as [<-|[]]. destruct H2 as [<-|[]]. reflexivity.
Qed.

(* ---- tails of a list without repeated names ---- *)

Definition is_tail {A} (t M : list A) : Prop := exists pre, M = pre ++ t.

Lemma is_tail_refl {A} (M : list A) : is_tail M M.
Proof. exists []. reflexivity. Qed.
Lemma is_tail_cons {A} (a : A) t M : is_tail t M -> is_tail t (a :: M).
Proof. intros [pre ->]. exists (a :: pre). reflexivity. Qed.
Lemma is_tail_cases {A} (a : A) t M : is_tail t (a :: M) -> t = a :: M \/ is_tail t M.
Proof. intros [[|b pre] H]; [left; simpl in H; congruence|]. right. exists pre. simpl in H. congruence. Qed.
Lemma is_tail_tl {A} (a : A) t M : is_tail (a :: t) M -> is_tail t M.
Proof. intros [pre ->]. exists (pre ++ [a]). rewrite <- app_assoc. reflexivity. Qed.
Lemma is_tail_head_in {A} (a : A) t M : is_tail (a :: t) M -> In a M.
Proof. intros [pre ->]. apply in_or_app. right. left. reflexivity. Qed.

Lemma tails_same_head {A B} (f : A -> B) (M : list A) : forall a1 t1 a2 t2,
  NoDup (map f M) -> is_tail (a1 :: t1) M -> is_tail (a2 :: t2) M -> f a1 = f a2 -> a1 :: t1 = a2 :: t2.
Proof.
  induction M as [|m M IH]; intros a1 t1 a2 t2 Hnd H1 H2 Hf.
  - destruct H1 as [[|x pre] H]; discriminate.
  - simpl in Hnd. inversion Hnd as [|? ? Hnin Hnd']; subst.
    apply is_tail_cases in H1. apply is_tail_cases in H2.
    destruct H1 as [H1|H1], H2 as [H2|H2].
    + congruence.
    + exfalso. apply Hnin. inversion H1; subst. rewrite Hf. apply in_map. eapply is_tail_head_in; exact H2.
    + exfalso. apply Hnin. inversion H2; subst. rewrite <- Hf. apply in_map. eapply is_tail_head_in; exact H1.
    + eapply IH; eassumption.
Qed.

(* ---- errors of the context zipper are about the directive being placed ---- *)

Lemma process_context_err fuel : forall d fr rt e,
  process_context fuel d fr rt = CErr e -> exists k, e = kw_err d k.
Proof.
  induction fuel as [|f IH]; intros d fr rt e; [discriminate|].
  cbn [process_context]. destruct fr as [|[cd kids] rest].
  - destruct (root_allowed (d_kind d)); [discriminate|]. intros H; injection H as <-. eexists; reflexivity.
  - destruct (ctx_allowed (d_kind cd) (d_kind d)).
    + destruct (is_http_method (d_kind d) && negb (beq (named d (bs "Path")) []) && kind_eqb (d_kind cd) KURL).
      * destruct (existsb _ _); [|discriminate]. intros H; injection H as <-. eexists; reflexivity.
      * discriminate.
    + destruct (d_explicit cd); [intros H; injection H as <-; eexists; reflexivity|].
      destruct (close_frame _ rt) as [fr' rt']. apply IH.
Qed.

Lemma flush_cur_err s e : flush_cur s = CErr e -> exists d k, cs_cur s = Some d /\ e = kw_err d k.
Proof.
  unfold flush_cur. destruct (cs_cur s) as [d|]; [|discriminate].
  destruct (process_context _ d _ _) as [r|e'| |] eqn:Hp; cbn [cbind]; try discriminate.
  intros H; injection H as <-. apply process_context_err in Hp. destruct Hp as [k ->].
  exists d, k. split; reflexivity.
Qed.

(* ---- a predicate on directives that only looks at the keyword coordinates and the tracer ---- *)

Section Gen.
  Variable jsc_len enum_len : bytes -> len_result.
  Variable files : fsys.
  Variable banned : list kind.
  Variable P : directive -> Prop.
  Hypothesis P_stable : forall d d', d_kw d' = d_kw d -> d_trace d' = d_trace d -> P d -> P d'.

  Local Notation process_lexeme := (Core.process_lexeme jsc_len enum_len files banned).

  Lemma upd_cur_all_gen s d : state_all P s -> P d -> state_all P (upd_cur s (Some d)).
  Proof.
    intros [_ [Hf Hr]] Hd. split; [|split; assumption].
    simpl. intros d' H; inversion H; subst; exact Hd.
  Qed.

  Lemma directive_tracer_flush s s1 : flush_cur s = COk s1 -> directive_tracer s1 = directive_tracer s.
  Proof.
    intros H. destruct (flush_cur_keeps _ _ H) as [_ [Hst [Htr _]]].
    unfold directive_tracer. rewrite Hst, Htr. reflexivity.
  Qed.

  (* every directive the state holds satisfies P afterwards, if the directive a keyword creates does *)
  Lemma process_lexeme_all_gen s l s' :
    state_all P s ->
    (forall d, lexkind_eqb (lk l) LKeyword = true -> d_kw d = coords_of (cs_sc s) l ->
               d_trace d = fst (directive_tracer s) -> P d) ->
    process_lexeme s l = COk s' -> state_all P s'.
  Proof.
    intros Hs Hnew. pose proof Hs as [Hc _]. unfold Core.process_lexeme.
    destruct (lexkind_eqb (lk l) LKeyword) eqn:Hlk.
    - destruct (value_of (cs_sc s) l) as [kw| | |]; cbn [cbind]; try discriminate.
      destruct (beq kw (kind_keyword KInclude)).
      + destruct (flush_cur s) as [s0| | |] eqn:H0; cbn [cbind]; try discriminate.
        pose proof (flush_cur_all P _ _ Hs H0) as Hs0.
        intros H. apply process_include_ok_inv in H.
        destruct H as [x1 [path [content [_ [_ [_ [_ [_ ->]]]]]]]]. exact Hs0.
      + unfold Core.process_keyword.
        destruct (flush_cur s) as [s1| | |] eqn:H1; cbn [cbind]; try discriminate.
        pose proof (flush_cur_all P _ _ Hs H1) as Hs1.
        destruct (flush_cur_keeps _ _ H1) as [Hsc _].
        pose proof (directive_tracer_flush _ _ H1) as Htr.
        destruct (_ && _); [discriminate|].
        destruct (directive_type kw) as [k|]; [|discriminate].
        destruct (kind_in k banned); [discriminate|].
        destruct (directive_tracer s1) as [tr cache] eqn:Edt.
        intros H; inversion H; subst; clear H.
        destruct Hs1 as [_ [Hf Hr]]. split; [|split; assumption].
        simpl. intros d' H; inversion H; subst. apply Hnew; [reflexivity| |].
        * simpl. rewrite Hsc. reflexivity.
        * simpl. rewrite <- Htr. reflexivity.
    - destruct (lexkind_eqb (lk l) LContextExplicitClosing).
      + destruct (flush_cur s) as [s1| | |] eqn:H1; cbn [cbind]; try discriminate.
        pose proof (flush_cur_all P _ _ Hs H1) as [Hc1 [Hf1 Hr1]].
        destruct (close_explicit _ _ _) as [r|] eqn:Hce; [|discriminate].
        destruct (close_explicit_all P _ _ _ _ Hf1 Hr1 Hce) as [H2 H3].
        intros H; inversion H; subst. split; [exact Hc1|split; assumption].
      + destruct (cs_cur s) as [d|] eqn:Ec; [|discriminate].
        pose proof (Hc d eq_refl) as Hd.
        destruct (lexkind_eqb (lk l) LParameter).
        { unfold process_parameter. rewrite Ec.
          destruct (value_of (cs_sc s) l) as [v| | |]; cbn [cbind]; try discriminate.
          destruct (append_parameter (d_kind d) v) as [k x|x|]; try discriminate.
          - destruct (has_named d k); [discriminate|]. intros H; inversion H; subst.
            apply upd_cur_all_gen; [exact Hs|]. eapply P_stable; [| |exact Hd]; reflexivity.
          - intros H; inversion H; subst. apply upd_cur_all_gen; [exact Hs|]. eapply P_stable; [| |exact Hd]; reflexivity. }
        destruct (lexkind_eqb (lk l) LAnnotation).
        { destruct (value_of (cs_sc s) l); cbn [cbind]; try discriminate.
          intros H; inversion H; subst. apply upd_cur_all_gen; [exact Hs|]. eapply P_stable; [| |exact Hd]; reflexivity. }
        destruct (_ || _).
        { intros H; inversion H; subst. apply upd_cur_all_gen; [exact Hs|]. eapply P_stable; [| |exact Hd]; reflexivity. }
        destruct (lexkind_eqb (lk l) LContextExplicitOpening); [|discriminate].
        intros H; inversion H; subst. apply upd_cur_all_gen; [exact Hs|]. eapply P_stable; [| |exact Hd]; reflexivity.
  Qed.

  Lemma forest_of_all_gen s : state_all P s -> Forall (tree_all P) (forest_of s).
  Proof.
    intros [_ [Hf Hr]]. unfold forest_of. apply Forall_rev. apply close_all_all; assumption.
  Qed.

  (* what a lexeme does to the tracer cache *)
  Lemma process_lexeme_tracers s l s' :
    process_lexeme s l = COk s' ->
    cs_tracers s' = cs_tracers s \/
    (lexkind_eqb (lk l) LKeyword = true /\ cs_tracers s' = snd (directive_tracer s)).
  Proof.
    unfold Core.process_lexeme.
    destruct (lexkind_eqb (lk l) LKeyword) eqn:Hlk.
    - destruct (value_of (cs_sc s) l) as [kw| | |]; cbn [cbind]; try discriminate.
      destruct (beq kw (kind_keyword KInclude)).
      + destruct (flush_cur s) as [s0| | |] eqn:H0; cbn [cbind]; try discriminate.
        destruct (flush_cur_keeps _ _ H0) as [_ [_ [Htr0 _]]].
        intros H. apply process_include_ok_inv in H.
        destruct H as [x1 [path [content [_ [_ [_ [_ [_ ->]]]]]]]]. left; simpl; exact Htr0.
      + unfold Core.process_keyword.
        destruct (flush_cur s) as [s1| | |] eqn:H1; cbn [cbind]; try discriminate.
        pose proof (directive_tracer_flush _ _ H1) as Htr.
        destruct (_ && _); [discriminate|].
        destruct (directive_type kw) as [k|]; [|discriminate].
        destruct (kind_in k banned); [discriminate|].
        destruct (directive_tracer s1) as [tr cache] eqn:Edt.
        intros H; inversion H; subst; clear H. right. split; [reflexivity|]. simpl. rewrite <- Htr. reflexivity.
    - destruct (lexkind_eqb (lk l) LContextExplicitClosing).
      + destruct (flush_cur s) as [s1| | |] eqn:H1; cbn [cbind]; try discriminate.
        destruct (flush_cur_keeps _ _ H1) as [_ [_ [Htr _]]].
        destruct (close_explicit _ _ _); [|discriminate].
        intros H; inversion H; subst; simpl. left; exact Htr.
      + destruct (cs_cur s) as [d|] eqn:Ec; [|discriminate].
        destruct (lexkind_eqb (lk l) LParameter).
        { unfold process_parameter. rewrite Ec.
          destruct (value_of (cs_sc s) l) as [v| | |]; cbn [cbind]; try discriminate.
          destruct (append_parameter (d_kind d) v) as [k x|x|]; try discriminate.
          - destruct (has_named d k); [discriminate|]. intros H; inversion H; subst. left; reflexivity.
          - intros H; inversion H; subst. left; reflexivity. }
        destruct (lexkind_eqb (lk l) LAnnotation).
        { destruct (value_of (cs_sc s) l); cbn [cbind]; try discriminate.
          intros H; inversion H; subst. left; reflexivity. }
        destruct (_ || _).
        { intros H; inversion H; subst. left; reflexivity. }
        destruct (lexkind_eqb (lk l) LContextExplicitOpening); [|discriminate].
        intros H; inversion H; subst. left; reflexivity.
  Qed.

  (* after a successful INCLUDE no directive is pending: the one read before has been placed *)
  Lemma process_include_cur s s0 l s' :
    flush_cur s = COk s0 -> Core.process_include jsc_len enum_len files banned s0 l = COk s' -> cs_cur s' = None.
  Proof.
    intros H0 H. destruct (flush_cur_keeps _ _ H0) as [_ [_ [_ Hc0]]].
    apply process_include_ok_inv in H. destruct H as [x1 [path [content [_ [_ [_ [_ [_ ->]]]]]]]]. exact Hc0.
  Qed.

  (* the pending directive after a lexeme: the one that was pending (parameters, annotation, body
     added), or the one the keyword creates *)
  Lemma process_lexeme_cur_gen s l s' :
    (forall d, cs_cur s = Some d -> P d) ->
    (forall d, lexkind_eqb (lk l) LKeyword = true -> d_kw d = coords_of (cs_sc s) l ->
               d_trace d = fst (directive_tracer s) -> P d) ->
    process_lexeme s l = COk s' -> forall d, cs_cur s' = Some d -> P d.
  Proof.
    intros Hc Hnew. unfold Core.process_lexeme.
    destruct (lexkind_eqb (lk l) LKeyword) eqn:Hlk.
    - destruct (value_of (cs_sc s) l) as [kw| | |]; cbn [cbind]; try discriminate.
      destruct (beq kw (kind_keyword KInclude)).
      + destruct (flush_cur s) as [s0| | |] eqn:H0; cbn [cbind]; try discriminate.
        intros H d Hd. rewrite (process_include_cur _ _ _ _ H0 H) in Hd. discriminate.
      + unfold Core.process_keyword.
        destruct (flush_cur s) as [s1| | |] eqn:H1; cbn [cbind]; try discriminate.
        destruct (flush_cur_keeps _ _ H1) as [Hsc _].
        pose proof (directive_tracer_flush _ _ H1) as Htr.
        destruct (_ && _); [discriminate|].
        destruct (directive_type kw) as [k|]; [|discriminate].
        destruct (kind_in k banned); [discriminate|].
        destruct (directive_tracer s1) as [tr cache] eqn:Edt.
        intros H; inversion H; subst; clear H.
        simpl. intros d' H; inversion H; subst. apply Hnew; [reflexivity| |].
        * simpl. rewrite Hsc. reflexivity.
        * simpl. rewrite <- Htr. reflexivity.
    - destruct (lexkind_eqb (lk l) LContextExplicitClosing).
      + destruct (flush_cur s) as [s1| | |] eqn:H1; cbn [cbind]; try discriminate.
        destruct (flush_cur_keeps _ _ H1) as [_ [_ [_ Hc1]]].
        destruct (close_explicit _ _ _) as [r|]; [|discriminate].
        intros H; inversion H; subst. simpl. intros d Hd. rewrite Hc1 in Hd. discriminate.
      + destruct (cs_cur s) as [d|] eqn:Ec; [|discriminate].
        pose proof (Hc d eq_refl) as Hd.
        destruct (lexkind_eqb (lk l) LParameter).
        { unfold process_parameter. rewrite Ec.
          destruct (value_of (cs_sc s) l) as [v| | |]; cbn [cbind]; try discriminate.
          destruct (append_parameter (d_kind d) v) as [k x|x|]; try discriminate.
          - destruct (has_named d k); [discriminate|]. intros H; inversion H; subst.
            simpl. intros d' H'; inversion H'; subst. eapply P_stable; [| |exact Hd]; reflexivity.
          - intros H; inversion H; subst. simpl. intros d' H'; inversion H'; subst. eapply P_stable; [| |exact Hd]; reflexivity. }
        destruct (lexkind_eqb (lk l) LAnnotation).
        { destruct (value_of (cs_sc s) l); cbn [cbind]; try discriminate.
          intros H; inversion H; subst. simpl. intros d' H'; inversion H'; subst. eapply P_stable; [| |exact Hd]; reflexivity. }
        destruct (_ || _).
        { intros H; inversion H; subst. simpl. intros d' H'; inversion H'; subst. eapply P_stable; [| |exact Hd]; reflexivity. }
        destruct (lexkind_eqb (lk l) LContextExplicitOpening); [|discriminate].
        intros H; inversion H; subst. simpl. intros d' H'; inversion H'; subst. eapply P_stable; [| |exact Hd]; reflexivity.
  Qed.
End Gen.

(* ---- the two kinds of errors of the scan ---- *)

(* an error raised while the scan is in state s (s = the state at the start of the iteration of
   scanProject's loop that ends with the error):
   - by the scan loop itself: located in the file being read, inside it, with the trace of the
     scanner stack;
   - about the pending directive d (it finds no place in the context): located at d's keyword, with
     d's own tracer; when that tracer is empty, scanProject's deferred AddIncludeTraceToError puts
     the trace of the scanner stack in its place *)
Inductive err_shape (s : cstate) (e : cerr) : Prop :=
| es_scan :
    ce_file e = sc_file (cs_sc s) -> ce_idx e <= sc_size (cs_sc s) ->
    ce_trace e = stack_trace (cs_stack s) -> err_shape s e
| es_dir d :
    cs_cur s = Some d ->
    ce_file e = c_file (d_kw d) -> ce_idx e = c_beg (d_kw d) ->
    ce_trace e = match d_trace d with [] => stack_trace (cs_stack s) | _ => rev (d_trace d) end ->
    err_shape s e.

Section Err.
  Variable jsc_len enum_len : bytes -> len_result.
  Hypothesis jsc_sane : len_sane jsc_len.
  Hypothesis enum_sane : len_sane enum_len.
  Variable files : fsys.
  Variable banned : list kind.

  Local Notation sc_next := (Core.sc_next jsc_len enum_len).
  Local Notation process_include := (Core.process_include jsc_len enum_len files banned).
  Local Notation process_keyword := (Core.process_keyword banned).
  Local Notation process_lexeme := (Core.process_lexeme jsc_len enum_len files banned).
  Local Notation scan_project := (Core.scan_project jsc_len enum_len files banned).

  Definition loop_err (s : cstate) (e : cerr) : Prop :=
    ce_file e = sc_file (cs_sc s) /\ ce_idx e <= sc_size (cs_sc s) /\ ce_trace e = stack_trace (cs_stack s).

  Lemma scan_err_loop s s1 idx k :
    sc_file (cs_sc s1) = sc_file (cs_sc s) -> cs_stack s1 = cs_stack s -> idx <= sc_size (cs_sc s) ->
    loop_err s (scan_err s1 idx k).
  Proof. intros Hf Hst Hi. unfold loop_err, scan_err; simpl. rewrite Hf, Hst. repeat split. exact Hi. Qed.

  Lemma process_include_err s l e F :
    sinv (cs_sc s) F -> lb l <= sc_size (cs_sc s) ->
    process_include s l = CErr e -> loop_err s e.
  Proof.
    intros Hinv Hl. unfold Core.process_include.
    destruct (kind_in KInclude banned).
    { intros H; injection H as <-. apply scan_err_loop; [reflexivity|reflexivity|exact Hl]. }
    pose proof (sc_next_sinv jsc_len enum_len (cs_sc s) F jsc_sane enum_sane Hinv) as Hn.
    destruct (sc_next (cs_sc s)) as [[x1 ol]|p e0|w|] eqn:En; try discriminate.
    2:{ intros H; injection H as <-. apply scan_err_loop; [reflexivity|reflexivity|exact Hn]. }
    destruct (sc_next_same_file _ _ _ _ _ En) as [Hf _].
    assert (Hany : forall k, loop_err s (scan_err (upd_sc s x1) (lb l) k)).
    { intros k. apply scan_err_loop; [exact Hf|reflexivity|exact Hl]. }
    destruct ol as [pl|]; [|intros H; injection H as <-; apply Hany].
    destruct (negb (lexkind_eqb (lk pl) LParameter)); [intros H; injection H as <-; apply Hany|].
    destruct (value_of x1 pl) as [raw|e0|w|] eqn:Hv; cbn [cbind]; try discriminate.
    2:{ exfalso. eapply value_of_not_err; exact Hv. }
    cbv zeta. generalize (lib_unquote raw). intros path.
    destruct (beq path []); [intros H; injection H as <-; apply Hany|].
    destruct (validateIncludeFileName path) as [[m|]|w]; try discriminate.
    { intros H; injection H as <-; apply Hany. }
    destruct (fs_stat files _) as [[content|]|]; try (intros H; injection H as <-; apply Hany).
    destruct (existsb _ _); [intros H; injection H as <-; apply Hany|discriminate].
  Qed.

  (* s = the state after Next() delivered the lexeme l *)
  Lemma process_lexeme_err s l e F :
    sinv (cs_sc s) F -> lb l <= sc_size (cs_sc s) ->
    process_lexeme s l = CErr e ->
    loop_err s e \/ exists d k, cs_cur s = Some d /\ e = kw_err d k.
  Proof.
    intros Hinv Hl.
    assert (Hany : forall k, loop_err s (scan_err s (lb l) k)).
    { intros k. apply scan_err_loop; [reflexivity|reflexivity|exact Hl]. }
    assert (Hpos : pos (sc_cfg (cs_sc s)) - 1 <= sc_size (cs_sc s)).
    { destruct Hinv as (_ & Hp & _). lia. }
    unfold Core.process_lexeme.
    destruct (lexkind_eqb (lk l) LKeyword).
    - destruct (value_of (cs_sc s) l) as [kw|e0|w|] eqn:Hv; cbn [cbind]; try discriminate.
      2:{ exfalso. eapply value_of_not_err; exact Hv. }
      destruct (beq kw (kind_keyword KInclude)).
      + destruct (flush_cur s) as [s0|e1|w|] eqn:H0; cbn [cbind]; try discriminate.
        2:{ intros H; injection H as <-. right. apply flush_cur_err. exact H0. }
        destruct (flush_cur_keeps _ _ H0) as [Hsc0 [Hst0 _]].
        intros H. left.
        assert (Hl0 : loop_err s0 e).
        { eapply (process_include_err s0 l e F); [rewrite Hsc0; exact Hinv|rewrite Hsc0; exact Hl|exact H]. }
        destruct Hl0 as (A & B & C). unfold loop_err. rewrite <- Hsc0, <- Hst0. repeat split; assumption.
      + unfold Core.process_keyword.
        destruct (flush_cur s) as [s1|e1|w|] eqn:H1; cbn [cbind]; try discriminate.
        2:{ intros H; injection H as <-. right. apply flush_cur_err. exact H1. }
        destruct (flush_cur_keeps _ _ H1) as [Hsc [Hst _]].
        assert (Hany1 : forall k, loop_err s (scan_err s1 (lb l) k)).
        { intros k. apply scan_err_loop; [rewrite Hsc; reflexivity|exact Hst|exact Hl]. }
        destruct (_ && _); [intros H; injection H as <-; left; apply Hany1|].
        destruct (directive_type kw) as [k|]; [|intros H; injection H as <-; left; apply Hany1].
        destruct (kind_in k banned); [intros H; injection H as <-; left; apply Hany1|].
        destruct (directive_tracer s1) as [tr cache]. discriminate.
    - destruct (lexkind_eqb (lk l) LContextExplicitClosing).
      + destruct (flush_cur s) as [s1|e1|w|] eqn:H1; cbn [cbind]; try discriminate.
        2:{ intros H; injection H as <-. right. apply flush_cur_err. exact H1. }
        destruct (flush_cur_keeps _ _ H1) as [Hsc [Hst _]].
        destruct (close_explicit _ _ _); [discriminate|].
        intros H; injection H as <-. left. apply scan_err_loop; [rewrite Hsc; reflexivity|exact Hst|].
        rewrite Hsc. exact Hpos.
      + destruct (cs_cur s) as [d|] eqn:Ec; [|intros H; injection H as <-; left; apply Hany].
        destruct (lexkind_eqb (lk l) LParameter).
        { unfold process_parameter. rewrite Ec.
          destruct (value_of (cs_sc s) l) as [v|e0|w|] eqn:Hv; cbn [cbind]; try discriminate.
          2:{ exfalso. eapply value_of_not_err; exact Hv. }
          destruct (append_parameter (d_kind d) v) as [k x|x|]; try discriminate.
          - destruct (has_named d k); [|discriminate]. intros H; injection H as <-; left; apply Hany.
          - intros H; injection H as <-; left; apply Hany. }
        destruct (lexkind_eqb (lk l) LAnnotation).
        { destruct (value_of (cs_sc s) l) as [v|e0|w|] eqn:Hv; cbn [cbind]; try discriminate.
          exfalso. eapply value_of_not_err; exact Hv. }
        destruct (_ || _); [discriminate|].
        destruct (lexkind_eqb (lk l) LContextExplicitOpening); [discriminate|].
        intros H; injection H as <-; left; apply Hany.
  Qed.

  (* the trace of an error that leaves the loop: scanProject's deferred AddIncludeTraceToError *)
  Lemma with_scan_trace_loop {A} s s1 e e' :
    sc_file (cs_sc s1) = sc_file (cs_sc s) -> sc_size (cs_sc s1) = sc_size (cs_sc s) -> cs_stack s1 = cs_stack s ->
    loop_err s1 e -> with_scan_trace (A:=A) s (CErr e) = CErr e' -> err_shape s e'.
  Proof.
    intros Hf Hz Hst (H1 & H2 & H3). unfold with_scan_trace.
    destruct (ce_trace e) eqn:Et; intros H; injection H as <-.
    - apply es_scan; simpl; [congruence|rewrite <- Hz; exact H2|reflexivity].
    - apply es_scan; [congruence|rewrite <- Hz; exact H2|]. congruence.
  Qed.

  Lemma with_scan_trace_dir {A} s d k e' :
    cs_cur s = Some d -> with_scan_trace (A:=A) s (CErr (kw_err d k)) = CErr e' -> err_shape s e'.
  Proof.
    intros Hc. unfold with_scan_trace, kw_err; cbn [ce_trace ce_file ce_idx ce_kind].
    destruct (rev (d_trace d)) eqn:Er; intros H; injection H as <-.
    - apply es_dir with (d := d); simpl; try reflexivity; try assumption.
      destruct (d_trace d) as [|a r]; [reflexivity|]. simpl in Er. destruct (rev r); discriminate.
    - apply es_dir with (d := d); simpl; try reflexivity; try assumption.
      destruct (d_trace d) as [|a r]; [discriminate|]. rewrite <- Er. reflexivity.
  Qed.

  (* an error raised in the iteration of the loop that starts in s *)
  Lemma iter_err_shape s e F :
    sinv (cs_sc s) F -> scan_project 1 s = CErr e -> err_shape s e.
  Proof.
    intros Hinv. rewrite scan_project_S.
    pose proof (sc_next_sinv jsc_len enum_len (cs_sc s) F jsc_sane enum_sane Hinv) as Hn.
    destruct (sc_next (cs_sc s)) as [[x1 [l|]]|p e0|w|] eqn:En; try discriminate.
    - destruct (sc_next_same_file _ _ _ _ _ En) as [Hf [_ Hz]].
      destruct Hn as (F' & Hinv1 & Hlb & Hle & HF' & Hsz & _).
      destruct (process_lexeme (upd_sc s x1) l) as [s'|e1|w|] eqn:Hp; [simpl; discriminate| |simpl; discriminate|simpl; discriminate].
      destruct (process_lexeme_err (upd_sc s x1) l e1 F' Hinv1) as [Hle1|[d [k [Hc ->]]]].
      + simpl. rewrite Hz. lia.
      + exact Hp.
      + destruct (with_scan_trace (A:=cstate) s (CErr e1)) as [a|e2|w|] eqn:Hw; cbn [cbind]; try discriminate.
        intros H; injection H as <-.
        eapply (with_scan_trace_loop (A:=cstate) s (upd_sc s x1)); try eassumption; reflexivity.
      + destruct (with_scan_trace (A:=cstate) s (CErr (kw_err d k))) as [a|e2|w|] eqn:Hw; cbn [cbind]; try discriminate.
        intros H; injection H as <-.
        eapply (with_scan_trace_dir (A:=cstate)); [|exact Hw]. exact Hc.
    - destruct (sc_next_same_file _ _ _ _ _ En) as [Hf [_ Hz]].
      destruct (flush_cur (upd_sc s x1)) as [s1|e1|w|] eqn:Hfl; [cbn [with_scan_trace cbind]| |simpl; discriminate|simpl; discriminate].
      + destruct (flush_cur_keeps _ _ Hfl) as [Hsc [Hst _]]. simpl in Hsc, Hst.
        destruct (has_unclosed_explicit (cs_frames s1)).
        * intros H; injection H as <-. apply es_scan; simpl.
          -- rewrite Hsc. exact Hf.
          -- rewrite Hsc. destruct Hn as [_ Hp]. lia.
          -- rewrite Hst. reflexivity.
        * destruct (cs_stack s1) as [|[x a] rest]; discriminate.
      + apply flush_cur_err in Hfl. destruct Hfl as [d [k [Hc ->]]].
        destruct (with_scan_trace (A:=cstate) s (CErr (kw_err d k))) as [a|e2|w|] eqn:Hw; cbn [cbind]; try discriminate.
        { apply with_scan_trace_ok in Hw. discriminate. }
        intros H; injection H as <-.
        eapply (with_scan_trace_dir (A:=cstate)); [|exact Hw]. exact Hc.
    - intros H; injection H as <-. apply es_scan; simpl; try reflexivity. exact Hn.
  Qed.

  Lemma scan_reach_trans s1 s2 s3 :
    scan_reach jsc_len enum_len files banned s1 s2 -> scan_reach jsc_len enum_len files banned s2 s3 ->
    scan_reach jsc_len enum_len files banned s1 s3.
  Proof. intros H12 H23. induction H23; [exact H12|]. eapply reach_step; eassumption. Qed.

  (* every error of the scan is raised in an iteration that starts in a reachable state *)
  Lemma scan_project_err_reach fuel : forall s e,
    scan_project fuel s = CErr e ->
    exists s0, scan_reach jsc_len enum_len files banned s s0 /\ scan_project 1 s0 = CErr e.
  Proof.
    induction fuel as [|f IH]; intros s e Hr; [discriminate|].
    destruct f as [|f']; [exists s; split; [apply reach_refl|exact Hr]|].
    rewrite scan_project_S in Hr.
    destruct (sc_next (cs_sc s)) as [[x1 [l|]]|p e0|w|] eqn:En; try discriminate.
    - destruct (process_lexeme (upd_sc s x1) l) as [s'|e1|w|] eqn:Hp; cbn [with_scan_trace cbind] in Hr; try discriminate.
      + destruct (IH _ _ Hr) as [s0 [Hre H0]]. exists s0. split; [|exact H0].
        eapply scan_reach_trans; [|exact Hre]. eapply reach_step; [apply reach_refl|]. eapply step_lexeme; eassumption.
      + exists s. split; [apply reach_refl|]. rewrite scan_project_S, En, Hp. cbn [with_scan_trace cbind].
        destruct (ce_trace e1); cbn [cbind] in *; exact Hr.
    - destruct (flush_cur (upd_sc s x1)) as [s1|e1|w|] eqn:Hfl; cbn [with_scan_trace cbind] in Hr; try discriminate.
      + destruct (has_unclosed_explicit (cs_frames s1)) eqn:Hu.
        * exists s. split; [apply reach_refl|]. rewrite scan_project_S, En, Hfl. cbn [with_scan_trace cbind]. rewrite Hu. exact Hr.
        * destruct (cs_stack s1) as [|[x a] rest] eqn:Hst; [discriminate|].
          destruct (IH _ _ Hr) as [s0 [Hre H0]]. exists s0. split; [|exact H0].
          eapply scan_reach_trans; [|exact Hre]. eapply reach_step; [apply reach_refl|].
          exact (step_pop jsc_len enum_len files banned s x1 s1 x a rest En Hfl Hu Hst).
      + exists s. split; [apply reach_refl|]. rewrite scan_project_S, En, Hfl. cbn [with_scan_trace cbind].
        destruct (ce_trace e1); cbn [cbind] in *; exact Hr.
    - exists s. split; [apply reach_refl|]. rewrite scan_project_S, En. exact Hr.
  Qed.
End Err.

(* ---- the invariant of the scan: every scanner reads a project file, every suspended one was
        suspended at an INCLUDE keyword it has passed, every directive lies in a project file ---- *)

Definition fs_all_bytes (files : fsys) : bool :=
  forallb (fun e => match snd e with FFile c => all_bytes c | FDir => true end) files.

Lemma all_bytes_isb c : all_bytes c = true -> Forall isb c.
Proof.
  unfold all_bytes. rewrite forallb_forall. intros H. apply Forall_forall. intros x Hx.
  apply H in Hx. unfold is_byte in Hx. apply N.ltb_lt in Hx. exact Hx.
Qed.

Lemma fs_stat_file_in files p c : fs_stat files p = Some (FFile c) -> In (p, FFile c) files.
Proof.
  unfold fs_stat. destruct (find _ files) as [e|] eqn:Hf.
  - intros H. apply find_some in Hf. destruct Hf as [Hin Hb]. apply beq_eq in Hb. subst p.
    destruct e as [n v]. simpl in H. injection H as ->. exact Hin.
  - destruct (_ || _); discriminate.
Qed.

Section Inv.
  Variable jsc_len enum_len : bytes -> len_result.
  Hypothesis jsc_sane : len_sane jsc_len.
  Hypothesis enum_sane : len_sane enum_len.
  Variable files : fsys.
  Hypothesis Hbytes : fs_all_bytes files = true.
  Variable banned : list kind.
  Variable root : bytes.

  Local Notation sc_next := (Core.sc_next jsc_len enum_len).
  Local Notation process_include := (Core.process_include jsc_len enum_len files banned).
  Local Notation process_lexeme := (Core.process_lexeme jsc_len enum_len files banned).
  Local Notation scan_project := (Core.scan_project jsc_len enum_len files banned).
  Local Notation scan_step := (IncludeProofs.scan_step jsc_len enum_len files banned).
  Local Notation scan_reach := (IncludeProofs.scan_reach jsc_len enum_len files banned).

  (* a file of the project that the scan can open: the root, or a regular file named by
     Join(Dir(includer), validated name) from such a file; with its content *)
  Definition project_file (f content : bytes) : Prop :=
    include_reachable root f /\ fs_stat files f = Some (FFile content).

  (* a trace entry "f:offset" is real: f is a project file and its bytes at the offset spell INCLUDE *)
  Definition entry_real (e : bytes * N) : Prop :=
    exists content, project_file (fst e) content /\ spells_at content (snd e) kw_include.

  Definition entry_ok (e : scn * N) : Prop :=
    project_file (sc_file (fst e)) (sc_data (fst e)) /\
    exists F, sinv (fst e) F /\ spells_at (sc_data (fst e)) (snd e) kw_include /\ snd e < F.

  Definition dir_ok (d : directive) : Prop :=
    (exists content, project_file (c_file (d_kw d)) content /\ c_beg (d_kw d) <= N.of_nat (List.length content)) /\
    Forall entry_real (d_trace d).

  (* every cached tracer is non-empty and real *)
  Definition cache_real (c : list (bytes * list (bytes * N))) : Prop :=
    Forall (fun e => snd e <> [] /\ Forall entry_real (snd e)) c.

  (* the pending directive was read from the file being read, under the scanner stack as it is
     (the pending directive is placed before an INCLUDE is entered and before a file is left):
     in particular its tracer is empty only outside any include *)
  Definition cur_here (s : cstate) : Prop :=
    forall d, cs_cur s = Some d -> c_file (d_kw d) = sc_file (cs_sc s) /\ (d_trace d = [] -> cs_stack s = []).

  Definition invA (s : cstate) : Prop :=
    project_file (sc_file (cs_sc s)) (sc_data (cs_sc s)) /\ (exists F, sinv (cs_sc s) F) /\
    Forall entry_ok (cs_stack s) /\ cache_real (cs_tracers s) /\ state_all dir_ok s /\ cur_here s.

  Lemma dir_ok_stable d d' : d_kw d' = d_kw d -> d_trace d' = d_trace d -> dir_ok d -> dir_ok d'.
  Proof. unfold dir_ok. intros -> ->. tauto. Qed.

  Lemma stack_real st : Forall entry_ok st -> Forall entry_real (stack_trace st).
  Proof.
    intros H. unfold stack_trace. apply Forall_forall. intros e He. apply in_map_iff in He.
    destruct He as [[x off] [<- Hin]]. rewrite Forall_forall in H. apply H in Hin.
    destruct Hin as [Hpf [F [_ [Hsp _]]]]. exists (sc_data x). split; assumption.
  Qed.

  Lemma rev_nil_inv {A} (l : list A) : rev l = [] -> l = [].
  Proof. intros H. apply (f_equal (@rev A)) in H. rewrite rev_involutive in H. exact H. Qed.

  Lemma directive_tracer_real s :
    Forall entry_ok (cs_stack s) -> cache_real (cs_tracers s) ->
    Forall entry_real (fst (directive_tracer s)) /\ cache_real (snd (directive_tracer s)) /\
    (fst (directive_tracer s) = [] -> cs_stack s = []).
  Proof.
    intros Hst Hc. unfold directive_tracer. destruct (cs_stack s) as [|[top a] r] eqn:Es.
    - split; [constructor|]. split; [exact Hc|reflexivity].
    - destruct (find _ (cs_tracers s)) as [e|] eqn:Hf; cbn [fst snd].
      + apply find_some in Hf. destruct Hf as [Hin _].
        unfold cache_real in Hc. pose proof Hc as Hc'. rewrite Forall_forall in Hc'. destruct (Hc' e Hin) as [Hne Hre].
        split; [exact Hre|]. split; [exact Hc|]. intros H; contradiction.
      + assert (Hr : Forall entry_real (rev (stack_trace ((top, a) :: r)))) by (apply Forall_rev, stack_real; exact Hst).
        assert (Hne : rev (stack_trace ((top, a) :: r)) <> []) by (intros H; apply rev_nil_inv in H; discriminate).
        split; [exact Hr|]. split; [constructor; [split; assumption|exact Hc]|]. intros H; contradiction.
  Qed.

  Lemma content_bytes p c : fs_stat files p = Some (FFile c) -> Forall isb c.
  Proof.
    intros H. apply fs_stat_file_in in H. unfold fs_all_bytes in Hbytes. rewrite forallb_forall in Hbytes.
    apply Hbytes in H. simpl in H. apply all_bytes_isb. exact H.
  Qed.

  Lemma scan_step_invA s s' : invA s -> scan_step s s' -> invA s'.
  Proof.
    intros (Hpf & [F Hinv] & Hstk & Hcache & Hall & Hcur) H.
    pose proof (sc_next_sinv jsc_len enum_len (cs_sc s) F jsc_sane enum_sane Hinv) as Hn.
    destruct H as [x1 l s' En Hp | x1 s1 x at_ rest En Hf Hu Hst].
    - rewrite En in Hn. destruct Hn as (F' & Hinv1 & Hlb & Hle & HF' & Hsz & _).
      destruct (sc_next_same_file _ _ _ _ _ En) as [Hfile [Hdata Hsize]].
      assert (Hpf1 : project_file (sc_file x1) (sc_data x1)) by (rewrite Hfile, Hdata; exact Hpf).
      destruct (directive_tracer_real (upd_sc s x1) Hstk Hcache) as [Htr1 [Htr2 Htr3]].
      assert (Hall' : state_all dir_ok s').
      { eapply (process_lexeme_all_gen jsc_len enum_len files banned dir_ok dir_ok_stable (upd_sc s x1) l s'); [exact Hall| |exact Hp].
        intros d _ Hkw Htr. split.
        - exists (sc_data x1). rewrite Hkw. simpl. split; [exact Hpf1|].
          destruct Hinv1 as [Hs1 _]. rewrite <- Hs1, Hsize. lia.
        - rewrite Htr. exact Htr1. }
      assert (Hcache' : cache_real (cs_tracers s')).
      { destruct (process_lexeme_tracers jsc_len enum_len files banned _ _ _ Hp) as [->|[_ ->]]; [exact Hcache|exact Htr2]. }
      (* the pending directive after the lexeme, as long as the stack is the same *)
      assert (Hcur' : forall d, cs_cur s' = Some d ->
                        c_file (d_kw d) = sc_file x1 /\ (d_trace d = [] -> cs_stack s = [])).
      { apply (process_lexeme_cur_gen jsc_len enum_len files banned
                 (fun d => c_file (d_kw d) = sc_file x1 /\ (d_trace d = [] -> cs_stack s = [])) ) with (s := upd_sc s x1) (l := l).
        - intros d d' -> ->. tauto.
        - intros d Hd. destruct (Hcur d Hd) as [H1 H2]. split; [rewrite Hfile; exact H1|exact H2].
        - intros d _ Hkw Htr. split; [rewrite Hkw; reflexivity|]. rewrite Htr. exact Htr3.
        - exact Hp. }
      destruct (process_lexeme_stack _ _ _ _ _ _ _ Hp) as [[Hsc Hst]|[kw [s0 [Hlk [Hv [Hi [H0 Hinc]]]]]]].
      + unfold invA, cur_here. rewrite Hsc, Hst. cbn [cs_sc cs_stack upd_sc].
        split; [exact Hpf1|]. split; [exists F'; exact Hinv1|]. split; [exact Hstk|]. split; [exact Hcache'|].
        split; [exact Hall'|exact Hcur'].
      + pose proof (process_include_cur jsc_len enum_len files banned _ _ _ _ H0 Hinc) as Hnone.
        destruct (flush_cur_keeps _ _ H0) as [Hsc0 [Hst0 _]]. cbn [cs_sc cs_stack upd_sc] in Hsc0, Hst0.
        apply process_include_ok_inv in Hinc.
        destruct Hinc as [x2 [path [content [Hparam [Hval [Hstat [_ [Hf2 Hs']]]]]]]].
        destruct Hparam as [_ [pl [raw [En2 _]]]]. rewrite Hsc0 in En2, Hstat, Hf2. simpl in Hv.
        rewrite Hsc0, Hst0 in Hs'.
        pose proof (sc_next_sinv jsc_len enum_len x1 F' jsc_sane enum_sane Hinv1) as Hn2.
        rewrite En2 in Hn2. destruct Hn2 as (F'' & Hinv2 & _ & _ & _ & _ & HFF).
        destruct (sc_next_same_file _ _ _ _ _ En2) as [Hfile2 [Hdata2 Hsize2]].
        apply beq_eq in Hi. subst kw. apply value_spells in Hv. destruct Hv as [Hsp [Hlen _]].
        change (kind_keyword KInclude) with kw_include in *.
        assert (Hlen7 : N.of_nat (List.length kw_include) = 7) by reflexivity.
        unfold invA, cur_here. rewrite Hnone. rewrite Hs' in Hcache', Hall'. rewrite Hs'.
        cbn [cs_sc cs_stack cs_tracers upd_stack upd_sc new_scanner sc_file sc_data] in *.
        split; [|split; [|split; [|split; [exact Hcache'|split; [exact Hall'|intros d Hd; discriminate]]]]].
        * split; [|exact Hstat]. destruct Hpf1 as [Hr _]. apply ir_step; assumption.
        * exists 0. apply new_scanner_sinv. eapply content_bytes; exact Hstat.
        * constructor; [|exact Hstk]. unfold entry_ok. cbn [fst snd]. split.
          -- rewrite Hfile2, Hdata2. exact Hpf1.
          -- exists F''. split; [exact Hinv2|]. split; [rewrite Hdata2; exact Hsp|]. lia.
    - destruct (flush_cur_keeps _ _ Hf) as [_ [Hst1 [Htr1 Hc1]]]. simpl in Hst1, Htr1.
      pose proof (flush_cur_all dir_ok (upd_sc s x1) s1 Hall Hf) as Hall1.
      rewrite Hst1 in Hst. rewrite Hst in Hstk. inversion Hstk as [|? ? Hx Hrest]; subst.
      destruct Hx as [Hpfx [Fx [Hinvx _]]]. cbn [fst] in *.
      unfold invA, cur_here; cbn [cs_sc cs_stack cs_tracers cs_cur upd_stack].
      split; [exact Hpfx|]. split; [exists Fx; exact Hinvx|]. split; [exact Hrest|].
      split; [rewrite Htr1; exact Hcache|]. split; [exact Hall1|]. intros d Hd. rewrite Hc1 in Hd. discriminate.
  Qed.

  Lemma scan_reach_invA s s' : invA s -> scan_reach s s' -> invA s'.
  Proof. intros Hi H. induction H; [exact Hi|]. eapply scan_step_invA; eassumption. Qed.

  Lemma init_invA content : fs_stat files root = Some (FFile content) -> invA (init_state root content).
  Proof.
    intros Hst. unfold invA, init_state; cbn [cs_sc cs_stack cs_tracers new_scanner sc_file sc_data].
    split; [split; [apply ir_self|exact Hst]|].
    split; [exists 0; apply new_scanner_sinv; eapply content_bytes; exact Hst|].
    split; [constructor|]. split; [constructor|].
    split; [split; [intros d H; discriminate|split; constructor]|].
    intros d H; discriminate.
  Qed.

  (* (1) every error of the scan names a project file that was opened, and points into it *)
  Theorem scan_error_in_bounds_lemma fuel e :
    scan_forest_with fuel jsc_len enum_len files banned root = CErr e ->
    exists content, project_file (ce_file e) content /\ ce_idx e <= N.of_nat (List.length content).
  Proof.
    unfold scan_forest_with. destruct (fs_stat files root) as [[content|]|] eqn:Hroot; try discriminate.
    destruct (scan_project fuel (init_state root content)) as [s|e'|w|] eqn:Hr; cbn [cbind]; try discriminate.
    intros H; injection H as ->.
    destruct (scan_project_err_reach jsc_len enum_len files banned fuel _ _ Hr) as [s0 [Hre H1]].
    pose proof (scan_reach_invA _ _ (init_invA content Hroot) Hre) as (Hpf & [F Hinv] & _ & _ & Hall & _).
    pose proof (iter_err_shape jsc_len enum_len jsc_sane enum_sane files banned s0 e F Hinv H1) as Hsh.
    destruct Hsh as [Hf Hi _|d Hc Hf Hi _].
    - exists (sc_data (cs_sc s0)). rewrite Hf. split; [exact Hpf|]. destruct Hinv as [Hs _]. rewrite <- Hs. exact Hi.
    - destruct Hall as [Hcur _]. destruct (Hcur d Hc) as [[c [Hpc Hb]] _].
      exists c. rewrite Hf, Hi. split; assumption.
  Qed.

  (* (2) the trace of an error of the scan: raised in the iteration of the loop that starts in a
     reachable state s, it lies in the file s reads, and
       - raised by the scan loop: it carries the include chain of the stack of s;
       - about the pending directive d: it lies at d's keyword and carries d's tracer (d was read
         from the file s reads, under the stack of s: the pending directive is placed before an
         INCLUDE is entered and before a file is left);
     and in every case every entry of the trace is real *)
  Theorem scan_error_trace_lemma fuel content e :
    fs_stat files root = Some (FFile content) ->
    scan_project fuel (init_state root content) = CErr e ->
    exists s, scan_reach (init_state root content) s /\ scan_project 1 s = CErr e /\
      Forall entry_real (include_chain (cs_stack s)) /\
      ce_file e = sc_file (cs_sc s) /\
      (ce_trace e = include_chain (cs_stack s) \/
       (exists d, cs_cur s = Some d /\ ce_file e = c_file (d_kw d) /\ ce_idx e = c_beg (d_kw d) /\
                  ce_trace e = rev (d_trace d))) /\
      Forall entry_real (ce_trace e).
  Proof.
    intros Hroot Hr.
    destruct (scan_project_err_reach jsc_len enum_len files banned fuel _ _ Hr) as [s0 [Hre H1]].
    pose proof (scan_reach_invA _ _ (init_invA content Hroot) Hre) as (Hpf & [F Hinv] & Hstk & _ & Hall & Hcur).
    pose proof (iter_err_shape jsc_len enum_len jsc_sane enum_sane files banned s0 e F Hinv H1) as Hsh.
    pose proof (stack_real _ Hstk) as Hreal. rewrite stack_trace_is_chain in Hreal.
    exists s0. split; [exact Hre|]. split; [exact H1|]. split; [exact Hreal|].
    destruct Hsh as [Hf Hi Ht|d Hc Hf Hi Ht]; rewrite stack_trace_is_chain in Ht.
    - split; [exact Hf|]. split; [left; exact Ht|]. rewrite Ht. exact Hreal.
    - destruct (Hcur d Hc) as [Hfile Hnil].
      assert (Ht' : ce_trace e = rev (d_trace d)).
      { rewrite Ht. destruct (d_trace d) eqn:Ed; [|reflexivity]. rewrite (Hnil eq_refl). reflexivity. }
      split; [rewrite Hf; exact Hfile|]. split; [right; exists d; repeat split; assumption|].
      rewrite Ht'. destruct Hall as [Hcd _]. destruct (Hcd d Hc) as [_ Htr]. apply Forall_rev. exact Htr.
  Qed.

  (* ---- the tracer cache: coherent when no file holds two INCLUDEs ---- *)

  Definition name_of (e : scn * N) : bytes := sc_file (fst e).
  Definition top_name (st : list (scn * N)) : option bytes :=
    match st with [] => None | e :: _ => Some (name_of e) end.

  (* every cached tracer is the chain of a tail of M whose top is the includer it is cached for *)
  Definition cache_in (M : list (scn * N)) (c : list (bytes * list (bytes * N))) : Prop :=
    forall n tr, In (n, tr) c -> exists t, is_tail t M /\ top_name t = Some n /\ tr = rev (stack_trace t).

  (* the scanner has passed an INCLUDE keyword *)
  Definition spent (x : scn) : Prop :=
    exists F off, sinv x F /\ spells_at (sc_data x) off kw_include /\ off < F.

  (* all stacks of the run so far are tails of one stack M without repeated names; either the
     stack is M (it may still grow) or the scanner being read was suspended before *)
  Definition coh (s : cstate) : Prop :=
    exists M, NoDup (map name_of M) /\ is_tail (cs_stack s) M /\ cache_in M (cs_tracers s) /\
              (M = cs_stack s \/ spent (cs_sc s)).

  Lemma spent_next x x1 l :
    spent x -> sc_next x = Ok (x1, Some l) ->
    spent x1 /\ exists off, spells_at (sc_data x) off kw_include /\ off < lb l.
  Proof.
    intros (F & off & Hinv & Hsp & Hlt) En.
    pose proof (sc_next_sinv jsc_len enum_len x F jsc_sane enum_sane Hinv) as Hn. rewrite En in Hn.
    destruct Hn as (F' & Hinv1 & Hlb & _ & _ & _ & HFF).
    destruct (sc_next_same_file _ _ _ _ _ En) as [_ [Hdata _]].
    split.
    - exists F', off. split; [exact Hinv1|]. split; [rewrite Hdata; exact Hsp|lia].
    - exists off. split; [exact Hsp|lia].
  Qed.

  Lemma directive_tracer_exact s M :
    NoDup (map name_of M) -> is_tail (cs_stack s) M -> cache_in M (cs_tracers s) ->
    fst (directive_tracer s) = rev (stack_trace (cs_stack s)).
  Proof.
    intros Hnd Htail Hcin. unfold directive_tracer.
    destruct (cs_stack s) as [|[top a] r] eqn:Es; [reflexivity|].
    destruct (find _ (cs_tracers s)) as [[n tr]|] eqn:Hf; cbn [fst snd]; [|reflexivity].
    apply find_some in Hf. destruct Hf as [Hin Hb]. simpl in Hb. apply beq_eq in Hb. subst n.
    destruct (Hcin _ _ Hin) as [t [Ht [Htop ->]]].
    destruct t as [|e t']; [discriminate|]. simpl in Htop. injection Htop as Htop.
    rewrite (tails_same_head name_of M e t' (top, a) r Hnd Ht Htail Htop). reflexivity.
  Qed.

  Lemma directive_tracer_cache s M :
    is_tail (cs_stack s) M -> cache_in M (cs_tracers s) -> cache_in M (snd (directive_tracer s)).
  Proof.
    intros Htail Hcin. unfold directive_tracer.
    destruct (cs_stack s) as [|[top a] r] eqn:Es; [exact Hcin|].
    destruct (find _ (cs_tracers s)) as [e|]; cbn [fst snd]; [exact Hcin|].
    intros n tr [H|H]; [|apply Hcin; exact H]. injection H as <- <-.
    exists ((top, a) :: r). split; [exact Htail|]. split; reflexivity.
  Qed.

  Hypothesis Hsingle : single_include_per_file files = true.

  Lemma project_file_single f c : project_file f c -> single_include c = true.
  Proof.
    intros [_ H]. apply fs_stat_file_in in H. unfold single_include_per_file in Hsingle.
    rewrite forallb_forall in Hsingle. apply Hsingle in H. exact H.
  Qed.

  Lemma scan_step_coh s s' : invA s -> coh s -> scan_step s s' -> coh s'.
  Proof.
    intros (Hpf & _ & Hstk & _ & _ & _) (M & Hnd & Htail & Hcin & Hor) H.
    destruct H as [x1 l s' En Hp | x1 s1 x at_ rest En Hf Hu Hst].
    - destruct (sc_next_same_file _ _ _ _ _ En) as [Hfile [Hdata Hsize]].
      destruct (process_lexeme_stack _ _ _ _ _ _ _ Hp) as [[Hsc Hst]|[kw [s0 [Hlk [Hv [Hi [H0 Hinc]]]]]]].
      + exists M. rewrite Hst. cbn [cs_stack upd_sc]. split; [exact Hnd|]. split; [exact Htail|]. split.
        * destruct (process_lexeme_tracers jsc_len enum_len files banned _ _ _ Hp) as [->|[_ ->]]; [exact Hcin|].
          apply (directive_tracer_cache (upd_sc s x1) M Htail Hcin).
        * destruct Hor as [Hm|Hs]; [left; exact Hm|right]. rewrite Hsc. cbn [cs_sc upd_sc].
          destruct (spent_next _ _ _ Hs En) as [H1 _]. exact H1.
      + destruct (flush_cur_keeps _ _ H0) as [Hsc0 [Hst0 [Htr0 _]]]. cbn [cs_sc cs_stack cs_tracers upd_sc] in Hsc0, Hst0, Htr0.
        apply process_include_ok_inv in Hinc.
        destruct Hinc as [x2 [path [content [_ [_ [_ [Hnin [Hf2 Hs']]]]]]]].
        unfold stack_names in Hnin. rewrite Hsc0, Hst0 in Hnin, Hs'. rewrite Hsc0 in Hf2. subst s'.
        simpl in Hv.
        apply beq_eq in Hi. subst kw. apply value_spells in Hv. destruct Hv as [Hsp _].
        change (kind_keyword KInclude) with kw_include in *.
        destruct Hor as [Hm|Hs].
        * subst M. exists ((x2, lb l) :: cs_stack s). cbn [cs_stack cs_tracers cs_sc upd_stack upd_sc]. rewrite Htr0.
          split; [|split; [apply is_tail_refl|split; [|left; reflexivity]]].
          -- simpl. constructor; [|exact Hnd]. unfold name_of at 1. cbn [fst]. rewrite Hf2. exact Hnin.
          -- intros n tr Hin. destruct (Hcin n tr Hin) as [t [Ht Hrest]]. exists t. split; [apply is_tail_cons; exact Ht|exact Hrest].
        * exfalso. destruct (spent_next _ _ _ Hs En) as [_ [off [Hoff Hlt]]].
          rewrite Hdata in Hsp.
          pose proof (single_include_unique _ _ _ (project_file_single _ _ Hpf) Hoff Hsp). lia.
    - destruct (flush_cur_keeps _ _ Hf) as [_ [Hst1 [Htr1 _]]]. simpl in Hst1, Htr1.
      rewrite Hst1 in Hst. exists M. cbn [cs_stack cs_tracers cs_sc upd_stack].
      split; [exact Hnd|]. split; [rewrite Hst in Htail; eapply is_tail_tl; exact Htail|].
      split; [rewrite Htr1; exact Hcin|]. right.
      rewrite Hst in Hstk. inversion Hstk as [|? ? Hx _]; subst.
      destruct Hx as [_ [Fx [Hinvx [Hspx Hltx]]]]. cbn [fst snd] in *.
      exists Fx, at_. split; [exact Hinvx|]. split; [exact Hspx|exact Hltx].
  Qed.

  (* the moment the directive was read: a reachable state s in which Next() delivers d's keyword
     lexeme; d's tracer is the include chain of the stack of s, outermost first *)
  Definition read_at (s0 : cstate) (d : directive) : Prop :=
    exists s x1 l, scan_reach s0 s /\ sc_next (cs_sc s) = Ok (x1, Some l) /\ lexkind_eqb (lk l) LKeyword = true /\
                   d_kw d = coords_of x1 l /\ d_trace d = rev (include_chain (cs_stack s)).

  Lemma read_at_stable s0 d d' : d_kw d' = d_kw d -> d_trace d' = d_trace d -> read_at s0 d -> read_at s0 d'.
  Proof. unfold read_at. intros -> ->. tauto. Qed.

  (* the pending directive carries the include chain of the stack as it is *)
  Definition cur_exact (s : cstate) : Prop :=
    forall d, cs_cur s = Some d -> d_trace d = rev (include_chain (cs_stack s)).

  Definition invB (s0 s : cstate) : Prop := coh s /\ state_all (read_at s0) s /\ cur_exact s.

  Lemma scan_step_invB s0 s s' : scan_reach s0 s -> invA s -> invB s0 s -> scan_step s s' -> invB s0 s'.
  Proof.
    intros Hre HA [Hcoh [Hall Hcx]] Hstep. split; [eapply scan_step_coh; eassumption|].
    destruct Hcoh as (M & Hnd & Htail & Hcin & _).
    destruct Hstep as [x1 l s' En Hp | x1 s1 x at_ rest En Hf Hu Hst].
    - pose proof (directive_tracer_exact (upd_sc s x1) M Hnd Htail Hcin) as Hexact. cbn [cs_stack upd_sc] in Hexact.
      rewrite stack_trace_is_chain in Hexact.
      split.
      + eapply (process_lexeme_all_gen jsc_len enum_len files banned (read_at s0) (read_at_stable s0) (upd_sc s x1) l s'); [exact Hall| |exact Hp].
        intros d Hlk Hkw Htr. exists s, x1, l. repeat split; try assumption.
        rewrite Htr. exact Hexact.
      + assert (Hcx' : forall d, cs_cur s' = Some d -> d_trace d = rev (include_chain (cs_stack s))).
        { apply (process_lexeme_cur_gen jsc_len enum_len files banned
                   (fun d => d_trace d = rev (include_chain (cs_stack s)))) with (s := upd_sc s x1) (l := l).
          - intros d d' _ ->. tauto.
          - exact Hcx.
          - intros d _ _ Htr. rewrite Htr. exact Hexact.
          - exact Hp. }
        destruct (process_lexeme_stack _ _ _ _ _ _ _ Hp) as [[_ Hst]|[kw [s0' [_ [_ [_ [H0 Hinc]]]]]]].
        * unfold cur_exact. rewrite Hst. exact Hcx'.
        * intros d Hd. rewrite (process_include_cur jsc_len enum_len files banned _ _ _ _ H0 Hinc) in Hd. discriminate.
    - split; [exact (flush_cur_all (read_at s0) (upd_sc s x1) s1 Hall Hf)|].
      destruct (flush_cur_keeps _ _ Hf) as [_ [_ [_ Hc1]]].
      intros d Hd. cbn [cs_cur upd_stack] in Hd. rewrite Hc1 in Hd. discriminate.
  Qed.

  Lemma scan_reach_invB s0 s : invA s0 -> invB s0 s0 -> scan_reach s0 s -> invB s0 s.
  Proof.
    intros HA HB H. induction H; [exact HB|].
    eapply scan_step_invB; [eassumption| |apply IHscan_reach|eassumption].
    eapply scan_reach_invA; eassumption.
  Qed.

  Lemma init_invB content : invB (init_state root content) (init_state root content).
  Proof.
    split.
    - exists []. split; [constructor|]. split; [apply is_tail_refl|]. split; [intros n tr []|left; reflexivity].
    - split; [split; [intros d H; discriminate|split; constructor]|]. intros d H; discriminate.
  Qed.

  (* (2), directives: with at most one INCLUDE per file, every directive of the forest carries the
     include chain of the scanner stack at the moment its keyword was read *)
  Theorem directive_trace_is_chain_lemma fuel f :
    scan_forest_with fuel jsc_len enum_len files banned root = COk f ->
    exists content, fs_stat files root = Some (FFile content) /\
      forall d, In d (forest_dirs f) -> read_at (init_state root content) d.
  Proof.
    unfold scan_forest_with. destruct (fs_stat files root) as [[content|]|] eqn:Hroot; try discriminate.
    destruct (scan_project fuel (init_state root content)) as [s| | |] eqn:Hr; cbn [cbind]; try discriminate.
    intros H; injection H as <-. exists content. split; [reflexivity|].
    destruct (scan_project_reaches _ _ _ _ _ _ _ Hr) as [s0 [x1 [Hre [_ [Hfl _]]]]].
    pose proof (scan_reach_invB _ _ (init_invA content Hroot) (init_invB content) Hre) as [_ [Hall _]].
    pose proof (flush_cur_all (read_at (init_state root content)) (upd_sc s0 x1) s Hall Hfl) as Hall'.
    apply Forall_forall. apply forest_all_dirs'.
    apply (forest_of_all_gen (read_at (init_state root content))). exact Hall'.
  Qed.

  (* (2), errors: with at most one INCLUDE per file the trace of every error is the include chain
     of the stack of the state in which it is raised (s = the reachable state in which the
     iteration of the loop that raises it starts), and the error lies in the file that state reads *)
  Theorem trace_is_include_chain_lemma fuel content e :
    fs_stat files root = Some (FFile content) ->
    scan_project fuel (init_state root content) = CErr e ->
    exists s, scan_reach (init_state root content) s /\ scan_project 1 s = CErr e /\
      ce_file e = sc_file (cs_sc s) /\ ce_trace e = include_chain (cs_stack s) /\
      Forall entry_real (ce_trace e).
  Proof.
    intros Hroot Hr.
    destruct (scan_error_trace_lemma fuel content e Hroot Hr) as [s0 [Hre [H1 [_ [Hf [Hcase Hreal]]]]]].
    exists s0. split; [exact Hre|]. split; [exact H1|]. split; [exact Hf|]. split; [|exact Hreal].
    destruct Hcase as [Ht|[d [Hc [_ [_ Ht]]]]]; [exact Ht|].
    pose proof (scan_reach_invB _ _ (init_invA content Hroot) (init_invB content) Hre) as [_ [_ Hcx]].
    rewrite Ht, (Hcx d Hc). apply rev_involutive.
  Qed.

  (* without the hypothesis: every directive of the forest lies in a project file, its keyword
     inside the file, and every entry of its tracer is real *)
  Theorem directive_located_lemma fuel f :
    scan_forest_with fuel jsc_len enum_len files banned root = COk f ->
    forall d, In d (forest_dirs f) -> dir_ok d.
  Proof.
    unfold scan_forest_with. destruct (fs_stat files root) as [[content|]|] eqn:Hroot; try discriminate.
    destruct (scan_project fuel (init_state root content)) as [s| | |] eqn:Hr; cbn [cbind]; try discriminate.
    intros H; injection H as <-.
    destruct (scan_project_reaches _ _ _ _ _ _ _ Hr) as [s0 [x1 [Hre [_ [Hfl _]]]]].
    pose proof (scan_reach_invA _ _ (init_invA content Hroot) Hre) as (_ & _ & _ & _ & Hall & _).
    pose proof (flush_cur_all dir_ok (upd_sc s0 x1) s Hall Hfl) as Hall'.
    apply Forall_forall. apply forest_all_dirs'. apply (forest_of_all_gen dir_ok). exact Hall'.
  Qed.
End Inv.

(* the same for the whole scan: every entry "file:offset" of the trace of every error names a project
   file whose bytes at the offset spell INCLUDE (no hypothesis on the number of INCLUDEs) *)
Theorem trace_entries_real_lemma jsc_len enum_len files banned root fuel e :
  len_sane jsc_len -> len_sane enum_len -> fs_all_bytes files = true ->
  scan_forest_with fuel jsc_len enum_len files banned root = CErr e ->
  Forall (entry_real files root) (ce_trace e).
Proof.
  intros Hj He Hb. unfold scan_forest_with.
  destruct (fs_stat files root) as [[content|]|] eqn:Hroot; try discriminate.
  destruct (Core.scan_project jsc_len enum_len files banned fuel (init_state root content)) as [s|e'|w|] eqn:Hr; cbn [cbind]; try discriminate.
  intros H; injection H as ->.
  destruct (scan_error_trace_lemma jsc_len enum_len Hj He files Hb banned root fuel content e Hroot Hr) as [s [_ [_ [_ [_ [_ H]]]]]].
  exact H.
Qed.

(* ---- small projects, by computation (the scanner is the real one) ---- *)

Definition ex_dir_traces (r : cres (list dtree)) : option (list (bytes * N * list (bytes * N))) :=
  match r with
  | COk f => Some (map (fun d => (c_file (d_kw d), c_beg (d_kw d), d_trace d)) (forest_dirs f))
  | _ => None
  end.

(* (4) r.jst -> a.jst -> sub/c.jst, the fault is in sub/c.jst *)
Definition ex_nested (c : bytes) : fsys :=
  [(bs "r.jst", FFile (ex_line "JSIGHT 0.3" ++ ex_line "INCLUDE a.jst"));
   (bs "a.jst", FFile (ex_line "TAG @x" ++ ex_line "INCLUDE sub/c.jst"));
   (bs "sub/c.jst", FFile c)].

(* an error of the scan loop (JSIGHT inside an included file): innermost includer first *)
Example ex_trace_nested_loop :
  ex_err (scan_forest_with 1000 ex_len ex_len (ex_nested (ex_line "JSIGHT 0.3")) [] (bs "r.jst")) =
  Some (bs "sub/c.jst", 0, CEJsightInInclude, [(bs "a.jst", 7); (bs "r.jst", 11)]).
Proof. vm_compute. reflexivity. Qed.

(* an error about a directive of sub/c.jst (Body outside a request), raised at the end of that file *)
Example ex_trace_nested_directive :
  ex_err (scan_forest_with 1000 ex_len ex_len (ex_nested (ex_line "TAG @y" ++ ex_line "Body")) [] (bs "r.jst")) =
  Some (bs "sub/c.jst", 7, CEIncorrectContext, [(bs "a.jst", 7); (bs "r.jst", 11)]).
Proof. vm_compute. reflexivity. Qed.

(* the INCLUDEs are really there, the hypotheses of the theorems hold, the directives carry their
   chains outermost first *)
Example ex_trace_nested_facts :
  include_offsets (ex_line "JSIGHT 0.3" ++ ex_line "INCLUDE a.jst") = [11] /\
  include_offsets (ex_line "TAG @x" ++ ex_line "INCLUDE sub/c.jst") = [7] /\
  fs_all_bytes (ex_nested (ex_line "TAG @y")) = true /\
  single_include_per_file (ex_nested (ex_line "TAG @y")) = true /\
  ex_dir_traces (scan_forest_with 1000 ex_len ex_len (ex_nested (ex_line "TAG @y")) [] (bs "r.jst")) =
  Some [(bs "r.jst", 0, []); (bs "a.jst", 0, [(bs "r.jst", 11)]);
        (bs "sub/c.jst", 0, [(bs "r.jst", 11); (bs "a.jst", 7)])].
Proof. vm_compute. repeat split; reflexivity. Qed.

(* (3) two INCLUDEs in one file: the tracer is cached per including file NAME, so a directive read
   from b.jst (brought in by the INCLUDE at offset 25 of r.jst) carries the offset 11 of the FIRST
   INCLUDE of r.jst, which names a.jst (finding C02/stale-include-tracer).  The scanner stack is
   right: an error of the scan loop in b.jst has the trace [(r.jst, 25)]. *)
Definition ex_two_includes (b : bytes) : fsys :=
  [(bs "r.jst", FFile (ex_line "JSIGHT 0.3" ++ ex_line "INCLUDE a.jst" ++ ex_line "INCLUDE b.jst"));
   (bs "a.jst", FFile (ex_line "TAG @x"));
   (bs "b.jst", FFile b)].

Example ex_stale_tracer_facts :
  single_include_per_file (ex_two_includes []) = false /\
  include_offsets (ex_line "JSIGHT 0.3" ++ ex_line "INCLUDE a.jst" ++ ex_line "INCLUDE b.jst") = [11; 25] /\
  (* the directive of b.jst carries the line of INCLUDE a.jst *)
  ex_dir_traces (scan_forest_with 1000 ex_len ex_len (ex_two_includes (ex_line "TAG @y")) [] (bs "r.jst")) =
  Some [(bs "r.jst", 0, []); (bs "a.jst", 0, [(bs "r.jst", 11)]); (bs "b.jst", 0, [(bs "r.jst", 11)])] /\
  (* so does an error about a directive of b.jst *)
  ex_err (scan_forest_with 1000 ex_len ex_len (ex_two_includes (ex_line "Body")) [] (bs "r.jst")) =
  Some (bs "b.jst", 0, CEIncorrectContext, [(bs "r.jst", 11)]) /\
  (* while an error of the scan loop in b.jst has the chain of the stack *)
  ex_err (scan_forest_with 1000 ex_len ex_len (ex_two_includes (ex_line "JSIGHT 0.3")) [] (bs "r.jst")) =
  Some (bs "b.jst", 0, CEJsightInInclude, [(bs "r.jst", 25)]).
Proof. vm_compute. repeat split; reflexivity. Qed.

(* a directive of the ROOT file that finds no place, followed by an INCLUDE: it is placed -- and
   diagnosed -- before the included file is entered (drainCurrentScanner calls
   processCurrentDirective before processInclude: /repo c51680e), so the error about r.jst (offset
   11, line 2) carries an EMPTY trace.  (Before the repair it was placed only when the first keyword
   of a.jst was read and carried the chain [(r.jst, 21)] of the file being read then.) *)
Example ex_root_directive_empty_trace :
  ex_err (scan_forest_with 1000 ex_len ex_len
    [(bs "r.jst", FFile (ex_line "JSIGHT 0.3" ++ ex_line "Version 1" ++ ex_line "INCLUDE a.jst"));
     (bs "a.jst", FFile (ex_line "TAG @x"))] [] (bs "r.jst")) =
  Some (bs "r.jst", 11, CEIncorrectContext, []).
Proof. vm_compute. reflexivity. Qed.

(* the same one level down: the misplaced directive of a.jst before its INCLUDE carries the chain of
   a.jst, not that of the file it includes *)
Example ex_included_directive_own_trace :
  ex_err (scan_forest_with 1000 ex_len ex_len
    [(bs "r.jst", FFile (ex_line "JSIGHT 0.3" ++ ex_line "INCLUDE a.jst"));
     (bs "a.jst", FFile (ex_line "Version 1" ++ ex_line "INCLUDE b.jst"));
     (bs "b.jst", FFile (ex_line "TAG @x"))] [] (bs "r.jst")) =
  Some (bs "a.jst", 0, CEIncorrectContext, [(bs "r.jst", 11)]).
Proof. vm_compute. reflexivity. Qed.

(* ---- the hypothesis cannot be dropped: a refutation, not only an example ----
   The iterations of the loop are deterministic, so the states reachable from the initial one are
   those of the run; for the project with two INCLUDEs in r.jst the run is computed, and no state of
   it that reads b.jst has the include chain the error about b.jst carries. *)
Section Run.
  Variable jsc_len enum_len : bytes -> len_result.
  Variable files : fsys.
  Variable banned : list kind.

  Definition step_fun (s : cstate) : option cstate :=
    match Core.sc_next jsc_len enum_len (cs_sc s) with
    | Ok (x1, Some l) =>
      match Core.process_lexeme jsc_len enum_len files banned (upd_sc s x1) l with COk s' => Some s' | _ => None end
    | Ok (x1, None) =>
      match flush_cur (upd_sc s x1) with
      | COk s1 =>
        if has_unclosed_explicit (cs_frames s1) then None
        else match cs_stack s1 with [] => None | (x, _) :: rest => Some (upd_stack s1 x rest) end
      | _ => None
      end
    | _ => None
    end.

  Lemma scan_step_fun s s' : scan_step jsc_len enum_len files banned s s' -> step_fun s = Some s'.
  Proof.
    intros H. unfold step_fun. destruct H as [x1 l s' En Hp | x1 s1 x at_ rest En Hf Hu Hst].
    - rewrite En, Hp. reflexivity.
    - rewrite En, Hf, Hu, Hst. reflexivity.
  Qed.

  Fixpoint run (n : nat) (s : cstate) : list cstate :=
    s :: match n with
         | O => []
         | S n' => match step_fun s with Some s' => run n' s' | None => [] end
         end.

  (* the run stops by itself within n steps *)
  Fixpoint run_ends (n : nat) (s : cstate) : bool :=
    match step_fun s with
    | None => true
    | Some s' => match n with O => false | S n' => run_ends n' s' end
    end.

  Lemma run_head n s : In s (run n s).
  Proof. destruct n; left; reflexivity. Qed.

  Lemma run_step n : forall s a b,
    run_ends n s = true -> In a (run n s) -> step_fun a = Some b -> In b (run n s).
  Proof.
    induction n as [|n IH]; intros s a b He Hin Hs.
    - simpl in Hin. destruct Hin as [<-|[]]. simpl in He. rewrite Hs in He. discriminate.
    - cbn [run] in *. cbn [run_ends] in He. destruct Hin as [<-|Hin].
      + rewrite Hs. right. apply run_head.
      + destruct (step_fun s) as [s'|]; [|destruct Hin]. right. eapply IH; eassumption.
  Qed.

  Lemma reach_in_run n s s' :
    run_ends n s = true -> scan_reach jsc_len enum_len files banned s s' -> In s' (run n s).
  Proof.
    intros He H. induction H as [|s1 s2 _ IH Hstep]; [apply run_head|].
    eapply run_step; [exact He|exact IH|]. apply scan_step_fun. exact Hstep.
  Qed.
End Run.

Fixpoint tr_eqb (a b : list (bytes * N)) : bool :=
  match a, b with
  | [], [] => true
  | (f, o) :: a', (g, p) :: b' => beq f g && (o =? p) && tr_eqb a' b'
  | _, _ => false
  end.
Lemma tr_eqb_refl a : tr_eqb a a = true.
Proof. induction a as [|[f o] a IH]; simpl; [reflexivity|]. rewrite beq_refl, N.eqb_refl, IH. reflexivity. Qed.

Definition ex_stale_error : cerr :=
  {| ce_file := bs "b.jst"; ce_idx := 0; ce_kind := CEIncorrectContext; ce_trace := [(bs "r.jst", 11)] |}.

(* the conclusion of trace_is_include_chain_lemma fails for a project with two INCLUDEs in one file *)
Theorem trace_is_include_chain_two_includes_refuted_lemma :
  exists files root fuel content e,
    fs_all_bytes files = true /\ single_include_per_file files = false /\
    fs_stat files root = Some (FFile content) /\
    Core.scan_project ex_len ex_len files [] fuel (init_state root content) = CErr e /\
    ~ exists s, scan_reach ex_len ex_len files [] (init_state root content) s /\
        ce_file e = sc_file (cs_sc s) /\ ce_trace e = include_chain (cs_stack s).
Proof.
  exists (ex_two_includes (ex_line "Body")), (bs "r.jst"), 1000%nat,
         (ex_line "JSIGHT 0.3" ++ ex_line "INCLUDE a.jst" ++ ex_line "INCLUDE b.jst"), ex_stale_error.
  split; [vm_compute; reflexivity|]. split; [vm_compute; reflexivity|]. split; [vm_compute; reflexivity|].
  split; [vm_compute; reflexivity|].
  intros [s [Hre [Hf Ht]]].
  set (init := init_state (bs "r.jst") (ex_line "JSIGHT 0.3" ++ ex_line "INCLUDE a.jst" ++ ex_line "INCLUDE b.jst")) in *.
  assert (He : run_ends ex_len ex_len (ex_two_includes (ex_line "Body")) [] 100 init = true) by (vm_compute; reflexivity).
  pose proof (reach_in_run _ _ _ _ 100 _ _ He Hre) as Hin.
  assert (Hall : forallb (fun s => negb (beq (bs "b.jst") (sc_file (cs_sc s)) &&
                                       tr_eqb [(bs "r.jst", 11)] (include_chain (cs_stack s))))
                         (run ex_len ex_len (ex_two_includes (ex_line "Body")) [] 100 init) = true) by (vm_compute; reflexivity).
  rewrite forallb_forall in Hall. specialize (Hall s Hin).
  cbn [ex_stale_error ce_file ce_trace] in Hf, Ht. rewrite <- Hf, beq_refl in Hall.
  rewrite <- Ht, tr_eqb_refl in Hall. discriminate.
Qed.
