(* Proofs about the catalog construction model (model/Catalog.v): C09 (self-consistency of
   the catalog that is serialised) and C19 (tags of interactions).

   Everything is stated for ALL forests: the invariants of add_directive are carried through
   add_branch / add_all by induction over the directive forest (pre-order fold). *)
From Coq Require Import List NArith Bool String Lia.
From JV.lib Require Import Bytes.
From JV.gen Require Import DirectiveTables TagName.
From JV.model Require Import ScannerSem Core Description PathParams TagTitle Catalog.
From JV.proofs Require Import BytesLemmas TagNameProofs.
Import ListNotations.
Open Scope N_scope.

(* ------------------------------------------------------------------------------------- *)
(* key equalities are Leibniz equality                                                     *)

Lemma beq_false_ne a b : beq a b = false <-> a <> b.
Proof.
  split.
  - intros H E. apply beq_eq in E. congruence.
  - intros H. destruct (beq a b) eqn:E; [apply beq_eq in E; contradiction | reflexivity].
Qed.

Lemma proto_eqb_eq a b : proto_eqb a b = true <-> a = b.
Proof. destruct a, b; simpl; split; intro H; try reflexivity; discriminate. Qed.

Lemma iid_eqb_eq a b : iid_eqb a b = true <-> a = b.
Proof.
  unfold iid_eqb. split.
  - intro H. apply andb_true_iff in H as [H H3]. apply andb_true_iff in H as [H1 H2].
    apply proto_eqb_eq in H1. apply beq_eq in H2. apply beq_eq in H3.
    destruct a, b; simpl in *; congruence.
  - intros ->. rewrite beq_refl, beq_refl. destruct (i_proto b); reflexivity.
Qed.

Lemma iid_eqb_refl a : iid_eqb a a = true.
Proof. apply iid_eqb_eq; reflexivity. Qed.

Lemma kind_idx_inj a b : kind_idx a = kind_idx b -> a = b.
Proof. destruct a; destruct b; intro H; try reflexivity; discriminate H. Qed.

Lemma kind_eqb_eq a b : kind_eqb a b = true <-> a = b.
Proof.
  unfold kind_eqb. split.
  - intro H. apply N.eqb_eq in H. apply kind_idx_inj; exact H.
  - intros ->. apply N.eqb_refl.
Qed.

Lemma NoDup_app_snoc {A} (l : list A) x : NoDup l -> ~ In x l -> NoDup (l ++ [x]).
Proof.
  induction l as [|a l IH]; simpl; intros H1 H2.
  - constructor; [intros []|constructor].
  - inversion H1; subst. constructor.
    + intro H. apply in_app_or in H as [H|[H|[]]]; [contradiction|]. apply H2; left; symmetry; exact H.
    + apply IH; [assumption|]. intro H; apply H2; right; exact H.
Qed.

(* ------------------------------------------------------------------------------------- *)
(* ordered maps as association lists                                                       *)

Section OM.
  Context {K V : Type} (keq : K -> K -> bool).
  Hypothesis keq_eq : forall a b, keq a b = true <-> a = b.

  Lemma om_has_false (m : list (K * V)) k : om_has keq m k = false <-> ~ In k (map fst m).
  Proof.
    unfold om_has. induction m as [|e m IH]; simpl.
    - split; [intros _ [] | reflexivity].
    - rewrite orb_false_iff, IH. split.
      + intros [H1 H2] [H|H]; [|contradiction].
        assert (keq (fst e) k = true) by (apply keq_eq; exact H). congruence.
      + intros H. split.
        * destruct (keq (fst e) k) eqn:E; [|reflexivity]. apply keq_eq in E. exfalso; apply H; left; exact E.
        * intro H1. apply H; right; exact H1.
  Qed.

  Lemma om_has_true (m : list (K * V)) k : om_has keq m k = true <-> In k (map fst m).
  Proof.
    destruct (om_has keq m k) eqn:E.
    - split; [|reflexivity]. intros _.
      unfold om_has in E. apply existsb_exists in E as [e [H1 H2]]. apply keq_eq in H2. subst k.
      apply in_map; exact H1.
    - split; [discriminate|]. intro H. apply om_has_false in E. contradiction.
  Qed.

  Lemma om_update_keys (m : list (K * V)) k f : map fst (om_update keq m k f) = map fst m.
  Proof.
    unfold om_update. rewrite map_map. apply map_ext. intro e. destruct (keq (fst e) k); reflexivity.
  Qed.

  Lemma om_update_in (m : list (K * V)) k f k' v' :
    In (k', v') (om_update keq m k f) <-> exists v, In (k', v) m /\ v' = (if keq k' k then f v else v).
  Proof.
    unfold om_update. rewrite in_map_iff. split.
    - intros [[a v] [H1 H2]]. simpl in H1.
      destruct (keq a k) eqn:E; injection H1 as Ha Hv; subst a; exists v; rewrite E;
        (split; [exact H2 | symmetry; exact Hv]).
    - intros [v [H1 H2]]. exists (k', v). simpl. split; [|exact H1].
      subst v'. destruct (keq k' k); reflexivity.
  Qed.

  Lemma om_get_some (m : list (K * V)) k v : om_get keq m k = Some v -> In (k, v) m.
  Proof.
    unfold om_get. destruct (find (fun e => keq (fst e) k) m) as [e|] eqn:E; [|discriminate].
    intro H. inversion H; subst. apply find_some in E as [H1 H2]. apply keq_eq in H2.
    destruct e; simpl in *; subst; exact H1.
  Qed.

  Lemma om_get_none (m : list (K * V)) k : om_get keq m k = None -> ~ In k (map fst m).
  Proof.
    unfold om_get. destruct (find (fun e => keq (fst e) k) m) as [e|] eqn:E; [discriminate|].
    intros _ H. apply in_map_iff in H as [e [H1 H2]].
    apply (find_none _ _ E) in H2. subst k.
    assert (keq (fst e) (fst e) = true) by (apply keq_eq; reflexivity). congruence.
  Qed.

  Lemma om_set_keys_nodup (m : list (K * V)) k v :
    NoDup (map fst m) -> NoDup (map fst (om_set keq m k v)).
  Proof.
    intro H. unfold om_set. destruct (om_has keq m k) eqn:E.
    - replace (map fst (map (fun e => if keq (fst e) k then (fst e, v) else e) m)) with (map fst m); [exact H|].
      rewrite map_map. apply map_ext. intro e. destruct (keq (fst e) k); reflexivity.
    - rewrite map_app. simpl. apply om_has_false in E.
      apply NoDup_app_snoc; assumption.
  Qed.
End OM.

(* ------------------------------------------------------------------------------------- *)
(* InteractionID.String() as a JSON key                                                    *)

Lemma split_at_first_space m1 m2 p1 p2 :
  ~ In 32 m1 -> ~ In 32 m2 -> m1 ++ 32 :: p1 = m2 ++ 32 :: p2 -> m1 = m2 /\ p1 = p2.
Proof.
  revert m2. induction m1 as [|a m1 IH]; intros [|b m2] H1 H2 E; simpl in *.
  - injection E as E. split; [reflexivity | exact E].
  - injection E as E1 E2. exfalso. apply H2. left. symmetry; exact E1.
  - injection E as E1 E2. exfalso. apply H1. left. exact E1.
  - injection E as E1 E2. subst b.
    destruct (IH m2) as [Ha Hb]; [intro H; apply H1; right; exact H | intro H; apply H2; right; exact H | exact E2 |].
    subst. split; reflexivity.
Qed.

(* no space in the method part => the key determines the id (protocol, method and path) *)
Lemma iid_string_injective_nospace i1 i2 :
  ~ In 32 (i_method i1) -> ~ In 32 (i_method i2) ->
  iid_string i1 = iid_string i2 -> i1 = i2.
Proof.
  intros H1 H2 E. unfold iid_string in E.
  destruct i1 as [p1 m1 q1], i2 as [p2 m2 q2]; simpl in *.
  destruct p1, p2; try (simpl in E; discriminate E);
    apply app_inv_head in E; simpl in E; apply split_at_first_space in E as [-> ->]; auto.
Qed.

Definition http_method_name (m : bytes) : Prop :=
  m = bs "GET" \/ m = bs "POST" \/ m = bs "PUT" \/ m = bs "PATCH" \/ m = bs "DELETE".

Lemma http_method_name_nospace m : http_method_name m -> ~ In 32 m.
Proof.
  intros [H|[H|[H|[H|H]]]]; subst m; vm_compute; intro H;
    repeat (destruct H as [H|H]; [discriminate H|]); exact H.
Qed.

Lemma is_http_method_name k : is_http_method k = true -> http_method_name (method_name k).
Proof.
  unfold http_method_name.
  destruct k; vm_compute; intro H; try discriminate H; auto 6.
Qed.

Lemma http_id_string_injective_lemma i1 i2 :
  i_proto i1 = PHttp -> i_proto i2 = PHttp ->
  http_method_name (i_method i1) -> http_method_name (i_method i2) ->
  iid_string i1 = iid_string i2 -> i1 = i2.
Proof.
  intros _ _ H1 H2. apply iid_string_injective_nospace; apply http_method_name_nospace; assumption.
Qed.

(* two different JSON-RPC ids with one JSON key *)
Definition rpc_id_a : iid := {| i_proto := PRpc; i_method := bs "x /b"; i_path := bs "/a" |}.
Definition rpc_id_b : iid := {| i_proto := PRpc; i_method := bs "x"; i_path := bs "/b /a" |}.

Lemma rpc_id_string_collision :
  rpc_id_a <> rpc_id_b /\ iid_eqb rpc_id_a rpc_id_b = false /\ iid_string rpc_id_a = iid_string rpc_id_b.
Proof.
  split; [|split].
  - intro H. discriminate H.
  - vm_compute. reflexivity.
  - vm_compute. reflexivity.
Qed.

(* ------------------------------------------------------------------------------------- *)
(* induction over directive trees; positions of a forest                                   *)

Section DtreeInd.
  Variable P : dtree -> Prop.
  Hypothesis step : forall d kids, Forall P kids -> P (DNode d kids).
  Fixpoint dtree_ind2 (t : dtree) : P t :=
    match t with
    | DNode d kids =>
      step d kids ((fix go (l : list dtree) : Forall P l :=
                      match l with
                      | [] => Forall_nil P
                      | x :: r => Forall_cons x (dtree_ind2 x) (go r)
                      end) kids)
    end.
End DtreeInd.

(* [occurs ts t anc]: t is a node of the forest ts whose ancestors are anc (innermost first) *)
Inductive occurs (ts : list dtree) : dtree -> list dtree -> Prop :=
| occ_root t : In t ts -> occurs ts t []
| occ_kid p anc t : occurs ts p anc -> In t (tree_kids p) -> occurs ts t (p :: anc).

Section AddAll.
  Variable body_text : coords -> bytes.
  Variable banned : list kind.

  Notation add_directive := (add_directive body_text banned).
  Notation add_branch := (add_branch body_text banned).
  Notation add_all := (add_all body_text banned).

  Fixpoint add_kids (t : dtree) (anc : list dtree) (ks : list dtree) (b : bstate) : cres bstate :=
    match ks with
    | [] => COk b
    | k :: r => add_branch k (t :: anc) b >>=c add_kids t anc r
    end.

  Lemma add_branch_eq t anc b :
    add_branch t anc b = add_directive t anc b >>=c add_kids t anc (tree_kids t).
  Proof.
    destruct t as [d kids]. simpl.
    destruct (add_directive (DNode d kids) anc b) as [b1| | |]; simpl; try reflexivity.
    generalize (DNode d kids) as t. intro t.
    generalize b1. induction kids as [|k r IH]; intro b2; simpl; [reflexivity|].
    destruct (add_branch k (t :: anc) b2) as [b3| | |]; simpl; try reflexivity. apply IH.
  Qed.

  (* an invariant of the state that every add_directive step (at a position of the forest)
     preserves holds after the whole fold *)
  Section Inv.
    Variable ts : list dtree.
    Variable P : bstate -> Prop.
    Hypothesis step : forall t anc b b', occurs ts t anc -> P b -> add_directive t anc b = COk b' -> P b'.

    Lemma add_kids_inv t anc ks :
      (forall k, In k ks -> forall b b', P b -> add_branch k (t :: anc) b = COk b' -> P b') ->
      forall b b', P b -> add_kids t anc ks b = COk b' -> P b'.
    Proof.
      induction ks as [|k r IH]; intros Hk b b' HP H; simpl in H.
      - inversion H; subst; exact HP.
      - destruct (add_branch k (t :: anc) b) as [b2| | |] eqn:E; simpl in H; try discriminate H.
        apply (IH (fun x Hx => Hk x (or_intror Hx)) b2 b'); [|exact H].
        eapply Hk; [left; reflexivity | exact HP | exact E].
    Qed.

    Lemma add_branch_inv t : forall anc b b', occurs ts t anc -> P b -> add_branch t anc b = COk b' -> P b'.
    Proof.
      induction t as [d kids IH] using dtree_ind2. intros anc b b' Hocc HP H.
      rewrite add_branch_eq in H.
      destruct (add_directive (DNode d kids) anc b) as [b1| | |] eqn:E; simpl in H; try discriminate H.
      assert (HP1 : P b1) by (eapply step; eauto).
      eapply add_kids_inv; [|exact HP1|exact H].
      intros k Hk b2 b3 HP2 H2. rewrite Forall_forall in IH.
      eapply IH; [exact Hk | apply occ_kid; [exact Hocc | exact Hk] | exact HP2 | exact H2].
    Qed.

    Lemma add_all_inv_gen sub : (forall t, In t sub -> In t ts) ->
      forall b b', P b -> add_all sub b = COk b' -> P b'.
    Proof.
      induction sub as [|t r IH]; intros Hsub b b' HP H; simpl in H.
      - inversion H; subst; exact HP.
      - destruct (add_branch t [] b) as [b1| | |] eqn:E; simpl in H; try discriminate H.
        apply (IH (fun x Hx => Hsub x (or_intror Hx)) b1 b'); [|exact H].
        eapply add_branch_inv; [apply occ_root; apply Hsub; left; reflexivity | exact HP | exact E].
    Qed.

    Lemma add_all_inv b b' : P b -> add_all ts b = COk b' -> P b'.
    Proof. apply add_all_inv_gen. auto. Qed.

    (* ... and every position of the forest is visited: add_branch (hence add_directive) succeeded
       there, in a state that satisfies the invariant *)
    Lemma add_kids_visits t anc ks :
      (forall k, In k ks -> occurs ts k (t :: anc)) ->
      forall b b', P b -> add_kids t anc ks b = COk b' ->
      forall k, In k ks -> exists b1 b3, P b1 /\ add_branch k (t :: anc) b1 = COk b3.
    Proof.
      induction ks as [|k0 r IH]; intros Hocc b b' HP H k Hk; [destruct Hk|].
      simpl in H. destruct (add_branch k0 (t :: anc) b) as [b2| | |] eqn:E; simpl in H; try discriminate H.
      destruct Hk as [<-|Hk].
      - exists b, b2. split; [exact HP | exact E].
      - apply (IH (fun x Hx => Hocc x (or_intror Hx)) b2 b'); [|exact H|exact Hk].
        eapply add_branch_inv; [apply Hocc; left; reflexivity | exact HP | exact E].
    Qed.

    Lemma add_all_visits_root sub : (forall t, In t sub -> In t ts) ->
      forall b b', P b -> add_all sub b = COk b' ->
      forall t, In t sub -> exists b1 b3, P b1 /\ add_branch t [] b1 = COk b3.
    Proof.
      induction sub as [|t0 r IH]; intros Hsub b b' HP H t Ht; [destruct Ht|].
      simpl in H. destruct (add_branch t0 [] b) as [b2| | |] eqn:E; simpl in H; try discriminate H.
      destruct Ht as [<-|Ht].
      - exists b, b2. split; [exact HP | exact E].
      - apply (IH (fun x Hx => Hsub x (or_intror Hx)) b2 b'); [|exact H|exact Ht].
        eapply add_branch_inv; [apply occ_root; apply Hsub; left; reflexivity | exact HP | exact E].
    Qed.

    Lemma add_all_visits_branch b b' : P b -> add_all ts b = COk b' ->
      forall t anc, occurs ts t anc -> exists b1 b3, P b1 /\ add_branch t anc b1 = COk b3.
    Proof.
      intros HP H t anc Hocc. induction Hocc as [t Ht|p anc t Hp IH Hk].
      - apply (add_all_visits_root ts (fun x Hx => Hx) b b' HP H t Ht).
      - destruct IH as [b1 [b3 [HP1 Hb]]]. rewrite add_branch_eq in Hb.
        destruct (add_directive p anc b1) as [b2| | |] eqn:E; simpl in Hb; try discriminate Hb.
        assert (HP2 : P b2) by (eapply step; eauto).
        apply (add_kids_visits p anc (tree_kids p)) with (b := b2) (b' := b3); [|exact HP2|exact Hb|exact Hk].
        intros k Hk'. apply occ_kid; assumption.
    Qed.

    Lemma add_all_visits b b' : P b -> add_all ts b = COk b' ->
      forall t anc, occurs ts t anc -> exists b1 b2, P b1 /\ add_directive t anc b1 = COk b2.
    Proof.
      intros HP H t anc Hocc. destruct (add_all_visits_branch b b' HP H t anc Hocc) as [b1 [b3 [HP1 Hb]]].
      rewrite add_branch_eq in Hb.
      destruct (add_directive t anc b1) as [b2| | |] eqn:E; simpl in Hb; try discriminate Hb.
      exists b1, b2. split; [exact HP1 | exact E].
    Qed.
  End Inv.
End AddAll.

(* ------------------------------------------------------------------------------------- *)
(* tags_for (Catalog.tags / tagNames / pathTag)                                            *)

Definition tl (p : proto) (t : tag) : list iid := match p with PHttp => t_http t | PRpc => t_rpc t end.

Lemma tl_add p t i j :
  In j (tl p (tag_add_iid t i)) <-> In j (tl p t) \/ (j = i /\ p = i_proto i).
Proof.
  unfold tag_add_iid. destruct (i_proto i) eqn:Ei; destruct p; simpl; try rewrite in_app_iff; simpl;
    split; intro H.
  all: try (destruct H as [H|[H|[]]]; [left; exact H | right; split; [symmetry; exact H | reflexivity]]).
  all: try (destruct H as [H|[H1 H2]]; [left; exact H | right; left; symmetry; exact H1]).
  all: try (left; exact H).
  all: try (destruct H as [H|[_ H]]; [exact H | discriminate H]).
Qed.

Lemma tag_add_title t i : t_title (tag_add_iid t i) = t_title t.
Proof. unfold tag_add_iid; destruct (i_proto i); reflexivity. Qed.
Lemma tag_add_desc t i : t_desc (tag_add_iid t i) = t_desc t.
Proof. unfold tag_add_iid; destruct (i_proto i); reflexivity. Qed.
Lemma tag_add_auto t i : t_auto (tag_add_iid t i) = t_auto t.
Proof. unfold tag_add_iid; destruct (i_proto i); reflexivity. Qed.

(* the loop of tagsFromTagsDirective (the local fix of Catalog.tags_from_directive) *)
Section TagsGo.
  Variable td : directive.
  Variable i : option iid.
  Fixpoint tags_go (ns acc : list bytes) (tg : list (bytes * tag))
    : cres (list bytes * list (bytes * tag)) :=
    match ns with
    | [] => COk (acc, tg)
    | n :: r =>
      match om_get beq tg n with
      | Some t =>
        if t_auto t then kerr td "tag not found"
        else tags_go r (acc ++ [n])
               (match i with Some j => om_update beq tg n (fun t0 => tag_add_iid t0 j) | None => tg end)
      | None => kerr td "tag not found"
      end
    end.
End TagsGo.

Lemma tags_from_directive_unfold td i tags :
  tags_from_directive td i tags =
  if negb (beq (d_annot td) []) then kerr td "annotation is forbidden"
  else match d_unnamed td with
       | [] => kerr td "required parameter"
       | b :: l => tags_go td i (b :: l) [] tags
       end.
Proof. reflexivity. Qed.

(* the Tags directive that decides: the interaction's own child, else the child of its parent URL *)
Definition used_tags_directive (me : dtree) (anc : list dtree) : option directive :=
  match child_of_kind KTags (tree_kids me) with
  | Some td => Some td
  | None =>
    match anc with
    | a :: _ => if kind_eqb (d_kind (tree_dir a)) KURL then child_of_kind KTags (tree_kids a) else None
    | [] => None
    end
  end.

Definition auto_tag (i : iid) : tag :=
  {| t_title := pathTagTitle (i_path i); t_desc := None; t_http := []; t_rpc := []; t_auto := true |}.

Lemma tags_for_unfold me anc i tags :
  tags_for me anc i tags =
  match used_tags_directive me anc with
  | Some td => tags_from_directive td (Some i) tags
  | None =>
    let n := auto_tag_name (i_path i) in
    COk ([n], om_update beq (if om_has beq tags n then tags else tags ++ [(n, auto_tag i)]) n (fun t => tag_add_iid t i))
  end.
Proof.
  unfold tags_for, used_tags_directive.
  destruct (child_of_kind KTags (tree_kids me)); [reflexivity|].
  destruct anc as [|a anc]; [reflexivity|].
  destruct (kind_eqb (d_kind (tree_dir a)) KURL); [|reflexivity].
  destruct (child_of_kind KTags (tree_kids a)); reflexivity.
Qed.

(* what the tag names of an interaction are *)
Definition tag_spec (me : dtree) (anc : list dtree) (i : iid) : list bytes :=
  match used_tags_directive me anc with
  | Some td => d_unnamed td
  | None => [auto_tag_name (i_path i)]
  end.

(* the tag collection after one iteration of the loop *)
Definition go_next (i : option iid) (tg : list (bytes * tag)) (n : bytes) : list (bytes * tag) :=
  match i with Some j => om_update beq tg n (fun t0 => tag_add_iid t0 j) | None => tg end.

Lemma go_next_keys i tg n : map fst (go_next i tg n) = map fst tg.
Proof. destruct i; simpl; [apply om_update_keys | reflexivity]. Qed.

(* entries keep their key and their automatic flag, in both directions *)
Lemma go_next_back i tg n m t' : In (m, t') (go_next i tg n) -> exists t, In (m, t) tg /\ t_auto t' = t_auto t.
Proof.
  destruct i as [j|]; simpl; intro H.
  - apply om_update_in in H as [t [H1 H2]]. exists t. split; [exact H1|].
    subst t'. destruct (beq m n); [apply tag_add_auto | reflexivity].
  - exists t'. split; [exact H | reflexivity].
Qed.

Lemma go_next_fwd i tg n m t : In (m, t) tg -> exists t', In (m, t') (go_next i tg n) /\ t_auto t' = t_auto t.
Proof.
  destruct i as [j|]; simpl; intro H.
  - exists (if beq m n then tag_add_iid t j else t). split.
    + apply om_update_in. exists t. split; [exact H | reflexivity].
    + destruct (beq m n); [apply tag_add_auto | reflexivity].
  - exists t. split; [exact H | reflexivity].
Qed.

Ltac go_step H t00 E :=
  cbn [tags_go] in H;
  match type of H with context [om_get beq ?tg ?n] => destruct (om_get beq tg n) as [t00|] eqn:E; [|discriminate H] end;
  match type of H with context [t_auto t00] => destruct (t_auto t00) eqn:?; [discriminate H|] end;
  fold (go_next) in H.

Lemma tags_go_res td i ns : forall acc tg res tg',
  tags_go td i ns acc tg = COk (res, tg') -> res = acc ++ ns.
Proof.
  induction ns as [|n r IH]; intros acc tg res tg' H.
  - inversion H; subst. rewrite app_nil_r; reflexivity.
  - go_step H t00 E. apply IH in H. rewrite H, <- app_assoc. reflexivity.
Qed.

Lemma tags_go_keys td i ns : forall acc tg res tg',
  tags_go td i ns acc tg = COk (res, tg') -> map fst tg' = map fst tg.
Proof.
  induction ns as [|n r IH]; intros acc tg res tg' H.
  - inversion H; subst. reflexivity.
  - go_step H t00 E. apply IH in H. rewrite H.
    destruct i; [apply om_update_keys | reflexivity].
Qed.

Lemma tags_go_none td ns : forall acc tg res tg',
  tags_go td None ns acc tg = COk (res, tg') -> tg' = tg.
Proof.
  induction ns as [|n r IH]; intros acc tg res tg' H.
  - inversion H; subst. reflexivity.
  - go_step H t00 E. exact (IH _ _ _ _ H).
Qed.

(* every name is the key of a NON-automatic tag *)
Lemma tags_go_declared td i ns : forall acc tg res tg',
  tags_go td i ns acc tg = COk (res, tg') ->
  forall n, In n ns -> exists t, In (n, t) tg /\ t_auto t = false.
Proof.
  induction ns as [|n r IH]; intros acc tg res tg' H m Hm.
  - destruct Hm.
  - go_step H t00 E. destruct Hm as [<-|Hm].
    + apply (om_get_some beq beq_eq) in E. exists t00. split; assumption.
    + destruct (IH _ _ _ _ H m Hm) as [t1 [H1 H2]].
      assert (Hb : exists t, In (m, t) tg /\ t_auto t1 = t_auto t).
      { destruct i as [j|]; [apply (go_next_back (Some j) tg n) | apply (go_next_back None tg n)]; exact H1. }
      destruct Hb as [t [H3 H4]]. exists t. split; [exact H3 | congruence].
Qed.

Lemma tags_go_back td j ns : forall acc tg res tg',
  tags_go td (Some j) ns acc tg = COk (res, tg') ->
  forall m t', In (m, t') tg' ->
  exists t, In (m, t) tg /\ t_title t' = t_title t /\ t_desc t' = t_desc t /\ t_auto t' = t_auto t /\
            forall p k, In k (tl p t') -> In k (tl p t) \/ (k = j /\ p = i_proto j /\ In m ns).
Proof.
  induction ns as [|n r IH]; intros acc tg res tg' H m t' Hin.
  - inversion H; subst. exists t'. repeat split; auto.
  - go_step H t00 E.
    destruct (IH _ _ _ _ H m t' Hin) as [t1 [H1 [H2 [H3 [Ha H4]]]]].
    apply om_update_in in H1 as [t [Ht Ht1]].
    exists t. split; [exact Ht|].
    destruct (beq m n) eqn:Em; subst t1.
    + apply beq_eq in Em. subst m. rewrite tag_add_title in H2. rewrite tag_add_desc in H3. rewrite tag_add_auto in Ha.
      repeat split; auto. intros p k Hk. apply H4 in Hk as [Hk|[Hx [Hy Hz]]].
      * apply tl_add in Hk as [Hk|[Hx Hy]]; [left; exact Hk | right; repeat split; auto; left; reflexivity].
      * right; repeat split; auto. right; exact Hz.
    + repeat split; auto. intros p k Hk. apply H4 in Hk as [Hk|[Hx [Hy Hz]]]; [left; exact Hk|].
      right; repeat split; auto. right; exact Hz.
Qed.

Lemma tags_go_fwd td j ns : forall acc tg res tg',
  tags_go td (Some j) ns acc tg = COk (res, tg') ->
  forall m t, In (m, t) tg ->
  exists t', In (m, t') tg' /\ t_title t' = t_title t /\ t_desc t' = t_desc t /\ t_auto t' = t_auto t /\
             (forall p k, In k (tl p t) -> In k (tl p t')) /\
             (In m ns -> In j (tl (i_proto j) t')).
Proof.
  induction ns as [|n r IH]; intros acc tg res tg' H m t Hin.
  - inversion H; subst. exists t. repeat split; auto. intros [].
  - go_step H t00 E.
    assert (H1 : In (m, if beq m n then tag_add_iid t j else t) (om_update beq tg n (fun t0 => tag_add_iid t0 j))).
    { apply om_update_in. exists t. split; [exact Hin | reflexivity]. }
    destruct (IH _ _ _ _ H _ _ H1) as [t' [Ha [Hb [Hc [Hau [Hd He]]]]]].
    exists t'. split; [exact Ha|].
    destruct (beq m n) eqn:Em.
    + rewrite tag_add_title in Hb. rewrite tag_add_desc in Hc. rewrite tag_add_auto in Hau. repeat split; auto.
      * intros p k Hk. apply Hd. apply tl_add. left; exact Hk.
      * intros _. apply Hd. apply tl_add. right; split; reflexivity.
    + repeat split; auto. intros [Hm|Hm]; [|exact (He Hm)].
      subst m. rewrite beq_refl in Em. discriminate Em.
Qed.

(* FULL strength: a name that is not the key of a declared (non-automatic) tag - no such key, or only
   the automatic tag of an earlier interaction - is answered "tag not found" *)
Lemma tags_go_reject td i ns : forall acc tg,
  (exists n, In n ns /\ forall t, In (n, t) tg -> t_auto t = true) ->
  tags_go td i ns acc tg = kerr td "tag not found".
Proof.
  induction ns as [|n r IH]; intros acc tg [m [Hm Hn]].
  - destruct Hm.
  - cbn [tags_go]. destruct (om_get beq tg n) as [t0|] eqn:E; [|reflexivity].
    destruct (t_auto t0) eqn:Ea; [reflexivity|].
    apply IH. exists m. split.
    + destruct Hm as [<-|Hm]; [|exact Hm].
      exfalso. apply (om_get_some beq beq_eq) in E. apply Hn in E. congruence.
    + intros t Ht.
      assert (Hb : exists t1, In (m, t1) tg /\ t_auto t = t_auto t1).
      { destruct i as [j|]; [apply (go_next_back (Some j) tg n) | apply (go_next_back None tg n)]; exact Ht. }
      destruct Hb as [t1 [H1 H2]]. rewrite H2. exact (Hn t1 H1).
Qed.

Record tags_rel (i : iid) (ns : list bytes) (old new : list (bytes * tag)) : Prop := {
  tr_keys : map fst new = map fst old \/
            (~ In (auto_tag_name (i_path i)) (map fst old) /\
             map fst new = map fst old ++ [auto_tag_name (i_path i)]);
  tr_back : forall m t', In (m, t') new ->
      (exists t, In (m, t) old /\ t_title t' = t_title t /\ t_desc t' = t_desc t /\ t_auto t' = t_auto t /\
                 forall p j, In j (tl p t') -> In j (tl p t) \/ (j = i /\ p = i_proto i /\ In m ns))
      \/ (m = auto_tag_name (i_path i) /\ t_title t' = pathTagTitle (i_path i) /\ t_desc t' = None /\ t_auto t' = true /\
          forall p j, In j (tl p t') -> j = i /\ p = i_proto i /\ In m ns);
  tr_fwd : forall m t, In (m, t) old ->
      exists t', In (m, t') new /\ t_title t' = t_title t /\ t_desc t' = t_desc t /\ t_auto t' = t_auto t /\
                 forall p j, In j (tl p t) -> In j (tl p t');
  tr_names : forall m, In m ns -> exists t', In (m, t') new /\ In i (tl (i_proto i) t')
}.

Lemma in_map_fst_exists {A B} (l : list (A * B)) k : In k (map fst l) -> exists v, In (k, v) l.
Proof.
  intro H. apply in_map_iff in H as [[a v] [H1 H2]]. simpl in H1; subst a. exists v; exact H2.
Qed.

Lemma tags_for_spec me anc i tags ns tg' :
  tags_for me anc i tags = COk (ns, tg') ->
  ns = tag_spec me anc i /\ ns <> [] /\ tags_rel i ns tags tg' /\
  (forall td, used_tags_directive me anc = Some td ->
     forall n, In n ns -> exists t, In (n, t) tags /\ t_auto t = false).
Proof.
  rewrite tags_for_unfold. unfold tag_spec.
  destruct (used_tags_directive me anc) as [td|].
  - rewrite tags_from_directive_unfold. destruct (negb (beq (d_annot td) [])); [discriminate|].
    destruct (d_unnamed td) as [|b l] eqn:Eu; [discriminate|]. intro H.
    pose proof (tags_go_res _ _ _ _ _ _ _ H) as Hres. simpl in Hres. subst ns.
    split; [reflexivity|]. split; [discriminate|]. split.
    + constructor.
      * left. eapply tags_go_keys; exact H.
      * intros m t' Hin. left. eapply tags_go_back; [exact H | exact Hin].
      * intros m t Hin. destruct (tags_go_fwd _ _ _ _ _ _ _ H m t Hin) as [t' [Ha [Hb [Hc [Hau [Hd _]]]]]].
        exists t'. repeat split; auto.
      * intros m Hm. destruct (tags_go_declared _ _ _ _ _ _ _ H m Hm) as [t [Ht _]].
        destruct (tags_go_fwd _ _ _ _ _ _ _ H m t Ht) as [t' [Ha [_ [_ [_ [_ He]]]]]].
        exists t'. split; [exact Ha | exact (He Hm)].
    + intros td0 _ n Hn. exact (tags_go_declared _ _ _ _ _ _ _ H n Hn).
  - simpl. intro H. inversion H; subst ns tg'; clear H.
    set (n := auto_tag_name (i_path i)).
    split; [reflexivity|]. split; [discriminate|]. split; [|intros td0 E; discriminate E].
    set (tg0 := if om_has beq tags n then tags else tags ++ [(n, auto_tag i)]).
    assert (Hsub : forall m t, In (m, t) tags -> In (m, t) tg0).
    { intros m t Hin. unfold tg0. destruct (om_has beq tags n); [exact Hin | apply in_or_app; left; exact Hin]. }
    assert (Hn : exists t, In (n, t) tg0).
    { unfold tg0. destruct (om_has beq tags n) eqn:E.
      - apply (om_has_true beq beq_eq) in E. apply in_map_fst_exists in E. exact E.
      - exists (auto_tag i). apply in_or_app; right; left; reflexivity. }
    constructor.
    + rewrite om_update_keys. unfold tg0. destruct (om_has beq tags n) eqn:E; [left; reflexivity|].
      right. split; [apply (om_has_false beq beq_eq); exact E|]. rewrite map_app; reflexivity.
    + intros m t' Hin. apply om_update_in in Hin as [t0 [H0 Ht']].
      assert (Hcase : In (m, t0) tags \/ (m = n /\ t0 = auto_tag i)).
      { unfold tg0 in H0. destruct (om_has beq tags n); [left; exact H0|].
        apply in_app_or in H0 as [H0|[H0|[]]]; [left; exact H0|]. right. inversion H0; split; reflexivity. }
      destruct Hcase as [Hold|[Hm Ht0]].
      * left. exists t0. split; [exact Hold|]. subst t'. destruct (beq m n) eqn:E.
        -- rewrite tag_add_title, tag_add_desc, tag_add_auto. repeat split; auto. intros p j Hj.
           apply tl_add in Hj as [Hj|[Ha Hb]]; [left; exact Hj|]. right. repeat split; auto.
           apply beq_eq in E. left. symmetry; exact E.
        -- repeat split; auto.
      * right. subst m t0. rewrite beq_refl in Ht'. subst t'.
        rewrite tag_add_title, tag_add_desc, tag_add_auto. repeat split; auto.
        all: apply tl_add in H as [H|[Ha Hb]]; [destruct p; destruct H | auto].
        left; reflexivity.
    + intros m t Hin. apply Hsub in Hin.
      exists (if beq m n then tag_add_iid t i else t). split.
      * apply om_update_in. exists t. split; [exact Hin | reflexivity].
      * destruct (beq m n); [rewrite tag_add_title, tag_add_desc, tag_add_auto|]; repeat split; auto.
        intros p j Hj. apply tl_add. left; exact Hj.
    + intros m [<-|[]]. destruct Hn as [t Ht].
      exists (tag_add_iid t i). split.
      * apply om_update_in. exists t. split; [exact Ht|]. rewrite beq_refl; reflexivity.
      * apply tl_add. right; split; reflexivity.
Qed.

(* the verdict for a well-formed Tags directive naming something that is not a declared tag *)
Lemma tags_from_directive_undeclared td i tags n :
  d_annot td = [] -> In n (d_unnamed td) -> (forall t, In (n, t) tags -> t_auto t = true) ->
  tags_from_directive td i tags = CErr (kw_err td (CEMsg "tag not found")).
Proof.
  intros Ha Hn Hk. rewrite tags_from_directive_unfold. rewrite Ha.
  change (negb (beq [] [])) with false. cbv iota.
  destruct (d_unnamed td) as [|b l] eqn:Eu; [destruct Hn|].
  rewrite (tags_go_reject td i (b :: l) [] tags); [reflexivity|].
  exists n. split; assumption.
Qed.

Lemma tags_for_undeclared me anc i tags td n :
  used_tags_directive me anc = Some td -> d_annot td = [] ->
  In n (d_unnamed td) -> (forall t, In (n, t) tags -> t_auto t = true) ->
  tags_for me anc i tags = CErr (kw_err td (CEMsg "tag not found")).
Proof.
  intros Hu Ha Hn Hk. rewrite tags_for_unfold, Hu. apply tags_from_directive_undeclared with (n := n); assumption.
Qed.

(* what a successful check says *)
Lemma tags_from_directive_ok td i tags r :
  tags_from_directive td i tags = COk r ->
  forall n, In n (d_unnamed td) -> exists t, In (n, t) tags /\ t_auto t = false.
Proof.
  rewrite tags_from_directive_unfold. destruct (negb (beq (d_annot td) [])); [discriminate|].
  destruct (d_unnamed td) as [|b l] eqn:Eu; [discriminate|]. destruct r as [res tg']. intros H n Hn.
  exact (tags_go_declared _ _ _ _ _ _ _ H n Hn).
Qed.

(* ------------------------------------------------------------------------------------- *)
(* what one add_directive step does to the collections                                     *)

Definition iproto (x : interaction) : proto := match x with IHttp _ => PHttp | IRpc _ => PRpc end.
Definition itags (x : interaction) : list bytes := match x with IHttp h => hi_tags h | IRpc r => ri_tags r end.

Definition notations : list bytes := [bs "jsight"; bs "regex"; bs "any"; bs "empty"].

(* the format of a body is the format of a normalised notation, consistent with where the
   schema comes from: no schema text <-> any/empty (binary); a type reference is jsight (json) *)
Definition body_ok (b : body_) : Prop :=
  exists n, In n notations /\ b_format b = format_of n /\
            (b_schema b = SNone -> is_any_or_empty n = true) /\
            (forall t, b_schema b = STypeRef t -> n = bs "jsight").

Definition bodies_ok (x : interaction) : Prop :=
  match x with
  | IHttp h => (forall rq b, hi_request h = Some rq -> q_body rq = Some b -> body_ok b) /\
               (forall r b, In r (hi_responses h) -> r_body r = Some b -> body_ok b)
  | IRpc _ => True
  end.

Definition all_bodies_ok (m : list (iid * interaction)) : Prop := forall j y, In (j, y) m -> bodies_ok y.

(* an update function of interactions that keeps protocol and tags, and keeps the bodies well-formed
   (given that those of the collection [m] it was computed from are) *)
Definition good (m : list (iid * interaction)) (g : interaction -> interaction) : Prop :=
  forall x, iproto (g x) = iproto x /\ itags (g x) = itags x /\
            (all_bodies_ok m -> bodies_ok x -> bodies_ok (g x)).

(* the interaction id of a GET/POST/... or Method directive at a position *)
Definition made_by (t : dtree) (anc : list dtree) (i : iid) : Prop :=
  let d := tree_dir t in
  match i_proto i with
  | PHttp => is_http_method (d_kind d) = true /\ path_of d anc = PathOk (i_path i) /\
             i_method i = method_name (d_kind d)
  | PRpc => d_kind d = KMethod /\ rpc_id d anc = IdOk i
  end.

Inductive cat_step (t : dtree) (anc : list dtree) (c c' : catalog) : Prop :=
| CS_plain :
    c_enums c' = c_enums c ->
    (c_servers c' = c_servers c \/
     (exists n s, ~ In n (map fst (c_servers c)) /\ c_servers c' = c_servers c ++ [(n, s)]) \/
     (exists n f, c_servers c' = om_update beq (c_servers c) n f)) ->
    (c_types c' = c_types c \/
     exists n u, ~ In n (map fst (c_types c)) /\ c_types c' = c_types c ++ [(n, u)]) ->
    (c_tags c' = c_tags c \/
     exists n f, (forall t, t_title (f t) = t_title t /\ t_http (f t) = t_http t /\ t_rpc (f t) = t_rpc t /\
                            t_auto (f t) = t_auto t) /\
                 c_tags c' = om_update beq (c_tags c) n f) ->
    (c_inters c' = c_inters c \/
     exists i g, good (c_inters c) g /\ c_inters c' = om_update iid_eqb (c_inters c) i g) ->
    cat_step t anc c c'
| CS_method i x ns tg :
    made_by t anc i -> ~ In i (map fst (c_inters c)) ->
    tags_for t anc i (c_tags c) = COk (ns, tg) ->
    iproto x = i_proto i -> itags x = ns -> bodies_ok x ->
    c_enums c' = c_enums c -> c_servers c' = c_servers c -> c_types c' = c_types c ->
    c_inters c' = c_inters c ++ [(i, x)] -> c_tags c' = tg ->
    cat_step t anc c c'.

Lemma norm_notation_in sn n : norm_notation sn = Some n -> In n notations.
Proof.
  unfold norm_notation, notations.
  destruct (beq sn [] || beq sn (bs "jsight")); [intro H; inversion H; simpl; auto|].
  destruct (beq sn (bs "regex")); [intro H; inversion H; simpl; auto|].
  destruct (beq sn (bs "any")); [intro H; inversion H; simpl; auto|].
  destruct (beq sn (bs "empty")); [intro H; inversion H; simpl; auto 6|].
  discriminate.
Qed.

Lemma set_last_response_bodies h f :
  (forall r, r_body (f r) = r_body r) ->
  (forall r b, In r (hi_responses h) -> r_body r = Some b -> body_ok b) ->
  forall r b, In r (hi_responses (set_last_response h f)) -> r_body r = Some b -> body_ok b.
Proof.
  intros Hf Hall r b Hin Hb. unfold set_last_response in Hin. simpl in Hin.
  destruct (rev (hi_responses h)) as [|r0 rs] eqn:E; [destruct Hin|].
  assert (Hr : forall y, In y (hi_responses h) <-> In y (r0 :: rs)).
  { intro y. rewrite <- E. apply in_rev. }
  apply in_app_or in Hin as [Hin|[Hin|[]]].
  - apply (proj2 (in_rev _ _)) in Hin. apply (Hall r); [apply Hr; right; exact Hin | exact Hb].
  - subst r. rewrite Hf in Hb. apply (Hall r0); [apply Hr; left; reflexivity | exact Hb].
Qed.

Lemma set_last_response_new_body h f bd :
  (forall r, r_body (f r) = Some bd) -> body_ok bd ->
  (forall r b, In r (hi_responses h) -> r_body r = Some b -> body_ok b) ->
  forall r b, In r (hi_responses (set_last_response h f)) -> r_body r = Some b -> body_ok b.
Proof.
  intros Hf Hbd Hall r b Hin Hb. unfold set_last_response in Hin. simpl in Hin.
  destruct (rev (hi_responses h)) as [|r0 rs] eqn:E; [destruct Hin|].
  assert (Hr : forall y, In y (hi_responses h) <-> In y (r0 :: rs)).
  { intro y. rewrite <- E. apply in_rev. }
  apply in_app_or in Hin as [Hin|[Hin|[]]].
  - apply (proj2 (in_rev _ _)) in Hin. apply (Hall r); [apply Hr; right; exact Hin | exact Hb].
  - subst r. rewrite Hf in Hb. inversion Hb; subst; exact Hbd.
Qed.

(* walking the decision tree of a model function: destruct the scrutinee at the head *)
Ltac head_disc X k :=
  lazymatch X with
  | match ?Y with _ => _ end => head_disc Y k
  | _ => k X
  end.
Ltac walk1 H :=
  lazymatch type of H with
  | (match ?X with _ => _ end) = _ => head_disc X ltac:(fun Z => destruct Z eqn:?)
  end; cbv beta iota zeta in H; try discriminate H.
Ltac walk H := repeat (walk1 H).

Lemma om_update_compose {K V} (keq : K -> K -> bool) (m : list (K * V)) k f g :
  om_update keq (om_update keq m k f) k g = om_update keq m k (fun v => g (f v)).
Proof.
  unfold om_update. rewrite map_map. apply map_ext. intros [a v]. simpl.
  destruct (keq a k) eqn:E; simpl; rewrite E; reflexivity.
Qed.

Definition lift_h (f : http_i -> http_i) (x : interaction) : interaction :=
  match x with IHttp h => IHttp (f h) | y => y end.
Definition lift_r (f : rpc_i -> rpc_i) (x : interaction) : interaction :=
  match x with IRpc h => IRpc (f h) | y => y end.

Definition hgood (m : list (iid * interaction)) (f : http_i -> http_i) : Prop :=
  forall h, hi_tags (f h) = hi_tags h /\ (all_bodies_ok m -> bodies_ok (IHttp h) -> bodies_ok (IHttp (f h))).
Definition rgood (f : rpc_i -> rpc_i) : Prop := forall h, ri_tags (f h) = ri_tags h.

Lemma good_lift_h m f : hgood m f -> good m (lift_h f).
Proof.
  intros Hf [h|r].
  - destruct (Hf h) as [H1 H2]. split; [reflexivity|]. split; [exact H1 | exact H2].
  - split; [reflexivity|]. split; [reflexivity|]. intros _ H; exact H.
Qed.
Lemma good_lift_r m f : rgood f -> good m (lift_r f).
Proof.
  intros Hf [h|r].
  - split; [reflexivity|]. split; [reflexivity|]. intros _ H; exact H.
  - split; [reflexivity|]. split; [apply Hf|]. intros _ H; exact H.
Qed.
Lemma good_compose m f g : good m f -> good m g -> good m (fun x => g (f x)).
Proof.
  intros Hf Hg x. destruct (Hf x) as [A [B C]]. destruct (Hg (f x)) as [A' [B' C']].
  repeat split; [congruence | congruence | auto].
Qed.

Lemma b_cat_with_cat b c : b_cat (with_cat b c) = c.
Proof. reflexivity. Qed.

Lemma cs_same t anc c c' :
  c_enums c' = c_enums c -> c_servers c' = c_servers c -> c_types c' = c_types c ->
  c_tags c' = c_tags c -> c_inters c' = c_inters c -> cat_step t anc c c'.
Proof. intros. apply CS_plain; auto. Qed.

Lemma cs_refl t anc c : cat_step t anc c c.
Proof. apply cs_same; reflexivity. Qed.

Lemma cs_inters t anc c i g : good (c_inters c) g -> cat_step t anc c (upd_inters c (om_update iid_eqb (c_inters c) i g)).
Proof.
  intro Hg. apply CS_plain; simpl; auto. right. exists i, g. split; [exact Hg | reflexivity].
Qed.

Lemma cs_http1 t anc c i f : hgood (c_inters c) f -> cat_step t anc c (upd_http c i f).
Proof. intro Hf. apply (cs_inters t anc c i (lift_h f)). apply good_lift_h; exact Hf. Qed.

Lemma cs_rpc1 t anc c i f : rgood f -> cat_step t anc c (upd_rpc c i f).
Proof. intro Hf. apply (cs_inters t anc c i (lift_r f)). apply good_lift_r; exact Hf. Qed.

Lemma cs_http2 t anc c i f1 f2 : hgood (c_inters c) f1 -> hgood (c_inters c) f2 -> cat_step t anc c (upd_http (upd_http c i f1) i f2).
Proof.
  intros H1 H2. unfold upd_http. simpl.
  change (cat_step t anc c (upd_inters (upd_inters c (om_update iid_eqb (c_inters c) i (lift_h f1)))
            (om_update iid_eqb (om_update iid_eqb (c_inters c) i (lift_h f1)) i (lift_h f2)))).
  rewrite om_update_compose.
  apply CS_plain; simpl; auto. right. eexists; eexists. split; [|reflexivity].
  apply good_compose; apply good_lift_h; assumption.
Qed.

Lemma body_ok_mk n s :
  In n notations -> (s = SNone -> is_any_or_empty n = true) -> (forall t, s = STypeRef t -> n = bs "jsight") ->
  body_ok {| b_format := format_of n; b_schema := s |}.
Proof. intros H1 H2 H3. exists n. simpl. repeat split; auto. Qed.

Lemma hgood_new_request m d :
  hgood m (fun h => match hi_request h with
                  | Some _ => h
                  | None => {| hi_annot := hi_annot h; hi_desc := hi_desc h; hi_tags := hi_tags h; hi_query := hi_query h;
                               hi_request := Some {| q_body := None; q_headers := None; q_dir := d |};
                               hi_responses := hi_responses h; hi_pathvars := hi_pathvars h |}
                  end).
Proof.
  intro h. destruct (hi_request h) eqn:E; simpl; split; auto.
  intros _ [_ Hr]. split; [|exact Hr]. intros rq b H1 H2. inversion H1; subst rq. discriminate H2.
Qed.

Lemma hgood_request_body m bd hd dd :
  body_ok bd ->
  hgood m (fun h => {| hi_annot := hi_annot h; hi_desc := hi_desc h; hi_tags := hi_tags h; hi_query := hi_query h;
                     hi_request := Some {| q_body := Some bd; q_headers := hd; q_dir := dd |};
                     hi_responses := hi_responses h; hi_pathvars := hi_pathvars h |}).
Proof.
  intros Hbd h. simpl. split; [reflexivity|]. intros _ [_ Hr]. split; [|exact Hr].
  intros rq b H1 H2. inversion H1; subst rq. simpl in H2. inversion H2; subst b. exact Hbd.
Qed.

Lemma hgood_new_response m r0 :
  r_body r0 = None ->
  hgood m (fun h => {| hi_annot := hi_annot h; hi_desc := hi_desc h; hi_tags := hi_tags h; hi_query := hi_query h;
                     hi_request := hi_request h; hi_responses := hi_responses h ++ [r0]; hi_pathvars := hi_pathvars h |}).
Proof.
  intros H0 h. simpl. split; [reflexivity|]. intros _ [Hq Hr]. split; [exact Hq|].
  intros r b Hin Hb. apply in_app_or in Hin as [Hin|[Hin|[]]]; [exact (Hr r b Hin Hb)|].
  subst r. rewrite H0 in Hb. discriminate Hb.
Qed.

Lemma hgood_set_last_keep m f : (forall r, r_body (f r) = r_body r) -> hgood m (fun h => set_last_response h f).
Proof.
  intros Hf h. split; [reflexivity|]. intros _ [Hq Hr]. split; [exact Hq|].
  apply set_last_response_bodies; assumption.
Qed.

Lemma hgood_set_last_body m f bd : (forall r, r_body (f r) = Some bd) -> body_ok bd -> hgood m (fun h => set_last_response h f).
Proof.
  intros Hf Hbd h. split; [reflexivity|]. intros _ [Hq Hr]. split; [exact Hq|].
  eapply set_last_response_new_body; eassumption.
Qed.

Lemma and3_true a b c : a && b && c = true -> a = true /\ b = true /\ c = true.
Proof. intro H. apply andb_true_iff in H as [H H3]. apply andb_true_iff in H as [H1 H2]. auto. Qed.

Lemma schema_of_body d : (match d_body d with Some _ => true | None => false end) = true ->
  schema_of d <> SNone /\ forall t, schema_of d <> STypeRef t.
Proof. unfold schema_of. destruct (d_body d); [|discriminate]. intros _. split; [|intro]; discriminate. Qed.

Lemma norm_notation_empty sn n :
  negb (beq sn []) && true = false -> norm_notation sn = Some n -> n = bs "jsight".
Proof.
  rewrite andb_true_r. intro H. apply negb_false_iff in H. apply beq_eq in H. subst sn.
  vm_compute. intro H; inversion H; reflexivity.
Qed.

Lemma rpc_id_proto d anc i : rpc_id d anc = IdOk i -> i_proto i = PRpc /\ path_of d anc = PathOk (i_path i).
Proof.
  unfold rpc_id. destruct (path_of d anc); try discriminate.
  destruct (rpc_method_of d anc); [|discriminate]. intro H; inversion H; split; reflexivity.
Qed.

Lemma http_id_proto d anc i : http_id d anc = IdOk i -> i_proto i = PHttp /\ path_of d anc = PathOk (i_path i).
Proof.
  unfold http_id. destruct (path_of d anc); try discriminate.
  destruct (http_method_of d anc); [|discriminate]. intro H; inversion H; split; reflexivity.
Qed.

Section Effect.
  Variable body_text : coords -> bytes.
  Variable banned : list kind.

  Lemma check_path_cat d b p b1 : check_path d b p = COk b1 -> b_cat b1 = b_cat b.
  Proof.
    unfold check_path, kerr. intro H. walk H. inversion H; reflexivity.
  Qed.

  Lemma add_request_effect t d anc b b' :
    add_request d anc b = COk b' -> cat_step t anc (b_cat b) (b_cat b').
  Proof.
    unfold add_request, kerr, get_http. intro H. cbv beta zeta in H.
    walk H.
    all: inversion H; subst b'; clear H; rewrite b_cat_with_cat.
    all: try (destruct (kind_eqb (d_kind d) KRequest); [apply cs_http1; apply hgood_new_request | apply cs_refl]).
    all: pose proof (norm_notation_in _ _ Heqo) as Hn.
    all: match goal with
         | |- cat_step _ _ _ (upd_http _ _ (fun h => {| hi_annot := _; hi_desc := _; hi_tags := _; hi_query := _;
                 hi_request := Some {| q_body := Some ?bd; q_headers := _; q_dir := _ |}; hi_responses := _; hi_pathvars := _ |})) =>
           assert (Hbd : body_ok bd);
             [ apply body_ok_mk; [exact Hn | |]
             | destruct (kind_eqb (d_kind d) KRequest);
               [ apply cs_http2; [apply hgood_new_request | apply hgood_request_body; exact Hbd]
               | apply cs_http1; apply hgood_request_body; exact Hbd ] ]
         end.
    - intro E; discriminate E.
    - intros tt _. match goal with H : _ && _ && _ = true |- _ => apply and3_true in H as [Ha _] end.
      apply beq_eq; exact Ha.
    - match goal with H : _ && _ && _ = true |- _ => apply and3_true in H as [_ [_ Hc]] end.
      apply schema_of_body in Hc as [Hc _]. intro E; contradiction.
    - match goal with H : _ && _ && _ = true |- _ => apply and3_true in H as [_ [_ Hc]] end.
      apply schema_of_body in Hc as [_ Hc]. intros tt E. exfalso; exact (Hc tt E).
    - match goal with H : _ && _ && _ = true |- _ => apply and3_true in H as [_ [_ Hc]] end.
      apply schema_of_body in Hc as [Hc _]. intro E; contradiction.
    - match goal with H : _ && _ && _ = true |- _ => apply and3_true in H as [_ [_ Hc]] end.
      apply schema_of_body in Hc as [_ Hc]. intros tt E. exfalso; exact (Hc tt E).
    - intros _. match goal with H : is_any_or_empty _ && _ = true |- _ => apply andb_true_iff in H as [Ha _] end.
      exact Ha.
    - intros tt E; discriminate E.
  Qed.

  Lemma add_response_effect t d anc b b' :
    add_response d anc b = COk b' -> cat_step t anc (b_cat b) (b_cat b').
  Proof.
    unfold add_response, kerr, get_http. intro H. cbv beta zeta in H. unfold cbind in H.
    walk H.
    all: inversion H; subst b'; clear H; rewrite b_cat_with_cat.
    all: try apply cs_refl.
    all: try (apply cs_http1; apply hgood_new_response; reflexivity).
    all: pose proof (norm_notation_in _ _ Heqo) as Hn.
    all: match goal with
         | |- cat_step _ _ _ (upd_http _ _ (fun h => set_last_response h (fun r => {| r_code := _; r_annot := _;
                 r_body := Some ?bd; r_headers := _; r_dir := _ |}))) =>
           assert (Hbd : body_ok bd);
             [ apply body_ok_mk; [exact Hn | |]
             | first [ apply cs_http2; [apply hgood_new_response; reflexivity
                                       | apply (hgood_set_last_body _ _ bd); [intro; reflexivity | exact Hbd]]
                     | apply cs_http1; apply (hgood_set_last_body _ _ bd); [intro; reflexivity | exact Hbd] ] ]
         end.
    all: try (intro E; discriminate E).
    all: try (intros tt E; discriminate E).
    all: try (intros tt _; eapply norm_notation_empty; eassumption).
    all: try (match goal with H : match d_body _ with Some _ => true | None => false end = true |- _ =>
                apply schema_of_body in H as [Hc1 Hc2] end;
              first [ intro E; contradiction | intros tt E; exfalso; exact (Hc2 tt E) ]).
    all: try (intros _; assumption).
    all: unfold schema_of; match goal with H : d_body _ = Some _ |- _ => rewrite H end;
      first [intro E; discriminate E | intros tt E; discriminate E].
  Qed.

  Lemma add_directive_effect t anc b b' :
    add_directive body_text banned t anc b = COk b' -> cat_step t anc (b_cat b) (b_cat b').
  Proof.
    unfold add_directive, kerr, berr, get_http, get_rpc. intro H. cbv beta zeta in H. unfold cbind in H.
    walk H.
    all: try (eapply add_request_effect; eassumption).
    all: try (eapply add_response_effect; eassumption).
    all: try (inversion H; subst b'; clear H; try rewrite b_cat_with_cat; try apply cs_refl).
    all: try (apply cs_same; reflexivity).
    all: try (apply cs_http1; intro h0; simpl; split; [reflexivity | intros _ Hb; exact Hb]).
    all: try (apply cs_rpc1; intro h0; reflexivity).
    all: try (apply cs_http1; apply hgood_set_last_keep; intro; reflexivity).
    - (* Description under TAG *)
      apply CS_plain; simpl; auto. right. eexists; eexists. split; [|reflexivity]. intro; simpl; auto.
    - (* SERVER *)
      apply CS_plain; simpl; auto. right; left. eexists; eexists. split; [|reflexivity].
      apply (om_has_false beq beq_eq). assumption.
    - (* BaseUrl *)
      apply CS_plain; simpl; auto. right; right. eexists; eexists; reflexivity.
    - (* TYPE *)
      apply CS_plain; simpl; auto. right. eexists; eexists. split; [|reflexivity].
      apply (om_has_false beq beq_eq). assumption.
    - (* URL, no children *)
      simpl. rewrite (check_path_cat _ _ _ _ Heqc). apply cs_refl.
    - (* URL *)
      simpl. rewrite (check_path_cat _ _ _ _ Heqc). apply cs_refl.
    - (* GET / POST / ... *)
      rewrite (check_path_cat _ _ _ _ Heqc) in *. destruct a0 as [ns tg].
      match goal with |- cat_step _ _ _ (upd_inters _ (_ ++ [(?ii, ?xx)])) =>
        eapply CS_method with (i := ii) (x := xx) (ns := ns) (tg := tg) end;
        [ | | exact Heqc0 | reflexivity | reflexivity | | reflexivity | reflexivity | reflexivity | reflexivity | reflexivity ].
      + unfold made_by. simpl. repeat split; assumption.
      + apply (om_has_false iid_eqb iid_eqb_eq). exact Heqb11.
      + simpl. split; [intros rq b0 E; discriminate E | intros r b0 []].
    - (* Headers under Request *)
      apply cs_http1. intro h0. simpl. split; [reflexivity|]. intros Hall [_ Hr]. split; [|exact Hr].
      intros rq b0 E1 E2. inversion E1; subst rq; clear E1. simpl in E2.
      apply (om_get_some iid_eqb iid_eqb_eq) in Heqo0. apply Hall in Heqo0. simpl in Heqo0.
      destruct Heqo0 as [Hq _]. exact (Hq r b0 Heqo1 E2).
    - (* Method *)
      destruct a as [ns tg]. destruct (rpc_id_proto _ _ _ Heqi) as [Hp _].
      match goal with |- cat_step _ _ _ (upd_inters _ (_ ++ [(?ii, ?xx)])) =>
        eapply CS_method with (i := ii) (x := xx) (ns := ns) (tg := tg) end;
        [ | | exact Heqc | | reflexivity | exact I | reflexivity | reflexivity | reflexivity | reflexivity | reflexivity ].
      + unfold made_by. rewrite Hp. split; [apply kind_eqb_eq; exact Heqb17 | exact Heqi].
      + apply (om_has_false iid_eqb iid_eqb_eq). exact Heqb20.
      + simpl. symmetry; exact Hp.
  Qed.
End Effect.

(* ------------------------------------------------------------------------------------- *)
(* the invariant of the catalog under construction                                         *)

Definition declared_tag (ts : list dtree) (n : bytes) (tg : tag) : Prop :=
  exists t, In t ts /\ d_kind (tree_dir t) = KTAG /\ n = named (tree_dir t) (bs "TagName") /\
            t_title tg = (if beq (d_annot (tree_dir t)) [] then n else d_annot (tree_dir t)).

Definition automatic_tag (c : catalog) (n : bytes) (tg : tag) : Prop :=
  exists i, In i (map fst (c_inters c)) /\ n = auto_tag_name (i_path i) /\ t_title tg = pathTagTitle (i_path i).

(* the names of the Tags directive that decides for (t, anc) are keys of declared (non-automatic) tags *)
Definition explicit_declared (tags : list (bytes * tag)) (t : dtree) (anc : list dtree) (ns : list bytes) : Prop :=
  forall td, used_tags_directive t anc = Some td ->
  forall n, In n ns -> exists tg, In (n, tg) tags /\ t_auto tg = false.

Record cat_inv (ts : list dtree) (c : catalog) : Prop := {
  ci_servers : NoDup (map fst (c_servers c));
  ci_types : NoDup (map fst (c_types c));
  ci_enums : NoDup (map fst (c_enums c));
  ci_tags : NoDup (map fst (c_tags c));
  ci_inters : NoDup (map fst (c_inters c));
  ci_src : forall i x, In (i, x) (c_inters c) ->
      iproto x = i_proto i /\
      exists t anc, occurs ts t anc /\ made_by t anc i /\ itags x = tag_spec t anc i /\ itags x <> [] /\
                   explicit_declared (c_tags c) t anc (itags x);
  ci_t1 : forall i x n, In (i, x) (c_inters c) -> In n (itags x) ->
      exists tg, In (n, tg) (c_tags c) /\ In i (tl (i_proto i) tg);
  ci_t2 : forall n tg p j, In (n, tg) (c_tags c) -> In j (tl p tg) ->
      i_proto j = p /\ exists x, In (j, x) (c_inters c) /\ In n (itags x);
  ci_bodies : all_bodies_ok (c_inters c);
  ci_titles : forall n tg, In (n, tg) (c_tags c) ->
      (t_auto tg = false /\ declared_tag ts n tg) \/ (t_auto tg = true /\ automatic_tag c n tg)
}.

Definition inters_sim (m m' : list (iid * interaction)) : Prop :=
  map fst m' = map fst m /\
  (forall i x', In (i, x') m' ->
     exists x, In (i, x) m /\ iproto x' = iproto x /\ itags x' = itags x /\ (all_bodies_ok m -> bodies_ok x')) /\
  (forall i x, In (i, x) m -> exists x', In (i, x') m' /\ itags x' = itags x).

Definition tags_sim (m m' : list (bytes * tag)) : Prop :=
  map fst m' = map fst m /\
  (forall n t', In (n, t') m' ->
     exists t, In (n, t) m /\ t_title t' = t_title t /\ t_http t' = t_http t /\ t_rpc t' = t_rpc t /\ t_auto t' = t_auto t) /\
  (forall n t, In (n, t) m ->
     exists t', In (n, t') m' /\ t_title t' = t_title t /\ t_http t' = t_http t /\ t_rpc t' = t_rpc t /\ t_auto t' = t_auto t).

Lemma inters_sim_refl m : inters_sim m m.
Proof.
  split; [reflexivity|]. split.
  - intros i x H. exists x. repeat split; auto. intro Hall. exact (Hall _ _ H).
  - intros i x H. exists x. split; [exact H | reflexivity].
Qed.

Lemma inters_sim_update m i g : good m g -> inters_sim m (om_update iid_eqb m i g).
Proof.
  intro Hg. split; [apply om_update_keys|]. split.
  - intros j x' H. apply om_update_in in H as [x [H1 H2]]. exists x. split; [exact H1|].
    destruct (iid_eqb j i); subst x'.
    + destruct (Hg x) as [A [B C]]. repeat split; auto. intro Hall. apply C; [exact Hall | exact (Hall _ _ H1)].
    + repeat split; auto. intro Hall. exact (Hall _ _ H1).
  - intros j x H. exists (if iid_eqb j i then g x else x). split.
    + apply om_update_in. exists x. split; [exact H | reflexivity].
    + destruct (iid_eqb j i); [|reflexivity]. destruct (Hg x) as [_ [B _]]. exact B.
Qed.

Lemma tags_sim_refl m : tags_sim m m.
Proof.
  split; [reflexivity|]. split; intros n t H; exists t; repeat split; auto.
Qed.

Lemma tags_sim_update m k f :
  (forall t, t_title (f t) = t_title t /\ t_http (f t) = t_http t /\ t_rpc (f t) = t_rpc t /\ t_auto (f t) = t_auto t) ->
  tags_sim m (om_update beq m k f).
Proof.
  intro Hf. split; [apply om_update_keys|]. split.
  - intros n t' H. apply om_update_in in H as [t [H1 H2]]. exists t. split; [exact H1|].
    destruct (beq n k); subst t'; [apply Hf | repeat split; reflexivity].
  - intros n t H. exists (if beq n k then f t else t). split.
    + apply om_update_in. exists t. split; [exact H | reflexivity].
    + destruct (beq n k); [apply Hf | repeat split; reflexivity].
Qed.

Lemma tl_same p t t' : t_http t' = t_http t -> t_rpc t' = t_rpc t -> tl p t' = tl p t.
Proof. intros H1 H2. destruct p; simpl; assumption. Qed.

Lemma cat_inv_sim ts c c' :
  cat_inv ts c ->
  NoDup (map fst (c_servers c')) -> NoDup (map fst (c_types c')) -> c_enums c' = c_enums c ->
  tags_sim (c_tags c) (c_tags c') -> inters_sim (c_inters c) (c_inters c') ->
  cat_inv ts c'.
Proof.
  intros I Hs Ht He [Tk [Tb Tf]] [Ik [Ib If]].
  constructor.
  - exact Hs.
  - exact Ht.
  - rewrite He. apply (ci_enums _ _ I).
  - rewrite Tk. apply (ci_tags _ _ I).
  - rewrite Ik. apply (ci_inters _ _ I).
  - intros i x' H. destruct (Ib i x' H) as [x [H1 [H2 [H3 _]]]].
    destruct (ci_src _ _ I i x H1) as [A [t [anc [B [C [D [E F]]]]]]].
    split; [congruence|]. exists t, anc. split; [exact B|]. split; [exact C|]. split; [congruence|]. split; [congruence|].
    intros td Hu n Hn. rewrite H3 in Hn. destruct (F td Hu n Hn) as [tg [G1 G2]].
    destruct (Tf n tg G1) as [tg' [G3 [_ [_ [_ G4]]]]]. exists tg'. split; [exact G3 | congruence].
  - intros i x' n H Hn. destruct (Ib i x' H) as [x [H1 [_ [H3 _]]]]. rewrite H3 in Hn.
    destruct (ci_t1 _ _ I i x n H1 Hn) as [tg [G1 G2]].
    destruct (Tf n tg G1) as [tg' [G3 [_ [G4 [G5 _]]]]].
    exists tg'. split; [exact G3|]. rewrite (tl_same _ _ _ G4 G5). exact G2.
  - intros n tg' p j H Hj. destruct (Tb n tg' H) as [tg [G1 [_ [G2 [G3 _]]]]].
    rewrite (tl_same _ _ _ G2 G3) in Hj.
    destruct (ci_t2 _ _ I n tg p j G1 Hj) as [A [x [B C]]].
    split; [exact A|]. destruct (If j x B) as [x' [D E]]. exists x'. split; [exact D|]. rewrite E; exact C.
  - intros j y H. destruct (Ib j y H) as [x [_ [_ [_ Hb]]]]. apply Hb. apply (ci_bodies _ _ I).
  - intros n tg' H. destruct (Tb n tg' H) as [tg [G1 [G2 [_ [_ G3]]]]].
    destruct (ci_titles _ _ I n tg G1) as [[Au [t [A [B [C D]]]]]|[Au [i [A [B C]]]]].
    + left. split; [congruence|]. exists t. repeat split; auto. congruence.
    + right. split; [congruence|]. exists i. rewrite Ik. repeat split; auto. congruence.
Qed.

Lemma cat_inv_method ts c c' t anc i x ns tg :
  cat_inv ts c -> occurs ts t anc ->
  made_by t anc i -> ~ In i (map fst (c_inters c)) ->
  tags_for t anc i (c_tags c) = COk (ns, tg) ->
  iproto x = i_proto i -> itags x = ns -> bodies_ok x ->
  c_enums c' = c_enums c -> c_servers c' = c_servers c -> c_types c' = c_types c ->
  c_inters c' = c_inters c ++ [(i, x)] -> c_tags c' = tg ->
  cat_inv ts c'.
Proof.
  intros I Hocc Hmade Hfresh Htags Hproto Hit Hbod He Hs Hty Hin Htg.
  apply tags_for_spec in Htags as [Hspec [Hne [R Hdecl]]].
  assert (Hkeys : In i (map fst (c_inters c'))).
  { rewrite Hin, map_app. apply in_or_app; right; left; reflexivity. }
  constructor.
  - rewrite Hs. apply (ci_servers _ _ I).
  - rewrite Hty. apply (ci_types _ _ I).
  - rewrite He. apply (ci_enums _ _ I).
  - rewrite Htg. destruct (tr_keys _ _ _ _ R) as [K|[K1 K2]].
    + rewrite K. apply (ci_tags _ _ I).
    + rewrite K2. apply NoDup_app_snoc; [apply (ci_tags _ _ I) | exact K1].
  - rewrite Hin, map_app. simpl. apply NoDup_app_snoc; [apply (ci_inters _ _ I) | exact Hfresh].
  - intros j y H. rewrite Hin in H. apply in_app_or in H as [H|[H|[]]].
    + destruct (ci_src _ _ I j y H) as [A [t0 [anc0 [B [C [D [E F]]]]]]].
      split; [exact A|]. exists t0, anc0. repeat split; auto.
      intros td Hu n Hn. destruct (F td Hu n Hn) as [tg0 [G1 G2]].
      destruct (tr_fwd _ _ _ _ R n tg0 G1) as [tg' [G3 [_ [_ [G4 _]]]]]. exists tg'. rewrite Htg. split; [exact G3 | congruence].
    + inversion H; subst j y. split; [exact Hproto|]. exists t, anc.
      split; [exact Hocc|]. split; [exact Hmade|]. split; [congruence|]. split; [congruence|].
      intros td Hu n Hn. rewrite Hit in Hn. destruct (Hdecl td Hu n Hn) as [tg0 [G1 G2]].
      destruct (tr_fwd _ _ _ _ R n tg0 G1) as [tg' [G3 [_ [_ [G4 _]]]]]. exists tg'. rewrite Htg. split; [exact G3 | congruence].
  - intros j y n H Hn. rewrite Hin in H. rewrite Htg. apply in_app_or in H as [H|[H|[]]].
    + destruct (ci_t1 _ _ I j y n H Hn) as [tg0 [G1 G2]].
      destruct (tr_fwd _ _ _ _ R n tg0 G1) as [tg' [G3 [_ [_ [_ G4]]]]].
      exists tg'. split; [exact G3 | apply G4; exact G2].
    + inversion H; subst j y. rewrite Hit in Hn. exact (tr_names _ _ _ _ R n Hn).
  - intros n tg' p j H Hj. rewrite Htg in H.
    assert (Hnew : j = i /\ p = i_proto i /\ In n ns ->
                   i_proto j = p /\ exists y, In (j, y) (c_inters c') /\ In n (itags y)).
    { intros [A [B C]]. subst j p. split; [reflexivity|]. exists x. split.
      - rewrite Hin. apply in_or_app; right; left; reflexivity.
      - rewrite Hit; exact C. }
    destruct (tr_back _ _ _ _ R n tg' H) as [[tg0 [G1 [_ [_ [_ G2]]]]]|[_ [_ [_ [_ G2]]]]].
    + destruct (G2 p j Hj) as [G|G]; [|exact (Hnew G)].
      destruct (ci_t2 _ _ I n tg0 p j G1 G) as [A [y [B C]]].
      split; [exact A|]. exists y. split; [|exact C]. rewrite Hin. apply in_or_app; left; exact B.
    + exact (Hnew (G2 p j Hj)).
  - intros j y H. rewrite Hin in H. apply in_app_or in H as [H|[H|[]]].
    + exact (ci_bodies _ _ I j y H).
    + inversion H; subst; exact Hbod.
  - intros n tg' H. rewrite Htg in H.
    destruct (tr_back _ _ _ _ R n tg' H) as [[tg0 [G1 [G2 [_ [G3 _]]]]]|[G1 [G2 [_ [G3 _]]]]].
    + destruct (ci_titles _ _ I n tg0 G1) as [[Au [t0 [A [B [C D]]]]]|[Au [i0 [A [B C]]]]].
      * left. split; [congruence|]. exists t0. repeat split; auto. congruence.
      * right. split; [congruence|]. exists i0. split; [|split; [exact B | congruence]].
        rewrite Hin, map_app. apply in_or_app; left; exact A.
    + right. split; [exact G3|]. exists i. repeat split; auto.
Qed.

Lemma cat_inv_step ts t anc c c' :
  occurs ts t anc -> cat_inv ts c -> cat_step t anc c c' -> cat_inv ts c'.
Proof.
  intros Hocc I S. destruct S as [He Hs Ht Htg Hin | i x ns tg].
  - apply (cat_inv_sim ts c c' I).
    + destruct Hs as [Hs|[[n [s [Hn Hs]]]|[n [f Hs]]]]; rewrite Hs.
      * apply (ci_servers _ _ I).
      * rewrite map_app. apply NoDup_app_snoc; [apply (ci_servers _ _ I) | exact Hn].
      * rewrite om_update_keys. apply (ci_servers _ _ I).
    + destruct Ht as [Ht|[n [u [Hn Ht]]]]; rewrite Ht.
      * apply (ci_types _ _ I).
      * rewrite map_app. apply NoDup_app_snoc; [apply (ci_types _ _ I) | exact Hn].
    + exact He.
    + destruct Htg as [Htg|[n [f [Hf Htg]]]]; rewrite Htg; [apply tags_sim_refl | apply tags_sim_update; exact Hf].
    + destruct Hin as [Hin|[i [g [Hg Hin]]]]; rewrite Hin; [apply inters_sim_refl | apply inters_sim_update; exact Hg].
  - eapply cat_inv_method; eassumption.
Qed.

(* ------------------------------------------------------------------------------------- *)
(* the collections the fold starts from; the stages after the fold                         *)

Lemma collect_tags_spec : forall sub tags tg, collect_tags sub tags = COk tg ->
  (NoDup (map fst tags) -> NoDup (map fst tg)) /\
  (forall n t, In (n, t) tg ->
     In (n, t) tags \/
     (t_http t = [] /\ t_rpc t = [] /\ t_desc t = None /\ t_auto t = false /\
      exists tr, In tr sub /\ d_kind (tree_dir tr) = KTAG /\ n = named (tree_dir tr) (bs "TagName") /\
                 t_title t = (if beq (d_annot (tree_dir tr)) [] then n else d_annot (tree_dir tr)))).
Proof.
  induction sub as [|tr r IH]; intros tags tg H; cbn [collect_tags] in H; unfold kerr in H.
  - inversion H; subst. split; auto.
  - destruct (kind_eqb (d_kind (tree_dir tr)) KTAG) eqn:Ek.
    + destruct (beq (named (tree_dir tr) (bs "TagName")) []); [discriminate H|].
      destruct (om_has beq tags (named (tree_dir tr) (bs "TagName"))) eqn:Eh; [discriminate H|].
      apply IH in H as [H1 H2]. split.
      * intro Hnd. apply H1. rewrite map_app. apply NoDup_app_snoc; [exact Hnd|].
        apply (om_has_false beq beq_eq). exact Eh.
      * intros n t Hin. destruct (H2 n t Hin) as [Hin'|[A [B [C [Au [tr' [D E]]]]]]].
        -- apply in_app_or in Hin' as [Hin'|[Hin'|[]]]; [left; exact Hin'|].
           right. inversion Hin'; subst n t; simpl. repeat split; auto.
           exists tr. split; [left; reflexivity|]. split; [apply kind_eqb_eq; exact Ek|]. split; reflexivity.
        -- right. repeat split; auto. exists tr'. split; [right; exact D | exact E].
    + apply IH in H as [H1 H2]. split; [exact H1|].
      intros n t Hin. destruct (H2 n t Hin) as [Hin'|[A [B [C [Au [tr' [D E]]]]]]]; [left; exact Hin'|].
      right. repeat split; auto. exists tr'. split; [right; exact D | exact E].
Qed.

Lemma collect_enums_nodup : forall sub enums en, collect_enums sub enums = COk en ->
  NoDup (map fst enums) -> NoDup (map fst en).
Proof.
  induction sub as [|tr r IH]; intros enums en H Hnd; cbn [collect_enums] in H; unfold kerr in H.
  - inversion H; subst; exact Hnd.
  - destruct (kind_eqb (d_kind (tree_dir tr)) KEnum); [|exact (IH _ _ H Hnd)].
    destruct (beq (named (tree_dir tr) (bs "Name")) []); [discriminate H|].
    destruct (d_body (tree_dir tr)); [|exact (IH _ _ H Hnd)].
    destruct (om_has beq enums (named (tree_dir tr) (bs "Name"))) eqn:Eh; [discriminate H|].
    apply (IH _ _ H). rewrite map_app. apply NoDup_app_snoc; [exact Hnd|].
    apply (om_has_false beq beq_eq). exact Eh.
Qed.

Lemma first_bad_request_none l : first_bad_request l = None ->
  forall i h rq, In (i, IHttp h) l -> hi_request h = Some rq -> exists b, q_body rq = Some b.
Proof.
  induction l as [|[j y] l IH]; intros H i h rq Hin Hrq; [destruct Hin|].
  simpl in H. destruct Hin as [Hin|Hin].
  - inversion Hin; subst j y. rewrite Hrq in H. destruct (q_body rq) as [b|]; [exists b; reflexivity | discriminate H].
  - destruct y as [h0|r0]; [|exact (IH H i h rq Hin Hrq)].
    destruct (hi_request h0) as [rq0|]; [|exact (IH H i h rq Hin Hrq)].
    destruct (q_body rq0); [exact (IH H i h rq Hin Hrq) | discriminate H].
Qed.

Lemma first_bad_response_none l : first_bad_response l = None ->
  forall i h r, In (i, IHttp h) l -> In r (hi_responses h) -> exists b, r_body r = Some b.
Proof.
  induction l as [|[j y] l IH]; intros H i h r Hin Hr; [destruct Hin|].
  simpl in H. destruct Hin as [Hin|Hin].
  - inversion Hin; subst j y.
    destruct (find (fun x => match r_body x with None => true | Some _ => false end) (hi_responses h)) eqn:E; [discriminate H|].
    pose proof (find_none _ _ E r Hr) as Hn. simpl in Hn.
    destruct (r_body r) as [b|]; [exists b; reflexivity | discriminate Hn].
  - destruct y as [h0|r0]; [|exact (IH H i h r Hin Hr)].
    destruct (find (fun x => match r_body x with None => true | Some _ => false end) (hi_responses h0)); [discriminate H|].
    exact (IH H i h r Hin Hr).
Qed.

Lemma validate_ok c0 c : validate c0 = COk c ->
  c = c0 /\ first_bad_request (c_inters c0) = None /\ first_bad_response (c_inters c0) = None.
Proof.
  unfold validate, kerr, cbind. intro H.
  assert (H' : match first_bad_request (c_inters c0) with
               | Some d => CErr (kw_err d (msg "undefined request body"))
               | None => match first_bad_response (c_inters c0) with
                         | Some d => CErr (kw_err d (msg "undefined response body"))
                         | None => COk c0
                         end
               end = COk c).
  { destruct (c_info c0) as [i|]; [|exact H].
    destruct (beq (in_title i) [] && beq (in_version i) [] && match in_desc i with None => true | Some _ => false end);
      [discriminate H | exact H]. }
  clear H. destruct (first_bad_request (c_inters c0)); [discriminate H'|].
  destruct (first_bad_response (c_inters c0)); [discriminate H'|].
  inversion H'; auto.
Qed.

Lemma set_pathvars_sim c all : inters_sim (c_inters c) (c_inters (set_pathvars c all)).
Proof.
  unfold set_pathvars. simpl.
  set (F := fun e : iid * interaction => match snd e with
      | IHttp h => (fst e, IHttp {| hi_annot := hi_annot h; hi_desc := hi_desc h; hi_tags := hi_tags h; hi_query := hi_query h;
                                    hi_request := hi_request h; hi_responses := hi_responses h;
                                    hi_pathvars := path_vars_of all (i_path (fst e)) |})
      | x => (fst e, x) end).
  assert (HF : forall e, fst (F e) = fst e /\ iproto (snd (F e)) = iproto (snd e) /\ itags (snd (F e)) = itags (snd e) /\
                         (bodies_ok (snd e) -> bodies_ok (snd (F e)))).
  { intros [j [h|r]]; unfold F; simpl; (split; [reflexivity|]); (split; [reflexivity|]); (split; [reflexivity|]); intro Hb; exact Hb. }
  split; [|split].
  - rewrite map_map. apply map_ext. intro e. apply HF.
  - intros i x' H. apply in_map_iff in H as [[j y] [H1 H2]].
    destruct (HF (j, y)) as [A [B [C D]]]. rewrite H1 in A, B, C, D. simpl in *. subst j.
    exists y. repeat split; auto. intro Hall. apply D. exact (Hall _ _ H2).
  - intros i x H. exists (snd (F (i, x))). destruct (HF (i, x)) as [A [B [C D]]]. simpl in *. split; [|exact C].
    apply in_map_iff. exists (i, x). split; [|exact H]. destruct (F (i, x)); simpl in *; subst; reflexivity.
Qed.

Section BuildInv.
  Variable path_props : coords -> option (list bytes).
  Variable body_text : coords -> bytes.
  Variable banned : list kind.

  Definition init_cat (en : list (bytes * bytes)) (tg : list (bytes * tag)) : catalog :=
    upd_tags (upd_enums empty_catalog en) tg.

  Lemma build_stages post c :
    build path_props body_text banned post = COk c ->
    exists en tg, collect_enums post [] = COk en /\ collect_tags post [] = COk tg /\
      ((post = [] /\ validate (init_cat en tg) = COk c) \/
       (exists b all, add_all body_text banned post
                        {| b_cat := init_cat en tg; b_urls := []; b_similar := []; b_protocols := [] |} = COk b /\
                      validate (set_pathvars (b_cat b) all) = COk c)).
  Proof.
    unfold build, cbind, kerr. intro H.
    destruct (collect_enums post []) as [en| | |]; try discriminate H.
    destruct (collect_tags post []) as [tg| | |]; try discriminate H.
    destruct (check_dup_types post []) as [u| | |]; try discriminate H.
    destruct (collect_paths_all path_props post []) as [pvs| | |]; try discriminate H.
    exists en, tg. split; [reflexivity|]. split; [reflexivity|].
    destruct post as [|first rest].
    - left. split; [reflexivity|]. destruct (bind_all pvs []); try discriminate H. exact H.
    - right. destruct (negb (kind_eqb (d_kind (tree_dir first)) KJsight)); [discriminate H|].
      destruct (add_all body_text banned (first :: rest) _) as [b| | |] eqn:E; try discriminate H.
      destruct (bind_all pvs []) as [all| | |]; try discriminate H.
      exists b, all. split; [reflexivity | exact H].
  Qed.

  Lemma init_cat_inv ts en tg :
    collect_enums ts [] = COk en -> collect_tags ts [] = COk tg ->
    cat_inv ts (init_cat en tg).
  Proof.
    intros He Ht. apply collect_tags_spec in Ht as [T1 T2].
    constructor; simpl.
    - constructor.
    - constructor.
    - eapply collect_enums_nodup; [eassumption | constructor].
    - apply T1. constructor.
    - constructor.
    - intros i x [].
    - intros i x n [].
    - intros n t p j Hin Hj. destruct (T2 n t Hin) as [[]|[A [B _]]].
      destruct p; simpl in Hj; [rewrite A in Hj | rewrite B in Hj]; destruct Hj.
    - intros j y [].
    - intros n t Hin. destruct (T2 n t Hin) as [[]|[_ [_ [_ [Au [tr [A [B [C D]]]]]]]]].
      left. split; [exact Au|]. exists tr. repeat split; auto.
  Qed.

  Definition init_state (en : list (bytes * bytes)) (tg : list (bytes * tag)) : bstate :=
    {| b_cat := init_cat en tg; b_urls := []; b_similar := []; b_protocols := [] |}.

  Lemma step_inv post t anc s s' :
    occurs post t anc -> cat_inv post (b_cat s) -> add_directive body_text banned t anc s = COk s' ->
    cat_inv post (b_cat s').
  Proof.
    intros Hocc Is Hstep. apply add_directive_effect in Hstep. eapply cat_inv_step; eassumption.
  Qed.

  (* the catalog of an accepted project satisfies the invariant, and every request / response has a body *)
  Theorem build_inv post c :
    build path_props body_text banned post = COk c ->
    cat_inv post c /\
    (forall i h rq, In (i, IHttp h) (c_inters c) -> hi_request h = Some rq -> exists b, q_body rq = Some b) /\
    (forall i h r, In (i, IHttp h) (c_inters c) -> In r (hi_responses h) -> exists b, r_body r = Some b).
  Proof.
    intros H. apply build_stages in H as [en [tg [He [Ht Hcase]]]].
    assert (Hfin : forall c0, cat_inv post c0 -> validate c0 = COk c ->
              cat_inv post c /\
              (forall i h rq, In (i, IHttp h) (c_inters c) -> hi_request h = Some rq -> exists b, q_body rq = Some b) /\
              (forall i h r, In (i, IHttp h) (c_inters c) -> In r (hi_responses h) -> exists b, r_body r = Some b)).
    { intros c0 I V. apply validate_ok in V as [-> [V1 V2]]. split; [exact I|]. split.
      - apply first_bad_request_none; exact V1.
      - apply first_bad_response_none; exact V2. }
    pose proof (init_cat_inv post en tg He Ht) as I0.
    destruct Hcase as [[_ V]|[b [all [Hadd V]]]].
    - exact (Hfin _ I0 V).
    - apply (Hfin (set_pathvars (b_cat b) all)); [|exact V].
      assert (Ib : cat_inv post (b_cat b)).
      { apply (add_all_inv body_text banned post (fun s => cat_inv post (b_cat s))) with (2 := I0) (3 := Hadd).
        intros t anc s s' Hocc Is Hstep. eapply step_inv; eassumption. }
      apply (cat_inv_sim post (b_cat b)); try exact Ib.
      + apply (ci_servers _ _ Ib).
      + apply (ci_types _ _ Ib).
      + reflexivity.
      + apply tags_sim_refl.
      + apply set_pathvars_sim.
  Qed.

  (* every node of the forest of an accepted project was given to add_directive, successfully, in a
     state that satisfies the invariant *)
  Theorem build_visits post c t anc :
    build path_props body_text banned post = COk c -> occurs post t anc ->
    exists s s', cat_inv post (b_cat s) /\ add_directive body_text banned t anc s = COk s'.
  Proof.
    intros H Hocc. apply build_stages in H as [en [tg [He [Ht Hcase]]]].
    pose proof (init_cat_inv post en tg He Ht) as I0.
    destruct Hcase as [[Hnil _]|[b [all [Hadd _]]]].
    - subst post. exfalso. clear -Hocc. induction Hocc as [t []|p anc t _ IH _]; exact IH.
    - apply (add_all_visits body_text banned post (fun s => cat_inv post (b_cat s))) with (b := init_state en tg) (b' := b);
        [|exact I0|exact Hadd|exact Hocc].
      intros t0 anc0 s s' Hocc0 Is Hstep. eapply step_inv; eassumption.
  Qed.
End BuildInv.

(* ------------------------------------------------------------------------------------- *)
(* the statements of C09 / C19 (props/C09.v, props/C19.v close them by `exact`)             *)

Lemma NoDup_map_inj_in {A B} (f : A -> B) (l : list A) :
  (forall a b, In a l -> In b l -> f a = f b -> a = b) -> NoDup l -> NoDup (map f l).
Proof.
  induction l as [|a l IH]; intros Hinj Hnd; simpl; [constructor|].
  inversion Hnd; subst. constructor.
  - intro H. apply in_map_iff in H as [b [Hb1 Hb2]].
    assert (b = a) by (apply Hinj; [right; exact Hb2 | left; reflexivity | exact Hb1]).
    subst b. contradiction.
  - apply IH; [|assumption]. intros x y Hx Hy. apply Hinj; right; assumption.
Qed.

Lemma path_of_slash d anc p : path_of d anc = PathOk p -> has_slash_prefix p = true.
Proof.
  unfold path_of. destruct (path_raw d anc) as [q|]; [|discriminate].
  destruct (has_slash_prefix q) eqn:E; [|discriminate]. intro H; inversion H; subst; exact E.
Qed.

Lemma made_by_facts t anc i : made_by t anc i ->
  has_slash_prefix (i_path i) = true /\ (i_proto i = PHttp -> http_method_name (i_method i)).
Proof.
  unfold made_by. destruct (i_proto i).
  - intros [A [B C]]. split; [eapply path_of_slash; exact B|]. intros _. rewrite C. apply is_http_method_name; exact A.
  - intros [A B]. apply rpc_id_proto in B as [_ B]. split; [eapply path_of_slash; exact B | discriminate].
Qed.

(* kit.JApi.Title() *)
Definition japi_title (c : catalog) : bytes :=
  match c_info c with Some i => in_title i | None => [] end.

Definition tag_spec_cases_statement : Prop := forall me anc i,
  (forall td, child_of_kind KTags (tree_kids me) = Some td -> tag_spec me anc i = d_unnamed td) /\
  (forall a rest td, child_of_kind KTags (tree_kids me) = None -> anc = a :: rest ->
     d_kind (tree_dir a) = KURL -> child_of_kind KTags (tree_kids a) = Some td ->
     tag_spec me anc i = d_unnamed td) /\
  (child_of_kind KTags (tree_kids me) = None ->
   (anc = [] \/ (exists a rest, anc = a :: rest /\
                 (d_kind (tree_dir a) <> KURL \/ child_of_kind KTags (tree_kids a) = None))) ->
   tag_spec me anc i = [auto_tag_name (i_path i)]).

Lemma tag_spec_cases : tag_spec_cases_statement.
Proof.
  intros me anc i. unfold tag_spec, used_tags_directive. split; [|split].
  - intros td H. rewrite H. reflexivity.
  - intros a rest td H1 H2 H3 H4. rewrite H1, H2. apply kind_eqb_eq in H3. rewrite H3, H4. reflexivity.
  - intros H1 [H2|[a [rest [H2 H3]]]]; rewrite H1, H2; [reflexivity|].
    destruct (kind_eqb (d_kind (tree_dir a)) KURL) eqn:E; [|reflexivity].
    destruct H3 as [H3|H3]; [apply kind_eqb_eq in E; contradiction | rewrite H3; reflexivity].
Qed.

Lemma auto_tag_name_spec p : tagName (pathTagTitle p) = GOk (auto_tag_name p).
Proof.
  unfold auto_tag_name. destruct (tagName_total_lemma (pathTagTitle p)) as [n Hn]. rewrite Hn. reflexivity.
Qed.

Lemma auto_tags_shared_and_distinct_lemma p1 p2 :
  all_bytes p1 = true -> all_bytes p2 = true ->
  (auto_tag_name p1 = auto_tag_name p2 <-> pathTagTitle p1 = pathTagTitle p2).
Proof.
  intros H1 H2. split.
  - intro E. destruct (list_eq_dec N.eq_dec (pathTagTitle p1) (pathTagTitle p2)) as [Heq|Hne]; [exact Heq|].
    exfalso. exact (auto_tag_names_distinct_lemma p1 p2 _ _ H1 H2 Hne (auto_tag_name_spec p1) (auto_tag_name_spec p2) E).
  - intro E. unfold auto_tag_name. rewrite E. reflexivity.
Qed.

(* a top-level TAG directive of the forest declares the name *)
Definition declared_name (ts : list dtree) (n : bytes) : Prop :=
  exists t, In t ts /\ d_kind (tree_dir t) = KTAG /\ n = named (tree_dir t) (bs "TagName").

Lemma declared_tag_name ts n tg : declared_tag ts n tg -> declared_name ts n.
Proof. intros [t [A [B [C _]]]]. exists t. repeat split; assumption. Qed.

(* the KTags case of add_directive (core.addTags -> catalog.CheckTags) *)
Lemma add_directive_tags body_text banned t anc b :
  d_kind (tree_dir t) = KTags ->
  add_directive body_text banned t anc b =
  if kind_in KTags banned then CErr (kw_err (tree_dir t) (CENotAllowed KTags))
  else tags_from_directive (tree_dir t) None (c_tags (b_cat b)) >>=c fun _ => COk b.
Proof.
  intro Hk. unfold add_directive. cbv zeta. rewrite Hk. reflexivity.
Qed.

Section Final.
  Variable path_props : coords -> option (list bytes).
  Variable body_text : coords -> bytes.
  Variable banned : list kind.
  Variable post : list dtree.
  Variable c : catalog.
  Hypothesis Hbuild : build path_props body_text banned post = COk c.

  Let I : cat_inv post c := proj1 (build_inv path_props body_text banned post c Hbuild).

  Lemma keys_unique_lemma :
    NoDup (map fst (c_servers c)) /\ NoDup (map fst (c_types c)) /\ NoDup (map fst (c_enums c)) /\
    NoDup (map fst (c_tags c)) /\ NoDup (map fst (c_inters c)).
  Proof.
    repeat split; [apply (ci_servers _ _ I) | apply (ci_types _ _ I) | apply (ci_enums _ _ I)
                  | apply (ci_tags _ _ I) | apply (ci_inters _ _ I)].
  Qed.

  Lemma ids_consistent_lemma : forall i x, In (i, x) (c_inters c) ->
    iproto x = i_proto i /\ has_slash_prefix (i_path i) = true /\
    (i_proto i = PHttp -> http_method_name (i_method i) /\
                          iid_string i = bs "http " ++ i_method i ++ [32] ++ i_path i) /\
    (i_proto i = PRpc -> iid_string i = bs "json-rpc-2.0 " ++ i_method i ++ [32] ++ i_path i) /\
    exists t anc, occurs post t anc /\ made_by t anc i.
  Proof.
    intros i x H. destruct (ci_src _ _ I i x H) as [A [t [anc [B [C _]]]]].
    destruct (made_by_facts _ _ _ C) as [D E].
    split; [exact A|]. split; [exact D|]. split; [|split].
    - intro Hp. split; [exact (E Hp)|]. unfold iid_string. rewrite Hp. reflexivity.
    - intro Hp. unfold iid_string. rewrite Hp. reflexivity.
    - exists t, anc. split; assumption.
  Qed.

  Lemma json_keys_unique_partial_lemma :
    (forall i x, In (i, x) (c_inters c) -> i_proto i = PRpc -> ~ In 32 (i_method i)) ->
    NoDup (map (fun e => iid_string (fst e)) (c_inters c)).
  Proof.
    intro Hrpc. rewrite <- (map_map fst iid_string).
    apply NoDup_map_inj_in; [|apply (ci_inters _ _ I)].
    assert (Hns : forall i, In i (map fst (c_inters c)) -> ~ In 32 (i_method i)).
    { intros i Hi. apply in_map_fst_exists in Hi as [x Hx].
      destruct (i_proto i) eqn:Ep; [|exact (Hrpc i x Hx Ep)].
      destruct (ids_consistent_lemma i x Hx) as [_ [_ [A _]]].
      apply http_method_name_nospace. exact (proj1 (A Ep)). }
    intros a b Ha Hb. apply iid_string_injective_nospace; auto.
  Qed.

  Lemma tags_mutual_lemma :
    (forall i x n, In (i, x) (c_inters c) -> In n (itags x) ->
       exists tg, In (n, tg) (c_tags c) /\ In i (tl (i_proto i) tg)) /\
    (forall n tg p j, In (n, tg) (c_tags c) -> In j (tl p tg) ->
       i_proto j = p /\ exists x, In (j, x) (c_inters c) /\ In n (itags x)).
  Proof. split; [apply (ci_t1 _ _ I) | apply (ci_t2 _ _ I)]. Qed.

  Lemma bodies_present_lemma :
    (forall i h rq, In (i, IHttp h) (c_inters c) -> hi_request h = Some rq -> exists b, q_body rq = Some b) /\
    (forall i h r, In (i, IHttp h) (c_inters c) -> In r (hi_responses h) -> exists b, r_body r = Some b).
  Proof. exact (proj2 (build_inv path_props body_text banned post c Hbuild)). Qed.

  Lemma format_matches_notation_lemma : forall i h, In (i, IHttp h) (c_inters c) ->
    (forall rq b, hi_request h = Some rq -> q_body rq = Some b -> body_ok b) /\
    (forall r b, In r (hi_responses h) -> r_body r = Some b -> body_ok b).
  Proof. intros i h H. exact (ci_bodies _ _ I i (IHttp h) H). Qed.

  Lemma every_interaction_tagged_lemma : forall i x, In (i, x) (c_inters c) -> itags x <> [].
  Proof. intros i x H. destruct (ci_src _ _ I i x H) as [_ [t [anc [_ [_ [_ [E _]]]]]]]. exact E. Qed.

  Lemma explicit_tags_win_lemma : forall i x, In (i, x) (c_inters c) ->
    exists t anc, occurs post t anc /\ made_by t anc i /\ itags x = tag_spec t anc i.
  Proof.
    intros i x H. destruct (ci_src _ _ I i x H) as [_ [t [anc [A [B [C _]]]]]].
    exists t, anc. repeat split; assumption.
  Qed.

  (* every tag is a TAG directive's (not automatic) or the automatic tag of an interaction's path *)
  Lemma declared_title_lemma : forall n tg, In (n, tg) (c_tags c) ->
    (t_auto tg = false /\ declared_tag post n tg) \/ (t_auto tg = true /\ automatic_tag c n tg).
  Proof. apply (ci_titles _ _ I). Qed.

  (* every tag name an interaction carries is a key of the tag collection *)
  Lemma used_tags_exist_lemma : forall i x n, In (i, x) (c_inters c) -> In n (itags x) ->
    exists tg, In (n, tg) (c_tags c) /\
               ((t_auto tg = false /\ declared_tag post n tg) \/ (t_auto tg = true /\ automatic_tag c n tg)).
  Proof.
    intros i x n H Hn. destruct (ci_t1 _ _ I i x n H Hn) as [tg [A _]].
    exists tg. split; [exact A | exact (ci_titles _ _ I n tg A)].
  Qed.

  (* FULL: the tags an interaction takes from a Tags directive are all declared by TAG directives *)
  Lemma explicit_tags_declared_lemma : forall i x, In (i, x) (c_inters c) ->
    exists t anc, occurs post t anc /\ made_by t anc i /\ itags x = tag_spec t anc i /\
      forall td, used_tags_directive t anc = Some td ->
      forall n, In n (itags x) ->
        declared_name post n /\ exists tg, In (n, tg) (c_tags c) /\ t_auto tg = false /\ declared_tag post n tg.
  Proof.
    intros i x H. destruct (ci_src _ _ I i x H) as [_ [t [anc [A [B [C [_ F]]]]]]].
    exists t, anc. split; [exact A|]. split; [exact B|]. split; [exact C|].
    intros td Hu n Hn. destruct (F td Hu n Hn) as [tg [G1 G2]].
    destruct (ci_titles _ _ I n tg G1) as [[_ D]|[Au _]]; [|congruence].
    split; [exact (declared_tag_name _ _ _ D)|]. exists tg. repeat split; assumption.
  Qed.

  (* the KTags adder: EVERY Tags directive of the expanded forest - whether or not a method takes its
     tags from it - is well-formed and names declared tags only *)
  Lemma tags_directive_checked_lemma : forall t anc, occurs post t anc -> d_kind (tree_dir t) = KTags ->
    d_annot (tree_dir t) = [] /\ d_unnamed (tree_dir t) <> [] /\
    forall n, In n (d_unnamed (tree_dir t)) -> declared_name post n.
  Proof.
    intros t anc Hocc Hk.
    destruct (build_visits path_props body_text banned post c t anc Hbuild Hocc) as [s [s' [Is Hstep]]].
    rewrite (add_directive_tags _ _ _ _ _ Hk) in Hstep.
    destruct (kind_in KTags banned); [discriminate Hstep|].
    destruct (tags_from_directive (tree_dir t) None (c_tags (b_cat s))) as [r| | |] eqn:E; try discriminate Hstep.
    split; [|split].
    - rewrite tags_from_directive_unfold in E. destruct (beq (d_annot (tree_dir t)) []) eqn:Ea; [|discriminate E].
      apply beq_eq; exact Ea.
    - rewrite tags_from_directive_unfold in E. destruct (negb (beq (d_annot (tree_dir t)) [])); [discriminate E|].
      destruct (d_unnamed (tree_dir t)); [discriminate E | discriminate].
    - intros n Hn. destruct (tags_from_directive_ok _ _ _ _ E n Hn) as [tg [G1 G2]].
      destruct (ci_titles _ _ Is n tg G1) as [[_ D]|[Au _]]; [|congruence].
      exact (declared_tag_name _ _ _ D).
  Qed.
End Final.

(* contrapositive: a Tags directive naming something no TAG directive declares => not accepted *)
Lemma undeclared_tags_directive_rejected_lemma path_props body_text banned post t anc n :
  occurs post t anc -> d_kind (tree_dir t) = KTags -> In n (d_unnamed (tree_dir t)) ->
  ~ declared_name post n ->
  forall c, build path_props body_text banned post <> COk c.
Proof.
  intros Hocc Hk Hn Hnd c Hb.
  destruct (tags_directive_checked_lemma path_props body_text banned post c Hb t anc Hocc Hk) as [_ [_ H]].
  exact (Hnd (H n Hn)).
Qed.

(* under the invariant, "key of a non-automatic tag" is "declared by a TAG directive": the verdict of
   tags_for for a name that no TAG directive declares, in any state the fold can reach *)
Lemma tags_for_undeclared_inv ts c me anc i td n :
  cat_inv ts c -> used_tags_directive me anc = Some td -> d_annot td = [] ->
  In n (d_unnamed td) -> ~ declared_name ts n ->
  tags_for me anc i (c_tags c) = CErr (kw_err td (CEMsg "tag not found")).
Proof.
  intros I Hu Ha Hn Hnd. apply tags_for_undeclared with (n := n); auto.
  intros t Ht. destruct (ci_titles _ _ I n t Ht) as [[_ D]|[Au _]]; [|exact Au].
  exfalso. exact (Hnd (declared_tag_name _ _ _ D)).
Qed.

Lemma title_is_info_title_lemma c :
  japi_title c = match c_info c with Some i => in_title i | None => [] end.
Proof. reflexivity. Qed.

Lemma enum_names_unique_lemma ts en : collect_enums ts [] = COk en -> NoDup (map fst en).
Proof. intro H. eapply collect_enums_nodup; [exact H | constructor]. Qed.

(* ------------------------------------------------------------------------------------- *)
(* examples (vm_compute on the model), on the forests the scanner produces for the quoted
   documents (coordinates as printed by `run stage=expand`; the documents are EXAMPLES of
   verifsys/checks/c19.py - a blank line after JSIGHT and between top-level directives, except the
   last one - and the JSON-RPC reproducer of c09.py)                                            *)

Local Open Scope string_scope.

Definition ex_dir (k : kind) (kw : string) (pos : N) (np : list (string * string)) (up : list string) (ann : string) : directive :=
  {| d_kind := k; d_keyword := bs kw;
     d_kw := {| c_file := bs "a.jst"; c_beg := pos; c_end := pos + N.of_nat (String.length kw) - 1 |};
     d_named := map (fun e => (bs (fst e), bs (snd e))) np; d_unnamed := map bs up; d_annot := bs ann;
     d_body := None; d_explicit := false; d_trace := [] |}.

Definition ex_build (ts : list dtree) : cres catalog := build (fun _ => None) (fun _ => []) [] ts.

Definition skeleton_of (c : catalog) :=
  (map (fun e => (fst e, t_title (snd e), t_http (snd e), t_rpc (snd e), t_auto (snd e))) (c_tags c),
   map (fun e => (iid_string (fst e), fst e, itags (snd e))) (c_inters c)).

(* JSIGHT 0.3 / URL /a { Protocol json-rpc-2.0, Method "x /b" } / URL "/b /a" { Protocol json-rpc-2.0, Method x } *)
Definition ex_rpc_forest : list dtree :=
  [ DNode (ex_dir KJsight "JSIGHT" 0 [("Version", "0.3")] [] "") [];
    DNode (ex_dir KURL "URL" 11 [("Path", "/a")] [] "")
      [ DNode (ex_dir KProtocol "Protocol" 20 [("ProtocolName", "json-rpc-2.0")] [] "") [];
        DNode (ex_dir KMethod "Method" 44 [("MethodName", "x /b")] [] "") [] ];
    DNode (ex_dir KURL "URL" 58 [("Path", "/b /a")] [] "")
      [ DNode (ex_dir KProtocol "Protocol" 72 [("ProtocolName", "json-rpc-2.0")] [] "") [];
        DNode (ex_dir KMethod "Method" 96 [("MethodName", "x")] [] "") [] ] ].

Lemma rpc_json_key_repeated :
  exists c x1 x2, ex_build ex_rpc_forest = COk c /\
    c_inters c = [(rpc_id_a, x1); (rpc_id_b, x2)] /\
    map (fun e => iid_string (fst e)) (c_inters c) = [bs "json-rpc-2.0 x /b /a"; bs "json-rpc-2.0 x /b /a"].
Proof.
  eexists. eexists. eexists. split; [vm_compute; reflexivity|]. split; vm_compute; reflexivity.
Qed.

(* JSIGHT 0.3 / TAG @x // My X / GET /x { 200 any } *)
Definition ex_captured_forest : list dtree :=
  [ DNode (ex_dir KJsight "JSIGHT" 0 [("Version", "0.3")] [] "") [];
    DNode (ex_dir KTAG "TAG" 12 [("TagName", "@x")] [] "My X") [];
    DNode (ex_dir KGet "GET" 28 [("Path", "/x")] [] "")
      [ DNode (ex_dir KHTTPResponseCode "200" 37 [("SchemaNotation", "any")] [] "") [] ] ].

Definition ex_get_x : iid := {| i_proto := PHttp; i_method := bs "GET"; i_path := bs "/x" |}.
Definition ex_get_y : iid := {| i_proto := PHttp; i_method := bs "GET"; i_path := bs "/y" |}.

Lemma declared_tag_captures_automatic_lemma :
  exists c, ex_build ex_captured_forest = COk c /\
    skeleton_of c = ([(bs "@x", bs "My X", [ex_get_x], [], false)], [(bs "http GET /x", ex_get_x, [bs "@x"])]) /\
    auto_tag_name (bs "/x") = bs "@x" /\ pathTagTitle (bs "/x") = bs "/x".
Proof.
  eexists. split; [vm_compute; reflexivity|]. repeat split; vm_compute; reflexivity.
Qed.

(* JSIGHT 0.3 / GET /x { 200 any } / GET /y { Tags @x, 200 any }: no TAG directive anywhere *)
Definition ex_undeclared_forest : list dtree :=
  [ DNode (ex_dir KJsight "JSIGHT" 0 [("Version", "0.3")] [] "") [];
    DNode (ex_dir KGet "GET" 12 [("Path", "/x")] [] "")
      [ DNode (ex_dir KHTTPResponseCode "200" 21 [("SchemaNotation", "any")] [] "") [] ];
    DNode (ex_dir KGet "GET" 30 [("Path", "/y")] [] "")
      [ DNode (ex_dir KTags "Tags" 39 [] ["@x"] "") [];
        DNode (ex_dir KHTTPResponseCode "200" 49 [("SchemaNotation", "any")] [] "") [] ] ].

Definition ex_swapped_forest : list dtree :=
  [ DNode (ex_dir KJsight "JSIGHT" 0 [("Version", "0.3")] [] "") [];
    DNode (ex_dir KGet "GET" 12 [("Path", "/y")] [] "")
      [ DNode (ex_dir KTags "Tags" 21 [] ["@x"] "") [];
        DNode (ex_dir KHTTPResponseCode "200" 31 [("SchemaNotation", "any")] [] "") [] ];
    DNode (ex_dir KGet "GET" 40 [("Path", "/x")] [] "")
      [ DNode (ex_dir KHTTPResponseCode "200" 49 [("SchemaNotation", "any")] [] "") [] ] ].

(* JSIGHT 0.3 / TAG @a / URL /u { Tags @b, GET { Tags @a, 200 any } }: the URL's Tags names an
   undeclared tag and NO method takes its tags from it *)
Definition ex_unused_tags_forest : list dtree :=
  [ DNode (ex_dir KJsight "JSIGHT" 0 [("Version", "0.3")] [] "") [];
    DNode (ex_dir KTAG "TAG" 11 [("TagName", "@a")] [] "") [];
    DNode (ex_dir KURL "URL" 18 [("Path", "/u")] [] "")
      [ DNode (ex_dir KTags "Tags" 27 [] ["@b"] "") [];
        DNode (ex_dir KGet "GET" 37 [] [] "")
          [ DNode (ex_dir KTags "Tags" 45 [] ["@a"] "") [];
            DNode (ex_dir KHTTPResponseCode "200" 57 [("SchemaNotation", "any")] [] "") [] ] ] ].

(* the order of the interactions no longer matters: a Tags directive naming the automatic tag of
   another interaction is answered "tag not found" at the Tags directive in both orders; and a Tags
   directive that no method inherits is checked all the same *)
Lemma undeclared_tag_examples :
  (exists e, ex_build ex_undeclared_forest = CErr e /\ ce_kind e = CEMsg "tag not found" /\ ce_idx e = 39) /\
  (exists e, ex_build ex_swapped_forest = CErr e /\ ce_kind e = CEMsg "tag not found" /\ ce_idx e = 21) /\
  (exists e, ex_build ex_unused_tags_forest = CErr e /\ ce_kind e = CEMsg "tag not found" /\ ce_idx e = 27).
Proof.
  split; [|split]; eexists; (split; [vm_compute; reflexivity|]); split; reflexivity.
Qed.
