(* C06 — Context resolution: proofs about model/Core.v (process_context, close_explicit, ...)
   against spec/ContextSpec.v. *)
From Coq Require Import List NArith Bool String Lia Arith.
From JV.lib Require Import Bytes.
From JV.gen Require Import DirectiveTables.
From JV.model Require Import Core.
From JV.spec Require Import ContextSpec.
Import ListNotations.

Local Open Scope nat_scope.

(* ------------------------------------------------------------------------------------------ *)
(* sizes, pre-order, parent positions                                                          *)
(* ------------------------------------------------------------------------------------------ *)

Lemma forest_size_cons t ts : forest_size (t :: ts) = tree_size t + forest_size ts.
Proof. reflexivity. Qed.

Lemma forest_size_app a b : forest_size (a ++ b) = forest_size a + forest_size b.
Proof. induction a as [|t a IH]; [reflexivity|]. cbn [app]. rewrite !forest_size_cons, IH. lia. Qed.

Lemma forest_size_rev a : forest_size (rev a) = forest_size a.
Proof.
  induction a as [|t a IH]; [reflexivity|]. cbn [rev]. rewrite forest_size_app, IH, !forest_size_cons.
  change (forest_size []) with 0. lia.
Qed.

Lemma tree_size_node d k : tree_size (DNode d k) = S (forest_size k).
Proof. reflexivity. Qed.

Lemma flatten_app a b : flatten (a ++ b) = flatten a ++ flatten b.
Proof. apply flat_map_app. Qed.

Lemma flatten_tree_node d k : flatten_tree (DNode d k) = d :: flatten k.
Proof. reflexivity. Qed.

Lemma flatten_cons t ts : flatten (t :: ts) = flatten_tree t ++ flatten ts.
Proof. reflexivity. Qed.

Lemma tparents_node d k pos par : tparents (DNode d k) pos par = par :: fparents k (S pos) (Some pos).
Proof.
  cbn [tparents]. f_equal. generalize (S pos) as p.
  induction k as [|t k IH]; intro p; [reflexivity|]. cbn [fparents]. now rewrite IH.
Qed.

Lemma fparents_app a b pos par :
  fparents (a ++ b) pos par = fparents a pos par ++ fparents b (pos + forest_size a) par.
Proof.
  revert pos. induction a as [|t a IH]; intro pos.
  - cbn [app fparents]. change (forest_size []) with 0. now rewrite Nat.add_0_r.
  - cbn [app fparents]. rewrite IH, forest_size_cons, <- app_assoc. do 3 f_equal. lia.
Qed.

Lemma fparents_single t pos par : fparents [t] pos par = tparents t pos par.
Proof. cbn [fparents]. apply app_nil_r. Qed.

Lemma flatten_single t : flatten [t] = flatten_tree t.
Proof. cbn. apply app_nil_r. Qed.

(* ------------------------------------------------------------------------------------------ *)
(* the forest a zipper stands for                                                              *)
(* ------------------------------------------------------------------------------------------ *)

Definition zforest (fr : list (directive * list dtree)) (rt : list dtree) : list dtree :=
  rev (close_all (List.length fr) fr rt).

Lemma zforest_nil rt : zforest [] rt = rev rt.
Proof. reflexivity. Qed.

Lemma zforest_one d kids rt : zforest [(d, kids)] rt = rev rt ++ [DNode d (rev kids)].
Proof. reflexivity. Qed.

Lemma zforest_two d kids pd pk rest rt :
  zforest ((d, kids) :: (pd, pk) :: rest) rt = zforest ((pd, DNode d (rev kids) :: pk) :: rest) rt.
Proof. reflexivity. Qed.

Lemma close_frame_length x fr rt : List.length (fst (close_frame (x :: fr) rt)) = List.length fr.
Proof. destruct x as [d kids]. destruct fr as [|[pd pk] rest]; reflexivity. Qed.

Lemma zforest_close_frame x fr rt :
  zforest (x :: fr) rt = zforest (fst (close_frame (x :: fr) rt)) (snd (close_frame (x :: fr) rt)).
Proof. destruct x as [d kids]. destruct fr as [|[pd pk] rest]; reflexivity. Qed.

Lemma close_all_close_frame x fr rt :
  close_all (List.length (x :: fr)) (x :: fr) rt =
  close_all (List.length (fst (close_frame (x :: fr) rt))) (fst (close_frame (x :: fr) rt)) (snd (close_frame (x :: fr) rt)).
Proof. destruct x as [d kids]. destruct fr as [|[pd pk] rest]; reflexivity. Qed.

Lemma zsize_close_frame x fr rt :
  zsize (fst (close_frame (x :: fr) rt)) (snd (close_frame (x :: fr) rt)) = zsize (x :: fr) rt.
Proof.
  destruct x as [d kids]. destruct fr as [|[pd pk] rest]; cbn [close_frame fst snd zsize].
  - rewrite forest_size_cons, tree_size_node, forest_size_rev. lia.
  - rewrite forest_size_cons, tree_size_node, forest_size_rev. lia.
Qed.

Lemma close_all_size fr rt : forest_size (close_all (List.length fr) fr rt) = zsize fr rt.
Proof.
  assert (H : forall n fr rt, List.length fr = n -> forest_size (close_all (List.length fr) fr rt) = zsize fr rt).
  { induction n as [|n IH]; intros fr0 rt0 Hn.
    - destruct fr0; [reflexivity|discriminate].
    - destruct fr0 as [|x fr0]; [discriminate|].
      rewrite close_all_close_frame, <- zsize_close_frame.
      apply IH. rewrite close_frame_length. now injection Hn. }
  now apply (H (List.length fr)).
Qed.

(* a tree that got one more node d as the LAST node of its pre-order, hung under the node at
   relative position k *)
Definition grown (d : directive) (k : nat) (t t' : dtree) : Prop :=
  flatten_tree t = flatten_tree t' ++ [d] /\
  forall pos par, tparents t pos par = tparents t' pos par ++ [Some (pos + k)].

Lemma grown_leaf d pd pk : grown d 0 (DNode pd (rev (DNode d [] :: pk))) (DNode pd (rev pk)).
Proof.
  split.
  - cbn [rev]. rewrite !flatten_tree_node, flatten_app. reflexivity.
  - intros pos par. cbn [rev]. rewrite !tparents_node, fparents_app, fparents_single, tparents_node.
    cbn [fparents]. rewrite Nat.add_0_r. reflexivity.
Qed.

Lemma grown_node d k t t' pd pk :
  grown d k t t' ->
  grown d (1 + forest_size pk + k) (DNode pd (rev (t :: pk))) (DNode pd (rev (t' :: pk))).
Proof.
  intros [Hf Hp]. split.
  - cbn [rev]. rewrite !flatten_tree_node, !flatten_app, !flatten_single, Hf.
    now rewrite app_assoc.
  - intros pos par. cbn [rev]. rewrite !tparents_node, !fparents_app, !fparents_single, Hp.
    rewrite forest_size_rev. cbn [app]. rewrite app_assoc. do 4 f_equal. lia.
Qed.

Lemma zforest_grown : forall rest pd pk t t' rt k d,
  grown d k t t' ->
  flatten (zforest ((pd, t :: pk) :: rest) rt) = flatten (zforest ((pd, t' :: pk) :: rest) rt) ++ [d] /\
  fparents (zforest ((pd, t :: pk) :: rest) rt) 0 None =
  fparents (zforest ((pd, t' :: pk) :: rest) rt) 0 None ++ [Some (zsize rest rt + 1 + forest_size pk + k)].
Proof.
  induction rest as [|[qd qk] rest IH]; intros pd pk t t' rt k d Hg.
  - apply (grown_node d k t t' pd pk) in Hg. destruct Hg as [Hf Hp].
    rewrite !zforest_one. split.
    + rewrite !flatten_app, !flatten_single, Hf. now rewrite app_assoc.
    + rewrite !fparents_app, !fparents_single, Hp, forest_size_rev. cbn [zsize].
      rewrite app_assoc. do 3 f_equal. lia.
  - rewrite !zforest_two. apply (grown_node d k t t' pd pk) in Hg.
    destruct (IH qd qk _ _ rt _ d Hg) as [Hf Hp]. split; [exact Hf|].
    rewrite Hp. cbn [zsize]. do 3 f_equal. lia.
Qed.

(* entering a new directive: one more node at the end of the pre-order, under the innermost frame *)
Lemma zforest_push fr rt d :
  flatten (zforest ((d, []) :: fr) rt) = flatten (zforest fr rt) ++ [d] /\
  fparents (zforest ((d, []) :: fr) rt) 0 None =
  fparents (zforest fr rt) 0 None ++ [match fr with [] => None | _ :: rest => Some (zsize rest rt) end].
Proof.
  destruct fr as [|[pd pk] [|[qd qk] rest]].
  - rewrite zforest_one, zforest_nil. split.
    + now rewrite flatten_app, flatten_single.
    + rewrite fparents_app, fparents_single, tparents_node. reflexivity.
  - rewrite zforest_two, !zforest_one. destruct (grown_leaf d pd pk) as [Hf Hp]. split.
    + cbn [rev] in *. rewrite !flatten_app, !flatten_single, Hf. now rewrite app_assoc.
    + cbn [rev] in *. rewrite !fparents_app, !fparents_single, Hp, forest_size_rev. cbn [zsize].
      rewrite app_assoc. do 3 f_equal. lia.
  - rewrite zforest_two. change (rev (@nil dtree)) with (@nil dtree). rewrite !zforest_two.
    destruct (zforest_grown rest qd qk _ _ rt 0 d (grown_leaf d pd pk)) as [Hf Hp].
    split; [exact Hf|]. rewrite Hp. cbn [zsize]. do 3 f_equal. lia.
Qed.

(* ------------------------------------------------------------------------------------------ *)
(* one frame is left: what stays true                                                          *)
(* ------------------------------------------------------------------------------------------ *)

Lemma close_frame_matches i p c' x fr0 rt :
  chain_matches ((i, p) :: c') (x :: fr0) rt ->
  chain_matches c' (fst (close_frame (x :: fr0) rt)) (snd (close_frame (x :: fr0) rt)).
Proof.
  destruct x as [d kids]. destruct fr0 as [|[pd pk] rest]; cbn [close_frame fst snd chain_matches].
  - intros (_ & _ & H). destruct c' as [|[j q] c'']; [exact I|destruct H].
  - intros (_ & _ & H). destruct c' as [|[j q] c'']; [destruct H|]. exact H.
Qed.

Lemma chain_matches_nil_l fr rt : chain_matches [] fr rt -> fr = [].
Proof. destruct fr; [reflexivity|intros []]. Qed.

Lemma chain_matches_cons_l i p c fr rt :
  chain_matches ((i, p) :: c) fr rt ->
  exists kids fr0, fr = (p, kids) :: fr0 /\ i = zsize fr0 rt /\ chain_matches c fr0 rt.
Proof.
  destruct fr as [|[d kids] fr0]; [intros []|]. cbn [chain_matches]. intros (-> & Hi & H).
  now exists kids, fr0.
Qed.

Lemma chain_explicit_matches : forall c fr rt,
  chain_matches c fr rt -> chain_has_explicit c = existsb (fun x => d_explicit (fst x)) fr.
Proof.
  induction c as [|[i p] c IH]; intros fr rt H.
  - apply chain_matches_nil_l in H. now subst.
  - apply chain_matches_cons_l in H. destruct H as (kids & fr0 & -> & _ & H).
    unfold chain_has_explicit in *. cbn [existsb fst snd]. f_equal. now apply (IH fr0 rt).
Qed.

Lemma chain_matches_length : forall c fr rt, chain_matches c fr rt -> List.length c = List.length fr.
Proof.
  induction c as [|[i p] c IH]; intros fr rt H.
  - apply chain_matches_nil_l in H. now subst.
  - apply chain_matches_cons_l in H. destruct H as (kids & fr0 & -> & _ & H). cbn [List.length].
    f_equal. now apply (IH fr0 rt).
Qed.

Lemma chain_matches_dirs : forall c fr rt, chain_matches c fr rt -> map snd c = map fst fr.
Proof.
  induction c as [|[i p] c IH]; intros fr rt H.
  - apply chain_matches_nil_l in H. now subst.
  - apply chain_matches_cons_l in H. destruct H as (kids & fr0 & -> & _ & H). cbn [map fst snd].
    f_equal. now apply (IH fr0 rt).
Qed.

(* ------------------------------------------------------------------------------------------ *)
(* process_context is the spec's walk; fuel is sufficient                                      *)
(* ------------------------------------------------------------------------------------------ *)

Lemma pc_walk : forall c fr rt fuel d,
  chain_matches c fr rt -> List.length fr < fuel ->
  match walk d c with
  | VUnder c' =>
    exists fr1 rt1, process_context fuel d fr rt = COk ((d, []) :: fr1, rt1) /\
      chain_matches c' fr1 rt1 /\ zsize fr1 rt1 = zsize fr rt /\ zforest fr1 rt1 = zforest fr rt /\ c' <> []
  | VTop | VHoist => process_context fuel d fr rt = COk ([(d, [])], close_all (List.length fr) fr rt)
  | VRejected false => process_context fuel d fr rt = CErr (kw_err d CEIncorrectContext)
  | VRejected true => process_context fuel d fr rt = CErr (kw_err d CEIncorrectContextPath)
  end.
Proof.
  induction c as [|[i p] outer IH]; intros fr rt fuel d Hm Hf.
  - apply chain_matches_nil_l in Hm. subst fr. destruct fuel as [|f]; [inversion Hf|].
    cbn [walk process_context]. destruct (root_allowed (d_kind d)); reflexivity.
  - pose proof (chain_explicit_matches _ _ _ Hm) as Hex.
    pose proof Hm as Hm0.
    apply chain_matches_cons_l in Hm. destruct Hm as (kids & fr0 & -> & Hi & Hm).
    destruct fuel as [|f]; [inversion Hf|].
    cbn [walk]. cbn [process_context]. unfold admits, hoists, path_method.
    destruct (ctx_allowed (d_kind p) (d_kind d)) eqn:Had.
    + destruct (is_http_method (d_kind d) && negb (beq (named d (bs "Path")) []) && kind_eqb (d_kind p) KURL) eqn:Hh.
      * rewrite <- Hex. destruct (chain_has_explicit ((i, p) :: outer)); reflexivity.
      * exists ((p, kids) :: fr0), rt. repeat split; try assumption. discriminate.
    + destruct (d_explicit p) eqn:Hx; [reflexivity|].
      pose proof (close_frame_matches _ _ _ _ _ _ Hm0) as Hm1.
      pose proof (zsize_close_frame (p, kids) fr0 rt) as Hz.
      pose proof (zforest_close_frame (p, kids) fr0 rt) as Hzf.
      pose proof (close_frame_length (p, kids) fr0 rt) as Hl.
      pose proof (close_all_close_frame (p, kids) fr0 rt) as Hca.
      destruct (close_frame ((p, kids) :: fr0) rt) as [fr1 rt1]. cbn [fst snd] in *.
      assert (Hf1 : List.length fr1 < f) by (rewrite Hl; cbn [List.length] in Hf; lia).
      specialize (IH fr1 rt1 f d Hm1 Hf1).
      destruct (walk d outer) as [c'| | |[|]].
      * destruct IH as (fr2 & rt2 & E & M & Z & F & N). exists fr2, rt2.
        repeat split; try assumption; congruence.
      * rewrite IH. now rewrite Hca.
      * rewrite IH. now rewrite Hca.
      * exact IH.
      * exact IH.
Qed.

(* every zipper has its chain *)
Fixpoint chain_of (fr : list (directive * list dtree)) (rt : list dtree) : chain :=
  match fr with
  | [] => []
  | (d, _) :: fr' => (zsize fr' rt, d) :: chain_of fr' rt
  end.

Lemma chain_of_matches fr rt : chain_matches (chain_of fr rt) fr rt.
Proof. induction fr as [|[d kids] fr IH]; cbn; auto. Qed.

Lemma process_context_never_out_of_fuel d fr rt : process_context (ctx_fuel fr) d fr rt <> CFuel.
Proof.
  assert (Hf : List.length fr < ctx_fuel fr) by (unfold ctx_fuel; lia).
  pose proof (pc_walk _ _ _ _ d (chain_of_matches fr rt) Hf) as H.
  destruct (walk d (chain_of fr rt)) as [c'| | |[|]].
  - destruct H as (fr1 & rt1 & E & _). rewrite E. discriminate.
  - rewrite H. discriminate.
  - rewrite H. discriminate.
  - rewrite H. discriminate.
  - rewrite H. discriminate.
Qed.

Lemma process_context_never_panics d fr rt w : process_context (ctx_fuel fr) d fr rt <> CPanic w.
Proof.
  assert (Hf : List.length fr < ctx_fuel fr) by (unfold ctx_fuel; lia).
  pose proof (pc_walk _ _ _ _ d (chain_of_matches fr rt) Hf) as H.
  destruct (walk d (chain_of fr rt)) as [c'| | |[|]].
  - destruct H as (fr1 & rt1 & E & _). rewrite E. discriminate.
  - rewrite H. discriminate.
  - rewrite H. discriminate.
  - rewrite H. discriminate.
  - rewrite H. discriminate.
Qed.


(* ------------------------------------------------------------------------------------------ *)
(* close_explicit is the spec's drop_explicit; fuel is sufficient                              *)
(* ------------------------------------------------------------------------------------------ *)

Lemma ce_drop : forall c fr rt fuel,
  chain_matches c fr rt -> List.length fr < fuel ->
  match drop_explicit c with
  | Some c' =>
    exists fr1 rt1, close_explicit fuel fr rt = Some (fr1, rt1) /\
      chain_matches c' fr1 rt1 /\ zsize fr1 rt1 = zsize fr rt /\ zforest fr1 rt1 = zforest fr rt
  | None => close_explicit fuel fr rt = None
  end.
Proof.
  induction c as [|[i p] outer IH]; intros fr rt fuel Hm Hf.
  - apply chain_matches_nil_l in Hm. subst fr. destruct fuel; reflexivity.
  - pose proof Hm as Hm0.
    apply chain_matches_cons_l in Hm. destruct Hm as (kids & fr0 & -> & Hi & Hm).
    destruct fuel as [|f]; [inversion Hf|].
    cbn [drop_explicit close_explicit].
    pose proof (close_frame_matches _ _ _ _ _ _ Hm0) as Hm1.
    pose proof (zsize_close_frame (p, kids) fr0 rt) as Hz.
    pose proof (zforest_close_frame (p, kids) fr0 rt) as Hzf.
    pose proof (close_frame_length (p, kids) fr0 rt) as Hl.
    destruct (close_frame ((p, kids) :: fr0) rt) as [fr1 rt1]. cbn [fst snd] in *.
    destruct (d_explicit p).
    + exists fr1, rt1. repeat split; try assumption. now symmetry.
    + assert (Hf1 : List.length fr1 < f) by (rewrite Hl; cbn [List.length] in Hf; lia).
      specialize (IH fr1 rt1 f Hm1 Hf1).
      destruct (drop_explicit outer) as [c'|].
      * destruct IH as (fr2 & rt2 & E & M & Z & F). exists fr2, rt2.
        repeat split; try assumption; congruence.
      * exact IH.
Qed.

Lemma drop_explicit_none c : drop_explicit c = None <-> chain_has_explicit c = false.
Proof.
  induction c as [|[i p] c IH]; [split; reflexivity|].
  unfold chain_has_explicit in *. cbn [drop_explicit existsb snd].
  destruct (d_explicit p); [split; discriminate|exact IH].
Qed.

(* close_explicit never runs out: None means exactly that no open frame is parenthesised *)
Lemma close_explicit_none_iff fr rt :
  close_explicit (S (List.length fr)) fr rt = None <-> has_unclosed_explicit fr = false.
Proof.
  assert (Hf : List.length fr < S (List.length fr)) by lia.
  pose proof (ce_drop _ _ _ _ (chain_of_matches fr rt) Hf) as H.
  unfold has_unclosed_explicit. rewrite <- (chain_explicit_matches _ _ _ (chain_of_matches fr rt)).
  rewrite <- drop_explicit_none.
  destruct (drop_explicit (chain_of fr rt)) as [c'|].
  - destruct H as (fr1 & rt1 & E & _). rewrite E. split; discriminate.
  - rewrite H. split; reflexivity.
Qed.

(* ------------------------------------------------------------------------------------------ *)
(* admissibility is an invariant of the zipper                                                 *)
(* ------------------------------------------------------------------------------------------ *)

Definition kid_ok (p : directive) (t : dtree) : bool :=
  ctx_allowed (d_kind p) (d_kind (tree_dir t)) && edges_ok t.
Definition top_ok (t : dtree) : bool := root_allowed (d_kind (tree_dir t)) && edges_ok t.

Lemma edges_ok_node d kids : edges_ok (DNode d kids) = forallb (kid_ok d) kids.
Proof. reflexivity. Qed.

Lemma forallb_rev {A} (f : A -> bool) l : forallb f (rev l) = forallb f l.
Proof.
  induction l as [|x l IH]; [reflexivity|]. cbn [rev forallb].
  rewrite forallb_app, IH. cbn [forallb]. rewrite andb_true_r. apply andb_comm.
Qed.

Fixpoint frames_ok (fr : list (directive * list dtree)) : Prop :=
  match fr with
  | [] => True
  | (d, kids) :: rest =>
    forallb (kid_ok d) kids = true /\
    match rest with
    | [] => root_allowed (d_kind d) = true
    | (pd, _) :: _ => ctx_allowed (d_kind pd) (d_kind d) = true
    end /\
    frames_ok rest
  end.

Definition zip_ok (fr : list (directive * list dtree)) (rt : list dtree) : Prop :=
  frames_ok fr /\ forallb top_ok rt = true.

Lemma close_frame_ok fr rt :
  zip_ok fr rt -> zip_ok (fst (close_frame fr rt)) (snd (close_frame fr rt)).
Proof.
  destruct fr as [|[d kids] [|[pd pk] rest]]; [tauto| |].
  - intros [(Hk & Hr & _) Ht]. split; [exact I|]. cbn [close_frame snd forallb].
    unfold top_ok at 1. cbn [tree_dir]. rewrite Hr, edges_ok_node, forallb_rev, Hk. exact Ht.
  - intros [(Hk & Hp & Hk2 & Hp2 & Hrest) Ht]. split; [|exact Ht].
    cbn [close_frame fst frames_ok forallb]. repeat split; try assumption.
    unfold kid_ok at 1. cbn [tree_dir]. rewrite Hp, edges_ok_node, forallb_rev, Hk. exact Hk2.
Qed.

Lemma close_all_ok : forall n fr rt, List.length fr = n -> zip_ok fr rt ->
  forallb top_ok (close_all (List.length fr) fr rt) = true.
Proof.
  induction n as [|n IH]; intros fr rt Hn Hok.
  - destruct fr; [exact (proj2 Hok)|discriminate].
  - destruct fr as [|x fr]; [discriminate|]. rewrite close_all_close_frame.
    apply IH; [rewrite close_frame_length; now injection Hn|now apply close_frame_ok].
Qed.

Lemma http_method_root_allowed k : is_http_method k = true -> root_allowed k = true.
Proof. destruct k; vm_compute; congruence. Qed.

Lemma pc_ok : forall fuel d fr rt fr' rt',
  zip_ok fr rt -> process_context fuel d fr rt = COk (fr', rt') -> zip_ok fr' rt'.
Proof.
  induction fuel as [|f IH]; intros d fr rt fr' rt' Hok E; [discriminate|].
  destruct fr as [|[cd kids] rest].
  - cbn [process_context] in E. destruct (root_allowed (d_kind d)) eqn:Hr; [|discriminate].
    injection E as <- <-. split; [|exact (proj2 Hok)]. cbn [frames_ok forallb]. auto.
  - cbn [process_context] in E.
    destruct (ctx_allowed (d_kind cd) (d_kind d)) eqn:Had.
    + destruct (is_http_method (d_kind d) && negb (beq (named d (bs "Path")) []) && kind_eqb (d_kind cd) KURL) eqn:Hh.
      * destruct (existsb _ _); [discriminate|]. injection E as <- <-.
        apply andb_prop in Hh. destruct Hh as [Hh _]. apply andb_prop in Hh. destruct Hh as [Hh _].
        split; [|change (forallb top_ok (close_all (List.length ((cd, kids) :: rest)) ((cd, kids) :: rest) rt) = true);
                 now apply (close_all_ok (List.length ((cd, kids) :: rest)))].
        cbn [frames_ok forallb]. repeat split. now apply http_method_root_allowed.
      * injection E as <- <-. split; [|exact (proj2 Hok)].
        destruct Hok as [(Hk & Hp & Hr) _].
        cbn [frames_ok forallb]. repeat split; assumption.
    + destruct (d_explicit cd); [discriminate|].
      pose proof (close_frame_ok _ _ Hok) as Hok1.
      destruct (close_frame ((cd, kids) :: rest) rt) as [fr1 rt1]. cbn [fst snd] in Hok1.
      exact (IH _ _ _ _ _ Hok1 E).
Qed.

Lemma ce_ok : forall fuel fr rt fr' rt',
  zip_ok fr rt -> close_explicit fuel fr rt = Some (fr', rt') -> zip_ok fr' rt'.
Proof.
  induction fuel as [|f IH]; intros fr rt fr' rt' Hok E; [discriminate|].
  destruct fr as [|[cd kids] rest]; [discriminate|].
  cbn [close_explicit] in E.
  pose proof (close_frame_ok _ _ Hok) as Hok1.
  destruct (close_frame ((cd, kids) :: rest) rt) as [fr1 rt1]. cbn [fst snd] in Hok1.
  destruct (d_explicit cd).
  - injection E as <- <-. exact Hok1.
  - exact (IH _ _ _ _ Hok1 E).
Qed.

Lemma resolve_step_ok st it st' :
  zip_ok (fst st) (snd st) -> resolve_step st it = COk st' -> zip_ok (fst st') (snd st').
Proof.
  destruct st as [fr rt], st' as [fr' rt']. cbn [fst snd]. intros Hok E.
  destruct it as [d|]; cbn [resolve_step fst snd] in E.
  - exact (pc_ok _ _ _ _ _ _ Hok E).
  - destruct (close_explicit _ _ _) as [[fr1 rt1]|] eqn:Ec; [|discriminate].
    injection E as <- <-. exact (ce_ok _ _ _ _ _ Hok Ec).
Qed.

Lemma resolve_from_ok : forall l st st',
  zip_ok (fst st) (snd st) -> resolve_from st l = COk st' -> zip_ok (fst st') (snd st').
Proof.
  induction l as [|it l IH]; intros st st' Hok E.
  - injection E as <-. exact Hok.
  - cbn [resolve_from] in E. destruct (resolve_step st it) as [st1| | |] eqn:Es; try discriminate.
    cbn [cbind] in E. exact (IH _ _ (resolve_step_ok _ _ _ Hok Es) E).
Qed.

Lemma tree_edge_ok : forall t p q, tree_edge t p q -> edges_ok t = true ->
  ctx_allowed (d_kind p) (d_kind q) = true.
Proof.
  intros t p q He. induction He as [d kids c Hin|d kids c p q Hin Hsub IH]; intro Hok.
  - rewrite edges_ok_node, forallb_forall in Hok. specialize (Hok c Hin).
    unfold kid_ok in Hok. apply andb_prop in Hok. exact (proj1 Hok).
  - rewrite edges_ok_node, forallb_forall in Hok. specialize (Hok c Hin).
    unfold kid_ok in Hok. apply andb_prop in Hok. exact (IH (proj2 Hok)).
Qed.

(* ------------------------------------------------------------------------------------------ *)
(* the resolver simulates the specification, item by item                                      *)
(* ------------------------------------------------------------------------------------------ *)

Definition Inv (s : nat * chain) (fr : list (directive * list dtree)) (rt : list dtree) : Prop :=
  chain_matches (snd s) fr rt /\ zsize fr rt = fst s.

(* the error the resolver raises when the spec has no next state *)
Definition step_err (s : nat * chain) (it : item) : cerr :=
  match it with
  | IDir d =>
    match walk d (snd s) with
    | VRejected true => kw_err d CEIncorrectContextPath
    | _ => kw_err d CEIncorrectContext
    end
  | IClose => ctx_err CENoExplicitToClose
  end.

Definition step_parent (s : nat * chain) (it : item) : list (option nat) :=
  match it with
  | IDir d => [match walk d (snd s) with VUnder ((i, _) :: _) => Some i | _ => None end]
  | IClose => []
  end.

Fixpoint parents_run (s : nat * chain) (l : list item) : list (option nat) :=
  match l with
  | [] => []
  | it :: r =>
    match spec_step s it with
    | Some s' => step_parent s it ++ parents_run s' r
    | None => []
    end
  end.

Lemma step_sim s it fr rt :
  Inv s fr rt ->
  match spec_step s it with
  | Some s' =>
    exists fr' rt', resolve_step (fr, rt) it = COk (fr', rt') /\ Inv s' fr' rt' /\
      flatten (zforest fr' rt') = flatten (zforest fr rt) ++ dirs [it] /\
      fparents (zforest fr' rt') 0 None = fparents (zforest fr rt) 0 None ++ step_parent s it
  | None => resolve_step (fr, rt) it = CErr (step_err s it)
  end.
Proof.
  destruct s as [n c]. intros [Hm Hz]. cbn [fst snd] in Hm, Hz.
  destruct it as [d|]; cbn [spec_step resolve_step step_err step_parent dirs fst snd].
  - assert (Hf : List.length fr < ctx_fuel fr) by (unfold ctx_fuel; lia).
    pose proof (pc_walk _ _ _ _ d Hm Hf) as H.
    destruct (walk d c) as [c'| | |[|]].
    + destruct H as (fr1 & rt1 & E & M & Z & F & N).
      exists ((d, []) :: fr1), rt1. split; [exact E|].
      destruct (zforest_push fr1 rt1 d) as [Hfl Hpa]. rewrite F in Hfl, Hpa.
      split; [|split; [exact Hfl|]].
      * split; cbn [fst snd chain_matches zsize].
        -- repeat split; [congruence|exact M].
        -- change (forest_size []) with 0. lia.
      * rewrite Hpa. destruct c' as [|[i p] c'']; [now destruct N|].
        apply chain_matches_cons_l in M. destruct M as (kids & fr0 & -> & Hi & _). now subst i.
    + exists [(d, [])], (close_all (List.length fr) fr rt). split; [exact H|].
      pose proof (close_all_size fr rt) as Hs.
      split; [|split].
      * split; cbn [fst snd chain_matches zsize]; [repeat split; congruence|].
        change (forest_size []) with 0. lia.
      * rewrite zforest_one. unfold zforest. now rewrite flatten_app, flatten_single.
      * rewrite zforest_one. unfold zforest. now rewrite fparents_app, fparents_single, tparents_node.
    + exists [(d, [])], (close_all (List.length fr) fr rt). split; [exact H|].
      pose proof (close_all_size fr rt) as Hs.
      split; [|split].
      * split; cbn [fst snd chain_matches zsize]; [repeat split; congruence|].
        change (forest_size []) with 0. lia.
      * rewrite zforest_one. unfold zforest. now rewrite flatten_app, flatten_single.
      * rewrite zforest_one. unfold zforest. now rewrite fparents_app, fparents_single, tparents_node.
    + now rewrite H.
    + now rewrite H.
  - assert (Hf : List.length fr < S (List.length fr)) by lia.
    pose proof (ce_drop _ _ _ _ Hm Hf) as H.
    destruct (drop_explicit c) as [c'|].
    + destruct H as (fr1 & rt1 & E & M & Z & F). exists fr1, rt1. rewrite E.
      split; [reflexivity|]. split; [split; cbn [fst snd]; congruence|].
      rewrite F, !app_nil_r. split; reflexivity.
    + now rewrite H.
Qed.

Lemma run_sim : forall l s fr rt,
  Inv s fr rt ->
  match spec_run s l with
  | Some s' =>
    exists fr' rt', resolve_from (fr, rt) l = COk (fr', rt') /\ Inv s' fr' rt' /\
      flatten (zforest fr' rt') = flatten (zforest fr rt) ++ dirs l /\
      fparents (zforest fr' rt') 0 None = fparents (zforest fr rt) 0 None ++ parents_run s l
  | None =>
    exists pre it post s1, l = pre ++ it :: post /\ spec_run s pre = Some s1 /\
      spec_step s1 it = None /\ resolve_from (fr, rt) l = CErr (step_err s1 it)
  end.
Proof.
  induction l as [|it l IH]; intros s fr rt HI.
  - cbn [spec_run resolve_from dirs parents_run]. exists fr, rt. rewrite !app_nil_r. auto.
  - cbn [spec_run resolve_from parents_run]. pose proof (step_sim s it fr rt HI) as Hs.
    destruct (spec_step s it) as [s1|] eqn:Es.
    + destruct Hs as (fr1 & rt1 & E & HI1 & Hfl & Hpa). rewrite E. cbn [cbind].
      specialize (IH s1 fr1 rt1 HI1). destruct (spec_run s1 l) as [s2|].
      * destruct IH as (fr2 & rt2 & E2 & HI2 & Hfl2 & Hpa2). exists fr2, rt2.
        split; [exact E2|]. split; [exact HI2|]. split.
        -- rewrite Hfl2, Hfl, <- app_assoc. f_equal. destruct it; reflexivity.
        -- rewrite Hpa2, Hpa, <- app_assoc. reflexivity.
      * destruct IH as (pre & it' & post & s2 & -> & Er & Est & E2).
        exists (it :: pre), it', post, s2. cbn [app spec_run]. rewrite Es. auto.
    + exists [], it, l, s. rewrite Hs. cbn [app spec_run cbind]. auto.
Qed.

Lemma Inv_init : Inv (0, []) [] [].
Proof. split; reflexivity. Qed.

(* ------------------------------------------------------------------------------------------ *)
(* facts about the specification alone                                                         *)
(* ------------------------------------------------------------------------------------------ *)

Lemma walk_under_nonempty d : forall c c', walk d c = VUnder c' -> c' <> [].
Proof.
  induction c as [|[i p] outer IH]; intros c' H; cbn [walk] in H.
  - destruct (root_allowed (d_kind d)); discriminate.
  - destruct (admits p d).
    + destruct (hoists p d); [destruct (chain_has_explicit _); discriminate|].
      injection H as <-. discriminate.
    + destruct (d_explicit p); [discriminate|]. exact (IH _ H).
Qed.

Lemma spec_run_app : forall a b s,
  spec_run s (a ++ b) = match spec_run s a with Some s' => spec_run s' b | None => None end.
Proof.
  induction a as [|it a IH]; intros b s; [reflexivity|]. cbn [app spec_run].
  destruct (spec_step s it); [apply IH|reflexivity].
Qed.

Lemma open_chain_nil : open_chain [] = Some [].
Proof. reflexivity. Qed.

(* "by recursion on the prefix": one more item is one spec_step *)
Lemma spec_run_snoc l it s :
  spec_run s (l ++ [it]) = match spec_run s l with Some s' => spec_step s' it | None => None end.
Proof.
  rewrite spec_run_app. destruct (spec_run s l) as [s'|]; [|reflexivity].
  cbn [spec_run]. now destruct (spec_step s' it).
Qed.

Lemma spec_run_count : forall l s s', spec_run s l = Some s' -> fst s' = fst s + List.length (dirs l).
Proof.
  induction l as [|it l IH]; intros s s' H; cbn [spec_run] in H.
  - injection H as <-. cbn. lia.
  - destruct (spec_step s it) as [s1|] eqn:Es; [|discriminate].
    rewrite (IH _ _ H). destruct it as [d|]; cbn [spec_step] in Es.
    + destruct (walk d (snd s)); try discriminate; injection Es as <-; cbn [fst dirs List.length]; lia.
    + destruct (drop_explicit (snd s)); [|discriminate]. injection Es as <-. cbn [fst dirs]. lia.
Qed.

Definition parent_from (s : nat * chain) (l : list item) (k : nat) : option (option nat) :=
  match nth_dir l k with
  | None => None
  | Some (pre, d) =>
    match spec_run s pre with
    | None => None
    | Some s1 => verdict_parent (walk d (snd s1))
    end
  end.

Lemma spec_parent_from l k : spec_parent l k = parent_from (0, []) l k.
Proof.
  unfold spec_parent, parent_from, open_chain. destruct (nth_dir l k) as [[pre d]|]; [|reflexivity].
  now destruct (spec_run (0, []) pre).
Qed.

Lemma nth_parents_run : forall l s k,
  spec_run s l <> None -> nth_error (parents_run s l) k = parent_from s l k.
Proof.
  induction l as [|it l IH]; intros s k Hr.
  - unfold parent_from. cbn. now destruct k.
  - cbn [spec_run] in Hr. cbn [parents_run]. destruct (spec_step s it) as [s1|] eqn:Es; [|now destruct Hr].
    destruct it as [d|].
    + cbn [step_parent app]. destruct k as [|k].
      * unfold parent_from. cbn [nth_dir nth_error spec_run]. cbn [spec_step] in Es.
        destruct (walk d (snd s)) as [c'| | |b] eqn:Ew; try discriminate; try reflexivity.
        apply walk_under_nonempty in Ew. destruct c' as [|[i p] c'']; [now destruct Ew|reflexivity].
      * cbn [nth_error]. rewrite (IH s1 k Hr). unfold parent_from. cbn [nth_dir].
        destruct (nth_dir l k) as [[pre d']|]; [|reflexivity]. cbn [option_map fst snd spec_run].
        now rewrite Es.
    + cbn [step_parent app]. rewrite (IH s1 k Hr). unfold parent_from. cbn [nth_dir].
      destruct (nth_dir l k) as [[pre d']|]; [|reflexivity]. cbn [option_map fst snd spec_run].
      now rewrite Es.
Qed.

(* what each verdict of the walk means, in the words of the property *)
Definition skippable (d : directive) (x : nat * directive) : Prop :=
  admits (snd x) d = false /\ d_explicit (snd x) = false.

Lemma walk_char d : forall c,
  match walk d c with
  | VUnder c' =>
    exists left i p rest, c = left ++ c' /\ Forall (skippable d) left /\ c' = (i, p) :: rest /\
      admits p d = true /\ hoists p d = false
  | VTop => Forall (skippable d) c /\ root_allowed (d_kind d) = true
  | VHoist =>
    exists left i p rest, c = left ++ (i, p) :: rest /\ Forall (skippable d) left /\
      admits p d = true /\ hoists p d = true /\ chain_has_explicit c = false
  | VRejected false =>
    (Forall (skippable d) c /\ root_allowed (d_kind d) = false) \/
    exists left i p rest, c = left ++ (i, p) :: rest /\ Forall (skippable d) left /\
      admits p d = false /\ d_explicit p = true
  | VRejected true =>
    exists left i p rest, c = left ++ (i, p) :: rest /\ Forall (skippable d) left /\
      admits p d = true /\ hoists p d = true /\ chain_has_explicit ((i, p) :: rest) = true
  end.
Proof.
  induction c as [|[i p] outer IH]; cbn [walk].
  - destruct (root_allowed (d_kind d)) eqn:Hr; [split; [apply Forall_nil|reflexivity]|].
    left. split; [apply Forall_nil|reflexivity].
  - destruct (admits p d) eqn:Had.
    + destruct (hoists p d) eqn:Hh.
      * destruct (chain_has_explicit ((i, p) :: outer)) eqn:Hx.
        -- exists [], i, p, outer. repeat split; try assumption. constructor.
        -- exists [], i, p, outer. repeat split; try assumption. constructor.
      * exists [], i, p, outer. repeat split; try assumption. constructor.
    + destruct (d_explicit p) eqn:Hx.
      * right. exists [], i, p, outer. repeat split; try assumption. constructor.
      * assert (Hs : skippable d (i, p)) by (split; assumption).
        destruct (walk d outer) as [c'| | |[|]].
        -- destruct IH as (left & j & q & rest & -> & Hl & -> & Ha & Hh).
           exists ((i, p) :: left), j, q, rest. repeat split; try assumption. now constructor.
        -- destruct IH as [Hl Hr]. split; [now constructor|assumption].
        -- destruct IH as (left & j & q & rest & -> & Hl & Ha & Hh & He).
           exists ((i, p) :: left), j, q, rest. repeat split; try assumption; [now constructor|].
           unfold chain_has_explicit in *. cbn [app existsb snd]. now rewrite Hx.
        -- destruct IH as (left & j & q & rest & -> & Hl & Ha & Hh & He).
           exists ((i, p) :: left), j, q, rest. repeat split; try assumption. now constructor.
        -- destruct IH as [[Hl Hr]|(left & j & q & rest & -> & Hl & Ha & He)].
           ++ left. split; [now constructor|assumption].
           ++ right. exists ((i, p) :: left), j, q, rest. repeat split; try assumption. now constructor.
Qed.

(* without the hoist rule the walk is the text of C06 *)
Lemma walk_pure_agrees d : forall c,
  walk d c = walk_pure d c \/ walk d c = VHoist \/ walk d c = VRejected true.
Proof.
  induction c as [|[i p] outer IH]; cbn [walk walk_pure]; [now left|].
  destruct (admits p d).
  - destruct (hoists p d); [|now left]. destruct (chain_has_explicit _); auto.
  - destruct (d_explicit p); [now left|exact IH].
Qed.

(* ------------------------------------------------------------------------------------------ *)
(* the theorems                                                                                *)
(* ------------------------------------------------------------------------------------------ *)

Lemma resolve_from_app : forall a b st,
  resolve_from st (a ++ b) = resolve_from st a >>=c fun st' => resolve_from st' b.
Proof.
  induction a as [|it a IH]; intros b st; [reflexivity|]. cbn [app resolve_from].
  destruct (resolve_step st it); cbn [cbind]; auto.
Qed.

(* the zipper invariant: frames = the spec's open chain *)
Theorem frames_are_open_chain l :
  match open_chain l with
  | Some c => exists fr rt, resolve l = COk (fr, rt) /\ chain_matches c fr rt /\ map snd c = map fst fr /\
                 zsize fr rt = List.length (dirs l)
  | None => exists e, resolve l = CErr e
  end.
Proof.
  unfold open_chain, resolve. pose proof (run_sim l (0, []) [] [] Inv_init) as H.
  destruct (spec_run (0, []) l) as [[n c]|] eqn:Er; cbn [option_map snd].
  - destruct H as (fr & rt & E & [Hm Hz] & _). exists fr, rt. cbn [fst snd] in *.
    repeat split; try assumption; [now apply (chain_matches_dirs _ _ rt)|].
    rewrite Hz. apply (spec_run_count _ _ _ Er).
  - destruct H as (pre & it & post & s1 & _ & _ & _ & E). eauto.
Qed.

Theorem resolve_total l : (exists st, resolve l = COk st) \/ (exists e, resolve l = CErr e).
Proof.
  pose proof (frames_are_open_chain l) as H. destruct (open_chain l).
  - destruct H as (fr & rt & E & _). left. eauto.
  - right. exact H.
Qed.

Lemma resolve_all_ok_inv l f :
  resolve_all l = COk f ->
  exists s fr rt, spec_run (0, []) l = Some s /\ resolve l = COk (fr, rt) /\ Inv s fr rt /\
    has_unclosed_explicit fr = false /\ f = zforest fr rt /\
    flatten f = dirs l /\ fparents f 0 None = parents_run (0, []) l.
Proof.
  unfold resolve_all. intro H. pose proof (run_sim l (0, []) [] [] Inv_init) as Hs.
  fold (resolve l) in Hs.
  destruct (spec_run (0, []) l) as [s|].
  - destruct Hs as (fr & rt & E & HI & Hfl & Hpa). rewrite E in H. cbn [cbind fst snd] in H.
    destruct (has_unclosed_explicit fr) eqn:Hx; [discriminate|]. injection H as <-.
    exists s, fr, rt. split; [reflexivity|]. split; [exact E|]. split; [exact HI|].
    split; [exact Hx|]. split; [reflexivity|]. split; [exact Hfl|exact Hpa].
  - destruct Hs as (pre & it & post & s1 & _ & _ & _ & E). rewrite E in H. discriminate.
Qed.

Theorem resolve_preorder l f : resolve_all l = COk f -> flatten f = dirs l.
Proof.
  intro H. apply resolve_all_ok_inv in H. destruct H as (s & fr & rt & _ & _ & _ & _ & _ & Hfl & _).
  exact Hfl.
Qed.

Theorem resolve_admissible l f :
  resolve_all l = COk f ->
  Forall (fun t => root_allowed (d_kind (tree_dir t)) = true /\ edges_ok t = true) f.
Proof.
  intro H. apply resolve_all_ok_inv in H. destruct H as (s & fr & rt & _ & E & _ & _ & -> & _).
  assert (Hok : zip_ok (fst (fr, rt)) (snd (fr, rt))).
  { apply (resolve_from_ok l ([], [])); [split; [exact I|reflexivity]|exact E]. }
  cbn [fst snd] in Hok. pose proof (close_all_ok _ _ _ eq_refl Hok) as Hc.
  unfold zforest. rewrite Forall_forall. intros t Hin. apply in_rev in Hin.
  rewrite forallb_forall in Hc. specialize (Hc t Hin). unfold top_ok in Hc.
  now apply andb_prop in Hc.
Qed.

Corollary resolve_admissible_edges l f t p q :
  resolve_all l = COk f -> In t f -> tree_edge t p q -> ctx_allowed (d_kind p) (d_kind q) = true.
Proof.
  intros H Hin He. pose proof (resolve_admissible l f H) as Hf. rewrite Forall_forall in Hf.
  exact (tree_edge_ok t p q He (proj2 (Hf t Hin))).
Qed.

(* the form asked for: a top-level tree is root-admissible or a hoisted method (the second
   alternative is in fact contained in the first: http_method_root_allowed) *)
Corollary resolve_admissible_roots l f t :
  resolve_all l = COk f -> In t f ->
  root_allowed (d_kind (tree_dir t)) = true \/ path_method (tree_dir t) = true.
Proof.
  intros H Hin. pose proof (resolve_admissible l f H) as Hf. rewrite Forall_forall in Hf.
  left. exact (proj1 (Hf t Hin)).
Qed.

Theorem resolve_nearest l f : resolve_all l = COk f -> forall k, parent_index f k = spec_parent l k.
Proof.
  intros H k. apply resolve_all_ok_inv in H.
  destruct H as (s & fr & rt & Er & _ & _ & _ & _ & _ & Hpa).
  unfold parent_index. rewrite Hpa, spec_parent_from. apply nth_parents_run. now rewrite Er.
Qed.

(* ---- rejection ---------------------------------------------------------------------------- *)

Lemma open_chain_some l c : open_chain l = Some c -> exists n, spec_run (0, []) l = Some (n, c).
Proof.
  unfold open_chain. destruct (spec_run (0, []) l) as [[n c']|]; [|discriminate].
  cbn. intro H. injection H as <-. now exists n.
Qed.

Lemma fail_forward l pre it post s1 :
  l = pre ++ it :: post -> spec_run (0, []) pre = Some s1 -> spec_step s1 it = None ->
  resolve_all l = CErr (step_err s1 it).
Proof.
  intros -> Er Es. unfold resolve_all, resolve. rewrite resolve_from_app.
  pose proof (run_sim pre (0, []) [] [] Inv_init) as H. rewrite Er in H.
  destruct H as (fr & rt & E & HI & _). rewrite E. cbn [cbind resolve_from].
  pose proof (step_sim s1 it fr rt HI) as Hs. rewrite Es in Hs. now rewrite Hs.
Qed.

Definition place_err_kind (path : bool) : cerr_kind :=
  if path then CEIncorrectContextPath else CEIncorrectContext.

Lemma no_place_error l d path :
  no_place l d path -> resolve_all l = CErr (kw_err d (place_err_kind path)).
Proof.
  intros (pre & post & c & El & Eo & Ew). apply open_chain_some in Eo. destruct Eo as [n Er].
  rewrite (fail_forward l pre (IDir d) post (n, c) El Er).
  - cbn [step_err snd]. rewrite Ew. now destruct path.
  - cbn [spec_step snd]. now rewrite Ew.
Qed.

Lemma close_without_open_error l :
  close_without_open l -> resolve_all l = CErr (ctx_err CENoExplicitToClose).
Proof.
  intros (pre & post & c & El & Eo & Ed). apply open_chain_some in Eo. destruct Eo as [n Er].
  rewrite (fail_forward l pre IClose post (n, c) El Er); [reflexivity|].
  cbn [spec_step snd]. now rewrite Ed.
Qed.

Lemma open_at_end_error l : open_at_end l -> resolve_all l = CErr (ctx_err CENotAllClosed).
Proof.
  intros (c & Eo & Hx). apply open_chain_some in Eo. destruct Eo as [n Er].
  pose proof (run_sim l (0, []) [] [] Inv_init) as H. rewrite Er in H.
  destruct H as (fr & rt & E & [Hm _] & _). unfold resolve_all, resolve. rewrite E.
  cbn [cbind fst snd] in *. unfold has_unclosed_explicit.
  now rewrite <- (chain_explicit_matches _ _ _ Hm), Hx.
Qed.

(* every document falls in exactly one of five classes, and the resolver answers accordingly *)
Theorem resolve_outcome l :
  (exists f c, resolve_all l = COk f /\ open_chain l = Some c /\ chain_has_explicit c = false) \/
  (exists d, no_place l d false /\ resolve_all l = CErr (kw_err d CEIncorrectContext)) \/
  (exists d, no_place l d true /\ resolve_all l = CErr (kw_err d CEIncorrectContextPath)) \/
  (close_without_open l /\ resolve_all l = CErr (ctx_err CENoExplicitToClose)) \/
  (open_at_end l /\ resolve_all l = CErr (ctx_err CENotAllClosed)).
Proof.
  pose proof (run_sim l (0, []) [] [] Inv_init) as H.
  destruct (spec_run (0, []) l) as [[n c]|] eqn:Er.
  - destruct H as (fr & rt & E & [Hm _] & _). cbn [snd] in Hm.
    assert (Ho : open_chain l = Some c) by (unfold open_chain; now rewrite Er).
    destruct (chain_has_explicit c) eqn:Hx.
    + right. right. right. right.
      assert (Hoe : open_at_end l) by (exists c; auto). split; [exact Hoe|now apply open_at_end_error].
    + left. exists (zforest fr rt), c. split; [|auto]. unfold resolve_all, resolve. rewrite E.
      cbn [cbind fst snd]. unfold has_unclosed_explicit.
      now rewrite <- (chain_explicit_matches _ _ _ Hm), Hx.
  - destruct H as (pre & it & post & [n1 c1] & El & Er1 & Es & _).
    assert (Ho : open_chain pre = Some c1) by (unfold open_chain; now rewrite Er1).
    destruct it as [d|]; cbn [spec_step snd fst] in Es.
    + destruct (walk d c1) as [c'| | |[|]] eqn:Ew; try discriminate.
      * right. right. left. exists d.
        assert (Hn : no_place l d true) by (exists pre, post, c1; auto).
        split; [exact Hn|exact (no_place_error l d true Hn)].
      * right. left. exists d.
        assert (Hn : no_place l d false) by (exists pre, post, c1; auto).
        split; [exact Hn|exact (no_place_error l d false Hn)].
    + destruct (drop_explicit c1) eqn:Ed; [discriminate|].
      right. right. right. left.
      assert (Hc : close_without_open l) by (exists pre, post, c1; auto).
      split; [exact Hc|now apply close_without_open_error].
Qed.

Theorem resolve_rejects_iff l :
  (exists e, resolve_all l = CErr e) <->
  (exists d path, no_place l d path) \/ close_without_open l \/ open_at_end l.
Proof.
  split.
  - intros [e He]. destruct (resolve_outcome l) as [(f & c & E & _)|[(d & Hn & _)|[(d & Hn & _)|[[Hc _]|[Ho _]]]]].
    + rewrite E in He. discriminate.
    + left. now exists d, false.
    + left. now exists d, true.
    + right. now left.
    + right. now right.
  - intros [(d & path & Hn)|[Hc|Ho]].
    + eexists. exact (no_place_error l d path Hn).
    + eexists. exact (close_without_open_error l Hc).
    + eexists. exact (open_at_end_error l Ho).
Qed.

Lemma CErr_kind {A} (e1 e2 : cerr) : @CErr A e1 = CErr e2 -> ce_kind e1 = ce_kind e2.
Proof. intro H. now injection H as ->. Qed.

(* ... and which error it is *)
Theorem resolve_error_kinds l :
  ((exists d, no_place l d false) <-> (exists e, resolve_all l = CErr e /\ ce_kind e = CEIncorrectContext)) /\
  ((exists d, no_place l d true) <-> (exists e, resolve_all l = CErr e /\ ce_kind e = CEIncorrectContextPath)) /\
  (close_without_open l <-> (exists e, resolve_all l = CErr e /\ ce_kind e = CENoExplicitToClose)) /\
  (open_at_end l <-> (exists e, resolve_all l = CErr e /\ ce_kind e = CENotAllClosed)).
Proof.
  assert (Hcases := resolve_outcome l).
  repeat split.
  - intros [d Hn]. eexists. split; [exact (no_place_error l d false Hn)|reflexivity].
  - intros (e & He & Hk).
    destruct Hcases as [(f & c & E & _)|[(d & Hn & E)|[(d & Hn & E)|[[Hc E]|[Ho E]]]]];
      rewrite E in He; try discriminate; apply CErr_kind in He; rewrite Hk in He; try discriminate He.
    now exists d.
  - intros [d Hn]. eexists. split; [exact (no_place_error l d true Hn)|reflexivity].
  - intros (e & He & Hk).
    destruct Hcases as [(f & c & E & _)|[(d & Hn & E)|[(d & Hn & E)|[[Hc E]|[Ho E]]]]];
      rewrite E in He; try discriminate; apply CErr_kind in He; rewrite Hk in He; try discriminate He.
    now exists d.
  - intro Hc. eexists. split; [exact (close_without_open_error l Hc)|reflexivity].
  - intros (e & He & Hk).
    destruct Hcases as [(f & c & E & _)|[(d & Hn & E)|[(d & Hn & E)|[[Hc E]|[Ho E]]]]];
      rewrite E in He; try discriminate; apply CErr_kind in He; rewrite Hk in He; try discriminate He.
    exact Hc.
  - intro Ho. eexists. split; [exact (open_at_end_error l Ho)|reflexivity].
  - intros (e & He & Hk).
    destruct Hcases as [(f & c & E & _)|[(d & Hn & E)|[(d & Hn & E)|[[Hc E]|[Ho E]]]]];
      rewrite E in He; try discriminate; apply CErr_kind in He; rewrite Hk in He; try discriminate He.
    exact Ho.
Qed.

(* the k-th directive has no place = the spec gives it no parent although everything before it
   was accepted *)
Lemma nth_dir_split : forall l k pre d, nth_dir l k = Some (pre, d) ->
  exists post, l = pre ++ IDir d :: post /\ List.length (dirs pre) = k.
Proof.
  induction l as [|it l IH]; intros k pre d H; [discriminate|].
  destruct it as [d0|]; cbn [nth_dir] in H.
  - destruct k as [|k].
    + injection H as <- <-. now exists l.
    + destruct (nth_dir l k) as [[pre' d']|] eqn:En; [|discriminate]. cbn in H. injection H as <- <-.
      destruct (IH _ _ _ En) as (post & -> & Hl). exists post. cbn [app dirs List.length]. auto.
  - destruct (nth_dir l k) as [[pre' d']|] eqn:En; [|discriminate]. cbn in H. injection H as <- <-.
    destruct (IH _ _ _ En) as (post & -> & Hl). exists post. cbn [app dirs]. auto.
Qed.

Theorem no_place_spec_parent l k pre d c :
  nth_dir l k = Some (pre, d) -> open_chain pre = Some c ->
  (spec_parent l k = None <-> exists path, walk d c = VRejected path).
Proof.
  intros En Eo. unfold spec_parent. rewrite En, Eo. split.
  - destruct (walk d c) as [c'| | |b] eqn:Ew; cbn [verdict_parent]; try discriminate.
    + apply walk_under_nonempty in Ew. destruct c' as [|[i p] c'']; [now destruct Ew|discriminate].
    + intros _. now exists b.
  - intros [path ->]. reflexivity.
Qed.

(* ---- a parenthesised context is never left ------------------------------------------------ *)

Lemma no_explicit_forall c :
  chain_has_explicit c = false -> Forall (fun x => d_explicit x = false) (map snd c).
Proof.
  unfold chain_has_explicit. induction c as [|[i p] c IH]; intro H; [constructor|].
  cbn [existsb snd] in H. apply orb_false_elim in H. destruct H as [H1 H2].
  cbn [map snd]. constructor; auto.
Qed.

Lemma skippable_forall d c :
  Forall (skippable d) c -> Forall (fun x => d_explicit x = false) (map snd c).
Proof.
  induction 1 as [|x c [_ Hx] _ IH]; [constructor|]. cbn [map]. now constructor.
Qed.

Theorem explicit_never_left d fr rt fr' rt' :
  process_context (ctx_fuel fr) d fr rt = COk (fr', rt') ->
  exists left kept,
    map fst fr = left ++ kept /\ map fst fr' = d :: kept /\
    Forall (fun x => d_explicit x = false) left /\
    Forall (fun x => ctx_allowed (d_kind x) (d_kind d) = false \/ kept = []) left.
Proof.
  intro E.
  assert (Hf : List.length fr < ctx_fuel fr) by (unfold ctx_fuel; lia).
  pose proof (pc_walk _ _ _ _ d (chain_of_matches fr rt) Hf) as H.
  pose proof (chain_matches_dirs _ _ _ (chain_of_matches fr rt)) as Hd.
  pose proof (walk_char d (chain_of fr rt)) as Hc.
  destruct (walk d (chain_of fr rt)) as [c'| | |[|]].
  - destruct H as (fr1 & rt1 & E1 & M & _). rewrite E1 in E. injection E as <- <-.
    destruct Hc as (left & i & p & rest & Hc & Hl & _).
    exists (map snd left), (map fst fr1).
    split; [now rewrite <- Hd, Hc, map_app, (chain_matches_dirs _ _ _ M)|].
    split; [reflexivity|]. split; [now apply (skippable_forall d)|].
    clear -Hl. induction Hl as [|x l [Ha _] _ IH]; [constructor|]. cbn [map]. constructor; auto.
  - rewrite H in E. injection E as <- <-. exists (map fst fr), []. rewrite app_nil_r.
    split; [reflexivity|]. split; [reflexivity|].
    split; [rewrite <- Hd; exact (skippable_forall d _ (proj1 Hc))|].
    apply Forall_forall. auto.
  - rewrite H in E. injection E as <- <-. exists (map fst fr), []. rewrite app_nil_r.
    destruct Hc as (left & i & p & rest & _ & _ & _ & _ & Hx).
    split; [reflexivity|]. split; [reflexivity|].
    split; [rewrite <- Hd; now apply no_explicit_forall|].
    apply Forall_forall. auto.
  - rewrite H in E. discriminate.
  - rewrite H in E. discriminate.
Qed.

Corollary explicit_stays_open d fr rt fr' rt' x :
  process_context (ctx_fuel fr) d fr rt = COk (fr', rt') ->
  In x (map fst fr) -> d_explicit x = true -> In x (map fst fr').
Proof.
  intros E Hin Hx. destruct (explicit_never_left _ _ _ _ _ E) as (left & kept & Hfr & Hfr' & Hl & _).
  rewrite Hfr in Hin. rewrite Hfr'. apply in_app_or in Hin. destruct Hin as [Hin|Hin].
  - rewrite Forall_forall in Hl. rewrite (Hl x Hin) in Hx. discriminate.
  - now right.
Qed.

(* ---- parentheses are balanced in accepted documents --------------------------------------- *)

Definition nexp (c : chain) : nat := List.length (filter (fun x => d_explicit (snd x)) c).
Definition count_open (l : list item) : nat := List.length (filter d_explicit (dirs l)).
Fixpoint count_close (l : list item) : nat :=
  match l with [] => 0 | IClose :: r => S (count_close r) | IDir _ :: r => count_close r end.

Lemma nexp_app a b : nexp (a ++ b) = nexp a + nexp b.
Proof. unfold nexp. now rewrite filter_app, app_length. Qed.

Lemma nexp_skippable d c : Forall (skippable d) c -> nexp c = 0.
Proof.
  induction 1 as [|x c [_ Hx] _ IH]; [reflexivity|]. unfold nexp in *. cbn [filter]. now rewrite Hx.
Qed.

Lemma nexp_no_explicit c : chain_has_explicit c = false -> nexp c = 0.
Proof.
  unfold chain_has_explicit, nexp. induction c as [|[i p] c IH]; intro H; [reflexivity|].
  cbn [existsb snd] in H. apply orb_false_elim in H. destruct H as [H1 H2].
  cbn [filter snd]. rewrite H1. auto.
Qed.

Lemma nexp_drop : forall c c', drop_explicit c = Some c' -> nexp c = S (nexp c').
Proof.
  induction c as [|[i p] c IH]; intros c' H; [discriminate|]. cbn [drop_explicit] in H.
  unfold nexp in *. cbn [filter snd]. destruct (d_explicit p).
  - injection H as <-. reflexivity.
  - auto.
Qed.

Lemma spec_step_balance s it s' :
  spec_step s it = Some s' ->
  nexp (snd s') + count_close [it] = nexp (snd s) + count_open [it].
Proof.
  destruct s as [n c]. destruct it as [d|]; cbn [spec_step fst snd]; intro H.
  - pose proof (walk_char d c) as Hc. unfold count_open. cbn [dirs count_close].
    assert (Hd : forall c0, nexp ((n, d) :: c0) = List.length (filter d_explicit [d]) + nexp c0).
    { intro c0. unfold nexp. cbn [filter snd]. now destruct (d_explicit d). }
    destruct (walk d c) as [c'| | |b]; try discriminate; injection H as <-; cbn [snd]; rewrite Hd.
    + destruct Hc as (left & i & p & rest & -> & Hl & _). rewrite nexp_app, (nexp_skippable d left Hl). lia.
    + rewrite (nexp_skippable d c (proj1 Hc)). change (nexp []) with 0. lia.
    + destruct Hc as (left & i & p & rest & _ & _ & _ & _ & Hx). rewrite (nexp_no_explicit c Hx).
      change (nexp []) with 0. lia.
  - destruct (drop_explicit c) as [c'|] eqn:Ed; [|discriminate]. injection H as <-. cbn [snd].
    rewrite (nexp_drop _ _ Ed). unfold count_open. cbn. lia.
Qed.

Lemma spec_run_balance : forall l s s',
  spec_run s l = Some s' -> nexp (snd s') + count_close l = nexp (snd s) + count_open l.
Proof.
  induction l as [|it l IH]; intros s s' H; cbn [spec_run] in H.
  - injection H as <-. unfold count_open. cbn. lia.
  - destruct (spec_step s it) as [s1|] eqn:Es; [|discriminate].
    pose proof (spec_step_balance _ _ _ Es) as H1. pose proof (IH _ _ H) as H2.
    assert (Hc : count_close (it :: l) = count_close [it] + count_close l) by (destruct it; reflexivity).
    assert (Ho : count_open (it :: l) = count_open [it] + count_open l).
    { unfold count_open. destruct it as [d|]; [|reflexivity]. cbn [dirs filter].
      destruct (d_explicit d); reflexivity. }
    lia.
Qed.

Theorem accepted_balanced l f : resolve_all l = COk f -> count_close l = count_open l.
Proof.
  intro H. destruct (resolve_outcome l) as [(f' & c & _ & Eo & Hx)|[(d & _ & E)|[(d & _ & E)|[[_ E]|[_ E]]]]];
    try (rewrite E in H; discriminate).
  apply open_chain_some in Eo. destruct Eo as [n Er].
  pose proof (spec_run_balance _ _ _ Er) as Hb. cbn [snd] in Hb.
  rewrite (nexp_no_explicit c Hx) in Hb. change (nexp []) with 0 in Hb. lia.
Qed.

(* ---- the tie to the scan loop: flush_cur is one resolve_step ------------------------------- *)

Lemma flush_cur_is_resolve_step s d :
  cs_cur s = Some d ->
  flush_cur s = resolve_step (cs_frames s, cs_roots s) (IDir d) >>=c fun r =>
                COk (upd_cur (upd_ctx s (fst r) (snd r)) None).
Proof. intro H. unfold flush_cur. rewrite H. reflexivity. Qed.

(* ---- the numbers in the chain are the reading positions of its directives ------------------ *)

Lemma dirs_app a b : dirs (a ++ b) = dirs a ++ dirs b.
Proof. induction a as [|[d|] a IH]; cbn [app dirs]; [reflexivity| |]; now rewrite IH. Qed.

Lemma drop_explicit_incl : forall c c', drop_explicit c = Some c' -> incl c' c.
Proof.
  induction c as [|[i p] c IH]; intros c' H; [discriminate|]. cbn [drop_explicit] in H.
  destruct (d_explicit p).
  - injection H as <-. apply incl_tl, incl_refl.
  - apply incl_tl. now apply IH.
Qed.

Definition entries_ok (pre : list item) (s : nat * chain) : Prop :=
  fst s = List.length (dirs pre) /\ forall i p, In (i, p) (snd s) -> nth_error (dirs pre) i = Some p.

Lemma spec_step_entries pre s it s' :
  entries_ok pre s -> spec_step s it = Some s' -> entries_ok (pre ++ [it]) s'.
Proof.
  destruct s as [n c]. intros [Hn He] H. cbn [fst snd] in *. unfold entries_ok. rewrite dirs_app.
  assert (Hold : forall i p, In (i, p) c -> forall x, nth_error (dirs pre ++ x) i = Some p).
  { intros i p Hin x. pose proof (He i p Hin) as Hi. rewrite nth_error_app1; [exact Hi|].
    apply nth_error_Some. now rewrite Hi. }
  destruct it as [d|]; cbn [spec_step fst snd] in H.
  - assert (Hnew : nth_error (dirs pre ++ dirs [IDir d]) n = Some d).
    { rewrite nth_error_app2; [|lia]. now rewrite Hn, Nat.sub_diag. }
    pose proof (walk_char d c) as Hc.
    destruct (walk d c) as [c'| | |b]; try discriminate; injection H as <-; cbn [fst snd];
      (split; [rewrite app_length; cbn; lia|]); intros i p [Hin|Hin]; try (injection Hin as <- <-; exact Hnew);
      try (now destruct Hin).
    destruct Hc as (left & j & q & rest & -> & _). apply Hold. apply in_or_app. now right.
  - destruct (drop_explicit c) as [c'|] eqn:Ed; [|discriminate]. injection H as <-. cbn [fst snd].
    split; [rewrite app_length; cbn; lia|]. intros i p Hin. apply Hold.
    exact (drop_explicit_incl _ _ Ed _ Hin).
Qed.

Lemma spec_run_entries : forall l pre s s',
  entries_ok pre s -> spec_run s l = Some s' -> entries_ok (pre ++ l) s'.
Proof.
  induction l as [|it l IH]; intros pre s s' Hok H; cbn [spec_run] in H.
  - injection H as <-. now rewrite app_nil_r.
  - destruct (spec_step s it) as [s1|] eqn:Es; [|discriminate].
    replace (pre ++ it :: l) with ((pre ++ [it]) ++ l) by (now rewrite <- app_assoc).
    exact (IH _ _ _ (spec_step_entries _ _ _ _ Hok Es) H).
Qed.

Theorem open_chain_entries l c :
  open_chain l = Some c -> forall i p, In (i, p) c -> nth_error (dirs l) i = Some p.
Proof.
  intro Eo. apply open_chain_some in Eo. destruct Eo as [n Er].
  assert (H0 : entries_ok [] (0, [])) by (split; [reflexivity|intros i p []]).
  exact (proj2 (spec_run_entries l [] _ _ H0 Er)).
Qed.

(* resolve_nearest with everything spelled out in terms of directives *)
Theorem resolve_nearest_spelled l f k pre d :
  resolve_all l = COk f -> nth_dir l k = Some (pre, d) ->
  nth_error (flatten f) k = Some d /\
  exists c, open_chain pre = Some c /\
    match parent_index f k with
    | Some (Some i) =>
      (* child of the first open item that admits it; the items walked over neither accept it nor
         are parenthesised *)
      exists left p rest, c = left ++ (i, p) :: rest /\ nth_error (flatten f) i = Some p /\
        Forall (skippable d) left /\ admits p d = true /\ hoists p d = false
    | Some None =>
      (* top level: every open item was walked over ... *)
      (Forall (skippable d) c /\ root_allowed (d_kind d) = true) \/
      (* ... or the hoist rule: the first admitting item is a URL, d is a method with a path, and
         no open item is parenthesised *)
      (exists left i p rest, c = left ++ (i, p) :: rest /\ Forall (skippable d) left /\
         admits p d = true /\ hoists p d = true /\ chain_has_explicit c = false)
    | None => False
    end.
Proof.
  intros H En. pose proof (resolve_nearest l f H k) as Hp. pose proof (resolve_preorder l f H) as Hfl.
  destruct (nth_dir_split _ _ _ _ En) as (post & El & Hk).
  assert (Hkd : nth_error (dirs l) k = Some d).
  { rewrite El, dirs_app. rewrite nth_error_app2; [|lia]. now rewrite Hk, Nat.sub_diag. }
  split; [now rewrite Hfl|].
  rewrite Hp. unfold spec_parent. rewrite En.
  destruct (open_chain pre) as [c|] eqn:Eo.
  - exists c. split; [reflexivity|]. pose proof (walk_char d c) as Hc.
    destruct (walk d c) as [c'| | |b] eqn:Ew; cbn [verdict_parent].
    + destruct Hc as (left & i & p & rest & Hcc & Hl & -> & Ha & Hh).
      exists left, p, rest. repeat split; try assumption.
      rewrite Hfl, El, dirs_app. rewrite nth_error_app1.
      * apply (open_chain_entries pre c Eo). rewrite Hcc. apply in_or_app. right. now left.
      * apply nth_error_Some. rewrite (open_chain_entries pre c Eo i p); [discriminate|].
        rewrite Hcc. apply in_or_app. right. now left.
    + now left.
    + right. exact Hc.
    + (* impossible: the document was accepted *)
      assert (Hn : no_place l d b) by (exists pre, post, c; auto).
      rewrite (no_place_error l d b Hn) in H. discriminate.
  - exfalso. (* impossible as well: a rejected prefix *)
    pose proof (run_sim l (0, []) [] [] Inv_init) as Hs. apply resolve_all_ok_inv in H.
    destruct H as (s & _ & _ & Er & _). rewrite El, spec_run_app in Er.
    unfold open_chain in Eo. destruct (spec_run (0, []) pre); discriminate.
Qed.

(* ---- kinds: kind_eqb decides equality ------------------------------------------------------ *)

Lemma kind_eqb_eq a b : kind_eqb a b = true -> a = b.
Proof. destruct a, b; try reflexivity; discriminate. Qed.

Lemma kind_eqb_refl a : kind_eqb a a = true.
Proof. now destruct a. Qed.

Lemma hoists_url p d : hoists p d = true -> d_kind p = KURL /\ path_method d = true.
Proof.
  unfold hoists. intro H. apply andb_prop in H. destruct H as [H1 H2]. split; [|exact H1].
  now apply kind_eqb_eq.
Qed.

(* ------------------------------------------------------------------------------------------ *)
(* examples (vm_compute)                                                                       *)
(* ------------------------------------------------------------------------------------------ *)

Module Examples.
  Local Open Scope N_scope.

  (* directive of kind k; path = its Path parameter ([] = none); x = followed by '(' *)
  Definition mk (k : kind) (path : bytes) (x : bool) : directive :=
    {| d_kind := k; d_keyword := kind_keyword k; d_kw := {| c_file := bs "a.jst"; c_beg := 0; c_end := 0 |};
       d_named := match path with [] => [] | _ => [(bs "Path", path)] end; d_unnamed := []; d_annot := [];
       d_body := None; d_explicit := x; d_trace := [] |}.
  Definition D (k : kind) : item := IDir (mk k [] false).
  Definition Dx (k : kind) : item := IDir (mk k [] true).          (* "K (" *)
  Definition P (k : kind) : item := IDir (mk k (bs "/p") false).   (* "K /p" *)
  Definition Px (k : kind) : item := IDir (mk k (bs "/p") true).

  (* the shape of a forest: kinds only *)
  Inductive shape : Set := N (k : kind) (kids : list shape).
  Fixpoint shape_of (t : dtree) : shape := match t with DNode d kids => N (d_kind d) (map shape_of kids) end.

  Inductive answer : Set := Accepted (f : list shape) | Rejected (k : cerr_kind) | Other.
  Definition run (l : list item) : answer :=
    match resolve_all l with
    | COk f => Accepted (map shape_of f)
    | CErr e => Rejected (ce_kind e)
    | _ => Other
    end.
  Definition parents (l : list item) : list (option (option nat)) :=
    map (spec_parent l) (seq 0 (List.length (dirs l))).
  Definition impl_parents (l : list item) : option (list (option (option nat))) :=
    match resolve_all l with
    | COk f => Some (map (parent_index f) (seq 0 (List.length (dirs l))))
    | _ => None
    end.

  (* URL /p ( GET 200 Body ) GET /p 200 *)
  Definition l1 := [Px KURL; D KGet; D KHTTPResponseCode; D KBody; IClose; P KGet; D KHTTPResponseCode].
  Example ex1 : run l1 =
    Accepted [N KURL [N KGet [N KHTTPResponseCode [N KBody []]]]; N KGet [N KHTTPResponseCode []]].
  Proof. vm_compute. reflexivity. Qed.
  Example ex1_parents : parents l1 = [Some None; Some (Some 0); Some (Some 1); Some (Some 2); Some None; Some (Some 4)]%nat
                        /\ impl_parents l1 = Some (parents l1).
  Proof. vm_compute. split; reflexivity. Qed.

  (* the hoist rule: URL /p, GET /p, 200, GET: the path-bearing GET leaves the URL, the plain one does not go back *)
  Definition l2 := [P KURL; D KPost; P KGet; D KHTTPResponseCode; D KGet].
  Example ex2 : run l2 = Accepted [N KURL [N KPost []]; N KGet [N KHTTPResponseCode []]; N KGet []].
  Proof. vm_compute. reflexivity. Qed.

  (* a ')' closing two levels (Body, 200 and the parenthesised GET): POST lands under the URL *)
  Definition l3 := [P KURL; Dx KGet; D KHTTPResponseCode; D KBody; IClose; D KPost; D KRequest].
  Example ex3 : run l3 =
    Accepted [N KURL [N KGet [N KHTTPResponseCode [N KBody []]]; N KPost [N KRequest []]]].
  Proof. vm_compute. reflexivity. Qed.
  Example ex3_parents : parents l3 = [Some None; Some (Some 0); Some (Some 1); Some (Some 2); Some (Some 0); Some (Some 4)]%nat
                        /\ impl_parents l3 = Some (parents l3).
  Proof. vm_compute. split; reflexivity. Qed.

  (* a childless directive followed by a sibling, then by a directive two levels up *)
  Definition l4 := [D KGet; D KDescription; D KQuery; D KHTTPResponseCode; D KHeaders; D KBody; D KRequest; D KType].
  Example ex4 : run l4 =
    Accepted [N KGet [N KDescription []; N KQuery []; N KHTTPResponseCode [N KHeaders []; N KBody []]; N KRequest []]; N KType []].
  Proof. vm_compute. reflexivity. Qed.
  Example ex4_parents : parents l4 =
    [Some None; Some (Some 0); Some (Some 0); Some (Some 0); Some (Some 3); Some (Some 3); Some (Some 0); Some None]%nat
    /\ impl_parents l4 = Some (parents l4).
  Proof. vm_compute. split; reflexivity. Qed.

  (* a parenthesised macro: everything up to ')' stays inside, even what could stand at top level *)
  Definition l5 := [D KJsight; Dx KMacro; D KURL; D KGet; D KHTTPResponseCode; D KType; D KInfo; D KTitle; IClose; D KTAG; D KDescription].
  Example ex5 : run l5 =
    Accepted [N KJsight []; N KMacro [N KURL [N KGet [N KHTTPResponseCode []]]; N KType []; N KInfo [N KTitle []]];
              N KTAG [N KDescription []]].
  Proof. vm_compute. reflexivity. Qed.
  Example ex5_parents : impl_parents l5 = Some (parents l5).
  Proof. vm_compute. reflexivity. Qed.

  (* without parentheses a MACRO still takes everything it admits (TYPE, INFO); only a directive it
     does not accept (TAG) ends it *)
  Example ex5' : run [D KJsight; D KMacro; D KURL; D KGet; D KHTTPResponseCode; D KType; D KInfo; D KTitle] =
    Accepted [N KJsight []; N KMacro [N KURL [N KGet [N KHTTPResponseCode []]]; N KType []; N KInfo [N KTitle []]]].
  Proof. vm_compute. reflexivity. Qed.
  Example ex5'' : run [D KJsight; D KMacro; D KURL; D KGet; D KTAG; D KInfo; D KTitle] =
    Accepted [N KJsight []; N KMacro [N KURL [N KGet []]]; N KTAG []; N KInfo [N KTitle []]].
  Proof. vm_compute. reflexivity. Qed.

  (* rejections *)
  Example rej_no_place : run [D KJsight; D KBody] = Rejected CEIncorrectContext.
  Proof. vm_compute. reflexivity. Qed.
  (* URL may stand at top level, but the walk does not leave "GET (" *)
  Example rej_parenthesis_not_left : run [Dx KGet; D KHTTPResponseCode; D KURL] = Rejected CEIncorrectContext
    /\ run [D KGet; D KHTTPResponseCode; D KURL] = Accepted [N KGet [N KHTTPResponseCode []]; N KURL []].
  Proof. vm_compute. split; reflexivity. Qed.
  Example rej_close : run [D KURL; D KGet; IClose] = Rejected CENoExplicitToClose.
  Proof. vm_compute. reflexivity. Qed.
  Example rej_close_twice : run [Dx KURL; D KGet; IClose; IClose] = Rejected CENoExplicitToClose.
  Proof. vm_compute. reflexivity. Qed.
  Example rej_open_at_end : run [Dx KURL; Dx KGet; D KHTTPResponseCode; IClose; D KPost] = Rejected CENotAllClosed.
  Proof. vm_compute. reflexivity. Qed.
  Example rej_path_in_parenthesised_url : run [Px KURL; P KGet; IClose] = Rejected CEIncorrectContextPath.
  Proof. vm_compute. reflexivity. Qed.

  (* FIXED by commit e3fe55a of /repo (the model follows).  "MACRO @m ( URL /u  GET /p  200" used to be
     ACCEPTED with the '(' never closed - the GET was hoisted to top level out of the parenthesised
     MACRO, after which HasUnclosedExplicitContext no longer saw the MACRO - and the same document
     WITH its ')' was rejected ("there is no explicit context for closure").  Now the hoist is
     refused as soon as any open item is parenthesised: *)
  Definition hoist_witness := [D KJsight; Dx KMacro; P KURL; P KGet; D KHTTPResponseCode].
  Example hoist_example_open : run hoist_witness = Rejected CEIncorrectContextPath.
  Proof. vm_compute. reflexivity. Qed.
  Example hoist_example_closed : run (hoist_witness ++ [IClose]) = Rejected CEIncorrectContextPath.
  Proof. vm_compute. reflexivity. Qed.
  (* a path-less method inside the parenthesised macro is fine *)
  Example hoist_example_plain : run [D KJsight; Dx KMacro; P KURL; D KGet; D KHTTPResponseCode; IClose] =
    Accepted [N KJsight []; N KMacro [N KURL [N KGet [N KHTTPResponseCode []]]]].
  Proof. vm_compute. reflexivity. Qed.
End Examples.
