(* More theorems about the scan stage of a multi-file project (model/Core.v), for C18, C08, C02:
   - C18: the FIRST keyword of a banned kind in reading order -- in whatever file it stands, root
     or included at any depth -- ends the scan with 'not allowed' at that keyword in that file, and
     the run goes no further (no INCLUDE standing after it is entered);
   - C08: a JSIGHT keyword read while the scanner stack is non-empty ends the scan with the
     jsight-in-include error, at any point of the included file;
   - C02: the ORDER of the include trace: the trace of the scanner stack is the chain by which the
     file being read is included, the direct includer first, the root file last; this for the
     errors of the scan (also the end-of-file error 'not all explicit contexts are closed') and for
     the tracer of directives;
   - C08: entering and leaving an included file is balanced: when the file is left, the includer's
     scanner and the stack are exactly what they were at the INCLUDE; the scan ends with the empty
     stack; an INCLUDE read under the empty stack is never refused as a recursion.
   Nothing is assumed about the scanner (sc_next) except where TraceProofs needs it. *)
From Coq Require Import List NArith Bool String Lia.
From JV.lib Require Import Bytes Paths.
From JV.gen Require Import DirectiveTables ScannerTable IncludeName.
From JV.model Require Import ScannerSem Params Description Jerr Core.
From JV.proofs Require Import BytesLemmas IncludeNameProofs PathsProofs TM_Events IncludeProofs BanProofs TraceProofs.
Import ListNotations.
Open Scope N_scope.

(* [tr] is the chain by which [f] is included from [root], innermost first: empty for the root
   itself; otherwise its head (g, off) is the file g that DIRECTLY includes f (f = Join(Dir(g), name)
   for a name the validator accepts), and its tail is the chain of g.  So the root comes last. *)
Inductive included_from (root : bytes) : bytes -> list (bytes * N) -> Prop :=
| inc_root : included_from root root []
| inc_file g tr path off :
    included_from root g tr -> validateIncludeFileName path = GOk None ->
    included_from root (join2 (dir g) path) ((g, off) :: tr).

Lemma included_from_shape_lemma root f tr :
  included_from root f tr ->
  (tr = [] /\ f = root) \/
  (exists g off tr' path,
     tr = (g, off) :: tr' /\ validateIncludeFileName path = GOk None /\ f = join2 (dir g) path /\
     included_from root g tr' /\
     exists pre off0, tr = pre ++ [(root, off0)]).
Proof.
  induction 1 as [|g tr path off Hg IH Hval]; [left; split; reflexivity|right].
  exists g, off, tr, path. repeat split; try assumption; try reflexivity.
  destruct IH as [[-> ->]|[g' [off' [tr' [path' [-> [_ [_ [_ [pre [off0 Hpre]]]]]]]]]]].
  - exists [], off. reflexivity.
  - exists ((g, off) :: pre), off0. rewrite Hpre. reflexivity.
Qed.

Section More.
  Variable jsc_len enum_len : bytes -> len_result.
  Variable files : fsys.
  Variable banned : list kind.

  Local Notation sc_next := (Core.sc_next jsc_len enum_len).
  Local Notation process_include := (Core.process_include jsc_len enum_len files banned).
  Local Notation process_keyword := (Core.process_keyword banned).
  Local Notation process_lexeme := (Core.process_lexeme jsc_len enum_len files banned).
  Local Notation scan_project := (Core.scan_project jsc_len enum_len files banned).
  Local Notation scan_step := (IncludeProofs.scan_step jsc_len enum_len files banned).
  Local Notation scan_reach := (IncludeProofs.scan_reach jsc_len enum_len files banned).
  Local Notation next_keyword := (BanProofs.next_keyword jsc_len enum_len).

  (* ---- the run: deterministic, and an error of an iteration is the result of the whole scan ---- *)

  Lemma reach_then_result s0 s :
    scan_reach s0 s -> exists n, forall f, scan_project (n + f) s0 = scan_project f s.
  Proof.
    induction 1 as [|s1 s2 _ [n IH] Hstep]; [exists O; reflexivity|].
    exists (S n). intros f. replace (S n + f)%nat with (n + S f)%nat by lia.
    rewrite IH. apply scan_project_step. exact Hstep.
  Qed.

  Lemma reach_error_is_result s0 s e :
    scan_reach s0 s -> scan_project 1 s = CErr e ->
    exists n, forall fuel, (n < fuel)%nat -> scan_project fuel s0 = CErr e.
  Proof.
    intros Hre H1. destruct (reach_then_result _ _ Hre) as [n Hn]. exists n. intros fuel Hlt.
    replace fuel with (n + S (fuel - S n))%nat by lia. rewrite Hn.
    eapply scan_project_fuel_le; [|exact H1|discriminate]. lia.
  Qed.

  Lemma step_det s a b : scan_step s a -> scan_step s b -> a = b.
  Proof.
    intros Ha Hb. apply scan_step_fun in Ha. apply scan_step_fun in Hb. congruence.
  Qed.

  Lemma reach_front s1 s :
    scan_reach s1 s -> s1 = s \/ exists s2, scan_step s1 s2 /\ scan_reach s2 s.
  Proof.
    induction 1 as [|sa sb Hre IH Hstep]; [left; reflexivity|right].
    destruct IH as [->|[s2 [H12 H2a]]].
    - exists sb. split; [exact Hstep|apply reach_refl].
    - exists s2. split; [exact H12|]. eapply reach_step; eassumption.
  Qed.

  Lemma error_no_step s e s' : scan_project 1 s = CErr e -> ~ scan_step s s'.
  Proof. intros H1 Hs. rewrite (scan_project_step _ _ _ _ O s s' Hs) in H1. discriminate. Qed.

  (* the run is a line that ends where an iteration fails *)
  Lemma run_ends_at_error s0 s e s' :
    scan_reach s0 s -> scan_project 1 s = CErr e -> scan_reach s0 s' -> scan_reach s' s.
  Proof.
    intros Hs H1 Hs'. induction Hs' as [|sa sb _ IH Hstep]; [exact Hs|].
    destruct (reach_front _ _ IH) as [->|[s2 [Ha2 H2s]]].
    - exfalso. eapply error_no_step; eassumption.
    - rewrite (step_det _ _ _ Hstep Ha2). exact H2s.
  Qed.

  (* ---- C18: the first keyword of a banned kind in reading order ---- *)

  (* the next lexeme of s is not a keyword of a banned kind *)
  Definition no_banned_next (s : cstate) : Prop :=
    forall x1 l kw k, next_keyword s x1 l kw k -> kind_in k banned = false.

  (* the run WITHOUT the option comes from s0 to s and no state before s stands at a keyword of a
     banned kind: what is read at s is the first such keyword in reading order, if it is one *)
  Inductive reads_unbanned (s0 : cstate) : cstate -> Prop :=
  | ru_refl : reads_unbanned s0 s0
  | ru_step s1 s2 :
      reads_unbanned s0 s1 -> no_banned_next s1 ->
      IncludeProofs.scan_step jsc_len enum_len files [] s1 s2 -> reads_unbanned s0 s2.

  Lemma step_unbanned s s' :
    no_banned_next s -> IncludeProofs.scan_step jsc_len enum_len files [] s s' -> scan_step s s'.
  Proof.
    intros Hno H. destruct H as [x1 l s' Hn Hp | x1 s1 x at_ rest Hn Hf Hu Hst].
    - destruct (process_lexeme_ban_cases jsc_len enum_len files banned (upd_sc s x1) l) as [Heq|[kw [k [Hlk [Hv [Hk [Hb _]]]]]]].
      + eapply step_lexeme; [exact Hn|]. rewrite Heq. exact Hp.
      + exfalso. assert (Hnk : next_keyword s x1 l kw k) by (repeat split; assumption).
        rewrite (Hno _ _ _ _ Hnk) in Hb. discriminate.
    - exact (step_pop jsc_len enum_len files banned s x1 s1 x at_ rest Hn Hf Hu Hst).
  Qed.

  Lemma reads_unbanned_reach s0 s : reads_unbanned s0 s -> scan_reach s0 s.
  Proof.
    induction 1 as [|s1 s2 _ IH Hno Hstep]; [apply reach_refl|].
    eapply reach_step; [exact IH|]. apply step_unbanned; assumption.
  Qed.

  Theorem ban_first_in_reading_order_lemma root content s x1 l kw k :
    reads_unbanned (init_state root content) s ->
    next_keyword s x1 l kw k -> kind_in k banned = true ->
    (exists s1, flush_cur (upd_sc s x1) = COk s1) ->
    (cs_stack s = [] \/ k <> KJsight) ->
    (exists n, forall fuel, (n < fuel)%nat ->
       scan_project fuel (init_state root content) = CErr (ban_error s l k)) /\
    (forall s', scan_reach (init_state root content) s' -> scan_reach s' s).
  Proof.
    intros Hru Hnk Hb Hfl Hj. apply reads_unbanned_reach in Hru.
    assert (H1 : scan_project 1 s = CErr (ban_error s l k)).
    { eapply ban_diagnostic_at_first_lemma; eassumption. }
    split.
    - eapply reach_error_is_result; eassumption.
    - intros s' Hs'. eapply run_ends_at_error; eassumption.
  Qed.

  (* ---- C08: JSIGHT while a scanner is suspended ---- *)

  Definition next_is_jsight (s : cstate) (x1 : scn) (l : lexeme) : Prop :=
    sc_next (cs_sc s) = Ok (x1, Some l) /\ lexkind_eqb (lk l) LKeyword = true /\
    value_of x1 l = COk (kind_keyword KJsight).

  Lemma jsight_step_error fuel s x1 l :
    cs_stack s <> [] -> next_is_jsight s x1 l ->
    (exists s1, flush_cur (upd_sc s x1) = COk s1) ->
    scan_project (S fuel) s = CErr (include_error s l CEJsightInInclude).
  Proof.
    intros Hne [Hn [Hlk Hv]] [s1 H1]. rewrite scan_project_S, Hn.
    unfold Core.process_lexeme. simpl cs_sc. rewrite Hlk, Hv. cbn [cbind].
    change (beq (kind_keyword KJsight) (kind_keyword KInclude)) with false. cbv iota.
    destruct (jsight_in_include_rejected_lemma banned (upd_sc s x1) l Hne) as [e [He [Hc| ->]]].
    - rewrite H1 in Hc. discriminate.
    - rewrite He. destruct (sc_next_same_file _ _ _ _ _ Hn) as [Hf _].
      unfold with_scan_trace, include_error; simpl. rewrite Hf.
      destruct (stack_trace (cs_stack s)); reflexivity.
  Qed.

  Theorem jsight_in_included_file_lemma root content s x1 l :
    scan_reach (init_state root content) s ->
    cs_stack s <> [] -> next_is_jsight s x1 l ->
    (exists s1, flush_cur (upd_sc s x1) = COk s1) ->
    (exists n, forall fuel, (n < fuel)%nat ->
       scan_project fuel (init_state root content) = CErr (include_error s l CEJsightInInclude)) /\
    (forall s', scan_reach (init_state root content) s' -> scan_reach s' s).
  Proof.
    intros Hre Hne Hj Hfl.
    assert (H1 : scan_project 1 s = CErr (include_error s l CEJsightInInclude)) by (apply (jsight_step_error O s x1 l); assumption).
    split.
    - eapply reach_error_is_result; eassumption.
    - intros s' Hs'. eapply run_ends_at_error; eassumption.
  Qed.

  (* ---- C02: the order of the trace of the scanner stack ---- *)

  Lemma scan_step_included_from root s s' :
    included_from root (sc_file (cs_sc s)) (stack_trace (cs_stack s)) -> scan_step s s' ->
    included_from root (sc_file (cs_sc s')) (stack_trace (cs_stack s')).
  Proof.
    intros Hi H. destruct H as [x1 l s' Hn Hp | x1 s1 x at_ rest Hn Hf Hu Hst].
    - destruct (sc_next_same_file _ _ _ _ _ Hn) as [Hfile _].
      apply process_lexeme_stack in Hp. destruct Hp as [[Hsc Hst]|[kw [s0 [_ [_ [_ [H0 Hinc]]]]]]].
      + rewrite Hsc, Hst. simpl. rewrite Hfile. exact Hi.
      + apply process_include_ok_inv in Hinc.
        destruct Hinc as [x2 [path [content [_ [Hval [_ [_ [Hf2 ->]]]]]]]].
        destruct (flush_cur_keeps _ _ H0) as [Hsc0 [Hst0 _]]. rewrite Hsc0 in *.
        simpl in *. rewrite Hst0. simpl. rewrite Hf2, Hfile.
        apply inc_file; assumption.
    - destruct (flush_cur_keeps _ _ Hf) as [_ [Hst1 _]]. simpl in Hst1.
      rewrite <- Hst1, Hst in Hi. simpl in Hi. simpl.
      inversion Hi; subst. assumption.
  Qed.

  Theorem stack_trace_order_lemma root content s :
    scan_reach (init_state root content) s ->
    included_from root (sc_file (cs_sc s)) (stack_trace (cs_stack s)).
  Proof.
    induction 1 as [|s1 s2 _ IH Hstep]; [apply inc_root|].
    eapply scan_step_included_from; eassumption.
  Qed.

  (* the end-of-file error of one iteration: raised BEFORE the file is left, so it carries the
     stack of the file that ends *)
  Lemma eof_step_error fuel s x1 s1 :
    sc_next (cs_sc s) = Ok (x1, None) -> flush_cur (upd_sc s x1) = COk s1 ->
    has_unclosed_explicit (cs_frames s1) = true ->
    scan_project (S fuel) s =
    CErr {| ce_file := sc_file (cs_sc s); ce_idx := pos (sc_cfg x1) - 1; ce_kind := CENotAllClosed;
            ce_trace := stack_trace (cs_stack s) |}.
  Proof.
    intros Hn Hf Hu. rewrite scan_project_S, Hn, Hf. cbn [with_scan_trace cbind]. rewrite Hu.
    destruct (flush_cur_keeps _ _ Hf) as [Hsc [Hst _]]. simpl in Hsc, Hst.
    destruct (sc_next_same_file _ _ _ _ _ Hn) as [Hfile _].
    unfold scan_err. rewrite Hsc, Hst, Hfile. reflexivity.
  Qed.

  Theorem eof_error_trace_lemma root content s x1 s1 :
    scan_reach (init_state root content) s ->
    sc_next (cs_sc s) = Ok (x1, None) -> flush_cur (upd_sc s x1) = COk s1 ->
    has_unclosed_explicit (cs_frames s1) = true ->
    exists e,
      (exists n, forall fuel, (n < fuel)%nat -> scan_project fuel (init_state root content) = CErr e) /\
      ce_file e = sc_file (cs_sc s) /\ ce_idx e = pos (sc_cfg x1) - 1 /\ ce_kind e = CENotAllClosed /\
      ce_trace e = stack_trace (cs_stack s) /\
      included_from root (ce_file e) (ce_trace e).
  Proof.
    intros Hre Hn Hf Hu. eexists. split; [|split; [|split; [|split; [|split]]]].
    - eapply reach_error_is_result; [exact Hre|]. eapply eof_step_error; eassumption.
    - reflexivity.
    - reflexivity.
    - reflexivity.
    - reflexivity.
    - simpl. eapply stack_trace_order_lemma; exact Hre.
  Qed.

  (* ---- C08: entering and leaving a file is balanced ---- *)

  Theorem include_leave_restores_lemma s_in s x at_ st :
    cs_stack s_in = (x, at_) :: st -> scan_reach s_in s ->
    (exists pre, cs_stack s = pre ++ (x, at_) :: st) \/
    (exists s_ret, scan_reach s_in s_ret /\ scan_reach s_ret s /\ cs_sc s_ret = x /\ cs_stack s_ret = st).
  Proof.
    intros Hin Hre. induction Hre as [|s1 s2 Hre1 IH Hstep]; [left; exists []; exact Hin|].
    destruct IH as [[pre Hpre]|[s_ret [Ha [Hb [Hc Hd]]]]].
    2:{ right. exists s_ret. repeat split; try assumption. eapply reach_step; eassumption. }
    destruct Hstep as [x1 l s' Hn Hp | x1 s1' x' at' rest Hn Hf Hu Hst].
    - apply process_lexeme_stack in Hp. destruct Hp as [[_ Hst]|[kw [s0 [_ [_ [_ [H0 Hinc]]]]]]].
      + left. exists pre. rewrite Hst. exact Hpre.
      + apply process_include_ok_inv in Hinc.
        destruct Hinc as [x2 [path [content [_ [_ [_ [_ [_ ->]]]]]]]].
        destruct (flush_cur_keeps _ _ H0) as [_ [Hst0 _]]. simpl in Hst0.
        left. exists ((x2, lb l) :: pre). simpl. rewrite Hst0, Hpre. reflexivity.
    - destruct (flush_cur_keeps _ _ Hf) as [_ [Hst1 _]]. simpl in Hst1.
      rewrite Hst1, Hpre in Hst.
      destruct pre as [|p pre'].
      + simpl in Hst. inversion Hst; subst. right.
        exists (upd_stack s1' x' rest). split; [|split; [apply reach_refl|split; reflexivity]].
        eapply reach_step; [exact Hre1|].
        eapply step_pop; try eassumption. rewrite Hst1, Hpre. reflexivity.
      + simpl in Hst. inversion Hst; subst. left. exists pre'. reflexivity.
  Qed.

  Theorem scan_ends_with_empty_stack_lemma fuel s s' :
    scan_project fuel s = COk s' -> cs_stack s' = [].
  Proof.
    intros H. destruct (scan_project_reaches _ _ _ _ _ _ _ H) as [s0 [x1 [_ [_ [_ Hst]]]]]. exact Hst.
  Qed.

  Theorem include_under_empty_stack_lemma s l e :
    cs_stack s = [] -> process_include s l = CErr e -> ce_kind e <> CEIncludeRecursion.
  Proof.
    intros Hst. unfold Core.process_include.
    destruct (kind_in KInclude banned); [intros H; injection H as <-; discriminate|].
    destruct (sc_next (cs_sc s)) as [[x1 ol]|p e0|w|]; try discriminate.
    2:{ intros H; injection H as <-; discriminate. }
    destruct ol as [pl|]; [|intros H; injection H as <-; discriminate].
    destruct (negb (lexkind_eqb (lk pl) LParameter)); [intros H; injection H as <-; discriminate|].
    destruct (value_of x1 pl) as [raw|e0|w|] eqn:Hv; cbn [cbind]; try discriminate.
    { cbv zeta. generalize (lib_unquote raw). intros path.
      destruct (beq path []); [intros H; injection H as <-; discriminate|].
      destruct (validateIncludeFileName path) as [[m|]|w]; try discriminate.
      { intros H; injection H as <-; discriminate. }
      destruct (fs_stat files _) as [[content|]|]; try (intros H; injection H as <-; discriminate).
      simpl cs_stack. rewrite Hst. simpl. discriminate. }
    exfalso. eapply value_of_not_err; exact Hv.
  Qed.

  (* under the empty stack the root file is being read *)
  Theorem empty_stack_reads_root_lemma root content s :
    scan_reach (init_state root content) s -> cs_stack s = [] -> sc_file (cs_sc s) = root.
  Proof.
    intros Hre Hst. pose proof (stack_trace_order_lemma _ _ _ Hre) as Hi. rewrite Hst in Hi.
    simpl in Hi. inversion Hi. reflexivity.
  Qed.

  (* ---- executable runs, for the examples ---- *)

  Lemma step_fun_step s s' : step_fun jsc_len enum_len files banned s = Some s' -> scan_step s s'.
  Proof.
    unfold step_fun.
    destruct (sc_next (cs_sc s)) as [[x1 [l|]]|p e0|w|] eqn:Hn; try discriminate.
    - destruct (process_lexeme (upd_sc s x1) l) as [s''| | |] eqn:Hp; try discriminate.
      intros H; injection H as <-. eapply step_lexeme; eassumption.
    - destruct (flush_cur (upd_sc s x1)) as [s1| | |] eqn:Hf; try discriminate.
      destruct (has_unclosed_explicit (cs_frames s1)) eqn:Hu; [discriminate|].
      destruct (cs_stack s1) as [|[x a] rest] eqn:Hst; [discriminate|].
      intros H; injection H as <-. eapply step_pop; eassumption.
  Qed.

  Fixpoint nth_state (n : nat) (s : cstate) : option cstate :=
    match n with
    | O => Some s
    | S n' => match step_fun jsc_len enum_len files banned s with Some s' => nth_state n' s' | None => None end
    end.

  Lemma reach_step_front s0 s1 s : scan_step s0 s1 -> scan_reach s1 s -> scan_reach s0 s.
  Proof.
    intros H01 H. induction H as [|sa sb _ IH Hstep]; [eapply reach_step; [apply reach_refl|exact H01]|].
    eapply reach_step; eassumption.
  Qed.

  Lemma nth_state_reach n : forall s0 s, nth_state n s0 = Some s -> scan_reach s0 s.
  Proof.
    induction n as [|n IH]; intros s0 s H; simpl in H.
    - injection H as <-. apply reach_refl.
    - destruct (step_fun jsc_len enum_len files banned s0) as [s1|] eqn:Hs; [|discriminate].
      eapply reach_step_front; [apply step_fun_step; exact Hs|]. apply IH. exact H.
  Qed.

  Definition next_banned_b (s : cstate) : bool :=
    match sc_next (cs_sc s) with
    | Ok (x1, Some l) =>
      lexkind_eqb (lk l) LKeyword &&
      match value_of x1 l with
      | COk kw => match directive_type kw with Some k => kind_in k banned | None => false end
      | _ => false
      end
    | _ => false
    end.

  Lemma next_banned_b_false s : next_banned_b s = false -> no_banned_next s.
  Proof.
    unfold next_banned_b. intros H x1 l kw k [Hn [Hlk [Hv Hk]]].
    rewrite Hn, Hlk, Hv, Hk in H. exact H.
  Qed.
End More.

(* run until a state satisfies p (at most n steps) *)
Fixpoint run_until jsc enum files banned (p : cstate -> bool) (n : nat) (s : cstate) : option cstate :=
  if p s then Some s
  else match n with
       | O => None
       | S n' => match step_fun jsc enum files banned s with
                 | Some s' => run_until jsc enum files banned p n' s'
                 | None => None
                 end
       end.

Lemma run_until_reach jsc enum files banned p n : forall s0 s,
  run_until jsc enum files banned p n s0 = Some s ->
  IncludeProofs.scan_reach jsc enum files banned s0 s /\ p s = true.
Proof.
  induction n as [|n IH]; intros s0 s H; simpl in H; destruct (p s0) eqn:Hp;
    try (injection H as <-; split; [apply reach_refl|exact Hp]); try discriminate.
  destruct (step_fun jsc enum files banned s0) as [s1|] eqn:Hs; [|discriminate].
  destruct (IH _ _ H) as [Hre Hps]. split; [|exact Hps].
  eapply reach_step_front; [apply step_fun_step; exact Hs|exact Hre].
Qed.

Lemma reads_unbanned_front jsc enum files banned s0 s1 s :
  no_banned_next jsc enum banned s0 -> IncludeProofs.scan_step jsc enum files [] s0 s1 ->
  reads_unbanned jsc enum files banned s1 s -> reads_unbanned jsc enum files banned s0 s.
Proof.
  intros Hno H01 H. induction H as [|sa sb _ IH Hna Hstep].
  - eapply ru_step; [apply ru_refl|exact Hno|exact H01].
  - eapply ru_step; eassumption.
Qed.

(* the run without the option, up to the first keyword of a banned kind *)
Lemma run_until_banned_reads jsc enum files banned n : forall s0 s,
  run_until jsc enum files [] (next_banned_b jsc enum banned) n s0 = Some s ->
  reads_unbanned jsc enum files banned s0 s /\ next_banned_b jsc enum banned s = true.
Proof.
  induction n as [|n IH]; intros s0 s H; simpl in H; destruct (next_banned_b jsc enum banned s0) eqn:Hp;
    try (injection H as <-; split; [apply ru_refl|exact Hp]); try discriminate.
  destruct (step_fun jsc enum files [] s0) as [s1|] eqn:Hs; [|discriminate].
  destruct (IH _ _ H) as [Hre Hps]. split; [|exact Hps].
  eapply reads_unbanned_front; [apply next_banned_b_false; exact Hp|apply step_fun_step; exact Hs|exact Hre].
Qed.

(* ---- C02: the order of the traces of errors and directives (with TraceProofs) ---- *)

Theorem error_trace_order_lemma jsc_len enum_len files banned root fuel content e :
  len_sane jsc_len -> len_sane enum_len -> fs_all_bytes files = true ->
  single_include_per_file files = true ->
  fs_stat files root = Some (FFile content) ->
  Core.scan_project jsc_len enum_len files banned fuel (init_state root content) = CErr e ->
  included_from root (ce_file e) (ce_trace e).
Proof.
  intros Hj He Hb Hs Hroot Hr.
  destruct (trace_is_include_chain_lemma jsc_len enum_len Hj He files Hb banned root Hs fuel content e Hroot Hr)
    as [s [Hre [_ [Hf [Ht _]]]]].
  rewrite Hf, Ht, <- stack_trace_is_chain. eapply stack_trace_order_lemma; exact Hre.
Qed.

(* without the hypothesis on the number of INCLUDEs: errors of the scan loop itself *)
Theorem loop_error_trace_order_lemma jsc_len enum_len files banned root fuel content e :
  len_sane jsc_len -> len_sane enum_len -> fs_all_bytes files = true ->
  fs_stat files root = Some (FFile content) ->
  Core.scan_project jsc_len enum_len files banned fuel (init_state root content) = CErr e ->
  included_from root (ce_file e) (ce_trace e) \/
  (exists s d, IncludeProofs.scan_reach jsc_len enum_len files banned (init_state root content) s /\
               cs_cur s = Some d /\ ce_file e = c_file (d_kw d) /\ ce_idx e = c_beg (d_kw d) /\
               ce_trace e = rev (d_trace d)).
Proof.
  intros Hj He Hb Hroot Hr.
  destruct (scan_error_trace_lemma jsc_len enum_len Hj He files Hb banned root fuel content e Hroot Hr)
    as [s [Hre [_ [_ [Hf [[Ht|[d Hd]] _]]]]]].
  - left. rewrite Hf, Ht, <- stack_trace_is_chain. eapply stack_trace_order_lemma; exact Hre.
  - right. exists s, d. split; [exact Hre|exact Hd].
Qed.

Theorem directive_trace_order_lemma jsc_len enum_len files banned root fuel f :
  len_sane jsc_len -> len_sane enum_len -> fs_all_bytes files = true ->
  single_include_per_file files = true ->
  scan_forest_with fuel jsc_len enum_len files banned root = COk f ->
  forall d, In d (forest_dirs f) -> included_from root (c_file (d_kw d)) (rev (d_trace d)).
Proof.
  intros Hj He Hb Hs Hr d Hd.
  destruct (directive_trace_is_chain_lemma jsc_len enum_len Hj He files Hb banned root Hs fuel f Hr)
    as [content [_ Hall]].
  destruct (Hall d Hd) as [s [x1 [l [Hre [Hn [_ [Hkw Htr]]]]]]].
  destruct (sc_next_same_file _ _ _ _ _ Hn) as [Hfile _].
  rewrite Hkw, Htr, rev_involutive, <- stack_trace_is_chain. simpl. rewrite Hfile.
  eapply stack_trace_order_lemma; exact Hre.
Qed.

(* ---- small projects: the hypotheses of the theorems above hold on them (the scanner is the
        real one; states are found by running the model) ---- *)

Lemma ex_len_sane : len_sane ex_len.
Proof. intros s. simpl. apply N.le_0_l. Qed.

Definition ex_or (o : option cstate) (d : cstate) : cstate := match o with Some s => s | None => d end.
Definition stack_empty_b (s : cstate) : bool := match cs_stack s with [] => true | _ => false end.
(* the scanner after the next lexeme, and that lexeme *)
Definition ex_nx (s : cstate) : scn * lexeme :=
  match Core.sc_next ex_len ex_len (cs_sc s) with
  | Ok (x1, Some l) => (x1, l)
  | Ok (x1, None) => (x1, {| lk := LKeyword; lb := 0; le := 0 |})
  | _ => (cs_sc s, {| lk := LKeyword; lb := 0; le := 0 |})
  end.
Definition ex_flushed (s : cstate) : cstate :=
  match flush_cur (upd_sc s (fst (ex_nx s))) with COk s1 => s1 | _ => s end.

(* C18: r.jst includes a.jst and then c.jst; a.jst includes b.jst; b.jst holds a MACRO, never pasted,
   whose body holds an INFO; INFO is banned.  The first keyword of a banned kind in reading order
   is that INFO, two levels down; 'not allowed' lies there; c.jst is never entered *)
Definition ex_ban_r : bytes := ex_line "JSIGHT 0.3" ++ ex_line "INCLUDE a.jst" ++ ex_line "INCLUDE c.jst".
Definition ex_ban_files : fsys :=
  [(bs "r.jst", FFile ex_ban_r);
   (bs "a.jst", FFile (ex_line "INCLUDE b.jst"));
   (bs "b.jst", FFile (ex_line "MACRO @m" ++ ex_line "(" ++ ex_line "  INFO" ++ ex_line ")"));
   (bs "c.jst", FFile (ex_line "TAG @z"))].
Definition ex_ban_s : cstate :=
  ex_or (run_until ex_len ex_len ex_ban_files [] (next_banned_b ex_len ex_len [KInfo]) 30 (init_state (bs "r.jst") ex_ban_r))
        (init_state (bs "r.jst") ex_ban_r).

Example ex_ban_first_in_reading_order :
  exists s x1 l kw k,
    reads_unbanned ex_len ex_len ex_ban_files [KInfo] (init_state (bs "r.jst") ex_ban_r) s /\
    next_keyword ex_len ex_len s x1 l kw k /\ kind_in k [KInfo] = true /\
    (exists s1, flush_cur (upd_sc s x1) = COk s1) /\
    (cs_stack s = [] \/ k <> KJsight) /\
    ban_error s l k = {| ce_file := bs "b.jst"; ce_idx := 13; ce_kind := CENotAllowed KInfo;
                         ce_trace := [(bs "a.jst", 0); (bs "r.jst", 11)] |} /\
    ex_err (scan_forest ex_len ex_len ex_ban_files [KInfo] (bs "r.jst")) =
      Some (bs "b.jst", 13, CENotAllowed KInfo, [(bs "a.jst", 0); (bs "r.jst", 11)]).
Proof.
  assert (Hrun : run_until ex_len ex_len ex_ban_files [] (next_banned_b ex_len ex_len [KInfo]) 30
                   (init_state (bs "r.jst") ex_ban_r) = Some ex_ban_s) by (vm_compute; reflexivity).
  apply run_until_banned_reads in Hrun. destruct Hrun as [Hru _].
  exists ex_ban_s, (fst (ex_nx ex_ban_s)), (snd (ex_nx ex_ban_s)), (bs "INFO"), KInfo.
  split; [exact Hru|].
  split; [split; [vm_compute; reflexivity|split; [vm_compute; reflexivity|split; vm_compute; reflexivity]]|].
  split; [vm_compute; reflexivity|].
  split; [exists (ex_flushed ex_ban_s); vm_compute; reflexivity|].
  split; [right; discriminate|]. split; vm_compute; reflexivity.
Qed.

(* C08: r.jst includes a.jst; a.jst holds a directive, a nested INCLUDE (entered and left), and then
   a JSIGHT: refused in a.jst with the chain of a.jst *)
Definition ex_js_r : bytes := ex_line "JSIGHT 0.3" ++ ex_line "INCLUDE a.jst".
Definition ex_js_files : fsys :=
  [(bs "r.jst", FFile ex_js_r);
   (bs "a.jst", FFile (ex_line "TAG @x" ++ ex_line "INCLUDE c.jst" ++ ex_line "JSIGHT 0.3"));
   (bs "c.jst", FFile (ex_line "TAG @y"))].
Definition next_jsight_b (s : cstate) : bool :=
  match Core.sc_next ex_len ex_len (cs_sc s) with
  | Ok (x1, Some l) =>
    lexkind_eqb (lk l) LKeyword &&
    match value_of x1 l with COk kw => beq kw (kind_keyword KJsight) | _ => false end
  | _ => false
  end.
Definition ex_js_s : cstate :=
  ex_or (run_until ex_len ex_len ex_js_files [] (fun s => next_jsight_b s && negb (stack_empty_b s)) 30 (init_state (bs "r.jst") ex_js_r))
        (init_state (bs "r.jst") ex_js_r).

Example ex_jsight_after_nested_include :
  exists s x1 l,
    IncludeProofs.scan_reach ex_len ex_len ex_js_files [] (init_state (bs "r.jst") ex_js_r) s /\
    cs_stack s <> [] /\ next_is_jsight ex_len ex_len s x1 l /\
    (exists s1, flush_cur (upd_sc s x1) = COk s1) /\
    include_error s l CEJsightInInclude =
      {| ce_file := bs "a.jst"; ce_idx := 21; ce_kind := CEJsightInInclude; ce_trace := [(bs "r.jst", 11)] |} /\
    ex_err (scan_forest ex_len ex_len ex_js_files [] (bs "r.jst")) =
      Some (bs "a.jst", 21, CEJsightInInclude, [(bs "r.jst", 11)]).
Proof.
  assert (Hrun : run_until ex_len ex_len ex_js_files [] (fun s => next_jsight_b s && negb (stack_empty_b s)) 30
                   (init_state (bs "r.jst") ex_js_r) = Some ex_js_s) by (vm_compute; reflexivity).
  apply run_until_reach in Hrun. destruct Hrun as [Hre _].
  exists ex_js_s, (fst (ex_nx ex_js_s)), (snd (ex_nx ex_js_s)).
  split; [exact Hre|]. split; [vm_compute; discriminate|].
  split; [split; [vm_compute; reflexivity|split; vm_compute; reflexivity]|].
  split; [exists (ex_flushed ex_js_s); vm_compute; reflexivity|]. split; vm_compute; reflexivity.
Qed.

(* C02: r.jst -> a.jst -> sub/c.jst; sub/c.jst ends inside an open parenthesis: the end-of-file error
   lies in sub/c.jst and carries the chain of sub/c.jst, direct includer first *)
Definition ex_eof_r : bytes := ex_line "JSIGHT 0.3" ++ ex_line "INCLUDE a.jst".
Definition ex_eof_files : fsys :=
  [(bs "r.jst", FFile ex_eof_r);
   (bs "a.jst", FFile (ex_line "INCLUDE sub/c.jst"));
   (bs "sub/c.jst", FFile (ex_line "MACRO @m" ++ ex_line "(" ++ ex_line "  INFO"))].
Definition eof_unclosed_b (s : cstate) : bool :=
  match Core.sc_next ex_len ex_len (cs_sc s) with
  | Ok (x1, None) =>
    match flush_cur (upd_sc s x1) with COk s1 => has_unclosed_explicit (cs_frames s1) | _ => false end
  | _ => false
  end.
Definition ex_eof_s : cstate :=
  ex_or (run_until ex_len ex_len ex_eof_files [] eof_unclosed_b 30 (init_state (bs "r.jst") ex_eof_r))
        (init_state (bs "r.jst") ex_eof_r).

Example ex_eof_error_in_included :
  exists s x1 s1,
    IncludeProofs.scan_reach ex_len ex_len ex_eof_files [] (init_state (bs "r.jst") ex_eof_r) s /\
    Core.sc_next ex_len ex_len (cs_sc s) = Ok (x1, None) /\ flush_cur (upd_sc s x1) = COk s1 /\
    has_unclosed_explicit (cs_frames s1) = true /\
    sc_file (cs_sc s) = bs "sub/c.jst" /\
    stack_trace (cs_stack s) = [(bs "a.jst", 0); (bs "r.jst", 11)] /\
    ex_err (scan_forest ex_len ex_len ex_eof_files [] (bs "r.jst")) =
      Some (bs "sub/c.jst", 18, CENotAllClosed, [(bs "a.jst", 0); (bs "r.jst", 11)]).
Proof.
  assert (Hrun : run_until ex_len ex_len ex_eof_files [] eof_unclosed_b 30
                   (init_state (bs "r.jst") ex_eof_r) = Some ex_eof_s) by (vm_compute; reflexivity).
  apply run_until_reach in Hrun. destruct Hrun as [Hre _].
  exists ex_eof_s, (fst (ex_nx ex_eof_s)), (ex_flushed ex_eof_s).
  split; [exact Hre|]. split; [vm_compute; reflexivity|]. split; [vm_compute; reflexivity|].
  split; [vm_compute; reflexivity|]. split; [vm_compute; reflexivity|]. split; vm_compute; reflexivity.
Qed.

(* C02: the hypotheses of error_trace_order_lemma / directive_trace_order_lemma on the nested project of
   TraceProofs (r.jst -> a.jst -> sub/c.jst, one INCLUDE per file) *)
Definition ex_nested_r : bytes := ex_line "JSIGHT 0.3" ++ ex_line "INCLUDE a.jst".
Definition ex_nested_err : cerr :=
  match Core.scan_project ex_len ex_len (ex_nested (ex_line "JSIGHT 0.3")) [] 1000 (init_state (bs "r.jst") ex_nested_r) with
  | CErr e => e
  | _ => {| ce_file := []; ce_idx := 0; ce_kind := CENoDirective; ce_trace := [] |}
  end.

Example ex_error_trace_order :
  exists content e,
    len_sane ex_len /\ fs_all_bytes (ex_nested (ex_line "JSIGHT 0.3")) = true /\
    single_include_per_file (ex_nested (ex_line "JSIGHT 0.3")) = true /\
    fs_stat (ex_nested (ex_line "JSIGHT 0.3")) (bs "r.jst") = Some (FFile content) /\
    Core.scan_project ex_len ex_len (ex_nested (ex_line "JSIGHT 0.3")) [] 1000 (init_state (bs "r.jst") content) = CErr e /\
    ce_file e = bs "sub/c.jst" /\ ce_trace e = [(bs "a.jst", 7); (bs "r.jst", 11)].
Proof.
  exists ex_nested_r, ex_nested_err. split; [exact ex_len_sane|].
  split; [vm_compute; reflexivity|]. split; [vm_compute; reflexivity|].
  split; [vm_compute; reflexivity|]. split; [vm_compute; reflexivity|]. split; vm_compute; reflexivity.
Qed.

Definition ex_nested_forest : list dtree :=
  match scan_forest_with 1000 ex_len ex_len (ex_nested (ex_line "TAG @y")) [] (bs "r.jst") with COk f => f | _ => [] end.

Example ex_directive_trace_order :
  exists f,
    len_sane ex_len /\ fs_all_bytes (ex_nested (ex_line "TAG @y")) = true /\
    single_include_per_file (ex_nested (ex_line "TAG @y")) = true /\
    scan_forest_with 1000 ex_len ex_len (ex_nested (ex_line "TAG @y")) [] (bs "r.jst") = COk f /\
    map (fun d => (c_file (d_kw d), rev (d_trace d))) (forest_dirs f) =
      [(bs "r.jst", []); (bs "a.jst", [(bs "r.jst", 11)]); (bs "sub/c.jst", [(bs "a.jst", 7); (bs "r.jst", 11)])].
Proof.
  exists ex_nested_forest. split; [exact ex_len_sane|].
  split; [vm_compute; reflexivity|]. split; [vm_compute; reflexivity|].
  split; vm_compute; reflexivity.
Qed.

(* C08: the main file includes two different files (TraceProofs.ex_two_includes): a.jst is entered
   under the empty stack and left; the state in which r.jst is read again has the empty stack, so the
   second INCLUDE is not a recursion; the scan succeeds and ends with the empty stack *)
Definition ex_two_r : bytes := ex_line "JSIGHT 0.3" ++ ex_line "INCLUDE a.jst" ++ ex_line "INCLUDE b.jst".
Definition ex_two_in : cstate :=
  ex_or (run_until ex_len ex_len (ex_two_includes (ex_line "TAG @y")) [] (fun s => negb (stack_empty_b s)) 30 (init_state (bs "r.jst") ex_two_r))
        (init_state (bs "r.jst") ex_two_r).
Definition ex_two_back : cstate :=
  ex_or (run_until ex_len ex_len (ex_two_includes (ex_line "TAG @y")) [] stack_empty_b 30 ex_two_in) ex_two_in.
Definition ex_two_end : cstate :=
  match Core.scan_project ex_len ex_len (ex_two_includes (ex_line "TAG @y")) [] 1000 (init_state (bs "r.jst") ex_two_r) with
  | COk s => s | _ => ex_two_in end.

Example ex_two_includes_balanced :
  exists s_in s x at_ s_end,
    IncludeProofs.scan_reach ex_len ex_len (ex_two_includes (ex_line "TAG @y")) [] (init_state (bs "r.jst") ex_two_r) s_in /\
    cs_stack s_in = [(x, at_)] /\ at_ = 11 /\ sc_file (cs_sc s_in) = bs "a.jst" /\
    IncludeProofs.scan_reach ex_len ex_len (ex_two_includes (ex_line "TAG @y")) [] s_in s /\
    cs_stack s = [] /\ cs_sc s = x /\ sc_file (cs_sc s) = bs "r.jst" /\
    Core.scan_project ex_len ex_len (ex_two_includes (ex_line "TAG @y")) [] 1000 (init_state (bs "r.jst") ex_two_r) = COk s_end /\
    cs_stack s_end = [] /\
    map (fun d => c_file (d_kw d)) (forest_dirs (forest_of s_end)) = [bs "r.jst"; bs "a.jst"; bs "b.jst"].
Proof.
  assert (H1 : run_until ex_len ex_len (ex_two_includes (ex_line "TAG @y")) [] (fun s => negb (stack_empty_b s)) 30
                 (init_state (bs "r.jst") ex_two_r) = Some ex_two_in) by (vm_compute; reflexivity).
  assert (H2 : run_until ex_len ex_len (ex_two_includes (ex_line "TAG @y")) [] stack_empty_b 30 ex_two_in = Some ex_two_back)
    by (vm_compute; reflexivity).
  apply run_until_reach in H1. destruct H1 as [Hr1 _]. apply run_until_reach in H2. destruct H2 as [Hr2 _].
  exists ex_two_in, ex_two_back, (cs_sc ex_two_back), 11, ex_two_end.
  split; [exact Hr1|]. split; [vm_compute; reflexivity|]. split; [reflexivity|]. split; [vm_compute; reflexivity|].
  split; [exact Hr2|]. split; [vm_compute; reflexivity|]. split; [reflexivity|]. split; [vm_compute; reflexivity|].
  split; [vm_compute; reflexivity|]. split; vm_compute; reflexivity.
Qed.
