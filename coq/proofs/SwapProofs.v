(* C10: swapping two adjacent top-level trees that make interactions (instances of the generic frame lemma) *)
From Coq Require Import List NArith Bool String Lia Permutation.
From JV.lib Require Import Bytes.
From JV.gen Require Import DirectiveTables TagName.
From JV.model Require Import ScannerSem Core Description PathParams TagTitle Catalog.
From JV.proofs Require Import BytesLemmas TagNameProofs CatalogProofs FaithfulProofs LocalityProofs OrderProofs PathVarProofs FrameProofs InsertProofs GenFrameProofs SwapListProofs.
Import ListNotations.
Open Scope N_scope.

(* ---- association lists with a block in front ---- *)
Section Pre.
  Context {K V : Type} (keq : K -> K -> bool).
  Hypothesis keq_eq : forall a b, keq a b = true <-> a = b.

  Lemma keq_false_of_notin (pre : list (K * V)) k : ~ In k (map fst pre) -> forall e, In e pre -> keq (fst e) k = false.
  Proof.
    intros H e He. destruct (keq (fst e) k) eqn:E; [|reflexivity]. apply keq_eq in E. exfalso. apply H. rewrite <- E. apply in_map; exact He.
  Qed.

  Lemma om_get_prepend (pre l : list (K * V)) k : ~ In k (map fst pre) -> om_get keq (pre ++ l) k = om_get keq l k.
  Proof.
    intro H. unfold om_get. induction pre as [|e pre IH]; [reflexivity|]. simpl.
    rewrite (keq_false_of_notin (e :: pre) k H e (or_introl eq_refl)). apply IH. intro Hin. apply H. right; exact Hin.
  Qed.

  Lemma om_has_prepend (pre l : list (K * V)) k : ~ In k (map fst pre) -> om_has keq (pre ++ l) k = om_has keq l k.
  Proof.
    intro H. unfold om_has. rewrite existsb_app. replace (existsb (fun e => keq (fst e) k) pre) with false; [reflexivity|].
    symmetry. apply not_true_is_false. intro E. apply existsb_exists in E as [e [He Hk]].
    rewrite (keq_false_of_notin pre k H e He) in Hk. discriminate Hk.
  Qed.

  Lemma om_update_notin (pre : list (K * V)) k h : ~ In k (map fst pre) -> om_update keq pre k h = pre.
  Proof.
    intro H. unfold om_update. rewrite <- (map_id pre) at 2. apply map_ext_in. intros e He.
    rewrite (keq_false_of_notin pre k H e He). reflexivity.
  Qed.

  Lemma om_update_prepend (pre l : list (K * V)) k h : ~ In k (map fst pre) ->
    pre ++ om_update keq l k h = om_update keq (pre ++ l) k h.
  Proof. intro H. unfold om_update at 2. rewrite map_app. fold (om_update keq pre k h). fold (om_update keq l k h). rewrite (om_update_notin pre k h H). reflexivity. Qed.
End Pre.

Lemma existsb_app_false {A} (f : A -> bool) u post : existsb f post = false -> existsb f (u ++ post) = existsb f u.
Proof. intro H. rewrite existsb_app, H, orb_false_r. reflexivity. Qed.

(* ---- the transformer "a base in front" ---- *)
Definition Gpre (bI : list (iid * interaction)) (bT : list (bytes * tag)) (bU : list bytes) (bP : list coords) : bstate -> bstate :=
  G (fun l => bI ++ l) (fun l => bT ++ l) (fun u => u ++ bU) (fun u => u ++ bP).

Definition okI_pre (bI : list (iid * interaction)) (k : iid) : Prop := ~ In k (map fst bI).
Definition okT_pre (bT : list (bytes * tag)) (k : bytes) : Prop := ~ In k (map fst bT).
Definition okU_pre (bU : list bytes) (p : bytes) : Prop := existsb (beq p) bU = false.
Definition okP_pre (bP : list coords) (k : coords) : Prop := existsb (coords_eqb k) bP = false.

Definition pre_ok bI bT bU bP := gstep_ok (okI_pre bI) (okT_pre bT) (okU_pre bU) (okP_pre bP).

Section PreRun.
  Variable body_text : coords -> bytes.
  Variable banned : list kind.

  Lemma run_prepend bI bT bU bP l s :
    (forall p, In p l -> pre_ok bI bT bU bP (fst p) (snd p)) ->
    run body_text banned l (Gpre bI bT bU bP s) = cmap (Gpre bI bT bU bP) (run body_text banned l s).
  Proof.
    intro Hok. unfold Gpre.
    refine (run_G (fun l => bI ++ l) (fun l => bT ++ l) (fun u => u ++ bU) (fun u => u ++ bP)
                 (fun _ => True) (fun _ => True) (okI_pre bI) (okT_pre bT) (okU_pre bU) (okP_pre bP)
                 _ _ _ _ _ _ _ _ _ _ (fun _ => True) (fun _ => True) _ _ _ _ body_text banned (fun _ => True) _ l Hok _ s I).
    - intros l0 k _ H. apply (om_get_prepend iid_eqb iid_eqb_eq). exact H.
    - intros l0 k _ H. apply (om_has_prepend iid_eqb iid_eqb_eq). exact H.
    - intros l0 k h H. apply (om_update_prepend iid_eqb iid_eqb_eq). exact H.
    - intros l0 x _. apply app_assoc.
    - intros; exact I.
    - intros l0 k _ H. apply (om_get_prepend beq beq_eq). exact H.
    - intros l0 k _ H. apply (om_has_prepend beq beq_eq). exact H.
    - intros l0 k h H. apply (om_update_prepend beq beq_eq). exact H.
    - intros l0 x _. apply app_assoc.
    - intros; exact I.
    - intros u p _ H. apply existsb_app_false. exact H.
    - intros u p _. reflexivity.
    - intros u k _ H. apply existsb_app_false. exact H.
    - intros u k _. reflexivity.
    - intros; repeat split; exact I.
    - intros; exact I.
  Qed.
End PreRun.

(* the state with its four run collections emptied, and back *)
Definition empt (s : bstate) : bstate :=
  {| b_cat := upd_tags (upd_inters (b_cat s) []) []; b_urls := []; b_similar := b_similar s; b_protocols := [] |}.

Lemma base_empt s : Gpre (c_inters (b_cat s)) (c_tags (b_cat s)) (b_urls s) (b_protocols s) (empt s) = s.
Proof. destruct s as [c u sm pr]. destruct c. unfold Gpre, G, empt. simpl. rewrite !app_nil_r. reflexivity. Qed.

(* ---- what a step does to the run-wide URL-path and protocol lists, and which steps leave the rest alone ---- *)
Definition url_delta (t : dtree) (anc : list dtree) : list bytes :=
  if kind_eqb (dk t) KURL then match path_of (tree_dir t) anc with PathOk p => [p] | _ => [] end else [].
Definition prot_delta (t : dtree) (anc : list dtree) : list coords :=
  if kind_eqb (dk t) KProtocol then match parent_dir anc with Some par => [d_kw par] | None => [] end else [].

(* the kinds of the nodes of a tree that makes interactions (no Tags, no Path) *)
Definition inter_kinds : list kind :=
  [KURL; KGet; KPost; KPut; KPatch; KDelete; KQuery; KRequest; KHTTPResponseCode; KBody; KHeaders; KDescription;
   KProtocol; KMethod; KParams; KResult].

Definition plain_path (t : dtree) (anc : list dtree) : bool :=
  match path_of (tree_dir t) anc with
  | PathOk p => match path_parameters_checked p with GOk (POk []) => true | _ => false end
  | _ => true
  end.

Definition parent_not (anc : list dtree) (k : kind) : bool :=
  match parent_dir anc with Some p => negb (kind_eqb (d_kind p) k) | None => true end.

Record ustep (t : dtree) (anc : list dtree) (s s' : bstate) : Prop := {
  us_urls : b_urls s' = url_delta t anc ++ b_urls s;
  us_prot : b_protocols s' = prot_delta t anc ++ b_protocols s;
  us_urls_new : forall p, In p (url_delta t anc) -> existsb (beq p) (b_urls s) = false;
  us_prot_new : forall k, In k (prot_delta t anc) -> existsb (coords_eqb k) (b_protocols s) = false;
  us_other : kind_in (dk t) inter_kinds = true -> plain_path t anc = true -> parent_not anc KInfo = true ->
             c_jsight (b_cat s') = c_jsight (b_cat s) /\ c_info (b_cat s') = c_info (b_cat s) /\
             c_servers (b_cat s') = c_servers (b_cat s) /\ c_types (b_cat s') = c_types (b_cat s) /\
             c_enums (b_cat s') = c_enums (b_cat s) /\ b_similar s' = b_similar s
}.

Lemma check_path_fields d s p a : check_path d s p = COk a ->
  b_cat a = b_cat s /\ b_urls a = b_urls s /\ b_protocols a = b_protocols s /\
  (path_parameters_checked p = GOk (POk []) -> b_similar a = b_similar s).
Proof.
  unfold check_path, kerr. intro H. walk H. inversion H; subst; clear H. simpl. repeat split; auto.
  intro Hp. inversion Hp; subst. simpl in *. inversion Heqs0. reflexivity.
Qed.

Lemma NoDup_app_single {A} (l : list A) x : NoDup l -> ~ In x l -> NoDup (l ++ [x]).
Proof.
  intros Hl Hx. induction Hl as [|y l Hy Hl IH]; simpl.
  - constructor; [intros []|constructor].
  - constructor.
    + intro Hin. apply in_app_or in Hin. destruct Hin as [Hin|[->|[]]]; [exact (Hy Hin)|apply Hx; left; reflexivity].
    + apply IH. intro Hin. apply Hx. right. exact Hin.
Qed.

Lemma coords_eqb_refl' c : coords_eqb c c = true.
Proof. unfold coords_eqb. now rewrite beq_refl, N.eqb_refl. Qed.

Section UStep.
  Variable body_text : coords -> bytes.
  Variable banned : list kind.

  Lemma add_request_u d anc s s' : add_request d anc s = COk s' ->
    b_urls s' = b_urls s /\ b_protocols s' = b_protocols s /\ b_similar s' = b_similar s /\
    c_jsight (b_cat s') = c_jsight (b_cat s) /\ c_info (b_cat s') = c_info (b_cat s) /\
    c_servers (b_cat s') = c_servers (b_cat s) /\ c_types (b_cat s') = c_types (b_cat s) /\ c_enums (b_cat s') = c_enums (b_cat s).
  Proof.
    unfold add_request, kerr, get_http. intro H. cbv beta zeta in H.
    destruct (kind_eqb (d_kind d) KRequest); walk H; inversion H; subst s'; clear H; repeat split; reflexivity.
  Qed.
  Lemma add_response_u d anc s s' : add_response d anc s = COk s' ->
    b_urls s' = b_urls s /\ b_protocols s' = b_protocols s /\ b_similar s' = b_similar s /\
    c_jsight (b_cat s') = c_jsight (b_cat s) /\ c_info (b_cat s') = c_info (b_cat s) /\
    c_servers (b_cat s') = c_servers (b_cat s) /\ c_types (b_cat s') = c_types (b_cat s) /\ c_enums (b_cat s') = c_enums (b_cat s).
  Proof.
    unfold add_response, kerr, get_http. intro H. cbv beta zeta in H. unfold cbind in H.
    walk H; inversion H; subst s'; clear H; repeat split; reflexivity.
  Qed.

  Lemma u_step t anc s s' : add_directive body_text banned t anc s = COk s' -> ustep t anc s s'.
  Proof.
    intro H. unfold add_directive in H. cbv zeta in H.
    destruct (kind_in (d_kind (tree_dir t)) banned); [discriminate H|].
    destruct (d_kind (tree_dir t)) eqn:Hk; kcompute_in H; cbv beta iota delta [orb] in H.
    all: try (assert (Hsame : b_urls s' = b_urls s /\ b_protocols s' = b_protocols s /\ b_similar s' = b_similar s /\
                c_jsight (b_cat s') = c_jsight (b_cat s) /\ c_info (b_cat s') = c_info (b_cat s) /\
                c_servers (b_cat s') = c_servers (b_cat s) /\ c_types (b_cat s') = c_types (b_cat s) /\ c_enums (b_cat s') = c_enums (b_cat s));
              [ try unfold kerr in H; try unfold berr in H; try unfold cbind in H; try unfold get_http in H; try unfold get_rpc in H;
                walk H;
                first [ exact (add_request_u _ _ _ _ H) | exact (add_response_u _ _ _ _ H)
                      | inversion H; try subst s'; clear H; rewrite ?b_cat_with_cat;
                        try match goal with Hc : check_path _ _ _ = COk ?a |- _ =>
                              destruct (check_path_fields _ _ _ _ Hc) as [Hc1 [Hc2 [Hc3 Hc4]]]; simpl; rewrite ?Hc1, ?Hc2, ?Hc3 end;
                        repeat split; reflexivity ]
              | destruct Hsame as [A1 [A2 [A3 [A4 [A5 [A6 [A7 A8]]]]]]]; constructor; unfold url_delta, prot_delta, dk; rewrite ?Hk;
                [ exact A1 | exact A2 | intros p [] | intros k [] | intros _ _ _; repeat split; assumption ] ]).
    all: try (assert (Hsame : b_urls s' = b_urls s /\ b_protocols s' = b_protocols s);
              [ try unfold kerr in H; try unfold berr in H; try unfold cbind in H;
                walk H; inversion H; try subst s'; clear H; rewrite ?b_cat_with_cat; split; reflexivity
              | destruct Hsame as [A1 A2]; constructor; unfold url_delta, prot_delta, dk; rewrite ?Hk;
                [ exact A1 | exact A2 | intros p [] | intros k [] | intro Hki; try discriminate Hki ] ]).
    { (* Description *)
      intros _ Hpn. unfold parent_not in Hpn. unfold kerr, berr, get_http, get_rpc in H.
      walk H; try (match goal with Hp : parent_dir anc = Some _ |- _ => rewrite Hp in Hpn end);
        try discriminate Hpn;
        inversion H; subst s'; clear H; rewrite ?b_cat_with_cat; repeat split; reflexivity. }
    { (* URL *)
      unfold kerr, cbind in H. walk H.
      all: destruct (check_path_fields _ _ _ _ Heqc) as [Hc1 [Hc2 [Hc3 Hc4]]].
      all: inversion H; subst s'; clear H; constructor; unfold url_delta, prot_delta, plain_path, dk; rewrite ?Hk, ?Heqp; cbn [kind_eqb b_urls b_protocols b_cat b_similar app];
        [ rewrite Hc2; reflexivity | exact Hc3 | intros q [<-|[]]; rewrite <- Hc2; assumption | intros k []
        | intros _ Hpl _; rewrite Hc1; repeat split; apply Hc4; destruct (path_parameters_checked p) as [[[|? ?]| |?]|?]; try discriminate Hpl; reflexivity ]. }
    1-5: unfold kerr, cbind in H; walk H;
      match goal with Hc : check_path _ _ ?p = COk _ |- _ => destruct (check_path_fields _ _ _ _ Hc) as [Hc1 [Hc2 [Hc3 Hc4]]] end;
      inversion H; subst s'; clear H; constructor; unfold url_delta, prot_delta, plain_path, dk; rewrite ?Hk; cbn [kind_eqb app]; rewrite ?b_cat_with_cat;
      [ simpl; exact Hc2 | simpl; exact Hc3 | intros q [] | intros k []
      | match goal with Hp : path_of _ _ = PathOk ?p |- _ => rewrite Hp;
          intros _ Hpl _; simpl; rewrite Hc1; repeat split; apply Hc4; destruct (path_parameters_checked p) as [[[|? ?]| |?]|?]; try discriminate Hpl; reflexivity end ].
    unfold kerr in H. walk H. inversion H; subst s'; clear H.
    constructor; unfold url_delta, prot_delta, dk; rewrite ?Hk, ?Heqo;
      change (kind_eqb KProtocol KProtocol) with true; change (kind_eqb KProtocol KURL) with false;
      cbn [app b_urls b_protocols b_cat b_similar].
    - reflexivity.
    - reflexivity.
    - intros q [].
    - intros k [<-|[]]. assumption.
    - intros _ _ _. repeat split; reflexivity.
  Qed.

  (* a run: the two lists grow by the deltas of the positions, and each new entry was absent when it was added *)
  Fixpoint urls_of (l : list (dtree * list dtree)) : list bytes :=
    match l with [] => [] | p :: r => urls_of r ++ url_delta (fst p) (snd p) end.
  Fixpoint prots_of (l : list (dtree * list dtree)) : list coords :=
    match l with [] => [] | p :: r => prots_of r ++ prot_delta (fst p) (snd p) end.

  Definition pos_plain (p : dtree * list dtree) : bool :=
    kind_in (dk (fst p)) inter_kinds && plain_path (fst p) (snd p) && parent_not (snd p) KInfo.

  Definition same_rest (s s' : bstate) : Prop :=
    c_jsight (b_cat s') = c_jsight (b_cat s) /\ c_info (b_cat s') = c_info (b_cat s) /\
    c_servers (b_cat s') = c_servers (b_cat s) /\ c_types (b_cat s') = c_types (b_cat s) /\
    c_enums (b_cat s') = c_enums (b_cat s) /\ b_similar s' = b_similar s.

  Lemma run_u l : forall s s', run body_text banned l s = COk s' ->
    b_urls s' = urls_of l ++ b_urls s /\ b_protocols s' = prots_of l ++ b_protocols s /\
    (forall p, In p (urls_of l) -> existsb (beq p) (b_urls s) = false) /\
    (forall k, In k (prots_of l) -> existsb (coords_eqb k) (b_protocols s) = false) /\
    NoDup (urls_of l) /\ NoDup (prots_of l) /\
    (forallb pos_plain l = true -> same_rest s s').
  Proof.
    induction l as [|[t anc] r IH]; intros s s' H.
    - simpl in H. inversion H; subst. simpl. repeat split; auto; try constructor; intros ? [].
    - simpl in H. destruct (add_directive body_text banned t anc s) as [s1| | |] eqn:E; try discriminate H.
      simpl in H. destruct (u_step _ _ _ _ E) as [U1 U2 U3 U4 U5].
      destruct (IH _ _ H) as [R1 [R2 [R3 [R4 [R5 [R6 R7]]]]]].
      cbn [urls_of prots_of fst snd].
      assert (X1 : forall p, In p (urls_of r) -> existsb (beq p) (url_delta t anc ++ b_urls s) = false) by (intros p Hp; rewrite <- U1; auto).
      assert (X2 : forall k, In k (prots_of r) -> existsb (coords_eqb k) (prot_delta t anc ++ b_protocols s) = false) by (intros p Hp; rewrite <- U2; auto).
      split; [rewrite R1, U1, app_assoc; reflexivity|].
      split; [rewrite R2, U2, app_assoc; reflexivity|].
      split; [|split; [|split; [|split]]].
      + intros p Hp. apply in_app_or in Hp. destruct Hp as [Hp|Hp]; [|auto].
        specialize (X1 _ Hp). rewrite existsb_app in X1. apply Bool.orb_false_iff in X1. apply X1.
      + intros p Hp. apply in_app_or in Hp. destruct Hp as [Hp|Hp]; [|auto].
        specialize (X2 _ Hp). rewrite existsb_app in X2. apply Bool.orb_false_iff in X2. apply X2.
      + unfold url_delta in *. destruct (kind_eqb (dk t) KURL); [|rewrite app_nil_r; exact R5].
        destruct (path_of (tree_dir t) anc); try (rewrite app_nil_r; exact R5).
        apply NoDup_app_single; [exact R5|]. intro Hin. specialize (X1 _ Hin). simpl in X1. rewrite beq_refl in X1. discriminate X1.
      + unfold prot_delta in *. destruct (kind_eqb (dk t) KProtocol); [|rewrite app_nil_r; exact R6].
        destruct (parent_dir anc); try (rewrite app_nil_r; exact R6).
        apply NoDup_app_single; [exact R6|]. intro Hin. specialize (X2 _ Hin). simpl in X2. rewrite coords_eqb_refl' in X2. discriminate X2.
      + intro Hall. cbn [forallb] in Hall. apply andb_prop in Hall. destruct Hall as [Hp Hr]. specialize (R7 Hr).
        unfold pos_plain in Hp. cbn [fst snd] in Hp. apply andb_prop in Hp. destruct Hp as [Hp Hp3]. apply andb_prop in Hp. destruct Hp as [Hp1 Hp2].
        specialize (U5 Hp1 Hp2 Hp3). unfold same_rest in *.
        destruct U5 as [a1 [a2 [a3 [a4 [a5 a6]]]]]. destruct R7 as [c1 [c2 [c3 [c4 [c5 c6]]]]].
        repeat split; congruence.
  Qed.
End UStep.


(* ---- small facts ---- *)
Lemma fold_add_new_incl l : forall acc n, In n (fold_left add_new l acc) -> In n acc \/ In n l.
Proof.
  induction l as [|x l IH]; intros acc n H; simpl in H; [left; exact H|].
  apply IH in H. destruct H as [H|H]; [|right; right; exact H].
  unfold add_new in H. destruct (existsb (beq x) acc); [left; exact H|].
  apply in_app_or in H. destruct H as [H|[<-|[]]]; [left; exact H|right; left; reflexivity].
Qed.

Lemma fold_add_new_length l : forall acc, (List.length acc <= List.length (fold_left add_new l acc))%nat.
Proof.
  induction l as [|x l IH]; intro acc; simpl; [lia|].
  specialize (IH (add_new acc x)). unfold add_new in *. destruct (existsb (beq x) acc); [lia|]. rewrite app_length in IH. simpl in IH. lia.
Qed.

Fixpoint nopath (t : dtree) : bool :=
  match t with DNode d ks => negb (kind_eqb (d_kind d) KPath) && forallb nopath ks end.

Lemma collect_paths_nopath pp t : nopath t = true -> forall anc dup acc, collect_paths pp t anc dup acc = COk acc.
Proof.
  induction t as [d ks IH] using dtree_ind2. intros Hn anc dup acc.
  cbn [nopath] in Hn. apply andb_prop in Hn. destruct Hn as [Hk Hks]. apply negb_true_iff in Hk.
  cbn [collect_paths tree_dir tree_kids]. destruct (kind_eqb (d_kind d) KMacro); [reflexivity|]. rewrite Hk. cbn [cbind].
  generalize (DNode d ks) as me. intro me. generalize false as seen.
  induction IH as [|k r Hk1 _ IHr]; intro seen; [reflexivity|].
  cbn [forallb] in Hks. apply andb_prop in Hks. destruct Hks as [Hk2 Hr].
  rewrite (Hk1 Hk2). cbn [cbind]. apply IHr. exact Hr.
Qed.

Lemma collect_paths_mid_nopath pp a t b acc : nopath t = true ->
  collect_paths_all pp (a ++ t :: b) acc = collect_paths_all pp (a ++ b) acc.
Proof.
  intro H. rewrite !collect_paths_all_app. destruct (collect_paths_all pp a acc); simpl; try reflexivity.
  rewrite (collect_paths_nopath pp t H). reflexivity.
Qed.

(* validate: the two body checks do not depend on the order *)
Definition req_ok (e : iid * interaction) : bool :=
  match snd e with
  | IHttp h => match hi_request h with Some rq => match q_body rq with None => false | Some _ => true end | None => true end
  | _ => true
  end.
Definition resp_ok (e : iid * interaction) : bool :=
  match snd e with
  | IHttp h => match find (fun x => match r_body x with None => true | Some _ => false end) (hi_responses h) with Some _ => false | None => true end
  | _ => true
  end.
Lemma first_bad_request_iff l : first_bad_request l = None <-> forallb req_ok l = true.
Proof.
  induction l as [|[i [h|r]] l IH]; cbn [first_bad_request forallb]; [tauto| |exact IH].
  unfold req_ok at 1. cbn [snd]. destruct (hi_request h) as [rq|]; [|exact IH].
  destruct (q_body rq); [exact IH|]. split; discriminate.
Qed.
Lemma first_bad_response_iff l : first_bad_response l = None <-> forallb resp_ok l = true.
Proof.
  induction l as [|[i [h|r]] l IH]; cbn [first_bad_response forallb]; [tauto| |exact IH].
  unfold resp_ok at 1. cbn [snd]. destruct (find _ (hi_responses h)); [|exact IH]. split; discriminate.
Qed.
Lemma forallb_perm {A} (f : A -> bool) l l' : Permutation l l' -> forallb f l = forallb f l'.
Proof. intro Hp. induction Hp; simpl; try congruence. destruct (f x), (f y); reflexivity. Qed.

Section RunInv.
  Variable body_text : coords -> bytes.
  Variable banned : list kind.
  Lemma run_inv post l : (forall p, In p l -> occurs post (fst p) (snd p)) ->
    forall s s', cat_inv post (b_cat s) -> run body_text banned l s = COk s' -> cat_inv post (b_cat s').
  Proof.
    induction l as [|p r IH]; intros Hocc s s' Hi H; simpl in H; [inversion H; subst; exact Hi|].
    destruct (add_directive body_text banned (fst p) (snd p) s) as [s1| | |] eqn:E; try discriminate H. simpl in H.
    apply (IH (fun q Hq => Hocc q (or_intror Hq)) s1 s'); [|exact H].
    exact (step_inv body_text banned post _ _ _ _ (Hocc p (or_introl eq_refl)) Hi E).
  Qed.
End RunInv.
