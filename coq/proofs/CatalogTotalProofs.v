(* C01 — totality of the catalog stage, on the model: Catalog.build answers (COk or CErr, never
   CPanic, never CFuel) on every forest the earlier stages can produce, and so does the whole
   chain  context resolution -> macro expansion -> catalog construction.

   Part A.  Expansion preserves admissibility: the expanded forest is again built by
            process_context / close_frame, and no MACRO directive is ever inserted.
   Part B.  Every CPanic of model/Catalog.v is unreachable on an admissible forest without MACRO
            roots: "nil Parent" (Description, BaseUrl, Body, Protocol, Method at top level) is excluded
            by root admissibility, "nil Info" (Title, Version, Description under INFO) by the INFO parent
            having been added first, the GPanic of PathParameters never happens (checked_total).
   Part C.  The composition with resolve_total (C06) and expand_total (C07). *)
From Coq Require Import List NArith Bool String Lia.
From JV.lib Require Import Bytes.
From JV.gen Require Import DirectiveTables TagName.
From JV.model Require Import ScannerSem Core Description PathParams TagTitle Catalog.
From JV.spec Require Import ContextSpec MacroSpec.
From JV.proofs Require Import PathParamsProofs ContextProofs MacroProofs StaticChecksProofs PathBindingProofs.
Import ListNotations.
Open Scope N_scope.

(* the conclusion of C06.resolve_admissible *)
Definition admissible (f : list dtree) : Prop :=
  Forall (fun t => root_allowed (d_kind (tree_dir t)) = true /\ edges_ok t = true) f.
Definition macro_free_roots (f : list dtree) : Prop := Forall (fun t => is_macro t = false) f.

Lemma ok_err_bind {A B} (x : cres A) (f : A -> cres B) :
  ok_err x -> (forall a, x = COk a -> ok_err (f a)) -> ok_err (x >>=c f).
Proof. destruct x; simpl; auto. Qed.

(* ------------------------------------------------------------------------------------------ *)
(* Part A                                                                                       *)
(* ------------------------------------------------------------------------------------------ *)

(* no directive admits a MACRO child: MACRO nodes can only be roots *)
Lemma no_parent_admits_macro k : ctx_allowed k KMacro = false.
Proof. destruct k; reflexivity. Qed.

Fixpoint nm_tree (t : dtree) : bool :=
  negb (is_macro t) && (fix go (ks : list dtree) : bool := match ks with [] => true | k :: r => nm_tree k && go r end) (tree_kids t).

Lemma nm_tree_eq t : nm_tree t = negb (is_macro t) && forallb nm_tree (tree_kids t).
Proof. destruct t as [d kids]. reflexivity. Qed.

Lemma kid_ok_nm p k : kid_ok p k = true -> is_macro k = false.
Proof.
  unfold kid_ok, is_macro. intros H. apply andb_prop in H as [H _].
  destruct (kind_eqb (d_kind (tree_dir k)) KMacro) eqn:E; [|reflexivity].
  apply sc_kind_eqb_eq in E. rewrite E, no_parent_admits_macro in H. discriminate.
Qed.

Lemma edges_ok_kids_nm t : edges_ok t = true -> forallb nm_tree (tree_kids t) = true.
Proof.
  apply (dtree_ind' (fun t => edges_ok t = true -> forallb nm_tree (tree_kids t) = true)).
  intros d kids IH H. rewrite edges_ok_node in H. cbn [tree_kids].
  rewrite forallb_forall in *. rewrite Forall_forall in IH. intros k Hk. specialize (H k Hk).
  rewrite nm_tree_eq, (kid_ok_nm _ _ H). cbn [negb andb]. apply (IH k Hk).
  unfold kid_ok in H. now apply andb_prop in H.
Qed.

Definition nm_zip (fr : list (directive * list dtree)) (rt : list dtree) : Prop :=
  Forall (fun x => kind_eqb (d_kind (fst x)) KMacro = false) fr /\ Forall (fun t => is_macro t = false) rt.

Lemma nm_close_frame fr rt : nm_zip fr rt -> nm_zip (fst (close_frame fr rt)) (snd (close_frame fr rt)).
Proof.
  destruct fr as [|[d kids] [|[pd pk] rest]]; [tauto| |]; intros [Hf Hr]; cbn [close_frame fst snd].
  - inversion Hf as [|? ? Hd _]; subst. split; [constructor|]. constructor; [exact Hd | exact Hr].
  - inversion Hf as [|? ? Hd Hf']; subst. inversion Hf' as [|? ? Hp Hf'']; subst. split; [|exact Hr].
    constructor; [exact Hp | exact Hf''].
Qed.

Lemma nm_close_all : forall n fr rt, nm_zip fr rt -> Forall (fun t => is_macro t = false) (close_all n fr rt).
Proof.
  induction n as [|n IH]; intros fr rt H; cbn [close_all]; [exact (proj2 H)|].
  destruct fr as [|x fr]; [exact (proj2 H)|].
  pose proof (nm_close_frame _ _ H) as H1. destruct (close_frame (x :: fr) rt) as [fr1 rt1]. exact (IH _ _ H1).
Qed.

Lemma close_to_inv : forall n target fr rt,
  zip_ok fr rt -> nm_zip fr rt ->
  zip_ok (fst (close_to n target fr rt)) (snd (close_to n target fr rt)) /\
  nm_zip (fst (close_to n target fr rt)) (snd (close_to n target fr rt)).
Proof.
  induction n as [|n IH]; intros target fr rt Hz Hn; cbn [close_to]; [auto|].
  destruct (Nat.leb (List.length fr) target); [auto|].
  pose proof (close_frame_ok _ _ Hz) as Hz1. pose proof (nm_close_frame _ _ Hn) as Hn1.
  destruct (close_frame fr rt) as [fr1 rt1]. exact (IH _ _ _ Hz1 Hn1).
Qed.

Lemma nm_pc : forall fuel d fr rt fr' rt',
  kind_eqb (d_kind d) KMacro = false -> nm_zip fr rt ->
  process_context fuel d fr rt = COk (fr', rt') -> nm_zip fr' rt'.
Proof.
  induction fuel as [|f IH]; intros d fr rt fr' rt' Hd Hn E; [discriminate|].
  destruct fr as [|[cd kids] rest]; cbn [process_context] in E.
  - destruct (root_allowed (d_kind d)); [|discriminate]. injection E as <- <-.
    split; [constructor; [exact Hd | constructor] | exact (proj2 Hn)].
  - destruct (ctx_allowed (d_kind cd) (d_kind d)).
    + destruct (is_http_method (d_kind d) && negb (beq (named d (bs "Path")) []) && kind_eqb (d_kind cd) KURL).
      * destruct (existsb _ _); [discriminate|]. injection E as <- <-.
        split; [apply Forall_cons; [exact Hd | apply Forall_nil] | exact (nm_close_all (S (List.length rest)) ((cd, kids) :: rest) rt Hn)].
      * injection E as <- <-. split; [constructor; [exact Hd | exact (proj1 Hn)] | exact (proj2 Hn)].
    + destruct (d_explicit cd); [discriminate|].
      pose proof (nm_close_frame _ _ Hn) as Hn1.
      destruct (close_frame ((cd, kids) :: rest) rt) as [fr1 rt1]. exact (IH _ _ _ _ _ Hd Hn1 E).
Qed.

Definition pinv (p : pstate) : Prop := zip_ok (ps_frames p) (ps_roots p) /\ nm_zip (ps_frames p) (ps_roots p).

Lemma paste_inv m :
  (forall n t, macro_lookup m n = Some t -> forallb nm_tree (tree_kids t) = true) ->
  forall fuel ts p p', forallb nm_tree ts = true -> pinv p -> paste_list fuel m ts p = COk p' -> pinv p'.
Proof.
  intros Hm. induction fuel as [|f IH]; intros ts p p' Hts Hp H; [discriminate|].
  rewrite paste_list_S in H. destruct ts as [|t r]; [injection H as <-; exact Hp|].
  cbn [forallb] in Hts. apply andb_prop in Hts as [Ht Hr].
  apply cbind_ok in H as (p2 & H2 & H). refine (IH _ _ _ Hr _ H). clear H.
  unfold paste_head in H2. cbv zeta in H2. destruct (is_paste t).
  - destruct (negb (beq (d_annot (tree_dir t)) [])); [discriminate|].
    destruct (beq (dname t) []); [discriminate|].
    destruct (macro_lookup m (dname t)) as [mt|] eqn:El; [|discriminate].
    destruct (paste_list f m (tree_kids mt) p) as [a| | |] eqn:Ep; try discriminate.
    injection H2 as <-. exact (IH _ _ _ (Hm _ _ El) Hp Ep).
  - apply cbind_ok in H2 as ([fr1 rt1] & Hc & H2). cbn [fst snd] in H2.
    apply cbind_ok in H2 as (p1 & Hk & H2).
    rewrite nm_tree_eq in Ht. apply andb_prop in Ht as [Hnm Hkids].
    apply negb_true_iff in Hnm. unfold is_macro in Hnm.
    assert (Hp1 : pinv (mk_pstate fr1 rt1)).
    { split; cbn [mk_pstate ps_frames ps_roots].
      - exact (pc_ok _ _ _ _ _ _ (proj1 Hp) Hc).
      - exact (nm_pc _ _ _ _ _ _ Hnm (proj2 Hp) Hc). }
    pose proof (IH _ _ _ Hkids Hp1 Hk) as Hp1'.
    destruct (d_explicit (tree_dir t)); [|injection H2 as <-; exact Hp1'].
    pose proof (close_to_inv (S (List.length (ps_frames p1))) (List.length fr1 - 1) _ _ (proj1 Hp1') (proj2 Hp1')) as Hc2.
    destruct (close_to _ _ _ _) as [fr2 rt2]. injection H2 as <-. exact Hc2.
Qed.

Lemma forallb_top_ok_admissible f : forallb top_ok f = true <-> admissible f.
Proof.
  unfold admissible. rewrite forallb_forall, Forall_forall. unfold top_ok.
  split; intros H t Ht; specialize (H t Ht); [now apply andb_prop in H | now apply andb_true_iff].
Qed.

Lemma expand_preserves_admissibility_lemma ts f :
  admissible ts -> expand ts = COk f -> admissible f /\ macro_free_roots f.
Proof.
  intros Ha H. apply expand_ok_inv in H as (rest & m & p & Hc & _ & Hp & ->).
  apply collect_macro_spec in Hc as (-> & -> & _). cbn [app] in Hp.
  unfold admissible in Ha. rewrite Forall_forall in Ha.
  assert (Hinv : pinv p).
  { refine (paste_inv _ _ _ _ _ _ _ _ Hp).
    - intros n t Hl. apply lookup_some_in in Hl. unfold macros_of in Hl. apply in_map_iff in Hl as (t0 & E & Hin).
      injection E as _ <-. apply filter_In in Hin as [Hin _]. apply edges_ok_kids_nm. exact (proj2 (Ha _ Hin)).
    - apply forallb_forall. intros t Ht. unfold strip_macros in Ht. apply filter_In in Ht as [Hin Hnm].
      rewrite nm_tree_eq, Hnm. apply edges_ok_kids_nm. exact (proj2 (Ha _ Hin)).
    - split; split; cbn; auto. }
  unfold forest_of_pstate. destruct Hinv as [Hz Hn]. split.
  - apply forallb_top_ok_admissible. rewrite forallb_rev. now apply (close_all_ok (List.length (ps_frames p))).
  - unfold macro_free_roots. apply Forall_rev. now apply nm_close_all.
Qed.

(* ------------------------------------------------------------------------------------------ *)
(* Part B                                                                                       *)
(* ------------------------------------------------------------------------------------------ *)

(* banned directives only add a diagnostic *)
Lemma add_directive_banned bt banned t anc b :
  add_directive bt banned t anc b =
  if kind_in (d_kind (tree_dir t)) banned then CErr (kw_err (tree_dir t) (CENotAllowed (d_kind (tree_dir t))))
  else add_directive bt [] t anc b.
Proof. unfold add_directive. cbv zeta. destruct (kind_in (d_kind (tree_dir t)) banned); reflexivity. Qed.

(* where a directive stands: at top level it is root-admissible; below a parent that admits it and is
   not a MACRO *)
Definition placed (k : kind) (anc : list dtree) : Prop :=
  match anc with
  | [] => root_allowed k = true
  | a :: _ => ctx_allowed (d_kind (tree_dir a)) k = true /\ d_kind (tree_dir a) <> KMacro
  end.
(* the INFO parent has been added *)
Definition info_ready (anc : list dtree) (b : bstate) : Prop :=
  parent_kind_is anc KInfo = true -> c_info (b_cat b) <> None.

Lemma check_path_ok_err d b p : ok_err (check_path d b p).
Proof.
  unfold check_path. destruct (checked_total_lemma p) as ([pp| |n] & ->); try exact I.
  destruct (check_similar_paths (b_similar b) pp); exact I.
Qed.

Lemma tags_go_ok_err td i ns : forall acc tg, ok_err (tags_go td i ns acc tg).
Proof.
  induction ns as [|n ns IH]; intros acc tg; cbn [tags_go]; [exact I|].
  destruct (om_get beq tg n) as [t|]; [|exact I]. destruct (t_auto t); [exact I | apply IH].
Qed.

Lemma tags_from_directive_ok_err td i tags : ok_err (tags_from_directive td i tags).
Proof.
  rewrite tags_from_directive_eq. destruct (negb (beq (d_annot td) [])); [exact I|].
  destruct (d_unnamed td); [exact I | apply tags_go_ok_err].
Qed.

Lemma tags_for_ok_err me anc i tags : ok_err (tags_for me anc i tags).
Proof. rewrite tags_for_eq. destruct (tags_directive me anc); [apply tags_from_directive_ok_err | exact I]. Qed.

Ltac crack_ok Hk :=
  repeat first
  [ match goal with
    | |- ok_err (kerr _ _) => exact I
    | |- ok_err (CErr _) => exact I
    | |- ok_err (COk _) => exact I
    | |- ok_err (berr _ _) => unfold berr, kerr
    | |- ok_err (add_request _ _ _) => unfold add_request; reduce_kind Hk
    | |- ok_err (add_response _ _ _) => unfold add_response; reduce_kind Hk
    | |- ok_err (COk _ >>=c _) => cbn [cbind]
    | |- ok_err (kerr _ _ >>=c _) => exact I
    | |- ok_err (check_path _ _ _ >>=c _) => apply ok_err_bind; [apply check_path_ok_err | intros ? _]
    | |- ok_err (tags_for _ _ _ _ >>=c _) => apply ok_err_bind; [apply tags_for_ok_err | intros ? _]
    | |- ok_err (tags_from_directive _ _ _ >>=c _) => apply ok_err_bind; [apply tags_from_directive_ok_err | intros ? _]
    | |- ok_err (match ?x with _ => _ end >>=c _) => destruct x eqn:?
    | |- ok_err (match ?x with _ => _ end) => destruct x eqn:?
    end ].

Lemma placed_not_root k anc : root_allowed k = false -> placed k anc -> exists a r, anc = a :: r.
Proof. intros Hr. destruct anc as [|a r]; [unfold placed; congruence | eauto]. Qed.

(* one directive: never a panic *)
Lemma step_ok_err bt t anc b :
  placed (d_kind (tree_dir t)) anc -> info_ready anc b -> ok_err (add_directive bt [] t anc b).
Proof.
  intros Hpl Hin.
  assert (Hinfo : forall k, d_kind (tree_dir t) = k -> (k = KTitle \/ k = KVersion) -> c_info (b_cat b) <> None).
  { intros k Hk Hor. apply Hin. rewrite Hk in Hpl. destruct anc as [|a r].
    - unfold placed in Hpl. destruct Hor as [-> | ->]; discriminate.
    - destruct Hpl as [Hc Hm]. unfold parent_kind_is, parent_dir. apply sc_kind_eqb_eq.
      destruct (d_kind (tree_dir a)); destruct Hor as [-> | ->]; try discriminate; congruence. }
  assert (Hpar : forall k, d_kind (tree_dir t) = k -> root_allowed k = false -> parent_dir anc <> None).
  { intros k Hk Hr. rewrite Hk in Hpl. destruct (placed_not_root _ _ Hr Hpl) as (a & r & ->). discriminate. }
  pose proof (fun (x : bstate) => step bt (t, anc) x) as dummy. clear dummy.
  change (ok_err (step bt (t, anc) b)).
  destruct (d_kind (tree_dir t)) eqn:Hk; step_kind Hk; crack_ok Hk.
  all: exfalso.
  all: try exact (Hinfo _ eq_refl (or_introl eq_refl) eq_refl).
  all: try exact (Hinfo _ eq_refl (or_intror eq_refl) eq_refl).
  all: try (apply (Hpar _ eq_refl eq_refl); assumption).
  all: try (destruct anc as [|a r]; [discriminate|]; apply (Hpar _ eq_refl eq_refl); discriminate).
  (* Description under INFO *)
  apply Hin; [|assumption]. unfold parent_kind_is.
  match goal with G : parent_dir anc = Some _ |- _ => rewrite G end. assumption.
Qed.

Lemma info_step_sets bt t anc b b' :
  d_kind (tree_dir t) = KInfo -> add_directive bt [] t anc b = COk b' -> c_info (b_cat b') <> None.
Proof.
  intros Hk. change (step bt (t, anc) b = COk b' -> c_info (b_cat b') <> None).
  step_kind Hk. crack Hk. intros H. injection H as <-. cbn. discriminate.
Qed.

Lemma ble_info b b' : ble b b' -> c_info (b_cat b) <> None -> c_info (b_cat b') <> None.
Proof.
  intros L H. destruct (c_info (b_cat b)) as [i|] eqn:E; [|congruence].
  destruct (cle_info _ _ (ble_cat _ _ L) i E) as (i' & -> & _). discriminate.
Qed.

Section Branch.
  Variable bt : coords -> bytes.
  Variable banned : list kind.

  Lemma add_directive_ok_err t anc b :
    placed (d_kind (tree_dir t)) anc -> info_ready anc b -> ok_err (add_directive bt banned t anc b).
  Proof.
    intros Hp Hi. rewrite add_directive_banned. destruct (kind_in _ banned); [exact I|]. now apply step_ok_err.
  Qed.

  Lemma add_directive_le t anc b b' : add_directive bt banned t anc b = COk b' -> ble b b'.
  Proof.
    rewrite add_directive_banned. destruct (kind_in _ banned); [discriminate|]. exact (step_le bt (t, anc) b b').
  Qed.

  Lemma add_directive_info t anc b b' :
    d_kind (tree_dir t) = KInfo -> add_directive bt banned t anc b = COk b' -> c_info (b_cat b') <> None.
  Proof.
    intros Hk. rewrite add_directive_banned. destruct (kind_in _ banned); [discriminate|]. now apply info_step_sets.
  Qed.

  (* a whole branch: no panic, and what it returns only grew *)
  Lemma add_branch_total t : forall anc b,
    edges_ok t = true -> is_macro t = false -> placed (d_kind (tree_dir t)) anc -> info_ready anc b ->
    ok_err (add_branch bt banned t anc b) /\ (forall b', add_branch bt banned t anc b = COk b' -> ble b b').
  Proof.
    apply (dtree_ind' (fun t => forall anc b,
      edges_ok t = true -> is_macro t = false -> placed (d_kind (tree_dir t)) anc -> info_ready anc b ->
      ok_err (add_branch bt banned t anc b) /\ (forall b', add_branch bt banned t anc b = COk b' -> ble b b'))).
    intros d kids IH anc b He Hnm Hpl Hin. cbn [add_branch tree_kids].
    pose proof (add_directive_ok_err (DNode d kids) anc b Hpl Hin) as H0.
    destruct (add_directive bt banned (DNode d kids) anc b) as [b1| | |] eqn:E1; try contradiction; [|split; [exact I | discriminate]].
    cbn [cbind]. pose proof (add_directive_le _ _ _ _ E1) as L1.
    (* the children, with the state the INFO directive left behind *)
    assert (Hq1 : d_kind d = KInfo -> c_info (b_cat b1) <> None) by (intros Hk; exact (add_directive_info (DNode d kids) anc b b1 Hk E1)).
    rewrite edges_ok_node in He.
    assert (Hnmk : d_kind d <> KMacro).
    { intros X. unfold is_macro in Hnm. cbn [tree_dir] in Hnm. rewrite X in Hnm. discriminate. }
    assert (HT : tree_dir (DNode d kids) = d) by reflexivity.
    clear E1 H0 Hnm Hpl Hin. revert b1 L1 Hq1 HT. generalize (DNode d kids) as T. intros T.
    induction IH as [|k r Hk _ IHr]; intros b1 L1 Hq1 HT.
    - split; [exact I|]. intros b' H. injection H as <-. exact L1.
    - cbn [forallb] in He. apply andb_prop in He as [Hkid Hrest].
      pose proof (kid_ok_nm _ _ Hkid) as Hknm. unfold kid_ok in Hkid. apply andb_prop in Hkid as [Hadm Hedges].
      assert (Hplk : placed (d_kind (tree_dir k)) (T :: anc)) by (unfold placed; rewrite HT; auto).
      assert (Hink : info_ready (T :: anc) b1).
      { unfold info_ready, parent_kind_is, parent_dir. rewrite HT. intros X. apply sc_kind_eqb_eq in X. exact (Hq1 X). }
      destruct (Hk (T :: anc) b1 Hedges Hknm Hplk Hink) as [Hok Hle].
      destruct (add_branch bt banned k (T :: anc) b1) as [b2| | |] eqn:E2; try contradiction; [|split; [exact I | discriminate]].
      cbn [cbind]. pose proof (Hle b2 eq_refl) as L2.
      apply (IHr Hrest b2 (ble_trans _ _ _ L1 L2)); [|exact HT].
      intros X. exact (ble_info _ _ L2 (Hq1 X)).
  Qed.

  Lemma add_all_total ts : forall b,
    admissible ts -> macro_free_roots ts ->
    ok_err (add_all bt banned ts b).
  Proof.
    induction ts as [|t r IH]; intros b Ha Hm; [exact I|]. cbn [add_all].
    inversion Ha as [|? ? [Hr He] Ha']; subst. inversion Hm as [|? ? Hnm Hm']; subst.
    assert (Hin : info_ready [] b) by (unfold info_ready, parent_kind_is, parent_dir; discriminate).
    destruct (add_branch_total t [] b He Hnm Hr Hin) as [Hok _].
    destruct (add_branch bt banned t [] b); try contradiction; [|exact I]. cbn [cbind]. now apply IH.
  Qed.
End Branch.

(* ---- the other stages ---- *)
Lemma collect_enums_ok_err ts : forall e, ok_err (collect_enums ts e).
Proof.
  induction ts as [|t r IH]; intros e; cbn [collect_enums]; [exact I|].
  destruct (kind_eqb _ KEnum); [|apply IH]. destruct (beq _ []); [exact I|].
  destruct (d_body _); [|apply IH]. destruct (om_has _ _ _); [exact I | apply IH].
Qed.

Lemma collect_tags_ok_err ts : forall e, ok_err (collect_tags ts e).
Proof.
  induction ts as [|t r IH]; intros e; cbn [collect_tags]; [exact I|].
  destruct (kind_eqb _ KTAG); [|apply IH]. destruct (beq _ []); [exact I|].
  destruct (om_has _ _ _); [exact I | apply IH].
Qed.

Lemma check_dup_types_ok_err ts : forall s, ok_err (check_dup_types ts s).
Proof.
  induction ts as [|t r IH]; intros s; cbn [check_dup_types]; [exact I|].
  destruct (kind_eqb _ KType); [|apply IH]. destruct (beq _ []); [apply IH|].
  destruct (existsb _ _); [exact I | apply IH].
Qed.

Lemma cp_node_ok_err pp x acc : ok_err (cp_node pp x acc).
Proof.
  unfold cp_node. destruct (kind_eqb _ KPath); [|exact I]. destruct (negb _); [exact I|].
  destruct (d_body _); [|exact I]. destruct (path_of _ _) as [p| |]; try exact I.
  destruct (checked_total_lemma p) as ([ps| |n] & ->); try exact I.
  destruct (parent_dir _); [|exact I]. destruct (pn_dup x); [exact I|]. destruct (pp c); exact I.
Qed.

Lemma cp_run_ok_err pp l : forall acc, ok_err (cp_run pp l acc).
Proof.
  induction l as [|x l IH]; intros acc; [exact I|]. cbn [cp_run].
  apply ok_err_bind; [apply cp_node_ok_err | intros a _; apply IH].
Qed.

Lemma collect_paths_all_ok_err pp ts acc : ok_err (collect_paths_all pp ts acc).
Proof. rewrite collect_paths_all_run. apply cp_run_ok_err. Qed.

Lemma bind_one_ok_err params : forall props all d, ok_err (bind_one params props all d).
Proof.
  induction params as [|[pf nm] r IH]; intros props all d; cbn [bind_one]; [exact I|].
  destruct (existsb _ _); [|apply IH]. destruct (om_has _ _ _); [exact I | apply IH].
Qed.

Lemma bind_all_ok_err pvs : forall all, ok_err (bind_all pvs all).
Proof.
  induction pvs as [|v r IH]; intros all; [exact I|]. cbn [bind_all].
  apply ok_err_bind; [apply bind_one_ok_err|]. intros x _. destruct (fst x); [apply IH | exact I].
Qed.

Lemma validate_ok_err c : ok_err (validate c).
Proof.
  unfold validate. apply ok_err_bind.
  - destruct (c_info c); [|exact I]. destruct (_ && _); exact I.
  - intros a _. destruct (first_bad_request _); [exact I|]. destruct (first_bad_response _); exact I.
Qed.

(* build_never_panics *)
Lemma build_never_panics_lemma pp bt banned post :
  admissible post -> macro_free_roots post -> ok_err (build pp bt banned post).
Proof.
  intros Ha Hm. unfold build.
  apply ok_err_bind; [apply collect_enums_ok_err | intros en _].
  apply ok_err_bind; [apply collect_tags_ok_err | intros tg _].
  apply ok_err_bind; [apply check_dup_types_ok_err | intros u _].
  apply ok_err_bind; [apply collect_paths_all_ok_err | intros pvs _].
  destruct post as [|first rest].
  - apply ok_err_bind; [apply bind_all_ok_err | intros all _; apply validate_ok_err].
  - destruct (negb _); [exact I|].
    apply ok_err_bind; [now apply add_all_total | intros b _].
    apply ok_err_bind; [apply bind_all_ok_err | intros all _; apply validate_ok_err].
Qed.

(* the hypothesis about MACRO roots cannot be dropped ON THE MODEL: a MACRO that stayed in the forest
   (no stage leaves one: collect_macro takes them all) would have its Title child added with no INFO *)
Lemma macro_root_panics_example :
  exists post, admissible post /\
    build (fun _ => None) (fun _ => []) [] post = CPanic "nil Info".
Proof.
  exists [C11Examples.D KJsight 0 [C11Examples.p "Version" "0.3"] [] None [];
          C11Examples.D KMacro 10 [C11Examples.p "Name" "@m"] [] None [C11Examples.D KTitle 11 [C11Examples.p "Title" "T"] [] None []]].
  split; [|vm_compute; reflexivity].
  repeat constructor.
Qed.

(* ------------------------------------------------------------------------------------------ *)
(* Part C: resolution -> expansion -> catalog                                                   *)
(* ------------------------------------------------------------------------------------------ *)
Definition pipeline (pp : coords -> option (list bytes)) (bt : coords -> bytes) (banned : list kind) (l : list item)
  : cres catalog :=
  resolve_all l >>=c fun f => expand f >>=c fun post => build pp bt banned post.

Lemma resolve_all_ok_err l : ok_err (resolve_all l).
Proof.
  unfold resolve_all. destruct (resolve_total l) as [[st ->] | [e ->]]; [|exact I].
  cbn [cbind]. destruct (has_unclosed_explicit (fst st)); exact I.
Qed.

Lemma expanded_forest_never_panics_lemma pp bt banned f post :
  admissible f -> expand f = COk post -> ok_err (build pp bt banned post).
Proof.
  intros Ha He. destruct (expand_preserves_admissibility_lemma _ _ Ha He) as [Ha' Hm].
  now apply build_never_panics_lemma.
Qed.

Lemma pipeline_total_lemma pp bt banned l : ok_err (pipeline pp bt banned l).
Proof.
  unfold pipeline. apply ok_err_bind; [apply resolve_all_ok_err | intros f Hf].
  apply ok_err_bind; [exact (expand_total_lemma f) | intros post He].
  exact (expanded_forest_never_panics_lemma pp bt banned f post (ContextProofs.resolve_admissible l f Hf) He).
Qed.
