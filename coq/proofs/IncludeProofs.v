(* C08: INCLUDE in the core model (model/Core.v): rejections, the scanner stack never holds a
   file name twice (so include chains are bounded by the number of file names), the only
   names ever looked up in the file system are join2 (dir includer) name for a name accepted
   by the REGENERATED validator, and the result of the scan does not depend on anything else
   in the file system.

   The scanner (sc_next) is treated as given: nothing is assumed about the lexemes it returns,
   nor about jsc_len / enum_len. *)
From Coq Require Import List NArith Bool String Lia.
From JV.lib Require Import Bytes Paths.
From JV.gen Require Import DirectiveTables ScannerTable IncludeName.
From JV.model Require Import ScannerSem Params Description Jerr Core.
From JV.proofs Require Import BytesLemmas IncludeNameProofs PathsProofs.
Import ListNotations.
Open Scope N_scope.

(* ---- general facts ---- *)

Definition stack_names (s : cstate) : list bytes := map (fun x => sc_file (fst x)) (cs_stack s).

Lemma sc_next_same_file jsc enum x x1 ol :
  sc_next jsc enum x = Ok (x1, ol) ->
  sc_file x1 = sc_file x /\ sc_data x1 = sc_data x /\ sc_size x1 = sc_size x.
Proof.
  unfold sc_next. destruct (next _ _ _ _ _ _) as [r| | |]; simpl; try discriminate.
  intros H. inversion H; subst. simpl. repeat split.
Qed.

Lemma close_frame_length fr rt :
  List.length (fst (close_frame fr rt)) = pred (List.length fr).
Proof.
  destruct fr as [|[d k] [|[pd pk] rest]]; reflexivity.
Qed.

(* processContext always answers within its fuel: it never panics and never runs dry *)
Lemma process_context_total fuel : forall d fr rt,
  (List.length fr < fuel)%nat ->
  (exists r, process_context fuel d fr rt = COk r) \/ (exists e, process_context fuel d fr rt = CErr e).
Proof.
  induction fuel as [|f IH]; intros d fr rt Hlt; [lia|].
  simpl. destruct fr as [|[cd kids] rest].
  - destruct (root_allowed (d_kind d)); [left|right]; eexists; reflexivity.
  - destruct (ctx_allowed (d_kind cd) (d_kind d)).
    + match goal with |- context [if ?c then (if ?c2 then _ else _) else _] => destruct c; [destruct c2|] end;
        [right|left|left]; eexists; reflexivity.
    + destruct (d_explicit cd); [right; eexists; reflexivity|].
      pose proof (close_frame_length ((cd, kids) :: rest) rt) as HL.
      destruct (close_frame ((cd, kids) :: rest) rt) as [fr' rt'] eqn:E.
      apply IH. simpl in HL. simpl in Hlt. lia.
Qed.

Lemma flush_cur_total s :
  (exists s1, flush_cur s = COk s1) \/ (exists e, flush_cur s = CErr e).
Proof.
  unfold flush_cur. destruct (cs_cur s) as [d|]; [|left; eexists; reflexivity].
  destruct (process_context_total (ctx_fuel (cs_frames s)) d (cs_frames s) (cs_roots s)) as [[r H]|[e H]];
    [unfold ctx_fuel; lia| |]; rewrite H; simpl; [left|right]; eexists; reflexivity.
Qed.

Lemma flush_cur_keeps s s1 :
  flush_cur s = COk s1 ->
  cs_sc s1 = cs_sc s /\ cs_stack s1 = cs_stack s /\ cs_tracers s1 = cs_tracers s /\ cs_cur s1 = None.
Proof.
  unfold flush_cur. destruct (cs_cur s) as [d|] eqn:Ec.
  - destruct (process_context _ _ _ _) as [r| | |]; simpl; try discriminate.
    intros H; inversion H; subst; simpl. repeat split.
  - intros H; inversion H; subst. repeat split; assumption.
Qed.

Lemma with_scan_trace_ok {A} s (r : cres A) a : with_scan_trace s r = COk a <-> r = COk a.
Proof.
  unfold with_scan_trace. destruct r as [x|e|w|]; try tauto.
  destruct (ce_trace e); split; discriminate.
Qed.

Lemma with_scan_trace_err {A} s (r : cres A) e :
  r = CErr e ->
  exists e', with_scan_trace s r = CErr e' /\ ce_file e' = ce_file e /\ ce_idx e' = ce_idx e /\ ce_kind e' = ce_kind e /\
             (ce_trace e' = ce_trace e \/ ce_trace e = [] /\ ce_trace e' = stack_trace (cs_stack s)).
Proof.
  intros ->. unfold with_scan_trace. destruct (ce_trace e) eqn:Et.
  - eexists; split; [reflexivity|]; simpl. repeat split. right; split; reflexivity.
  - eexists; split; [reflexivity|]. repeat split. left. congruence.
Qed.

(* an error located by scan_err in a state with the stack of s is returned as it is *)
Lemma with_scan_trace_scan_err {A} s s1 idx k :
  cs_stack s1 = cs_stack s ->
  with_scan_trace (A:=A) s (CErr (scan_err s1 idx k)) = CErr (scan_err s1 idx k).
Proof.
  intros Hs. unfold with_scan_trace, scan_err; simpl. rewrite Hs.
  destruct (stack_trace (cs_stack s)); reflexivity.
Qed.

(* the validator answers (does not panic) only on a non-empty name *)
Lemma validate_ok_nonempty path r : validateIncludeFileName path = GOk r -> beq path [] = false.
Proof. destruct path; [vm_compute; discriminate|reflexivity]. Qed.

Section Inc.
  Variable jsc_len enum_len : bytes -> len_result.
  Variable files : fsys.
  Variable banned : list kind.

  Local Notation sc_next := (Core.sc_next jsc_len enum_len).
  Local Notation process_include := (Core.process_include jsc_len enum_len files banned).
  Local Notation process_keyword := (Core.process_keyword banned).
  Local Notation process_lexeme := (Core.process_lexeme jsc_len enum_len files banned).
  Local Notation scan_project := (Core.scan_project jsc_len enum_len files banned).

  (* "the file name of this INCLUDE is [path]": INCLUDE is not banned, the next lexeme of the
     same scanner is a Parameter with text [raw] and [path] is that text without its quotes
     (the name may be written "in quotes"); x1 = the scanner after that lexeme *)
  Definition include_param (s : cstate) (x1 : scn) (path : bytes) : Prop :=
    kind_in KInclude banned = false /\
    exists pl raw, sc_next (cs_sc s) = Ok (x1, Some pl) /\ lexkind_eqb (lk pl) LParameter = true /\
                   value_of x1 pl = COk raw /\ path = lib_unquote raw.

  (* the error every refusal of an INCLUDE carries: in the including file, at the keyword, with
     the trace of the scanner stack as it was (nothing was pushed) *)
  Definition include_error (s : cstate) (l : lexeme) (k : cerr_kind) : cerr :=
    {| ce_file := sc_file (cs_sc s); ce_idx := lb l; ce_kind := k; ce_trace := stack_trace (cs_stack s) |}.

  Lemma include_error_eq s x1 ol l k :
    sc_next (cs_sc s) = Ok (x1, ol) -> scan_err (upd_sc s x1) (lb l) k = include_error s l k.
  Proof.
    intros H. apply sc_next_same_file in H. destruct H as [Hf _].
    unfold scan_err, include_error; simpl. rewrite Hf. reflexivity.
  Qed.

  Ltac open_include Hp :=
    destruct Hp as [Hb [pl [raw [Hn [Hk [Hv Hpath]]]]]];
    unfold Core.process_include; rewrite Hb, Hn, Hk; cbn [negb]; rewrite Hv; cbn [cbind]; cbv zeta;
    rewrite <- Hpath; cbn [cs_stack cs_sc upd_sc].

  Lemma include_bad_name_rejected_lemma s l x1 path msg :
    include_param s x1 path ->
    validateIncludeFileName path = GOk (Some msg) ->
    process_include s l = CErr (include_error s l CEIncludeBadName).
  Proof.
    intros Hp Hval. open_include Hp. rewrite (validate_ok_nonempty _ _ Hval), Hval.
    f_equal. eapply include_error_eq; exact Hn.
  Qed.

  Lemma include_missing_rejected_lemma s l x1 path :
    include_param s x1 path ->
    validateIncludeFileName path = GOk None ->
    fs_stat files (join2 (dir (sc_file (cs_sc s))) path) = None ->
    process_include s l = CErr (include_error s l CEIncludeNotExist).
  Proof.
    intros Hp Hval Hst. open_include Hp. rewrite (validate_ok_nonempty _ _ Hval), Hval.
    destruct (sc_next_same_file _ _ _ _ _ Hn) as [Hf _]. rewrite Hf, Hst.
    f_equal. eapply include_error_eq; exact Hn.
  Qed.

  Lemma include_directory_rejected_lemma s l x1 path :
    include_param s x1 path ->
    validateIncludeFileName path = GOk None ->
    fs_stat files (join2 (dir (sc_file (cs_sc s))) path) = Some FDir ->
    process_include s l = CErr (include_error s l CEIncludeIsDir).
  Proof.
    intros Hp Hval Hst. open_include Hp. rewrite (validate_ok_nonempty _ _ Hval), Hval.
    destruct (sc_next_same_file _ _ _ _ _ Hn) as [Hf _]. rewrite Hf, Hst.
    f_equal. eapply include_error_eq; exact Hn.
  Qed.

  (* the EMPTY name (written "": the name may be quoted) is refused like a missing one, before the
     validator (which would index s[0]) is called *)
  Lemma include_empty_name_rejected_lemma s l x1 :
    include_param s x1 [] -> process_include s l = CErr (include_error s l CEIncludeNoParam).
  Proof.
    intros Hp. open_include Hp. cbn [beq]. f_equal. eapply include_error_eq; exact Hn.
  Qed.

  (* processInclude never panics in validateIncludeFileName: a panic can only be one of the
     scanner (Next) or of taking the text of the parameter lexeme *)
  Lemma include_no_validator_panic_lemma s l w :
    process_include s l = CPanic w ->
    sc_next (cs_sc s) = Panic w \/
    exists x1 pl, sc_next (cs_sc s) = Ok (x1, Some pl) /\ value_of x1 pl = CPanic w.
  Proof.
    unfold Core.process_include.
    destruct (kind_in KInclude banned); [discriminate|].
    destruct (sc_next (cs_sc s)) as [[x1 ol]| |w'|] eqn:Hn; try discriminate.
    - destruct ol as [pl|]; [|discriminate].
      destruct (negb (lexkind_eqb (lk pl) LParameter)); [discriminate|].
      destruct (value_of x1 pl) as [raw| |w'|] eqn:Hv; cbn [cbind]; try discriminate.
      + cbv zeta. generalize (lib_unquote raw). intros path.
        destruct (beq path []) eqn:Hne; [discriminate|].
        assert (Hp : path <> []) by (intros ->; discriminate).
        destruct (include_name_total_nonempty path Hp) as [r Hr]. rewrite Hr.
        destruct r; [discriminate|].
        destruct (fs_stat files _) as [[c|]|]; try discriminate.
        destruct (existsb _ _); discriminate.
      + intros H; inversion H; subst. right. exists x1, pl. split; reflexivity || assumption.
    - intros H; inversion H; subst. left; reflexivity.
  Qed.

  Lemma existsb_stack_name n st :
    existsb (fun e : scn * N => beq (sc_file (fst e)) n) st = true <-> In n (map (fun x => sc_file (fst x)) st).
  Proof.
    rewrite existsb_exists, in_map_iff. split.
    - intros [x [Hin Hb]]. apply beq_eq in Hb. exists x; split; assumption.
    - intros [x [He Hin]]. exists x; split; [assumption|]. apply beq_eq; assumption.
  Qed.

  (* Stack.Push refuses a scanner whose file name is already on the stack *)
  Lemma include_cycle_rejected_lemma s l x1 path content :
    include_param s x1 path ->
    validateIncludeFileName path = GOk None ->
    fs_stat files (join2 (dir (sc_file (cs_sc s))) path) = Some (FFile content) ->
    In (sc_file (cs_sc s)) (stack_names s) ->
    process_include s l = CErr (include_error s l CEIncludeRecursion).
  Proof.
    intros Hp Hval Hst Hin. open_include Hp. rewrite (validate_ok_nonempty _ _ Hval), Hval.
    destruct (sc_next_same_file _ _ _ _ _ Hn) as [Hf _]. rewrite Hf, Hst.
    apply existsb_stack_name in Hin. unfold stack_names in Hin. rewrite Hin.
    f_equal. eapply include_error_eq; exact Hn.
  Qed.

  (* the only way an INCLUDE succeeds *)
  Lemma process_include_ok_inv s l s' :
    process_include s l = COk s' ->
    exists x1 path content,
      include_param s x1 path /\
      validateIncludeFileName path = GOk None /\
      fs_stat files (join2 (dir (sc_file (cs_sc s))) path) = Some (FFile content) /\
      ~ In (sc_file (cs_sc s)) (stack_names s) /\
      sc_file x1 = sc_file (cs_sc s) /\
      s' = upd_stack (upd_sc s x1) (new_scanner (join2 (dir (sc_file (cs_sc s))) path) content)
                     ((x1, lb l) :: cs_stack s).
  Proof.
    unfold Core.process_include.
    destruct (kind_in KInclude banned) eqn:Hb; [discriminate|].
    destruct (sc_next (cs_sc s)) as [[x1 ol]| | |] eqn:Hn; try discriminate.
    destruct (sc_next_same_file _ _ _ _ _ Hn) as [Hf _].
    destruct ol as [pl|]; [|discriminate].
    destruct (lexkind_eqb (lk pl) LParameter) eqn:Hk; simpl; [|discriminate].
    destruct (value_of x1 pl) as [raw| | |] eqn:Hv; cbn [cbind]; try discriminate.
    cbv zeta. remember (lib_unquote raw) as path eqn:Hpath.
    destruct (beq path []); [discriminate|].
    destruct (validateIncludeFileName path) as [[m|]|w] eqn:Hval; try discriminate.
    rewrite Hf.
    destruct (fs_stat files (join2 (dir (sc_file (cs_sc s))) path)) as [[content|]|] eqn:Hst; try discriminate.
    destruct (existsb _ _) eqn:Hex; [discriminate|].
    intros H; injection H as Hs'; subst s'.
    exists x1, path, content. repeat split; try assumption.
    - exists pl, raw. repeat split; assumption.
    - intros Hin. apply existsb_stack_name in Hin. unfold stack_names in Hin. congruence.
  Qed.

  (* ---- JSIGHT in an included file ---- *)
  Lemma jsight_in_include_rejected_lemma s l :
    cs_stack s <> [] ->
    exists e, process_keyword s l (kind_keyword KJsight) = CErr e /\
      (flush_cur s = CErr e  (* the directive read before it was already misplaced: that error comes first *)
       \/ e = include_error s l CEJsightInInclude).
  Proof.
    intros Hne. unfold Core.process_keyword.
    destruct (flush_cur_total s) as [[s1 H1]|[e H1]]; rewrite H1; simpl.
    - destruct (flush_cur_keeps _ _ H1) as [Hsc [Hst _]].
      rewrite Hst. destruct (cs_stack s) as [|x r] eqn:Es; [congruence|]. simpl.
      eexists; split; [reflexivity|]. right.
      unfold scan_err, include_error. rewrite Hsc, Hst, Es. reflexivity.
    - exists e. split; [reflexivity|left; reflexivity].
  Qed.

  (* ---- what a step does to the scanner stack ---- *)

  Lemma process_keyword_keeps s l kw s' :
    process_keyword s l kw = COk s' -> cs_sc s' = cs_sc s /\ cs_stack s' = cs_stack s.
  Proof.
    unfold Core.process_keyword.
    destruct (flush_cur s) as [s1| | |] eqn:H1; simpl; try discriminate.
    destruct (flush_cur_keeps _ _ H1) as [Hsc [Hst _]].
    destruct (_ && _); [discriminate|].
    destruct (directive_type kw) as [k|]; [|discriminate].
    destruct (kind_in k banned); [discriminate|].
    destruct (directive_tracer s1) as [tr cache].
    intros H; inversion H; subst; simpl. split; assumption.
  Qed.

  Lemma process_parameter_keeps s l s' :
    process_parameter s l = COk s' -> cs_sc s' = cs_sc s /\ cs_stack s' = cs_stack s.
  Proof.
    unfold process_parameter. destruct (cs_cur s) as [d|]; [|discriminate].
    destruct (value_of (cs_sc s) l) as [v| | |]; simpl; try discriminate.
    destruct (append_parameter (d_kind d) v) as [k x|x|]; try discriminate.
    - destruct (has_named d k); [discriminate|]. intros H; inversion H; subst; split; reflexivity.
    - intros H; inversion H; subst; split; reflexivity.
  Qed.

  (* every lexeme but a successful INCLUDE leaves scanner and stack alone; before an INCLUDE the
     pending directive is placed (s0 = the state after that) *)
  Lemma process_lexeme_stack s l s' :
    process_lexeme s l = COk s' ->
    (cs_sc s' = cs_sc s /\ cs_stack s' = cs_stack s) \/
    (exists kw s0, lexkind_eqb (lk l) LKeyword = true /\ value_of (cs_sc s) l = COk kw /\
                beq kw (kind_keyword KInclude) = true /\ flush_cur s = COk s0 /\ process_include s0 l = COk s').
  Proof.
    unfold Core.process_lexeme.
    destruct (lexkind_eqb (lk l) LKeyword) eqn:Hk.
    - destruct (value_of (cs_sc s) l) as [kw| | |] eqn:Hv; cbn [cbind]; try discriminate.
      destruct (beq kw (kind_keyword KInclude)) eqn:Hi.
      + destruct (flush_cur s) as [s0| | |] eqn:H0; cbn [cbind]; try discriminate.
        intros H. right. exists kw, s0. repeat split; assumption.
      + intros H. left. eapply process_keyword_keeps; exact H.
    - destruct (lexkind_eqb (lk l) LContextExplicitClosing).
      + destruct (flush_cur s) as [s1| | |] eqn:H1; cbn [cbind]; try discriminate.
        destruct (flush_cur_keeps _ _ H1) as [Hsc [Hst _]].
        destruct (close_explicit _ _ _); [|discriminate].
        intros H; inversion H; subst; simpl. left; split; assumption.
      + destruct (cs_cur s) as [d|]; [|discriminate].
        destruct (lexkind_eqb (lk l) LParameter).
        { intros H. left. eapply process_parameter_keeps; exact H. }
        destruct (lexkind_eqb (lk l) LAnnotation).
        { destruct (value_of (cs_sc s) l); cbn [cbind]; try discriminate.
          intros H; inversion H; subst; left; split; reflexivity. }
        destruct (_ || _).
        { intros H; inversion H; subst; left; split; reflexivity. }
        destruct (lexkind_eqb (lk l) LContextExplicitOpening); [|discriminate].
        intros H; inversion H; subst; left; split; reflexivity.
  Qed.

  (* placing the pending directive leaves the names of the suspended scanners alone *)
  Lemma flush_cur_stack_names s s0 : flush_cur s = COk s0 -> stack_names s0 = stack_names s /\ cs_sc s0 = cs_sc s.
  Proof.
    intros H. destruct (flush_cur_keeps _ _ H) as [Hsc [Hst _]]. unfold stack_names. rewrite Hst. split; [reflexivity|exact Hsc].
  Qed.

  (* ---- the run as a sequence of steps ---- *)

  Inductive scan_step (s : cstate) : cstate -> Prop :=
  | step_lexeme x1 l s' :
      sc_next (cs_sc s) = Ok (x1, Some l) ->
      process_lexeme (upd_sc s x1) l = COk s' ->
      scan_step s s'
  | step_pop x1 s1 x at_ rest :
      sc_next (cs_sc s) = Ok (x1, None) ->
      flush_cur (upd_sc s x1) = COk s1 ->
      has_unclosed_explicit (cs_frames s1) = false ->
      cs_stack s1 = (x, at_) :: rest ->
      scan_step s (upd_stack s1 x rest).

  Inductive scan_reach (s : cstate) : cstate -> Prop :=
  | reach_refl : scan_reach s s
  | reach_step s1 s2 : scan_reach s s1 -> scan_step s1 s2 -> scan_reach s s2.

  Lemma scan_project_step f s s' : scan_step s s' -> scan_project (S f) s = scan_project f s'.
  Proof.
    intros H. simpl. destruct H as [x1 l s' Hn Hp | x1 s1 x at_ rest Hn Hf Hu Hst].
    - rewrite Hn, Hp. reflexivity.
    - rewrite Hn, Hf. simpl. rewrite Hu, Hst. reflexivity.
  Qed.

  (* one unfolding of scanProject: a step, or the end *)
  Lemma scan_project_cases f s :
    (exists s', scan_step s s' /\ scan_project (S f) s = scan_project f s') \/
    (exists x1 s1, sc_next (cs_sc s) = Ok (x1, None) /\ flush_cur (upd_sc s x1) = COk s1 /\
                   cs_stack s1 = [] /\ scan_project (S f) s = COk s1) \/
    (forall s', scan_project (S f) s <> COk s').
  Proof.
    simpl. destruct (sc_next (cs_sc s)) as [[x1 [l|]]| | |] eqn:Hn; try (right; right; discriminate).
    - destruct (process_lexeme (upd_sc s x1) l) as [s'|e|w|] eqn:Hp.
      + left. exists s'. split; [eapply step_lexeme; eassumption|reflexivity].
      + right; right. simpl. destruct (ce_trace e); discriminate.
      + right; right; discriminate.
      + right; right; discriminate.
    - destruct (flush_cur (upd_sc s x1)) as [s1|e|w|] eqn:Hf.
      + simpl. destruct (has_unclosed_explicit (cs_frames s1)) eqn:Hu; [right; right; discriminate|].
        destruct (cs_stack s1) as [|[x at_] rest] eqn:Hst.
        * right; left. exists x1, s1. repeat split; first [assumption | reflexivity].
        * left. exists (upd_stack s1 x rest). split; [eapply step_pop; eassumption|reflexivity].
      + right; right. simpl. destruct (ce_trace e); discriminate.
      + right; right; discriminate.
      + right; right; discriminate.
  Qed.

  (* an invariant of the steps and of the last flush holds for the result *)
  Lemma scan_project_invariant (I : cstate -> Prop) :
    (forall s s', I s -> scan_step s s' -> I s') ->
    (forall s x1 s1, I s -> sc_next (cs_sc s) = Ok (x1, None) -> flush_cur (upd_sc s x1) = COk s1 -> I s1) ->
    forall fuel s s', I s -> scan_project fuel s = COk s' -> I s'.
  Proof.
    intros Hstep Hend. induction fuel as [|f IH]; intros s s' Hi Hr; [discriminate|].
    destruct (scan_project_cases f s) as [[s1 [Hs He]]|[[x1 [s1 [Hn [Hf [_ He]]]]]|Hno]].
    - rewrite He in Hr. eapply IH; [|exact Hr]. eapply Hstep; eassumption.
    - rewrite He in Hr. inversion Hr; subst. eapply Hend; eassumption.
    - exfalso. eapply Hno; exact Hr.
  Qed.

  (* the state in which the scan ends was reached by steps, followed by the last flush *)
  Lemma scan_project_reaches fuel : forall s s',
    scan_project fuel s = COk s' ->
    exists s0 x1, scan_reach s s0 /\ sc_next (cs_sc s0) = Ok (x1, None) /\
                  flush_cur (upd_sc s0 x1) = COk s' /\ cs_stack s' = [].
  Proof.
    induction fuel as [|f IH]; intros s s' Hr; [discriminate|].
    destruct (scan_project_cases f s) as [[s1 [Hs He]]|[[x1 [s1 [Hn [Hf [Hst He]]]]]|Hno]].
    - rewrite He in Hr. destruct (IH _ _ Hr) as [s0 [x1 [Hre Hrest]]].
      exists s0, x1. split; [|exact Hrest].
      clear - Hs Hre. induction Hre; [eapply reach_step; [apply reach_refl|exact Hs]|].
      eapply reach_step; [apply IHHre; exact Hs|assumption].
    - rewrite He in Hr. inversion Hr; subst. exists s, x1. repeat split; try assumption. apply reach_refl.
    - exfalso. eapply Hno; exact Hr.
  Qed.

  (* ---- no file name twice on the scanner stack ---- *)

  Definition stack_nodup (s : cstate) : Prop := NoDup (stack_names s).

  Lemma process_include_nodup s l s' :
    stack_nodup s -> process_include s l = COk s' -> stack_nodup s'.
  Proof.
    intros Hnd H. apply process_include_ok_inv in H.
    destruct H as [x1 [path [content [_ [_ [_ [Hnin [Hf ->]]]]]]]].
    unfold stack_nodup, stack_names; simpl. constructor; [rewrite Hf; exact Hnin|exact Hnd].
  Qed.

  Lemma scan_step_nodup s s' : stack_nodup s -> scan_step s s' -> stack_nodup s'.
  Proof.
    intros Hnd H. destruct H as [x1 l s' Hn Hp | x1 s1 x at_ rest Hn Hf Hu Hst].
    - apply process_lexeme_stack in Hp. destruct Hp as [[_ Hst]|[kw [s0 [_ [_ [_ [H0 Hinc]]]]]]].
      + unfold stack_nodup, stack_names. rewrite Hst. exact Hnd.
      + eapply process_include_nodup; [|exact Hinc].
        destruct (flush_cur_stack_names _ _ H0) as [Hnm _]. unfold stack_nodup. rewrite Hnm. exact Hnd.
    - destruct (flush_cur_keeps _ _ Hf) as [_ [Hst1 _]]. simpl in Hst1.
      unfold stack_nodup, stack_names in *. simpl. rewrite <- Hst1, Hst in Hnd. simpl in Hnd.
      inversion Hnd; assumption.
  Qed.

  Lemma scan_reach_nodup s s' : stack_nodup s -> scan_reach s s' -> stack_nodup s'.
  Proof. intros Hnd H. induction H; [exact Hnd|]. eapply scan_step_nodup; eassumption. Qed.

  (* ---- every scanner is the root or a regular file of the file system ---- *)

  Lemma fs_stat_file_listed p content : fs_stat files p = Some (FFile content) -> In p (map fst files).
  Proof.
    unfold fs_stat. destruct (find _ files) as [e|] eqn:Hf.
    - intros _. apply find_some in Hf. destruct Hf as [Hin Hb]. apply beq_eq in Hb. subst p.
      apply in_map. exact Hin.
    - destruct (_ || _); discriminate.
  Qed.

  (* the current scanner and every suspended one carry a name in A *)
  Definition names_in (A : bytes -> Prop) (s : cstate) : Prop :=
    A (sc_file (cs_sc s)) /\ forall n, In n (stack_names s) -> A n.

  (* A is closed under "include an existing regular file by an accepted name" *)
  Definition include_closed (A : bytes -> Prop) : Prop :=
    forall m path content, A m -> validateIncludeFileName path = GOk None ->
      fs_stat files (join2 (dir m) path) = Some (FFile content) -> A (join2 (dir m) path).

  Lemma scan_step_names A s s' :
    include_closed A -> names_in A s -> scan_step s s' -> names_in A s'.
  Proof.
    intros HA [Hc Hs] H. destruct H as [x1 l s' Hn Hp | x1 s1 x at_ rest Hn Hf Hu Hst].
    - destruct (sc_next_same_file _ _ _ _ _ Hn) as [Hfile _].
      apply process_lexeme_stack in Hp. destruct Hp as [[Hsc Hst]|[kw [s0 [_ [_ [_ [H0 Hinc]]]]]]].
      + unfold names_in, stack_names. rewrite Hsc, Hst. simpl. rewrite Hfile. split; assumption.
      + apply process_include_ok_inv in Hinc.
        destruct Hinc as [x2 [path [content [_ [Hval [Hstat [_ [Hf2 ->]]]]]]]].
        destruct (flush_cur_keeps _ _ H0) as [Hsc0 [Hst0 _]]. rewrite Hsc0 in *.
        simpl in *. unfold names_in, stack_names; simpl. rewrite Hst0. simpl. rewrite Hfile in *. split.
        * eapply HA; eassumption.
        * intros n [<-|Hin]; [rewrite Hf2; exact Hc|apply Hs; exact Hin].
    - destruct (flush_cur_keeps _ _ Hf) as [_ [Hst1 _]]. simpl in Hst1.
      unfold names_in, stack_names in *; simpl. rewrite <- Hst1, Hst in Hs. simpl in Hs.
      split; [apply Hs; left; reflexivity|]. intros n Hin. apply Hs. right; exact Hin.
  Qed.

  Lemma scan_reach_names A s s' :
    include_closed A -> names_in A s -> scan_reach s s' -> names_in A s'.
  Proof. intros HA Hw H. induction H; [exact Hw|]. eapply scan_step_names; eassumption. Qed.

  Definition names_within (U : list bytes) (s : cstate) : Prop := names_in (fun n => In n U) s.

  Lemma listed_closed U : incl (map fst files) U -> include_closed (fun n => In n U).
  Proof. intros HU m path content _ _ Hst. apply HU. eapply fs_stat_file_listed; exact Hst. Qed.

  Definition bytes_eq_dec : forall a b : bytes, {a = b} + {a <> b} := list_eq_dec N.eq_dec.

  (* the number of distinct file names of the project *)
  Definition project_names (root : bytes) : list bytes := nodup bytes_eq_dec (root :: map fst files).

  Lemma names_within_project root s :
    names_within (root :: map fst files) s -> incl (stack_names s) (project_names root).
  Proof. intros [_ H] n Hin. apply nodup_In. apply H; exact Hin. Qed.

  Theorem include_depth_bounded_lemma root s s' :
    stack_nodup s -> names_within (root :: map fst files) s ->
    scan_reach s s' ->
    stack_nodup s' /\
    (List.length (cs_stack s') <= List.length (project_names root))%nat.
  Proof.
    intros Hnd Hw Hre.
    assert (Hnd' := scan_reach_nodup _ _ Hnd Hre).
    assert (Hw' : names_within (root :: map fst files) s').
    { eapply scan_reach_names; [|exact Hw|exact Hre]. apply listed_closed. intros n Hin; right; exact Hin. }
    split; [exact Hnd'|].
    replace (List.length (cs_stack s')) with (List.length (stack_names s')) by (unfold stack_names; apply map_length).
    apply NoDup_incl_length; [exact Hnd'|]. apply names_within_project; exact Hw'.
  Qed.

  Lemma init_state_nodup root content : stack_nodup (init_state root content).
  Proof. constructor. Qed.
  Lemma init_state_names root content : names_within (root :: map fst files) (init_state root content).
  Proof. split; [left; reflexivity|intros n []]. Qed.

  (* when the stack holds every file name of the project, every further INCLUDE that names a
     regular file is refused as a recursion: an include chain cannot get longer than that *)
  Theorem include_full_stack_rejected_lemma root s l x1 path content :
    stack_nodup s -> names_within (root :: map fst files) s ->
    (List.length (project_names root) <= List.length (cs_stack s))%nat ->
    include_param s x1 path ->
    validateIncludeFileName path = GOk None ->
    fs_stat files (join2 (dir (sc_file (cs_sc s))) path) = Some (FFile content) ->
    process_include s l = CErr (include_error s l CEIncludeRecursion).
  Proof.
    intros Hnd Hw Hlen Hp Hval Hst.
    eapply include_cycle_rejected_lemma; try eassumption.
    assert (Hincl : incl (project_names root) (stack_names s)).
    { apply NoDup_length_incl; [exact Hnd| |apply names_within_project; exact Hw].
      unfold stack_names; rewrite map_length; exact Hlen. }
    apply Hincl. apply nodup_In. destruct Hw as [Hc _]. exact Hc.
  Qed.
End Inc.

(* ---- fuel ---- *)

Lemma scan_project_S jsc enum files banned f s :
  Core.scan_project jsc enum files banned (S f) s =
  match Core.sc_next jsc enum (cs_sc s) with
  | Err p e => CErr (scan_err s p (CEScan e))
  | Panic w => CPanic w
  | OutOfFuel => CFuel
  | Ok (x1, Some l) =>
    with_scan_trace s (Core.process_lexeme jsc enum files banned (upd_sc s x1) l) >>=c Core.scan_project jsc enum files banned f
  | Ok (x1, None) =>
    with_scan_trace s (flush_cur (upd_sc s x1)) >>=c fun s1 =>
    if has_unclosed_explicit (cs_frames s1)
    then CErr (scan_err s1 (pos (sc_cfg (cs_sc s1)) - 1) CENotAllClosed)
    else match cs_stack s1 with
         | [] => COk s1
         | (x, _) :: rest => Core.scan_project jsc enum files banned f (upd_stack s1 x rest)
         end
  end.
Proof. reflexivity. Qed.

(* more fuel never changes an answer *)
Lemma scan_project_fuel_mono jsc enum files banned f : forall s r,
  Core.scan_project jsc enum files banned f s = r -> r <> CFuel ->
  Core.scan_project jsc enum files banned (S f) s = r.
Proof.
  induction f as [|f IH]; intros s r Hr Hne; [simpl in Hr; congruence|].
  rewrite scan_project_S in Hr. rewrite scan_project_S.
  destruct (Core.sc_next jsc enum (cs_sc s)) as [[x1 [l|]]| | |]; try exact Hr.
  - destruct (with_scan_trace s (Core.process_lexeme jsc enum files banned (upd_sc s x1) l)) as [s'| | |];
      cbn [cbind] in *; try exact Hr. apply IH; assumption.
  - destruct (with_scan_trace s (flush_cur (upd_sc s x1))) as [s1| | |]; cbn [cbind] in *; try exact Hr.
    destruct (has_unclosed_explicit (cs_frames s1)); [exact Hr|].
    destruct (cs_stack s1) as [|[x a] rest]; [exact Hr|]. apply IH; assumption.
Qed.

Lemma scan_project_fuel_le jsc enum files banned f f' s r :
  (f <= f')%nat -> Core.scan_project jsc enum files banned f s = r -> r <> CFuel ->
  Core.scan_project jsc enum files banned f' s = r.
Proof.
  intros Hle Hr Hne. induction Hle; [exact Hr|]. apply scan_project_fuel_mono; assumption.
Qed.

(* the same for the whole scan with the fuel as a parameter: any fuel that gives an answer gives
   the answer of every larger fuel (the model runner passes an unbounded one) *)
Lemma scan_forest_with_fuel_le jsc enum files banned root f f' r :
  (f <= f')%nat -> scan_forest_with f jsc enum files banned root = r -> r <> CFuel ->
  scan_forest_with f' jsc enum files banned root = r.
Proof.
  unfold scan_forest_with. intros Hle.
  destruct (fs_stat files root) as [[content|]|]; try (intros; assumption).
  destruct (Core.scan_project jsc enum files banned f (init_state root content)) as [s|e|w|] eqn:E;
    cbn [cbind]; intros Hr Hne; try (subst r; congruence);
    rewrite (scan_project_fuel_le jsc enum files banned f f' _ _ Hle E) by discriminate; exact Hr.
Qed.

(* ---- where an included file lies ---- *)

Lemma clean_go_nonempty rooted cs : forall out,
  Forall (fun c : bytes => c <> []) out -> Forall (fun c : bytes => c <> []) (clean_go rooted cs out).
Proof.
  induction cs as [|c cs IH]; intros out Ho; simpl.
  - apply Forall_rev; exact Ho.
  - destruct (beq c []) eqn:E0; simpl; [apply IH; exact Ho|].
    destruct (beq c p_dot); [apply IH; exact Ho|].
    assert (Hdd : p_dotdot <> []) by discriminate.
    destruct (beq c p_dotdot).
    + destruct out as [|o out'].
      * destruct rooted; apply IH; [constructor|constructor; [exact Hdd|constructor]].
      * destruct (beq o p_dotdot); apply IH.
        -- constructor; [exact Hdd|exact Ho].
        -- inversion Ho; assumption.
    + apply IH. constructor; [|exact Ho]. intros ->. simpl in E0. discriminate.
Qed.

Lemma clean_nonempty p : clean p <> [].
Proof.
  unfold clean. destruct p as [|c p']; [discriminate|].
  unfold render. destruct (is_rooted (c :: p')); [discriminate|].
  pose proof (clean_go_nonempty (is_rooted (c :: p')) (split_byte p_slash (c :: p')) [] (Forall_nil _)) as Hne.
  fold (clean_components (c :: p')) in Hne.
  destruct (clean_components (c :: p')) as [|x xs]; [discriminate|].
  inversion Hne as [|? ? Hx _]; subst.
  destruct x as [|b x']; [congruence|]. destruct xs; simpl; discriminate.
Qed.

Lemma dir_nonempty m : dir m <> [].
Proof. apply clean_nonempty. Qed.

(* filepath.Join(filepath.Dir(includer), name) for a name the regenerated validator accepts:
   it is Clean(dir/name), and unless the name is "." or ".." the cleaned components of dir/name
   are those of the includer's directory followed by the (non-empty) components of the name:
   the included file lies under the directory of the including file.
   ("." is that directory itself, ".." its parent: directories, never opened as files.) *)
Lemma include_target_confined m path :
  validateIncludeFileName path = GOk None ->
  join2 (dir m) path = clean (dir m ++ p_slash :: path) /\
  ((path = p_dot /\ clean_components (dir m ++ p_slash :: path) = clean_components (dir m)) \/
   path = p_dotdot \/
   ((forall c, In c (split_byte p_slash path) -> plain c) /\
    clean_components (dir m ++ p_slash :: path) =
    clean_components (dir m) ++ filter nonempty (split_byte p_slash path))).
Proof.
  intros Hval. apply include_name_safe_lemma in Hval.
  destruct Hval as [Hne [_ [_ Hcomp]]].
  pose proof (dir_nonempty m) as Hd.
  split.
  - unfold join2. destruct (dir m) as [|a d']; [congruence|]. destruct path; [congruence|reflexivity].
  - destruct Hcomp as [->|[->|Hpl]].
    + left. split; [reflexivity|]. unfold clean_components. rewrite split_byte_app.
      replace (is_rooted (dir m ++ p_slash :: dot)) with (is_rooted (dir m))
        by (destruct (dir m); [congruence|reflexivity]).
      rewrite clean_go_app. simpl. apply rev_involutive.
    + right; left; reflexivity.
    + right; right. split; [exact Hpl|]. apply join_components; assumption.
Qed.

(* a successful INCLUDE: the new scanner reads the regular file found at
   Clean(Dir(includer) + "/" + name), name accepted by the validator (hence name_safe) *)
Lemma included_path_confined_lemma jsc enum files banned s l s' :
  Core.process_include jsc enum files banned s l = COk s' ->
  exists path content,
    validateIncludeFileName path = GOk None /\ name_safe path /\
    sc_file (cs_sc s') = clean (dir (sc_file (cs_sc s)) ++ p_slash :: path) /\
    fs_stat files (sc_file (cs_sc s')) = Some (FFile content) /\
    sc_data (cs_sc s') = content /\
    ((path = p_dot /\ clean_components (dir (sc_file (cs_sc s)) ++ p_slash :: path) = clean_components (dir (sc_file (cs_sc s)))) \/
     path = p_dotdot \/
     ((forall c, In c (split_byte p_slash path) -> plain c) /\
      clean_components (dir (sc_file (cs_sc s)) ++ p_slash :: path) =
      clean_components (dir (sc_file (cs_sc s))) ++ filter nonempty (split_byte p_slash path))) /\
    exists x1 : scn, sc_file x1 = sc_file (cs_sc s) /\ cs_stack s' = (x1, lb l) :: cs_stack s.
Proof.
  intros H. apply process_include_ok_inv in H.
  destruct H as [x1 [path [content [_ [Hval [Hst [_ [Hf ->]]]]]]]].
  destruct (include_target_confined (sc_file (cs_sc s)) path Hval) as [Hj Hc].
  exists path, content. simpl. rewrite <- Hj.
  repeat split; try assumption.
  - apply include_name_safe_lemma; exact Hval.
  - apply include_name_safe_lemma in Hval. destruct Hval as [_ [H _]]. exact H.
  - apply include_name_safe_lemma in Hval. destruct Hval as [_ [_ [H _]]]. exact H.
  - apply include_name_safe_lemma in Hval. destruct Hval as [_ [_ [_ H]]]. exact H.
  - exists x1. split; [exact Hf|reflexivity].
Qed.

(* ---- the file system is consulted for nothing else ---- *)

Section Access.
  Variable jsc_len enum_len : bytes -> len_result.
  Variable banned : list kind.

  (* processInclude sees the file system through ONE question: the entry at
     Join(Dir(includer), name) for a validated name *)
  Lemma process_include_fs_access files files' s l :
    (forall path, validateIncludeFileName path = GOk None ->
       fs_stat files (join2 (dir (sc_file (cs_sc s))) path) = fs_stat files' (join2 (dir (sc_file (cs_sc s))) path)) ->
    Core.process_include jsc_len enum_len files banned s l = Core.process_include jsc_len enum_len files' banned s l.
  Proof.
    intros H. unfold Core.process_include.
    destruct (kind_in KInclude banned); [reflexivity|].
    destruct (Core.sc_next jsc_len enum_len (cs_sc s)) as [[x1 ol]| | |] eqn:Hn; try reflexivity.
    destruct (sc_next_same_file _ _ _ _ _ Hn) as [Hf _].
    destruct ol as [pl|]; [|reflexivity].
    destruct (negb (lexkind_eqb (lk pl) LParameter)); [reflexivity|].
    destruct (value_of x1 pl) as [raw| | |]; cbn [cbind]; try reflexivity.
    cbv zeta. generalize (lib_unquote raw). intros path.
    destruct (beq path []); [reflexivity|].
    destruct (validateIncludeFileName path) as [[msg|]|w] eqn:Hval; try reflexivity.
    rewrite Hf, (H _ Hval). reflexivity.
  Qed.

  Lemma process_lexeme_fs_access files files' s l :
    (forall path, validateIncludeFileName path = GOk None ->
       fs_stat files (join2 (dir (sc_file (cs_sc s))) path) = fs_stat files' (join2 (dir (sc_file (cs_sc s))) path)) ->
    Core.process_lexeme jsc_len enum_len files banned s l = Core.process_lexeme jsc_len enum_len files' banned s l.
  Proof.
    intros H. unfold Core.process_lexeme.
    destruct (lexkind_eqb (lk l) LKeyword); [|reflexivity].
    destruct (value_of (cs_sc s) l) as [kw| | |]; cbn [cbind]; try reflexivity.
    destruct (beq kw (kind_keyword KInclude)); [|reflexivity].
    destruct (flush_cur s) as [s0| | |] eqn:H0; cbn [cbind]; try reflexivity.
    destruct (flush_cur_keeps _ _ H0) as [Hsc _].
    apply process_include_fs_access. rewrite Hsc. exact H.
  Qed.

  (* A = a set of names holding the files being scanned and closed under inclusion (in [files]);
     two file systems that agree on what an INCLUDE written in a file of A can name give the
     same scan: nothing else is ever looked at *)
  Theorem scan_project_fs_confined_lemma files files' (A : bytes -> Prop) :
    include_closed files A ->
    (forall m path, A m -> validateIncludeFileName path = GOk None ->
       fs_stat files (join2 (dir m) path) = fs_stat files' (join2 (dir m) path)) ->
    forall fuel s, names_in A s ->
      Core.scan_project jsc_len enum_len files banned fuel s = Core.scan_project jsc_len enum_len files' banned fuel s.
  Proof.
    intros HA Hagree. induction fuel as [|f IH]; intros s Hw; [reflexivity|].
    rewrite !scan_project_S.
    destruct (Core.sc_next jsc_len enum_len (cs_sc s)) as [[x1 [l|]]| | |] eqn:Hn; try reflexivity.
    - destruct (sc_next_same_file _ _ _ _ _ Hn) as [Hf _].
      assert (Heq : Core.process_lexeme jsc_len enum_len files banned (upd_sc s x1) l =
                    Core.process_lexeme jsc_len enum_len files' banned (upd_sc s x1) l).
      { apply process_lexeme_fs_access. intros path Hval. simpl. rewrite Hf.
        apply Hagree; [destruct Hw; assumption|exact Hval]. }
      rewrite <- Heq.
      destruct (Core.process_lexeme jsc_len enum_len files banned (upd_sc s x1) l) as [s'|e|w|] eqn:Hp;
        try reflexivity; [|unfold with_scan_trace; destruct (ce_trace e); reflexivity].
      cbn [with_scan_trace cbind]. apply IH.
      eapply scan_step_names; [exact HA|exact Hw|]. eapply step_lexeme; eassumption.
    - destruct (flush_cur (upd_sc s x1)) as [s1|e|w|] eqn:Hfl; try reflexivity;
        [|unfold with_scan_trace; destruct (ce_trace e); reflexivity].
      cbn [with_scan_trace cbind].
      destruct (has_unclosed_explicit (cs_frames s1)) eqn:Hu; [reflexivity|].
      destruct (cs_stack s1) as [|[x a] rest] eqn:Hst; [reflexivity|].
      apply IH. eapply scan_step_names; [exact HA|exact Hw|].
      exact (step_pop jsc_len enum_len files banned s x1 s1 x a rest Hn Hfl Hu Hst).
  Qed.

  (* the names reachable from n by includes under accepted names *)
  Inductive include_reachable (n : bytes) : bytes -> Prop :=
  | ir_self : include_reachable n n
  | ir_step m path : include_reachable n m -> validateIncludeFileName path = GOk None ->
                     include_reachable n (join2 (dir m) path).

  Corollary scan_root_fs_confined_lemma files files' root :
    (forall m path, include_reachable root m -> validateIncludeFileName path = GOk None ->
       fs_stat files (join2 (dir m) path) = fs_stat files' (join2 (dir m) path)) ->
    forall fuel content,
      Core.scan_project jsc_len enum_len files banned fuel (init_state root content) =
      Core.scan_project jsc_len enum_len files' banned fuel (init_state root content).
  Proof.
    intros Hagree fuel content.
    apply scan_project_fs_confined_lemma with (A := include_reachable root).
    - intros m path c Hm Hval _. apply ir_step; assumption.
    - exact Hagree.
    - split; [apply ir_self|intros n []].
  Qed.
End Access.

(* ---- a refused INCLUDE ends the scan with that diagnostic, once the directive read before it
        has been placed (s0 = the state after that; were it misplaced, ITS diagnostic would come first) ---- *)
Lemma include_rejection_stops_scan jsc enum files banned f s x1 l k s0 :
  Core.sc_next jsc enum (cs_sc s) = Ok (x1, Some l) ->
  lexkind_eqb (lk l) LKeyword = true ->
  value_of x1 l = COk (kind_keyword KInclude) ->
  flush_cur (upd_sc s x1) = COk s0 ->
  Core.process_include jsc enum files banned s0 l = CErr (include_error s0 l k) ->
  Core.scan_project jsc enum files banned (S f) s = CErr (include_error s l k).
Proof.
  intros Hn Hk Hv H0 Hp. rewrite scan_project_S, Hn.
  unfold Core.process_lexeme. simpl cs_sc. rewrite Hk, Hv. cbn [cbind]. rewrite beq_refl, H0. cbn [cbind]. rewrite Hp.
  destruct (sc_next_same_file _ _ _ _ _ Hn) as [Hf _].
  destruct (flush_cur_keeps _ _ H0) as [Hsc [Hst _]]. simpl in Hsc, Hst.
  unfold include_error, with_scan_trace; simpl. rewrite Hsc, Hst, Hf.
  destruct (stack_trace (cs_stack s)); reflexivity.
Qed.

(* a misplaced directive before an INCLUDE: its diagnostic ends the scan, the INCLUDE is not looked at *)
Lemma include_after_misplaced_directive jsc enum files banned f s x1 l e :
  Core.sc_next jsc enum (cs_sc s) = Ok (x1, Some l) ->
  lexkind_eqb (lk l) LKeyword = true ->
  value_of x1 l = COk (kind_keyword KInclude) ->
  flush_cur (upd_sc s x1) = CErr e ->
  Core.scan_project jsc enum files banned (S f) s = with_scan_trace s (CErr e).
Proof.
  intros Hn Hk Hv H0. rewrite scan_project_S, Hn.
  unfold Core.process_lexeme. simpl cs_sc. rewrite Hk, Hv. cbn [cbind]. rewrite beq_refl, H0. cbn [cbind].
  unfold with_scan_trace. destruct (ce_trace e); reflexivity.
Qed.

(* ---- small projects, by computation (the scanner is the real one; no schema bodies occur) ---- *)

Definition ex_len (_ : bytes) : len_result := LenOk 0.
Definition ex_line (s : string) : bytes := bs s ++ [10].
Definition ex_err {A} (r : cres A) : option (bytes * N * cerr_kind * list (bytes * N)) :=
  match r with CErr e => Some (ce_file e, ce_idx e, ce_kind e, ce_trace e) | _ => None end.
Definition ex_kinds (r : cres (list dtree)) : option (list kind) :=
  match r with COk f => Some (map (fun t => d_kind (tree_dir t)) f) | _ => None end.

(* r includes a, a includes b, b includes a: refused when a is to be suspended a second time *)
Definition ex_cycle : fsys :=
  [(bs "r.jst", FFile (ex_line "JSIGHT 0.3" ++ ex_line "INCLUDE a.jst"));
   (bs "a.jst", FFile (ex_line "INCLUDE b.jst")); (bs "b.jst", FFile (ex_line "INCLUDE a.jst"))].
Example ex_include_cycle :
  ex_err (scan_forest ex_len ex_len ex_cycle [] (bs "r.jst")) =
  Some (bs "a.jst", 0, CEIncludeRecursion, [(bs "b.jst", 0); (bs "a.jst", 0); (bs "r.jst", 11)]).
Proof. vm_compute. reflexivity. Qed.

Definition ex_main (l2 : string) : bytes := ex_line "JSIGHT 0.3" ++ ex_line l2.
Example ex_include_ok :
  ex_kinds (scan_forest ex_len ex_len
     [(bs "a.jst", FFile (ex_main "INCLUDE sub/b.jst" ++ ex_line "TAG @x")); (bs "sub/b.jst", FFile (ex_line "TAG @y"))]
     [] (bs "a.jst")) = Some [KJsight; KTAG; KTAG].
Proof. vm_compute. reflexivity. Qed.
Example ex_include_dotdot :
  ex_err (scan_forest ex_len ex_len [(bs "a.jst", FFile (ex_main "INCLUDE ../b.jst"))] [] (bs "a.jst")) =
  Some (bs "a.jst", 11, CEIncludeBadName, []).
Proof. vm_compute. reflexivity. Qed.
Example ex_include_absolute :
  ex_err (scan_forest ex_len ex_len [(bs "a.jst", FFile (ex_main "INCLUDE /etc/passwd"))] [] (bs "a.jst")) =
  Some (bs "a.jst", 11, CEIncludeBadName, []).
Proof. vm_compute. reflexivity. Qed.
Example ex_include_backslash :
  ex_err (scan_forest ex_len ex_len [(bs "a.jst", FFile (ex_line "JSIGHT 0.3" ++ bs "INCLUDE d" ++ [92] ++ ex_line "b.jst"))] [] (bs "a.jst")) =
  Some (bs "a.jst", 11, CEIncludeBadName, []).
Proof. vm_compute. reflexivity. Qed.
Example ex_include_missing :
  ex_err (scan_forest ex_len ex_len [(bs "a.jst", FFile (ex_main "INCLUDE b.jst"))] [] (bs "a.jst")) =
  Some (bs "a.jst", 11, CEIncludeNotExist, []).
Proof. vm_compute. reflexivity. Qed.
Example ex_include_directory :
  ex_err (scan_forest ex_len ex_len [(bs "a.jst", FFile (ex_main "INCLUDE d")); (bs "d/x", FFile [])] [] (bs "a.jst")) =
  Some (bs "a.jst", 11, CEIncludeIsDir, []).
Proof. vm_compute. reflexivity. Qed.
Example ex_jsight_in_include :
  ex_err (scan_forest ex_len ex_len [(bs "a.jst", FFile (ex_main "INCLUDE b.jst")); (bs "b.jst", FFile (ex_line "JSIGHT 0.3"))] [] (bs "a.jst")) =
  Some (bs "b.jst", 0, CEJsightInInclude, [(bs "a.jst", 11)]).
Proof. vm_compute. reflexivity. Qed.

(* INCLUDE "" : the quotes are removed, the empty name is refused as a missing parameter *)
Example ex_include_empty_quoted :
  ex_err (scan_forest ex_len ex_len
     [(bs "a.jst", FFile (ex_line "JSIGHT 0.3" ++ bs "INCLUDE " ++ [34; 34; 10]))] [] (bs "a.jst"))
    = Some (bs "a.jst", 11, CEIncludeNoParam, []).
Proof. vm_compute. reflexivity. Qed.

Example ex_include_quoted :
  ex_kinds (scan_forest ex_len ex_len
     [(bs "a.jst", FFile (ex_line "JSIGHT 0.3" ++ bs "INCLUDE " ++ [34] ++ bs "b.jst" ++ [34; 10])); (bs "b.jst", FFile (ex_line "TAG @y"))]
     [] (bs "a.jst")) = Some [KJsight; KTAG] /\
  ex_err (scan_forest ex_len ex_len
     [(bs "a.jst", FFile (ex_line "JSIGHT 0.3" ++ bs "INCLUDE " ++ [34] ++ bs "../b.jst" ++ [34; 10]))] [] (bs "a.jst"))
    = Some (bs "a.jst", 11, CEIncludeBadName, []).
Proof. vm_compute. split; reflexivity. Qed.

(* ---- scan_fuel_project is NOT enough (the statement asked for, scan_project_fuel_enough, is false) ----
   A file may be included many times: every file of a chain m -> a -> b -> ... -> h includes the
   next one three times, so h is scanned 3^8 times (the implementation does that in milliseconds),
   while scan_fuel_project is quadratic in the size of the project.  The scan itself ends: with
   three times the fuel the model accepts. *)
Definition ex_inc3 (n : bytes) : bytes :=
  bs "INCLUDE " ++ n ++ [10] ++ bs "INCLUDE " ++ n ++ [10] ++ bs "INCLUDE " ++ n ++ [10].
Definition ex_chain_root : bytes := ex_line "JSIGHT 0.3" ++ ex_inc3 (bs "a").
Definition ex_chain : fsys :=
  [(bs "m", FFile ex_chain_root);
   (bs "a", FFile (ex_inc3 (bs "b"))); (bs "b", FFile (ex_inc3 (bs "c"))); (bs "c", FFile (ex_inc3 (bs "d")));
   (bs "d", FFile (ex_inc3 (bs "e"))); (bs "e", FFile (ex_inc3 (bs "f"))); (bs "f", FFile (ex_inc3 (bs "g")));
   (bs "g", FFile (ex_inc3 (bs "h"))); (bs "h", FFile (ex_line "TAG @t"))].

Definition is_cok {A} (r : cres A) : bool := match r with COk _ => true | _ => false end.
Definition is_cfuel {A} (r : cres A) : bool := match r with CFuel => true | _ => false end.

Theorem scan_fuel_project_insufficient :
  exists files root content,
    fs_stat files root = Some (FFile content) /\
    scan_forest ex_len ex_len files [] root = CFuel /\
    exists fuel s', Core.scan_project ex_len ex_len files [] fuel (init_state root content) = COk s'.
Proof.
  exists ex_chain, (bs "m"), ex_chain_root. split; [reflexivity|]. split.
  - assert (H : is_cfuel (scan_forest ex_len ex_len ex_chain [] (bs "m")) = true) by (vm_compute; reflexivity).
    destruct (scan_forest ex_len ex_len ex_chain [] (bs "m")); try discriminate. reflexivity.
  - exists (3 * scan_fuel_project ex_chain ex_chain_root)%nat.
    assert (H : is_cok (Core.scan_project ex_len ex_len ex_chain [] (3 * scan_fuel_project ex_chain ex_chain_root)
                          (init_state (bs "m") ex_chain_root)) = true) by (vm_compute; reflexivity).
    destruct (Core.scan_project _ _ _ _ _ _) as [s'| | |]; try discriminate. exists s'; reflexivity.
Qed.
