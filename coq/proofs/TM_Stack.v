(* Table metatheory, part 2: the step stack (pass S of TableCheck). *)
From Coq Require Import List NArith ZArith Bool String Lia.
From JV.lib Require Import Bytes.
From JV.gen Require Import ScannerTable.
From JV.model Require Import ScannerSem TableCheck.
From JV.proofs Require Import TM_Basics.
Import ListNotations.
Open Scope N_scope.

Section Stack.
  Variable ty : typing.
  Variable jsc_len enum_len : bytes -> len_result.

  (* a state that pops has a permitted state on top, under which the stack is valid for
     THAT state *)
  Fixpoint valid (st : state) (stk : list state) : Prop :=
    match stk with
    | [] => needs ty st = false
    | t :: r => needs ty st = false \/ (In t (allowed ty st) /\ valid t r)
    end.

  Lemma valid_no_need st stk : needs ty st = false -> valid st stk.
  Proof. intros H. destruct stk; simpl; [exact H | left; exact H]. Qed.

  Lemma valid_need st stk :
    needs ty st = true -> valid st stk ->
    exists t r, stk = t :: r /\ In t (allowed ty st) /\ valid t r.
  Proof.
    intros Hn Hv. destruct stk as [|t r]; simpl in Hv.
    - congruence.
    - destruct Hv as [Hv|Hv]; [congruence|]. exists t, r. split; [reflexivity | exact Hv].
  Qed.

  Lemma sub_ok_sound st0 t s : sub_ok ty st0 t = true -> valid st0 s -> valid t s.
  Proof.
    unfold sub_ok. intros H Hv.
    apply orb_prop in H. destruct H as [H|H]; [apply orb_prop in H; destruct H as [H|H]|].
    - apply state_eqb_eq in H. subst. exact Hv.
    - apply valid_no_need. destruct (needs ty t); [discriminate | reflexivity].
    - apply andb_true_iff in H as [Hn Hs].
      destruct (valid_need _ _ Hn Hv) as (x & r & -> & Hin & Hr).
      simpl. right. split; [eapply subset_In; eassumption | exact Hr].
  Qed.

  (* concretisation of the abstract stack effect, relative to the stack s0 at the start
     of the transition *)
  Definition RS (st0 : state) (s0 : list state) (a : state * stk_eff) (g : cfg) : Prop :=
    match snd a with
    | SE_none => reg g = fst a /\ sstk g = s0
    | SE_push s => reg g = fst a /\ sstk g = s :: s0
    | SE_pop => needs ty st0 = true /\ exists top r, s0 = top :: r /\ reg g = top /\ sstk g = r
    end.

  Lemma read_body_stack f g g' :
    read_body f g = Ok g' -> reg g' = reg g /\ sstk g' = sstk g.
  Proof.
    unfold read_body. destruct (f (rest g)); [|discriminate].
    intros H. injection H as <-. destruct (0 <? n); split; reflexivity.
  Qed.

  Lemma sstep_sound st0 s0 a a' x g g' :
    RS st0 s0 a g -> valid st0 s0 ->
    sstep ty st0 a x = Some a' ->
    exec_act jsc_len enum_len x g = Ok g' ->
    RS st0 s0 a' g'.
  Proof.
    intros HR Hv Hs He. destruct a as [r e]. unfold RS in *. simpl in HR.
    destruct x; simpl in He.
    - (* AFound *)
      destruct (pos g <? back); [discriminate|]. injection He as <-.
      destruct e; simpl in Hs; injection Hs as <-; simpl; exact HR.
    - (* ASetStep *)
      injection He as <-.
      destruct e; simpl in Hs; try discriminate; injection Hs as <-; simpl;
        destruct HR as [_ HR]; (split; [reflexivity | exact HR]).
    - (* APush *)
      injection He as <-.
      destruct e; simpl in Hs; try discriminate. injection Hs as <-. simpl.
      destruct HR as [H1 H2]. split; [exact H1 | simpl; rewrite H2; reflexivity].
    - (* APushCur *)
      injection He as <-.
      destruct e; simpl in Hs; try discriminate. injection Hs as <-. simpl.
      destruct HR as [H1 H2]. split; [exact H1 | simpl; rewrite H2, H1; reflexivity].
    - (* APop *)
      destruct e; simpl in Hs; try discriminate.
      destruct (needs ty st0) eqn:Hn; [|discriminate]. injection Hs as <-. simpl.
      destruct HR as [H1 H2].
      destruct (valid_need _ _ Hn Hv) as (t & rr & -> & _ & _).
      rewrite H2 in He. injection He as <-.
      split; [reflexivity|]. exists t, rr. repeat split; reflexivity.
    - (* ARewind *)
      destruct (pos g <? n); [discriminate|]. injection He as <-.
      destruct e; simpl in Hs; injection Hs as <-; simpl; exact HR.
    - (* AReadSchema *)
      destruct (read_body_stack _ _ _ He) as [E1 E2].
      destruct e; simpl in Hs; injection Hs as <-; simpl; rewrite E1, E2; exact HR.
    - (* AReadEnum *)
      destruct (read_body_stack _ _ _ He) as [E1 E2].
      destruct e; simpl in Hs; injection Hs as <-; simpl; rewrite E1, E2; exact HR.
  Qed.

  (* the only stack panic: APop on an empty stack *)
  Lemma sstep_pop_ok st0 s0 a a' g :
    RS st0 s0 a g -> valid st0 s0 -> sstep ty st0 a APop = Some a' -> sstk g <> [].
  Proof.
    intros HR Hv Hs. destruct a as [r e]. unfold RS in HR. simpl in HR.
    destruct e; simpl in Hs; try discriminate.
    destruct (needs ty st0) eqn:Hn; [|discriminate].
    destruct (valid_need _ _ Hn Hv) as (t & rr & E & _ & _).
    destruct HR as [_ H2]. rewrite H2, E. discriminate.
  Qed.

  Lemma stack_final_sound st0 s0 a g :
    RS st0 s0 a g -> valid st0 s0 -> stack_final ty st0 a = true -> valid (reg g) (sstk g).
  Proof.
    intros HR Hv Hf. destruct a as [r e]. unfold RS in HR. unfold stack_final in Hf. simpl in *.
    destruct e.
    - destruct HR as [-> ->]. eapply sub_ok_sound; eassumption.
    - destruct HR as [-> ->]. simpl.
      apply orb_prop in Hf. destruct Hf as [Hf|Hf].
      + left. destruct (needs ty r); [discriminate | reflexivity].
      + apply andb_true_iff in Hf as [H1 H2]. right. split.
        * apply state_in_In. exact H1.
        * eapply sub_ok_sound; eassumption.
    - destruct HR as (Hn & t & rr & -> & -> & ->).
      destruct (valid_need _ _ Hn Hv) as (t' & rr' & E & _ & Hr). injection E as <- <-. exact Hr.
  Qed.

  Lemma targets_sound st0 s0 a g :
    RS st0 s0 a g -> valid st0 s0 -> In (reg g) (targets_of ty st0 a).
  Proof.
    intros HR Hv. destruct a as [r e]. unfold RS in HR. unfold targets_of. simpl in *.
    destruct e.
    - destruct HR as [-> _]. left. reflexivity.
    - destruct HR as [-> _]. left. reflexivity.
    - destruct HR as (Hn & t & rr & -> & -> & _).
      destruct (valid_need _ _ Hn Hv) as (t' & rr' & E & Hin & _). injection E as <- <-. exact Hin.
  Qed.
End Stack.
