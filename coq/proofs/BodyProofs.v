(* C04 (c), full content: bodies, headers and schema descriptors of every interaction, traced through the
   run (extends ContentProofs.v, whose view keeps only codes / presence). *)
From Coq Require Import List NArith Bool String Lia.
From JV.lib Require Import Bytes.
From JV.gen Require Import DirectiveTables TagName.
From JV.model Require Import ScannerSem Core Description PathParams TagTitle Catalog.
From JV.proofs Require Import BytesLemmas TagNameProofs CatalogProofs FaithfulProofs ContentProofs.
Import ListNotations.
Open Scope N_scope.

(* a response without its directive: code, annotation, body, headers *)
Definition rv : Set := (bytes * bytes * option body_ * option sdesc)%type.
Definition rview (r : response) : rv := (r_code r, r_annot r, r_body r, r_headers r).

Record fv : Set := {
  fv_desc : option bytes;
  fv_query : option query;
  fv_req : option (option body_ * option sdesc);     (* request: body, headers *)
  fv_resps : list rv;
  fv_params : option sdesc;
  fv_result : option sdesc
}.

Definition fview (x : interaction) : fv :=
  match x with
  | IHttp h => {| fv_desc := hi_desc h; fv_query := hi_query h;
                  fv_req := match hi_request h with Some r => Some (q_body r, q_headers r) | None => None end;
                  fv_resps := map rview (hi_responses h); fv_params := None; fv_result := None |}
  | IRpc r => {| fv_desc := ri_desc r; fv_query := None; fv_req := None; fv_resps := [];
                 fv_params := ri_params r; fv_result := ri_result r |}
  end.

Definition fv_empty : fv :=
  {| fv_desc := None; fv_query := None; fv_req := None; fv_resps := []; fv_params := None; fv_result := None |}.

Definition set_last_rv (g : rv -> rv) (l : list rv) : list rv :=
  match rev l with [] => [] | r :: rs => rev (g r :: rs) end.

Inductive ev2 : Set :=
| FDesc (text : bytes) | FQuery (q : query) | FReq | FReqBody (bd : body_) | FReqHeaders (s : sdesc)
| FResp (code annot : bytes) | FRespBody (bd : body_) | FRespHeaders (s : sdesc) | FParams (s : sdesc) | FResult (s : sdesc).

Definition upd_fv (v : fv) desc q req resps p r : fv :=
  {| fv_desc := desc; fv_query := q; fv_req := req; fv_resps := resps; fv_params := p; fv_result := r |}.

Definition apply2 (v : fv) (e : ev2) : fv :=
  match e with
  | FDesc t => upd_fv v (Some t) (fv_query v) (fv_req v) (fv_resps v) (fv_params v) (fv_result v)
  | FQuery q => upd_fv v (fv_desc v) (Some q) (fv_req v) (fv_resps v) (fv_params v) (fv_result v)
  | FReq => upd_fv v (fv_desc v) (fv_query v) (match fv_req v with Some r => Some r | None => Some (None, None) end)
                   (fv_resps v) (fv_params v) (fv_result v)
  | FReqBody bd => upd_fv v (fv_desc v) (fv_query v) (match fv_req v with Some (_, h) => Some (Some bd, h) | None => None end)
                          (fv_resps v) (fv_params v) (fv_result v)
  | FReqHeaders s => upd_fv v (fv_desc v) (fv_query v) (match fv_req v with Some (b, _) => Some (b, Some s) | None => None end)
                            (fv_resps v) (fv_params v) (fv_result v)
  | FResp c a => upd_fv v (fv_desc v) (fv_query v) (fv_req v) (fv_resps v ++ [(c, a, None, None)]) (fv_params v) (fv_result v)
  | FRespBody bd => upd_fv v (fv_desc v) (fv_query v) (fv_req v)
                           (set_last_rv (fun r => match r with (c, a, _, h) => (c, a, Some bd, h) end) (fv_resps v)) (fv_params v) (fv_result v)
  | FRespHeaders s => upd_fv v (fv_desc v) (fv_query v) (fv_req v)
                             (set_last_rv (fun r => match r with (c, a, b, _) => (c, a, b, Some s) end) (fv_resps v)) (fv_params v) (fv_result v)
  | FParams s => upd_fv v (fv_desc v) (fv_query v) (fv_req v) (fv_resps v) (Some s) (fv_result v)
  | FResult s => upd_fv v (fv_desc v) (fv_query v) (fv_req v) (fv_resps v) (fv_params v) (Some s)
  end.

(* the body descriptor a Request / Body directive carries (the choice add_request makes) *)
Definition request_body_of (d : directive) : option body_ :=
  match norm_notation (named d (bs "SchemaNotation")) with
  | None => None
  | Some n =>
    let typ := named d (bs "Type") in
    let has_body := match d_body d with Some _ => true | None => false end in
    if beq n (bs "jsight") && negb (beq typ []) && negb has_body then Some {| b_format := format_of n; b_schema := STypeRef typ |}
    else if beq n (bs "jsight") && beq typ [] && has_body then Some {| b_format := format_of n; b_schema := schema_of d |}
    else if beq n (bs "regex") && beq typ [] && has_body then Some {| b_format := format_of n; b_schema := schema_of d |}
    else if is_any_or_empty n && negb has_body then Some {| b_format := format_of n; b_schema := SNone |}
    else None
  end.

(* ... and a response-code / Body directive (the choice add_response makes) *)
Definition response_body_of (d : directive) : option body_ :=
  match norm_notation (named d (bs "SchemaNotation")) with
  | None => None
  | Some n =>
    let typ := named d (bs "Type") in
    let has_body := match d_body d with Some _ => true | None => false end in
    if negb (beq typ []) then Some {| b_format := format_of n; b_schema := STypeRef typ |}
    else if has_body then Some {| b_format := format_of n; b_schema := schema_of d |}
    else if is_any_or_empty n then Some {| b_format := format_of n; b_schema := SNone |}
    else None
  end.

Definition opt_ev {A} (f : A -> ev2) (o : option A) : list ev2 := match o with Some a => [f a] | None => [] end.

Definition for_id2 (r : id_res) (j : iid) (evs : list ev2) : list ev2 :=
  match r with IdOk i => if iid_eqb j i then evs else [] | IdErr _ => [] end.

(* the content events the directive at a position is for interaction j *)
Definition events2 (body_text : coords -> bytes) (t : dtree) (anc : list dtree) (j : iid) : list ev2 :=
  let d := tree_dir t in
  match dk t with
  | KDescription =>
    match d_body d, parent_dir anc with
    | Some bc, Some p =>
      if is_http_method (d_kind p) then for_id2 (http_id d anc) j [FDesc (fst (description (body_text bc)))]
      else if kind_eqb (d_kind p) KMethod then for_id2 (rpc_id d anc) j [FDesc (fst (description (body_text bc)))]
      else []
    | _, _ => []
    end
  | KQuery =>
    let fmt := named d (bs "Format") in
    for_id2 (http_id d anc) j
      [FQuery {| qu_format := (if beq fmt [] then bs "htmlFormEncoded" else fmt); qu_example := named d (bs "QueryExample"); qu_schema := schema_of d |}]
  | KRequest => for_id2 (http_id d anc) j (FReq :: opt_ev FReqBody (request_body_of d))
  | KHTTPResponseCode => for_id2 (http_id d anc) j (FResp (d_keyword d) (d_annot d) :: opt_ev FRespBody (response_body_of d))
  | KBody =>
    if parent_kind_is anc KRequest then for_id2 (http_id d anc) j (opt_ev FReqBody (request_body_of d))
    else if parent_kind_is anc KHTTPResponseCode then for_id2 (http_id d anc) j (opt_ev FRespBody (response_body_of d))
    else []
  | KHeaders =>
    if parent_kind_is anc KRequest then for_id2 (http_id d anc) j [FReqHeaders (schema_of d)]
    else if parent_kind_is anc KHTTPResponseCode then for_id2 (http_id d anc) j [FRespHeaders (schema_of d)]
    else []
  | KParams => for_id2 (rpc_id d anc) j [FParams (schema_of d)]
  | KResult => for_id2 (rpc_id d anc) j [FResult (schema_of d)]
  | _ => []
  end.

Definition vstep2 (body_text : coords -> bytes) (t : dtree) (anc : list dtree) (c c' : catalog) : Prop :=
  forall j x, om_get iid_eqb (c_inters c) j = Some x -> iproto x = i_proto j ->
  exists x', om_get iid_eqb (c_inters c') j = Some x' /\ iproto x' = iproto x /\
             fview x' = fold_left apply2 (events2 body_text t anc j) (fview x).

Lemma vstep2_same bt t anc c c' :
  c_inters c' = c_inters c -> (forall j, events2 bt t anc j = []) -> vstep2 bt t anc c c'.
Proof. intros Hi He j x Hj Hp. exists x. rewrite Hi, He. repeat split; auto. Qed.

Lemma vstep2_snoc bt t anc c c' i v :
  c_inters c' = c_inters c ++ [(i, v)] -> (forall j, events2 bt t anc j = []) -> vstep2 bt t anc c c'.
Proof.
  intros Hi He j x Hj Hp. exists x. rewrite Hi, He. split; [apply om_get_snoc_old; exact Hj|]. split; reflexivity.
Qed.

Lemma map_rview_set_last h f g :
  (forall r, rview (f r) = g (rview r)) ->
  map rview (hi_responses (set_last_response h f)) = set_last_rv g (map rview (hi_responses h)).
Proof.
  intro Hf. unfold set_last_response, set_last_rv. simpl. rewrite <- map_rev.
  destruct (rev (hi_responses h)) as [|r0 rs]; [reflexivity|].
  cbn [map rev]. rewrite map_app, <- map_rev. cbn [map]. rewrite Hf. reflexivity.
Qed.

(* decide the if-chain of request_body_of / response_body_of from the facts of a leaf *)
Ltac chain_compute :=
  repeat match goal with
         | Hc : ?X = true |- context [if ?X then _ else _] => rewrite Hc
         | Hc : ?X = false |- context [if ?X then _ else _] => rewrite Hc
         end.

Ltac http_view2 H Hk bb :=
  unfold kerr, cbind in H; walk H; inversion H; subst bb; clear H; rewrite b_cat_with_cat;
  match goal with Hc : check_path _ _ _ = COk ?a |- _ =>
    eapply vstep2_snoc; [simpl; rewrite (check_path_cat _ _ _ _ Hc); reflexivity
                       | intro j; unfold events2, dk; rewrite Hk; reflexivity] end.

Section ViewStep2.
  Variable body_text : coords -> bytes.
  Variable banned : list kind.

  Lemma add_request_view2 d anc b b' :
    add_request d anc b = COk b' ->
    forall j x, om_get iid_eqb (c_inters (b_cat b)) j = Some x -> iproto x = i_proto j ->
    exists x', om_get iid_eqb (c_inters (b_cat b')) j = Some x' /\ iproto x' = iproto x /\
      fview x' = fold_left apply2
                   (for_id2 (http_id d anc) j
                      ((if kind_eqb (d_kind d) KRequest then [FReq] else []) ++ opt_ev FReqBody (request_body_of d)))
                   (fview x).
  Proof.
    unfold add_request, kerr, get_http. intro H. cbv beta zeta in H.
    destruct (kind_eqb (d_kind d) KRequest) eqn:Ek; walk H; inversion H; subst b'; clear H;
      rewrite b_cat_with_cat; intros j x Hj Hp;
      match goal with Hh : http_id _ _ = IdOk ?i |- _ => destruct (http_id_proto _ _ _ Hh) as [Hpi _] end;
      unfold request_body_of;
      match goal with Hn : norm_notation _ = Some _ |- _ => rewrite Hn end; cbv zeta; chain_compute;
      unfold upd_http; simpl c_inters; rewrite ?om_get_update, Hj; unfold for_id2;
      (destruct (iid_eqb j i) eqn:E; [apply iid_eqb_eq in E; subst j | eexists; repeat split; reflexivity]);
      destruct (http_entry _ _ Hpi Hp) as [h0 ->]; eexists; (split; [reflexivity|]); (split; [reflexivity|]).
    all: try match goal with Hl : om_get iid_eqb (c_inters (upd_http _ _ _)) _ = Some (IHttp ?hh) |- _ =>
               unfold upd_http in Hl; simpl c_inters in Hl; rewrite om_get_update, Hj, iid_eqb_refl in Hl;
               inversion Hl; subst hh; clear Hl end.
    all: try match goal with Hl : om_get iid_eqb (c_inters (b_cat _)) _ = Some (IHttp ?hh) |- _ =>
               rewrite Hj in Hl; inversion Hl; subst hh; clear Hl end.
    all: try match goal with Hx : hi_request _ = Some _ |- _ => revert Hx end.
    all: unfold fview; cbn [fold_left apply2 app opt_ev upd_fv fv_desc fv_query fv_req fv_resps fv_params fv_result
                            hi_desc hi_query hi_request hi_responses q_body q_headers];
      destruct (hi_request h0) as [r0|] eqn:E0; cbn [hi_request q_body q_headers]; rewrite ?E0;
      try (intro Hx; inversion Hx; subst; clear Hx); try discriminate; try reflexivity.
  Qed.

  Definition set_body_rv (bd : body_) (r : rv) : rv := match r with (c, a, _, h) => (c, a, Some bd, h) end.
  Definition set_headers_rv (s : sdesc) (r : rv) : rv := match r with (c, a, b, _) => (c, a, b, Some s) end.

  Lemma add_response_view2 d anc b b' :
    add_response d anc b = COk b' ->
    forall j x, om_get iid_eqb (c_inters (b_cat b)) j = Some x -> iproto x = i_proto j ->
    exists x', om_get iid_eqb (c_inters (b_cat b')) j = Some x' /\ iproto x' = iproto x /\
      fview x' = fold_left apply2
                   (for_id2 (http_id d anc) j
                      ((if kind_eqb (d_kind d) KHTTPResponseCode then [FResp (d_keyword d) (d_annot d)] else [])
                       ++ opt_ev FRespBody (response_body_of d)))
                   (fview x).
  Proof.
    unfold add_response, kerr, get_http. intro H. cbv beta zeta in H. unfold cbind in H.
    destruct (kind_eqb (d_kind d) KHTTPResponseCode) eqn:Ek; walk H; inversion H; subst b'; clear H;
      rewrite b_cat_with_cat; intros j x Hj Hp;
      unfold response_body_of;
      match goal with Hn : norm_notation _ = Some _ |- _ => rewrite Hn end; cbv zeta;
      try match goal with Hb : d_body _ = _ |- _ => rewrite Hb end; chain_compute.
    all: try (exists x; split; [exact Hj|]; split; [reflexivity|];
              destruct (http_id d anc); unfold for_id2; simpl; try reflexivity; destruct (iid_eqb j i); reflexivity).
    all: match goal with Hh : http_id _ _ = IdOk ?i |- _ => destruct (http_id_proto _ _ _ Hh) as [Hpi _] end;
      unfold upd_http; simpl c_inters; rewrite ?om_get_update, Hj; unfold for_id2;
      (destruct (iid_eqb j i) eqn:E; [apply iid_eqb_eq in E; subst j | eexists; repeat split; reflexivity]);
      destruct (http_entry _ _ Hpi Hp) as [h0 ->]; eexists; (split; [reflexivity|]); (split; [reflexivity|]).
    all: unfold fview; cbn [fold_left apply2 app opt_ev upd_fv fv_desc fv_query fv_req fv_resps fv_params fv_result
                            hi_desc hi_query hi_request hi_responses];
      try match goal with |- context [set_last_response _ (fun r0 => {| r_code := _; r_annot := _; r_body := Some ?bd; r_headers := _; r_dir := _ |})] =>
            rewrite (map_rview_set_last _ _ (set_body_rv bd)); [|intro; reflexivity] end;
      cbn [hi_responses]; rewrite ?map_app; try reflexivity.
  Qed.

  Lemma view_step2 t anc b b' :
    add_directive body_text banned t anc b = COk b' -> vstep2 body_text t anc (b_cat b) (b_cat b').
  Proof.
    intro H. unfold add_directive in H. cbv zeta in H.
    destruct (kind_in (d_kind (tree_dir t)) banned); [discriminate H|].
    destruct (d_kind (tree_dir t)) eqn:Hk; kcompute_in H; cbv beta iota delta [orb] in H.
    all: try (try unfold kerr in H; try unfold berr in H; try unfold cbind in H; walk H; inversion H; try subst b'; clear H; rewrite ?b_cat_with_cat;
              try match goal with Hc : check_path _ _ _ = COk ?a |- _ => simpl; rewrite (check_path_cat _ _ _ _ Hc) end;
              apply vstep2_same; [reflexivity | intro j; unfold events2, dk; rewrite Hk; reflexivity]).
    - (* Description *)
      unfold kerr, berr, get_http, get_rpc in H. walk H; inversion H; subst b'; clear H; rewrite b_cat_with_cat.
      all: assert (Hev : forall j, events2 body_text t anc j =
             (if is_http_method (d_kind d) then for_id2 (http_id (tree_dir t) anc) j [FDesc (n :: b1)]
              else if kind_eqb (d_kind d) KMethod then for_id2 (rpc_id (tree_dir t) anc) j [FDesc (n :: b1)] else []))
        by (intro j; unfold events2, dk; rewrite Hk; cbv beta iota zeta;
            repeat match goal with Hb : d_body _ = Some _ |- _ => rewrite Hb | Hb : parent_dir _ = Some _ |- _ => rewrite Hb
                                   | Hb : description _ = _ |- _ => rewrite Hb end; reflexivity).
      + (* under INFO *)
        apply vstep2_same; [reflexivity|]. intro j. rewrite Hev. apply kind_eqb_eq in Heqb2. rewrite Heqb2. reflexivity.
      + (* under GET/POST/.. *)
        intros j x Hj Hp. unfold upd_http. simpl c_inters. rewrite om_get_update, Hj, Hev, Heqb3, Heqi. unfold for_id2.
        destruct (http_id_proto _ _ _ Heqi) as [Hpi _].
        destruct (iid_eqb j i) eqn:E; [apply iid_eqb_eq in E; subst j | eexists; repeat split; reflexivity].
        destruct (http_entry _ _ Hpi Hp) as [h0 ->]. eexists. split; [reflexivity|]. split; reflexivity.
      + (* under Method *)
        intros j x Hj Hp. unfold upd_rpc. simpl c_inters. rewrite om_get_update, Hj, Hev, Heqb3, Heqb4, Heqi. unfold for_id2.
        destruct (rpc_id_proto _ _ _ Heqi) as [Hpi _].
        destruct (iid_eqb j i) eqn:E; [apply iid_eqb_eq in E; subst j | eexists; repeat split; reflexivity].
        destruct (rpc_entry _ _ Hpi Hp) as [r0 ->]. eexists. split; [reflexivity|]. split; reflexivity.
      + (* under TAG *)
        apply vstep2_same; [reflexivity|]. intro j. rewrite Hev, Heqb3, Heqb4. reflexivity.
    - (* URL *)
      unfold kerr, cbind in H. walk H; inversion H; subst b'; clear H; simpl;
        match goal with Hc : check_path _ _ _ = COk _ |- _ => rewrite (check_path_cat _ _ _ _ Hc) end;
        (apply vstep2_same; [reflexivity | intro j; unfold events2, dk; rewrite Hk; reflexivity]).
    - http_view2 H Hk b'.
    - http_view2 H Hk b'.
    - http_view2 H Hk b'.
    - http_view2 H Hk b'.
    - http_view2 H Hk b'.
    - (* Body *)
      unfold kerr in H. walk H.
      + intros j x Hj Hp. destruct (add_request_view2 _ _ _ _ H j x Hj Hp) as [x' [A [B C]]].
        exists x'. split; [exact A|]. split; [exact B|]. rewrite C, Hk. unfold events2, dk, parent_kind_is. rewrite Hk, Heqo, Heqb1. reflexivity.
      + intros j x Hj Hp. destruct (add_response_view2 _ _ _ _ H j x Hj Hp) as [x' [A [B C]]].
        exists x'. split; [exact A|]. split; [exact B|]. rewrite C, Hk. unfold events2, dk, parent_kind_is. rewrite Hk, Heqo, Heqb1, Heqb2. reflexivity.
      + inversion H; subst b'. apply vstep2_same; [reflexivity|]. intro j. unfold events2, dk, parent_kind_is. rewrite Hk, Heqo, Heqb1, Heqb2. reflexivity.
    - (* Request *)
      intros j x Hj Hp. destruct (add_request_view2 _ _ _ _ H j x Hj Hp) as [x' [A [B C]]].
      exists x'. split; [exact A|]. split; [exact B|]. rewrite C, Hk. unfold events2, dk. rewrite Hk. reflexivity.
    - (* response code *)
      intros j x Hj Hp. destruct (add_response_view2 _ _ _ _ H j x Hj Hp) as [x' [A [B C]]].
      exists x'. split; [exact A|]. split; [exact B|]. rewrite C, Hk. unfold events2, dk. rewrite Hk. reflexivity.
    - (* Headers *)
      unfold kerr, get_http in H. walk H; inversion H; subst b'; clear H; rewrite b_cat_with_cat;
        intros j x Hj Hp; unfold upd_http; simpl c_inters; rewrite om_get_update, Hj;
        unfold events2, dk; rewrite Hk; cbv beta iota zeta;
        repeat match goal with Hb : parent_kind_is _ _ = _ |- _ => rewrite Hb end;
        match goal with Hh : http_id _ _ = IdOk ?i |- _ => rewrite Hh; destruct (http_id_proto _ _ _ Hh) as [Hpi _] end;
        unfold for_id2;
        (destruct (iid_eqb j i) eqn:E; [apply iid_eqb_eq in E; subst j | eexists; repeat split; reflexivity]);
        destruct (http_entry _ _ Hpi Hp) as [h0 ->]; eexists; (split; [reflexivity|]); (split; [reflexivity|]);
        match goal with Hl : om_get _ _ _ = Some (IHttp ?hh) |- _ => rewrite Hj in Hl; inversion Hl; subst hh end.
      + unfold fview. simpl. rewrite Heqo1. reflexivity.
      + unfold fview. cbn [fold_left apply2 upd_fv fv_desc fv_query fv_req fv_resps fv_params fv_result hi_desc hi_query hi_request].
        rewrite (map_rview_set_last _ _ (set_headers_rv (schema_of (tree_dir t)))); [reflexivity | intro; reflexivity].
    - (* Query *)
      unfold kerr, get_http in H. walk H; inversion H; subst b'; clear H; rewrite b_cat_with_cat.
      intros j x Hj Hp. unfold upd_http. simpl c_inters. rewrite om_get_update, Hj.
      unfold events2, dk. rewrite Hk. cbv beta iota zeta. rewrite Heqi. unfold for_id2.
      destruct (http_id_proto _ _ _ Heqi) as [Hpi _].
      destruct (iid_eqb j i) eqn:E; [apply iid_eqb_eq in E; subst j | eexists; repeat split; reflexivity].
      destruct (http_entry _ _ Hpi Hp) as [h0 ->]. eexists. split; [reflexivity|]. split; reflexivity.
    - (* Method *)
      unfold kerr, cbind in H. walk H. inversion H; subst b'; clear H. rewrite b_cat_with_cat.
      eapply vstep2_snoc; [reflexivity | intro j; unfold events2, dk; rewrite Hk; reflexivity].
    - (* Params *)
      unfold kerr, get_rpc in H. walk H; inversion H; subst b'; clear H; rewrite b_cat_with_cat.
      intros j x Hj Hp. unfold upd_rpc. simpl c_inters. rewrite om_get_update, Hj.
      unfold events2, dk. rewrite Hk. cbv beta iota zeta. rewrite Heqi. unfold for_id2.
      destruct (rpc_id_proto _ _ _ Heqi) as [Hpi _].
      destruct (iid_eqb j i) eqn:E; [apply iid_eqb_eq in E; subst j | eexists; repeat split; reflexivity].
      destruct (rpc_entry _ _ Hpi Hp) as [r0 ->]. eexists. split; [reflexivity|]. split; reflexivity.
    - (* Result *)
      unfold kerr, get_rpc in H. walk H; inversion H; subst b'; clear H; rewrite b_cat_with_cat.
      intros j x Hj Hp. unfold upd_rpc. simpl c_inters. rewrite om_get_update, Hj.
      unfold events2, dk. rewrite Hk. cbv beta iota zeta. rewrite Heqi. unfold for_id2.
      destruct (rpc_id_proto _ _ _ Heqi) as [Hpi _].
      destruct (iid_eqb j i) eqn:E; [apply iid_eqb_eq in E; subst j | eexists; repeat split; reflexivity].
      destruct (rpc_entry _ _ Hpi Hp) as [r0 ->]. eexists. split; [reflexivity|]. split; reflexivity.
  Qed.

  Lemma create_step2 t anc b b' i :
    add_directive body_text banned t anc b = COk b' -> inter_delta t anc = [i] ->
    om_get iid_eqb (c_inters (b_cat b)) i = None ->
    exists x, om_get iid_eqb (c_inters (b_cat b')) i = Some x /\ iproto x = i_proto i /\ fview x = fv_empty.
  Proof.
    intros H Hd Hnone. unfold add_directive in H. cbv zeta in H.
    destruct (kind_in (d_kind (tree_dir t)) banned); [discriminate H|].
    unfold inter_delta, dk in Hd.
    destruct (d_kind (tree_dir t)) eqn:Hk; kcompute_in Hd; cbv beta iota in Hd; try discriminate Hd;
      kcompute_in H; cbv beta iota in H; unfold kerr, cbind in H; walk H; inversion H; subst b'; clear H;
      rewrite b_cat_with_cat; simpl c_inters;
      try match goal with Hc : check_path _ _ _ = COk _ |- _ => rewrite (check_path_cat _ _ _ _ Hc) in * end;
      try match goal with Hp : path_of _ _ = PathOk _ |- _ => rewrite Hp in Hd end;
      try match goal with Hp : rpc_id _ _ = IdOk _ |- _ => rewrite Hp in Hd; destruct (rpc_id_proto _ _ _ Hp) as [Hpr _] end;
      inversion Hd; subst i; clear Hd;
      eexists; (split; [apply om_get_snoc_new; exact Hnone|]); split; try reflexivity.
    destruct (rpc_id_proto _ _ _ Heqi0) as [Hpr _]. symmetry; exact Hpr.
  Qed.
End ViewStep2.

Definition events2_of (bt : coords -> bytes) (j : iid) (l : list (dtree * list dtree)) : list ev2 :=
  flat_map (fun p => events2 bt (fst p) (snd p) j) l.

Section RunView2.
  Variable body_text : coords -> bytes.
  Variable banned : list kind.

  Lemma run_view2 l : forall b b', run body_text banned l b = COk b' ->
    forall j x, om_get iid_eqb (c_inters (b_cat b)) j = Some x -> iproto x = i_proto j ->
    exists x', om_get iid_eqb (c_inters (b_cat b')) j = Some x' /\ iproto x' = iproto x /\
               fview x' = fold_left apply2 (events2_of body_text j l) (fview x).
  Proof.
    induction l as [|p r IH]; intros b b' H j x Hj Hp; simpl in H.
    - inversion H; subst. exists x. repeat split; auto.
    - destruct (add_directive body_text banned (fst p) (snd p) b) as [b1| | |] eqn:E; simpl in H; try discriminate H.
      apply view_step2 in E. destruct (E j x Hj Hp) as [x1 [A [B C]]].
      destruct (IH _ _ H j x1 A) as [x' [A' [B' C']]]; [congruence|].
      exists x'. split; [exact A'|]. split; [congruence|].
      unfold events2_of in *. simpl. rewrite fold_left_app, <- C. exact C'.
  Qed.
End RunView2.


Section Content2.
  Variable path_props : coords -> option (list bytes).
  Variable body_text : coords -> bytes.
  Variable banned : list kind.
  Variable post : list dtree.
  Variable c : catalog.
  Hypothesis Hbuild : build path_props body_text banned post = COk c.

  (* FULL: every interaction of the catalog was made by exactly one method directive; its annotation is
     that directive's; its content is what the directives AFTER that one (in pre-order) that resolve to
     its id put there, in that order; nothing before it and nothing else contributes *)
  Theorem full_content_faithful_lemma : forall j x, In (j, x) (c_inters c) ->
    exists l1 t anc l2,
      positions_all post = l1 ++ (t, anc) :: l2 /\ inter_delta t anc = [j] /\ made_by t anc j /\
      ~ In j (method_ids l1) /\ ~ In j (method_ids l2) /\
      iannot x = d_annot (tree_dir t) /\
      fview x = fold_left apply2 (events2_of body_text j l2) fv_empty.
  Proof.
    intros j x Hin.
    destruct (build_run _ _ _ _ _ Hbuild) as [en [tg [b [all [He [Ht [Hrun Hc]]]]]]].
    destruct (catalog_keys_lemma _ _ _ _ _ Hbuild) as [_ [_ [_ [_ [Hkeys Hann]]]]].
    destruct (keys_unique_lemma _ _ _ _ _ Hbuild) as [_ [_ [_ [_ Hnd]]]].
    assert (Hj : In j (method_ids (positions_all post))).
    { rewrite <- Hkeys. apply (in_map fst) in Hin. exact Hin. }
    unfold method_ids in Hj. apply in_flat_map in Hj as [[t anc] [Hpos Hdelta]]. simpl in Hdelta.
    apply in_split in Hpos as [l1 [l2 Hsplit]].
    assert (Hm : method_kind t = true).
    { unfold inter_delta in Hdelta. unfold method_kind.
      destruct (is_http_method (dk t)); [reflexivity|]. destruct (kind_eqb (dk t) KMethod); [reflexivity | destruct Hdelta]. }
    destruct (every_method_makes_an_interaction_lemma _ _ _ _ _ Hbuild t anc) as [i [Hi [Hmade _]]];
      [rewrite Hsplit; apply in_or_app; right; left; reflexivity | exact Hm |].
    rewrite Hi in Hdelta. destruct Hdelta as [<-|[]].
    assert (Hids : method_ids (positions_all post) = method_ids l1 ++ [i] ++ method_ids l2).
    { rewrite Hsplit. unfold method_ids. rewrite flat_map_app. simpl. rewrite Hi. reflexivity. }
    rewrite Hkeys, Hids in Hnd.
    assert (Hn1 : ~ In i (method_ids l1)).
    { eapply NoDup_app_disjoint; [exact Hnd | left; reflexivity]. }
    assert (Hn2 : ~ In i (method_ids l2)).
    { apply NoDup_app_r in Hnd. simpl in Hnd. inversion Hnd; assumption. }
    exists l1, t, anc, l2. split; [exact Hsplit|]. split; [exact Hi|]. split; [exact Hmade|].
    split; [exact Hn1|]. split; [exact Hn2|].
    (* annotation *)
    assert (HA : iannot x = d_annot (tree_dir t)).
    { assert (Hin' : In (i, iannot x) (aview (c_inters c))).
      { unfold aview. apply in_map_iff. exists (i, x). split; [reflexivity | exact Hin]. }
      rewrite Hann, Hsplit in Hin'. unfold method_annots in Hin'. rewrite flat_map_app in Hin'. simpl in Hin'.
      rewrite Hi in Hin'. simpl in Hin'.
      apply in_app_or in Hin' as [H|[H|H]].
      - exfalso. apply Hn1. rewrite <- method_annots_ids. apply (in_map fst) in H. exact H.
      - inversion H. reflexivity.
      - exfalso. apply Hn2. rewrite <- method_annots_ids. apply (in_map fst) in H. exact H. }
    split; [exact HA|].
    (* content *)
    rewrite Hsplit, run_app in Hrun.
    destruct (run body_text banned l1 (init_state en tg)) as [b1| | |] eqn:E1; simpl in Hrun; try discriminate Hrun.
    destruct (add_directive body_text banned t anc b1) as [b2| | |] eqn:E2; simpl in Hrun; try discriminate Hrun.
    destruct (run_keys _ _ _ _ _ E1) as [_ [_ [_ [_ K1]]]]. simpl in K1.
    assert (Hnone : om_get iid_eqb (c_inters (b_cat b1)) i = None).
    { apply om_get_none_keys. rewrite <- aview_keys, K1, method_annots_ids. exact Hn1. }
    destruct (create_step2 _ _ _ _ _ _ _ E2 Hi Hnone) as [x0 [G1 [G2 G3]]].
    destruct (run_view2 _ _ _ _ _ Hrun i x0 G1 G2) as [x' [G4 [_ G5]]].
    rewrite G3 in G5. rewrite <- G5.
    (* the entry of the final catalog is x' with its path variables filled in *)
    subst c. unfold set_pathvars in Hin. simpl in Hin. apply in_map_iff in Hin as [[k y] [Heq Hy]].
    assert (Hky : k = i /\ fview x = fview y).
    { destruct y as [h|r]; simpl in Heq; inversion Heq; split; reflexivity. }
    destruct Hky as [-> Hcv]. rewrite Hcv. f_equal.
    assert (Hndb : NoDup (map fst (c_inters (b_cat b)))).
    { assert (K : map fst (c_inters (set_pathvars (b_cat b) all)) = map fst (c_inters (b_cat b))).
      { rewrite <- !aview_keys, aview_set_pathvars. reflexivity. }
      rewrite <- K, Hkeys, Hids. exact Hnd. }
    pose proof (om_get_in_nodup _ _ _ Hndb Hy) as G6. rewrite G4 in G6. inversion G6; reflexivity.
  Qed.
End Content2.

