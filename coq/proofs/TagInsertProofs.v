(* C20 (b), TAG: a TAG declaration that nothing uses, inserted at (or removed from) an arbitrary top-level
   position.  The analogue of InsertProofs.step_srel for the tag collection. *)
From Coq Require Import List NArith Bool String Lia Permutation.
From JV.lib Require Import Bytes.
From JV.gen Require Import DirectiveTables TagName.
From JV.model Require Import ScannerSem Core Description PathParams TagTitle Catalog.
From JV.proofs Require Import BytesLemmas TagNameProofs CatalogProofs FaithfulProofs LocalityProofs OrderProofs FrameProofs InsertProofs TagFrameProofs.
Import ListNotations.
Open Scope N_scope.

(* ---- tags_for / tags_from_directive over a collection with one more, unused, entry ---- *)
Definition same_but_ins (e : bytes * tag) (l1 : list (bytes * tag))
           (r r' : cres (list bytes * list (bytes * tag))) : Prop :=
  match r with
  | COk (ns, tg) => exists l1' l2', tg = l1' ++ l2' /\ map fst l1' = map fst l1 /\ r' = COk (ns, l1' ++ e :: l2')
  | CErr er => r' = CErr er
  | CPanic w => r' = CPanic w
  | CFuel => r' = CFuel
  end.

Lemma tags_go_ins td i e ns : ~ In (fst e) ns -> forall acc l1 l2,
  same_but_ins e l1 (tags_go td i ns acc (l1 ++ l2)) (tags_go td i ns acc (l1 ++ e :: l2)).
Proof.
  induction ns as [|n r IH]; intros Hn acc l1 l2.
  - simpl. exists l1, l2. repeat split; reflexivity.
  - cbn [tags_go]. assert (Hne : n <> fst e) by (intro E; apply Hn; left; exact E).
    rewrite (om_get_ins e l1 l2 n Hne).
    destruct (om_get beq (l1 ++ l2) n) as [t0|]; [|reflexivity].
    destruct (t_auto t0); [reflexivity|].
    assert (Hr : ~ In (fst e) r) by (intro H; apply Hn; right; exact H).
    destruct i as [j|].
    + rewrite (om_update_ins e l1 l2 n _ Hne), om_update_app.
      specialize (IH Hr (acc ++ [n]) (om_update beq l1 n (fun t1 => tag_add_iid t1 j)) (om_update beq l2 n (fun t1 => tag_add_iid t1 j))).
      unfold same_but_ins in *.
      destruct (tags_go td (Some j) r (acc ++ [n]) (om_update beq l1 n (fun t1 => tag_add_iid t1 j) ++ om_update beq l2 n (fun t1 => tag_add_iid t1 j))) as [[ns tg]| | |];
        try exact IH.
      destruct IH as [l1' [l2' [A [B C]]]]. exists l1', l2'. split; [exact A|]. split; [|exact C].
      rewrite B. apply om_update_keys.
    + exact (IH Hr (acc ++ [n]) l1 l2).
Qed.

Definition tag_use_ok (n : bytes) (t : dtree) (anc : list dtree) (i : iid) : Prop :=
  match used_tags_directive t anc with
  | Some td => ~ In n (d_unnamed td)
  | None => auto_tag_name (i_path i) <> n
  end.

Lemma tags_from_directive_ins td i e l1 l2 : ~ In (fst e) (d_unnamed td) ->
  same_but_ins e l1 (tags_from_directive td i (l1 ++ l2)) (tags_from_directive td i (l1 ++ e :: l2)).
Proof.
  intro Hn. rewrite !tags_from_directive_unfold. unfold kerr.
  destruct (negb (beq (d_annot td) [])); [reflexivity|].
  destruct (d_unnamed td) as [|x r] eqn:E; [reflexivity|]. apply tags_go_ins. exact Hn.
Qed.

Lemma tags_for_ins me anc i e l1 l2 : tag_use_ok (fst e) me anc i ->
  same_but_ins e l1 (tags_for me anc i (l1 ++ l2)) (tags_for me anc i (l1 ++ e :: l2)).
Proof.
  unfold tag_use_ok. intro H. rewrite !tags_for_unfold.
  destruct (used_tags_directive me anc) as [td|]; [apply tags_from_directive_ins; exact H|].
  cbv zeta. set (a := auto_tag_name (i_path i)) in *.
  rewrite (om_has_ins e l1 l2 a H). unfold same_but_ins.
  destruct (om_has beq (l1 ++ l2) a).
  - rewrite (om_update_ins e l1 l2 a _ H), om_update_app.
    eexists; eexists. split; [reflexivity|]. split; [apply om_update_keys | reflexivity].
  - rewrite <- !app_assoc. cbn [app]. rewrite (om_update_ins e l1 (l2 ++ [(a, auto_tag i)]) a _ H), om_update_app.
    eexists; eexists. split; [reflexivity|]. split; [apply om_update_keys | reflexivity].
Qed.

(* ---- the steps that read the tag collection, as functions of it ---- *)
Section TagSteps.
  Variable body_text : coords -> bytes.
  Variable banned : list kind.
  Notation add_directive := (add_directive body_text banned).

  Definition new_http (t : dtree) (ns : list bytes) : interaction :=
    IHttp {| hi_annot := d_annot (tree_dir t); hi_desc := None; hi_tags := ns; hi_query := None; hi_request := None;
             hi_responses := []; hi_pathvars := [] |}.
  Definition new_rpc (t : dtree) (ns : list bytes) : interaction :=
    IRpc {| ri_annot := d_annot (tree_dir t); ri_desc := None; ri_tags := ns; ri_params := None; ri_result := None |}.

  Definition with_new (b1 : bstate) (i : iid) (x : interaction) (tg : list (bytes * tag)) : bstate :=
    set_tag tg (with_cat b1 (upd_inters (b_cat b1) (c_inters (b_cat b1) ++ [(i, x)]))).

  Definition lift_tags (r : cres (list bytes * list (bytes * tag))) (k : list bytes * list (bytes * tag) -> bstate) : cres bstate :=
    match r with COk tg => COk (k tg) | CErr e => CErr e | CPanic w => CPanic w | CFuel => CFuel end.

  Lemma http_step_nf T t anc b0 :
    is_http_method (dk t) = true ->
    add_directive t anc (set_tag T b0) =
    if kind_in (dk t) banned then CErr (kw_err (tree_dir t) (CENotAllowed (dk t)))
    else match path_of (tree_dir t) anc with
         | PathNotFound => kerr (tree_dir t) "path not found"
         | PathIncorrect => kerr (tree_dir t) "incorrect path"
         | PathOk p =>
           match check_path (tree_dir t) b0 p with
           | COk b1 =>
             let i := {| i_proto := PHttp; i_method := method_name (dk t); i_path := p |} in
             if om_has iid_eqb (c_inters (b_cat b1)) i then kerr (tree_dir t) "method is already defined"
             else lift_tags (tags_for t anc i T) (fun tg => with_new b1 i (new_http t (fst tg)) (snd tg))
           | CErr e => CErr e | CPanic w => CPanic w | CFuel => CFuel
           end
         end.
  Proof.
    unfold dk. intro Hm. unfold add_directive. cbv zeta.
    destruct (kind_in (d_kind (tree_dir t)) banned); [reflexivity|].
    destruct (d_kind (tree_dir t)) eqn:Hk; try discriminate Hm;
      repeat match goal with
             | |- context [kind_eqb ?a ?b] =>
               let v := eval vm_compute in (kind_eqb a b) in
               lazymatch v with true => idtac | false => idtac end; change (kind_eqb a b) with v
             | |- context [is_http_method ?a] =>
               let v := eval vm_compute in (is_http_method a) in
               lazymatch v with true => idtac | false => idtac end; change (is_http_method a) with v
             end; cbv beta iota; unfold kerr, cbind;
      destruct (path_of (tree_dir t) anc); try reflexivity;
      rewrite check_path_tag; destruct (check_path (tree_dir t) b0 p) as [b1| | |]; try reflexivity;
      tnorm; cbv beta iota zeta; tnorm;
      match goal with |- context [om_has iid_eqb ?m ?i] => destruct (om_has iid_eqb m i) end; try reflexivity;
      match goal with |- context [tags_for ?a ?b ?c ?d] => destruct (tags_for a b c d) as [[ns tg]| | |] end; reflexivity.
  Qed.

  Lemma method_step_nf T t anc b0 :
    dk t = KMethod ->
    add_directive t anc (set_tag T b0) =
    if kind_in KMethod banned then CErr (kw_err (tree_dir t) (CENotAllowed KMethod))
    else if beq (named (tree_dir t) (bs "MethodName")) [] then kerr (tree_dir t) "required parameter"
    else match anc with
         | [] => CPanic "nil Parent"
         | a :: _ =>
           if negb (existsb (fun x => kind_eqb (d_kind (tree_dir x)) KProtocol) (tree_kids a))
           then kerr (tree_dir t) "the directive Protocol was not found"
           else match rpc_id (tree_dir t) anc with
                | IdErr cls => kerr (tree_dir t) cls
                | IdOk i =>
                  if om_has iid_eqb (c_inters (b_cat b0)) i then kerr (tree_dir t) "method is already defined"
                  else lift_tags (tags_for t anc i T) (fun tg => with_new b0 i (new_rpc t (fst tg)) (snd tg))
                end
         end.
  Proof.
    unfold dk. intro Hk. unfold add_directive. cbv zeta. rewrite Hk.
    destruct (kind_in KMethod banned); [reflexivity|].
    repeat match goal with
           | |- context [kind_eqb ?a ?b] =>
             let v := eval vm_compute in (kind_eqb a b) in
             lazymatch v with true => idtac | false => idtac end; change (kind_eqb a b) with v
           | |- context [is_http_method ?a] =>
             let v := eval vm_compute in (is_http_method a) in
             lazymatch v with true => idtac | false => idtac end; change (is_http_method a) with v
           end; cbv beta iota; unfold kerr, cbind.
    destruct (beq (named (tree_dir t) (bs "MethodName")) []); [reflexivity|].
    destruct anc as [|a rest]; [reflexivity|].
    destruct (negb (existsb (fun x => kind_eqb (d_kind (tree_dir x)) KProtocol) (tree_kids a))); [reflexivity|].
    destruct (rpc_id (tree_dir t) (a :: rest)) as [i|cls]; [|reflexivity].
    tnorm. destruct (om_has iid_eqb (c_inters (b_cat b0)) i); [reflexivity|].
    destruct (tags_for t (a :: rest) i T) as [[ns tg]| | |]; reflexivity.
  Qed.

  (* Description: only under a TAG does it read the tags *)
  Lemma desc_step_frame T t anc b0 :
    dk t = KDescription -> (forall p, parent_dir anc = Some p -> kind_eqb (d_kind p) KTAG = false) ->
    add_directive t anc (set_tag T b0) = cmap (set_tag T) (add_directive t anc b0).
  Proof.
    unfold dk. intros Hk Hp. unfold add_directive. cbv zeta. rewrite Hk.
    destruct (kind_in KDescription banned); [reflexivity|].
    repeat match goal with
           | |- context [kind_eqb ?a ?b] =>
             let v := eval vm_compute in (kind_eqb a b) in
             lazymatch v with true => idtac | false => idtac end; change (kind_eqb a b) with v
           | |- context [is_http_method ?a] =>
             let v := eval vm_compute in (is_http_method a) in
             lazymatch v with true => idtac | false => idtac end; change (is_http_method a) with v
           end; cbv beta iota.
    unfold kerr, berr, get_http, get_rpc, upd_http, upd_rpc.
    destruct (parent_dir anc) as [p|] eqn:Epar.
    - specialize (Hp p eq_refl). repeat twalk1; try reflexivity; congruence.
    - twalk.
  Qed.
End TagSteps.

(* ---- two runs whose states differ by one inserted, unused, tag ---- *)
Definition grel_some (K : list bytes) (e : bytes * tag) (b bb : bstate) : Prop :=
  exists l1 l2, map fst l1 = K /\ exists b0, b = set_tag (l1 ++ l2) b0 /\ bb = set_tag (l1 ++ e :: l2) b0.

(* nothing at this position uses the tag named n *)
Definition tag_step_ok (n : bytes) (t : dtree) (anc : list dtree) : Prop :=
  (forall i, inter_delta t anc = [i] -> tag_use_ok n t anc i) /\
  (dk t = KTags -> ~ In n (d_unnamed (tree_dir t))) /\
  (dk t = KDescription -> forall p, parent_dir anc = Some p -> d_kind p = KTAG -> named p (bs "TagName") <> n).

Section TagSim.
  Variable body_text : coords -> bytes.
  Variable banned : list kind.
  Notation add_directive := (add_directive body_text banned).

  Lemma lift_tags_sim K e l1 r r' b1 i x :
    map fst l1 = K -> same_but_ins e l1 r r' ->
    sim (grel_some K e) (lift_tags r (fun tg => with_new b1 i (x (fst tg)) (snd tg)))
                        (lift_tags r' (fun tg => with_new b1 i (x (fst tg)) (snd tg))).
  Proof.
    intros HK H. unfold same_but_ins in H. destruct r as [[ns tg]| | |]; try (rewrite H; exact I).
    destruct H as [l1' [l2' [A [B ->]]]]. simpl. exists l1', l2'. split; [congruence|].
    exists (with_cat b1 (upd_inters (b_cat b1) (c_inters (b_cat b1) ++ [(i, x ns)]))). subst tg. split; reflexivity.
  Qed.

  Lemma desc_tag_sim K e l1 l2 t anc p b0 :
    map fst l1 = K -> dk t = KDescription -> parent_dir anc = Some p -> d_kind p = KTAG ->
    named p (bs "TagName") <> fst e ->
    sim (grel_some K e) (add_directive t anc (set_tag (l1 ++ l2) b0)) (add_directive t anc (set_tag (l1 ++ e :: l2) b0)).
  Proof.
    unfold dk. intros HK Hk Hpar Hp Hn. unfold add_directive. cbv zeta. rewrite Hk, Hpar, Hp.
    destruct (kind_in KDescription banned); [exact I|].
    repeat match goal with
           | |- context [kind_eqb ?a ?b] =>
             let v := eval vm_compute in (kind_eqb a b) in
             lazymatch v with true => idtac | false => idtac end; change (kind_eqb a b) with v
           | |- context [is_http_method ?a] =>
             let v := eval vm_compute in (is_http_method a) in
             lazymatch v with true => idtac | false => idtac end; change (is_http_method a) with v
           end; cbv beta iota.
    unfold kerr, berr. tnorm. rewrite (om_get_ins e l1 l2 _ Hn).
    repeat (lazymatch goal with
            | |- sim _ (match ?X with _ => _ end) _ => head_disc X ltac:(fun Z => destruct Z eqn:?)
            end; cbv beta iota zeta; tnorm); try exact I.
    simpl. rewrite (om_update_ins e l1 l2 _ _ Hn), om_update_app.
    eexists; eexists. split; [rewrite om_update_keys; exact HK|]. exists b0. split; reflexivity.
  Qed.

  Lemma step_grel K e t anc b bb :
    grel_some K e b bb -> tag_step_ok (fst e) t anc ->
    sim (grel_some K e) (add_directive t anc b) (add_directive t anc bb).
  Proof.
    intros [l1 [l2 [HK [b0 [-> ->]]]]] [Hm [Ht Hd]].
    destruct (tag_kind (dk t)) eqn:Etk.
    2:{ rewrite !(add_directive_tag _ _ _ _ _ _ Etk). apply sim_cmap. intro x. exists l1, l2. split; [exact HK|]. exists x. split; reflexivity. }
    unfold tag_kind in Etk.
    destruct (is_http_method (dk t)) eqn:Eh.
    - (* GET / POST / .. *)
      rewrite !(http_step_nf _ _ _ _ _ _ Eh).
      destruct (kind_in (dk t) banned); [exact I|]. unfold kerr.
      destruct (path_of (tree_dir t) anc) as [p| |] eqn:Ep; try exact I.
      destruct (check_path (tree_dir t) b0 p) as [b1| | |]; try exact I. cbv zeta.
      match goal with |- context [om_has iid_eqb ?m ?i] => destruct (om_has iid_eqb m i) end; [exact I|].
      apply (lift_tags_sim K e l1 _ _ b1 _ (new_http t)); [exact HK|].
      apply tags_for_ins. apply Hm. unfold inter_delta. rewrite Eh, Ep. reflexivity.
    - destruct (kind_eq_dec (dk t) KMethod) as [Ek|Ek].
      + rewrite !(method_step_nf _ _ _ _ _ _ Ek).
        destruct (kind_in KMethod banned); [exact I|]. unfold kerr.
        destruct (beq (named (tree_dir t) (bs "MethodName")) []); [exact I|].
        destruct anc as [|a rest]; [exact I|].
        destruct (negb (existsb (fun x => kind_eqb (d_kind (tree_dir x)) KProtocol) (tree_kids a))); [exact I|].
        destruct (rpc_id (tree_dir t) (a :: rest)) as [i|cls] eqn:Er; [|exact I].
        destruct (om_has iid_eqb (c_inters (b_cat b0)) i); [exact I|].
        apply (lift_tags_sim K e l1 _ _ b0 _ (new_rpc t)); [exact HK|].
        apply tags_for_ins. apply Hm. unfold inter_delta. rewrite Eh, Ek. change (kind_eqb KMethod KMethod) with true. cbv iota.
        rewrite Er. reflexivity.
      + destruct (kind_eq_dec (dk t) KTags) as [Ek2|Ek2].
        * (* Tags *)
          unfold dk in Ek2. rewrite !(add_directive_tags _ _ _ _ _ Ek2).
          destruct (kind_in KTags banned); [exact I|]. tnorm.
          pose proof (tags_from_directive_ins (tree_dir t) None e l1 l2 (Ht Ek2)) as Hs. unfold same_but_ins in Hs.
          destruct (tags_from_directive (tree_dir t) None (l1 ++ l2)) as [[ns tg]| | |]; try (rewrite Hs; exact I).
          destruct Hs as [l1' [l2' [_ [_ ->]]]]. simpl. exists l1, l2. split; [exact HK|]. exists b0. split; reflexivity.
        * (* Description *)
          assert (Ek3 : dk t = KDescription).
          { destruct (dk t); simpl in Etk; try discriminate Etk; try congruence; reflexivity. }
          destruct (parent_dir anc) as [p|] eqn:Epar.
          -- destruct (kind_eqb (d_kind p) KTAG) eqn:Ept.
             ++ apply kind_eqb_eq in Ept. apply (desc_tag_sim K e l1 l2 t anc p b0 HK Ek3 Epar Ept). exact (Hd Ek3 p eq_refl Ept).
             ++ assert (Hside : forall q, parent_dir anc = Some q -> kind_eqb (d_kind q) KTAG = false)
                  by (intros q Hq; rewrite Epar in Hq; inversion Hq; subst q; exact Ept).
                rewrite !(desc_step_frame _ _ _ _ _ _ Ek3 Hside).
                apply sim_cmap. intro x. exists l1, l2. split; [exact HK|]. exists x. split; reflexivity.
          -- assert (Hside : forall q, parent_dir anc = Some q -> kind_eqb (d_kind q) KTAG = false)
               by (intros q Hq; rewrite Epar in Hq; discriminate Hq).
             rewrite !(desc_step_frame _ _ _ _ _ _ Ek3 Hside).
             apply sim_cmap. intro x. exists l1, l2. split; [exact HK|]. exists x. split; reflexivity.
  Qed.
End TagSim.

(* ---- the declared-tag pass with one more TAG in the middle ---- *)
Lemma gnames_tag_exact ts : (forall t, In t ts -> f_tag t <> Bad) ->
  gnames f_tag ts = map fst (map tag_entry (filter tag_node ts)).
Proof.
  induction ts as [|t r IH]; intro H; [reflexivity|]. unfold gnames in *. cbn [flat_map filter].
  rewrite IH; [|intros x Hx; apply H; right; exact Hx].
  pose proof (H t (or_introl eq_refl)) as Ht. unfold f_tag, tag_node in *.
  destruct (kind_eqb (dk t) KTAG); [|reflexivity].
  destruct (beq (named (tree_dir t) (bs "TagName")) []); [congruence | reflexivity].
Qed.

Lemma collect_tags_gcoll0 ts : is_ok (collect_tags ts []) = gcoll f_tag ts [].
Proof. exact (collect_tags_gcoll ts []). Qed.

Lemma collect_tags_mid_tag a t b tg' :
  tag_node t = true ->
  (collect_tags (a ++ t :: b) [] = COk tg' <->
   exists tg, collect_tags (a ++ b) [] = COk tg /\ named (tree_dir t) (bs "TagName") <> [] /\
              ~ In (named (tree_dir t) (bs "TagName")) (map fst tg) /\
              tg' = map tag_entry (filter tag_node (a ++ t :: b))).
Proof.
  intro Hk. unfold tag_node in Hk.
  assert (Hperm : Permutation (a ++ t :: b) (t :: a ++ b)) by (apply Permutation_sym, Permutation_middle).
  assert (Hft : f_tag t = if beq (named (tree_dir t) (bs "TagName")) [] then Bad else Name (named (tree_dir t) (bs "TagName"))).
  { unfold f_tag. rewrite Hk. reflexivity. }
  split.
  - intro H. pose proof (collect_tags_exact _ _ _ H) as Hex. simpl in Hex.
    assert (Hok : gcoll f_tag (t :: a ++ b) [] = true).
    { rewrite <- (gcoll_perm f_tag _ _ [] [] Hperm); [|tauto]. rewrite <- (collect_tags_gcoll0 (a ++ t :: b)), H. reflexivity. }
    cbn [gcoll] in Hok. rewrite Hft in Hok.
    destruct (beq (named (tree_dir t) (bs "TagName")) []) eqn:En; [discriminate Hok|]. cbn [existsb] in Hok.
    apply gcoll_ok in Hok as [G1 [G2 G3]].
    assert (Hok2 : gcoll f_tag (a ++ b) [] = true) by (apply gcoll_ok; repeat split; auto).
    rewrite <- (collect_tags_gcoll0 (a ++ b)) in Hok2.
    destruct (collect_tags (a ++ b) []) as [tg| | |] eqn:Ec; try discriminate Hok2.
    exists tg. split; [reflexivity|]. split; [apply beq_false_ne; exact En|]. split; [|exact Hex].
    pose proof (collect_tags_exact _ _ _ Ec) as Hex2. simpl in Hex2. subst tg.
    rewrite <- (gnames_tag_exact _ G1). intro Hin. apply (G3 _ Hin). left; reflexivity.
  - intros [tg [Hc [Hn [Hfresh Hex]]]].
    pose proof (collect_tags_exact _ _ _ Hc) as Hex2. simpl in Hex2.
    assert (Hok2 : gcoll f_tag (a ++ b) [] = true) by (rewrite <- (collect_tags_gcoll0 (a ++ b)), Hc; reflexivity).
    apply gcoll_ok in Hok2 as [G1 [G2 G3]].
    assert (Hok : gcoll f_tag (t :: a ++ b) [] = true).
    { cbn [gcoll]. rewrite Hft. apply beq_false_ne in Hn. rewrite Hn. cbn [existsb].
      apply gcoll_ok. repeat split; auto. intros m Hm [<-|[]].
      apply Hfresh. subst tg. rewrite <- (gnames_tag_exact _ G1). exact Hm. }
    rewrite <- (gcoll_perm f_tag _ _ [] [] Hperm) in Hok; [|tauto].
    rewrite <- (collect_tags_gcoll0 (a ++ t :: b)) in Hok.
    destruct (collect_tags (a ++ t :: b) []) as [tg2| | |] eqn:Ec; try discriminate Hok.
    pose proof (collect_tags_exact _ _ _ Ec) as Hex3. simpl in Hex3. congruence.
Qed.

Section TagMid.
  Variable path_props : coords -> option (list bytes).
  Variable body_text : coords -> bytes.
  Variable banned : list kind.
  Notation build := (build path_props body_text banned).
  Notation run := (run body_text banned).

  (* C20 (b), TAG at an arbitrary top-level position, under the hypothesis that nothing uses the name
     (tag_step_ok at every position: no deciding Tags directive names it, no automatic tag has that name, no
     Tags directive at all names it, no Description stands under a TAG of that name); both directions *)
  Theorem tag_inserted_lemma first a t b c' :
    tree_kids t = [] -> tag_node t = true -> kind_in KTAG banned = false ->
    let n := named (tree_dir t) (bs "TagName") in
    (forall p, In p (positions_all ((first :: a) ++ b)) -> tag_step_ok n (fst p) (snd p)) ->
    (build ((first :: a) ++ t :: b) = COk c' <->
     exists c l1 l2, build ((first :: a) ++ b) = COk c /\ n <> [] /\
       ~ In n (map fst (map tag_entry (filter tag_node ((first :: a) ++ b)))) /\
       c_tags c = l1 ++ l2 /\ map fst l1 = map fst (map tag_entry (filter tag_node (first :: a))) /\
       c' = upd_tags c (l1 ++ tag_entry t :: l2)).
  Proof.
    intros Hl Hen Hb n Hok.
    assert (Hk : dk t = KTAG) by (apply kind_eqb_eq; exact Hen).
    assert (K1 : kind_eqb (dk t) KEnum = false) by (rewrite Hk; reflexivity).
    assert (K3 : kind_eqb (dk t) KType = false) by (rewrite Hk; reflexivity).
    assert (K4 : kind_eqb (dk t) KMacro = false) by (rewrite Hk; reflexivity).
    assert (K5 : kind_eqb (dk t) KPath = false) by (rewrite Hk; reflexivity).
    assert (Hadd : forall s, add_all body_text banned ((first :: a) ++ t :: b) s = add_all body_text banned ((first :: a) ++ b) s).
    { intro s. rewrite (add_all_mid_leaf _ _ _ _ _ _ Hl), add_all_two.
      destruct (run (positions_all (first :: a)) s) as [s1| | |]; simpl; try reflexivity.
      rewrite (add_directive_noop _ _ _ _ _ (or_introl Hk)). rewrite Hk, Hb. reflexivity. }
    set (TA := map tag_entry (filter tag_node (first :: a))).
    set (TB := map tag_entry (filter tag_node b)).
    assert (Hfull : map tag_entry (filter tag_node ((first :: a) ++ t :: b)) = TA ++ tag_entry t :: TB).
    { rewrite filter_app, map_app. cbn [filter]. rewrite Hen. reflexivity. }
    assert (Hpart : map tag_entry (filter tag_node ((first :: a) ++ b)) = TA ++ TB).
    { rewrite filter_app, map_app. reflexivity. }
    (* the two folds, from the two initial states *)
    assert (Hsim : forall en,
      sim (grel_some (map fst TA) (tag_entry t))
          (add_all body_text banned ((first :: a) ++ b) (init_state en (TA ++ TB)))
          (add_all body_text banned ((first :: a) ++ b) (init_state en (TA ++ tag_entry t :: TB)))).
    { intro en. rewrite !add_all_run.
      apply (run_sim body_text banned (grel_some (map fst TA) (tag_entry t)) (tag_step_ok n)); [|exact Hok|].
      - intros t0 anc0 x y HR Hst. apply step_grel; assumption.
      - exists TA, TB. split; [reflexivity|]. exists (init_state en []). split; reflexivity. }
    split.
    - intro Hc. change ((first :: a) ++ t :: b) with (first :: (a ++ t :: b)) in Hc. apply build_iff in Hc.
      change (first :: (a ++ t :: b)) with ((first :: a) ++ t :: b) in Hc.
      destruct Hc as [Hj [en [tg' [pvs [bb [all [[A [B [C [D [E F]]]]] V]]]]]]].
      rewrite (collect_enums_mid_other _ _ _ _ K1) in A.
      apply (collect_tags_mid_tag _ _ _ _ Hen) in B as [tg [B [Hn [Hfresh Hex]]]]. fold n in Hn, Hfresh.
      rewrite (check_dup_types_mid_other _ _ _ _ K3) in C.
      rewrite (collect_paths_mid_leaf path_props _ _ _ _ Hl K4 K5) in D.
      pose proof (collect_tags_exact _ _ _ B) as Htg. rewrite app_nil_l, Hpart in Htg. rewrite Hfull in Hex. subst tg tg'.
      rewrite Hadd in E. specialize (Hsim en). rewrite E in Hsim.
      destruct (add_all body_text banned ((first :: a) ++ b) (init_state en (TA ++ TB))) as [bfin| | |] eqn:Eb; simpl in Hsim; try contradiction.
      destruct Hsim as [l1 [l2 [HK [b0 [-> ->]]]]].
      cbn [b_cat set_tag] in V.
      apply (validate_frame (fun x => upd_tags x (l1 ++ tag_entry t :: l2)) (b_cat b0) all c') in V as [c0 [V ->]];
        [| intro x; split; reflexivity | intro x; reflexivity].
      assert (V2 : validate (set_pathvars (b_cat (set_tag (l1 ++ l2) b0)) all) = COk (upd_tags c0 (l1 ++ l2))).
      { cbn [b_cat set_tag]. apply (validate_frame (fun x => upd_tags x (l1 ++ l2)) (b_cat b0) all);
          [intro x; split; reflexivity | intro x; reflexivity|]. exists c0. split; [exact V | reflexivity]. }
      exists (upd_tags c0 (l1 ++ l2)), l1, l2. split; [|split; [exact Hn|]].
      + change ((first :: a) ++ b) with (first :: (a ++ b)). apply build_iff. split; [exact Hj|].
        exists en, (TA ++ TB), pvs, (set_tag (l1 ++ l2) b0), all. unfold stages.
        change (first :: (a ++ b)) with ((first :: a) ++ b). repeat split; assumption.
      + rewrite Hpart. split; [exact Hfresh|]. split; [reflexivity|]. split; [exact HK | reflexivity].
    - intros [c [l1 [l2 [Hc [Hn [Hfresh [Htags [HK ->]]]]]]]].
      change ((first :: a) ++ b) with (first :: (a ++ b)) in Hc. apply build_iff in Hc.
      change (first :: (a ++ b)) with ((first :: a) ++ b) in Hc.
      destruct Hc as [Hj [en [tg [pvs [bfin [all [[A [B [C [D [E F]]]]] V]]]]]]].
      pose proof (collect_tags_exact _ _ _ B) as Htg. rewrite app_nil_l, Hpart in Htg. subst tg.
      change ((first :: a) ++ t :: b) with (first :: (a ++ t :: b)). apply build_iff. split; [exact Hj|].
      change (first :: (a ++ t :: b)) with ((first :: a) ++ t :: b).
      specialize (Hsim en). rewrite E in Hsim.
      destruct (add_all body_text banned ((first :: a) ++ b) (init_state en (TA ++ tag_entry t :: TB))) as [bb| | |] eqn:Ebb;
        simpl in Hsim; try contradiction.
      destruct Hsim as [m1 [m2 [HK2 [b0 [-> ->]]]]].
      pose proof V as V0. apply validate_iff in V0 as [Hceq _].
      assert (Hsplit : l1 = m1 /\ l2 = m2).
      { subst c. simpl in Htags. apply app_eq_split; [|symmetry; exact Htags].
        rewrite <- (map_length fst l1), <- (map_length fst m1), HK, HK2. reflexivity. }
      destruct Hsplit as [<- <-].
      exists en, (TA ++ tag_entry t :: TB), pvs, (set_tag (l1 ++ tag_entry t :: l2) b0), all. split.
      + unfold stages. rewrite (collect_enums_mid_other _ _ _ _ K1), (check_dup_types_mid_other _ _ _ _ K3),
                               (collect_paths_mid_leaf path_props _ _ _ _ Hl K4 K5), Hadd.
        repeat split; try assumption.
        apply (collect_tags_mid_tag _ _ _ _ Hen). exists (TA ++ TB). rewrite Hpart in Hfresh.
        repeat split; try assumption. symmetry; exact Hfull.
      + cbn [b_cat set_tag] in V |- *.
        apply (validate_frame (fun x => upd_tags x (l1 ++ l2)) (b_cat b0) all c) in V as [c0 [V Hc0]];
          [| intro x; split; reflexivity | intro x; reflexivity].
        apply (validate_frame (fun x => upd_tags x (l1 ++ tag_entry t :: l2)) (b_cat b0) all);
          [intro x; split; reflexivity | intro x; reflexivity|].
        exists c0. split; [exact V|]. subst c. reflexivity.
  Qed.
End TagMid.

(* ---- C10: moving an unused TAG declaration ---- *)
Lemma fold_add_new_prefix l : forall acc, exists r, fold_left add_new l acc = acc ++ r.
Proof.
  induction l as [|x l IH]; intro acc; simpl.
  - exists []. rewrite app_nil_r. reflexivity.
  - unfold add_new at 2. destruct (existsb (beq x) acc).
    + apply IH.
    + destruct (IH (acc ++ [x])) as [r Hr]. exists (x :: r). rewrite Hr, <- app_assoc. reflexivity.
Qed.

Section TagMove.
  Variable path_props : coords -> option (list bytes).
  Variable body_text : coords -> bytes.
  Variable banned : list kind.
  Notation build := (build path_props body_text banned).

  Theorem tag_moved_lemma first a t b1 b2 c :
    tree_kids t = [] -> tag_node t = true -> kind_in KTAG banned = false ->
    let n := named (tree_dir t) (bs "TagName") in
    (forall p, In p (positions_all ((first :: a) ++ b1 ++ b2)) -> tag_step_ok n (fst p) (snd p)) ->
    build ((first :: a) ++ t :: b1 ++ b2) = COk c ->
    exists c', build ((first :: a ++ b1) ++ t :: b2) = COk c' /\
      Permutation (c_tags c) (c_tags c') /\
      c_servers c' = c_servers c /\ c_types c' = c_types c /\ c_enums c' = c_enums c /\ c_inters c' = c_inters c /\
      c_info c' = c_info c /\ c_jsight c' = c_jsight c.
  Proof.
    intros Hl Hen Hb n Hok Hc.
    apply (tag_inserted_lemma path_props body_text banned first a t (b1 ++ b2) c Hl Hen Hb Hok) in Hc
      as [c0 [l1 [l2 [Hc0 [Hn [Hfresh [Htags [HK ->]]]]]]]].
    assert (Hforest : (first :: a) ++ b1 ++ b2 = (first :: a ++ b1) ++ b2) by (simpl; rewrite app_assoc; reflexivity).
    rewrite Hforest in Hc0, Hok, Hfresh.
    destruct (catalog_keys_lemma _ _ _ _ _ Hc0) as [_ [_ [_ [Kt _]]]].
    destruct (fold_add_new_prefix (auto_uses (positions_all ((first :: a ++ b1) ++ b2)))
                (map fst (map tag_entry (filter tag_node ((first :: a ++ b1) ++ b2))))) as [r Hr].
    rewrite Hr, filter_app, !map_app, <- app_assoc in Kt.
    destruct (split_at_keys _ _ _ Kt) as [m1 [m2 [Hm Hmk]]].
    exists (upd_tags c0 (m1 ++ tag_entry t :: m2)). split.
    - apply (tag_inserted_lemma path_props body_text banned first (a ++ b1) t b2 _ Hl Hen Hb Hok).
      exists c0, m1, m2. repeat split; try assumption.
    - cbn [c_tags upd_tags c_servers c_types c_enums c_inters c_info c_jsight]. rewrite Htags in Hm. repeat split; try reflexivity.
      eapply Permutation_trans; [apply Permutation_sym, Permutation_middle|].
      rewrite Hm. apply Permutation_middle.
  Qed.
End TagMove.
