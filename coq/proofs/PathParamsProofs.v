(* Proofs about the model of core/path_parameter.go and core/simular_paths.go (C13). *)
From Coq Require Import List Arith NArith Bool String Lia Permutation.
From JV.lib Require Import Bytes.
From JV.model Require Import PathParams.
From JV.proofs Require Import BytesLemmas.
Import ListNotations.
Open Scope N_scope.

(* ------------------------------------------------------------------------------------ *)
(* Independent specification                                                             *)

(* the non-empty '/'-separated components of the path (no Trim) *)
Definition segments (p : bytes) : list bytes := filter nonempty_b (split_byte 47 p).

(* seg = "{" ++ inner ++ "}" *)
Definition param_form (seg inner : bytes) : Prop := seg = 123 :: inner ++ [125].

(* decision procedure for param_form, written without indexing *)
Definition param_inner (seg : bytes) : option bytes :=
  match seg with
  | c :: r =>
    if c =? 123 then
      match rev r with
      | d :: ri => if d =? 125 then Some (rev ri) else None
      | [] => None
      end
    else None
  | [] => None
  end.

(* (index, inner name) of the segments of the form {inner}, by increasing index *)
Definition positions_from (i : nat) (rest : list bytes) : list (nat * bytes) :=
  flat_map (fun ix => match param_inner (snd ix) with Some inner => [(fst ix, inner)] | None => [] end)
           (combine (seq i (List.length rest)) rest).
Definition param_positions (segs : list bytes) : list (nat * bytes) := positions_from 0 segs.

(* (prefix, name): prefix = the first i+1 segments joined with "/" *)
Definition prefix_of (segs : list bytes) (x : nat * bytes) : bytes * bytes :=
  (join_byte 47 (firstn (S (fst x)) segs), snd x).
Definition path_parameters_spec_of (segs : list bytes) : list (bytes * bytes) :=
  map (prefix_of segs) (param_positions segs).

Definition good_seg (seg : bytes) : Prop := seg <> [] /\ ~ In 47 seg.
Definition good_segs (l : list bytes) : Prop := Forall good_seg l.

(* ------------------------------------------------------------------------------------ *)
(* param_inner                                                                           *)

Lemma param_inner_spec seg inner : param_inner seg = Some inner <-> param_form seg inner.
Proof.
  unfold param_inner, param_form. destruct seg as [|c r].
  - split; [discriminate | intros H; discriminate].
  - destruct (c =? 123) eqn:Ec.
    + apply N.eqb_eq in Ec. subst c.
      destruct (rev r) as [|d ri] eqn:Er.
      * apply (f_equal (@rev N)) in Er. rewrite rev_involutive in Er. simpl in Er. subst r.
        split; [discriminate|]. intros H. injection H as H. destruct inner; discriminate.
      * apply (f_equal (@rev N)) in Er. rewrite rev_involutive in Er. simpl in Er. subst r.
        destruct (d =? 125) eqn:Ed.
        -- apply N.eqb_eq in Ed. subst d. split.
           ++ intros H. injection H as <-. reflexivity.
           ++ intros H. injection H as H. apply app_inj_tail in H as [H _]. rewrite H. reflexivity.
        -- split; [discriminate|]. intros H. injection H as H. apply app_inj_tail in H as [_ H].
           subst d. rewrite N.eqb_refl in Ed. discriminate.
    + split; [discriminate|]. intros H. injection H as H _. subst c. rewrite N.eqb_refl in Ec. discriminate.
Qed.

Lemma param_inner_form inner : param_inner (123 :: inner ++ [125]) = Some inner.
Proof. apply param_inner_spec. reflexivity. Qed.

(* ------------------------------------------------------------------------------------ *)
(* Trim / Split / removeEmptyStrings                                                     *)

Lemma trim_left_spec cut s :
  exists pre, s = pre ++ trim_left cut s /\ Forall (fun c => cut c = true) pre.
Proof.
  induction s as [|c s IH]; simpl.
  - exists []. split; [reflexivity | constructor].
  - destruct (cut c) eqn:Ec.
    + destruct IH as (pre & Hs & Hp). exists (c :: pre). split.
      * simpl. f_equal. exact Hs.
      * constructor; assumption.
    + exists []. split; [reflexivity | constructor].
Qed.

Lemma trim_right_spec cut s :
  exists post, s = trim_right cut s ++ post /\ Forall (fun c => cut c = true) post.
Proof.
  unfold trim_right. destruct (trim_left_spec cut (rev s)) as (pre & Hs & Hp).
  exists (rev pre). split.
  - rewrite <- rev_app_distr, <- Hs, rev_involutive. reflexivity.
  - apply Forall_rev. exact Hp.
Qed.

Definition all_slash (l : bytes) : Prop := Forall (fun c => is_slash c = true) l.

Lemma segs_strip_left pre s :
  all_slash pre -> filter nonempty_b (split_byte 47 (pre ++ s)) = filter nonempty_b (split_byte 47 s).
Proof.
  intros H. induction H as [|c pre Hc _ IH]; [reflexivity|].
  unfold is_slash, pp_slash in Hc. simpl. rewrite Hc. simpl. exact IH.
Qed.

Lemma segs_all_slash pre : all_slash pre -> filter nonempty_b (split_byte 47 pre) = [].
Proof.
  intros H. rewrite <- (app_nil_r pre), segs_strip_left by exact H. reflexivity.
Qed.

Lemma segs_strip_right s post :
  all_slash post -> filter nonempty_b (split_byte 47 (s ++ post)) = filter nonempty_b (split_byte 47 s).
Proof.
  intros H. destruct H as [|c post Hc Hp]; [rewrite app_nil_r; reflexivity|].
  unfold is_slash, pp_slash in Hc. apply N.eqb_eq in Hc. subst c.
  rewrite split_byte_app, filter_app, (segs_all_slash post Hp), app_nil_r. reflexivity.
Qed.

(* strings.Trim is redundant in splitPath *)
Lemma split_path_segments p : split_path p = segments p.
Proof.
  unfold split_path, remove_empty_strings, segments, trim, pp_slash.
  destruct (trim_left_spec is_slash p) as (pre & Hp & Hpre).
  destruct (trim_right_spec is_slash (trim_left is_slash p)) as (post & Ht & Hpost).
  rewrite Hp at 2. rewrite segs_strip_left by exact Hpre.
  rewrite Ht at 2. rewrite segs_strip_right by exact Hpost. reflexivity.
Qed.

Lemma split_byte_no_sep sep s : Forall (fun c => ~ In sep c) (split_byte sep s).
Proof.
  induction s as [|x s IH]; simpl.
  - constructor; [intros [] | constructor].
  - destruct (x =? sep) eqn:E.
    + constructor; [intros [] | exact IH].
    + destruct (split_byte sep s) as [|q qs]; [constructor; [|constructor]|].
      * intros [H|[]]. subst x. rewrite N.eqb_refl in E. discriminate.
      * inversion IH as [|? ? Hq Hqs]; subst. constructor; [|exact Hqs].
        intros [H|H]; [subst x; rewrite N.eqb_refl in E; discriminate | exact (Hq H)].
Qed.

Lemma nonempty_b_true s : nonempty_b s = true <-> s <> [].
Proof. destruct s; simpl; split; congruence. Qed.

Lemma segments_good p : good_segs (segments p).
Proof.
  unfold good_segs, segments. apply Forall_forall. intros seg Hin.
  apply filter_In in Hin as [Hin Hne]. split.
  - apply nonempty_b_true. exact Hne.
  - pose proof (split_byte_no_sep 47 p) as H. rewrite Forall_forall in H. exact (H _ Hin).
Qed.

Lemma segments_good_in p seg : In seg (segments p) -> seg <> [] /\ ~ In 47 seg.
Proof. intros H. pose proof (segments_good p) as G. unfold good_segs in G. rewrite Forall_forall in G. exact (G seg H). Qed.

Lemma split_byte_nosep sep s : ~ In sep s -> split_byte sep s = [s].
Proof.
  induction s as [|x s IH]; simpl; intros H; [reflexivity|].
  destruct (x =? sep) eqn:E.
  - apply N.eqb_eq in E. exfalso. apply H. left. exact E.
  - rewrite IH; [reflexivity|]. intros Hin. apply H. right. exact Hin.
Qed.

Lemma split_join l :
  l <> [] -> Forall (fun c => ~ In 47 c) l -> split_byte 47 (join_byte 47 l) = l.
Proof.
  induction l as [|p l IH]; [congruence|]. intros _ H.
  inversion H as [|? ? Hp Hl]; subst.
  destruct l as [|q r].
  - simpl. apply split_byte_nosep. exact Hp.
  - change (join_byte 47 (p :: q :: r)) with (p ++ 47 :: join_byte 47 (q :: r)).
    rewrite split_byte_app, (split_byte_nosep _ _ Hp), IH; [reflexivity | discriminate | exact Hl].
Qed.

Lemma good_segs_nosep l : good_segs l -> Forall (fun c => ~ In 47 c) l.
Proof. intros H. eapply Forall_impl; [|exact H]. intros a [_ Ha]. exact Ha. Qed.

Lemma join_nil_inv l : good_segs l -> join_byte 47 l = [] -> l = [].
Proof.
  intros H E. destruct l as [|p l]; [reflexivity|]. exfalso.
  inversion H as [|? ? [Hp _] _]; subst.
  destruct p as [|c p]; [congruence|]. destruct l; simpl in E; discriminate.
Qed.

Lemma join_inj l1 l2 : good_segs l1 -> good_segs l2 -> join_byte 47 l1 = join_byte 47 l2 -> l1 = l2.
Proof.
  intros H1 H2 E. destruct l1 as [|p1 r1].
  - symmetry. apply join_nil_inv; [exact H2 | rewrite <- E; reflexivity].
  - destruct l2 as [|p2 r2].
    + apply join_nil_inv; [exact H1 | rewrite E; reflexivity].
    + rewrite <- (split_join (p1 :: r1)), <- (split_join (p2 :: r2)), E;
        [reflexivity | discriminate | apply good_segs_nosep; exact H2 | discriminate | apply good_segs_nosep; exact H1].
Qed.

Lemma filter_good l : good_segs l -> filter nonempty_b l = l.
Proof.
  intros H. induction H as [|a l [Ha _] _ IH]; [reflexivity|].
  simpl. destruct a; [congruence|]. simpl. f_equal. exact IH.
Qed.

Lemma segments_join l : good_segs l -> segments (join_byte 47 l) = l.
Proof.
  intros H. unfold segments. destruct l as [|p r]; [reflexivity|].
  rewrite split_join; [apply filter_good; exact H | discriminate | apply good_segs_nosep; exact H].
Qed.

Lemma split_path_join l : good_segs l -> split_path (join_byte 47 l) = l.
Proof. intros H. rewrite split_path_segments. apply segments_join. exact H. Qed.

Lemma In_firstn {A} (x : A) n l : In x (firstn n l) -> In x l.
Proof. intros H. rewrite <- (firstn_skipn n l). apply in_or_app. left. exact H. Qed.

Lemma good_firstn n l : good_segs l -> good_segs (firstn n l).
Proof.
  intros H. apply Forall_forall. intros x Hin. unfold good_segs in H. rewrite Forall_forall in H.
  apply H. eapply In_firstn. exact Hin.
Qed.

(* ------------------------------------------------------------------------------------ *)
(* pathParameters                                                                        *)

Lemma nth_error_last {A} (c : A) l d : nth_error (c :: l ++ [d]) (List.length (l ++ [d])) = Some d.
Proof.
  rewrite app_length. simpl. replace (List.length l + 1)%nat with (S (List.length l)) by lia.
  simpl. rewrite nth_error_app2 by lia. rewrite Nat.sub_diag. reflexivity.
Qed.

Lemma firstn_app_exact {A} (l : list A) r : firstn (List.length l) (l ++ r) = l.
Proof. rewrite firstn_app, Nat.sub_diag, firstn_all. simpl. apply app_nil_r. Qed.

(* one loop iteration: no index or slice expression panics on a non-empty segment *)
Lemma pp_segment_eq s i seg :
  seg <> [] -> (i < List.length s)%nat ->
  pp_segment s i seg =
  GOk (match param_inner seg with
       | Some inner => Some (join_byte 47 (firstn (S i) s), inner)
       | None => None
       end).
Proof.
  intros Hne Hi. destruct seg as [|c r]; [congruence|]. clear Hne.
  unfold pp_segment, gidx, param_inner, pp_lbrace, pp_rbrace, pp_slash.
  cbn [nth_error gbind].
  destruct (c =? 123) eqn:Ec; [|reflexivity].
  destruct (rev r) as [|d ri] eqn:Er.
  - apply (f_equal (@rev N)) in Er. rewrite rev_involutive in Er. simpl in Er. subst r.
    cbn [List.length Nat.sub nth_error gbind]. apply N.eqb_eq in Ec. subst c. reflexivity.
  - apply (f_equal (@rev N)) in Er. rewrite rev_involutive in Er. simpl in Er. subst r.
    replace (List.length (c :: rev ri ++ [d]) - 1)%nat with (List.length (rev ri ++ [d]))
      by (simpl; lia).
    rewrite nth_error_last. cbn [gbind].
    destruct (d =? 125) eqn:Ed; [|reflexivity].
    unfold gslice.
    replace (Nat.leb 0 (S i) && Nat.leb (S i) (List.length s))%bool with true
      by (symmetry; apply andb_true_iff; split; apply Nat.leb_le; lia).
    cbn [gbind].
    assert (Hl : List.length (rev ri ++ [d]) = S (List.length (rev ri)))
      by (rewrite app_length; simpl; lia).
    cbn [List.length]. rewrite Hl.
    replace (Nat.leb 1 (S (List.length (rev ri))) &&
             Nat.leb (S (List.length (rev ri))) (S (S (List.length (rev ri)))))%bool with true
      by (symmetry; apply andb_true_iff; split; apply Nat.leb_le; lia).
    cbn [gbind skipn]. rewrite Nat.sub_0_r.
    replace (S (List.length (rev ri)) - 1)%nat with (List.length (rev ri)) by lia.
    rewrite firstn_app_exact. reflexivity.
Qed.

Lemma pp_loop_eq s i rest :
  Forall (fun seg => seg <> []) rest -> (i + List.length rest <= List.length s)%nat ->
  pp_loop s i rest = GOk (map (prefix_of s) (positions_from i rest)).
Proof.
  revert i. induction rest as [|seg rest IH]; intros i Hne Hlen; [reflexivity|].
  inversion Hne as [|? ? Hseg Hrest]; subst. simpl in Hlen.
  cbn [pp_loop]. rewrite pp_segment_eq by (try assumption; lia).
  rewrite IH by (try assumption; lia). cbn [gbind].
  unfold positions_from. cbn [List.length seq combine flat_map fst snd].
  rewrite map_app. destruct (param_inner seg); reflexivity.
Qed.

Lemma good_segs_nonempty l : good_segs l -> Forall (fun seg => seg <> []) l.
Proof. intros H. eapply Forall_impl; [|exact H]. intros a [Ha _]. exact Ha. Qed.

Lemma path_parameters_spec_lemma p :
  path_parameters p = GOk (path_parameters_spec_of (segments p)).
Proof.
  unfold path_parameters. rewrite split_path_segments.
  apply pp_loop_eq; [apply good_segs_nonempty, segments_good | apply le_n].
Qed.

Lemma path_parameters_total_lemma p : exists l, path_parameters p = GOk l.
Proof. eexists. apply path_parameters_spec_lemma. Qed.

(* membership in param_positions *)
Lemma positions_from_in i rest j n :
  In (j, n) (positions_from i rest) <->
  exists k, j = (i + k)%nat /\ nth_error rest k = Some (123 :: n ++ [125]).
Proof.
  revert i. induction rest as [|seg rest IH]; intros i.
  - simpl. split; [intros [] | intros (k & _ & H); destruct k; discriminate].
  - unfold positions_from. cbn [List.length seq combine flat_map fst snd].
    rewrite in_app_iff. fold (positions_from (S i) rest). rewrite IH. split.
    + intros [H|(k & -> & Hk)].
      * destruct (param_inner seg) as [inner|] eqn:Ep; [|destruct H].
        destruct H as [H|[]]. injection H as <- <-. apply param_inner_spec in Ep.
        exists 0%nat. split; [lia | simpl; rewrite Ep; reflexivity].
      * exists (S k). split; [lia | exact Hk].
    + intros (k & -> & Hk). destruct k as [|k].
      * left. simpl in Hk. injection Hk as ->. rewrite param_inner_form.
        left. f_equal. lia.
      * right. exists k. split; [lia | exact Hk].
Qed.

Lemma param_positions_in segs j n :
  In (j, n) (param_positions segs) <-> nth_error segs j = Some (123 :: n ++ [125]).
Proof.
  unfold param_positions. rewrite positions_from_in. split.
  - intros (k & -> & H). exact H.
  - intros H. exists j. split; [reflexivity | exact H].
Qed.

(* the indices are strictly increasing, hence pairwise different *)
Lemma positions_from_lb i rest x : In x (positions_from i rest) -> (i <= fst x)%nat.
Proof. destruct x as [j n]. intros H. apply positions_from_in in H as (k & -> & _). simpl. lia. Qed.

Lemma positions_from_nodup i rest : NoDup (map fst (positions_from i rest)).
Proof.
  revert i. induction rest as [|seg rest IH]; intros i; [constructor|].
  unfold positions_from. cbn [List.length seq combine flat_map fst snd].
  fold (positions_from (S i) rest). rewrite map_app.
  destruct (param_inner seg) as [inner|]; [|apply IH].
  simpl. constructor; [|apply IH].
  intros Hin. apply in_map_iff in Hin as (x & Hx & Hin).
  apply positions_from_lb in Hin. lia.
Qed.

Lemma param_positions_nodup segs : NoDup (map fst (param_positions segs)).
Proof. apply positions_from_nodup. Qed.

Lemma param_positions_lt segs x : In x (param_positions segs) -> (fst x < List.length segs)%nat.
Proof.
  destruct x as [j n]. intros H. apply param_positions_in in H. simpl.
  apply nth_error_Some. congruence.
Qed.

Lemma NoDup_map_inj_in {A B} (f : A -> B) l :
  (forall x y, In x l -> In y l -> f x = f y -> x = y) -> NoDup l -> NoDup (map f l).
Proof.
  intros Hinj H. induction H as [|a l Ha Hl IH]; [constructor|].
  simpl. constructor.
  - intros Hin. apply in_map_iff in Hin as (y & Hy & Hin).
    assert (y = a) by (apply Hinj; [right; exact Hin | left; reflexivity | exact Hy]).
    subst y. exact (Ha Hin).
  - apply IH. intros x y Hx Hy. apply Hinj; right; assumption.
Qed.

Lemma NoDup_map_fst {A B} (l : list (A * B)) : NoDup (map fst l) -> NoDup l.
Proof. apply NoDup_map_inv. Qed.

(* joining prefixes of different lengths gives different strings *)
Lemma prefix_join_inj segs i j :
  good_segs segs -> (i <= List.length segs)%nat -> (j <= List.length segs)%nat ->
  join_byte 47 (firstn i segs) = join_byte 47 (firstn j segs) -> i = j.
Proof.
  intros Hg Hi Hj E. apply join_inj in E; try (apply good_firstn; exact Hg).
  apply (f_equal (@List.length bytes)) in E. rewrite !firstn_length in E. lia.
Qed.

Lemma prefixes_distinct_segs segs :
  good_segs segs -> NoDup (map fst (path_parameters_spec_of segs)).
Proof.
  intros Hg. unfold path_parameters_spec_of. rewrite map_map.
  apply NoDup_map_inj_in.
  - intros x y Hx Hy E. cbn [prefix_of fst] in E.
    apply param_positions_lt in Hx as Hxl. apply param_positions_lt in Hy as Hyl.
    apply prefix_join_inj in E; [|exact Hg|lia|lia].
    pose proof (positions_from_nodup 0 segs) as Hnd. fold (param_positions segs) in Hnd.
    assert (Hfst : fst x = fst y) by lia.
    clear -Hnd Hx Hy Hfst. revert Hnd Hx Hy.
    induction (param_positions segs) as [|a l IH]; simpl; [intros _ []|].
    intros Hnd [->|Hx] [->|Hy]; inversion Hnd as [|? ? Ha Hl]; subst.
    + reflexivity.
    + exfalso. apply Ha. rewrite Hfst. apply in_map. exact Hy.
    + exfalso. apply Ha. rewrite <- Hfst. apply in_map. exact Hx.
    + apply IH; assumption.
  - apply NoDup_map_fst. apply positions_from_nodup.
Qed.

Lemma prefixes_distinct_lemma p l : path_parameters p = GOk l -> NoDup (map fst l).
Proof.
  rewrite path_parameters_spec_lemma. intros H. injection H as <-.
  apply prefixes_distinct_segs, segments_good.
Qed.

(* membership form of the specification: which (prefix, name) pairs are produced *)
Lemma path_parameters_in_lemma p l pre n :
  path_parameters p = GOk l ->
  (In (pre, n) l <->
   exists i, nth_error (segments p) i = Some (123 :: n ++ [125]) /\
             pre = join_byte 47 (firstn (S i) (segments p))).
Proof.
  rewrite path_parameters_spec_lemma. intros H. injection H as <-.
  unfold path_parameters_spec_of. rewrite in_map_iff. split.
  - intros ([i m] & Hx & Hin). unfold prefix_of in Hx. cbn [fst snd] in Hx. injection Hx as <- <-.
    exists i. split; [apply param_positions_in; exact Hin | reflexivity].
  - intros (i & Hi & ->). exists (i, n). split; [reflexivity | apply param_positions_in; exact Hi].
Qed.

(* every prefix determines its position: the prefix string re-splits into the first i+1 segments *)
Lemma prefix_resplit_lemma p i :
  (i < List.length (segments p))%nat ->
  split_path (join_byte 47 (firstn (S i) (segments p))) = firstn (S i) (segments p).
Proof. intros _. apply split_path_join, good_firstn, segments_good. Qed.

(* ------------------------------------------------------------------------------------ *)
(* PathParameters: empty and duplicated names                                            *)

Definition names (l : list (bytes * bytes)) : list bytes := map snd l.

(* n is the first name that repeats an earlier one *)
Definition first_repeat (ns : list bytes) (n : bytes) : Prop :=
  exists l1 l2, ns = l1 ++ n :: l2 /\ NoDup l1 /\ In n l1.

Lemma has_empty_spec l : has_empty l = true <-> In [] (names l).
Proof.
  unfold has_empty, names. rewrite existsb_exists, in_map_iff. split.
  - intros (x & Hin & Hx). exists x. split; [|exact Hin]. destruct (snd x); [reflexivity | discriminate].
  - intros (x & Hx & Hin). exists x. split; [exact Hin | rewrite Hx; reflexivity].
Qed.

Lemma mem_bytes_spec x l : mem_bytes x l = true <-> In x l.
Proof.
  unfold mem_bytes. rewrite existsb_exists. split.
  - intros (y & Hin & Hy). apply beq_eq in Hy. subst. exact Hin.
  - intros H. exists x. split; [exact H | apply beq_refl].
Qed.

(* the loop, for an arbitrary set uniq of names already seen *)
Lemma dup_loop_nil uniq l :
  ~ In [] (names l) ->
  (dup_loop uniq l = [] <-> NoDup (names l) /\ forall n, In n (names l) -> ~ In n uniq).
Proof.
  revert uniq. induction l as [|x l IH]; intros uniq Hne.
  - simpl. split; [intros _; split; [constructor | intros n []] | reflexivity].
  - cbn [dup_loop names map] in *. fold (names l) in *.
    destruct (mem_bytes (snd x) uniq) eqn:Em.
    + apply mem_bytes_spec in Em. split.
      * intros H. exfalso. apply Hne. left. exact H.
      * intros [_ H]. exfalso. apply (H (snd x)); [left; reflexivity | exact Em].
    + assert (Hnm : ~ In (snd x) uniq) by (rewrite <- mem_bytes_spec; congruence).
      rewrite IH by (intros H; apply Hne; right; exact H). split.
      * intros [Hnd Hdis]. split.
        -- constructor; [|exact Hnd]. intros Hin. apply (Hdis _ Hin). left. reflexivity.
        -- intros n [<-|Hin]; [exact Hnm|]. intros Hu. apply (Hdis _ Hin). right. exact Hu.
      * intros [Hnd Hdis]. inversion Hnd as [|? ? Hx Hl]; subst. split; [exact Hl|].
        intros n Hin [<-|Hu]; [exact (Hx Hin)|]. apply (Hdis n); [right; exact Hin | exact Hu].
Qed.

Lemma dup_loop_found uniq l n :
  n <> [] -> dup_loop uniq l = n ->
  exists l1 l2, names l = l1 ++ n :: l2 /\ NoDup l1 /\ (forall m, In m l1 -> ~ In m uniq) /\
                In n (uniq ++ l1).
Proof.
  revert uniq. induction l as [|x l IH]; intros uniq Hn; simpl; [congruence|].
  destruct (mem_bytes (snd x) uniq) eqn:Em.
  - intros <-. apply mem_bytes_spec in Em. exists [], (names l). split; [reflexivity|].
    split; [constructor|]. split; [intros m []|]. rewrite app_nil_r. exact Em.
  - assert (Hnm : ~ In (snd x) uniq) by (rewrite <- mem_bytes_spec; congruence).
    intros H. destruct (IH _ Hn H) as (l1 & l2 & Hl & Hnd & Hdis & Hin).
    exists (snd x :: l1), l2. fold (names l). rewrite Hl. split; [reflexivity|]. split.
    + constructor; [|exact Hnd]. intros Hx. apply (Hdis _ Hx). left. reflexivity.
    + split.
      * intros m [<-|Hm]; [exact Hnm|]. intros Hu. apply (Hdis _ Hm). right. exact Hu.
      * apply in_app_iff in Hin as [[<-|Hu]|Hl1].
        -- apply in_or_app. right. left. reflexivity.
        -- apply in_or_app. left. exact Hu.
        -- apply in_or_app. right. right. exact Hl1.
Qed.

Lemma NoDup_short {A} (l : list A) : (List.length l <= 1)%nat -> NoDup l.
Proof.
  destruct l as [|a [|b l]]; simpl; intros H; [constructor | constructor; [intros []|constructor] | lia].
Qed.

Lemma duplicated_nil l : ~ In [] (names l) -> (duplicated l = [] <-> NoDup (names l)).
Proof.
  intros Hne. unfold duplicated. destruct (Nat.leb (List.length l) 1) eqn:E.
  - apply Nat.leb_le in E. split; [|reflexivity]. intros _. apply NoDup_short.
    unfold names. rewrite map_length. exact E.
  - rewrite dup_loop_nil by exact Hne. split; [intros [H _]; exact H | intros H; split; [exact H | intros n _ []]].
Qed.

Lemma first_repeat_not_nodup ns n : first_repeat ns n -> ~ NoDup ns.
Proof.
  intros (l1 & l2 & -> & _ & Hin) Hnd. apply NoDup_remove_2 in Hnd. apply Hnd.
  apply in_or_app. left. exact Hin.
Qed.

Lemma NoDup_app_l {A} (l r : list A) : NoDup (l ++ r) -> NoDup l.
Proof.
  induction l as [|a l IH]; simpl; intros H; [constructor|].
  inversion H as [|? ? Ha Hl]; subst. constructor; [|apply IH; exact Hl].
  intros Hin. apply Ha. apply in_or_app. left. exact Hin.
Qed.

Lemma app_eq_len {A} (a b x y : list A) :
  List.length a = List.length b -> a ++ x = b ++ y -> a = b /\ x = y.
Proof.
  revert b. induction a as [|c a IH]; intros [|d b]; simpl; intros Hl H; try discriminate.
  - auto.
  - injection H as -> H. injection Hl as Hl. destruct (IH _ Hl H) as [-> ->]. auto.
Qed.

Lemma first_repeat_unique ns n m : first_repeat ns n -> first_repeat ns m -> n = m.
Proof.
  intros (a1 & a2 & Ha & Hnda & Hina) (b1 & b2 & Hb & Hndb & Hinb).
  (* compare the lengths of a1 and b1 *)
  assert (Hcases : (List.length a1 < List.length b1 \/ List.length a1 = List.length b1 \/
                    List.length b1 < List.length a1)%nat) by lia.
  subst ns. destruct Hcases as [Hlt|[Heq|Hlt]].
  - exfalso. (* a1 ++ [n] is a prefix of b1, which is NoDup, but n is in a1 *)
    assert (Hpre : firstn (S (List.length a1)) (a1 ++ n :: a2) = a1 ++ [n]).
    { replace (a1 ++ n :: a2) with ((a1 ++ [n]) ++ a2) by (rewrite <- app_assoc; reflexivity).
      replace (S (List.length a1)) with (List.length (a1 ++ [n])) by (rewrite app_length; simpl; lia).
      apply firstn_app_exact. }
    rewrite Hb in Hpre.
    rewrite firstn_app in Hpre. replace (S (List.length a1) - List.length b1)%nat with 0%nat in Hpre by lia.
    rewrite firstn_O, app_nil_r in Hpre.
    assert (Hnd : NoDup (firstn (S (List.length a1)) b1)).
    { rewrite <- (firstn_skipn (S (List.length a1)) b1) in Hndb. apply NoDup_app_l in Hndb. exact Hndb. }
    rewrite Hpre in Hnd. apply NoDup_remove_2 in Hnd. rewrite app_nil_r in Hnd. exact (Hnd Hina).
  - apply app_eq_len in Hb as [_ Hb]; [congruence | exact Heq].
  - exfalso.
    assert (Hpre : firstn (S (List.length b1)) (b1 ++ m :: b2) = b1 ++ [m]).
    { replace (b1 ++ m :: b2) with ((b1 ++ [m]) ++ b2) by (rewrite <- app_assoc; reflexivity).
      replace (S (List.length b1)) with (List.length (b1 ++ [m])) by (rewrite app_length; simpl; lia).
      apply firstn_app_exact. }
    rewrite <- Hb in Hpre.
    rewrite firstn_app in Hpre. replace (S (List.length b1) - List.length a1)%nat with 0%nat in Hpre by lia.
    rewrite firstn_O, app_nil_r in Hpre.
    assert (Hnd : NoDup (firstn (S (List.length b1)) a1)).
    { rewrite <- (firstn_skipn (S (List.length b1)) a1) in Hnda. apply NoDup_app_l in Hnda. exact Hnda. }
    rewrite Hpre in Hnd. apply NoDup_remove_2 in Hnd. rewrite app_nil_r in Hnd. exact (Hnd Hinb).
Qed.

Lemma duplicated_found l n : n <> [] -> duplicated l = n -> first_repeat (names l) n.
Proof.
  intros Hn. unfold duplicated. destruct (Nat.leb (List.length l) 1); [congruence|].
  intros H. destruct (dup_loop_found [] l n Hn H) as (l1 & l2 & Hl & Hnd & _ & Hin).
  exists l1, l2. split; [exact Hl|]. split; [exact Hnd | exact Hin].
Qed.

(* the parameters of p, as given by the specification *)
Definition params_of (p : bytes) : list (bytes * bytes) := path_parameters_spec_of (segments p).

Lemma checked_unfold p :
  path_parameters_checked p =
  if has_empty (params_of p) then GOk PEmptyParam
  else match duplicated (params_of p) with [] => GOk (POk (params_of p)) | s => GOk (PDup s) end.
Proof. unfold path_parameters_checked. rewrite path_parameters_spec_lemma. reflexivity. Qed.

Lemma checked_total_lemma p : exists r, path_parameters_checked p = GOk r.
Proof.
  rewrite checked_unfold. destruct (has_empty (params_of p)); [eexists; reflexivity|].
  destruct (duplicated (params_of p)); eexists; reflexivity.
Qed.

Lemma checked_ok_lemma p l :
  path_parameters_checked p = GOk (POk l) <->
  l = params_of p /\ ~ In [] (names l) /\ NoDup (names l).
Proof.
  rewrite checked_unfold. destruct (has_empty (params_of p)) eqn:Eh.
  - apply has_empty_spec in Eh. split; [discriminate|]. intros (-> & Hne & _). contradiction.
  - assert (Hne : ~ In [] (names (params_of p))) by (rewrite <- has_empty_spec; congruence).
    destruct (duplicated (params_of p)) as [|c s] eqn:Ed.
    + apply duplicated_nil in Ed; [|exact Hne]. split.
      * intros H. injection H as <-. auto.
      * intros (-> & _). reflexivity.
    + split; [discriminate|]. intros (-> & _ & Hnd). apply duplicated_nil in Hnd; [|exact Hne]. congruence.
Qed.

Lemma checked_rejects_empty_lemma p :
  path_parameters_checked p = GOk PEmptyParam <-> In [] (names (params_of p)).
Proof.
  rewrite checked_unfold. destruct (has_empty (params_of p)) eqn:Eh.
  - apply has_empty_spec in Eh. split; auto.
  - assert (Hne : ~ In [] (names (params_of p))) by (rewrite <- has_empty_spec; congruence).
    split; [|contradiction]. destruct (duplicated (params_of p)); discriminate.
Qed.

Lemma checked_rejects_dup_lemma p n :
  path_parameters_checked p = GOk (PDup n) <->
  ~ In [] (names (params_of p)) /\ first_repeat (names (params_of p)) n.
Proof.
  rewrite checked_unfold. destruct (has_empty (params_of p)) eqn:Eh.
  - apply has_empty_spec in Eh. split; [discriminate | intros [H _]; contradiction].
  - assert (Hne : ~ In [] (names (params_of p))) by (rewrite <- has_empty_spec; congruence).
    destruct (duplicated (params_of p)) as [|c s] eqn:Ed.
    + apply duplicated_nil in Ed; [|exact Hne]. split; [discriminate|].
      intros [_ H]. exfalso. exact (first_repeat_not_nodup _ _ H Ed).
    + apply duplicated_found in Ed as Hfr; [|discriminate]. split.
      * intros H. injection H as <-. auto.
      * intros [_ H]. rewrite (first_repeat_unique _ _ _ Hfr H). reflexivity.
Qed.

(* the three outcomes, by the names alone *)
Lemma checked_trichotomy_lemma p :
  (In [] (names (params_of p)) /\ path_parameters_checked p = GOk PEmptyParam) \/
  (~ In [] (names (params_of p)) /\ ~ NoDup (names (params_of p)) /\
     exists n, path_parameters_checked p = GOk (PDup n)) \/
  (~ In [] (names (params_of p)) /\ NoDup (names (params_of p)) /\
     path_parameters_checked p = GOk (POk (params_of p))).
Proof.
  destruct (checked_total_lemma p) as ([l| |n] & H).
  - right. right. apply checked_ok_lemma in H as H'. destruct H' as (-> & Hne & Hnd). auto.
  - left. apply checked_rejects_empty_lemma in H as H'. auto.
  - right. left. apply checked_rejects_dup_lemma in H as H'. destruct H' as (Hne & Hfr).
    split; [exact Hne|]. split; [exact (first_repeat_not_nodup _ _ Hfr) | exists n; exact H].
Qed.

(* ------------------------------------------------------------------------------------ *)
(* checkSimilarPaths                                                                     *)

Definition key_of (x : bytes * bytes) : bytes * bytes := (remove_last_segment (fst x), snd x).
(* the (map key, parameter name) bindings that checkSimilarPaths derives from pp *)
Definition entries (pp : list (bytes * bytes)) : list (bytes * bytes) := map key_of pp.

(* every binding of pp is absent from the map or bound to the same name *)
Definition sp_compat (st : sp_state) (pp : list (bytes * bytes)) : Prop :=
  forall k n, In (k, n) (entries pp) -> sp_lookup k st = None \/ sp_lookup k st = Some n.

Lemma beq_false_ne' a b : beq a b = false -> a <> b.
Proof. intros H E. subst. rewrite beq_refl in H. discriminate. Qed.

Lemma beq_ne_false a b : a <> b -> beq a b = false.
Proof. intros H. destruct (beq a b) eqn:E; [apply beq_eq in E; contradiction | reflexivity]. Qed.

Lemma sp_lookup_cons_ne k k' v st : k <> k' -> sp_lookup k ((k', v) :: st) = sp_lookup k st.
Proof. intros H. simpl. rewrite (beq_ne_false _ _ H). reflexivity. Qed.

Lemma sp_compat_tail st ppath param r :
  ~ In (remove_last_segment ppath) (map fst (entries r)) ->
  (sp_compat ((remove_last_segment ppath, param) :: st) r <-> sp_compat st r).
Proof.
  intros Hk. unfold sp_compat. split; intros H k n Hin.
  - rewrite <- (sp_lookup_cons_ne k (remove_last_segment ppath) param st); [exact (H k n Hin)|].
    intros ->. apply Hk. apply in_map_iff. exists (remove_last_segment ppath, n). auto.
  - rewrite sp_lookup_cons_ne; [exact (H k n Hin)|].
    intros ->. apply Hk. apply in_map_iff. exists (remove_last_segment ppath, n). auto.
Qed.

Lemma entries_cons_rev ppath param r st :
  rev (entries r) ++ (remove_last_segment ppath, param) :: st = rev (entries ((ppath, param) :: r)) ++ st.
Proof. simpl. rewrite <- app_assoc. reflexivity. Qed.

Lemma check_similar_ok st pp :
  NoDup (map fst (entries pp)) -> sp_compat st pp ->
  check_similar_paths st pp = SPOk (rev (entries pp) ++ st).
Proof.
  revert st. induction pp as [|[ppath param] r IH]; intros st Hnd Hc; [reflexivity|].
  simpl in Hnd. inversion Hnd as [|? ? Hk Hr]; subst.
  assert (Hhead : sp_lookup (remove_last_segment ppath) st = None \/
                  sp_lookup (remove_last_segment ppath) st = Some param)
    by (apply Hc; left; reflexivity).
  assert (Htail : sp_compat ((remove_last_segment ppath, param) :: st) r).
  { apply sp_compat_tail; [exact Hk|]. intros k n Hin. apply Hc. right. exact Hin. }
  cbn [check_similar_paths]. rewrite <- entries_cons_rev.
  destruct Hhead as [-> | ->]; [|rewrite beq_refl]; apply IH; assumption.
Qed.

Lemma check_similar_ok_inv st pp st' :
  NoDup (map fst (entries pp)) -> check_similar_paths st pp = SPOk st' ->
  st' = rev (entries pp) ++ st /\ sp_compat st pp.
Proof.
  revert st. induction pp as [|[ppath param] r IH]; intros st Hnd H.
  - simpl in H. injection H as <-. split; [reflexivity | intros k n []].
  - simpl in Hnd. inversion Hnd as [|? ? Hk Hr]; subst.
    cbn [check_similar_paths] in H. rewrite <- entries_cons_rev.
    assert (Hgo : check_similar_paths ((remove_last_segment ppath, param) :: st) r = SPOk st' ->
                  (sp_lookup (remove_last_segment ppath) st = None \/
                   sp_lookup (remove_last_segment ppath) st = Some param) ->
                  st' = rev (entries r) ++ (remove_last_segment ppath, param) :: st /\
                  sp_compat st ((ppath, param) :: r)).
    { intros H' Hhead. destruct (IH _ Hr H') as [-> Hc]. split; [reflexivity|].
      apply sp_compat_tail in Hc; [|exact Hk].
      intros k n [E|Hin]; [injection E as <- <-; exact Hhead | exact (Hc k n Hin)]. }
    destruct (sp_lookup (remove_last_segment ppath) st) as [v|] eqn:El.
    + destruct (beq v param) eqn:Eb; [|discriminate].
      apply beq_eq in Eb. subst v. apply Hgo; [exact H | right; reflexivity].
    + apply Hgo; [exact H | left; reflexivity].
Qed.

Lemma check_similar_reject_inv st pp st' key old ppath :
  NoDup (map fst (entries pp)) -> check_similar_paths st pp = SPReject st' key old ppath ->
  exists n, In (ppath, n) pp /\ key = remove_last_segment ppath /\
            sp_lookup key st = Some old /\ old <> n.
Proof.
  revert st. induction pp as [|[pth param] r IH]; intros st Hnd H; [discriminate|].
  simpl in Hnd. inversion Hnd as [|? ? Hk Hr]; subst.
  cbn [check_similar_paths] in H.
  assert (Hgo : check_similar_paths ((remove_last_segment pth, param) :: st) r = SPReject st' key old ppath ->
                exists n, In (ppath, n) ((pth, param) :: r) /\ key = remove_last_segment ppath /\
                          sp_lookup key st = Some old /\ old <> n).
  { intros H'. destruct (IH _ Hr H') as (n & Hin & -> & Hl & Hne).
    exists n. split; [right; exact Hin|]. split; [reflexivity|]. split; [|exact Hne].
    rewrite sp_lookup_cons_ne in Hl; [exact Hl|].
    intros E. apply Hk. rewrite <- E. apply in_map_iff. exists (remove_last_segment ppath, n).
    split; [reflexivity|]. apply in_map_iff. exists (ppath, n). auto. }
  destruct (sp_lookup (remove_last_segment pth) st) as [v|] eqn:El.
  - destruct (beq v param) eqn:Eb; [exact (Hgo H)|].
    injection H as <- <- <- <-. exists param. split; [left; reflexivity|].
    split; [reflexivity|]. split; [exact El | apply beq_false_ne'; exact Eb].
  - exact (Hgo H).
Qed.

(* lookups in an association list with pairwise different keys *)
Lemma sp_lookup_in l k v : NoDup (map fst l) -> (sp_lookup k l = Some v <-> In (k, v) l).
Proof.
  induction l as [|[k' v'] l IH]; intros Hnd; simpl.
  - split; [discriminate | intros []].
  - simpl in Hnd. inversion Hnd as [|? ? Hk Hl]; subst. destruct (beq k k') eqn:E.
    + apply beq_eq in E. subst k'. split.
      * intros H. injection H as ->. left. reflexivity.
      * intros [H|H]; [injection H as ->; reflexivity|].
        exfalso. apply Hk. apply in_map_iff. exists (k, v). auto.
    + rewrite (IH Hl). split; [intros H; right; exact H|].
      intros [H|H]; [|exact H]. injection H as -> ->. rewrite beq_refl in E. discriminate.
Qed.

Lemma sp_lookup_none l k : sp_lookup k l = None <-> ~ In k (map fst l).
Proof.
  induction l as [|[k' v'] l IH]; simpl; [split; [intros _ [] | reflexivity]|].
  destruct (beq k k') eqn:E.
  - apply beq_eq in E. subst. split; [discriminate | intros H; exfalso; apply H; left; reflexivity].
  - rewrite IH. split; [intros H [->|Hin]; [rewrite beq_refl in E; discriminate | exact (H Hin)] | intros H Hin; apply H; right; exact Hin].
Qed.

Lemma sp_lookup_app a b k :
  sp_lookup k (a ++ b) = match sp_lookup k a with Some v => Some v | None => sp_lookup k b end.
Proof.
  induction a as [|[k' v'] a IH]; simpl; [reflexivity|]. destruct (beq k k'); [reflexivity | exact IH].
Qed.

(* --- the bindings of one path, in terms of its segments ------------------------------ *)

Definition key_entry (segs : list bytes) (x : nat * bytes) : bytes * bytes :=
  (join_byte 47 (firstn (fst x) segs), snd x).
(* parameter at index i  |->  ("/"-join of the i segments before it, its name) *)
Definition key_entries (segs : list bytes) : list (bytes * bytes) :=
  map (key_entry segs) (param_positions segs).

Lemma remove_last_prefix segs i :
  good_segs segs -> (i < List.length segs)%nat ->
  remove_last_segment (join_byte 47 (firstn (S i) segs)) = join_byte 47 (firstn i segs).
Proof.
  intros Hg Hi. unfold remove_last_segment, pp_slash.
  rewrite split_path_join by (apply good_firstn; exact Hg).
  assert (Hlen : List.length (firstn (S i) segs) = S i) by (rewrite firstn_length; lia).
  destruct (firstn (S i) segs) as [|a l] eqn:E; [discriminate|].
  rewrite <- E. rewrite firstn_length.
  replace (Nat.min (S i) (List.length segs) - 1)%nat with i by lia.
  rewrite firstn_firstn. replace (Nat.min i (S i)) with i by lia. reflexivity.
Qed.

Lemma entries_params segs : good_segs segs -> entries (path_parameters_spec_of segs) = key_entries segs.
Proof.
  intros Hg. unfold entries, path_parameters_spec_of, key_entries. rewrite map_map.
  apply map_ext_in. intros x Hx. unfold key_of, prefix_of, key_entry. cbn [fst snd].
  rewrite remove_last_prefix; [reflexivity | exact Hg | apply param_positions_lt; exact Hx].
Qed.

Lemma param_positions_inj segs x y :
  In x (param_positions segs) -> In y (param_positions segs) -> fst x = fst y -> x = y.
Proof.
  destruct x as [i n], y as [j m]. cbn [fst]. intros Hx Hy <-.
  apply param_positions_in in Hx. apply param_positions_in in Hy.
  rewrite Hx in Hy. injection Hy as Hy. apply app_inj_tail in Hy as [-> _]. reflexivity.
Qed.

Lemma key_entries_nodup segs : good_segs segs -> NoDup (map fst (key_entries segs)).
Proof.
  intros Hg. unfold key_entries. rewrite map_map. apply NoDup_map_inj_in.
  - intros x y Hx Hy E. cbn [key_entry fst] in E.
    apply param_positions_lt in Hx as Hxl. apply param_positions_lt in Hy as Hyl.
    apply prefix_join_inj in E; [|exact Hg|lia|lia].
    exact (param_positions_inj segs x y Hx Hy E).
  - apply NoDup_map_fst. apply positions_from_nodup.
Qed.

Lemma key_entries_in segs k n :
  In (k, n) (key_entries segs) <->
  exists i, nth_error segs i = Some (123 :: n ++ [125]) /\ k = join_byte 47 (firstn i segs).
Proof.
  unfold key_entries. rewrite in_map_iff. split.
  - intros ([i m] & Hx & Hin). unfold key_entry in Hx. cbn [fst snd] in Hx. injection Hx as <- <-.
    exists i. split; [apply param_positions_in; exact Hin | reflexivity].
  - intros (i & Hi & ->). exists (i, n). split; [reflexivity | apply param_positions_in; exact Hi].
Qed.

(* --- conflicts between two segment lists --------------------------------------------- *)

(* a parameter at the same index of both, after literally identical leading segments,
   with two different names *)
Definition conflict (s1 s2 : list bytes) : Prop :=
  exists i n1 n2,
    nth_error s1 i = Some (123 :: n1 ++ [125]) /\ nth_error s2 i = Some (123 :: n2 ++ [125]) /\
    firstn i s1 = firstn i s2 /\ n1 <> n2.

Lemma conflict_sym s1 s2 : conflict s1 s2 -> conflict s2 s1.
Proof. intros (i & n1 & n2 & H1 & H2 & Hf & Hn). exists i, n2, n1. auto. Qed.

Lemma conflict_irrefl s : ~ conflict s s.
Proof.
  intros (i & n1 & n2 & H1 & H2 & _ & Hn). rewrite H1 in H2. injection H2 as H2.
  apply app_inj_tail in H2 as [H2 _]. exact (Hn H2).
Qed.

(* entry-level compatibility of two segment lists *)
Definition ecompat (s1 s2 : list bytes) : Prop :=
  forall k n m, In (k, n) (key_entries s1) -> In (k, m) (key_entries s2) -> n = m.

Lemma nth_error_lt {A} (l : list A) i x : nth_error l i = Some x -> (i < List.length l)%nat.
Proof. intros H. apply nth_error_Some. congruence. Qed.

Lemma entries_conflict s1 s2 k n m :
  good_segs s1 -> good_segs s2 ->
  In (k, n) (key_entries s1) -> In (k, m) (key_entries s2) -> n <> m -> conflict s1 s2.
Proof.
  intros G1 G2 Hn Hm Hne. apply key_entries_in in Hn as (i & Hi & ->).
  apply key_entries_in in Hm as (j & Hj & E).
  apply join_inj in E; try (apply good_firstn; assumption).
  assert (Hij : i = j).
  { apply (f_equal (@List.length bytes)) in E. rewrite !firstn_length in E.
    apply nth_error_lt in Hi. apply nth_error_lt in Hj. lia. }
  subst j. exists i, n, m. auto.
Qed.

Lemma ecompat_no_conflict s1 s2 : good_segs s1 -> good_segs s2 -> (ecompat s1 s2 <-> ~ conflict s1 s2).
Proof.
  intros G1 G2. split.
  - intros Hc (i & n1 & n2 & H1 & H2 & Hf & Hn). apply Hn.
    apply (Hc (join_byte 47 (firstn i s1))); apply key_entries_in; exists i; split; auto.
    rewrite Hf. reflexivity.
  - intros Hnc k n m Hn Hm.
    destruct (beq n m) eqn:Eb; [apply beq_eq; exact Eb|]. exfalso. apply Hnc.
    apply (entries_conflict s1 s2 k n m); try assumption. apply beq_false_ne'. exact Eb.
Qed.

Lemma ecompat_sym s1 s2 : ecompat s1 s2 -> ecompat s2 s1.
Proof. intros H k n m Hn Hm. symmetry. exact (H k m n Hm Hn). Qed.

Lemma ecompat_refl s : good_segs s -> ecompat s s.
Proof. intros G. apply ecompat_no_conflict; [exact G | exact G | apply conflict_irrefl]. Qed.

(* --- two paths registered in sequence ------------------------------------------------ *)

Lemma sp_compat_nil pp : sp_compat [] pp.
Proof. intros k n _. left. reflexivity. Qed.

Lemma lookup_rev_entries segs k v :
  good_segs segs -> (sp_lookup k (rev (key_entries segs)) = Some v <-> In (k, v) (key_entries segs)).
Proof.
  intros G. rewrite sp_lookup_in.
  - rewrite <- in_rev. reflexivity.
  - rewrite map_rev. apply NoDup_rev. apply key_entries_nodup. exact G.
Qed.

Lemma register_single_lemma p :
  register_paths [] 0 [p] = GOk (RegOk (rev (key_entries (segments p)))).
Proof.
  cbn [register_paths]. rewrite path_parameters_spec_lemma. cbn [gbind].
  pose proof (segments_good p) as G.
  rewrite check_similar_ok; [|rewrite entries_params by exact G; apply key_entries_nodup; exact G | apply sp_compat_nil].
  rewrite entries_params by exact G. rewrite app_nil_r. reflexivity.
Qed.

Lemma similar_two_lemma p1 p2 :
  (conflict (segments p1) (segments p2) /\
     exists msg, register_paths [] 0 [p1; p2] = GOk (RegReject 1 msg)) \/
  (~ conflict (segments p1) (segments p2) /\
     exists st, register_paths [] 0 [p1; p2] = GOk (RegOk st)).
Proof.
  pose proof (segments_good p1) as G1. pose proof (segments_good p2) as G2.
  cbn [register_paths]. rewrite !path_parameters_spec_lemma. cbn [gbind].
  rewrite check_similar_ok; [|rewrite entries_params by exact G1; apply key_entries_nodup; exact G1 | apply sp_compat_nil].
  rewrite entries_params by exact G1. rewrite app_nil_r.
  assert (Hnd2 : NoDup (map fst (entries (path_parameters_spec_of (segments p2)))))
    by (rewrite entries_params by exact G2; apply key_entries_nodup; exact G2).
  destruct (check_similar_paths (rev (key_entries (segments p1))) (path_parameters_spec_of (segments p2)))
    as [st'|st' key old ppath] eqn:Ec.
  - right. split; [|eexists; reflexivity].
    apply check_similar_ok_inv in Ec as [_ Hc]; [|exact Hnd2].
    apply ecompat_no_conflict; [exact G1 | exact G2 |].
    intros k n m Hn Hm. unfold sp_compat in Hc. rewrite entries_params in Hc by exact G2.
    destruct (Hc k m Hm) as [Hl|Hl].
    + apply lookup_rev_entries in Hn; [|exact G1]. congruence.
    + apply lookup_rev_entries in Hn; [|exact G1]. congruence.
  - left. split; [|eexists; reflexivity].
    apply check_similar_reject_inv in Ec as (n & Hin & -> & Hl & Hne); [|exact Hnd2].
    apply lookup_rev_entries in Hl; [|exact G1].
    apply (entries_conflict _ _ (remove_last_segment ppath) old n); try assumption.
    rewrite <- entries_params by exact G2. apply in_map_iff. exists (ppath, n). auto.
Qed.

(* --- any number of paths: acceptance = pairwise absence of conflicts ------------------ *)

Definition all_entries (ps : list bytes) : list (bytes * bytes) :=
  flat_map (fun p => key_entries (segments p)) ps.

(* the map holds exactly the bindings of the paths registered so far *)
Definition sp_inv (st : sp_state) (L : list bytes) : Prop :=
  forall k v, sp_lookup k st = Some v <-> In (k, v) (all_entries L).

Definition pairwise_ok (ps : list bytes) : Prop :=
  forall p q, In p ps -> In q ps -> ecompat (segments p) (segments q).

Lemma sp_compat_inv st L p :
  sp_inv st L ->
  (sp_compat st (params_of p) <-> forall q, In q L -> ecompat (segments q) (segments p)).
Proof.
  intros Hinv. unfold sp_compat, params_of. rewrite entries_params by apply segments_good. split.
  - intros Hc q Hq k n m Hn Hm.
    assert (Hl : sp_lookup k st = Some n).
    { apply Hinv. apply in_flat_map. exists q. auto. }
    destruct (Hc k m Hm) as [H|H]; congruence.
  - intros H k n Hin. destruct (sp_lookup k st) as [v|] eqn:El; [|left; reflexivity].
    right. apply Hinv in El. apply in_flat_map in El as (q & Hq & Hv).
    rewrite (H q Hq k v n Hv Hin). reflexivity.
Qed.

Lemma sp_inv_step st L p :
  sp_inv st L -> sp_compat st (params_of p) ->
  sp_inv (rev (key_entries (segments p)) ++ st) (p :: L).
Proof.
  intros Hinv Hc k v. pose proof (segments_good p) as G.
  rewrite sp_lookup_app. cbn [all_entries flat_map]. rewrite in_app_iff.
  fold (all_entries L).
  unfold sp_compat, params_of in Hc. rewrite entries_params in Hc by exact G.
  destruct (sp_lookup k (rev (key_entries (segments p)))) as [w|] eqn:El.
  - apply lookup_rev_entries in El; [|exact G]. split.
    + intros H. injection H as <-. left. exact El.
    + intros [H|H].
      * apply lookup_rev_entries in H; [|exact G]. apply lookup_rev_entries in El; [|exact G]. congruence.
      * apply Hinv in H. destruct (Hc k w El) as [H'|H']; congruence.
  - rewrite (Hinv k v). split; [intros H; right; exact H|].
    intros [H|H]; [|exact H]. apply lookup_rev_entries in H; [|exact G]. congruence.
Qed.

Lemma register_ok_iff st idx paths L :
  sp_inv st L ->
  ((exists st', register_paths st idx paths = GOk (RegOk st')) <->
   (forall q p, In q paths -> In p L -> ecompat (segments p) (segments q)) /\ pairwise_ok paths).
Proof.
  revert st idx L. induction paths as [|p ps IH]; intros st idx L Hinv.
  - simpl. split; [intros _; split; [intros q p [] | intros p q []] | intros _; eexists; reflexivity].
  - cbn [register_paths]. rewrite path_parameters_spec_lemma. cbn [gbind]. fold (params_of p).
    pose proof (segments_good p) as G.
    assert (Hnd : NoDup (map fst (entries (params_of p))))
      by (unfold params_of; rewrite entries_params by exact G; apply key_entries_nodup; exact G).
    destruct (check_similar_paths st (params_of p)) as [st0|st0 key old ppath] eqn:Ec.
    + apply check_similar_ok_inv in Ec as [-> Hc]; [|exact Hnd].
      unfold params_of at 1. rewrite entries_params by exact G.
      pose proof (sp_inv_step st L p Hinv Hc) as Hinv'.
      rewrite (IH _ (S idx) (p :: L) Hinv').
      pose proof (proj1 (sp_compat_inv st L p Hinv) Hc) as HpL.
      split.
      * intros [H1 H2]. split.
        -- intros q r [<-|Hq] Hr; [exact (HpL r Hr) | apply H1; [exact Hq | right; exact Hr]].
        -- intros a b [<-|Ha] [<-|Hb].
           ++ apply ecompat_refl. exact G.
           ++ apply H1; [exact Hb | left; reflexivity].
           ++ apply ecompat_sym. apply H1; [exact Ha | left; reflexivity].
           ++ apply H2; assumption.
      * intros [H1 H2]. split.
        -- intros q r Hq [<-|Hr]; [apply H2; [left; reflexivity | right; exact Hq]|].
           apply H1; [right; exact Hq | exact Hr].
        -- intros a b Ha Hb. apply H2; right; assumption.
    + split; [intros [st' H]; discriminate|]. intros [H1 _]. exfalso.
      apply check_similar_reject_inv in Ec as (n & Hin & -> & Hl & Hne); [|exact Hnd].
      apply Hinv in Hl. apply in_flat_map in Hl as (q & Hq & Hv). apply Hne.
      apply (H1 p q (or_introl eq_refl) Hq (remove_last_segment ppath) old n Hv).
      rewrite <- entries_params by exact G. apply in_map_iff. exists (ppath, n). auto.
Qed.

Lemma sp_inv_nil : sp_inv [] [].
Proof. intros k v. simpl. split; [discriminate | intros []]. Qed.

Lemma register_all_lemma paths :
  (exists st, register_paths [] 0 paths = GOk (RegOk st)) <->
  (forall p q, In p paths -> In q paths -> ~ conflict (segments p) (segments q)).
Proof.
  rewrite (register_ok_iff [] 0 paths [] sp_inv_nil). split.
  - intros [_ H] p q Hp Hq. apply ecompat_no_conflict; try apply segments_good. apply H; assumption.
  - intros H. split; [intros q p _ []|]. intros p q Hp Hq.
    apply ecompat_no_conflict; try apply segments_good. apply H; assumption.
Qed.

(* acceptance of a project does not depend on the order of its paths *)
Lemma register_order_independent_lemma ps1 ps2 :
  Permutation ps1 ps2 ->
  ((exists st, register_paths [] 0 ps1 = GOk (RegOk st)) <->
   (exists st, register_paths [] 0 ps2 = GOk (RegOk st))).
Proof.
  intros HP. rewrite !register_all_lemma. split; intros H p q Hp Hq; apply H.
  - apply Permutation_sym in HP. exact (Permutation_in _ HP Hp).
  - apply Permutation_sym in HP. exact (Permutation_in _ HP Hq).
  - exact (Permutation_in _ HP Hp).
  - exact (Permutation_in _ HP Hq).
Qed.

Lemma register_total_lemma st idx paths : exists r, register_paths st idx paths = GOk r.
Proof.
  revert st idx. induction paths as [|p ps IH]; intros st idx; [eexists; reflexivity|].
  cbn [register_paths]. rewrite path_parameters_spec_lemma. cbn [gbind].
  destruct (check_similar_paths st _); [apply IH | eexists; reflexivity].
Qed.

(* --- normal form ---------------------------------------------------------------------- *)

(* every {name} segment becomes {} *)
Definition nf_seg (seg : bytes) : bytes :=
  match param_inner seg with Some _ => [123; 125] | None => seg end.
Definition nf (segs : list bytes) : list bytes := map nf_seg segs.

Lemma param_inner_braces : param_inner [123; 125] = Some [].
Proof. reflexivity. Qed.

Lemma same_nf_conflict s1 s2 : nf s1 = nf s2 -> s1 <> s2 -> conflict s1 s2.
Proof.
  revert s2. induction s1 as [|a s1 IH]; intros [|b s2] Hnf Hne; try discriminate; [congruence|].
  simpl in Hnf. injection Hnf as Hab Hnf.
  destruct (beq a b) eqn:Eab.
  - apply beq_eq in Eab. subst b.
    assert (Hne' : s1 <> s2) by congruence.
    destruct (IH s2 Hnf Hne') as (i & n1 & n2 & H1 & H2 & Hf & Hn).
    exists (S i), n1, n2. simpl. split; [exact H1|]. split; [exact H2|]. split; [f_equal; exact Hf | exact Hn].
  - apply beq_false_ne' in Eab. unfold nf_seg in Hab.
    destruct (param_inner a) as [n1|] eqn:Ea; destruct (param_inner b) as [n2|] eqn:Eb.
    + apply param_inner_spec in Ea. apply param_inner_spec in Eb. unfold param_form in *.
      subst a b. exists 0%nat, n1, n2. simpl. split; [reflexivity|]. split; [reflexivity|].
      split; [reflexivity|]. intros E. apply Eab. rewrite E. reflexivity.
    + subst b. rewrite param_inner_braces in Eb. discriminate.
    + subst a. rewrite param_inner_braces in Ea. discriminate.
    + contradiction.
Qed.

Lemma firstn_S_nth {A} (l : list A) i x : nth_error l i = Some x -> firstn (S i) l = firstn i l ++ [x].
Proof.
  revert i. induction l as [|a l IH]; intros [|i] H; simpl in *; try discriminate.
  - injection H as ->. reflexivity.
  - f_equal. apply IH. exact H.
Qed.

Lemma nth_error_firstn {A} (l : list A) k i x :
  nth_error (firstn k l) i = Some x -> nth_error l i = Some x /\ (i < k)%nat.
Proof.
  revert k i. induction l as [|a l IH]; intros [|k] [|i] H; simpl in *; try discriminate.
  - split; [exact H | lia].
  - destruct (IH _ _ H) as [H1 H2]. split; [exact H1 | lia].
Qed.

(* EXACT characterisation: a conflict exists iff, for some k, the first k segments of the
   two paths have the same normal form but are not identical *)
Lemma conflict_nf_prefix s1 s2 :
  conflict s1 s2 <-> exists k, nf (firstn k s1) = nf (firstn k s2) /\ firstn k s1 <> firstn k s2.
Proof.
  split.
  - intros (i & n1 & n2 & H1 & H2 & Hf & Hn). exists (S i).
    rewrite (firstn_S_nth _ _ _ H1), (firstn_S_nth _ _ _ H2), Hf. split.
    + unfold nf. rewrite !map_app. f_equal. simpl. unfold nf_seg. rewrite !param_inner_form. reflexivity.
    + intros E. apply app_inv_head in E. injection E as E. apply app_inj_tail in E as [E _]. exact (Hn E).
  - intros (k & Hnf & Hne). destruct (same_nf_conflict _ _ Hnf Hne) as (i & n1 & n2 & H1 & H2 & Hf & Hn).
    apply nth_error_firstn in H1 as [H1 Hik]. apply nth_error_firstn in H2 as [H2 _].
    exists i, n1, n2. split; [exact H1|]. split; [exact H2|]. split; [|exact Hn].
    rewrite !firstn_firstn in Hf. replace (Nat.min i k) with i in Hf by lia. exact Hf.
Qed.

(* whole-path form: same normal form and different segments is sufficient ... *)
Lemma same_nf_rejected_lemma p1 p2 :
  nf (segments p1) = nf (segments p2) -> segments p1 <> segments p2 ->
  exists msg, register_paths [] 0 [p1; p2] = GOk (RegReject 1 msg).
Proof.
  intros Hnf Hne. destruct (similar_two_lemma p1 p2) as [[_ H]|[H _]]; [exact H|].
  exfalso. apply H. apply same_nf_conflict; assumption.
Qed.

Lemma similar_two_iff_lemma p1 p2 :
  (exists msg, register_paths [] 0 [p1; p2] = GOk (RegReject 1 msg)) <->
  conflict (segments p1) (segments p2).
Proof.
  destruct (similar_two_lemma p1 p2) as [[Hc H]|[Hc [st H]]].
  - split; auto.
  - split; [intros [msg Hm]; congruence | contradiction].
Qed.

Lemma similar_two_nf_iff_lemma p1 p2 :
  (exists msg, register_paths [] 0 [p1; p2] = GOk (RegReject 1 msg)) <->
  exists k, nf (firstn k (segments p1)) = nf (firstn k (segments p2)) /\
            firstn k (segments p1) <> firstn k (segments p2).
Proof. rewrite similar_two_iff_lemma. apply conflict_nf_prefix. Qed.

Lemma similar_two_symmetric_lemma p1 p2 :
  (exists msg, register_paths [] 0 [p1; p2] = GOk (RegReject 1 msg)) <->
  (exists msg, register_paths [] 0 [p2; p1] = GOk (RegReject 1 msg)).
Proof. rewrite !similar_two_iff_lemma. split; apply conflict_sym. Qed.

(* ... but not necessary: /{x}/a and /{y}/b are rejected although they differ in more than
   a parameter name (the map key is the literal text of the leading segments, so one
   position may carry only one parameter name project-wide) *)
Lemma similar_rejects_beyond_nf :
  exists p1 p2, nf (segments p1) <> nf (segments p2) /\
                exists msg, register_paths [] 0 [p1; p2] = GOk (RegReject 1 msg).
Proof.
  exists (bs "/{x}/a"), (bs "/{y}/b"). split; [vm_compute; discriminate | eexists; vm_compute; reflexivity].
Qed.

(* ... and a path with the same normal form is accepted when only an EARLIER parameter is
   renamed consistently?  No: the first renamed parameter already conflicts.  What is accepted
   is the same segment list written with different slashes. *)
Lemma similar_accepts_same_segments p1 p2 :
  segments p1 = segments p2 -> exists st, register_paths [] 0 [p1; p2] = GOk (RegOk st).
Proof.
  intros E. destruct (similar_two_lemma p1 p2) as [[H _]|[_ H]]; [|exact H].
  exfalso. rewrite E in H. exact (conflict_irrefl _ H).
Qed.

(* ------------------------------------------------------------------------------------ *)
(* Sanity examples, by computation                                                       *)

Example ex_split_path : split_path (bs "//a//{x}/") = [bs "a"; bs "{x}"].
Proof. vm_compute. reflexivity. Qed.

Example ex_total : path_parameters (bs "/{") = GOk [] /\ path_parameters (bs "}") = GOk [] /\
                   path_parameters (bs "///") = GOk [] /\ path_parameters [] = GOk [].
Proof. vm_compute. repeat split. Qed.

Example ex_spec_1 :
  path_parameters (bs "/a/{x}/b/{y}") = GOk [(bs "a/{x}", bs "x"); (bs "a/{x}/b/{y}", bs "y")].
Proof. vm_compute. reflexivity. Qed.

Example ex_spec_2 : path_parameters (bs "//a//{x}/") = GOk [(bs "a/{x}", bs "x")].
Proof. vm_compute. reflexivity. Qed.

Example ex_spec_3 : path_parameters (bs "/{}/") = GOk [(bs "{}", [])].
Proof. vm_compute. reflexivity. Qed.

Example ex_spec_of : path_parameters_spec_of (segments (bs "/a/{x}/b/{y}")) =
                     [(bs "a/{x}", bs "x"); (bs "a/{x}/b/{y}", bs "y")].
Proof. vm_compute. reflexivity. Qed.

Example ex_prefixes_distinct : map fst (params_of (bs "/{x}/{x}")) = [bs "{x}"; bs "{x}/{x}"].
Proof. vm_compute. reflexivity. Qed.

Example ex_checked_ok :
  path_parameters_checked (bs "/a/{x}/b/{y}") = GOk (POk [(bs "a/{x}", bs "x"); (bs "a/{x}/b/{y}", bs "y")]).
Proof. vm_compute. reflexivity. Qed.

Example ex_checked_ok_2 : path_parameters_checked (bs "//a//{x}/") = GOk (POk [(bs "a/{x}", bs "x")]).
Proof. vm_compute. reflexivity. Qed.

Example ex_checked_empty : path_parameters_checked (bs "/{}/") = GOk PEmptyParam.
Proof. vm_compute. reflexivity. Qed.

Example ex_checked_dup : path_parameters_checked (bs "/{x}/{x}") = GOk (PDup (bs "x")).
Proof. vm_compute. reflexivity. Qed.

Example ex_similar_reject :
  register_paths [] 0 [bs "/a/{x}/b/{y}"; bs "/a/{x}/b/{z}"] =
  GOk (RegReject 1 (bs "disallow the use of ""similar"" paths: ""/a/{x}/b/{y}"", ""/a/{x}/b/{z}""")).
Proof. vm_compute. reflexivity. Qed.

Example ex_similar_accept_slashes :
  exists st, register_paths [] 0 [bs "/a/{x}"; bs "//a//{x}/"; bs "/a/{x}/b/{y}"] = GOk (RegOk st).
Proof. eexists. vm_compute. reflexivity. Qed.

Example ex_similar_beyond_nf :
  register_paths [] 0 [bs "/{x}/a"; bs "/{y}/b"] =
  GOk (RegReject 1 (bs "disallow the use of ""similar"" paths: ""//{x}"", ""/{y}""")).
Proof. vm_compute. reflexivity. Qed.

Example ex_similar_dup_in_one_path :
  exists st, register_paths [] 0 [bs "/{x}/{x}"; bs "/{}/"] = GOk (RegReject 1 st).
Proof. eexists. vm_compute. reflexivity. Qed.
