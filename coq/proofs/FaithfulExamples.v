(* examples for C04 / C20 / C10 (vm_compute on the model) *)
From Coq Require Import List NArith Bool String Lia.
From JV.lib Require Import Bytes.
From JV.gen Require Import DirectiveTables TagName.
From JV.model Require Import ScannerSem Core Description PathParams TagTitle Catalog.
From JV.proofs Require Import BytesLemmas TagNameProofs CatalogProofs FaithfulProofs ContentProofs InfoProofs.
Import ListNotations.
Open Scope N_scope.
Local Open Scope string_scope.

Definition ex_dirb (k : kind) (kw : string) (pos : N) (np : list (string * string)) (up : list string) (ann : string)
  (body : option (N * N)) : directive :=
  {| d_kind := k; d_keyword := bs kw;
     d_kw := {| c_file := bs "a.jst"; c_beg := pos; c_end := pos + N.of_nat (String.length kw) - 1 |};
     d_named := map (fun e => (bs (fst e), bs (snd e))) np; d_unnamed := map bs up; d_annot := bs ann;
     d_body := match body with Some (b, e) => Some {| c_file := bs "a.jst"; c_beg := b; c_end := e |} | None => None end;
     d_explicit := false; d_trace := [] |}.

Definition L (k : kind) (kw : string) (pos : N) (np : list (string * string)) (up : list string) (ann : string)
  (body : option (N * N)) (kids : list dtree) : dtree := DNode (ex_dirb k kw pos np up ann body) kids.

(* JSIGHT 0.3 / INFO {Title "T", Version 1} / SERVER @s // srv / TAG @pets // Pets / TYPE @cat {..} / ENUM @e [..] /
   URL /cats {Tags @pets, GET // list {Query "a=1" {..}, 200 @cat, 404 any}, POST {Request @cat, 201 any // made}} /
   GET /dogs {200 any} / URL /rpc {Protocol json-rpc-2.0, Method foo // f {Params {..}, Result {..}}} *)
Definition ex_full_forest : list dtree :=
  [ L KJsight "JSIGHT" 0 [("Version", "0.3")] [] "" None [];
    L KInfo "INFO" 11 [] [] "" None
      [ L KTitle "Title" 18 [("Title", "T")] [] "" None []; L KVersion "Version" 30 [("Version", "1")] [] "" None [] ];
    L KServer "SERVER" 40 [("Name", "@s")] [] "srv" None [];
    L KTAG "TAG" 57 [("TagName", "@pets")] [] "Pets" None [];
    L KType "TYPE" 74 [("Name", "@cat")] [] "" (Some (84, 92)) [];
    L KEnum "ENUM" 94 [("Name", "@e")] [] "" (Some (102, 106)) [];
    L KURL "URL" 108 [("Path", "/cats")] [] "" None
      [ L KTags "Tags" 120 [] ["@pets"] "" None [];
        L KGet "GET" 133 [] [] "list" None
          [ L KQuery "Query" 149 [("QueryExample", "a=1")] [] "" (Some (165, 172)) [];
            L KHTTPResponseCode "200" 178 [("Type", "@cat")] [] "" None [];
            L KHTTPResponseCode "404" 191 [("SchemaNotation", "any")] [] "" None [] ];
        L KPost "POST" 201 [] [] "" None
          [ L KRequest "Request" 210 [("Type", "@cat")] [] "" None [];
            L KHTTPResponseCode "201" 227 [("SchemaNotation", "any")] [] "made" None [] ] ];
    L KGet "GET" 243 [("Path", "/dogs")] [] "" None
      [ L KHTTPResponseCode "200" 255 [("SchemaNotation", "any")] [] "" None [] ];
    L KURL "URL" 263 [("Path", "/rpc")] [] "" None
      [ L KProtocol "Protocol" 274 [("ProtocolName", "json-rpc-2.0")] [] "" None [];
        L KMethod "Method" 298 [("MethodName", "foo")] [] "f" None
          [ L KParams "Params" 316 [] [] "" (Some (327, 328)) [];
            L KResult "Result" 334 [] [] "" (Some (345, 346)) [] ] ] ].

Definition cvx (desc : option bytes) (q : option (bytes * bytes)) (req : bool) (codes : list (bytes * bytes)) (p r : bool) : cv :=
  {| cv_desc := desc; cv_query := q; cv_req := req; cv_codes := codes; cv_params := p; cv_result := r |}.

Lemma faithful_example :
  exists c, ex_build ex_full_forest = COk c /\
    map fst (c_servers c) = [bs "@s"] /\ map fst (c_types c) = [bs "@cat"] /\ c_enums c = [(bs "@e", [])] /\
    map fst (c_tags c) = [bs "@pets"; bs "@dogs"; bs "@rpc"] /\
    map fst (c_inters c) = method_ids (positions_all ex_full_forest) /\
    map (fun e => (iid_string (fst e), iannot (snd e), cview (snd e))) (c_inters c) =
      [ (bs "http GET /cats", bs "list",
         cvx None (Some (bs "htmlFormEncoded", bs "a=1")) false [(bs "200", []); (bs "404", [])] false false);
        (bs "http POST /cats", [], cvx None None true [(bs "201", bs "made")] false false);
        (bs "http GET /dogs", [], cvx None None false [(bs "200", [])] false false);
        (bs "json-rpc-2.0 foo /rpc", bs "f", cvx None None false [] true true) ] /\
    c_jsight c = bs "0.3" /\ japi_title c = bs "T" /\ info_version c = bs "1".
Proof.
  eexists. split; [vm_compute; reflexivity|]. repeat split; vm_compute; reflexivity.
Qed.
