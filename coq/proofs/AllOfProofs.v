(* C12 — proofs about model/AllOf.v against spec/AllOfSpec.v. *)
From Coq Require Import List NArith Bool String Lia Arith PeanoNat Permutation.
From JV.lib Require Import Bytes.
From JV.model Require Import AllOf.
From JV.spec Require Import AllOfSpec.
Import ListNotations.
Open Scope nat_scope.

(* ------------------------------------------------------------------------------------- *)
(* lists and the heap *)

Lemma all_some_map_some {A B} (f : A -> option B) (l : list A) (out : list B) :
  all_some (map f l) = Some out -> Forall2 (fun a b => f a = Some b) l out.
Proof.
  revert out; induction l as [|a l IH]; simpl; intros out H.
  - injection H as <-. constructor.
  - destruct (f a) eqn:Ea; [|discriminate].
    destruct (all_some (map f l)) eqn:El; [|discriminate].
    injection H as <-. constructor; auto.
Qed.

Lemma all_some_ext {A B} (f g : A -> option B) (l : list A) :
  (forall a, In a l -> f a = g a) -> all_some (map f l) = all_some (map g l).
Proof.
  induction l as [|a l IH]; simpl; intros H; [reflexivity|].
  rewrite (H a (or_introl eq_refl)). rewrite IH; [reflexivity|]. intros; apply H; right; assumption.
Qed.

Lemma all_some_app {A} (l1 l2 : list (option A)) (o1 o2 : list A) :
  all_some l1 = Some o1 -> all_some l2 = Some o2 -> all_some (l1 ++ l2) = Some (o1 ++ o2).
Proof.
  revert o1; induction l1 as [|x l1 IH]; simpl; intros o1 H1 H2.
  - injection H1 as <-. exact H2.
  - destruct x; [|discriminate]. destruct (all_some l1) eqn:E; [|discriminate].
    injection H1 as <-. rewrite (IH l eq_refl H2). reflexivity.
Qed.

Lemma all_some_map_Some {A} (l : list A) : all_some (map Some l) = Some l.
Proof. induction l as [|a l IH]; simpl; [reflexivity|]. rewrite IH. reflexivity. Qed.

Lemma nth_error_replace_same {A} (l : list A) i x :
  i < List.length l -> nth_error (replace_nth l i x) i = Some x.
Proof.
  revert i; induction l as [|y l IH]; simpl; intros i H; [lia|].
  destruct i; simpl; [reflexivity|]. apply IH. lia.
Qed.

Lemma nth_error_replace_other {A} (l : list A) i j x :
  i <> j -> nth_error (replace_nth l i x) j = nth_error l j.
Proof.
  revert i j; induction l as [|y l IH]; simpl; intros i j H; [reflexivity|].
  destruct i, j; simpl; try reflexivity; try congruence. apply IH. congruence.
Qed.

Lemma replace_nth_length {A} (l : list A) i x : List.length (replace_nth l i x) = List.length l.
Proof. revert i; induction l as [|y l IH]; simpl; intros i; [reflexivity|]. destruct i; simpl; auto. Qed.

Lemma get_lt st i n : get st i = Some n -> i < List.length (heap st).
Proof. unfold get. intros H. apply nth_error_Some. congruence. Qed.

Lemma mem_In x l : mem x l = true <-> In x l.
Proof.
  induction l as [|y l IH]; simpl; [split; [discriminate|tauto]|].
  rewrite orb_true_iff, IH, beq_eq. split; intros [H|H]; auto.
Qed.

Lemma mem_false_not_In x l : mem x l = false <-> ~ In x l.
Proof. rewrite <- mem_In. destruct (mem x l); split; congruence. Qed.

Lemma tok_eqb_eq a b : tok_eqb a b = true <-> a = b.
Proof. destruct a, b; simpl; split; congruence. Qed.

Lemma fold_res_app {A B} (f : A -> B -> res A) l1 l2 a :
  fold_res f (l1 ++ l2) a = rbind (fold_res f l1 a) (fold_res f l2).
Proof.
  revert a; induction l1 as [|x l1 IH]; simpl; intros a; [reflexivity|].
  destruct (f a x); simpl; auto.
Qed.

(* ------------------------------------------------------------------------------------- *)
(* the effect of one allocation + Unshift *)

Definition push_copy (st : state) (sc : id) (scn : node) (c : node) : state :=
  update (fst (alloc st c)) sc (set_children scn (List.length (heap st) :: n_children scn)).

Lemma push_copy_get_sc st sc scn c :
  get st sc = Some scn ->
  get (push_copy st sc scn c) sc = Some (set_children scn (List.length (heap st) :: n_children scn)).
Proof.
  intros H. unfold push_copy, update, alloc, get; simpl.
  apply nth_error_replace_same. rewrite app_length; simpl. apply get_lt in H. lia.
Qed.

Lemma push_copy_get_new st sc scn c :
  get st sc = Some scn ->
  get (push_copy st sc scn c) (List.length (heap st)) = Some c.
Proof.
  intros H. unfold push_copy, update, alloc, get; simpl.
  rewrite nth_error_replace_other; [|apply get_lt in H; lia].
  rewrite nth_error_app2; [|lia]. rewrite Nat.sub_diag. reflexivity.
Qed.

Lemma push_copy_get_other st sc scn c j n :
  j <> sc -> get st j = Some n -> get (push_copy st sc scn c) j = Some n.
Proof.
  intros Hne H. unfold push_copy, update, alloc, get; simpl.
  rewrite nth_error_replace_other; [|congruence].
  rewrite nth_error_app1; [exact H|]. apply get_lt in H. exact H.
Qed.

Lemma push_copy_length st sc scn c :
  List.length (heap (push_copy st sc scn c)) = S (List.length (heap st)).
Proof. unfold push_copy, update, alloc; simpl. rewrite replace_nth_length, app_length; simpl. lia. Qed.

Lemma push_copy_memo st sc scn c : memo (push_copy st sc scn c) = memo st.
Proof. reflexivity. Qed.

(* ------------------------------------------------------------------------------------- *)
(* plain nodes: no allOf rule at or below them.  The height is explicit: it is the fuel that
   processSchemaContentJSightAllOf needs to walk over the node. *)

Fixpoint plainh (h : nat) (st : state) (i : id) : Prop :=
  match h with
  | O => False
  | S h' => exists n, get st i = Some n /\ n_allof n = [] /\ Forall (plainh h' st) (n_children n)
  end.

Definition pnode (h : nat) (st : state) (n : node) : Prop :=
  n_allof n = [] /\ Forall (plainh h st) (n_children n).

Lemma plainh_S h st i : plainh h st i -> plainh (S h) st i.
Proof.
  revert i; induction h as [|h IH]; intros i H; [destruct H|].
  destruct H as (n & Hg & Ha & Hc). exists n. repeat split; auto.
  eapply Forall_impl; [|exact Hc]. intros c Hcc. apply IH. exact Hcc.
Qed.

Lemma plainh_le h h' st i : h <= h' -> plainh h st i -> plainh h' st i.
Proof. induction 1; auto. intros. apply plainh_S. auto. Qed.

(* st' extends st: nodes without allOf rule are untouched, the others keep everything but
   their children *)
Record ext (st st' : state) : Prop := mk_ext {
  ext_plain : forall i n, get st i = Some n -> n_allof n = [] -> get st' i = Some n;
  ext_any : forall i n, get st i = Some n ->
            exists n', get st' i = Some n' /\ n_key n' = n_key n /\ n_tok n' = n_tok n /\
                       n_allof n' = n_allof n /\ n_inh n' = n_inh n
}.

Lemma ext_refl st : ext st st.
Proof. split; intros; eauto 10. Qed.

Lemma ext_trans a b c : ext a b -> ext b c -> ext a c.
Proof.
  intros [P1 A1] [P2 A2]. split.
  - intros i n H Ha. apply P2; auto.
  - intros i n H. destruct (A1 i n H) as (n1 & G1 & K1 & T1 & L1 & I1).
    destruct (A2 i n1 G1) as (n2 & G2 & K2 & T2 & L2 & I2).
    exists n2. repeat split; congruence.
Qed.

Lemma plainh_ext h st st' i : ext st st' -> plainh h st i -> plainh h st' i.
Proof.
  intros E. revert i; induction h as [|h IH]; intros i H; [destruct H|].
  destruct H as (n & Hg & Ha & Hc). exists n. repeat split; auto.
  - apply (ext_plain _ _ E); auto.
  - eapply Forall_impl; [|exact Hc]. intros c Hcc. apply IH. exact Hcc.
Qed.

Lemma pnode_ext h st st' n : ext st st' -> pnode h st n -> pnode h st' n.
Proof.
  intros E [Ha Hc]. split; auto. eapply Forall_impl; [|exact Hc]. intros c. apply plainh_ext. exact E.
Qed.

(* `priv` marks the INNER nodes of schemas: objects and arrays without an allOf rule that have an
   object WITH a rule somewhere below them (never mutated, never copied: only walked through).
   Everywhere else a child pointer leads to a node without allOf rule: the nodes that are ever
   mutated are children of inner nodes only. *)
Section Priv.
Variable priv : id -> Prop.

Definition heap_ok (st : state) : Prop :=
  (forall i, priv i -> i < List.length (heap st)) /\
  (forall i n c, ~ priv i -> get st i = Some n -> In c (n_children n) ->
                 exists cn, get st c = Some cn /\ n_allof cn = [] /\ ~ priv c).

Definition cnodes (st : state) (i : id) : option (list node) :=
  match get st i with Some n => all_some (map (get st) (n_children n)) | None => None end.

Definition keyed (n : node) : Prop := exists k, n_key n = Some k.

Section Walk.
  Variable types : list (bytes * option id).
  Variable u : nat.

  Lemma process_plain h : forall st i fuel, plainh h st i -> h <= fuel -> process types u fuel st i = ROk st.
  Proof.
    induction h as [|h IH]; intros st i fuel H Hle; [destruct H|].
    destruct H as (n & Hg & Ha & Hc).
    destruct fuel as [|f]; [lia|]. simpl. rewrite Hg.
    destruct (negb (tok_eqb (n_tok n) TObject) && negb (tok_eqb (n_tok n) TArray)); [reflexivity|].
    assert (Hf : fold_res (fun st1 c => process types u f st1 c) (n_children n) st = ROk st).
    { induction Hc as [|c cs Hcc _ IHc]; simpl; [reflexivity|].
      rewrite (IH st c f Hcc); [|lia]. simpl. exact IHc. }
    rewrite Hf. simpl. destruct (negb (tok_eqb (n_tok n) TObject)); [reflexivity|]. rewrite Ha. reflexivity.
  Qed.

  Lemma fold_process_plain h st cs fuel :
    Forall (plainh h st) cs -> h <= fuel ->
    fold_res (fun st1 c => process types u fuel st1 c) cs st = ROk st.
  Proof.
    intros Hc Hle. induction Hc as [|c cs Hcc _ IHc]; simpl; [reflexivity|].
    rewrite (process_plain h st c fuel Hcc Hle). simpl. exact IHc.
  Qed.
End Walk.

(* ------------------------------------------------------------------------------------- *)
(* ObjectProperty *)

Fixpoint first_with_key (k : bytes) (l : list node) : option node :=
  match l with
  | [] => None
  | n :: r => match n_key n with
              | Some k' => if beq k' k then Some n else first_with_key k r
              | None => first_with_key k r
              end
  end.

Lemma object_property_spec st cs l k :
  all_some (map (get st) cs) = Some l -> Forall keyed l ->
  object_property st cs k = ROk (first_with_key k l).
Proof.
  revert l; induction cs as [|c cs IH]; simpl; intros l H Hk.
  - injection H as <-. reflexivity.
  - destruct (get st c) as [cn|] eqn:Ec; [|discriminate].
    destruct (all_some (map (get st) cs)) as [l'|] eqn:El; [|discriminate].
    injection H as <-. inversion Hk as [|? ? [k' Hk'] Hk2]; subst. simpl. rewrite Hk'.
    destruct (beq k' k); [reflexivity|]. apply IH; auto.
Qed.

Lemma first_with_key_none k l :
  (forall n, In n l -> n_key n <> Some k) -> first_with_key k l = None.
Proof.
  induction l as [|n l IH]; simpl; intros H; [reflexivity|].
  destruct (n_key n) as [k'|] eqn:E.
  - destruct (beq k' k) eqn:B.
    + apply beq_eq in B. subst. exfalso. apply (H n); auto.
    + apply IH. intros; apply H; auto.
  - apply IH. intros; apply H; auto.
Qed.

Lemma first_with_key_nodup k l n :
  NoDup (map n_key l) -> In n l -> n_key n = Some k -> first_with_key k l = Some n.
Proof.
  induction l as [|m l IH]; simpl; intros Hnd Hin Hk; [tauto|].
  inversion Hnd as [|? ? Hnot Hnd']; subst.
  destruct Hin as [->|Hin].
  - rewrite Hk, beq_refl. reflexivity.
  - destruct (n_key m) as [k'|] eqn:E.
    + destruct (beq k' k) eqn:B.
      * apply beq_eq in B. subst. exfalso. apply Hnot. rewrite <- Hk. apply in_map. exact Hin.
      * apply IH; auto.
    + apply IH; auto.
Qed.

(* ------------------------------------------------------------------------------------- *)
(* the copy loop of inheritPropertiesFromUserType *)

Definition frame (sc : id) (st st' : state) : Prop :=
  forall i n, i <> sc -> get st i = Some n -> get st' i = Some n.

Lemma frame_refl sc st : frame sc st st.
Proof. intros i n _ H; exact H. Qed.

Lemma frame_trans sc a b c : frame sc a b -> frame sc b c -> frame sc a c.
Proof. intros F1 F2 i n Hne H. apply F2; auto. Qed.

Lemma all_some_nth {A B} (f : A -> option B) l out i a :
  all_some (map f l) = Some out -> nth_error l i = Some a ->
  exists b, f a = Some b /\ nth_error out i = Some b.
Proof.
  intros H. apply all_some_map_some in H. revert i.
  induction H as [|x y l out Hxy _ IH]; intros i Hn; [destruct i; discriminate|].
  destruct i; simpl in *.
  - injection Hn as <-. eauto.
  - apply IH; auto.
Qed.

Lemma all_some_length {A B} (f : A -> option B) l out :
  all_some (map f l) = Some out -> List.length out = List.length l.
Proof.
  intros H. apply all_some_map_some in H. induction H; simpl; auto.
Qed.

Lemma cnodes_frame sc scn st st' r n :
  heap_ok st -> get st sc = Some scn -> n_allof scn <> [] -> frame sc st st' ->
  r <> sc -> ~ priv r -> get st r = Some n -> cnodes st' r = cnodes st r.
Proof.
  intros Hok Hsc Hao Hf Hne Hnp Er. unfold cnodes.
  rewrite (Hf r n Hne Er), Er. apply all_some_ext.
  intros c Hc. destruct (proj2 Hok r n c Hnp Er Hc) as (cn & Hg & Ha & _).
  rewrite Hg. apply Hf; auto. intros ->. rewrite Hsc in Hg. injection Hg as <-. contradiction.
Qed.

Lemma push_copy_frame st sc scn c : get st sc = Some scn -> frame sc st (push_copy st sc scn c).
Proof. intros H i n Hne Hg. apply push_copy_get_other; auto. Qed.

Lemma push_copy_heap_ok st sc scn c :
  heap_ok st -> get st sc = Some scn -> n_allof scn <> [] -> ~ priv sc -> n_allof c = [] ->
  (forall x, In x (n_children c) -> exists xn, get st x = Some xn /\ n_allof xn = [] /\ ~ priv x) ->
  heap_ok (push_copy st sc scn c).
Proof.
  intros [Hfresh Hok] Hsc Hao Hnps Hca Hcc.
  assert (Hnew : ~ priv (List.length (heap st))) by (intros Hp; apply Hfresh in Hp; lia).
  split.
  { intros i Hp. rewrite push_copy_length. apply Hfresh in Hp. lia. }
  intros i n x Hnp Hg Hin.
  assert (Hstable : forall y yn, get st y = Some yn -> n_allof yn = [] -> get (push_copy st sc scn c) y = Some yn).
  { intros y yn Hy Hya. apply push_copy_get_other; auto.
    intros ->. rewrite Hsc in Hy. injection Hy as <-. contradiction. }
  destruct (Nat.eq_dec i sc) as [->|Hne].
  - rewrite (push_copy_get_sc st sc scn c Hsc) in Hg. injection Hg as <-. simpl in Hin.
    destruct Hin as [<-|Hin].
    + exists c. split; [apply push_copy_get_new; auto|]. split; auto.
    + destruct (Hok sc scn x Hnps Hsc Hin) as (xn & Hx & Hxa & Hxp). exists xn. split; auto.
  - destruct (Nat.lt_ge_cases i (List.length (heap st))) as [Hlt|Hge].
    + destruct (get st i) as [n0|] eqn:E0; [|apply nth_error_None in E0; lia].
      rewrite (push_copy_get_other st sc scn c i n0 Hne E0) in Hg. injection Hg as <-.
      destruct (Hok i n0 x Hnp E0 Hin) as (xn & Hx & Hxa & Hxp). exists xn. split; auto.
    + assert (Hi : i = List.length (heap st)).
      { apply get_lt in Hg. rewrite push_copy_length in Hg. lia. }
      subst i. rewrite (push_copy_get_new st sc scn c Hsc) in Hg. injection Hg as <-.
      destruct (Hcc x Hin) as (xn & Hx & Hxa & Hxp). exists xn. split; auto.
Qed.

Lemma firstn_S_nth {A} (l : list A) i a :
  nth_error l i = Some a -> firstn (S i) l = firstn i l ++ [a].
Proof.
  revert i; induction l as [|x l IH]; intros i H; [destruct i; discriminate|].
  destruct i; simpl in *.
  - injection H as <-. reflexivity.
  - f_equal. apply IH. exact H.
Qed.

Section Loop.
  Variable types : list (bytes * option id).
  Variable u : nat.
  Variable name : bytes.
  Variables sc rb : id.
  Hypothesis Hne : sc <> rb.

  (* what the loop needs to know about a state *)
  Record loop_pre (st : state) (rbn : node) (V : list node) (scn : node) (Cs : list node) : Prop := {
    lp_ok : heap_ok st;
    lp_np_sc : ~ priv sc;
    lp_np_rb : ~ priv rb;
    lp_rb : get st rb = Some rbn;
    lp_V : cnodes st rb = Some V;
    lp_Vk : Forall keyed V;
    lp_sc : get st sc = Some scn;
    lp_ao : n_allof scn <> [];
    lp_S : cnodes st sc = Some Cs;
    lp_Sk : Forall keyed Cs
  }.

  Definition same_but_children (a b : node) : Prop :=
    n_key a = n_key b /\ n_tok a = n_tok b /\ n_allof a = n_allof b /\ n_inh a = n_inh b.

  Lemma get_add_log st i : get (add_log u name st) i = get st i.
  Proof. reflexivity. Qed.

  (* every property of the base is new to sc: all of them are copied, in order, in front *)
  Lemma loop_fresh : forall cnt st rbn V scn Cs,
    loop_pre st rbn V scn Cs -> cnt <= List.length V ->
    NoDup (map n_key (firstn cnt V)) ->
    (forall v s, In v (firstn cnt V) -> In s Cs -> n_key v <> n_key s) ->
    exists st' scn',
      inherit_loop u name sc rb cnt st = ROk st' /\
      loop_pre st' rbn V scn' (map (set_inh name) (firstn cnt V) ++ Cs) /\
      same_but_children scn' scn /\ frame sc st st' /\ memo st' = memo st.
  Proof.
    induction cnt as [|i IH]; intros st rbn V scn Cs Hp Hlen Hnd Hdis.
    - exists st, scn. simpl. split; [reflexivity|]. split; [exact Hp|]. split; [repeat split|].
      split; [apply frame_refl|reflexivity].
    - destruct Hp as [Hok Hnps Hnpr Hrb HV HVk Hsc Hao HS HSk].
      assert (Hv : exists vn, nth_error V i = Some vn).
      { destruct (nth_error V i) eqn:E; eauto. apply nth_error_None in E. lia. }
      destruct Hv as (vn & Hvn).
      assert (HlenV : List.length V = List.length (n_children rbn)).
      { unfold cnodes in HV. rewrite Hrb in HV. eapply all_some_length; eauto. }
      assert (Hvid : exists v, nth_error (n_children rbn) i = Some v).
      { destruct (nth_error (n_children rbn) i) eqn:E; eauto. apply nth_error_None in E. lia. }
      destruct Hvid as (v & Hv).
      assert (Hgv : get st v = Some vn).
      { unfold cnodes in HV. rewrite Hrb in HV.
        destruct (all_some_nth _ _ _ _ _ HV Hv) as (b & Hb & Hb'). congruence. }
      assert (Hfs : firstn (S i) V = firstn i V ++ [vn]) by (apply firstn_S_nth; auto).
      assert (Hvk : keyed vn).
      { rewrite Forall_forall in HVk. apply HVk. eapply nth_error_In; eauto. }
      destruct Hvk as (k & Hk).
      assert (Hva : n_allof vn = [] /\ ~ priv v).
      { destruct (proj2 Hok rb rbn v Hnpr Hrb (nth_error_In _ _ Hv)) as (cn & Hc1 & Hc2 & Hc3). split; [congruence|exact Hc3]. }
      destruct Hva as [Hva Hnpv].
      (* the step *)
      cbn [inherit_loop]. unfold inherit_step. rewrite Hrb, Hv, Hgv, Hk, Hsc.
      assert (HS' := HS). unfold cnodes in HS'. rewrite Hsc in HS'.
      rewrite (object_property_spec st _ Cs k HS' HSk).
      rewrite first_with_key_none.
      2:{ intros n Hn Hkn. apply (Hdis vn n); auto. rewrite Hfs. apply in_or_app. right. left. reflexivity. congruence. }
      cbn [rbind].
      set (st1 := match n_inh vn with [] => add_log u name st | _ :: _ => st end).
      assert (Hg1 : forall j, get st1 j = get st j) by (intros j; unfold st1; destruct (n_inh vn); reflexivity).
      assert (Hm1 : memo st1 = memo st) by (unfold st1; destruct (n_inh vn); reflexivity).
      assert (Hh1 : heap st1 = heap st) by (unfold st1; destruct (n_inh vn); reflexivity).
      assert (Hok1 : heap_ok st1).
      { split.
        - intros a Ha. rewrite Hh1. apply (proj1 Hok a Ha).
        - intros a an c Hnpa Ha Hc. rewrite Hg1 in Ha.
          destruct (proj2 Hok a an c Hnpa Ha Hc) as (cn & ? & ? & ?). exists cn. rewrite Hg1. auto. }
      assert (Hsc1 : get st1 sc = Some scn) by (rewrite Hg1; auto).
      change (update (fst (alloc st1 (set_inh name vn))) sc
                     (set_children scn (snd (alloc st1 (set_inh name vn)) :: n_children scn)))
        with (push_copy st1 sc scn (set_inh name vn)).
      set (st2 := push_copy st1 sc scn (set_inh name vn)).
      assert (Hfr : frame sc st st2).
      { intros j n Hj Hgj. apply push_copy_get_other; auto. rewrite Hg1. auto. }
      assert (Hok2 : heap_ok st2).
      { apply push_copy_heap_ok; auto.
        intros x Hx. simpl in Hx. destruct (proj2 Hok v vn x Hnpv Hgv Hx) as (xn & ? & ? & ?). exists xn. rewrite Hg1. auto. }
      assert (Hsc2 : get st2 sc = Some (set_children scn (List.length (heap st1) :: n_children scn))).
      { apply push_copy_get_sc; auto. }
      assert (HS2 : cnodes st2 sc = Some (set_inh name vn :: Cs)).
      { assert (Hnew : get st2 (List.length (heap st1)) = Some (set_inh name vn)) by (apply push_copy_get_new; auto).
        unfold cnodes. rewrite Hsc2. cbn [n_children set_children map all_some]. rewrite Hnew.
        assert (all_some (map (get st2) (n_children scn)) = Some Cs) as ->; [|reflexivity].
        rewrite <- HS'. apply all_some_ext. intros c Hc.
        destruct (proj2 Hok sc scn c Hnps Hsc Hc) as (cn & Hc1 & Hc2 & _). rewrite Hc1. apply Hfr; auto.
        intros ->. rewrite Hsc in Hc1. injection Hc1 as <-. contradiction. }
      assert (Hp2 : loop_pre st2 rbn V (set_children scn (List.length (heap st1) :: n_children scn)) (set_inh name vn :: Cs)).
      { constructor.
        - exact Hok2.
        - exact Hnps.
        - exact Hnpr.
        - apply Hfr; auto.
        - rewrite (cnodes_frame sc scn st st2 rb rbn Hok Hsc Hao Hfr); auto.
        - exact HVk.
        - exact Hsc2.
        - exact Hao.
        - exact HS2.
        - constructor; auto. exists k. exact Hk. }
      destruct (IH st2 rbn V _ _ Hp2) as (st' & scn' & Hrun & Hp' & Hsame & Hfr' & Hm').
      + lia.
      + rewrite Hfs, map_app in Hnd. simpl in Hnd. apply NoDup_remove_1 in Hnd.
        rewrite app_nil_r in Hnd. exact Hnd.
      + intros w s Hw [<-|Hs].
        * simpl. rewrite Hfs, map_app in Hnd. simpl in Hnd. apply NoDup_remove_2 in Hnd.
          rewrite app_nil_r in Hnd. intros Heq. apply Hnd. rewrite <- Heq. apply in_map. exact Hw.
        * apply Hdis; auto. rewrite Hfs. apply in_or_app. left. exact Hw.
      + exists st', scn'. split; [exact Hrun|]. split; [|split; [|split]].
        * rewrite Hfs, map_app, <- app_assoc. simpl. exact Hp'.
        * destruct Hsame as (? & ? & ? & ?). repeat split; simpl in *; congruence.
        * eapply frame_trans; eauto.
        * rewrite Hm'. unfold st2. rewrite push_copy_memo. exact Hm1.
  Qed.

  (* every property of the base is already there as an inherited one: nothing happens *)
  Lemma loop_present : forall cnt st rbn V scn Cs,
    loop_pre st rbn V scn Cs -> cnt <= List.length V ->
    (forall v k, In v (firstn cnt V) -> n_key v = Some k ->
                 exists p, first_with_key k Cs = Some p /\ n_inh p <> []) ->
    inherit_loop u name sc rb cnt st = ROk st.
  Proof.
    induction cnt as [|i IH]; intros st rbn V scn Cs Hp Hlen Hpres; [reflexivity|].
    assert (Hp' := Hp). destruct Hp as [Hok Hnps Hnpr Hrb HV HVk Hsc Hao HS HSk].
    assert (Hv : exists vn, nth_error V i = Some vn).
    { destruct (nth_error V i) eqn:E; eauto. apply nth_error_None in E. lia. }
    destruct Hv as (vn & Hvn).
    assert (HlenV : List.length V = List.length (n_children rbn)).
    { unfold cnodes in HV. rewrite Hrb in HV. eapply all_some_length; eauto. }
    assert (Hvid : exists v, nth_error (n_children rbn) i = Some v).
    { destruct (nth_error (n_children rbn) i) eqn:E; eauto. apply nth_error_None in E. lia. }
    destruct Hvid as (v & Hv).
    assert (Hgv : get st v = Some vn).
    { unfold cnodes in HV. rewrite Hrb in HV.
      destruct (all_some_nth _ _ _ _ _ HV Hv) as (b & Hb & Hb'). congruence. }
    assert (Hfs : firstn (S i) V = firstn i V ++ [vn]) by (apply firstn_S_nth; auto).
    assert (Hvk : keyed vn).
    { rewrite Forall_forall in HVk. apply HVk. eapply nth_error_In; eauto. }
    destruct Hvk as (k & Hk).
    cbn [inherit_loop]. unfold inherit_step. rewrite Hrb, Hv, Hgv, Hk, Hsc.
    assert (HS' := HS). unfold cnodes in HS'. rewrite Hsc in HS'.
    rewrite (object_property_spec st _ Cs k HS' HSk).
    destruct (Hpres vn k) as (p & Hfp & Hpi); auto.
    { rewrite Hfs. apply in_or_app. right. left. reflexivity. }
    rewrite Hfp. cbn [rbind]. destruct (n_inh p) eqn:Ei; [congruence|]. cbn [rbind].
    apply (IH st rbn V scn Cs Hp'); [lia|].
    intros w kw Hw Hkw. apply (Hpres w kw); auto. rewrite Hfs. apply in_or_app. left. exact Hw.
  Qed.
End Loop.

(* ------------------------------------------------------------------------------------- *)
(* Projects whose allOf rules all sit at schema roots: the invariant of a whole run.

   st0 is the heap before the stage.  A ROOT is the root node of a user type or of a use-site
   schema; every root's children are plain (height <= H), keyed when the root is an object, and
   unmarked.  rrank orders the roots along inheritance (bases are strictly smaller): this is
   acyclicity.  `expected` is the closure computed on st0 (node level: the children an object
   must end up with); nodup_ok is what the schema library guarantees (no key twice). *)

Lemma Forall2_impl' {A B} (P Q : A -> B -> Prop) l1 l2 :
  (forall a b, P a b -> Q a b) -> Forall2 P l1 l2 -> Forall2 Q l1 l2.
Proof. intros HPQ HF. induction HF; constructor; auto. Qed.

Lemma Forall2_Forall_r {A B} (P : A -> B -> Prop) (Q : B -> Prop) l1 l2 :
  Forall2 P l1 l2 -> (forall a b, In a l1 -> P a b -> Q b) -> Forall Q l2.
Proof.
  intros HF. induction HF as [|a b l1 l2 Hab _ IH]; intros HQ; constructor.
  - apply (HQ a b); simpl; auto.
  - apply IH. intros a' b' Hin. apply HQ. simpl; auto.
Qed.

Lemma Forall_concat {A} (Q : A -> Prop) (ls : list (list A)) :
  Forall (Forall Q) ls -> Forall Q (List.concat ls).
Proof. induction 1; simpl; [constructor|]. apply Forall_app; auto. Qed.

Lemma NoDup_app_disj {A} (l1 l2 : list A) :
  NoDup (l1 ++ l2) -> NoDup l1 /\ NoDup l2 /\ (forall x, In x l1 -> In x l2 -> False).
Proof.
  induction l1 as [|a l1 IH]; simpl; intros Hn.
  - repeat split; auto. constructor.
  - inversion Hn as [|? ? Hnot Hn']; subst. destruct (IH Hn') as (H1 & H2 & H3).
    repeat split; auto.
    + constructor; auto. intros Hin. apply Hnot. apply in_or_app. auto.
    + intros x [<-|Hx] Hx2.
      * apply Hnot. apply in_or_app. auto.
      * eapply H3; eauto.
Qed.

Lemma Forall2_app' {A B} (P : A -> B -> Prop) l1 l2 m1 m2 :
  Forall2 P l1 m1 -> Forall2 P l2 m2 -> Forall2 P (l1 ++ l2) (m1 ++ m2).
Proof. induction 1; simpl; auto. Qed.

Lemma Forall2_rev' {A B} (P : A -> B -> Prop) l m : Forall2 P l m -> Forall2 P (rev l) (rev m).
Proof. induction 1; simpl; [constructor|]. apply Forall2_app'; auto. Qed.

Lemma map_key_set_inh b l : map n_key (map (set_inh b) l) = map n_key l.
Proof. rewrite map_map. reflexivity. Qed.

Section Roots.
  Variable types : list (bytes * option id).
  Variable st0 : state.
  Variable H : nat.
  Variable isroot : id -> Prop.
  Variable rrank : id -> nat.

  (* b names a user type whose schema root is one of the roots *)
  Definition tyroot (b : bytes) (r : id) : Prop := lookup types b = Some (Some r) /\ isroot r.

  Definition contrib (rec : id -> option (list node)) (b : bytes) : option (list node) :=
    match lookup types b with
    | Some (Some rb) =>
      match get st0 rb with
      | Some nb =>
        if tok_eqb (n_tok nb) TObject
        then match rec rb with Some l => Some (map (set_inh b) l) | None => None end
        else None
      | None => None
      end
    | _ => None
    end.

  Fixpoint expected (fuel : nat) (r : id) : option (list node) :=
    match fuel with
    | O => None
    | S f =>
      match get st0 r, cnodes st0 r with
      | Some n, Some own =>
        match all_some (map (contrib (expected f)) (n_allof n)) with
        | Some inh => Some (List.concat inh ++ own)
        | None => None
        end
      | _, _ => None
      end
    end.

  Definition Ex (r : id) (L : list node) : Prop := exists d, expected d r = Some L.

  Lemma all_some_weaken {A B} (f g : A -> option B) l out :
    all_some (map f l) = Some out -> (forall a b, In a l -> f a = Some b -> g a = Some b) ->
    all_some (map g l) = Some out.
  Proof.
    revert out; induction l as [|a l IH]; simpl; intros out Hs Hw; [exact Hs|].
    destruct (f a) as [b|] eqn:Ea; [|discriminate].
    destruct (all_some (map f l)) as [o|] eqn:El; [|discriminate].
    rewrite (Hw a b (or_introl eq_refl) Ea). rewrite (IH o eq_refl); [exact Hs|].
    intros; apply Hw; auto.
  Qed.

  Lemma expected_S d : forall r L, expected d r = Some L -> expected (S d) r = Some L.
  Proof.
    induction d as [|d IH]; intros r L He; [discriminate|].
    remember (S d) as d1. simpl. subst d1. simpl in He.
    destruct (get st0 r) as [n|]; [|discriminate].
    destruct (cnodes st0 r) as [own|]; [|discriminate].
    destruct (all_some (map (contrib (expected d)) (n_allof n))) as [inh|] eqn:Ei; [|discriminate].
    rewrite (all_some_weaken _ (contrib (expected (S d))) _ _ Ei); [exact He|].
    intros b l _. unfold contrib. destruct (lookup types b) as [[rb|]|]; try discriminate.
    destruct (get st0 rb) as [nb|]; try discriminate.
    destruct (tok_eqb (n_tok nb) TObject); try discriminate.
    destruct (expected d rb) as [lb|] eqn:Eb; [|discriminate].
    rewrite (IH rb lb Eb). auto.
  Qed.

  Lemma expected_le d d' r L : d <= d' -> expected d r = Some L -> expected d' r = Some L.
  Proof. induction 1; auto. intros. apply expected_S. auto. Qed.

  Lemma Ex_fun r L L' : Ex r L -> Ex r L' -> L = L'.
  Proof.
    intros [d Hd] [d' Hd'].
    apply (expected_le d (max d d')) in Hd; [|lia].
    apply (expected_le d' (max d d')) in Hd'; [|lia]. congruence.
  Qed.

  (* the bases of a root are roots (a base is a user type with plain children) *)
  Hypothesis base_is_root : forall r n b rb,
    isroot r -> get st0 r = Some n -> In b (n_allof n) -> lookup types b = Some (Some rb) -> isroot rb.

  (* the shape of an expected list *)
  Definition base_contrib (b : bytes) (c : list node) : Prop :=
    exists rb nb Lb, tyroot b rb /\ get st0 rb = Some nb /\ n_tok nb = TObject /\ Ex rb Lb /\
                     c = map (set_inh b) Lb.

  Lemma Forall2_impl_In {A B} (P Q : A -> B -> Prop) l1 l2 :
    (forall a b, In a l1 -> P a b -> Q a b) -> Forall2 P l1 l2 -> Forall2 Q l1 l2.
  Proof.
    intros HPQ HF. induction HF; constructor.
    - apply HPQ; simpl; auto.
    - apply IHHF. intros; apply HPQ; simpl; auto.
  Qed.

  Lemma Ex_unfold r L :
    isroot r ->
    Ex r L -> exists n own cs, get st0 r = Some n /\ cnodes st0 r = Some own /\
                               Forall2 base_contrib (n_allof n) cs /\ L = List.concat cs ++ own.
  Proof.
    intros Hr [d Hd]. destruct d as [|d]; [discriminate|]. simpl in Hd.
    destruct (get st0 r) as [n|] eqn:En; [|discriminate].
    destruct (cnodes st0 r) as [own|]; [|discriminate].
    destruct (all_some (map (contrib (expected d)) (n_allof n))) as [inh|] eqn:Ei; [|discriminate].
    injection Hd as <-. exists n, own, inh. repeat split; auto.
    apply all_some_map_some in Ei. eapply Forall2_impl_In; [|exact Ei].
    intros b c Hinb Hc. unfold contrib in Hc.
    destruct (lookup types b) as [[rb|]|] eqn:El; try discriminate.
    destruct (get st0 rb) as [nb|] eqn:Eg; try discriminate.
    destruct (tok_eqb (n_tok nb) TObject) eqn:Et; try discriminate.
    destruct (expected d rb) as [lb|] eqn:Eb; [|discriminate].
    injection Hc as <-. exists rb, nb, lb. repeat split; auto.
    - apply (base_is_root r n b rb); auto.
    - apply tok_eqb_eq. exact Et.
    - exists d. exact Eb.
  Qed.

  Hypothesis ok0 : heap_ok st0.
  Hypothesis roots_np : forall r, isroot r -> ~ priv r.
  Hypothesis names_ne : forall b r, tyroot b r -> b <> [].
  Hypothesis roots0 : forall r, isroot r ->
    exists n own, get st0 r = Some n /\ cnodes st0 r = Some own /\
                  Forall (pnode H st0) own /\ Forall (fun c => n_inh c = []) own /\
                  (n_tok n = TObject -> Forall keyed own) /\ (n_allof n <> [] -> n_tok n = TObject).
  Hypothesis rank_ok : forall r n b rb,
    isroot r -> get st0 r = Some n -> In b (n_allof n) -> tyroot b rb -> rrank rb < rrank r.
  Hypothesis nodup_ok : forall r n L, isroot r -> get st0 r = Some n -> n_allof n <> [] -> Ex r L -> NoDup (map n_key L).

  Lemma tyroot_isroot b r : tyroot b r -> isroot r.
  Proof. intros Hb. exact (proj2 Hb). Qed.

  Lemma tyroot_fun b r r' : tyroot b r -> tyroot b r' -> r = r'.
  Proof. intros [H1 _] [H2 _]. congruence. Qed.

  Lemma pnode_set_inh h st b n : pnode h st n -> pnode h st (set_inh b n).
  Proof. intros [Ha Hc]. split; auto. Qed.

  Lemma Ex_nodes : forall d r L, isroot r -> expected d r = Some L ->
    Forall (pnode H st0) L /\
    (forall n, get st0 r = Some n -> n_tok n = TObject -> Forall keyed L).
  Proof.
    induction d as [|d IH]; intros r L Hr He; [discriminate|].
    destruct (Ex_unfold r L Hr (ex_intro _ (S d) He)) as (n & own & cs & Hn & Hown & Hcs & ->).
    destruct (roots0 r Hr) as (n' & own' & Hn' & Hown' & Hp & Hi & Hk & Hao).
    rewrite Hn in Hn'. injection Hn' as <-. rewrite Hown in Hown'. injection Hown' as <-.
    simpl in He. rewrite Hn, Hown in He.
    destruct (all_some (map (contrib (expected d)) (n_allof n))) as [inh|] eqn:Ei; [|discriminate].
    assert (Hinh : Forall (fun c => Forall (pnode H st0) c /\ Forall keyed c) inh).
    { apply all_some_map_some in Ei. eapply Forall2_Forall_r; [exact Ei|].
      intros b c Hinb Hbc. unfold contrib in Hbc.
      destruct (lookup types b) as [[rb|]|] eqn:El; try discriminate.
      destruct (get st0 rb) as [nb|] eqn:Eg; try discriminate.
      destruct (tok_eqb (n_tok nb) TObject) eqn:Et; try discriminate.
      destruct (expected d rb) as [lb|] eqn:Eb; [|discriminate].
      injection Hbc as <-.
      destruct (IH rb lb (base_is_root r n b rb Hr Hn Hinb El) Eb) as [Hp1 Hk1].
      split.
      - apply Forall_forall. intros x Hx. apply in_map_iff in Hx. destruct Hx as (y & <- & Hy).
        apply pnode_set_inh. rewrite Forall_forall in Hp1. auto.
      - apply Forall_forall. intros x Hx. apply in_map_iff in Hx. destruct Hx as (y & <- & Hy).
        specialize (Hk1 nb Eg (proj1 (tok_eqb_eq _ _) Et)). rewrite Forall_forall in Hk1.
        destruct (Hk1 y Hy) as (k & Hk'). exists k. exact Hk'. }
    injection He as He.
    assert (Hcat : Forall (pnode H st0) (List.concat inh) /\ Forall keyed (List.concat inh)).
    { split; apply Forall_concat; eapply Forall_impl; try exact Hinh; intros c [? ?]; auto. }
    destruct Hcat as [Hc1 Hc2]. split.
    - rewrite <- He. apply Forall_app; auto.
    - intros n2 Hn2 Ht. rewrite Hn in Hn2. injection Hn2 as <-. rewrite <- He. apply Forall_app; auto.
  Qed.

  (* ---- status of a root in a later state ---- *)

  Definition raw (st : state) (r : id) : Prop := cnodes st r = cnodes st0 r.
  Definition done (st : state) (r : id) : Prop := exists L, Ex r L /\ cnodes st r = Some L.

  Record Inv (rho : nat) (st : state) : Prop := {
    inv_ext : ext st0 st;
    inv_ok : heap_ok st;
    inv_roots : forall r, isroot r -> rrank r < rho -> raw st r \/ done st r;
    inv_memo : forall b rb, In b (memo st) -> tyroot b rb -> rrank rb < rho -> done st rb
  }.

  (* what a (sub)run that mutates the root r of rank rho, and roots below, does to the rest *)
  Record effect (rho : nat) (r : id) (st st' : state) : Prop := {
    eff_ext : ext st st';
    eff_done : forall r', isroot r' -> r' <> r -> done st r' -> done st' r';
    eff_frame : forall r', isroot r' -> r' <> r -> rho <= rrank r' -> cnodes st' r' = cnodes st r';
    eff_memo : forall x rx, In x (memo st') -> tyroot x rx -> In x (memo st) \/ rrank rx < rho
  }.

  Lemma effect_refl rho r st : effect rho r st st.
  Proof. split; auto using ext_refl. Qed.

  Lemma effect_trans rho r a b c : effect rho r a b -> effect rho r b c -> effect rho r a c.
  Proof.
    intros [E1 D1 F1 M1] [E2 D2 F2 M2]. split.
    - eapply ext_trans; eauto.
    - auto.
    - intros r' Hr Hne Hle. rewrite F2, F1; auto.
    - intros x rx Hx Hrx. destruct (M2 x rx Hx Hrx) as [Hm|]; auto.
  Qed.

  (* the effect of processing a base rb (rank rho' < rho) from add_memo b st, seen from r *)
  Lemma effect_lift rho rho' r rb b st st1 :
    rho' < rho -> rrank rb = rho' -> rrank r = rho -> tyroot b rb ->
    effect rho' rb (add_memo b st) st1 -> done st1 rb -> effect rho r st st1.
  Proof.
    intros Hlt Hrb Hr Hb [E D F M] Hd. split.
    - destruct E as [P A]. split; [exact P|exact A].
    - intros r' Hr' Hne Hd'. destruct (Nat.eq_dec r' rb) as [->|Hn]; auto.
    - intros r' Hr' Hne Hle. change (cnodes st r') with (cnodes (add_memo b st) r').
      apply F; auto; [|lia]. intros ->. lia.
    - intros x rx Hx Hrx. destruct (M x rx Hx Hrx) as [[<-|Hm]|Hm]; auto.
      + right. rewrite (tyroot_fun _ _ _ Hrx Hb). lia.
      + right. lia.
  Qed.

  Lemma root_get st r : ext st0 st -> isroot r ->
    exists n0 n, get st0 r = Some n0 /\ get st r = Some n /\ same_but_children n n0.
  Proof.
    intros E Hr. destruct (roots0 r Hr) as (n0 & own & Hn0 & _).
    destruct (ext_any _ _ E r n0 Hn0) as (n & Hn & ? & ? & ? & ?).
    exists n0, n. repeat split; auto.
  Qed.

  Lemma status_nodes st r : isroot r -> raw st r \/ done st r ->
    exists L, cnodes st r = Some L /\ Forall (pnode H st0) L /\
              (forall n0, get st0 r = Some n0 -> n_tok n0 = TObject -> Forall keyed L).
  Proof.
    intros Hr [Hraw|(L & [d Hd] & HL)].
    - destruct (roots0 r Hr) as (n0 & own & Hn0 & Hown & Hp & _ & Hk & _).
      exists own. unfold raw in Hraw. rewrite Hraw. repeat split; auto.
      intros n1 Hn1 Ht. rewrite Hn0 in Hn1. injection Hn1 as <-. auto.
    - exists L. destruct (Ex_nodes d r L Hr Hd) as [Hp Hk]. repeat split; auto.
  Qed.

  Lemma children_plain st r n L :
    ext st0 st -> get st r = Some n -> cnodes st r = Some L -> Forall (pnode H st0) L ->
    Forall (plainh (S H) st) (n_children n).
  Proof.
    intros E Hg Hc Hp. unfold cnodes in Hc. rewrite Hg in Hc. apply all_some_map_some in Hc.
    revert Hp. induction Hc as [|c cn cs L' Hcn _ IH]; intros Hp; constructor.
    - inversion Hp; subst. exists cn. destruct (pnode_ext H st0 st cn E) as [Ha Hch]; auto.
    - apply IH. inversion Hp; auto.
  Qed.

  Lemma ext_of_frame r st st' scn scn' :
    frame r st st' -> get st r = Some scn -> n_allof scn <> [] ->
    get st' r = Some scn' -> same_but_children scn' scn -> ext st st'.
  Proof.
    intros Hf Hg Hao Hg' (Hk & Ht & Ha & Hi). split.
    - intros i n Hi' Hna. apply Hf; auto. intros ->. rewrite Hg in Hi'. injection Hi' as <-. contradiction.
    - intros i n Hi'. destruct (Nat.eq_dec i r) as [->|Hne].
      + rewrite Hg in Hi'. injection Hi' as <-. exists scn'. repeat split; auto.
      + exists n. repeat split; auto.
  Qed.

  Lemma done_frame r scn st st' r' :
    heap_ok st -> ext st0 st -> get st r = Some scn -> n_allof scn <> [] -> frame r st st' ->
    isroot r' -> r' <> r -> done st r' -> done st' r'.
  Proof.
    intros Hok E Hg Hao Hf Hr' Hne (L & HE & HL).
    destruct (root_get st r' E Hr') as (n0 & n & _ & Hn & _).
    exists L. split; auto. rewrite (cnodes_frame r scn st st' r' n); auto.
  Qed.

  Section Step.
    Variable u : nat.
    Variable rho : nat.
    Hypothesis IHrho : forall rho', rho' < rho -> forall r L fuel st,
      isroot r -> rrank r = rho' -> Ex r L -> rho' + H + 2 <= fuel -> Inv rho' st ->
      (raw st r \/ done st r) ->
      exists st', process types u fuel st r = ROk st' /\ Inv rho' st' /\ effect rho' r st st' /\ done st' r.

    Lemma inherit_one r scn Cs Cs' b rb nb Lb f st :
      isroot r -> rrank r = rho -> Inv rho st ->
      get st r = Some scn -> n_allof scn <> [] -> cnodes st r = Some Cs -> Forall keyed Cs ->
      tyroot b rb -> get st0 rb = Some nb -> n_tok nb = TObject -> Ex rb Lb -> rrank rb < rho ->
      rho + H + 1 <= f ->
      (forall st1 rbn1 scn1, loop_pre r rb st1 rbn1 Lb scn1 Cs ->
         exists st2 scn2, inherit_loop u b r rb (List.length Lb) st1 = ROk st2 /\
                          loop_pre r rb st2 rbn1 Lb scn2 Cs' /\ same_but_children scn2 scn1 /\
                          frame r st1 st2 /\ memo st2 = memo st1) ->
      exists st' scn', inherit types u (process types u f) r st b = ROk st' /\ Inv rho st' /\
                       effect rho r st st' /\ get st' r = Some scn' /\ same_but_children scn' scn /\
                       cnodes st' r = Some Cs' /\ Forall keyed Cs'.
    Proof.
      intros Hr Hrank HI Hg Hao HCs HCk Hb Hnb Htb HLb Hlt Hf Hloop.
      assert (Hne : r <> rb) by (intros ->; lia).
      assert (Hrb : isroot rb) by (apply (tyroot_isroot b rb Hb)).
      (* phase 1: the base is processed (or was) *)
      assert (P1 : exists st1, (if mem b (memo st) then ROk st else process types u f (add_memo b st) rb) = ROk st1 /\
                               Inv rho st1 /\ effect rho r st st1 /\ cnodes st1 rb = Some Lb /\
                               cnodes st1 r = cnodes st r).
      { destruct (mem b (memo st)) eqn:Em.
        - exists st. split; [reflexivity|]. split; [exact HI|]. split; [apply effect_refl|]. split; [|reflexivity].
          apply mem_In in Em. destruct (inv_memo _ _ HI b rb Em Hb Hlt) as (L' & HE' & HL').
          rewrite (Ex_fun rb Lb L' HLb HE'). exact HL'.
        - assert (HI' : Inv (rrank rb) (add_memo b st)).
          { destruct HI as [E Ok R M]. split.
            - destruct E as [P A]. split; [exact P|exact A].
            - exact Ok.
            - intros r' Hr' Hlt'. apply R; auto. lia.
            - intros b' rb' [<-|Hin] Hb' Hlt'.
              + rewrite (tyroot_fun _ _ _ Hb' Hb) in Hlt'. lia.
              + apply (M b' rb'); auto. lia. }
          assert (Hst : raw (add_memo b st) rb \/ done (add_memo b st) rb).
          { apply (inv_roots _ _ HI rb Hrb Hlt). }
          destruct (IHrho (rrank rb) Hlt rb Lb f (add_memo b st) Hrb eq_refl HLb ltac:(lia) HI' Hst)
            as (st1 & Hrun & HI1 & Heff & Hd1).
          exists st1. split; [exact Hrun|].
          assert (Heff' : effect rho r st st1) by (eapply effect_lift; eauto).
          assert (HLb1 : cnodes st1 rb = Some Lb).
          { destruct Hd1 as (L' & HE' & HL'). rewrite (Ex_fun rb Lb L' HLb HE'). exact HL'. }
          assert (Hfr : cnodes st1 r = cnodes st r).
          { apply (eff_frame _ _ _ _ Heff r Hr Hne). lia. }
          split; [|split; [exact Heff'|split; [exact HLb1|exact Hfr]]].
          split.
          + eapply ext_trans; [exact (inv_ext _ _ HI)|exact (eff_ext _ _ _ _ Heff')].
          + exact (inv_ok _ _ HI1).
          + intros r' Hr' Hlt'. destruct (Nat.lt_ge_cases (rrank r') (rrank rb)) as [Hl|Hge].
            * apply (inv_roots _ _ HI1); auto.
            * destruct (Nat.eq_dec r' rb) as [->|Hn]; [right; exact Hd1|].
              assert (Hc : cnodes st1 r' = cnodes st r').
              { change (cnodes st r') with (cnodes (add_memo b st) r'). apply (eff_frame _ _ _ _ Heff); auto. }
              destruct (inv_roots _ _ HI r' Hr' Hlt') as [Hraw|(L' & HE' & HL')].
              -- left. unfold raw in *. congruence.
              -- right. exists L'. split; auto. congruence.
          + intros b' rb' Hin Hb' Hlt'.
            destruct (eff_memo _ _ _ _ Heff b' rb' Hin Hb') as [[<-|Hm]|Hm].
            * rewrite (tyroot_fun _ _ _ Hb' Hb). exact Hd1.
            * apply (eff_done _ _ _ _ Heff'); [apply (tyroot_isroot b' rb' Hb')|intros ->; lia|].
              apply (inv_memo _ _ HI b' rb'); auto.
            * apply (inv_memo _ _ HI1 b' rb'); auto. }
      destruct P1 as (st1 & Hrun1 & HI1 & Heff1 & HLb1 & Hfr1).
      (* phase 2: the copy loop *)
      destruct (root_get st1 rb (inv_ext _ _ HI1) Hrb) as (nb0 & rbn1 & Hnb0 & Hrbn1 & (_ & Htok1 & _)).
      rewrite Hnb in Hnb0. injection Hnb0 as <-.
      destruct (ext_any _ _ (eff_ext _ _ _ _ Heff1) r scn Hg) as (scn1 & Hg1 & Hk1 & Ht1 & Ha1 & Hi1).
      assert (Hlp : loop_pre r rb st1 rbn1 Lb scn1 Cs).
      { constructor.
        - exact (inv_ok _ _ HI1).
        - exact (roots_np r Hr).
        - exact (roots_np rb Hrb).
        - exact Hrbn1.
        - exact HLb1.
        - destruct HLb as [d Hd]. destruct (Ex_nodes d rb Lb Hrb Hd) as [_ Hk]. apply (Hk nb); auto.
        - exact Hg1.
        - congruence.
        - rewrite Hfr1. exact HCs.
        - exact HCk. }
      destruct (Hloop st1 rbn1 scn1 Hlp) as (st2 & scn2 & Hrun2 & Hlp2 & Hsame2 & Hfr2 & Hm2).
      exists st2, scn2.
      assert (Hlen : List.length (n_children rbn1) = List.length Lb).
      { unfold cnodes in HLb1. rewrite Hrbn1 in HLb1. symmetry. eapply all_some_length; eauto. }
      assert (Hext12 : ext st1 st2).
      { apply (ext_of_frame r st1 st2 scn1 scn2); auto. congruence. exact (lp_sc _ _ _ _ _ _ _ Hlp2). }
      assert (Heff12 : effect rho r st1 st2).
      { split.
        - exact Hext12.
        - intros r' Hr' Hne' Hd'. apply (done_frame r scn1 st1 st2 r'); auto.
          exact (inv_ok _ _ HI1). exact (inv_ext _ _ HI1). congruence.
        - intros r' Hr' Hne' _.
          destruct (root_get st1 r' (inv_ext _ _ HI1) Hr') as (? & n' & _ & Hn' & _).
          apply (cnodes_frame r scn1 st1 st2 r' n'); auto. exact (inv_ok _ _ HI1). congruence.
        - intros x rx Hx _. left. rewrite <- Hm2. exact Hx. }
      split.
      { unfold inherit. rewrite (proj1 Hb).
        destruct (ext_any _ _ (inv_ext _ _ HI) rb nb Hnb) as (rbn & Hrbn & _ & Htk & _).
        rewrite Hrbn. rewrite Htk, Htb. simpl. rewrite Hrun1. simpl. rewrite Hrbn1, Hlen. exact Hrun2. }
      split.
      { split.
        - eapply ext_trans; [exact (inv_ext _ _ HI1)|exact Hext12].
        - exact (lp_ok _ _ _ _ _ _ _ Hlp2).
        - intros r' Hr' Hlt'.
          assert (Hne' : r' <> r) by (intros ->; lia).
          destruct (root_get st1 r' (inv_ext _ _ HI1) Hr') as (? & n' & _ & Hn' & _).
          assert (Hc : cnodes st2 r' = cnodes st1 r').
          { apply (cnodes_frame r scn1 st1 st2 r' n'); auto. exact (inv_ok _ _ HI1). congruence. }
          destruct (inv_roots _ _ HI1 r' Hr' Hlt') as [Hraw|(L' & HE' & HL')].
          + left. unfold raw in *. congruence.
          + right. exists L'. split; auto. congruence.
        - intros b' rb' Hin Hb' Hlt'. rewrite Hm2 in Hin.
          apply (eff_done _ _ _ _ Heff12); [apply (tyroot_isroot b' rb' Hb')|intros ->; lia|].
          apply (inv_memo _ _ HI1 b' rb'); auto. }
      split; [eapply effect_trans; eauto|].
      split; [exact (lp_sc _ _ _ _ _ _ _ Hlp2)|].
      split.
      { destruct Hsame2 as (? & ? & ? & ?). repeat split; congruence. }
      split; [exact (lp_S _ _ _ _ _ _ _ Hlp2)|exact (lp_Sk _ _ _ _ _ _ _ Hlp2)].
    Qed.

    Lemma fold_fresh r f : forall bs cs, Forall2 base_contrib bs cs -> forall st scn Cs,
      isroot r -> rrank r = rho -> Inv rho st -> get st r = Some scn -> n_allof scn <> [] ->
      cnodes st r = Some Cs -> Forall keyed Cs ->
      (forall b rb, In b bs -> tyroot b rb -> rrank rb < rho) ->
      NoDup (map n_key (List.concat (rev cs) ++ Cs)) ->
      rho + H + 1 <= f ->
      exists st' scn', fold_res (inherit types u (process types u f) r) bs st = ROk st' /\ Inv rho st' /\
                       effect rho r st st' /\ get st' r = Some scn' /\ same_but_children scn' scn /\
                       cnodes st' r = Some (List.concat (rev cs) ++ Cs).
    Proof.
      induction 1 as [|b c bs cs Hbc Hrest IH]; intros st scn Cs Hr Hrank HI Hg Hao HCs HCk Hranks Hnd Hf.
      - exists st, scn. simpl. split; [reflexivity|]. split; [exact HI|]. split; [apply effect_refl|].
        split; [exact Hg|]. split; [repeat split|exact HCs].
      - destruct Hbc as (rb & nb & Lb & Hb & Hnb & Htb & HLb & ->).
        assert (Hlist : List.concat (rev (map (set_inh b) Lb :: cs)) ++ Cs =
                        List.concat (rev cs) ++ (map (set_inh b) Lb ++ Cs)).
        { simpl. rewrite concat_app. simpl. rewrite app_nil_r, <- app_assoc. reflexivity. }
        rewrite Hlist in Hnd |- *.
        assert (Hnd2 : NoDup (map n_key (map (set_inh b) Lb ++ Cs))).
        { rewrite map_app in Hnd. apply NoDup_app_disj in Hnd. tauto. }
        rewrite map_app, map_key_set_inh in Hnd2. destruct (NoDup_app_disj _ _ Hnd2) as (HndL & _ & Hdis).
        assert (Hlt : rrank rb < rho) by (apply (Hranks b rb); simpl; auto).
        destruct (inherit_one r scn Cs (map (set_inh b) Lb ++ Cs) b rb nb Lb f st) as
            (st1 & scn1 & Hrun1 & HI1 & Heff1 & Hg1 & Hsame1 & HCs1 & HCk1); auto.
        { intros st1 rbn1 scn1 Hlp.
          assert (Hne : r <> rb) by (intros ->; lia).
          destruct (loop_fresh u b r rb Hne (List.length Lb) st1 rbn1 Lb scn1 Cs Hlp) as
              (st2 & scn2 & Hrun & Hlp2 & Hs & Hfr & Hm); auto.
          - rewrite firstn_all. exact HndL.
          - rewrite firstn_all. intros v s0 Hv Hs0 Heq. apply (Hdis (n_key v)).
            + apply in_map. exact Hv.
            + rewrite Heq. apply in_map. exact Hs0.
          - exists st2, scn2. rewrite firstn_all in Hlp2. auto. }
        destruct (IH st1 scn1 (map (set_inh b) Lb ++ Cs)) as (st2 & scn2 & Hrun2 & HI2 & Heff2 & Hg2 & Hsame2 & HCs2); auto.
        { destruct Hsame1 as (? & ? & ? & ?). congruence. }
        { intros b' rb' Hin Hb'. apply (Hranks b' rb'); simpl; auto. }
        exists st2, scn2. split; [simpl; rewrite Hrun1; simpl; exact Hrun2|].
        split; [exact HI2|]. split; [eapply effect_trans; eauto|]. split; [exact Hg2|].
        split; [|exact HCs2].
        destruct Hsame1 as (? & ? & ? & ?), Hsame2 as (? & ? & ? & ?). repeat split; congruence.
    Qed.

    Lemma fold_present r f L : forall bs cs, Forall2 base_contrib bs cs -> forall st scn,
      isroot r -> rrank r = rho -> Inv rho st -> get st r = Some scn -> n_allof scn <> [] ->
      cnodes st r = Some L -> Forall keyed L -> NoDup (map n_key L) ->
      (forall b rb, In b bs -> tyroot b rb -> rrank rb < rho) ->
      (forall c x, In c cs -> In x c -> In x L) ->
      rho + H + 1 <= f ->
      exists st' scn', fold_res (inherit types u (process types u f) r) bs st = ROk st' /\ Inv rho st' /\
                       effect rho r st st' /\ get st' r = Some scn' /\ same_but_children scn' scn /\
                       cnodes st' r = Some L.
    Proof.
      induction 1 as [|b c bs cs Hbc Hrest IH]; intros st scn Hr Hrank HI Hg Hao HL HLk Hnd Hranks Hsub Hf.
      - exists st, scn. simpl. split; [reflexivity|]. split; [exact HI|]. split; [apply effect_refl|].
        split; [exact Hg|]. split; [repeat split|exact HL].
      - destruct Hbc as (rb & nb & Lb & Hb & Hnb & Htb & HLb & ->).
        assert (Hlt : rrank rb < rho) by (apply (Hranks b rb); simpl; auto).
        destruct (inherit_one r scn L L b rb nb Lb f st) as
            (st1 & scn1 & Hrun1 & HI1 & Heff1 & Hg1 & Hsame1 & HL1 & HLk1); auto.
        { intros st1 rbn1 scn1 Hlp.
          assert (Hne : r <> rb) by (intros ->; lia).
          exists st1, scn1. split; [|split; [exact Hlp|split; [repeat split|split; [apply frame_refl|reflexivity]]]].
          apply (loop_present u b r rb Hne (List.length Lb) st1 rbn1 Lb scn1 L Hlp); auto.
          rewrite firstn_all. intros v k Hv Hk.
          exists (set_inh b v). split.
          - apply first_with_key_nodup; auto.
            apply (Hsub (map (set_inh b) Lb)); simpl; auto. apply in_map. exact Hv.
          - simpl. apply (names_ne b rb Hb). }
        destruct (IH st1 scn1) as (st2 & scn2 & Hrun2 & HI2 & Heff2 & Hg2 & Hsame2 & HL2); auto.
        { destruct Hsame1 as (? & ? & ? & ?). congruence. }
        { intros b' rb' Hin Hb'. apply (Hranks b' rb'); simpl; auto. }
        { intros c x Hc Hx. apply (Hsub c x); simpl; auto. }
        exists st2, scn2. split; [simpl; rewrite Hrun1; simpl; exact Hrun2|].
        split; [exact HI2|]. split; [eapply effect_trans; eauto|]. split; [exact Hg2|].
        split; [|exact HL2].
        destruct Hsame1 as (? & ? & ? & ?), Hsame2 as (? & ? & ? & ?). repeat split; congruence.
    Qed.

    (* processSchemaContentJSightAllOf on a root of rank rho *)
    Lemma process_root_step r L fuel st :
      isroot r -> rrank r = rho -> Ex r L -> rho + H + 2 <= fuel -> Inv rho st ->
      (raw st r \/ done st r) ->
      exists st', process types u fuel st r = ROk st' /\ Inv rho st' /\ effect rho r st st' /\ done st' r.
    Proof.
      intros Hr Hrank HE Hfuel HI Hst.
      destruct fuel as [|f]; [lia|].
      destruct (root_get st r (inv_ext _ _ HI) Hr) as (n0 & scn & Hn0 & Hg & (Hk & Ht & Ha & Hi)).
      destruct (roots0 r Hr) as (n0' & own & Hn0' & Hown & Hpo & Hio & Hko & Hobj).
      rewrite Hn0 in Hn0'. injection Hn0' as <-.
      destruct (Ex_unfold r L Hr HE) as (n0' & own' & cs & Hn0' & Hown' & Hcs & HLeq).
      rewrite Hn0 in Hn0'. injection Hn0' as <-. rewrite Hown in Hown'. injection Hown' as <-.
      destruct (status_nodes st r Hr Hst) as (Lc & HLc & HLp & HLk).
      (* the trivial cases: nothing to inherit *)
      assert (Htriv : n_allof n0 = [] -> done st r).
      { intros Hnil. rewrite Hnil in Hcs. inversion Hcs; subst cs. simpl in HLeq. subst L.
        destruct Hst as [Hraw|Hd]; auto. exists own. split; auto. unfold raw in Hraw. congruence. }
      simpl. rewrite Hg.
      assert (Hfold : fold_res (fun st1 c => process types u f st1 c) (n_children scn) st = ROk st).
      { apply (fold_process_plain types u (S H) st (n_children scn) f); [|lia].
        apply (children_plain st r scn Lc); auto. exact (inv_ext _ _ HI). }
      destruct (tok_eqb (n_tok scn) TObject) eqn:Etok; simpl.
      2:{ assert (Hd : done st r).
          { apply Htriv. destruct (n_allof n0) eqn:E; auto. exfalso.
            assert (n_tok n0 = TObject) by (apply Hobj; congruence).
            rewrite Ht in Etok. rewrite H0 in Etok. discriminate. }
          exists st. split; [|split; [exact HI|split; [apply effect_refl|exact Hd]]].
          destruct (negb (tok_eqb (n_tok scn) TArray)); simpl; [reflexivity|]. rewrite Hfold. reflexivity. }
      apply tok_eqb_eq in Etok.
      rewrite Hfold.
      simpl. rewrite Ha.
      destruct (n_allof n0) as [|b0 bs0] eqn:Enames.
      { exists st. split; [reflexivity|]. split; [exact HI|]. split; [apply effect_refl|]. auto. }
      change (rev bs0 ++ [b0]) with (rev (b0 :: bs0)). rewrite <- Enames in Hcs, Ha, Hobj |- *.
      assert (Hcsr : Forall2 base_contrib (rev (n_allof n0)) (rev cs)) by (apply Forall2_rev'; exact Hcs).
      assert (Hranks : forall b rb, In b (rev (n_allof n0)) -> tyroot b rb -> rrank rb < rho).
      { intros b rb Hin Hb. rewrite <- Hrank. apply (rank_ok r n0 b rb); auto. apply in_rev. exact Hin. }
      assert (Hao : n_allof scn <> []) by (rewrite Ha, Enames; discriminate).
      assert (Hkeyed : Forall keyed Lc) by (apply (HLk n0); congruence).
      assert (HndL : NoDup (map n_key L)) by (apply (nodup_ok r n0 L); auto; congruence).
      destruct Hst as [Hraw|(L' & HE' & HL')].
      - (* first visit *)
        unfold raw in Hraw. rewrite Hown in Hraw. rewrite Hraw in HLc. injection HLc as <-.
        destruct (fold_fresh r f (rev (n_allof n0)) (rev cs) Hcsr st scn own) as
            (st' & scn' & Hrun & HI' & Heff & Hg' & Hsame & HC'); auto.
        { rewrite rev_involutive, <- HLeq. exact HndL. }
        { lia. }
        exists st'. split; [exact Hrun|]. split; [exact HI'|]. split; [exact Heff|].
        exists L. split; auto. rewrite HC', rev_involutive, HLeq. reflexivity.
      - (* visited before: every property is found as an inherited one *)
        rewrite (Ex_fun r L' L HE' HE) in HL'. rewrite HL' in HLc. injection HLc as <-.
        destruct (fold_present r f L (rev (n_allof n0)) (rev cs) Hcsr st scn) as
            (st' & scn' & Hrun & HI' & Heff & Hg' & Hsame & HC'); auto.
        { intros c x Hc Hx. rewrite HLeq. apply in_or_app. left. apply in_concat. exists c. split; auto.
          apply in_rev. exact Hc. }
        { lia. }
        exists st'. split; [exact Hrun|]. split; [exact HI'|]. split; [exact Heff|].
        exists L. split; auto.
    Qed.
  End Step.

  Theorem process_root u : forall rho r L fuel st,
    isroot r -> rrank r = rho -> Ex r L -> rho + H + 2 <= fuel -> Inv rho st ->
    (raw st r \/ done st r) ->
    exists st', process types u fuel st r = ROk st' /\ Inv rho st' /\ effect rho r st st' /\ done st' r.
  Proof.
    intros rho. induction rho as [rho IH] using lt_wf_ind. intros r L fuel st.
    apply (process_root_step u rho IH).
  Qed.

  (* ---- a whole run ---- *)

  Record Top (st : state) : Prop := {
    top_ext : ext st0 st;
    top_ok : heap_ok st;
    top_roots : forall r, isroot r -> raw st r \/ done st r;
    top_memo : forall b rb, In b (memo st) -> tyroot b rb -> done st rb
  }.

  Lemma Top_Inv rho st : Top st -> Inv rho st.
  Proof. intros [E O R M]. split; auto. intros; eapply M; eauto. Qed.

  Lemma Top_st0 : memo st0 = [] -> Top st0.
  Proof.
    intros Hm. split.
    - apply ext_refl.
    - exact ok0.
    - intros r _. left. reflexivity.
    - intros b rb Hin. rewrite Hm in Hin. destruct Hin.
  Qed.

  Lemma process_top u r L fuel st :
    isroot r -> Ex r L -> rrank r + H + 2 <= fuel -> Top st ->
    exists st', process types u fuel st r = ROk st' /\ Top st' /\ done st' r /\
                (forall r', isroot r' -> done st r' -> done st' r').
  Proof.
    intros Hr HE Hf HT.
    destruct (process_root u (rrank r) r L fuel st Hr eq_refl HE Hf (Top_Inv _ _ HT) (top_roots _ HT r Hr))
      as (st' & Hrun & HI & Heff & Hd).
    assert (Hmono : forall r', isroot r' -> done st r' -> done st' r').
    { intros r' Hr' Hd'. destruct (Nat.eq_dec r' r) as [->|Hne]; auto. apply (eff_done _ _ _ _ Heff); auto. }
    exists st'. split; [exact Hrun|]. split; [|split; [exact Hd|exact Hmono]].
    split.
    - exact (inv_ext _ _ HI).
    - exact (inv_ok _ _ HI).
    - intros r' Hr'. destruct (Nat.eq_dec r' r) as [->|Hne]; [right; exact Hd|].
      destruct (Nat.lt_ge_cases (rrank r') (rrank r)) as [Hlt|Hge].
      + apply (inv_roots _ _ HI); auto.
      + assert (Hc : cnodes st' r' = cnodes st r') by (apply (eff_frame _ _ _ _ Heff); auto).
        destruct (top_roots _ HT r' Hr') as [Hraw|(L' & HE' & HL')].
        * left. unfold raw in *. congruence.
        * right. exists L'. split; auto. congruence.
    - intros b rb Hin Hb. destruct (eff_memo _ _ _ _ Heff b rb Hin Hb) as [Hm|Hlt].
      + apply Hmono; [apply (tyroot_isroot b rb Hb)|]. apply (top_memo _ HT b rb); auto.
      + apply (inv_memo _ _ HI b rb); auto.
  Qed.

  Lemma In_number_from {A} (l : list A) n x : In x (number_from n l) -> In (snd x) l.
  Proof.
    revert n; induction l as [|a l IH]; simpl; intros n Hx; [destruct Hx|].
    destruct Hx as [<-|Hx]; simpl; auto. right. eapply IH; eauto.
  Qed.

  Lemma In_number_from' {A} (l : list A) n a : In a l -> exists i, In (i, a) (number_from n l).
  Proof.
    revert n; induction l as [|b l IH]; simpl; intros n Ha; [destruct Ha|].
    destruct Ha as [<-|Ha]; [exists n; auto|]. destruct (IH (S n) Ha) as (i & Hi). exists i. auto.
  Qed.

  (* ---- skeletons: a schema is walked down through its INNER nodes (objects and arrays without
     rule, never mutated) to roots (objects with plain children: mutated) and plain subtrees ---- *)

  Hypothesis all_ex : forall r, isroot r -> exists L, Ex r L.
  Variable M : nat.
  Hypothesis M_ok : forall r, isroot r -> rrank r + H + 2 <= M.
  Hypothesis M_plain : S H <= M.

  Fixpoint skel (h : nat) (i : id) : Prop :=
    match h with
    | O => False
    | S h' => isroot i \/ plainh (S H) st0 i \/
              (priv i /\ exists n, get st0 i = Some n /\ n_allof n = [] /\
                                   (n_tok n = TObject \/ n_tok n = TArray) /\ Forall (skel h') (n_children n))
    end.

  Fixpoint skeldone (h : nat) (st : state) (i : id) : Prop :=
    match h with
    | O => False
    | S h' => (isroot i /\ done st i) \/ plainh (S H) st0 i \/
              (priv i /\ exists n, get st0 i = Some n /\ n_allof n = [] /\ Forall (skeldone h' st) (n_children n))
    end.

  Lemma skel_S h : forall i, skel h i -> skel (S h) i.
  Proof.
    induction h as [|h IH]; intros i Hs; [destruct Hs|].
    destruct Hs as [Hr|[Hp|(Hp & n & Hn & Ha & Ht & Hc)]].
    - left. exact Hr.
    - right. left. exact Hp.
    - right. right. split; auto. exists n. repeat split; auto.
      eapply Forall_impl; [|exact Hc]. intros c Hcc. apply IH. exact Hcc.
  Qed.

  Lemma skel_le h h' i : h <= h' -> skel h i -> skel h' i.
  Proof. induction 1; auto. intros. apply skel_S. auto. Qed.

  Lemma skeldone_mono h : forall st st' i,
    (forall r, isroot r -> done st r -> done st' r) -> skeldone h st i -> skeldone h st' i.
  Proof.
    induction h as [|h IH]; intros st st' i Hm Hs; [destruct Hs|].
    destruct Hs as [[Hr Hd]|[Hp|(Hp & n & Hn & Ha & Hc)]].
    - left. split; auto.
    - right. left. exact Hp.
    - right. right. split; auto. exists n. repeat split; auto.
      eapply Forall_impl; [|exact Hc]. intros c Hcc. eapply IH; eauto.
  Qed.

  Lemma process_skel u h : forall i, skel h i -> forall st fuel, Top st -> M + h <= fuel ->
    exists st', process types u fuel st i = ROk st' /\ Top st' /\
                (forall r', isroot r' -> done st r' -> done st' r') /\ skeldone h st' i.
  Proof.
    induction h as [|h IH]; intros i Hs st fuel HT Hfuel; [destruct Hs|].
    destruct Hs as [Hr|[Hp|(Hp & n & Hn & Ha & Htok & Hc)]].
    - destruct (all_ex i Hr) as (L & HE).
      destruct (process_top u i L fuel st Hr HE) as (st' & Hrun & HT' & Hd & Hm); auto.
      { specialize (M_ok i Hr). lia. }
      exists st'. split; [exact Hrun|]. split; [exact HT'|]. split; [exact Hm|]. cbn [skeldone]. left. split; auto.
    - exists st. split; [|split; [exact HT|split; [auto|cbn [skeldone]; right; left; exact Hp]]].
      apply (process_plain types u (S H)); [|lia]. apply (plainh_ext _ st0); auto. exact (top_ext _ HT).
    - destruct fuel as [|f]; [lia|].
      assert (Hg : get st i = Some n) by (apply (ext_plain _ _ (top_ext _ HT)); auto).
      assert (Hkids : forall cs, Forall (skel h) cs -> forall st1, Top st1 ->
                exists st', fold_res (fun s c => process types u f s c) cs st1 = ROk st' /\ Top st' /\
                            (forall r', isroot r' -> done st1 r' -> done st' r') /\ Forall (skeldone h st') cs).
      { induction 1 as [|c cs Hcs _ IHcs]; intros st1 HT1.
        - exists st1. simpl. split; [reflexivity|]. split; [exact HT1|]. split; auto.
        - destruct (IH c Hcs st1 f HT1) as (st2 & Hrun2 & HT2 & Hm2 & Hd2); [lia|].
          destruct (IHcs st2 HT2) as (st3 & Hrun3 & HT3 & Hm3 & Hd3).
          exists st3. split; [simpl; rewrite Hrun2; simpl; exact Hrun3|]. split; [exact HT3|]. split; [auto|].
          constructor; auto. eapply skeldone_mono; eauto. }
      destruct (Hkids (n_children n) Hc st HT) as (st' & Hrun & HT' & Hm & Hd).
      exists st'. split; [|split; [exact HT'|split; [exact Hm|]]].
      + simpl. rewrite Hg.
        assert (negb (tok_eqb (n_tok n) TObject) && negb (tok_eqb (n_tok n) TArray) = false) as ->.
        { destruct Htok as [->| ->]; reflexivity. }
        rewrite Hrun. simpl. destruct (negb (tok_eqb (n_tok n) TObject)); [reflexivity|]. rewrite Ha. reflexivity.
      + cbn [skeldone]. right. right. split; auto. exists n. repeat split; auto.
  Qed.

  Lemma run_skel_jobs {X} (job : X -> option (nat * id)) (F : state -> X -> res state) fuel h :
    (forall st x, F st x = match job x with Some (u, r) => process types u fuel st r | None => ROk st end) ->
    M + h <= fuel ->
    forall l,
    (forall x u r, In x l -> job x = Some (u, r) -> skel h r) ->
    forall st, Top st ->
    exists st', fold_res F l st = ROk st' /\ Top st' /\
                (forall r', isroot r' -> done st r' -> done st' r') /\
                (forall x u r, In x l -> job x = Some (u, r) -> skeldone h st' r).
  Proof.
    intros HF Hfuel. induction l as [|x l IH]; intros Hall st HT.
    - exists st. simpl. split; [reflexivity|]. split; [exact HT|]. split; [auto|]. intros ? ? ? [].
    - simpl. rewrite HF. destruct (job x) as [[u r]|] eqn:Ej.
      + destruct (process_skel u h r (Hall x u r (or_introl eq_refl) Ej) st fuel HT Hfuel) as (st1 & Hrun & HT1 & Hm1 & Hd1).
        rewrite Hrun. simpl.
        destruct (IH (fun y u' r' Hy => Hall y u' r' (or_intror Hy)) st1 HT1) as (st2 & Hrun2 & HT2 & Hm2 & Hd2).
        exists st2. split; [exact Hrun2|]. split; [exact HT2|]. split.
        * intros r' Hr' Hd'. apply Hm2; auto.
        * intros y u' r' [<-|Hy] Hjy.
          -- rewrite Ej in Hjy. injection Hjy as <- <-. eapply skeldone_mono; eauto.
          -- apply (Hd2 y u' r'); auto.
      + simpl. destruct (IH (fun y u' r' Hy => Hall y u' r' (or_intror Hy)) st HT) as (st2 & Hrun2 & HT2 & Hm2 & Hd2).
        exists st2. split; [exact Hrun2|]. split; [exact HT2|]. split; [exact Hm2|].
        intros y u' r' [<-|Hy] Hjy; [congruence|]. apply (Hd2 y u' r'); auto.
  Qed.

  Theorem process_all_ok fuel h (uses : list (ukind * id)) :
    (forall name r, In (name, Some r) types -> skel h r) ->
    (forall k r, In (k, r) uses -> skel h r) ->
    M + h <= fuel ->
    memo st0 = [] ->
    exists st', process_all fuel types uses st0 = ROk st' /\ Top st' /\
                (forall name r, In (name, Some r) types -> skeldone h st' r) /\
                (forall k r, In (k, r) uses -> skeldone h st' r).
  Proof.
    intros Htypes Huses Hfuel Hm. unfold process_all.
    (* the user types *)
    destruct (run_skel_jobs (fun e : nat * (bytes * option id) =>
                          match snd (snd e) with Some r => Some (fst e, r) | None => None end)
                       (fun st1 (e : nat * (bytes * option id)) =>
                          match snd (snd e) with
                          | None => ROk st1
                          | Some r => process types (fst e) fuel st1 r
                          end) fuel h) with (l := number_from 0 types) (st := st0)
      as (st1 & Hrun1 & HT1 & Hm1 & Hd1); auto.
    { intros st x. destruct (snd (snd x)); reflexivity. }
    { intros x u r Hx Hj. destruct x as [i [name o]]. simpl in Hj. destruct o as [r'|]; [|discriminate].
      injection Hj as <- <-. apply In_number_from in Hx. simpl in Hx. eapply Htypes; eauto. }
    { apply Top_st0. exact Hm. }
    unfold process_types. rewrite Hrun1. cbn [rbind].
    (* the phases *)
    assert (Hph : forall ks st, Top st ->
              exists st', fold_res (process_phase fuel types (number_from (List.length types) uses)) ks st = ROk st' /\
                          Top st' /\ (forall r', isroot r' -> done st r' -> done st' r') /\
                          (forall k r, In k ks -> In (k, r) uses -> skeldone h st' r)).
    { induction ks as [|k ks IH]; intros st HT.
      - exists st. simpl. split; [reflexivity|]. split; [exact HT|]. split; [auto|]. intros ? ? [].
      - simpl. unfold process_phase at 1.
        destruct (run_skel_jobs (fun e : nat * (ukind * id) =>
                              if ukind_eqb (fst (snd e)) k then Some (fst e, snd (snd e)) else None)
                           (fun st1 (e : nat * (ukind * id)) =>
                              if ukind_eqb (fst (snd e)) k then process types (fst e) fuel st1 (snd (snd e)) else ROk st1)
                           fuel h) with (l := number_from (List.length types) uses) (st := st)
          as (st2 & Hrun2 & HT2 & Hm2 & Hd2); auto.
        { intros st' x. destruct (ukind_eqb (fst (snd x)) k); reflexivity. }
        { intros x u r Hx Hj. destruct x as [i [k' r']]. simpl in Hj.
          destruct (ukind_eqb k' k); [|discriminate]. injection Hj as <- <-.
          apply In_number_from in Hx. simpl in Hx. eapply Huses; eauto. }
        rewrite Hrun2. simpl.
        destruct (IH st2 HT2) as (st3 & Hrun3 & HT3 & Hm3 & Hd3).
        exists st3. split; [exact Hrun3|]. split; [exact HT3|]. split.
        + intros r' Hr' Hd'. apply Hm3; auto.
        + intros k' r [Hk|Hk] Hin.
          * subst k'. destruct (In_number_from' uses (List.length types) (k, r) Hin) as (i & Hi).
            apply (skeldone_mono h st2 st3); auto.
            apply (Hd2 (i, (k, r)) i r Hi). simpl.
            assert (ukind_eqb k k = true) as -> by (destruct k; reflexivity). reflexivity.
          * apply (Hd3 k' r); auto. }
    destruct (Hph phases st1 HT1) as (st2 & Hrun2 & HT2 & Hm2 & Hd2).
    rewrite Hrun2. cbn [rbind].
    (* the JSON-RPC pass *)
    unfold process_rpc.
    destruct (run_skel_jobs (fun e : nat * (ukind * id) =>
                          if is_rpc (fst (snd e)) then Some (fst e, snd (snd e)) else None)
                       (fun st1 (e : nat * (ukind * id)) =>
                          if is_rpc (fst (snd e)) then process types (fst e) fuel st1 (snd (snd e)) else ROk st1)
                       fuel h) with (l := number_from (List.length types) uses) (st := st2)
      as (st3 & Hrun3 & HT3 & Hm3 & Hd3); auto.
    { intros st' x. destruct (is_rpc (fst (snd x))); reflexivity. }
    { intros x u r Hx Hj. destruct x as [i [k' r']]. simpl in Hj.
      destruct (is_rpc k'); [|discriminate]. injection Hj as <- <-.
      apply In_number_from in Hx. simpl in Hx. eapply Huses; eauto. }
    exists st3. split; [exact Hrun3|]. split; [exact HT3|]. split.
    - intros name r Hin. destruct (In_number_from' types 0 (name, Some r) Hin) as (i & Hi).
      apply (skeldone_mono h st2 st3); auto. apply (skeldone_mono h st1 st2); auto.
      apply (Hd1 (i, (name, Some r)) i r Hi). reflexivity.
    - intros k r Hin. destruct (is_rpc k) eqn:Erpc.
      + destruct (In_number_from' uses (List.length types) (k, r) Hin) as (i & Hi).
        apply (Hd3 (i, (k, r)) i r Hi). simpl. rewrite Erpc. reflexivity.
      + apply (skeldone_mono h st2 st3); auto. apply (Hd2 k r); auto.
        unfold phases. destruct k; simpl in *; try discriminate; auto 10.
  Qed.
End Roots.
End Priv.


(* ------------------------------------------------------------------------------------- *)
(* the initial heap: what `build_tree` makes of the ASTs *)

Fixpoint tree_ind' (P : tree -> Prop)
         (Hstep : forall tk ao kids, Forall (fun kc => P (snd kc)) kids -> P (Tree tk ao kids))
         (t : tree) : P t :=
  match t with
  | Tree tk ao kids =>
    Hstep tk ao kids
          ((fix go (ks : list (option bytes * tree)) : Forall (fun kc => P (snd kc)) ks :=
              match ks with
              | [] => Forall_nil _
              | kc :: r => Forall_cons kc (tree_ind' P Hstep (snd kc)) (go r)
              end) kids)
  end.

Definition build_kids :=
  fix go (h : list node) (ks : list (option bytes * tree)) : list node * list id :=
    match ks with
    | [] => (h, [])
    | (k, c) :: r =>
      let (h1, i) := build_tree h k c in
      let (h2, is) := go h1 r in
      (h2, i :: is)
    end.

Lemma build_eq h key tk ao kids :
  build_tree h key (Tree tk ao kids) =
  let (h1, ids) := build_kids h kids in
  (h1 ++ [{| n_key := key; n_tok := tk; n_allof := ao; n_children := ids; n_inh := [] |}], List.length h1).
Proof. reflexivity. Qed.

Lemma build_kids_cons h k c r :
  build_kids h ((k, c) :: r) =
  let (h1, i) := build_tree h k c in let (h2, is) := build_kids h1 r in (h2, i :: is).
Proof. reflexivity. Qed.

(* node i of the heap is the root of a faithful, unmarked copy of t *)
Inductive shape (hp : list node) : id -> option bytes -> tree -> Prop :=
| shape_intro i key tk ao kids ids :
    nth_error hp i = Some {| n_key := key; n_tok := tk; n_allof := ao; n_children := ids; n_inh := [] |} ->
    Forall2 (fun c kc => shape hp c (fst kc) (snd kc)) ids kids ->
    shape hp i key (Tree tk ao kids).

Lemma shape_app hp x : forall t i key, shape hp i key t -> shape (hp ++ x) i key t.
Proof.
  induction t as [tk ao kids IH] using tree_ind'. intros i key Hs.
  inversion Hs as [i' key' tk' ao' kids' ids Hn Hk]; subst.
  econstructor.
  - rewrite nth_error_app1; [exact Hn|]. apply nth_error_Some. congruence.
  - clear Hn Hs. induction Hk as [|c kc ids kids Hc _ IHk]; constructor.
    + inversion IH; subst. auto.
    + apply IHk. inversion IH; auto.
Qed.

Lemma build_shape : forall t h key,
  (exists x, fst (build_tree h key t) = h ++ x) /\ shape (fst (build_tree h key t)) (snd (build_tree h key t)) key t.
Proof.
  induction t as [tk ao kids IH] using tree_ind'. intros h key. rewrite build_eq.
  assert (Hk : forall h0, (exists x, fst (build_kids h0 kids) = h0 ++ x) /\
                          Forall2 (fun c kc => shape (fst (build_kids h0 kids)) c (fst kc) (snd kc))
                                  (snd (build_kids h0 kids)) kids).
  { induction IH as [|[k c] r Hc _ IHr]; intros h0.
    - simpl. split; [exists []; rewrite app_nil_r; reflexivity|constructor].
    - rewrite build_kids_cons. simpl in Hc. destruct (Hc h0 k) as ((x1 & Hx1) & Hs1).
      destruct (build_tree h0 k c) as [h1 i]. simpl in Hx1, Hs1.
      destruct (IHr h1) as ((x2 & Hx2) & Hs2).
      destruct (build_kids h1 r) as [h2 is]. simpl in *. subst h1 h2. split.
      + exists (x1 ++ x2). rewrite app_assoc. reflexivity.
      + constructor; auto. apply shape_app. exact Hs1. }
  destruct (Hk h) as ((x & Hx) & Hs). destruct (build_kids h kids) as [h1 ids]. simpl in *. subst h1. split.
  - exists (x ++ [{| n_key := key; n_tok := tk; n_allof := ao; n_children := ids; n_inh := [] |}]).
    rewrite app_assoc. reflexivity.
  - econstructor.
    + rewrite nth_error_app2; [|lia]. rewrite Nat.sub_diag. reflexivity.
    + eapply Forall2_impl'; [|exact Hs]. intros c kc Hc. apply shape_app. exact Hc.
Qed.

(* plain trees *)
Inductive tplain : tree -> Prop :=
| tplain_intro tk kids : Forall (fun kc => tplain (snd kc)) kids -> tplain (Tree tk [] kids).

Lemma tree_plain_tplain : forall f t, tree_plain f t = true -> tplain t.
Proof.
  induction f as [|f IH]; intros t Ht; [discriminate|].
  destruct t as [tk ao kids]. simpl in Ht. destruct ao; [|discriminate].
  constructor. rewrite forallb_forall in Ht. apply Forall_forall. intros kc Hkc. apply IH. auto.
Qed.

Lemma shape_root_node hp i key t :
  shape hp i key t -> exists n, nth_error hp i = Some n /\ n_key n = key /\ n_inh n = [] /\
                                match t with Tree tk ao _ => n_tok n = tk /\ n_allof n = ao end.
Proof. intros Hs. inversion Hs; subst. eexists. split; [eassumption|]. simpl. auto. Qed.

Lemma shape_kids_plain_nodes h ids kids :
  Forall2 (fun c kc => shape h c (fst kc) (snd kc)) ids kids ->
  Forall (fun kc => tplain (snd kc)) kids ->
  forall c, In c ids -> exists cn, nth_error h c = Some cn /\ n_allof cn = [].
Proof.
  intros Hs. induction Hs as [|c0 kc ids kids Hs0 _ IH]; intros Hp c Hc; [destruct Hc|].
  inversion Hp; subst. destruct Hc as [<-|Hc]; [|apply IH; auto].
  destruct (shape_root_node h c0 (fst kc) (snd kc) Hs0) as (cn & Hcn & _ & _ & Hf).
  exists cn. split; auto.
  destruct (snd kc) as [tk' ao' kids']. inversion H1; subst. tauto.
Qed.

Lemma build_kids_shape h kids :
  (exists x, fst (build_kids h kids) = h ++ x) /\
  Forall2 (fun c kc => shape (fst (build_kids h kids)) c (fst kc) (snd kc)) (snd (build_kids h kids)) kids.
Proof.
  revert h; induction kids as [|[k c] r IHr]; intros h.
  - simpl. split; [exists []; rewrite app_nil_r; reflexivity|constructor].
  - rewrite build_kids_cons. destruct (build_shape c h k) as ((x1 & Hx1) & Hs1).
    destruct (build_tree h k c) as [h1 i]. simpl in Hx1, Hs1.
    destruct (IHr h1) as ((x2 & Hx2) & Hs2).
    destruct (build_kids h1 r) as [h2 is]. simpl in *. subst h1 h2. split.
    + exists (x1 ++ x2). rewrite app_assoc. reflexivity.
    + constructor; auto. apply shape_app. exact Hs1.
Qed.

(* a schema root: its children are plain *)
Definition troot (t : tree) : Prop := match t with Tree _ _ kids => Forall (fun kc => tplain (snd kc)) kids end.

Lemma root_level_troot t : root_level t = true -> troot t.
Proof.
  destruct t as [tk ao kids]. intros Hr. lazy beta iota delta [root_level] in Hr.
  rewrite forallb_forall in Hr. unfold troot.
  apply Forall_forall. intros kc Hkc. apply (tree_plain_tplain (S (tree_size (snd kc)))). apply Hr. exact Hkc.
Qed.

Definition tymatch (hp : list node) (a : bytes * option tree) (b : bytes * option id) : Prop :=
  fst a = fst b /\
  match snd a, snd b with
  | Some t, Some r => shape hp r None t
  | None, None => True
  | _, _ => False
  end.

Definition usematch (hp : list node) (a : ukind * tree) (b : ukind * id) : Prop :=
  fst a = fst b /\ shape hp (snd b) None (snd a).

Lemma tymatch_app hp x a b : tymatch hp a b -> tymatch (hp ++ x) a b.
Proof.
  intros [Hk Hm]. split; auto. destruct (snd a), (snd b); auto. apply shape_app. exact Hm.
Qed.

(* shapes of the initial heap, for ANY project *)
Lemma build_types_shape : forall ts h,
  (exists x, fst (build_types h ts) = h ++ x) /\
  Forall2 (tymatch (fst (build_types h ts))) ts (snd (build_types h ts)).
Proof.
  induction ts as [|[name o] ts IH]; intros h.
  - simpl. split; [exists []; rewrite app_nil_r; reflexivity|constructor].
  - simpl. destruct o as [t|].
    + destruct (build_shape t h None) as ((x1 & Hx1) & Hs1).
      destruct (build_tree h None t) as [h1 i]. simpl in Hx1, Hs1.
      destruct (IH h1) as ((x2 & Hx2) & Hf2).
      destruct (build_types h1 ts) as [h2 out]. simpl in *. subst h1 h2.
      split; [exists (x1 ++ x2); rewrite app_assoc; reflexivity|].
      constructor; auto. split; simpl; auto. apply shape_app. exact Hs1.
    + destruct (IH h) as ((x2 & Hx2) & Hf2).
      destruct (build_types h ts) as [h2 out]. simpl in *.
      split; [exists x2; exact Hx2|]. constructor; auto. split; simpl; auto.
Qed.

Lemma build_uses_shape : forall us h,
  (exists x, fst (build_uses h us) = h ++ x) /\
  Forall2 (usematch (fst (build_uses h us))) us (snd (build_uses h us)).
Proof.
  induction us as [|[k t] us IH]; intros h.
  - simpl. split; [exists []; rewrite app_nil_r; reflexivity|constructor].
  - simpl. destruct (build_shape t h None) as ((x1 & Hx1) & Hs1).
    destruct (build_tree h None t) as [h1 i]. simpl in Hx1, Hs1.
    destruct (IH h1) as ((x2 & Hx2) & Hf2).
    destruct (build_uses h1 us) as [h2 out]. simpl in *. subst h1 h2.
    split; [exists (x1 ++ x2); rewrite app_assoc; reflexivity|].
    constructor; auto. split; simpl; auto. apply shape_app. exact Hs1.
Qed.

Lemma init_shapes e :
  Forall2 (tymatch (heap (w_state (init_world e)))) (e_types e) (w_types (init_world e)) /\
  Forall2 (usematch (heap (w_state (init_world e)))) (e_uses e) (w_uses (init_world e)).
Proof.
  unfold init_world. destruct (build_types_shape (e_types e) []) as ((x1 & Hx1) & Hf1).
  destruct (build_types [] (e_types e)) as [h1 ts]. simpl in Hx1, Hf1.
  destruct (build_uses_shape (e_uses e) h1) as ((x2 & Hx2) & Hf2).
  destruct (build_uses h1 (e_uses e)) as [h2 us]. simpl in *. subst h2. split; auto.
  eapply Forall2_impl'; [|exact Hf1]. intros a b Hab. apply tymatch_app. exact Hab.
Qed.

Lemma lookup_match hp tys ts b :
  Forall2 (tymatch hp) tys ts ->
  match lookup tys b, lookup ts b with
  | Some (Some t), Some (Some r) => shape hp r None t
  | Some None, Some None => True
  | None, None => True
  | _, _ => False
  end.
Proof.
  induction 1 as [|[n1 o1] [n2 o2] tys ts [Hk Hm] _ IH]; [simpl; auto|].
  simpl in Hk, Hm. subst n2. simpl. destruct (beq n1 b); [|exact IH].
  destruct o1, o2; auto.
Qed.

Lemma In_match hp tys ts name r :
  Forall2 (tymatch hp) tys ts -> In (name, Some r) ts ->
  exists t, In (name, Some t) tys /\ shape hp r None t.
Proof.
  induction 1 as [|[n1 o1] [n2 o2] tys ts [Hk Hm] _ IH]; simpl; intros Hin; [destruct Hin|].
  simpl in Hk, Hm. subst n2. destruct Hin as [Heq|Hin].
  - injection Heq as -> ->. destruct o1 as [t|]; [|destruct Hm]. exists t. auto.
  - destruct (IH Hin) as (t & Ht & Hs). exists t. auto.
Qed.

Lemma In_lookup_nodup {A} (l : list (bytes * A)) name v :
  NoDup (map fst l) -> In (name, v) l -> lookup l name = Some v.
Proof.
  induction l as [|[n a] l IH]; simpl; intros Hnd Hin; [destruct Hin|].
  inversion Hnd; subst. destruct Hin as [Heq|Hin].
  - injection Heq as -> ->. rewrite beq_refl. reflexivity.
  - destruct (beq n name) eqn:E.
    + apply beq_eq in E. subst. exfalso. apply H1. change name with (fst (name, v)). apply in_map. exact Hin.
    + apply IH; auto.
Qed.

Lemma nodupb_NoDup l : nodupb l = true -> NoDup l.
Proof.
  induction l as [|x l IH]; simpl; intros Hn; [constructor|].
  apply andb_true_iff in Hn as [H1 H2]. constructor; auto.
  apply negb_true_iff in H1. apply mem_false_not_In. exact H1.
Qed.

Lemma match_fst hp tys ts : Forall2 (tymatch hp) tys ts -> map fst ts = map fst tys.
Proof. induction 1 as [|a b ? ? [Hk _] _ IH]; simpl; congruence. Qed.

(* ------------------------------------------------------------------------------------- *)
(* rendering *)

Definition rnode (f : nat) (st : state) (n : node) : option rtree :=
  match all_some (map (render f st) (n_children n)) with
  | Some ks => Some (RNode (n_key n) (n_tok n) (n_inh n) ks)
  | None => None
  end.

Lemma render_S f st i : render (S f) st i = match get st i with Some n => rnode f st n | None => None end.
Proof. reflexivity. Qed.

Lemma rnode_set_inh f st b n : rnode f st (set_inh b n) = option_map (mark b) (rnode f st n).
Proof. unfold rnode. simpl. destruct (all_some (map (render f st) (n_children n))); reflexivity. Qed.

Lemma render_plain_ext h : forall st st' i f, plainh h st i -> ext st st' -> h <= f -> render f st' i = render f st i.
Proof.
  induction h as [|h IH]; intros st st' i f Hp E Hle; [destruct Hp|].
  destruct Hp as (n & Hg & Ha & Hc). destruct f as [|f]; [lia|].
  rewrite !render_S. rewrite Hg, (ext_plain _ _ E i n Hg Ha). unfold rnode.
  assert (all_some (map (render f st') (n_children n)) = all_some (map (render f st) (n_children n))) as ->; [|reflexivity].
  apply all_some_ext. intros c Hin. rewrite Forall_forall in Hc. apply IH; auto. lia.
Qed.

Lemma rnode_pnode_ext h f st st' n : pnode h st n -> ext st st' -> h <= f -> rnode f st' n = rnode f st n.
Proof.
  intros [Ha Hc] E Hle. unfold rnode.
  assert (all_some (map (render f st') (n_children n)) = all_some (map (render f st) (n_children n))) as ->; [|reflexivity].
  apply all_some_ext. intros c Hin. rewrite Forall_forall in Hc. eapply render_plain_ext; eauto.
Qed.

Definition kids_size (ks : list (option bytes * tree)) : nat :=
  fold_right (fun kc a => tree_size (snd kc) + a) 0 ks.

Lemma tree_size_eq tk ao kids : tree_size (Tree tk ao kids) = S (kids_size kids).
Proof.
  simpl. f_equal. induction kids as [|[k c] r IH]; simpl; auto.
Qed.

Lemma kids_size_In kc ks : In kc ks -> tree_size (snd kc) <= kids_size ks.
Proof.
  induction ks as [|x ks IH]; simpl; intros Hin; [destruct Hin|].
  destruct Hin as [->|Hin]; [lia|]. specialize (IH Hin). lia.
Qed.

Lemma shape_plainh : forall c st i key, shape (heap st) i key c -> tplain c -> plainh (tree_size c) st i.
Proof.
  induction c as [tk ao kids IH] using tree_ind'. intros st i key Hs Hp.
  inversion Hs as [i' key' tk' ao' kids' ids Hn Hk]; subst. inversion Hp as [tk' kids' Hpk]; subst.
  rewrite tree_size_eq. eexists. split; [exact Hn|]. split; [reflexivity|]. simpl.
  clear Hn Hs Hp. revert IH Hpk.
  assert (Hsz : forall kc, In kc kids -> tree_size (snd kc) <= kids_size kids) by (intros; apply kids_size_In; auto).
  revert Hsz. generalize (kids_size kids) as m.
  induction Hk as [|c kc ids kids Hc _ IHk]; intros m Hsz IH Hpk; constructor.
  - inversion IH; subst. inversion Hpk; subst.
    apply (plainh_le (tree_size (snd kc))); [apply Hsz; simpl; auto|]. eapply H1; eauto.
  - inversion IH; subst. inversion Hpk; subst. apply IHk; auto. intros; apply Hsz; simpl; auto.
Qed.

(* ------------------------------------------------------------------------------------- *)
(* skeleton schemas: inner nodes, and the well-formedness of the initial heap *)

Definition stof (hp : list node) : state := {| heap := hp; memo := []; ulog := [] |}.

Lemma plainh_heap_eq h : forall st st' i, heap st = heap st' -> plainh h st i -> plainh h st' i.
Proof.
  induction h as [|h IH]; intros st st' i He Hp; [destruct Hp|].
  destruct Hp as (n & Hg & Ha & Hc). exists n. unfold get in *. rewrite <- He. repeat split; auto.
  eapply Forall_impl; [|exact Hc]. intros c Hcc. eapply IH; eauto.
Qed.

Fixpoint plainb (h : nat) (hp : list node) (i : id) : bool :=
  match h with
  | O => false
  | S h' =>
    match nth_error hp i with
    | Some n => match n_allof n with [] => forallb (plainb h' hp) (n_children n) | _ => false end
    | None => false
    end
  end.

Lemma plainb_plainh h : forall st i, plainb h (heap st) i = true <-> plainh h st i.
Proof.
  induction h as [|h IH]; intros st i; simpl; [split; [discriminate|tauto]|].
  unfold get. destruct (nth_error (heap st) i) as [n|]; [|split; [discriminate|intros (n & Hn & _); discriminate]].
  destruct (n_allof n) eqn:Ea.
  - rewrite forallb_forall. split.
    + intros Hf. exists n. repeat split; auto. apply Forall_forall. intros c Hc. apply IH. auto.
    + intros (n' & Hn' & _ & Hc). injection Hn' as <-. intros c Hin. apply IH. rewrite Forall_forall in Hc. auto.
  - split; [discriminate|]. intros (n' & Hn' & Ha' & _). injection Hn' as <-. congruence.
Qed.

(* the inner nodes of height class K: no rule of their own, but not plain *)
Definition privK (K : nat) (hp : list node) (i : id) : Prop :=
  exists n, nth_error hp i = Some n /\ n_allof n = [] /\ plainb K hp i = false.

(* every node with an allOf rule has plain children *)
Definition aokl (K : nat) (hp : list node) : Prop :=
  forall i n, nth_error hp i = Some n -> n_allof n <> [] -> Forall (plainh K (stof hp)) (n_children n).

Lemma aokl_heap_ok K st : aokl K (heap st) -> heap_ok (privK K (heap st)) st.
Proof.
  intros Ha. split.
  - intros i (n & Hn & _). apply nth_error_Some. congruence.
  - intros i n c Hnp Hg Hc.
    assert (Hchild : plainh K st c -> exists cn, get st c = Some cn /\ n_allof cn = [] /\ ~ privK K (heap st) c).
    { intros Hp. assert (Hp' := Hp). destruct K as [|K']; [destruct Hp|]. destruct Hp as (cn & Hcn & Hca & _).
      exists cn. repeat split; auto. intros (cn' & _ & _ & Hb).
      apply (plainb_plainh (S K') st c) in Hp'. congruence. }
    destruct (n_allof n) eqn:Ea.
    + destruct (plainb K (heap st) i) eqn:Eb.
      * apply plainb_plainh in Eb. destruct K as [|K']; [destruct Eb|].
        destruct Eb as (n' & Hn' & _ & Hcs). rewrite Hg in Hn'. injection Hn' as <-.
        rewrite Forall_forall in Hcs. apply Hchild. apply plainh_S. auto.
      * exfalso. apply Hnp. exists n. repeat split; auto.
    + apply Hchild. assert (Hf := Ha i n Hg). rewrite Ea in Hf. specialize (Hf ltac:(discriminate)).
      rewrite Forall_forall in Hf. apply (plainh_heap_eq K (stof (heap st))); auto.
Qed.

Lemma ext_app hp x : ext (stof hp) (stof (hp ++ x)).
Proof.
  split.
  - intros i n Hg _. unfold get in *. simpl in *. rewrite nth_error_app1; auto. apply nth_error_Some. congruence.
  - intros i n Hg. exists n. unfold get in *. simpl in *. rewrite nth_error_app1; [|apply nth_error_Some; congruence].
    repeat split; auto.
Qed.

Lemma aokl_app_plain K hp x : aokl K hp -> Forall (fun n => n_allof n = []) x -> aokl K (hp ++ x).
Proof.
  intros Ha Hx i n Hn Hao. destruct (Nat.lt_ge_cases i (List.length hp)) as [Hlt|Hge].
  - rewrite nth_error_app1 in Hn; auto. eapply Forall_impl; [|exact (Ha i n Hn Hao)].
    intros c Hc. eapply plainh_ext; [apply ext_app|exact Hc].
  - rewrite nth_error_app2 in Hn; auto. apply nth_error_In in Hn. rewrite Forall_forall in Hx.
    exfalso. apply Hao. auto.
Qed.

Lemma build_plain_app : forall t h key, tplain t ->
  exists x, fst (build_tree h key t) = h ++ x /\ Forall (fun n => n_allof n = []) x.
Proof.
  induction t as [tk ao kids IH] using tree_ind'. intros h key Hp. inversion Hp as [tk' kids' Hpk]; subst.
  rewrite build_eq.
  assert (Hk : forall h0, exists x, fst (build_kids h0 kids) = h0 ++ x /\ Forall (fun n => n_allof n = []) x).
  { clear Hp. induction IH as [|[k c] r Hc _ IHr]; intros h0.
    - exists []. simpl. rewrite app_nil_r. auto.
    - rewrite build_kids_cons. inversion Hpk; subst. simpl in *.
      destruct (Hc h0 k H1) as (x1 & Hx1 & Hf1). destruct (build_tree h0 k c) as [h1 i]. simpl in Hx1. subst h1.
      destruct (IHr H2 (h0 ++ x1)) as (x2 & Hx2 & Hf2). destruct (build_kids (h0 ++ x1) r) as [h2 is]. simpl in *. subst h2.
      exists (x1 ++ x2). rewrite app_assoc. split; auto. apply Forall_app; auto. }
  destruct (Hk h) as (x & Hx & Hf). destruct (build_kids h kids) as [h1 ids]. simpl in *. subst h1.
  eexists. rewrite <- app_assoc. split; [reflexivity|]. apply Forall_app; split; auto.
Qed.

Inductive tskel : tree -> Prop :=
| tskel_rule tk a ao kids : Forall (fun kc => tplain (snd kc)) kids -> tskel (Tree tk (a :: ao) kids)
| tskel_inner tk kids : Forall (fun kc => tskel (snd kc)) kids -> tskel (Tree tk [] kids).

Lemma tree_skel_tskel : forall f t, tree_skel f t = true -> tskel t.
Proof.
  induction f as [|f IH]; intros t Ht; [discriminate|].
  destruct t as [tk ao kids]. cbn [tree_skel] in Ht. destruct ao as [|a ao].
  - apply tskel_inner. rewrite forallb_forall in Ht. apply Forall_forall. intros kc Hkc. apply IH. apply Ht. exact Hkc.
  - apply tskel_rule. rewrite forallb_forall in Ht. apply Forall_forall. intros kc Hkc.
    apply (tree_plain_tplain (S (tree_size (snd kc)))). apply Ht. exact Hkc.
Qed.

Lemma tplain_tskel : forall t, tplain t -> tskel t.
Proof.
  induction t as [tk ao kids IH] using tree_ind'. intros Hp. inversion Hp as [tk' kids' Hpk]; subst.
  apply tskel_inner. rewrite Forall_forall in *. auto.
Qed.

Lemma shape_kids_plainh K st ids kids :
  Forall2 (fun c kc => shape (heap st) c (fst kc) (snd kc)) ids kids ->
  Forall (fun kc => tplain (snd kc)) kids ->
  (forall kc, In kc kids -> tree_size (snd kc) <= K) ->
  Forall (plainh K st) ids.
Proof.
  induction 1 as [|c kc ids kids Hc _ IHs]; intros Hpk Hsz; constructor.
  - inversion Hpk; subst. apply (plainh_le (tree_size (snd kc))); [apply Hsz; simpl; auto|].
    apply (shape_plainh (snd kc) st c (fst kc)); auto.
  - inversion Hpk; subst. apply IHs; auto. intros; apply Hsz; simpl; auto.
Qed.

Lemma build_aokl K : forall t, tskel t -> tree_size t <= K -> forall h key, aokl K h -> aokl K (fst (build_tree h key t)).
Proof.
  induction t as [tk ao kids IH] using tree_ind'. intros Hs Hsz h key Ha. rewrite tree_size_eq in Hsz.
  rewrite build_eq. inversion Hs as [tk' a ao' kids' Hpk|tk' kids' Hsk]; subst.
  - (* an object with a rule: the children are plain *)
    assert (Hk : forall kids0 h0, Forall (fun kc => tplain (snd kc)) kids0 ->
              exists x, fst (build_kids h0 kids0) = h0 ++ x /\ Forall (fun n => n_allof n = []) x).
    { induction kids0 as [|[k c] r IHr]; intros h0 Hp0.
      - exists []. simpl. rewrite app_nil_r. auto.
      - rewrite build_kids_cons. inversion Hp0; subst. simpl in *.
        destruct (build_plain_app c h0 k H1) as (x1 & Hx1 & Hf1). destruct (build_tree h0 k c) as [h1 i]. simpl in Hx1. subst h1.
        destruct (IHr (h0 ++ x1) H2) as (x2 & Hx2 & Hf2). destruct (build_kids (h0 ++ x1) r) as [h2 is]. simpl in *. subst h2.
        exists (x1 ++ x2). rewrite app_assoc. split; auto. apply Forall_app; auto. }
    destruct (Hk kids h Hpk) as (x & Hx & Hf). destruct (build_kids_shape h kids) as (_ & Hsh).
    destruct (build_kids h kids) as [h1 ids]. simpl in *. subst h1.
    assert (Ha1 := aokl_app_plain K h x Ha Hf).
    intros i n Hn Hao. destruct (Nat.lt_ge_cases i (List.length (h ++ x))) as [Hlt|Hge].
    + rewrite nth_error_app1 in Hn; auto. eapply Forall_impl; [|exact (Ha1 i n Hn Hao)].
      intros c Hc. eapply plainh_ext; [apply ext_app|exact Hc].
    + rewrite nth_error_app2 in Hn; auto.
      destruct (i - List.length (h ++ x)) as [|j]; simpl in Hn; [|destruct j; discriminate].
      injection Hn as <-. simpl.
      assert (Hsz' : forall kc, In kc kids -> tree_size (snd kc) <= K).
      { intros kc Hin. apply kids_size_In in Hin. lia. }
      eapply Forall_impl; [|exact (shape_kids_plainh K (stof (h ++ x)) ids kids Hsh Hpk Hsz')].
      intros c Hc. eapply plainh_ext; [apply ext_app|exact Hc].
  - (* an inner node: the children are skeletons *)
    assert (Hk : forall h0, aokl K h0 -> aokl K (fst (build_kids h0 kids))).
    { assert (Hsz' : forall kc, In kc kids -> tree_size (snd kc) <= K).
      { intros kc Hin. apply kids_size_In in Hin. lia. }
      clear Hs Hsz. revert Hsk Hsz'. induction IH as [|[k c] r Hc _ IHr]; intros Hsk Hsz' h0 Ha0; [exact Ha0|].
      rewrite build_kids_cons. inversion Hsk; subst. simpl in *.
      assert (Ha1 : aokl K (fst (build_tree h0 k c))) by (apply Hc; auto; apply (Hsz' (k, c)); auto).
      destruct (build_tree h0 k c) as [h1 i]. simpl in Ha1.
      specialize (IHr H2 (fun kc Hin => Hsz' kc (or_intror Hin)) h1 Ha1).
      destruct (build_kids h1 r) as [h2 is]. exact IHr. }
    specialize (Hk h Ha). destruct (build_kids h kids) as [h1 ids]. simpl in *.
    apply aokl_app_plain; auto.
Qed.

Lemma build_types_aokl K : forall ts h,
  aokl K h -> (forall n t, In (n, Some t) ts -> tskel t /\ tree_size t <= K) -> aokl K (fst (build_types h ts)).
Proof.
  induction ts as [|[name o] ts IH]; intros h Ha Hr; [exact Ha|].
  simpl. destruct o as [t|].
  - destruct (Hr name t (or_introl eq_refl)) as [Hs Hsz].
    assert (Ha1 := build_aokl K t Hs Hsz h None Ha). destruct (build_tree h None t) as [h1 i]. simpl in Ha1.
    specialize (IH h1 Ha1 (fun n' t' Hin => Hr n' t' (or_intror Hin))).
    destruct (build_types h1 ts) as [h2 out]. exact IH.
  - specialize (IH h Ha (fun n' t' Hin => Hr n' t' (or_intror Hin))).
    destruct (build_types h ts) as [h2 out]. exact IH.
Qed.

Lemma build_uses_aokl K : forall us h,
  aokl K h -> (forall k t, In (k, t) us -> tskel t /\ tree_size t <= K) -> aokl K (fst (build_uses h us)).
Proof.
  induction us as [|[k t] us IH]; intros h Ha Hr; [exact Ha|].
  simpl. destruct (Hr k t (or_introl eq_refl)) as [Hs Hsz].
  assert (Ha1 := build_aokl K t Hs Hsz h None Ha). destruct (build_tree h None t) as [h1 i]. simpl in Ha1.
  specialize (IH h1 Ha1 (fun k' t' Hin => Hr k' t' (or_intror Hin))).
  destruct (build_uses h1 us) as [h2 out]. exact IH.
Qed.

(* a node that is plain in the heap was built from a plain tree *)
Lemma shape_plain_conv : forall t st i key h, shape (heap st) i key t -> plainh h st i -> tplain t.
Proof.
  induction t as [tk ao kids IH] using tree_ind'. intros st i key h Hs Hp.
  destruct h as [|h]; [destruct Hp|]. destruct Hp as (n & Hg & Ha & Hc).
  inversion Hs as [i' key' tk' ao' kids' ids Hn Hk]; subst. unfold get in Hg. rewrite Hn in Hg. injection Hg as <-.
  simpl in Ha, Hc. subst ao. constructor.
  clear Hn Hs. revert Hc. induction Hk as [|c kc ids kids Hck _ IHk]; intros Hc; constructor.
  - inversion IH; subst. inversion Hc; subst. eapply H1; eauto.
  - inversion IH; subst. inversion Hc; subst. apply IHk; auto.
Qed.

Lemma Forall_dec' {A} (P : A -> Prop) l : Forall (fun x => P x \/ ~ P x) l -> Forall P l \/ ~ Forall P l.
Proof.
  induction 1 as [|x l [Hx|Hx] _ [IH|IH]]; auto.
  - right. intros Hf. inversion Hf; auto.
  - right. intros Hf. inversion Hf; auto.
  - right. intros Hf. inversion Hf; auto.
Qed.

Lemma tplain_dec : forall t, tplain t \/ ~ tplain t.
Proof.
  induction t as [tk ao kids IH] using tree_ind'.
  destruct ao as [|a ao]; [|right; intros Hp; inversion Hp].
  destruct (Forall_dec' (fun kc => tplain (snd kc)) kids IH) as [Hf|Hf].
  - left. constructor. exact Hf.
  - right. intros Hp. inversion Hp. auto.
Qed.

Section Spec.
  Variable tys : list (bytes * option tree).

  (* a plain tree renders as its specification (which is the tree as declared) *)
  Lemma render_plain_spec : forall c st i key d x F,
    shape (heap st) i key c -> tplain c -> spec_tree d tys key c = Some x -> tree_size c <= F ->
    render F st i = Some x.
  Proof.
    induction c as [tk ao kids IH] using tree_ind'. intros st i key d x F Hs Hp Hspec Hle.
    inversion Hs as [i' key' tk' ao' kids' ids Hn Hk]; subst. inversion Hp as [tk' kids' Hpk]; subst.
    rewrite tree_size_eq in Hle. destruct F as [|F]; [lia|].
    destruct d as [|d]; [discriminate|]. simpl in Hspec.
    destruct (all_some (map (fun kc => spec_tree d tys (fst kc) (snd kc)) kids)) as [own|] eqn:Eo; [|discriminate].
    assert (Hx : x = RNode key tk [] own).
    { destruct tk; simpl in Hspec; injection Hspec as <-; reflexivity. }
    subst x. rewrite render_S. unfold get. rewrite Hn. unfold rnode. simpl.
    assert (all_some (map (render F st) ids) = Some own) as ->; [|reflexivity].
    clear Hn Hs Hp Hspec.
    assert (Hsz : forall kc, In kc kids -> tree_size (snd kc) <= F).
    { intros kc Hin. apply kids_size_In in Hin. lia. }
    clear Hle. revert own Eo IH Hpk Hsz.
    induction Hk as [|c kc ids kids Hc _ IHk]; intros own Eo IH Hpk Hsz; simpl in *.
    - exact Eo.
    - destruct (spec_tree d tys (fst kc) (snd kc)) as [xk|] eqn:Ek; [|discriminate].
      destruct (all_some (map (fun kc0 => spec_tree d tys (fst kc0) (snd kc0)) kids)) as [own'|] eqn:Eo'; [|discriminate].
      injection Eo as <-. inversion IH; subst. inversion Hpk; subst.
      rewrite (H1 st c (fst kc) d xk F Hc H3 Ek); [|apply Hsz; auto].
      rewrite (IHk own' eq_refl); auto.
  Qed.
End Spec.

Definition rootwf (t : tree) : Prop :=
  match t with
  | Tree tk ao kids => (ao <> [] -> tk = TObject) /\
                       (tk = TObject -> Forall (fun kc => exists k, fst kc = Some k) kids)
  end.

Lemma tree_wf_rootwf f t : tree_wf f t = true -> rootwf t.
Proof.
  destruct f as [|f]; [discriminate|]. destruct t as [tk ao kids]. simpl. intros Hw.
  apply andb_true_iff in Hw as [_ Hw]. split.
  - intros Hao. destruct tk; auto.
    + apply andb_true_iff in Hw as [_ Hw]. destruct ao; [congruence|discriminate].
    + apply andb_true_iff in Hw as [_ Hw]. destruct ao; [congruence|discriminate].
  - intros ->. rewrite forallb_forall in Hw. apply Forall_forall. intros kc Hin.
    specialize (Hw kc Hin). unfold has_key in Hw. destruct (fst kc); [eauto|discriminate].
Qed.

Lemma lookup_In {A} (l : list (bytes * A)) k v : lookup l k = Some v -> In (k, v) l.
Proof.
  induction l as [|[k' a] l IH]; simpl; [discriminate|].
  destruct (beq k' k) eqn:E; intros Hl.
  - apply beq_eq in E. subst. injection Hl as ->. auto.
  - auto.
Qed.

Section Bridge.
  Variable tys : list (bytes * option tree).
  Variable ts : list (bytes * option id).
  Variable st0 : state.
  Variable F : nat.
  Variable isbase : bytes -> Prop.
  Hypothesis Hmatch : Forall2 (tymatch (heap st0)) tys ts.
  Hypothesis Htroot : forall b t, isbase b -> lookup tys b = Some (Some t) -> troot t.
  Hypothesis Hclosed : forall b tk ao kids b', isbase b -> lookup tys b = Some (Some (Tree tk ao kids)) ->
                                               In b' ao -> isbase b'.
  Hypothesis Hsize : forall n t, In (n, Some t) tys -> tree_size t <= S F.

  Lemma kid_facts ids kids :
    Forall2 (fun c kc => shape (heap st0) c (fst kc) (snd kc)) ids kids ->
    Forall (fun kc => tplain (snd kc)) kids ->
    (forall kc, In kc kids -> tree_size (snd kc) <= F) ->
    exists own, all_some (map (get st0) ids) = Some own /\ Forall (pnode F st0) own /\
                Forall (fun c => n_inh c = []) own /\ map n_key own = map fst kids /\
                (forall d ownr, all_some (map (fun kc => spec_tree d tys (fst kc) (snd kc)) kids) = Some ownr ->
                                all_some (map (rnode F st0) own) = Some ownr).
  Proof.
    induction 1 as [|c kc ids kids Hc _ IH]; intros Hp Hsz.
    - exists []. simpl. repeat split; auto.
    - inversion Hp as [|? ? Hpc Hpk]; subst.
      destruct IH as (own & Hown & Hpn & Hinh & Hkeys & Hspec); auto.
      { intros kc' Hin. apply Hsz. simpl. auto. }
      assert (Hszc : tree_size (snd kc) <= F) by (apply Hsz; simpl; auto).
      assert (Hph := shape_plainh (snd kc) st0 c (fst kc) Hc Hpc).
      destruct kc as [k [tk ao kids']]. cbn [fst snd] in *.
      inversion Hc as [i' key' tk' ao' kids'' cids Hn Hk]; subst.
      rewrite tree_size_eq in Hph, Hszc.
      destruct Hph as (cn & Hg & Ha & Hch). unfold get in Hg. rewrite Hn in Hg. injection Hg as <-.
      assert (Hgc : get st0 c = Some {| n_key := k; n_tok := tk; n_allof := ao; n_children := cids; n_inh := [] |}) by exact Hn.
      eexists (_ :: own). cbn [map all_some]. rewrite Hgc, Hown.
      split; [reflexivity|]. split; [|split; [|split]].
      + constructor; auto. split; [exact Ha|]. simpl in *.
        eapply Forall_impl; [|exact Hch]. intros x Hx. apply (plainh_le (kids_size kids')); auto. lia.
      + constructor; auto.
      + simpl. f_equal. exact Hkeys.
      + intros d ownr Ho. cbn [map all_some fst snd] in Ho.
        destruct (spec_tree d tys k (Tree tk ao kids')) as [xk|] eqn:Ek; [|discriminate].
        destruct (all_some (map (fun kc0 => spec_tree d tys (fst kc0) (snd kc0)) kids)) as [own'|] eqn:Eo'; [|discriminate].
        injection Ho as <-. cbn [map all_some]. rewrite (Hspec d own' Eo').
        assert (Hr : render (S F) st0 c = Some xk).
        { apply (render_plain_spec tys (Tree tk ao kids') st0 c k d xk (S F)); auto.
          rewrite tree_size_eq. lia. }
        rewrite render_S in Hr. unfold get in Hr. rewrite Hn in Hr. rewrite Hr. reflexivity.
  Qed.

  Lemma root_facts r key tk ao kids :
    shape (heap st0) r key (Tree tk ao kids) -> troot (Tree tk ao kids) -> tree_size (Tree tk ao kids) <= S F ->
    exists ids own,
      get st0 r = Some {| n_key := key; n_tok := tk; n_allof := ao; n_children := ids; n_inh := [] |} /\
      cnodes st0 r = Some own /\ Forall (pnode F st0) own /\ Forall (fun c => n_inh c = []) own /\
      map n_key own = map fst kids /\
      (forall d ownr, all_some (map (fun kc => spec_tree d tys (fst kc) (snd kc)) kids) = Some ownr ->
                      all_some (map (rnode F st0) own) = Some ownr).
  Proof.
    intros Hs Ht Hsz. inversion Hs as [i' key' tk' ao' kids' ids Hn Hk]; subst.
    rewrite tree_size_eq in Hsz.
    destruct (kid_facts ids kids Hk Ht) as (own & Hown & H1 & H2 & H3 & H4).
    { intros kc Hin. apply kids_size_In in Hin. lia. }
    exists ids, own. unfold cnodes, get. rewrite Hn. simpl. repeat split; auto.
  Qed.

  (* the closure computed on the heap is the closure computed on the ASTs *)
  Lemma expected_spec : forall d r key tk ao kids x,
    shape (heap st0) r key (Tree tk ao kids) -> troot (Tree tk ao kids) -> (ao <> [] -> tk = TObject) ->
    tree_size (Tree tk ao kids) <= S F -> (forall b, In b ao -> isbase b) ->
    spec_tree d tys key (Tree tk ao kids) = Some x ->
    exists L, expected ts st0 d r = Some L /\ all_some (map (rnode F st0) L) = Some (rkids x) /\
              x = RNode key tk [] (rkids x).
  Proof.
    induction d as [|d IH]; intros r key tk ao kids x Hs Ht Hw Hsz Hbases Hspec; [discriminate|].
    destruct (root_facts r key tk ao kids Hs Ht Hsz) as (ids & own & Hn & Hown & Hp & Hi & Hk & Hownspec).
    simpl in Hspec.
    destruct (all_some (map (fun kc => spec_tree d tys (fst kc) (snd kc)) kids)) as [ownr|] eqn:Eo; [|discriminate].
    specialize (Hownspec d ownr Eo).
    simpl. rewrite Hn, Hown. simpl.
    (* the bases *)
    assert (Hb : forall bs inh, (forall b, In b bs -> isbase b) ->
                 all_some (map (spec_base (spec_tree d tys) tys) bs) = Some inh ->
                 exists inhL, all_some (map (contrib ts st0 (expected ts st0 d)) bs) = Some inhL /\
                              all_some (map (rnode F st0) (List.concat inhL)) = Some (List.concat inh)).
    { induction bs as [|b bs IHb]; intros inh Hbs Hinh.
      - simpl in Hinh. injection Hinh as <-. exists []. simpl. auto.
      - simpl in Hinh.
        assert (Hbb : isbase b) by (apply Hbs; simpl; auto).
        assert (Hbs' : forall b', In b' bs -> isbase b') by (intros; apply Hbs; simpl; auto).
        destruct (spec_base (spec_tree d tys) tys b) as [sb|] eqn:Esb; [|discriminate].
        destruct (all_some (map (spec_base (spec_tree d tys) tys) bs)) as [inh'|] eqn:Ei; [|discriminate].
        injection Hinh as <-. destruct (IHb inh' Hbs' eq_refl) as (inhL & HinhL & Hr).
        unfold spec_base in Esb.
        assert (Hlm := lookup_match (heap st0) tys ts b Hmatch).
        destruct (lookup tys b) as [[tb|]|] eqn:Elb; try discriminate.
        destruct tb as [tkb aob kidsb]. destruct tkb; try discriminate.
        destruct (spec_tree d tys None (Tree TObject aob kidsb)) as [rbr|] eqn:Erb; [|discriminate].
        injection Esb as <-.
        destruct (lookup ts b) as [[rb|]|] eqn:Elt; try (destruct Hlm; fail).
        assert (Hin : In (b, Some (Tree TObject aob kidsb)) tys) by (apply lookup_In; auto).
        destruct (IH rb None TObject aob kidsb rbr Hlm (Htroot _ _ Hbb Elb) (fun _ => eq_refl) (Hsize _ _ Hin)
                     (fun b' Hb' => Hclosed b TObject aob kidsb b' Hbb Elb Hb') Erb)
          as (Lb & HLb & HrLb & Hxb).
        destruct (shape_root_node _ _ _ _ Hlm) as (nb & Hnb & _ & _ & Htokb & _).
        exists (map (set_inh b) Lb :: inhL). split.
        + simpl. unfold contrib at 1. rewrite Elt. unfold get. rewrite Hnb, Htokb. simpl.
          rewrite HLb, HinhL. reflexivity.
        + simpl. rewrite map_app. apply all_some_app; [|exact Hr].
          rewrite map_map.
          assert (Hmm : forall l o, all_some (map (rnode F st0) l) = Some o ->
                                    all_some (map (fun n => rnode F st0 (set_inh b n)) l) = Some (map (mark b) o)).
          { induction l as [|n l IHl]; intros o Ho; simpl in *.
            - injection Ho as <-. reflexivity.
            - rewrite rnode_set_inh. destruct (rnode F st0 n) as [rn|]; [|discriminate].
              destruct (all_some (map (rnode F st0) l)) as [o'|]; [|discriminate].
              injection Ho as <-. simpl. rewrite (IHl o' eq_refl). reflexivity. }
          apply Hmm. exact HrLb. }
    destruct tk.
    - destruct (all_some (map (spec_base (spec_tree d tys) tys) ao)) as [inh|] eqn:Ei; [|discriminate].
      injection Hspec as <-. destruct (Hb ao inh Hbases Ei) as (inhL & HinhL & Hr).
      rewrite HinhL. eexists. split; [reflexivity|]. split; [|reflexivity].
      simpl. rewrite map_app. apply all_some_app; auto.
    - injection Hspec as <-. destruct ao as [|b ao]; [|specialize (Hw ltac:(discriminate)); discriminate].
      simpl. eexists. split; [reflexivity|]. split; [exact Hownspec|reflexivity].
    - injection Hspec as <-. destruct ao as [|b ao]; [|specialize (Hw ltac:(discriminate)); discriminate].
      simpl. eexists. split; [reflexivity|]. split; [exact Hownspec|reflexivity].
  Qed.
End Bridge.

(* ------------------------------------------------------------------------------------- *)
(* acyclicity as a rank: the least fuel at which the closure of a root is defined *)

Lemma all_some_In {A B} (f : A -> option B) l out a :
  all_some (map f l) = Some out -> In a l -> exists b, f a = Some b.
Proof.
  revert out; induction l as [|x l IH]; simpl; intros out Hs Hin; [destruct Hin|].
  destruct (f x) as [b|] eqn:Ex'; [|discriminate].
  destruct (all_some (map f l)) as [o|] eqn:El; [|discriminate].
  destruct Hin as [<-|Hin]; eauto.
Qed.

Section Rank.
  Variable types : list (bytes * option id).
  Variable st0 : state.
  Variable D : nat.

  Fixpoint lf (n d : nat) (r : id) : nat :=
    match n with
    | O => d
    | S n' => match expected types st0 d r with Some _ => d | None => lf n' (S d) r end
    end.

  Definition rankD (r : id) : nat := lf D 0 r.

  Lemma lf_spec : forall n d r,
    (exists L, expected types st0 (d + n) r = Some L) ->
    d <= lf n d r <= d + n /\ (exists L, expected types st0 (lf n d r) r = Some L) /\
    (forall d', d <= d' < lf n d r -> expected types st0 d' r = None).
  Proof.
    induction n as [|n IH]; intros d r Hex; simpl.
    - rewrite Nat.add_0_r in Hex. split; [lia|]. split; [exact Hex|]. intros; lia.
    - destruct (expected types st0 d r) as [L|] eqn:Ed.
      + split; [lia|]. split; [eauto|]. intros; lia.
      + destruct (IH (S d) r) as (Hle & Hex' & Hmin).
        { replace (S d + n) with (d + S n) by lia. exact Hex. }
        split; [lia|]. split; [exact Hex'|].
        intros d' Hd'. destruct (Nat.eq_dec d' d) as [->|Hne]; auto. apply Hmin. lia.
  Qed.

  Lemma rankD_le r d L : expected types st0 D r <> None -> expected types st0 d r = Some L -> d <= D -> rankD r <= d.
  Proof.
    intros HD Hd Hle. destruct (expected types st0 D r) as [LD|] eqn:ED; [|congruence].
    destruct (lf_spec D 0 r (ex_intro _ LD ED)) as (_ & _ & Hmin).
    destruct (Nat.le_gt_cases (rankD r) d) as [|Hgt]; auto.
    unfold rankD in *. rewrite (Hmin d) in Hd; [discriminate|lia].
  Qed.

  Lemma rankD_ok r n b rb :
    expected types st0 D r <> None -> (expected types st0 D rb <> None) ->
    get st0 r = Some n -> In b (n_allof n) -> lookup types b = Some (Some rb) -> rankD rb < rankD r.
  Proof.
    intros HD HDb Hn Hb Hl. destruct (expected types st0 D r) as [LD|] eqn:ED; [|congruence].
    destruct (lf_spec D 0 r (ex_intro _ LD ED)) as (Hle & (L & HL) & _). fold (rankD r) in *.
    destruct (rankD r) as [|m] eqn:Em; [discriminate|]. simpl in HL. rewrite Hn in HL.
    destruct (cnodes st0 r); [|discriminate].
    destruct (all_some (map (contrib types st0 (expected types st0 m)) (n_allof n))) as [inh|] eqn:Ei; [|discriminate].
    destruct (all_some_In _ _ _ b Ei Hb) as (c & Hc). unfold contrib in Hc. rewrite Hl in Hc.
    destruct (get st0 rb); [|discriminate]. destruct (tok_eqb (n_tok n0) TObject); [|discriminate].
    destruct (expected types st0 m rb) as [Lb|] eqn:Eb; [|discriminate].
    assert (rankD rb <= m); [|lia]. apply (rankD_le rb m Lb); auto. lia.
  Qed.
End Rank.

(* ------------------------------------------------------------------------------------- *)
(* from a project to the hypotheses of Section Roots *)

Lemma all_some_Forall2_eq {A B C} (g : A -> option B) (f : A -> option C) (h : B -> option C) cs L :
  all_some (map g cs) = Some L ->
  (forall c cn, g c = Some cn -> In cn L -> f c = h cn) ->
  all_some (map f cs) = all_some (map h L).
Proof.
  revert L; induction cs as [|c cs IH]; simpl; intros L HL Heq.
  - injection HL as <-. reflexivity.
  - destruct (g c) as [cn|] eqn:Eg; [|discriminate].
    destruct (all_some (map g cs)) as [L'|] eqn:EL; [|discriminate].
    injection HL as <-. simpl. rewrite (Heq c cn Eg); [|simpl; auto].
    rewrite (IH L' eq_refl); [reflexivity|]. intros c' cn' Hg Hin. apply Heq; simpl; auto.
Qed.

Lemma render_root st0 st' F r n0 L :
  ext st0 st' -> get st0 r = Some n0 -> cnodes st' r = Some L -> Forall (pnode F st0) L ->
  render (S (S F)) st' r =
  match all_some (map (rnode F st0) L) with
  | Some ks => Some (RNode (n_key n0) (n_tok n0) (n_inh n0) ks)
  | None => None
  end.
Proof.
  intros E Hn0 HL Hp. destruct (ext_any _ _ E r n0 Hn0) as (n' & Hn' & Hk & Ht & _ & Hi).
  rewrite render_S, Hn'. unfold rnode at 1. unfold cnodes in HL. rewrite Hn' in HL.
  rewrite (all_some_Forall2_eq (get st') (render (S F) st') (rnode F st0) _ L HL).
  - rewrite Hk, Ht, Hi. reflexivity.
  - intros c cn Hg Hin. rewrite render_S, Hg. rewrite Forall_forall in Hp.
    apply (rnode_pnode_ext F F st0 st' cn); auto.
Qed.

Lemma rnode_key f st n x : rnode f st n = Some x -> rkey x = n_key n.
Proof. unfold rnode. destruct (all_some _); [|discriminate]. intros H. injection H as <-. reflexivity. Qed.

Lemma rnodes_keys f st L ks : all_some (map (rnode f st) L) = Some ks -> map rkey ks = map n_key L.
Proof.
  revert ks; induction L as [|n L IH]; simpl; intros ks H.
  - injection H as <-. reflexivity.
  - destruct (rnode f st n) as [x|] eqn:Ex'; [|discriminate].
    destruct (all_some (map (rnode f st) L)) as [ks'|]; [|discriminate].
    injection H as <-. simpl. rewrite (rnode_key f st n x Ex'), (IH ks' eq_refl). reflexivity.
Qed.

Lemma keys_of_map ks l : keys_of ks = Some l -> map rkey ks = map Some l.
Proof.
  revert l; induction ks as [|x ks IH]; simpl; intros l H.
  - injection H as <-. reflexivity.
  - destruct (rkey x) as [k|]; [|discriminate]. destruct (keys_of ks) as [l'|]; [|discriminate].
    injection H as <-. simpl. rewrite (IH l' eq_refl). reflexivity.
Qed.

Lemma NoDup_map_Some {A} (l : list A) : NoDup l -> NoDup (map Some l).
Proof.
  induction 1 as [|x l Hn _ IH]; simpl; constructor; auto.
  intros Hin. apply in_map_iff in Hin. destruct Hin as (y & Hy & Hin). injection Hy as ->. contradiction.
Qed.

Lemma size_in_types (ts : list (bytes * option tree)) n t :
  In (n, Some t) ts ->
  tree_size t <= fold_right (fun (x : bytes * option tree) a => match snd x with Some t => tree_size t | None => O end + a) O ts.
Proof.
  induction ts as [|x ts IH]; simpl; intros Hin; [destruct Hin|].
  destruct Hin as [->|Hin]; simpl; [lia|]. specialize (IH Hin). lia.
Qed.

Lemma size_in_uses (us : list (ukind * tree)) k t :
  In (k, t) us -> tree_size t <= fold_right (fun (x : ukind * tree) a => tree_size (snd x) + a) O us.
Proof.
  induction us as [|x us IH]; simpl; intros Hin; [destruct Hin|].
  destruct Hin as [->|Hin]; simpl; [lia|]. specialize (IH Hin). lia.
Qed.

Lemma Forall2_In_r {A B} (R : A -> B -> Prop) l1 l2 b :
  Forall2 R l1 l2 -> In b l2 -> exists a, In a l1 /\ R a b.
Proof.
  induction 1 as [|x y l1 l2 Hxy _ IH]; simpl; intros Hin; [destruct Hin|].
  destruct Hin as [<-|Hin]; [eauto|]. destruct (IH Hin) as (a & Ha & Hr). eauto.
Qed.

Lemma spec_tree_S : forall d tys key t x, spec_tree d tys key t = Some x -> spec_tree (S d) tys key t = Some x.
Proof.
  induction d as [|d IH]; intros tys key t x Hs; [discriminate|].
  destruct t as [tk ao kids]. remember (S d) as d1. simpl. subst d1. simpl in Hs.
  destruct (all_some (map (fun kc => spec_tree d tys (fst kc) (snd kc)) kids)) as [own|] eqn:Eo; [|discriminate].
  rewrite (all_some_weaken _ (fun kc => spec_tree (S d) tys (fst kc) (snd kc)) _ _ Eo).
  2:{ intros kc y _ Hy. apply IH. exact Hy. }
  destruct tk; auto.
  destruct (all_some (map (spec_base (spec_tree d tys) tys) ao)) as [inh|] eqn:Ei; [|discriminate].
  rewrite (all_some_weaken _ (spec_base (spec_tree (S d) tys) tys) _ _ Ei); [exact Hs|].
  intros b l _. unfold spec_base. destruct (lookup tys b) as [[[[] ao' kids']|]|]; auto.
  destruct (spec_tree d tys None (Tree TObject ao' kids')) as [r|] eqn:Er; [|discriminate].
  rewrite (IH _ _ _ _ Er). auto.
Qed.

Lemma spec_tree_le d d' tys key t x : d <= d' -> spec_tree d tys key t = Some x -> spec_tree d' tys key t = Some x.
Proof. induction 1; auto. intros. apply spec_tree_S. auto. Qed.

Lemma spec_tree_lookup_ext tys tys' :
  (forall b, lookup tys b = lookup tys' b) ->
  forall d key t, spec_tree d tys key t = spec_tree d tys' key t.
Proof.
  intros Hl. induction d as [|d IH]; intros key t; [reflexivity|].
  destruct t as [tk ao kids]. simpl.
  rewrite (all_some_ext (fun kc => spec_tree d tys (fst kc) (snd kc)) (fun kc => spec_tree d tys' (fst kc) (snd kc))).
  2:{ intros; apply IH. }
  destruct (all_some (map (fun kc => spec_tree d tys' (fst kc) (snd kc)) kids)); auto.
  destruct tk; auto.
  rewrite (all_some_ext (spec_base (spec_tree d tys) tys) (spec_base (spec_tree d tys') tys')); auto.
  intros b _. unfold spec_base. rewrite Hl. destruct (lookup tys' b) as [[[[] ? ?]|]|]; auto. rewrite IH. reflexivity.
Qed.

Lemma shape_fun hp : forall t1 key r t2, shape hp r key t1 -> shape hp r key t2 -> t1 = t2.
Proof.
  induction t1 as [tk1 ao1 kids1 IH] using tree_ind'. intros key r t2 H1 H2.
  inversion H1 as [i1 k1 tk1' ao1' kids1' ids1 Hn1 Hk1]; subst.
  inversion H2 as [i2 k2 tk2 ao2 kids2 ids2 Hn2 Hk2]; subst.
  rewrite Hn1 in Hn2. injection Hn2 as <- <- <-. f_equal.
  clear Hn1 H1 H2. revert kids2 Hk2. induction Hk1 as [|c kc ids kids1 Hc _ IHk]; intros kids2 Hk2.
  - inversion Hk2. reflexivity.
  - inversion Hk2 as [|c' kc2 ids' kids2' Hc2 Hk2']; subst. inversion IH; subst.
    destruct kc as [k1 t1], kc2 as [k2 t2]. simpl in *.
    assert (k1 = k2).
    { destruct (shape_root_node _ _ _ _ Hc) as (n1 & Hn1 & Hk1' & _).
      destruct (shape_root_node _ _ _ _ Hc2) as (n2 & Hn2 & Hk2'' & _). congruence. }
    subst k2. rewrite (H1 k1 c t2 Hc Hc2). f_equal. apply IHk; auto.
Qed.

Lemma shape_key hp r key key' t t' : shape hp r key t -> shape hp r key' t' -> key = key'.
Proof.
  intros H1 H2. destruct (shape_root_node _ _ _ _ H1) as (n1 & Hn1 & Hk1 & _).
  destruct (shape_root_node _ _ _ _ H2) as (n2 & Hn2 & Hk2 & _). congruence.
Qed.

Lemma tree_names_eq tk ao kids :
  tree_names (Tree tk ao kids) = ao ++ flat_map (fun kc => tree_names (snd kc)) kids.
Proof.
  simpl. f_equal. induction kids as [|[k c] r IH]; simpl; [reflexivity|]. rewrite IH. reflexivity.
Qed.

Lemma render_S_mono : forall f st i x, render f st i = Some x -> render (S f) st i = Some x.
Proof.
  induction f as [|f IH]; intros st i x Hr; [discriminate|].
  rewrite render_S in Hr. rewrite render_S. destruct (get st i) as [n|]; [|discriminate].
  unfold rnode in *. destruct (all_some (map (render f st) (n_children n))) as [ks|] eqn:Ek; [|discriminate].
  rewrite (all_some_weaken _ (render (S f) st) _ _ Ek); [exact Hr|]. intros c y _ Hc. apply IH. exact Hc.
Qed.

Lemma render_le f f' st i x : f <= f' -> render f st i = Some x -> render f' st i = Some x.
Proof. induction 1; auto. intros. apply render_S_mono. auto. Qed.

(* what C12 says about one run: every user type and every use-site schema renders as the pure
   closure, for every rendering fuel that is large enough *)
Definition renders_as_spec (e : env) (w : world) : Prop :=
  forall fuel, 2 * env_size e + 3 <= fuel ->
    Forall2 (fun (a : bytes * option tree) (b : bytes * option id) =>
               fst a = fst b /\
               match snd a, snd b with
               | Some t, Some r => render fuel (w_state w) r = spec_schema e t
               | None, None => True
               | _, _ => False
               end) (e_types e) (w_types w) /\
    Forall2 (fun (a : ukind * tree) (b : ukind * id) =>
               fst a = fst b /\ render fuel (w_state w) (snd b) = spec_schema e (snd a))
            (e_uses e) (w_uses w).

Definition twf (t : tree) : Prop := exists f, tree_wf f t = true.

Lemma twf_kids tk ao kids : twf (Tree tk ao kids) -> forall kc, In kc kids -> twf (snd kc).
Proof.
  intros [f Hf] kc Hin. destruct f as [|f]; [discriminate|]. simpl in Hf.
  apply andb_true_iff in Hf as [Hf _]. rewrite forallb_forall in Hf. exists f. auto.
Qed.

Lemma twf_rootwf t : twf t -> rootwf t.
Proof. intros [f Hf]. eapply tree_wf_rootwf; eauto. Qed.

Lemma twf_other_no_kids ao kids : twf (Tree TOther ao kids) -> kids = [].
Proof.
  intros [f Hf]. destruct f as [|f]; [discriminate|]. simpl in Hf.
  apply andb_true_iff in Hf as [_ Hf]. apply andb_true_iff in Hf as [Hf _]. destruct kids; [reflexivity|discriminate].
Qed.

Lemma troot_tskel t : troot t -> tskel t.
Proof.
  destruct t as [tk ao kids]. simpl. intros Hp. destruct ao.
  - apply tskel_inner. eapply Forall_impl; [|exact Hp]. intros kc. apply tplain_tskel.
  - apply tskel_rule. exact Hp.
Qed.

(* the class of allof_correct_skeleton, as a proposition *)
Definition skeleton_prop (e : env) : Prop :=
  (forall n t, In (n, Some t) (e_types e) -> tskel t) /\
  (forall k t, In (k, t) (e_uses e) -> tskel t) /\
  (forall b t, In b (env_names e) -> lookup (e_types e) b = Some (Some t) -> troot t).

Lemma env_skeleton_prop e : env_skeleton e = true -> skeleton_prop e.
Proof.
  intros Hskel. unfold env_skeleton in Hskel. apply andb_true_iff in Hskel as [H12 H3]. apply andb_true_iff in H12 as [H1 H2].
  rewrite forallb_forall in H1, H2, H3. repeat split.
  - intros n t Hin. apply (tree_skel_tskel (S (tree_size t))). apply (H1 (n, Some t) Hin).
  - intros k t Hin. apply (tree_skel_tskel (S (tree_size t))). apply (H2 (k, t) Hin).
  - intros b t Hb Hl. specialize (H3 b Hb). rewrite Hl in H3. apply root_level_troot. exact H3.
Qed.

Lemma env_root_level_prop e : env_root_level e = true -> skeleton_prop e.
Proof.
  intros Hroot. unfold env_root_level in Hroot. apply andb_true_iff in Hroot as [H1 H2].
  rewrite forallb_forall in H1, H2. repeat split.
  - intros n t Hin. apply troot_tskel. apply root_level_troot. apply (H1 (n, Some t) Hin).
  - intros k t Hin. apply troot_tskel. apply root_level_troot. apply (H2 (k, t) Hin).
  - intros b t _ Hl. apply lookup_In in Hl. apply root_level_troot. apply (H1 (b, Some t) Hl).
Qed.

Section Final.
  Variable e : env.
  Hypothesis Hlib : lib_ok e = true.
  Hypothesis Hskel : skeleton_prop e.

  Let F := env_size e.
  Let K := S F.
  Let D := spec_fuel e.
  Let tys := e_types e.
  Let ts := w_types (init_world e).
  Let us := w_uses (init_world e).
  Let st0 := w_state (init_world e).
  Let priv := privK K (heap st0).
  Let isbase (b : bytes) : Prop := In b (env_names e).

  Lemma lib_facts :
    (forall n, In n (map fst tys) -> n <> []) /\ NoDup (map fst tys) /\
    (forall n t, In (n, Some t) tys -> schema_ok e t = true) /\
    (forall k t, In (k, t) (e_uses e) -> schema_ok e t = true).
  Proof.
    unfold lib_ok in Hlib. apply andb_true_iff in Hlib as [H123 H4].
    apply andb_true_iff in H123 as [H12a H3]. apply andb_true_iff in H12a as [H12 _].
    apply andb_true_iff in H12 as [H1 H2].
    rewrite forallb_forall in H1, H3, H4. repeat split.
    - intros n Hin. specialize (H1 n Hin). destruct n; [discriminate|discriminate].
    - apply nodupb_NoDup. exact H2.
    - intros n t Hin. apply (H3 (n, Some t) Hin).
    - intros k t Hin. apply (H4 (k, t) Hin).
  Qed.

  Lemma schema_facts t :
    schema_ok e t = true ->
    twf t /\ exists x, spec_tree D tys None t = Some x /\ rtree_ok x = true.
  Proof.
    unfold schema_ok. intros Hs. apply andb_true_iff in Hs as [Hw Hs]. split; [eexists; eauto|].
    unfold spec_schema in Hs. fold D tys in Hs. destruct (spec_tree D tys None t) as [x|]; [|discriminate].
    exists x. auto.
  Qed.

  Lemma skeleton_facts :
    (forall n t, In (n, Some t) tys -> tskel t) /\ (forall k t, In (k, t) (e_uses e) -> tskel t) /\
    (forall b t, isbase b -> lookup tys b = Some (Some t) -> troot t).
  Proof. exact Hskel. Qed.

  Lemma names_type n t b : In (n, Some t) tys -> In b (tree_names t) -> isbase b.
  Proof.
    intros Hin Hb. unfold isbase, env_names. apply in_or_app. left. apply in_flat_map.
    exists (n, Some t). split; auto.
  Qed.

  Lemma names_use k t b : In (k, t) (e_uses e) -> In b (tree_names t) -> isbase b.
  Proof.
    intros Hin Hb. unfold isbase, env_names. apply in_or_app. right. apply in_flat_map.
    exists (k, t). split; auto.
  Qed.

  Lemma isbase_closed b tk ao kids b' :
    isbase b -> lookup tys b = Some (Some (Tree tk ao kids)) -> In b' ao -> isbase b'.
  Proof.
    intros _ Hl Hb'. apply lookup_In in Hl. apply (names_type b (Tree tk ao kids) b' Hl).
    rewrite tree_names_eq. apply in_or_app. left. exact Hb'.
  Qed.

  Lemma tys_size n t : In (n, Some t) tys -> tree_size t <= S F.
  Proof. intros Hin. apply size_in_types in Hin. unfold F, env_size. fold tys. lia. Qed.

  Lemma uses_size k t : In (k, t) (e_uses e) -> tree_size t <= S F.
  Proof. intros Hin. apply size_in_uses in Hin. unfold F, env_size. lia. Qed.

  Lemma init_facts :
    aokl K (heap st0) /\ memo st0 = [] /\
    Forall2 (tymatch (heap st0)) tys ts /\ Forall2 (usematch (heap st0)) (e_uses e) us.
  Proof.
    destruct skeleton_facts as (St & Su & _).
    destruct (init_shapes e) as [Hmt Hmu]. fold tys ts us st0 in Hmt, Hmu.
    split; [|split; [|split; [exact Hmt|exact Hmu]]].
    - unfold st0, init_world. fold tys.
      assert (Ha1 : aokl K (fst (build_types [] tys))).
      { apply build_types_aokl.
        - intros i n Hn. destruct i; discriminate.
        - intros n t Hin. split; [eapply St; eauto|]. unfold K. eapply tys_size; eauto. }
      destruct (build_types [] tys) as [h1 ts']. simpl in Ha1.
      assert (Ha2 : aokl K (fst (build_uses h1 (e_uses e)))).
      { apply build_uses_aokl; auto. intros k t Hin. split; [eapply Su; eauto|]. unfold K. eapply uses_size; eauto. }
      destruct (build_uses h1 (e_uses e)) as [h2 us']. exact Ha2.
    - unfold st0, init_world. destruct (build_types [] (e_types e)) as [h1 ts'].
      destruct (build_uses h1 (e_uses e)) as [h2 us']. reflexivity.
  Qed.

  (* a root: an object (or anything) whose children are plain, inside a schema the library accepted *)
  Definition isroot_e (r : id) : Prop :=
    exists key tk ao kids x,
      shape (heap st0) r key (Tree tk ao kids) /\ troot (Tree tk ao kids) /\
      tree_size (Tree tk ao kids) <= S F /\ rootwf (Tree tk ao kids) /\
      (forall b, In b ao -> isbase b) /\
      spec_tree D tys key (Tree tk ao kids) = Some x /\ rtree_ok x = true.

  Lemma root_expected r :
    isroot_e r ->
    exists key tk ao kids x L,
      shape (heap st0) r key (Tree tk ao kids) /\ spec_tree D tys key (Tree tk ao kids) = Some x /\
      expected ts st0 D r = Some L /\ all_some (map (rnode F st0) L) = Some (rkids x) /\
      x = RNode key tk [] (rkids x) /\
      (tk = TObject -> NoDup (map n_key L)) /\ rootwf (Tree tk ao kids) /\ troot (Tree tk ao kids) /\
      tree_size (Tree tk ao kids) <= S F /\ (forall b, In b ao -> isbase b).
  Proof.
    intros (key & tk & ao & kids & x & Hs & Ht & Hsz & Hw & Hb & Hx & Hok).
    destruct init_facts as (_ & _ & Hmt & _). destruct skeleton_facts as (_ & _ & Sb).
    destruct (expected_spec tys ts st0 F isbase Hmt Sb isbase_closed tys_size D r key tk ao kids x Hs Ht (proj1 Hw) Hsz Hb Hx)
      as (L & HL & Hrn & Hxeq).
    exists key, tk, ao, kids, x, L. split; [exact Hs|]. split; [exact Hx|]. split; [exact HL|]. split; [exact Hrn|].
    split; [exact Hxeq|]. split; [|split; [exact Hw|split; [exact Ht|split; [exact Hsz|exact Hb]]]].
    intros ->. rewrite Hxeq in Hok. simpl in Hok. apply andb_true_iff in Hok as [_ Hok].
    destruct (keys_of (rkids x)) as [l|] eqn:Hl; [|discriminate]. apply nodupb_NoDup in Hok.
    apply rnodes_keys in Hrn. apply keys_of_map in Hl.
    assert (Hm : map n_key L = map Some l) by congruence. rewrite Hm. apply NoDup_map_Some. exact Hok.
  Qed.

  Lemma type_root_is_root b rb :
    isbase b -> lookup ts b = Some (Some rb) -> isroot_e rb.
  Proof.
    intros Hb Hl. destruct init_facts as (_ & _ & Hmt & _). destruct skeleton_facts as (_ & _ & Sb).
    destruct lib_facts as (_ & _ & St & _).
    assert (Hlm := lookup_match _ _ _ b Hmt). rewrite Hl in Hlm.
    destruct (lookup tys b) as [[t|]|] eqn:El; try (destruct Hlm; fail).
    assert (Hin := lookup_In _ _ _ El). destruct (schema_facts t (St _ _ Hin)) as (Hw & x & Hx & Hok).
    destruct t as [tk ao kids]. exists None, tk, ao, kids, x.
    repeat split; auto.
    - apply (Sb b); auto.
    - eapply tys_size; eauto.
    - apply (proj1 (twf_rootwf _ Hw)).
    - apply (proj2 (twf_rootwf _ Hw)).
    - intros b' Hb'. eapply isbase_closed; eauto.
  Qed.

  Lemma root_not_priv r : isroot_e r -> ~ priv r.
  Proof.
    intros (key & tk & ao & kids & x & Hs & Ht & Hsz & _) (n & Hn & Ha & Hb).
    destruct (shape_root_node _ _ _ _ Hs) as (n' & Hn' & _ & _ & _ & Hao). rewrite Hn in Hn'. injection Hn' as <-.
    assert (Hp : tplain (Tree tk ao kids)).
    { rewrite Ha in Hao. subst ao. constructor. exact Ht. }
    assert (Hph := shape_plainh _ st0 r key Hs Hp).
    apply (plainh_le _ K) in Hph; [|exact Hsz]. apply plainb_plainh in Hph. unfold priv in *. congruence.
  Qed.

  (* every node of a skeleton schema is a skeleton of the heap-level theory *)
  Lemma skel_of_tree : forall t, tskel t -> twf t ->
    forall i key d x, shape (heap st0) i key t -> tree_size t <= S F ->
    (forall b, In b (tree_names t) -> isbase b) ->
    spec_tree d tys key t = Some x -> d <= D -> rtree_ok x = true ->
    skel priv st0 F isroot_e (tree_size t) i.
  Proof.
    induction t as [tk ao kids IH] using tree_ind'. intros Hs Hw i key d x Hsh Hsz Hnames Hx Hd Hok.
    rewrite tree_size_eq. cbn [skel].
    inversion Hs as [tk' a ao' kids' Hpk|tk' kids' Hsk]; subst.
    - left. exists key, tk, (a :: ao'), kids, x. repeat split; auto.
      + apply (proj1 (twf_rootwf _ Hw)).
      + apply (proj2 (twf_rootwf _ Hw)).
      + intros b Hb. apply Hnames. rewrite tree_names_eq. apply in_or_app. left. exact Hb.
      + apply (spec_tree_le d D); auto.
    - destruct (tplain_dec (Tree tk [] kids)) as [Hp|Hnp].
      + right. left. apply (plainh_le (tree_size (Tree tk [] kids))); [exact Hsz|].
        apply (shape_plainh _ st0 i key); auto.
      + right. right. inversion Hsh as [i' key' tk' ao' kids' ids Hn Hk]; subst.
        split.
        { exists {| n_key := key; n_tok := tk; n_allof := []; n_children := ids; n_inh := [] |}.
          split; [exact Hn|]. split; [reflexivity|].
          destruct (plainb K (heap st0) i) eqn:Eb; [|reflexivity].
          exfalso. apply Hnp. apply plainb_plainh in Eb. eapply shape_plain_conv; eauto. }
        eexists. split; [exact Hn|]. split; [reflexivity|]. simpl. split.
        { destruct tk; auto. exfalso. apply Hnp. rewrite (twf_other_no_kids _ _ Hw). constructor. constructor. }
        (* the children *)
        destruct d as [|d]; [discriminate|]. simpl in Hx.
        destruct (all_some (map (fun kc => spec_tree d tys (fst kc) (snd kc)) kids)) as [own|] eqn:Eo; [|discriminate].
        assert (Hxo : forallb rtree_ok own = true).
        { destruct tk; simpl in Hx; injection Hx as <-; simpl in Hok; apply andb_true_iff in Hok as [Hok _]; exact Hok. }
        rewrite tree_size_eq in Hsz.
        assert (Hnk : forall kc, In kc kids -> forall b, In b (tree_names (snd kc)) -> isbase b).
        { intros kc Hin b Hb. apply Hnames. rewrite tree_names_eq. simpl. apply in_flat_map. exists kc. auto. }
        assert (Hwk := twf_kids _ _ _ Hw).
        assert (Hszk : forall kc, In kc kids -> tree_size (snd kc) <= kids_size kids) by (intros; apply kids_size_In; auto).
        remember (kids_size kids) as m eqn:Em. clear Em.
        clear Hn Hsh Hs Hw Hnames Hnp Hx Hok. revert own Eo Hxo IH Hsk Hnk Hwk Hszk.
        induction Hk as [|c kc ids kids Hc _ IHk]; intros own Eo Hxo IH Hsk Hnk Hwk Hszk; constructor.
        * simpl in Eo. destruct (spec_tree d tys (fst kc) (snd kc)) as [xk|] eqn:Ek; [|discriminate].
          destruct (all_some (map (fun kc0 => spec_tree d tys (fst kc0) (snd kc0)) kids)) as [own'|]; [|discriminate].
          injection Eo as <-. simpl in Hxo. apply andb_true_iff in Hxo as [Hxk _].
          inversion IH; subst. inversion Hsk; subst.
          apply (skel_le priv st0 F isroot_e (tree_size (snd kc))); [apply Hszk; simpl; auto|].
          apply (H1 H3 (Hwk kc (or_introl eq_refl)) c (fst kc) d xk); auto.
          -- specialize (Hszk kc (or_introl eq_refl)). lia.
          -- apply Hnk. simpl; auto.
          -- lia.
        * simpl in Eo. destruct (spec_tree d tys (fst kc) (snd kc)) as [xk|]; [|discriminate].
          destruct (all_some (map (fun kc0 => spec_tree d tys (fst kc0) (snd kc0)) kids)) as [own'|] eqn:Eo'; [|discriminate].
          injection Eo as <-. simpl in Hxo. apply andb_true_iff in Hxo as [_ Hxo'].
          inversion IH; subst. inversion Hsk; subst.
          apply (IHk own'); auto.
          -- intros kc0 Hin. apply Hnk. simpl; auto.
          -- intros kc0 Hin. apply Hwk. simpl; auto.
          -- intros kc0 Hin. apply Hszk. simpl; auto.
  Qed.

  Lemma keyed_of_keys : forall (l1 : list node) (l2 : list (option bytes * tree)),
    map n_key l1 = map fst l2 ->
    Forall (fun kc : option bytes * tree => exists k, fst kc = Some k) l2 -> Forall keyed l1.
  Proof.
    induction l1 as [|a l1 IHl]; intros l2 Hm Hf; [constructor|].
    destruct l2 as [|b l2]; [discriminate|]. simpl in Hm. injection Hm as Ha Hm.
    inversion Hf; subst. constructor; eauto. destruct H1 as (k & Hk'). exists k. congruence.
  Qed.

  Lemma roots0_e r : isroot_e r ->
    exists n own, get st0 r = Some n /\ cnodes st0 r = Some own /\
                  Forall (pnode F st0) own /\ Forall (fun c => n_inh c = []) own /\
                  (n_tok n = TObject -> Forall keyed own) /\ (n_allof n <> [] -> n_tok n = TObject).
  Proof.
    intros (key & tk & ao & kids & x & Hs & Ht & Hsz & Hw & _).
    destruct (root_facts tys st0 F r key tk ao kids Hs Ht Hsz) as (ids & own & Hn & Hown & Hp & Hi & Hk & _).
    eexists. exists own. split; [exact Hn|]. split; [exact Hown|]. split; [exact Hp|]. split; [exact Hi|].
    simpl. split; [|exact (proj1 Hw)].
    intros ->. apply (keyed_of_keys own kids Hk). apply (proj2 Hw). reflexivity.
  Qed.

  Lemma base_is_root_e r n b rb :
    isroot_e r -> get st0 r = Some n -> In b (n_allof n) -> lookup ts b = Some (Some rb) -> isroot_e rb.
  Proof.
    intros (key & tk & ao & kids & x & Hs & _ & _ & _ & Hb & _) Hn Hin Hl.
    destruct (shape_root_node _ _ _ _ Hs) as (n' & Hn' & _ & _ & _ & Hao).
    unfold get in Hn. rewrite Hn' in Hn. injection Hn as <-. rewrite Hao in Hin.
    apply (type_root_is_root b rb); auto.
  Qed.

  Lemma render_skel st' : Top priv ts st0 isroot_e st' ->
    forall h i key t d x, skeldone priv ts st0 F isroot_e h st' i -> shape (heap st0) i key t ->
      tree_size t <= S F -> spec_tree d tys key t = Some x -> render (S (S F) + h) st' i = Some x.
  Proof.
    intros HT. assert (HE := top_ext _ _ _ _ _ HT).
    induction h as [|h IH]; intros i key t d x Hsd Hsh Hsz Hx; [destruct Hsd|].
    destruct Hsd as [[Hr Hd]|[Hp|(Hp & n & Hn & Ha & Hc)]].
    - (* a root, visited *)
      destruct (root_expected i Hr) as (key' & tk & ao & kids & x' & L' & Hs' & Hx' & HL' & Hrn & Hxeq & _).
      assert (key' = key) by (eapply shape_key; eauto). subst key'.
      assert (t = Tree tk ao kids) by (eapply shape_fun; eauto). subst t.
      assert (x' = x).
      { apply (spec_tree_le _ (max D d)) in Hx'; [|lia]. apply (spec_tree_le _ (max D d)) in Hx; [|lia]. congruence. }
      subst x'. destruct Hd as (L & HEx & HL).
      rewrite (Ex_fun ts st0 i L L' HEx (ex_intro _ D HL')) in HL.
      destruct (shape_root_node _ _ _ _ Hsh) as (n0 & Hn0 & Hk0 & Hi0 & Ht0 & _).
      apply (render_le (S (S F))); [lia|].
      rewrite (render_root st0 st' F i n0 L'); auto.
      + rewrite Hrn, Hk0, Ht0, Hi0. rewrite Hxeq at 2. reflexivity.
      + destruct (Ex_nodes ts st0 F isroot_e base_is_root_e roots0_e D i L' Hr HL') as [Hpn _]. exact Hpn.
    - (* a plain subtree: untouched *)
      assert (Htp : tplain t) by (eapply shape_plain_conv; eauto).
      rewrite (render_plain_ext (S F) st0 st' i); auto; [|lia].
      apply (render_plain_spec tys t st0 i key d x); auto. lia.
    - (* an inner node: untouched itself, its children by induction *)
      inversion Hsh as [i' key' tk ao kids ids Hnn Hk]; subst.
      unfold get in Hn. rewrite Hnn in Hn. injection Hn as <-. simpl in Ha, Hc. subst ao.
      assert (Hg' : get st' i = Some {| n_key := key; n_tok := tk; n_allof := []; n_children := ids; n_inh := [] |}).
      { apply (ext_plain _ _ HE); auto. }
      destruct d as [|d]; [discriminate|]. simpl in Hx.
      destruct (all_some (map (fun kc => spec_tree d tys (fst kc) (snd kc)) kids)) as [own|] eqn:Eo; [|discriminate].
      assert (Hxe : x = RNode key tk [] own).
      { destruct tk; simpl in Hx; injection Hx as <-; reflexivity. }
      subst x. replace (S (S F) + S h) with (S (S (S F) + h)) by lia.
      rewrite render_S, Hg'. unfold rnode. cbn [n_children n_key n_tok n_inh].
      assert (all_some (map (render (S (S F) + h) st') ids) = Some own) as ->; [|reflexivity].
      rewrite tree_size_eq in Hsz.
      assert (Hszk : forall kc, In kc kids -> tree_size (snd kc) <= S F).
      { intros kc Hin. apply kids_size_In in Hin. lia. }
      clear Hnn Hsh Hg' Hx Hp Hsz. revert own Eo Hc Hszk.
      induction Hk as [|c kc ids kids Hck _ IHk]; intros own Eo Hc Hszk; simpl in *.
      + exact Eo.
      + destruct (spec_tree d tys (fst kc) (snd kc)) as [xk|] eqn:Ek; [|discriminate].
        destruct (all_some (map (fun kc0 => spec_tree d tys (fst kc0) (snd kc0)) kids)) as [own'|] eqn:Eo'; [|discriminate].
        injection Eo as <-. inversion Hc; subst.
        rewrite (IH c (fst kc) (snd kc) d xk); auto.
        rewrite (IHk own'); auto.
  Qed.

  Theorem allof_correct_skeleton_lemma :
    exists w, run e = ROk w /\ renders_as_spec e w /\
              w_types w = w_types (init_world e) /\ w_uses w = w_uses (init_world e) /\
              (forall i n, get (w_state (init_world e)) i = Some n -> n_allof n = [] -> get (w_state w) i = Some n).
  Proof.
    destruct init_facts as (Haok & Hmemo & Hmt & Hmu). destruct skeleton_facts as (Skt & Sku & Sb).
    destruct lib_facts as (Hne & Hnd & St & Su).
    assert (Hfst : map fst ts = map fst tys) by (apply (match_fst _ _ _ Hmt)).
    assert (HexD : forall r, isroot_e r -> expected ts st0 D r <> None).
    { intros r Hr. destruct (root_expected r Hr) as (? & ? & ? & ? & ? & L & _ & _ & HL & _). congruence. }
    destruct (process_all_ok priv ts st0 F isroot_e (rankD ts st0 D) base_is_root_e) with
        (M := D + F + 2) (fuel := default_fuel e) (h := S F) (uses := us)
      as (st' & Hrun & HT & Hdt & Hdu).
    - apply aokl_heap_ok. exact Haok.
    - exact root_not_priv.
    - intros b r [Hb _]. apply Hne. rewrite <- Hfst. apply lookup_In in Hb.
      change b with (fst (b, Some r)). apply in_map. exact Hb.
    - exact roots0_e.
    - intros r n b rb Hr Hn Hb [Hrb Hrr]. apply (rankD_ok ts st0 D r n b rb); auto.
    - intros r n L Hr Hn Hao HE.
      destruct (root_expected r Hr) as (key & tk & ao & kids & x & L' & Hs & _ & HL' & _ & _ & Hnd' & Hw & _).
      rewrite (Ex_fun ts st0 r L L' HE (ex_intro _ D HL')). apply Hnd'.
      destruct (shape_root_node _ _ _ _ Hs) as (n' & Hn' & _ & _ & Htk & Hao').
      unfold get in Hn. rewrite Hn' in Hn. injection Hn as <-. apply (proj1 Hw). congruence.
    - intros r Hr. destruct (root_expected r Hr) as (? & ? & ? & ? & ? & L & _ & _ & HL & _). exists L, D. exact HL.
    - intros r Hr.
      assert (Hle : rankD ts st0 D r <= D).
      { destruct (expected ts st0 D r) as [L|] eqn:EL; [|exfalso; apply (HexD r Hr); exact EL].
        apply (rankD_le ts st0 D r D L); auto; try (rewrite EL; discriminate). }
      lia.
    - lia.
    - (* every user type is a skeleton *)
      intros name r Hin.
      destruct (In_match _ _ _ name r Hmt Hin) as (t & Hint & Hsh).
      destruct (schema_facts t (St _ _ Hint)) as (Hw & x & Hx & Hok).
      apply (skel_le _ _ _ _ (tree_size t)); [eapply tys_size; eauto|].
      apply (skel_of_tree t (Skt _ _ Hint) Hw r None D x); auto.
      + eapply tys_size; eauto.
      + intros b Hb. eapply names_type; eauto.
    - (* every use-site schema is a skeleton *)
      intros k r Hin.
      destruct (Forall2_In_r _ _ _ _ Hmu Hin) as ([k' t] & Hin' & (Hk & Hsh)). simpl in Hk, Hsh. subst k'.
      destruct (schema_facts t (Su _ _ Hin')) as (Hw & x & Hx & Hok).
      apply (skel_le _ _ _ _ (tree_size t)); [eapply uses_size; eauto|].
      apply (skel_of_tree t (Sku _ _ Hin') Hw r None D x); auto.
      + eapply uses_size; eauto.
      + intros b Hb. eapply names_use; eauto.
    - unfold default_fuel, D, spec_fuel, F. lia.
    - exact Hmemo.
    - exists {| w_types := ts; w_uses := us; w_state := st' |}.
      assert (Hrun' : run e = ROk {| w_types := ts; w_uses := us; w_state := st' |}).
      { unfold run, run_fuel. fold ts us st0. rewrite Hrun. reflexivity. }
      split; [exact Hrun'|]. split.
      + intros fuel Hfuel. simpl. split.
        * assert (G : forall l1 l2, Forall2 (tymatch (heap st0)) l1 l2 ->
                      (forall n r, In (n, Some r) l2 -> In (n, Some r) ts) ->
                      (forall n t, In (n, Some t) l1 -> In (n, Some t) tys) ->
                      Forall2 (fun (a : bytes * option tree) (b : bytes * option id) =>
                                 fst a = fst b /\ match snd a, snd b with
                                                  | Some t, Some r => render fuel st' r = spec_schema e t
                                                  | None, None => True
                                                  | _, _ => False end) l1 l2).
          { induction 1 as [|[n1 o1] [n2 o2] l1 l2 [Hk Hm] _ IH]; intros Hsub Hsub1; constructor.
            - simpl in *. split; auto. destruct o1 as [t|], o2 as [r|]; auto.
              assert (Hin : In (n2, Some r) ts) by (apply Hsub; auto).
              assert (Hint : In (n1, Some t) tys) by (apply Hsub1; auto).
              destruct (schema_facts t (St _ _ Hint)) as (_ & x & Hx & _).
              unfold spec_schema. fold D tys. rewrite Hx.
              apply (render_le (S (S F) + S F)); [unfold F in *; lia|].
              apply (render_skel st' HT (S F) r None t D x); [apply (Hdt n2 r Hin)|exact Hm|eapply tys_size; eauto|exact Hx].
            - apply IH; intros; [apply Hsub|apply Hsub1]; simpl; auto. }
          apply G; auto.
        * assert (G : forall l1 l2, Forall2 (usematch (heap st0)) l1 l2 ->
                      (forall k r, In (k, r) l2 -> In (k, r) us) ->
                      (forall k t, In (k, t) l1 -> In (k, t) (e_uses e)) ->
                      Forall2 (fun (a : ukind * tree) (b : ukind * id) =>
                                 fst a = fst b /\ render fuel st' (snd b) = spec_schema e (snd a)) l1 l2).
          { induction 1 as [|[k1 t] [k2 r] l1 l2 [Hk Hm] _ IH]; intros Hsub Hsub1; constructor.
            - simpl in *. subst k2. split; auto.
              assert (Hin : In (k1, r) us) by (apply Hsub; auto).
              assert (Hint : In (k1, t) (e_uses e)) by (apply Hsub1; auto).
              destruct (schema_facts t (Su _ _ Hint)) as (_ & x & Hx & _).
              unfold spec_schema. fold D tys. rewrite Hx.
              apply (render_le (S (S F) + S F)); [unfold F in *; lia|].
              apply (render_skel st' HT (S F) r None t D x); [apply (Hdu k1 r Hin)|exact Hm|eapply uses_size; eauto|exact Hx].
            - apply IH; intros; [apply Hsub|apply Hsub1]; simpl; auto. }
          apply G; auto.
      + split; [reflexivity|]. split; [reflexivity|].
        intros i n Hi Ha. simpl. apply (ext_plain _ _ (top_ext _ _ _ _ _ HT)); auto.
  Qed.
End Final.

Lemma allof_correct_skeleton_bool :
  forall e, lib_ok e = true -> env_skeleton e = true ->
  exists w, run e = ROk w /\ renders_as_spec e w /\
            w_types w = w_types (init_world e) /\ w_uses w = w_uses (init_world e) /\
            (forall i n, get (w_state (init_world e)) i = Some n -> n_allof n = [] -> get (w_state w) i = Some n).
Proof. intros e Hl Hs. apply allof_correct_skeleton_lemma; auto. apply env_skeleton_prop. exact Hs. Qed.

Lemma allof_correct_rootlevel_lemma :
  forall e, lib_ok e = true -> env_root_level e = true ->
  exists w, run e = ROk w /\ renders_as_spec e w /\
            w_types w = w_types (init_world e) /\ w_uses w = w_uses (init_world e) /\
            (forall i n, get (w_state (init_world e)) i = Some n -> n_allof n = [] -> get (w_state w) i = Some n).
Proof. intros e Hl Hr. apply allof_correct_skeleton_lemma; auto. apply env_root_level_prop. exact Hr. Qed.

(* ------------------------------------------------------------------------------------- *)
(* the closure does not depend on fuel (once defined) nor on the order of the declarations *)

Lemma lookup_not_in {A} (l : list (bytes * A)) k : ~ In k (map fst l) -> lookup l k = None.
Proof.
  induction l as [|[k' a] l IH]; simpl; intros Hn; [reflexivity|].
  destruct (beq k' k) eqn:E.
  - apply beq_eq in E. subst. exfalso. auto.
  - apply IH. auto.
Qed.

Lemma lookup_perm {A} (l1 l2 : list (bytes * A)) :
  Permutation l1 l2 -> NoDup (map fst l1) -> forall b, lookup l1 b = lookup l2 b.
Proof.
  induction 1 as [|[k a] l1 l2 Hp IH|[k1 a1] [k2 a2] l|l1 l2 l3 H1 IH1 H2 IH2]; intros Hnd b; simpl.
  - reflexivity.
  - inversion Hnd; subst. rewrite IH; auto.
  - simpl in Hnd. inversion Hnd as [|? ? Hn1 Hnd']; subst.
    destruct (beq k1 b) eqn:E1, (beq k2 b) eqn:E2; auto.
    apply beq_eq in E1. apply beq_eq in E2. subst. exfalso. apply Hn1. simpl. auto.
  - rewrite IH1; auto. apply IH2. eapply Permutation_NoDup; [|exact Hnd]. apply Permutation_map. exact H1.
Qed.

Lemma Forall2_pick {A B} (R : A -> B -> Prop) (ka : A -> bytes) (kb : B -> bytes) l1 l2 a b :
  Forall2 R l1 l2 -> (forall x y, R x y -> ka x = kb y) -> NoDup (map ka l1) ->
  In a l1 -> In b l2 -> ka a = kb b -> R a b.
Proof.
  intros HF Hk. induction HF as [|x y l1 l2 Hxy HF' IH]; simpl; intros Hnd Ha Hb Heq; [destruct Ha|].
  inversion Hnd as [|? ? Hnot Hnd']; subst.
  destruct Ha as [<-|Ha], Hb as [<-|Hb]; auto.
  - exfalso. apply Hnot. destruct (Forall2_In_r _ _ _ _ HF' Hb) as (x' & Hx' & Hr').
    rewrite Heq, <- (Hk _ _ Hr'). apply in_map. exact Hx'.
  - exfalso. apply Hnot. rewrite (Hk _ _ Hxy), <- Heq. apply in_map. exact Ha.
Qed.

Lemma lib_ok_nodup e : lib_ok e = true -> NoDup (map fst (e_types e)).
Proof. intros Hl. destruct (lib_facts e Hl) as (_ & Hnd & _). exact Hnd. Qed.

(* the rendering of a user type is the same in two projects that declare the same types in any
   order and use them from any (other) schemas *)
Theorem order_independent_lemma e1 e2 :
  lib_ok e1 = true -> lib_ok e2 = true -> env_skeleton e1 = true -> env_skeleton e2 = true ->
  Permutation (e_types e1) (e_types e2) ->
  exists w1 w2, run e1 = ROk w1 /\ run e2 = ROk w2 /\
    forall name t r1 r2 fuel,
      In (name, Some t) (e_types e1) -> In (name, Some r1) (w_types w1) -> In (name, Some r2) (w_types w2) ->
      2 * (env_size e1 + env_size e2) + 3 <= fuel ->
      render fuel (w_state w1) r1 = render fuel (w_state w2) r2 /\ render fuel (w_state w1) r1 <> None.
Proof.
  intros L1 L2 R1 R2 Hperm.
  destruct (allof_correct_skeleton_lemma e1 L1 (env_skeleton_prop e1 R1)) as (w1 & Hrun1 & Hs1 & _).
  destruct (allof_correct_skeleton_lemma e2 L2 (env_skeleton_prop e2 R2)) as (w2 & Hrun2 & Hs2 & _).
  exists w1, w2. split; [exact Hrun1|]. split; [exact Hrun2|].
  intros name t r1 r2 fuel Hin Hr1 Hr2 Hfuel.
  assert (Hnd1 := lib_ok_nodup e1 L1). assert (Hnd2 := lib_ok_nodup e2 L2).
  assert (Hin2 : In (name, Some t) (e_types e2)) by (eapply Permutation_in; eauto).
  destruct (Hs1 fuel ltac:(lia)) as [Ht1 _]. destruct (Hs2 fuel ltac:(lia)) as [Ht2 _].
  assert (P1 := Forall2_pick _ fst fst _ _ (name, Some t) (name, Some r1) Ht1 (fun x y H => proj1 H) Hnd1 Hin Hr1 eq_refl).
  assert (P2 := Forall2_pick _ fst fst _ _ (name, Some t) (name, Some r2) Ht2 (fun x y H => proj1 H) Hnd2 Hin2 Hr2 eq_refl).
  simpl in P1, P2. destruct P1 as [_ P1], P2 as [_ P2]. rewrite P1, P2.
  assert (Hl : forall b, lookup (e_types e1) b = lookup (e_types e2) b) by (apply lookup_perm; auto).
  destruct (lib_facts e1 L1) as (_ & _ & St1 & _). destruct (lib_facts e2 L2) as (_ & _ & St2 & _).
  destruct (schema_facts e1 t (St1 _ _ Hin)) as (_ & x1 & Hx1 & _).
  destruct (schema_facts e2 t (St2 _ _ Hin2)) as (_ & x2 & Hx2 & _).
  unfold spec_schema. rewrite Hx1, Hx2. split; [|discriminate].
  apply (spec_tree_le _ (max (spec_fuel e1) (spec_fuel e2))) in Hx1; [|lia].
  apply (spec_tree_le _ (max (spec_fuel e1) (spec_fuel e2))) in Hx2; [|lia].
  rewrite (spec_tree_lookup_ext _ _ Hl) in Hx1. congruence.
Qed.

(* ------------------------------------------------------------------------------------- *)
(* the error returns of inheritPropertiesFromUserType, statement by statement *)

Lemma inherit_undefined types u proc sc st b :
  lookup types b = None -> inherit types u proc sc st b = RErr (ENotFound b).
Proof. intros Hl. unfold inherit. rewrite Hl. reflexivity. Qed.

Lemma inherit_not_object types u proc sc st b rb n :
  lookup types b = Some (Some rb) -> get st rb = Some n -> n_tok n <> TObject ->
  inherit types u proc sc st b = RErr (ENotObject b).
Proof.
  intros Hl Hg Ht. unfold inherit. rewrite Hl, Hg.
  destruct (tok_eqb (n_tok n) TObject) eqn:E; [apply tok_eqb_eq in E; contradiction|reflexivity].
Qed.

Lemma inherit_nil_content types u proc sc st b :
  lookup types b = Some None -> exists why, inherit types u proc sc st b = RPanic why.
Proof. intros Hl. unfold inherit. rewrite Hl. eauto. Qed.

(* the property of the base at index i has the key of a property of sc that is not inherited *)
Lemma inherit_step_override u name sc rb st i rbn v vn k scn Cs p :
  get st rb = Some rbn -> nth_error (n_children rbn) i = Some v -> get st v = Some vn -> n_key vn = Some k ->
  get st sc = Some scn -> cnodes st sc = Some Cs -> Forall keyed Cs ->
  first_with_key k Cs = Some p -> n_inh p = [] ->
  inherit_step u name sc rb st i = RErr (EOverride k name).
Proof.
  intros Hrb Hv Hgv Hk Hsc HCs HCk Hp Hi. unfold inherit_step. rewrite Hrb, Hv, Hgv, Hk, Hsc.
  unfold cnodes in HCs. rewrite Hsc in HCs. rewrite (object_property_spec st _ Cs k HCs HCk), Hp. simpl.
  rewrite Hi. reflexivity.
Qed.

(* an error of one base, of one property, of one nested schema stops everything *)
Lemma fold_res_err {A B} (f : A -> B -> res A) l1 x l2 a a1 err :
  fold_res f l1 a = ROk a1 -> f a1 x = RErr err -> fold_res f (l1 ++ x :: l2) a = RErr err.
Proof. intros H1 H2. rewrite fold_res_app, H1. simpl. rewrite H2. reflexivity. Qed.

(* ------------------------------------------------------------------------------------- *)
(* Unconditional facts about the stage (ANY project: nested allOf, cycles, clashes): a node
   keeps its key, token type, allOf rule and mark for ever, and its children list only grows at
   the front.  From this: a run that comes back without error has found every base named at the
   root of a user type or of a visited use-site schema, and found it to be an object. *)

Definition mono (st st' : state) : Prop :=
  forall i n, get st i = Some n ->
    exists n', get st' i = Some n' /\ same_but_children n' n /\ exists pre, n_children n' = pre ++ n_children n.

Lemma mono_refl st : mono st st.
Proof. intros i n H. exists n. split; auto. split; [repeat split|exists []; reflexivity]. Qed.

Lemma mono_trans a b c : mono a b -> mono b c -> mono a c.
Proof.
  intros M1 M2 i n H. destruct (M1 i n H) as (n1 & G1 & (K1 & T1 & A1 & I1) & (p1 & C1)).
  destruct (M2 i n1 G1) as (n2 & G2 & (K2 & T2 & A2 & I2) & (p2 & C2)).
  exists n2. split; auto. split; [repeat split; congruence|].
  exists (p2 ++ p1). rewrite C2, C1, app_assoc. reflexivity.
Qed.

Lemma rbind_ok {A B} (x : res A) (f : A -> res B) b : rbind x f = ROk b -> exists a, x = ROk a /\ f a = ROk b.
Proof. destruct x; simpl; try discriminate. eauto. Qed.

Lemma fold_res_mono {B} (f : state -> B -> res state) l :
  (forall a x a', In x l -> f a x = ROk a' -> mono a a') ->
  forall a a', fold_res f l a = ROk a' -> mono a a'.
Proof.
  induction l as [|x l IH]; simpl; intros Hf a a' H.
  - injection H as <-. apply mono_refl.
  - apply rbind_ok in H as (a1 & H1 & H2). eapply mono_trans.
    + eapply Hf; eauto.
    + eapply IH; eauto.
Qed.

Lemma fold_res_split {A B} (f : A -> B -> res A) l1 x l2 a a' :
  fold_res f (l1 ++ x :: l2) a = ROk a' ->
  exists a1 a2, fold_res f l1 a = ROk a1 /\ f a1 x = ROk a2 /\ fold_res f l2 a2 = ROk a'.
Proof.
  rewrite fold_res_app. intros H. apply rbind_ok in H as (a1 & H1 & H2). simpl in H2.
  apply rbind_ok in H2 as (a2 & H2 & H3). eauto.
Qed.

Lemma inherit_step_mono u name sc rb st i st' : inherit_step u name sc rb st i = ROk st' -> mono st st'.
Proof.
  unfold inherit_step. intros H.
  destruct (get st rb) as [rbn|]; [|discriminate].
  destruct (nth_error (n_children rbn) i) as [v|]; [|discriminate].
  destruct (get st v) as [vn|]; [|discriminate].
  destruct (n_key vn) as [k|]; [|discriminate].
  destruct (get st sc) as [scn|] eqn:Esc; [|discriminate].
  apply rbind_ok in H as (p & _ & H). destruct p as [pn|].
  - destruct (n_inh pn); [discriminate|]. injection H as <-. apply mono_refl.
  - set (st1 := match n_inh vn with [] => add_log u name st | _ :: _ => st end) in *.
    assert (Hg1 : forall j, get st1 j = get st j) by (intros j; unfold st1; destruct (n_inh vn); reflexivity).
    change (ROk (push_copy st1 sc scn (set_inh name vn)) = ROk st') in H. injection H as <-.
    intros j n Hj. destruct (Nat.eq_dec j sc) as [->|Hne].
    + rewrite Esc in Hj. injection Hj as <-.
      exists (set_children scn (List.length (heap st1) :: n_children scn)). split.
      * apply push_copy_get_sc. rewrite Hg1. exact Esc.
      * split; [repeat split|]. exists [List.length (heap st1)]. reflexivity.
    + exists n. split; [apply push_copy_get_other; auto; rewrite Hg1; auto|].
      split; [repeat split|exists []; reflexivity].
Qed.

Lemma inherit_loop_mono u name sc rb : forall cnt st st', inherit_loop u name sc rb cnt st = ROk st' -> mono st st'.
Proof.
  induction cnt as [|i IH]; simpl; intros st st' H.
  - injection H as <-. apply mono_refl.
  - apply rbind_ok in H as (s1 & H1 & H2). eapply mono_trans; [eapply inherit_step_mono; eauto|eauto].
Qed.

Lemma inherit_mono types u proc sc st b st' :
  (forall s r s', proc s r = ROk s' -> mono s s') ->
  inherit types u proc sc st b = ROk st' -> mono st st'.
Proof.
  intros Hp. unfold inherit. intros H.
  destruct (lookup types b) as [[rb|]|]; try discriminate.
  destruct (get st rb) as [rbn|]; [|discriminate].
  destruct (negb (tok_eqb (n_tok rbn) TObject)); [discriminate|].
  apply rbind_ok in H as (s1 & H1 & H2).
  assert (M1 : mono st s1).
  { destruct (mem b (memo st)).
    - injection H1 as <-. apply mono_refl.
    - apply Hp in H1. intros i n Hi. apply (H1 i n Hi). }
  destruct (get s1 rb) as [rbn1|]; [|discriminate].
  eapply mono_trans; [exact M1|]. eapply inherit_loop_mono; eauto.
Qed.

Lemma process_mono types u : forall fuel st r st', process types u fuel st r = ROk st' -> mono st st'.
Proof.
  induction fuel as [|f IH]; intros st r st' H; [discriminate|].
  simpl in H. destruct (get st r) as [n|]; [|discriminate].
  destruct (negb (tok_eqb (n_tok n) TObject) && negb (tok_eqb (n_tok n) TArray)); [injection H as <-; apply mono_refl|].
  apply rbind_ok in H as (s1 & H1 & H2).
  assert (M1 : mono st s1).
  { eapply fold_res_mono; [|exact H1]. intros a x a' _ Hx. eapply IH; eauto. }
  eapply mono_trans; [exact M1|].
  destruct (negb (tok_eqb (n_tok n) TObject)); [injection H2 as <-; apply mono_refl|].
  destruct (n_allof n); [injection H2 as <-; apply mono_refl|].
  eapply fold_res_mono; [|exact H2]. intros a x a' _ Hx.
  eapply inherit_mono; [|exact Hx]. intros; eapply IH; eauto.
Qed.

(* what a successful visit of an object with an allOf rule implies for each named base *)
Lemma process_bases types u fuel st r st' n b :
  process types u fuel st r = ROk st' -> get st r = Some n -> n_tok n = TObject -> In b (n_allof n) ->
  exists rb s rbn, lookup types b = Some (Some rb) /\ mono st s /\ get s rb = Some rbn /\ n_tok rbn = TObject.
Proof.
  intros H Hg Ht Hb. destruct fuel as [|f]; [discriminate|]. simpl in H. rewrite Hg, Ht in H. simpl in H.
  apply rbind_ok in H as (s1 & H1 & H2).
  assert (M1 : mono st s1).
  { eapply fold_res_mono; [|exact H1]. intros a x a' _ Hx. eapply process_mono; eauto. }
  destruct (n_allof n) as [|b0 bs0] eqn:Ea; [destruct Hb|].
  assert (Hin : In b (rev (b0 :: bs0))) by (apply in_rev; rewrite rev_involutive; exact Hb).
  apply in_split in Hin as (l1 & l2 & Hl). change (rev bs0 ++ [b0]) with (rev (b0 :: bs0)) in H2. rewrite Hl in H2.
  apply fold_res_split in H2 as (a1 & a2 & F1 & F2 & _).
  assert (M2 : mono s1 a1).
  { eapply fold_res_mono; [|exact F1]. intros a x a' _ Hx.
    eapply inherit_mono; [|exact Hx]. intros; eapply process_mono; eauto. }
  unfold inherit in F2. destruct (lookup types b) as [[rb|]|]; try discriminate.
  destruct (get a1 rb) as [rbn|] eqn:Erb; [|discriminate].
  destruct (tok_eqb (n_tok rbn) TObject) eqn:Et; [|discriminate].
  exists rb, a1, rbn. split; [reflexivity|]. split; [eapply mono_trans; eauto|]. split; auto.
  apply tok_eqb_eq. exact Et.
Qed.

Lemma Forall2_In_l {A B} (R : A -> B -> Prop) l1 l2 a :
  Forall2 R l1 l2 -> In a l1 -> exists b, In b l2 /\ R a b.
Proof.
  induction 1 as [|x y l1 l2 Hxy _ IH]; simpl; intros Hin; [destruct Hin|].
  destruct Hin as [<-|Hin]; [eauto|]. destruct (IH Hin) as (b & Hb & Hr). eauto.
Qed.

Lemma In_number_from_ex {A} (l : list A) n a : In a l -> exists i, In (i, a) (number_from n l).
Proof.
  revert n; induction l as [|b l IH]; simpl; intros n Ha; [destruct Ha|].
  destruct Ha as [<-|Ha]; [exists n; auto|]. destruct (IH (S n) Ha) as (i & Hi). exists i. auto.
Qed.

(* one schema root that process_all visits, in a successful run *)
Lemma visited_root_bases e w r tk ao kids b :
  run e = ROk w ->
  shape (heap (w_state (init_world e))) r None (Tree tk ao kids) -> tk = TObject -> In b ao ->
  (exists s s' u fuel, mono (w_state (init_world e)) s /\ process (w_types (init_world e)) u fuel s r = ROk s') ->
  exists ao' kids', lookup (e_types e) b = Some (Some (Tree TObject ao' kids')).
Proof.
  intros Hrun Hs -> Hb (s & s' & u & fuel & Ms & Hp).
  destruct (init_shapes e) as [Hmt _].
  destruct (shape_root_node _ _ _ _ Hs) as (n0 & Hn0 & _ & _ & Ht0 & Ha0).
  destruct (Ms r n0 Hn0) as (n & Hn & (_ & Ht & Ha & _) & _).
  destruct (process_bases _ _ _ _ _ _ n b Hp Hn) as (rb & sx & rbn & Hl & Mx & Hrb & Htb); [congruence|congruence|].
  assert (Hlm := lookup_match _ _ _ b Hmt). rewrite Hl in Hlm.
  destruct (lookup (e_types e) b) as [[[tkb aob kidsb]|]|]; try (destruct Hlm; fail).
  destruct (shape_root_node _ _ _ _ Hlm) as (nb0 & Hnb0 & _ & _ & Htb0 & _).
  destruct (mono_trans _ _ _ Ms Mx rb nb0 Hnb0) as (nb & Hnb & (_ & Htk & _) & _).
  rewrite Hrb in Hnb. injection Hnb as <-. exists aob, kidsb. f_equal. f_equal. f_equal. congruence.
Qed.

Theorem bases_checked_lemma e w :
  run e = ROk w ->
  (forall name ao kids b, In (name, Some (Tree TObject ao kids)) (e_types e) -> In b ao ->
     exists ao' kids', lookup (e_types e) b = Some (Some (Tree TObject ao' kids'))) /\
  (forall k ao kids b, In (k, Tree TObject ao kids) (e_uses e) -> In b ao ->
     exists ao' kids', lookup (e_types e) b = Some (Some (Tree TObject ao' kids'))).
Proof.
  intros Hrun. destruct (init_shapes e) as [Hmt Hmu].
  assert (Hrun' := Hrun). unfold run, run_fuel in Hrun'.
  apply rbind_ok in Hrun' as (stf & Hall & _). unfold process_all in Hall.
  apply rbind_ok in Hall as (st1 & Hty & Hph).
  apply rbind_ok in Hph as (st2 & Hph & Hrpcpass).
  assert (Mty : mono (w_state (init_world e)) st1).
  { unfold process_types in Hty. eapply fold_res_mono; [|exact Hty].
    intros a x a' _ Hx. cbv beta in Hx. destruct (snd (snd x)); [eapply process_mono; eauto|injection Hx as <-; apply mono_refl]. }
  split.
  - intros name ao kids b Hin Hb.
    destruct (Forall2_In_l _ _ _ _ Hmt Hin) as ([name' o] & Hin' & (Hk & Hm)). simpl in Hk, Hm. subst name'.
    destruct o as [r|]; [|destruct Hm].
    destruct (In_number_from_ex _ 0 _ Hin') as (i & Hi).
    apply in_split in Hi as (l1 & l2 & Hl). unfold process_types in Hty. rewrite Hl in Hty.
    apply fold_res_split in Hty as (a1 & a2 & F1 & F2 & _). simpl in F2.
    apply (visited_root_bases e w r TObject ao kids b Hrun Hm eq_refl Hb).
    exists a1, a2, i, (default_fuel e). split; [|exact F2].
    eapply fold_res_mono; [|exact F1]. intros a x a' _ Hx. cbv beta in Hx.
    destruct (snd (snd x)); [eapply process_mono; eauto|injection Hx as <-; apply mono_refl].
  - intros k ao kids b Hin Hb.
    destruct (Forall2_In_l _ _ _ _ Hmu Hin) as ([k' r] & Hin' & (Hk & Hm)). simpl in Hk, Hm. subst k'.
    destruct (In_number_from_ex _ (List.length (w_types (init_world e))) _ Hin') as (i & Hi).
    assert (Mphase0 : forall ks a a', fold_res (process_phase (default_fuel e) (w_types (init_world e))
                        (number_from (List.length (w_types (init_world e))) (w_uses (init_world e)))) ks a = ROk a' -> mono a a').
    { intros ks a a' Hf. eapply fold_res_mono; [|exact Hf]. intros a0 x a0' _ Hx. unfold process_phase in Hx.
      eapply fold_res_mono; [|exact Hx]. intros c y c' _ Hy. cbv beta in Hy.
      destruct (ukind_eqb (fst (snd y)) x); [eapply process_mono; eauto|injection Hy as <-; apply mono_refl]. }
    destruct (is_rpc k) eqn:Hrpc.
    { (* visited by the JSON-RPC pass *)
      unfold process_rpc in Hrpcpass. apply in_split in Hi as (l1 & l2 & Hl). rewrite Hl in Hrpcpass.
      apply fold_res_split in Hrpcpass as (c1 & c2 & G1 & G2 & _). simpl in G2. rewrite Hrpc in G2.
      apply (visited_root_bases e w r TObject ao kids b Hrun Hm eq_refl Hb).
      exists c1, c2, i, (default_fuel e). split; [|exact G2].
      eapply mono_trans; [exact Mty|]. eapply mono_trans; [eapply Mphase0; exact Hph|].
      eapply fold_res_mono; [|exact G1]. intros c y c' _ Hy. cbv beta in Hy.
      destruct (is_rpc (fst (snd y))); [eapply process_mono; eauto|injection Hy as <-; apply mono_refl]. }
    assert (Hkp : In k phases) by (unfold phases; destruct k; simpl in *; try discriminate; auto 10).
    apply in_split in Hkp as (p1 & p2 & Hp). rewrite Hp in Hph.
    apply fold_res_split in Hph as (b1 & b2 & P1 & P2 & _).
    assert (Mphase : forall ks a a', fold_res (process_phase (default_fuel e) (w_types (init_world e))
                        (number_from (List.length (w_types (init_world e))) (w_uses (init_world e)))) ks a = ROk a' -> mono a a').
    { intros ks a a' Hf. eapply fold_res_mono; [|exact Hf]. intros a0 x a0' _ Hx. unfold process_phase in Hx.
      eapply fold_res_mono; [|exact Hx]. intros c y c' _ Hy. cbv beta in Hy.
      destruct (ukind_eqb (fst (snd y)) x); [eapply process_mono; eauto|injection Hy as <-; apply mono_refl]. }
    unfold process_phase in P2. apply in_split in Hi as (l1 & l2 & Hl). rewrite Hl in P2.
    apply fold_res_split in P2 as (c1 & c2 & G1 & G2 & _). simpl in G2.
    assert (ukind_eqb k k = true) as Hkk by (destruct k; reflexivity). rewrite Hkk in G2.
    apply (visited_root_bases e w r TObject ao kids b Hrun Hm eq_refl Hb).
    exists c1, c2, i, (default_fuel e). split; [|exact G2].
    eapply mono_trans; [exact Mty|]. eapply mono_trans; [eapply Mphase; exact P1|].
    eapply fold_res_mono; [|exact G1]. intros c y c' _ Hy. cbv beta in Hy.
    destruct (ukind_eqb (fst (snd y)) k); [eapply process_mono; eauto|injection Hy as <-; apply mono_refl].
Qed.

Lemma bases_unchanged_lemma :
  forall e, lib_ok e = true -> env_skeleton e = true ->
  exists w, run e = ROk w /\
            forall i n, get (w_state (init_world e)) i = Some n -> n_allof n = [] -> get (w_state w) i = Some n.
Proof.
  intros e Hl Hr. destruct (allof_correct_skeleton_lemma e Hl (env_skeleton_prop e Hr)) as (w & Hrun & _ & _ & _ & Hu).
  exists w. split; [exact Hrun | exact Hu].
Qed.

Lemma undefined_base_rejected_lemma :
  forall e name ao kids b,
  In (name, Some (Tree TObject ao kids)) (e_types e) -> In b ao -> lookup (e_types e) b = None ->
  forall w, run e <> ROk w.
Proof.
  intros e name ao kids b Hin Hb Hl w Hrun.
  destruct (proj1 (bases_checked_lemma e w Hrun) name ao kids b Hin Hb) as (? & ? & H). congruence.
Qed.

Lemma non_object_base_rejected_lemma :
  forall e name ao kids b tk ao' kids',
  In (name, Some (Tree TObject ao kids)) (e_types e) -> In b ao ->
  lookup (e_types e) b = Some (Some (Tree tk ao' kids')) -> tk <> TObject ->
  forall w, run e <> ROk w.
Proof.
  intros e name ao kids b tk ao' kids' Hin Hb Hl Htk w Hrun.
  destruct (proj1 (bases_checked_lemma e w Hrun) name ao kids b Hin Hb) as (? & ? & H). congruence.
Qed.

Lemma non_jsight_base_rejected_lemma :
  forall e name ao kids b,
  In (name, Some (Tree TObject ao kids)) (e_types e) -> In b ao -> lookup (e_types e) b = Some None ->
  forall w, run e <> ROk w.
Proof.
  intros e name ao kids b Hin Hb Hl w Hrun.
  destruct (proj1 (bases_checked_lemma e w Hrun) name ao kids b Hin Hb) as (? & ? & H). congruence.
Qed.

(* ------------------------------------------------------------------------------------- *)
(* concrete projects *)

Section Examples.
Local Open Scope string_scope.

Definition sc := Tree TOther [] [].
Definition prop (k : string) (t : tree) : option bytes * tree := (Some (bs k), t).
Definition obj (bases : list string) (props : list (option bytes * tree)) : tree := Tree TObject (map bs bases) props.
Definition arr (items : list tree) : tree := Tree TArray [] (map (fun t => (None, t)) items).
Definition ty (n : string) (t : tree) : bytes * option tree := (bs n, Some t).

Definition leaf (k inh : string) : rtree := RNode (Some (bs k)) TOther (bs inh) [].
Definition robj (ks : list rtree) : rtree := RNode None TObject [] ks.

Definition types_of (e : env) : res (list (bytes * option (option rtree))) :=
  rbind (run_observe e) (fun o => ROk (o_types o)).
Definition uses_of (e : env) : res (list (ukind * option rtree)) :=
  rbind (run_observe e) (fun o => ROk (o_uses o)).

Definition ex_chain3 : env :=
  {| e_types := [ty "@c" (obj ["@b"] [prop "c" sc]); ty "@b" (obj ["@a"] [prop "b" sc]); ty "@a" (obj [] [prop "a" sc])];
     e_uses := [(URespBody, obj ["@c"] [prop "z" sc])] |}.

Example chain_of_3 :
  types_of ex_chain3 =
  ROk [(bs "@c", Some (Some (robj [leaf "a" "@b"; leaf "b" "@b"; leaf "c" ""])));
       (bs "@b", Some (Some (robj [leaf "a" "@a"; leaf "b" ""])));
       (bs "@a", Some (Some (robj [leaf "a" ""])))]
  /\ uses_of ex_chain3 = ROk [(URespBody, Some (robj [leaf "a" "@c"; leaf "b" "@c"; leaf "c" "@c"; leaf "z" ""]))]
  /\ compare_env ex_chain3 = VAgree.
Proof. vm_compute. repeat split. Qed.

Definition ex_two_bases : env :=
  {| e_types := [ty "@d" (obj ["@b"; "@a"] [prop "d" sc]); ty "@a" (obj [] [prop "a" sc; prop "a2" sc]); ty "@b" (obj [] [prop "b" sc])];
     e_uses := [] |}.

Example two_bases :
  types_of ex_two_bases =
  ROk [(bs "@d", Some (Some (robj [leaf "b" "@b"; leaf "a" "@a"; leaf "a2" "@a"; leaf "d" ""])));
       (bs "@a", Some (Some (robj [leaf "a" ""; leaf "a2" ""])));
       (bs "@b", Some (Some (robj [leaf "b" ""])))]
  /\ compare_env ex_two_bases = VAgree.
Proof. vm_compute. split; reflexivity. Qed.

(* one base shared by two types, used from a request body and a response header *)
Definition ex_shared_base : env :=
  {| e_types := [ty "@b" (obj ["@a"] [prop "b" sc]); ty "@a" (obj [] [prop "a" sc]); ty "@c" (obj ["@a"] [prop "c" sc])];
     e_uses := [(UReqBody, obj ["@c"; "@b"] []); (URespHeaders, obj ["@a"] [prop "h" sc])] |}.

Example shared_base :
  types_of ex_shared_base =
  ROk [(bs "@b", Some (Some (robj [leaf "a" "@a"; leaf "b" ""])));
       (bs "@a", Some (Some (robj [leaf "a" ""])));
       (bs "@c", Some (Some (robj [leaf "a" "@a"; leaf "c" ""])))]
  /\ lib_ok ex_shared_base = false.     (* request body: "a" would come twice: the library rejects *)
Proof. vm_compute. split; reflexivity. Qed.

(* a diamond: rejected by the schema library (duplicate key a), never deduplicated there *)
Definition ex_diamond : env :=
  {| e_types := [ty "@d" (obj ["@b"; "@c"] [prop "d" sc]); ty "@b" (obj ["@a"] [prop "b" sc]);
                 ty "@c" (obj ["@a"] [prop "c" sc]); ty "@a" (obj [] [prop "a" sc])];
     e_uses := [] |}.

Example diamond_rejected : lib_ok ex_diamond = false /\ compare_env ex_diamond = VRejectedBoth.
Proof. vm_compute. split; reflexivity. Qed.

(* ... while ProcessAllOf on its own (a catalog built by hand) would keep the copy of the LAST
   named base, in that base's block: b, a<@c>, c, d — not a<@b>, b, c, d *)
Example diamond_dedup_unit :
  types_of ex_diamond =
  ROk [(bs "@d", Some (Some (robj [leaf "b" "@b"; leaf "a" "@c"; leaf "c" "@c"; leaf "d" ""])));
       (bs "@b", Some (Some (robj [leaf "a" "@a"; leaf "b" ""])));
       (bs "@c", Some (Some (robj [leaf "a" "@a"; leaf "c" ""])));
       (bs "@a", Some (Some (robj [leaf "a" ""])))].
Proof. vm_compute. reflexivity. Qed.

(* a diamond over an EMPTY shared base is accepted *)
Definition ex_empty_diamond : env :=
  {| e_types := [ty "@d" (obj ["@b"; "@c"] [prop "d" sc]); ty "@b" (obj ["@a"] [prop "b" sc]);
                 ty "@c" (obj ["@a"] [prop "c" sc]); ty "@a" (obj [] [])];
     e_uses := [] |}.

Example empty_diamond : lib_ok ex_empty_diamond = true /\ compare_env ex_empty_diamond = VAgree.
Proof. vm_compute. split; reflexivity. Qed.

(* allOf below the root (outside the class of allof_correct_rootlevel): nested objects, a base whose
   property has its own allOf, shared grandchildren, visited again from a response *)
Definition ex_nested : env :=
  {| e_types := [ty "@b" (obj ["@a"] [prop "b" sc]);
                 ty "@a" (obj [] [prop "p" (obj ["@x"] [prop "q" sc]); prop "a" sc]);
                 ty "@x" (obj [] [prop "x" sc]);
                 ty "@c" (obj ["@b"] [prop "c" (obj ["@b"] [])])];
     e_uses := [(URespBody, obj ["@c"] [prop "z" sc]); (UQuery, obj [] [prop "w" (obj ["@b"] [])])] |}.

Example nested_agrees : lib_ok ex_nested = true /\ env_root_level ex_nested = false /\ compare_env ex_nested = VAgree.
Proof. vm_compute. repeat split. Qed.

(* "the base it was taken from" is the DIRECT base: in @c = allOf @b, @b = allOf @a, the property a
   of @c is marked @b; the original-owner reading would mark it @a *)
Example marking_is_direct_base :
  spec_schema ex_chain3 (obj ["@b"] [prop "c" sc]) = Some (robj [leaf "a" "@b"; leaf "b" "@b"; leaf "c" ""]) /\
  spec_tree_owner (spec_fuel ex_chain3) (e_types ex_chain3) None (obj ["@b"] [prop "c" sc])
  = Some (robj [leaf "a" "@a"; leaf "b" "@b"; leaf "c" ""]).
Proof. vm_compute. split; reflexivity. Qed.

(* ---- array items and JSON-RPC schemas (the two classes in which allOf was NOT applied before
   the fixes a2c8521 / d4084b3 of /repo) ---- *)

Definition ex_array : env :=
  {| e_types := [ty "@a" (obj [] [prop "a" sc]);
                 ty "@l" (obj [] [prop "items" (arr [obj ["@a"] [prop "m" sc]; sc])])];
     e_uses := [(URespBody, arr [obj ["@a"] [prop "z" sc]]);
                (UReqBody, obj ["@l"] [prop "w" (arr [arr [obj ["@a"] []]])])] |}.

Lemma array_items_inherit_lemma :
  lib_ok ex_array = true /\ env_no_array_allof ex_array = false /\ compare_env ex_array = VAgree /\
  uses_of ex_array =
  ROk [(URespBody, Some (RNode None TArray [] [RNode None TObject [] [leaf "a" "@a"; leaf "z" ""]]));
       (UReqBody, Some (robj [RNode (Some (bs "items")) TArray (bs "@l")
                                    [RNode None TObject [] [leaf "a" "@a"; leaf "m" ""]; RNode None TOther [] []];
                              RNode (Some (bs "w")) TArray []
                                    [RNode None TArray [] [RNode None TObject [] [leaf "a" "@a"]]]]))].
Proof. vm_compute. repeat split. Qed.

Definition ex_rpc : env :=
  {| e_types := [ty "@a" (obj [] [prop "a" sc]); ty "@b" (obj ["@a"] [prop "b" sc])];
     e_uses := [(URpcParams, obj ["@b"] [prop "p" sc]); (URpcResult, obj ["@a"] []);
                (URespBody, obj ["@a"] [prop "z" sc]); (URpcParams, arr [obj ["@b"] []])] |}.

Lemma rpc_schemas_inherit_lemma :
  lib_ok ex_rpc = true /\ env_no_rpc_allof ex_rpc = false /\ compare_env ex_rpc = VAgree /\
  uses_of ex_rpc =
  ROk [(URpcParams, Some (robj [leaf "a" "@b"; leaf "b" "@b"; leaf "p" ""]));
       (URpcResult, Some (robj [leaf "a" "@a"]));
       (URespBody, Some (robj [leaf "a" "@a"; leaf "z" ""]));
       (URpcParams, Some (RNode None TArray [] [RNode None TObject [] [leaf "a" "@b"; leaf "b" "@b"]]))].
Proof. vm_compute. repeat split. Qed.

(* in the class of allof_correct_skeleton: rules on array items and on nested objects of use-site
   schemas and of a user type nobody inherits from (@page); the bases @a, @b are flat *)
Definition ex_skeleton : env :=
  {| e_types := [ty "@a" (obj [] [prop "a" sc]); ty "@b" (obj ["@a"] [prop "b" sc]);
                 ty "@page" (obj [] [prop "items" (arr [obj ["@b"] [prop "m" sc]; sc]); prop "n" sc]);
                 ty "@list" (arr [obj ["@a"] []])];
     e_uses := [(URespBody, arr [obj ["@b"] [prop "z" sc]]);
                (UReqBody, obj [] [prop "w" (arr [arr [obj ["@a"] []]]); prop "v" (obj ["@b"] [prop "q" (obj [] [prop "r" sc])])]);
                (URpcResult, obj ["@b"] [])] |}.

Lemma skeleton_example_lemma :
  lib_ok ex_skeleton = true /\ env_skeleton ex_skeleton = true /\ env_root_level ex_skeleton = false /\
  compare_env ex_skeleton = VAgree /\
  env_skeleton ex_array = false /\ env_skeleton ex_nested = false.
Proof. vm_compute. repeat split. Qed.

(* ---- usedUserTypes DOES depend on the declaration order (property C10, not C12): the base's
   base is added to the set of whichever schema happened to trigger the base's processing ---- *)

Definition ex_chain3_rev : env :=
  {| e_types := [ty "@a" (obj [] [prop "a" sc]); ty "@b" (obj ["@a"] [prop "b" sc]); ty "@c" (obj ["@b"] [prop "c" sc])];
     e_uses := [] |}.

Definition used_of (e : env) : res (list (list bytes)) := rbind (run_observe e) (fun o => ROk (o_used_types o)).

Lemma used_types_order_dependent_lemma :
  used_of {| e_types := e_types ex_chain3; e_uses := [] |} = ROk [[bs "@b"; bs "@a"]; [bs "@a"]; []] /\
  used_of ex_chain3_rev = ROk [[]; [bs "@a"]; [bs "@b"]].
Proof. vm_compute. split; reflexivity. Qed.

(* ---- rejections by ProcessAllOf itself, whole runs ---- *)

Definition ex_override_direct : env :=
  {| e_types := [ty "@d" (obj ["@a"] [prop "a" sc]); ty "@a" (obj [] [prop "a" sc])]; e_uses := [] |}.

(* @b inherits a from @a; a query schema inherits from @b and declares a itself *)
Definition ex_override_transitive : env :=
  {| e_types := [ty "@a" (obj [] [prop "a" sc]); ty "@b" (obj ["@a"] [prop "b" sc])];
     e_uses := [(UQuery, obj ["@b"] [prop "a" sc])] |}.

Example override_direct_run : run_observe ex_override_direct = RErr (EOverride (bs "a") (bs "@a")).
Proof. vm_compute. reflexivity. Qed.

Example override_transitive_run : run_observe ex_override_transitive = RErr (EOverride (bs "a") (bs "@b")).
Proof. vm_compute. reflexivity. Qed.

Lemma override_examples_lemma :
  run_observe ex_override_direct = RErr (EOverride (bs "a") (bs "@a")) /\
  run_observe ex_override_transitive = RErr (EOverride (bs "a") (bs "@b")).
Proof. split; [exact override_direct_run | exact override_transitive_run]. Qed.

Example undefined_base_run :
  run_observe {| e_types := [ty "@d" (obj ["@a"; "@nope"] [prop "d" sc]); ty "@a" (obj [] [prop "a" sc])]; e_uses := [] |}
  = RErr (ENotFound (bs "@nope")).
Proof. vm_compute. reflexivity. Qed.

Example non_object_base_run :
  run_observe {| e_types := [ty "@s" (arr [sc]); ty "@d" (obj ["@s"] [prop "d" sc])]; e_uses := [] |}
  = RErr (ENotObject (bs "@s")).
Proof. vm_compute. reflexivity. Qed.

(* a user type of another notation (regex): Schema.ContentJSight is nil; ProcessAllOf alone would
   dereference it (the schema library rejects the document before) *)
Example non_jsight_base_run :
  exists why, run_observe {| e_types := [(bs "@s", None); ty "@d" (obj ["@s"] [prop "d" sc])]; e_uses := [] |} = RPanic why.
Proof. vm_compute. eexists. reflexivity. Qed.

Lemma examples_agree_lemma :
  compare_env ex_chain3 = VAgree /\ compare_env ex_two_bases = VAgree /\
  compare_env ex_empty_diamond = VAgree /\ compare_env ex_nested = VAgree.
Proof.
  split; [exact (proj2 (proj2 chain_of_3))|]. split; [exact (proj2 two_bases)|].
  split; [exact (proj2 empty_diamond)|exact (proj2 (proj2 nested_agrees))].
Qed.

End Examples.
