(* C05 - surface syntax, scanner level: blank bytes inserted where blanks are inert only SHIFT the lexemes.

   Plan.  (1) a finite fact about the table REGENERATED from scanner/steps*.go: a "look-back typing" [dist] of the
   states (how many bytes the state may reach back: AFound back, ARewind n, CPrevIs), inferred and CHECKED by
   evaluation ([dist_ok]); (2) a translation relation [Rel] between a configuration of the run on the original input
   and a configuration of the run on the input with the blanks inserted, and the proof that every level of the
   semantics (eval_cond ... scan_all) commutes with it; (3) the inserted blanks themselves are consumed without
   any effect ([blank_inert] states); (4) the whole-input theorem on [scan], with the run up to the insertion point
   as a premise ([reach]) - discharged for an insertion at the very beginning of the file. *)
From Coq Require Import List NArith Bool String Lia.
Import ListNotations.
From JV.lib Require Import Bytes.
From JV.gen Require Import ScannerTable.
From JV.model Require Import ScannerSem.
From JV.proofs Require Import TM_Basics TriviaProofs.
Open Scope N_scope.

(* ---------------------------------------------------------------------------------------------- *)
(* 1. the look-back typing *)

Fixpoint tree_leaves (t : tree) : list (list act * exit) :=
  match t with Leaf a x => [(a, x)] | Node _ a b => tree_leaves a ++ tree_leaves b end.

Fixpoint uses_prev (t : tree) : bool :=
  match t with
  | Leaf _ _ => false
  | Node (CPrevIs _) _ _ => true
  | Node _ a b => uses_prev a || uses_prev b
  end.

Definition dtab := list N.
Definition dget (tb : dtab) (s : state) : N := nth (N.to_nat (state_idx s)) tb 0.
(* what a state found on the state stack may need at most (checked: nothing that needs more is ever pushed) *)
Definition stack_bound : N := 1.
(* the states in which the top of the state stack is known to need no look-back (hint, checked by dist_ok) *)
Definition tight_states : list state := [StBodyBody; StRequestBody; StResponseBody; StTypeBody].
Definition tight (s : state) : bool := in_states s tight_states.
(* the state register inside a leaf: a known state, or a state popped from the stack (true: popped while the top of
   the stack was known to need no look-back) *)
Inductive rk : Set := RK (s : state) | RPop (zero : bool).
Definition dreg (tb : dtab) (r : rk) : N :=
  match r with RK s => dget tb s | RPop true => 0 | RPop false => stack_bound end.
Definition bump (x : exit) : N := match x with XNil => 1 | _ => 0 end.

(* the least number of bytes a leaf needs behind the read position, given the needs of the other states;
   r = the state register as far as it is known inside the leaf (None after a pop: a state taken from the stack) *)
Fixpoint leaf_need (tb : dtab) (z : bool) (r : rk) (acts : list act) (x : exit) : N :=
  match acts with
  | [] => match x with XErr _ => 0 | _ => dreg tb r - bump x end
  | AFound back _ :: l => N.max back (leaf_need tb z r l x)
  | ARewind m :: l => m + leaf_need tb z r l x
  | ASetStep t :: l => leaf_need tb z (RK t) l x
  | APop :: l => leaf_need tb false (RPop z) l x
  | APush t :: l => leaf_need tb (dget tb t =? 0) r l x
  | APushCur :: l => leaf_need tb (dreg tb r =? 0) r l x
  | _ :: l => leaf_need tb z r l x
  end.

Definition state_need (tb : dtab) (s : state) : N :=
  fold_left N.max (map (fun lf => leaf_need tb (tight s) (RK s) (fst lf) (snd lf)) (tree_leaves (step_tree s)))
            (if uses_prev (step_tree s) then 1 else 0).

Fixpoint infer (n : nat) (tb : dtab) : dtab :=
  match n with O => tb | S m => infer m (map (state_need tb) all_states) end.

(* inferred by evaluation; nothing below trusts it: only [dist_ok] counts *)
Definition dist_table : dtab := Eval vm_compute in infer 12 (map (fun _ => 0) all_states).
Definition dist (s : state) : N := dget dist_table s.
Definition dist_reg (r : rk) : N := match r with RK s => dist s | RPop true => 0 | RPop false => stack_bound end.

(* the check, forwards: d = number of bytes known to have been read since the insertion point *)
(* z = the top of the state stack is known to need no look-back *)
Definition fstep (dr : N * rk * bool) (a : act) : option (N * rk * bool) :=
  let '(d, r, z) := dr in
  match a with
  | AFound back _ => if back <=? d then Some dr else None
  | ARewind m => if m <=? d then Some (d - m, r, z) else None
  | ASetStep t => Some (d, RK t, z)
  | APush t =>
    match r with
    | RK _ => if (dist t <=? stack_bound) && (negb (tight t) || z) then Some (d, r, dist t =? 0) else None
    | RPop _ => None
    end
  | APushCur =>
    match r with
    | RK s => if (dist s <=? stack_bound) && (negb (tight s) || z) then Some (d, r, dist s =? 0) else None
    | RPop _ => None
    end
  | APop => Some (d, RPop z, false)
  | AReadSchema | AReadEnum => Some dr
  end.

Fixpoint ffold (dr : N * rk * bool) (l : list act) : option (N * rk * bool) :=
  match l with
  | [] => Some dr
  | a :: r => match fstep dr a with Some dr' => ffold dr' r | None => None end
  end.

Definition leaf_dist_ok (s : state) (lf : list act * exit) : bool :=
  match ffold (dist s, RK s, tight s) (fst lf) with
  | Some (d, r, z) =>
    match snd lf with
    | XErr _ => true
    | x => (dist_reg r <=? d + bump x) && match r with RK t => negb (tight t) || z | RPop _ => true end
    end
  | None => false
  end.

Definition dist_ok : bool :=
  forallb (fun s => (negb (uses_prev (step_tree s)) || (1 <=? dist s)) &&
                    forallb (leaf_dist_ok s) (tree_leaves (step_tree s))) all_states.

Lemma dist_table_ok : dist_ok = true.
Proof. vm_compute. reflexivity. Qed.

(* the states in which blanks may be inserted: blank-inert, and nothing reaches back from them *)
Definition shift_states : list state := filter (fun s => dist s =? 0) blank_inert_states.

(* ---------------------------------------------------------------------------------------------- *)
(* 2. the translation relation *)

(* outcomes related up to a shift of the error position *)
Definition orel {A B} (k : N) (R : A -> B -> Prop) (o : outcome A) (o' : outcome B) : Prop :=
  match o, o' with
  | Ok a, Ok b => R a b
  | Err p e, Err p' e' => p' = p + k /\ e' = e
  | Panic w, Panic w' => w' = w
  | OutOfFuel, OutOfFuel => True
  | _, _ => False
  end.

Lemma orel_bind {A B A2 B2} k (R : A -> B -> Prop) (S : A2 -> B2 -> Prop) o o' f f' :
  orel k R o o' -> (forall a b, R a b -> orel k S (f a) (f' b)) -> orel k S (obind o f) (obind o' f').
Proof.
  intros H Hf. destruct o, o'; cbn in *; try contradiction; auto.
Qed.

Lemma fwd_eq m : forall a b, fwd m a b = (rev (firstn m b) ++ a, skipn m b).
Proof.
  induction m as [|m IH]; intros a b; [reflexivity|].
  destruct b as [|c b]; [reflexivity|]. cbn [fwd firstn skipn rev]. rewrite IH. rewrite <- app_assoc. reflexivity.
Qed.

Lemma eval_tree_in_leaves data size t c g ax : eval_tree data size t c g = Ok ax -> In ax (tree_leaves t).
Proof.
  induction t as [acts x | q a IHa b IHb]; cbn [eval_tree tree_leaves]; intros H.
  - injection H as <-. left. reflexivity.
  - destruct (eval_cond data size q c g) as [v| | |]; cbn [obind] in H; try discriminate.
    apply in_or_app. destruct v; [left; apply IHa | right; apply IHb]; exact H.
Qed.

Lemma values_not_err data size ls p e : values data size ls <> Err p e.
Proof.
  induction ls as [|l ls IH]; cbn [values]; [discriminate|].
  unfold lex_value. destruct ((lb l <=? le l + 1) && (le l + 1 <=? size)); cbn [obind]; [|discriminate].
  destruct (values data size ls); cbn [obind]; try discriminate. exact IH.
Qed.

Lemma eval_tree_not_err data size t c g p e : eval_tree data size t c g <> Err p e.
Proof.
  induction t as [acts x | q a IHa b IHb]; cbn [eval_tree]; [discriminate|].
  destruct (eval_cond data size q c g) as [v|p0 e0| |] eqn:E; cbn [obind]; try discriminate.
  - destruct v; assumption.
  - exfalso. destruct q; cbn [eval_cond] in E; try discriminate.
    + destruct (values data size (lastp g)) eqn:V; cbn [obind] in E; try discriminate. eapply values_not_err; eauto.
    + destruct (values data size (lastp g)) eqn:V; cbn [obind] in E; try discriminate. eapply values_not_err; eauto.
    + destruct (values data size (lastp g)) eqn:V; cbn [obind] in E; try discriminate. eapply values_not_err; eauto.
    + destruct (pre g); [discriminate|]. destruct (size <? pos g); discriminate.
Qed.

(* under a tight state lies a state that needs no look-back *)
Definition top_zero (st : list state) : Prop := match st with t :: _ => dist t = 0 | [] => True end.
Fixpoint chain (st : list state) : Prop :=
  match st with x :: t => (tight x = true -> top_zero t) /\ chain t | [] => True end.
Definition pairc (g : cfg) : Prop := tight (reg g) = true -> top_zero (sstk g).
Definition stack_inv (g : cfg) : Prop := Forall (fun s => dist s <= stack_bound) (sstk g) /\ chain (reg g :: sstk g).

Section Shift.
  Variables jsc enum : bytes -> len_result.
  Variables D D' : bytes.          (* the input, the input with the blanks inserted *)
  Variables size n k : N.          (* len D, the insertion point, the number of inserted bytes *)
  Variables pa pa' : bytes.        (* what lies before the insertion point / before its end, reversed *)

  Definition size' : N := size + k.
  Definition shL (l : lexeme) : lexeme := {| lk := lk l; lb := lb l + k; le := le l + k |}.
  Definition shl (l : lexeme) : lexeme := if le l <? n then l else shL l.
  Definition shev (e : evt * N) : evt * N := (fst e, snd e + k).
  Definition okl (l : lexeme) : Prop := le l < n \/ (n <= lb l /\ n <= le l).
  Definition after (e : evt * N) : Prop := n <= snd e.

  (* the two inputs agree on the lexemes before the insertion point and, shifted, on those after it *)
  Hypothesis Hlo : forall l, le l < n -> lex_value D' size' l = lex_value D size l.
  Hypothesis Hhi : forall l, n <= lb l -> lex_value D' size' (shL l) = lex_value D size l.

  (* the part of the relation that concerns the read position and the state registers; d = number of bytes, read
     after the insertion point, that are known to lie behind the read position *)
  Record ZRel (d : N) (g g' : cfg) : Prop := {
    Z_reg : reg g' = reg g;
    Z_sstk : sstk g' = sstk g;
    Z_pos : pos g' = pos g + k;
    Z_rest : rest g' = rest g;
    Z_pre : exists x, pre g = x ++ pa /\ pre g' = x ++ pa' /\
                      n + N.of_nat (List.length x) <= pos g /\ d <= N.of_nat (List.length x);
    Z_len : size <= pos g + N.of_nat (List.length (rest g));
    Z_stk : Forall (fun s => dist s <= stack_bound) (sstk g);
    Z_chain : chain (sstk g)
  }.

  (* ... and the recorded positions: all pending events and open lexemes lie after the insertion point; the remembered
     parameters lie before it (unchanged) or after it (shifted) *)
  Record ERel (g g' : cfg) : Prop := {
    E_finds : finds g' = map shev (finds g);
    E_finds_after : Forall after (finds g);
    E_estk : estk g' = map shev (estk g);
    E_estk_after : Forall after (estk g);
    E_lastp : lastp g' = map shl (lastp g);
    E_lastp_ok : Forall okl (lastp g)
  }.

  Definition Rel (d : N) (g g' : cfg) : Prop := ZRel d g g' /\ ERel g g'.

  Lemma ZRel_weaken d d' g g' : d' <= d -> ZRel d g g' -> ZRel d' g g'.
  Proof.
    intros H [A B C E (x & X1 & X2 & X3 & X4) F G G2]. split; auto. exists x. repeat split; auto. lia.
  Qed.

  Lemma Rel_weaken d d' g g' : d' <= d -> Rel d g g' -> Rel d' g g'.
  Proof. intros H [A B]. split; [eapply ZRel_weaken; eauto | exact B]. Qed.

  (* ---- conditions ---- *)
  Lemma values_shift ls : Forall okl ls -> values D' size' (map shl ls) = values D size ls.
  Proof.
    induction 1 as [|l ls Hl _ IH]; [reflexivity|]. cbn [map values]. rewrite IH.
    assert (E : lex_value D' size' (shl l) = lex_value D size l).
    { unfold shl. destruct Hl as [Hl|[Hl1 Hl2]].
      - replace (le l <? n) with true by (symmetry; apply N.ltb_lt; exact Hl). apply Hlo. exact Hl.
      - replace (le l <? n) with false by (symmetry; apply N.ltb_ge; exact Hl2). apply Hhi. exact Hl1. }
    rewrite E. reflexivity.
  Qed.

  Lemma ltb_shift a b : (a + k <? b + k) = (a <? b).
  Proof. destruct (N.ltb_spec a b), (N.ltb_spec (a + k) (b + k)); try reflexivity; lia. Qed.
  Lemma leb_shift a b : (a + k <=? b + k) = (a <=? b).
  Proof. destruct (N.leb_spec a b), (N.leb_spec (a + k) (b + k)); try reflexivity; lia. Qed.
  Lemma eqb_shift a b : (a + k =? b + k) = (a =? b).
  Proof. destruct (N.eqb_spec a b), (N.eqb_spec (a + k) (b + k)); try reflexivity; lia. Qed.

  Lemma eval_cond_shift d q c g g' :
    Rel d g g' -> (match q with CPrevIs _ => 1 <= d | _ => True end) ->
    eval_cond D' size' q c g' = eval_cond D size q c g.
  Proof.
    intros [Z E] Hq. destruct q as [l| | | | |b]; cbn [eval_cond].
    - reflexivity.
    - unfold is_directive_at, size'. rewrite (Z_pos _ _ _ Z), (Z_rest _ _ _ Z), ltb_shift. reflexivity.
    - rewrite (E_lastp _ _ E), (values_shift _ (E_lastp_ok _ _ E)). reflexivity.
    - rewrite (E_lastp _ _ E), (values_shift _ (E_lastp_ok _ _ E)). reflexivity.
    - rewrite (E_lastp _ _ E), (values_shift _ (E_lastp_ok _ _ E)). reflexivity.
    - destruct (Z_pre _ _ _ Z) as (x & X1 & X2 & X3 & X4). rewrite X1, X2.
      destruct x as [|b0 x]; [cbn in X4; lia|]. cbn [app].
      unfold size'. rewrite (Z_pos _ _ _ Z), ltb_shift. reflexivity.
  Qed.

  Lemma eval_tree_shift d t c g g' :
    Rel d g g' -> (uses_prev t = true -> 1 <= d) ->
    eval_tree D' size' t c g' = eval_tree D size t c g.
  Proof.
    intros HR. induction t as [acts x | q a IHa b IHb]; intros Hp; [reflexivity|].
    cbn [eval_tree].
    rewrite (eval_cond_shift d q c g g' HR).
    - destruct (eval_cond D size q c g) as [v| | |]; cbn [obind]; try reflexivity.
      destruct v; [apply IHa | apply IHb]; intros H; apply Hp; cbn [uses_prev]; destruct q; rewrite ?H, ?orb_true_r; reflexivity.
    - destruct q; try exact I. apply Hp. reflexivity.
  Qed.

  (* ---- actions ---- *)
  Definition regok (r : rk) (g : cfg) : Prop :=
    match r with RK s => reg g = s | RPop z => dist (reg g) <= (if z then 0 else stack_bound) /\ pairc g end.
  Definition topz (z : bool) (g : cfg) : Prop := z = true -> top_zero (sstk g).
  Definition RelS (dr : N * rk * bool) (g g' : cfg) : Prop :=
    Rel (fst (fst dr)) g g' /\ regok (snd (fst dr)) g /\ topz (snd dr) g.

  Lemma advance_shift d g g' m :
    Rel d g g' -> Rel (d + N.min m (N.of_nat (List.length (rest g)))) (advance g m) (advance g' m).
  Proof.
    intros [[A B C E (x & X1 & X2 & X3 & X4) F G G2] [E1 E2 E3 E4 E5 E6]].
    unfold advance. rewrite E, X1, X2, !fwd_eq. cbn [fst snd].
    split; split; cbn [reg sstk pos pre rest finds estk lastp set_zip]; auto.
    - lia.
    - exists (rev (firstn (N.to_nat m) (rest g)) ++ x). rewrite <- !app_assoc.
      split; [reflexivity|]. split; [reflexivity|].
      rewrite app_length, rev_length, firstn_length. split; lia.
    - rewrite skipn_length. lia.
  Qed.

  Lemma retreat_shift d g g' m :
    Rel d g g' -> m <= d -> Rel (d - m) (retreat g m) (retreat g' m).
  Proof.
    intros [[A B C E (x & X1 & X2 & X3 & X4) F G G2] [E1 E2 E3 E4 E5 E6]] Hm.
    unfold retreat. rewrite E, X1, X2, !fwd_eq. cbn [fst snd].
    rewrite !firstn_app, !skipn_app.
    replace (N.to_nat m - List.length x)%nat with 0%nat by lia. cbn [firstn skipn]. rewrite !app_nil_r.
    split; split; cbn [reg sstk pos pre rest finds estk lastp set_zip]; auto.
    - lia.
    - exists (skipn (N.to_nat m) x). split; [reflexivity|]. split; [reflexivity|]. rewrite skipn_length. split; lia.
    - rewrite app_length, rev_length, firstn_length. lia.
  Qed.

  Lemma exec_act_shift a dr dr' g g' :
    RelS dr g g' -> fstep dr a = Some dr' ->
    orel k (RelS dr') (exec_act jsc enum a g) (exec_act jsc enum a g').
  Proof.
    destruct dr as [[d r] z]. intros (HR & Hr & Hz) Hf. cbn [fst snd] in *.
    pose proof HR as [[A B C E (x & X1 & X2 & X3 & X4) F G G2] [E1 E2 E3 E4 E5 E6]].
    destruct a as [back e|s|s| | |m| |]; cbn [fstep] in Hf; cbn [exec_act].
    - (* AFound *)
      destruct (back <=? d) eqn:Hb; [|discriminate]. injection Hf as <-. apply N.leb_le in Hb.
      rewrite C.
      replace (pos g <? back) with false by (symmetry; apply N.ltb_ge; lia).
      replace (pos g + k <? back) with false by (symmetry; apply N.ltb_ge; lia).
      cbn [orel]. split; [|split; [destruct r; exact Hr | exact Hz]].
      split; split; cbn [reg sstk pos pre rest finds estk lastp set_finds]; auto.
      + exists x. auto.
      + rewrite E1, map_app. cbn [map]. unfold shev at 2. cbn [fst snd]. replace (pos g + k - back) with (pos g - back + k) by lia. reflexivity.
      + apply Forall_app. split; [exact E2|]. constructor; [|constructor]. unfold after. cbn [snd]. lia.
    - (* ASetStep *)
      injection Hf as <-. cbn [orel]. split; [|split; [reflexivity | exact Hz]].
      split; split; cbn [reg sstk pos pre rest finds estk lastp set_reg]; auto. exists x. auto.
    - (* APush *)
      destruct r as [s0|zz]; [|discriminate].
      destruct ((dist s <=? stack_bound) && (negb (tight s) || z)) eqn:Hs; [|discriminate]. injection Hf as <-.
      apply andb_true_iff in Hs as [Hs1 Hs2]. apply N.leb_le in Hs1.
      cbn [orel]. split; [|split; [exact Hr|]].
      + split; split; cbn [reg sstk pos pre rest finds estk lastp set_sstk]; auto.
        * rewrite B. reflexivity.
        * exists x. auto.
        * split; [|exact G2]. intros Ht. rewrite Ht in Hs2. cbn in Hs2. apply Hz. exact Hs2.
      + intros Hd. cbn [snd] in Hd. cbn [sstk set_sstk top_zero]. apply N.eqb_eq. exact Hd.
    - (* APushCur *)
      destruct r as [s0|zz]; [|discriminate]. cbn [regok] in Hr.
      destruct ((dist s0 <=? stack_bound) && (negb (tight s0) || z)) eqn:Hs; [|discriminate]. injection Hf as <-.
      apply andb_true_iff in Hs as [Hs1 Hs2]. apply N.leb_le in Hs1.
      cbn [orel]. split; [|split; [exact Hr|]].
      + split; split; cbn [reg sstk pos pre rest finds estk lastp set_sstk]; auto.
        * rewrite A, B. reflexivity.
        * exists x. auto.
        * constructor; [rewrite Hr; exact Hs1 | exact G].
        * split; [|exact G2]. rewrite Hr. intros Ht. rewrite Ht in Hs2. cbn in Hs2. apply Hz. exact Hs2.
      + intros Hd. cbn [snd] in Hd. cbn [sstk set_sstk top_zero]. rewrite Hr. apply N.eqb_eq. exact Hd.
    - (* APop *)
      injection Hf as <-. rewrite B. destruct (sstk g) as [|s st] eqn:Est; cbn [orel]; [reflexivity|].
      destruct G2 as [G3 G4]. split; [|split].
      + split; split; cbn [reg sstk pos pre rest finds estk lastp set_sstk set_reg]; auto.
        * exists x. auto.
        * inversion G; assumption.
      + cbn [regok reg sstk set_reg set_sstk snd fst]. split.
        * destruct z; [|inversion G; assumption]. unfold topz in Hz. rewrite Est in Hz. pose proof (Hz eq_refl) as Hz0.
          cbn [top_zero] in Hz0. rewrite Hz0. lia.
        * unfold pairc. cbn [reg sstk set_reg set_sstk]. exact G3.
      + intros Hd. discriminate.
    - (* ARewind *)
      destruct (m <=? d) eqn:Hm; [|discriminate]. injection Hf as <-. apply N.leb_le in Hm.
      rewrite C.
      replace (pos g <? m) with false by (symmetry; apply N.ltb_ge; lia).
      replace (pos g + k <? m) with false by (symmetry; apply N.ltb_ge; lia).
      cbn [orel]. split; [apply retreat_shift; assumption|]. split; [destruct r; exact Hr | exact Hz].
    - (* AReadSchema *)
      injection Hf as <-. unfold read_body. rewrite E, C. destruct (jsc (rest g)) as [len|p msg]; cbn [orel].
      + split; [|destruct (0 <? len); (split; [destruct r; exact Hr | exact Hz])].
        destruct (0 <? len); [|exact HR]. cbn [fst]. eapply Rel_weaken; [|apply advance_shift; exact HR]. lia.
      + split; [lia | reflexivity].
    - (* AReadEnum *)
      injection Hf as <-. unfold read_body. rewrite E, C. destruct (enum (rest g)) as [len|p msg]; cbn [orel].
      + split; [|destruct (0 <? len); (split; [destruct r; exact Hr | exact Hz])].
        destruct (0 <? len); [|exact HR]. cbn [fst]. eapply Rel_weaken; [|apply advance_shift; exact HR]. lia.
      + split; [lia | reflexivity].
  Qed.

  Lemma exec_acts_shift acts : forall dr dr' g g',
    RelS dr g g' -> ffold dr acts = Some dr' ->
    orel k (RelS dr') (exec_acts jsc enum acts g) (exec_acts jsc enum acts g').
  Proof.
    induction acts as [|a acts IH]; intros dr dr' g g' HR Hf.
    - cbn in Hf. injection Hf as <-. exact HR.
    - cbn [ffold] in Hf. destruct (fstep dr a) as [dr1|] eqn:F1; [|discriminate].
      cbn [exec_acts]. eapply orel_bind; [eapply exec_act_shift; eauto|].
      intros g1 g1' H1. eapply IH; eauto.
  Qed.
  (* ---- one call of a step function and its re-dispatches ---- *)
  Lemma dist_ok_state s :
    (uses_prev (step_tree s) = true -> 1 <= dist s) /\
    forall lf, In lf (tree_leaves (step_tree s)) -> leaf_dist_ok s lf = true.
  Proof.
    pose proof dist_table_ok as H. unfold dist_ok in H. rewrite forallb_forall in H.
    specialize (H s (all_states_complete s)). apply andb_true_iff in H as [H1 H2]. split.
    - intros U. rewrite U in H1. cbn in H1. apply N.leb_le. exact H1.
    - rewrite forallb_forall in H2. exact H2.
  Qed.

  (* after the call: d bytes lie behind, and the new state asks for at most one more - the byte just handled *)
  Definition Rel1 (g g' : cfg) : Prop := exists d, Rel d g g' /\ dist (reg g) <= d + 1 /\ pairc g.

  Lemma dispatch_shift f : forall c g g',
    Rel (dist (reg g)) g g' -> pairc g ->
    orel k Rel1 (dispatch jsc enum D size f c g) (dispatch jsc enum D' size' f c g').
  Proof.
    induction f as [|f IH]; intros c g g' HR Hpc; [exact I|].
    cbn [dispatch]. destruct (dist_ok_state (reg g)) as [Hp Hl].
    rewrite (Z_reg _ _ _ (proj1 HR)).
    rewrite (eval_tree_shift _ _ c _ _ HR Hp).
    destruct (eval_tree D size (step_tree (reg g)) c g) as [ax|p0 e0| |] eqn:Eax; cbn [obind orel]; auto;
      [|exfalso; eapply eval_tree_not_err; eauto].
    specialize (Hl ax (eval_tree_in_leaves _ _ _ _ _ _ Eax)). unfold leaf_dist_ok in Hl.
    destruct (ffold (dist (reg g), RK (reg g), tight (reg g)) (fst ax)) as [[[d1 r1] z1]|] eqn:Ff; [|discriminate].
    eapply orel_bind; [eapply exec_acts_shift; [|exact Ff]; split; [exact HR | split; [reflexivity | exact Hpc]]|].
    intros g1 g1' (H1 & H2 & H3). cbn [fst snd] in H1, H2, H3.
    assert (Hfin : forall b, (dist_reg r1 <=? d1 + b) && match r1 with RK t => negb (tight t) || z1 | RPop _ => true end = true ->
                             dist (reg g1) <= d1 + b /\ pairc g1).
    { intros b Hb. apply andb_true_iff in Hb as [Hb1 Hb2]. apply N.leb_le in Hb1.
      destruct r1 as [s|zz]; cbn [regok dist_reg] in *.
      - split; [rewrite H2; exact Hb1|]. unfold pairc. rewrite H2. intros Ht. rewrite Ht in Hb2. cbn in Hb2. apply H3. exact Hb2.
      - destruct H2 as [H2 H2']. split; [|exact H2']. destruct zz; lia. }
    destruct (snd ax) as [| |e]; cbn [orel].
    - destruct (Hfin _ Hl) as [F1 F2]. exists d1. auto.
    - destruct (Hfin _ Hl) as [F1 F2]. cbn [bump] in F1. rewrite N.add_0_r in F1.
      apply IH; [eapply Rel_weaken; [|exact H1]; exact F1 | exact F2].
    - split; [exact (Z_pos _ _ _ (proj1 H1)) | reflexivity].
  Qed.

  (* ---- the invariant of the byte loop ---- *)
  Definition LRel (g g' : cfg) : Prop := Rel 0 g g' /\ (pos g <= size -> Rel (dist (reg g)) g g') /\ pairc g.

  Lemma advance1_shift g1 g1' : Rel1 g1 g1' -> LRel (advance g1 1) (advance g1' 1).
  Proof.
    intros (d & HR & Hd & Hpc). pose proof (advance_shift d g1 g1' 1 HR) as H. split; [|split].
    - eapply Rel_weaken; [|exact H]. lia.
    - intros Hp. eapply Rel_weaken; [|exact H].
      pose proof (Z_len _ _ _ (proj1 HR)) as L. unfold advance in Hp |- *. cbn [pos reg set_zip] in Hp |- *. lia.
    - exact Hpc.
  Qed.

  (* ---- lexeme events ---- *)
  Definition same_zip (g h : cfg) : Prop :=
    reg h = reg g /\ sstk h = sstk g /\ pos h = pos g /\ pre h = pre g /\ rest h = rest g.

  Lemma ZRel_same_zip d g g' h h' : ZRel d g g' -> same_zip g h -> same_zip g' h' -> ZRel d h h'.
  Proof.
    intros [A B C E X F G G2] (a1 & a2 & a3 & a4 & a5) (b1 & b2 & b3 & b4 & b5).
    split; rewrite ?a1, ?a2, ?a3, ?a4, ?a5, ?b1, ?b2, ?b3, ?b4, ?b5; assumption.
  Qed.

  Definition EvR (g g' : cfg) (r r' : cfg * option lexeme) : Prop :=
    ERel (fst r) (fst r') /\ same_zip g (fst r) /\ same_zip g' (fst r') /\
    snd r' = option_map shL (snd r) /\ (forall l, snd r = Some l -> n <= lb l /\ n <= le l).

  Lemma process_event_shift ev g g' :
    ERel g g' -> pos g' = pos g + k -> after ev ->
    orel k (EvR g g') (process_event ev g) (process_event (shev ev) g').
  Proof.
    intros [E1 E2 E3 E4 E5 E6] C Hev. destruct ev as [e p]. unfold after in Hev. cbn [snd] in Hev.
    unfold process_event, shev. cbn [fst snd].
    destruct (evt_in e evt_beginning).
    { cbn [orel]. unfold EvR. cbn [fst snd option_map]. split; [|repeat split; discriminate].
      split; cbn [reg sstk pos pre rest finds estk lastp set_estk]; auto.
      rewrite E3. reflexivity. }
    destruct (evt_in e evt_ending).
    { rewrite E3. destruct (estk g) as [|[se sp] st]; cbn [map orel]; [reflexivity|].
      unfold shev at 1. cbn [fst snd].
      destruct (pair_ok se e); [|cbn [orel]; split; [exact C | reflexivity]].
      destruct (evt_lexkind e) as [kd|]; cbn [orel]; [|reflexivity].
      unfold EvR. cbn [fst snd option_map]. split; [|split; [repeat split|split; [repeat split|split; [reflexivity|]]]].
      - split; cbn [reg sstk pos pre rest finds estk lastp set_estk]; auto. inversion E4; assumption.
      - intros l Hl. injection Hl as <-. cbn [lb le]. inversion E4 as [|? ? Hsp ?]. unfold after in Hsp. cbn in Hsp. split; assumption. }
    destruct (evt_in e evt_single); [|cbn [orel]; split; [exact C | reflexivity]].
    destruct (evt_lexkind e) as [kd|]; cbn [orel]; [|reflexivity].
    unfold EvR. cbn [fst snd option_map]. split; [|split; [repeat split|split; [repeat split|split; [reflexivity|]]]].
    - split; assumption.
    - intros l Hl. injection Hl as <-. cbn [lb le]. split; assumption.
  Qed.

  Lemma note_lexeme_shift l g g' :
    ERel g g' -> n <= lb l -> n <= le l ->
    ERel (note_lexeme l g) (note_lexeme (shL l) g') /\ same_zip g (note_lexeme l g) /\ same_zip g' (note_lexeme (shL l) g').
  Proof.
    intros [E1 E2 E3 E4 E5 E6] H1 H2. unfold note_lexeme. cbn [shL lk].
    destruct (lexkind_eqb (lk l) LParameter); [|destruct (lexkind_eqb (lk l) LKeyword)].
    - split; [|repeat split]. split; cbn [reg sstk pos pre rest finds estk lastp set_lastp]; auto.
      + rewrite E5, map_app. cbn [map]. f_equal. unfold shl.
        replace (le l <? n) with false by (symmetry; apply N.ltb_ge; exact H2). reflexivity.
      + apply Forall_app. split; [exact E6|]. constructor; [|constructor]. right. split; assumption.
    - split; [|repeat split]. split; cbn [reg sstk pos pre rest finds estk lastp set_lastp]; auto.
    - split; [|repeat split]. split; assumption.
  Qed.

  Lemma same_zip_trans a b c : same_zip a b -> same_zip b c -> same_zip a c.
  Proof. intros (a1 & a2 & a3 & a4 & a5) (b1 & b2 & b3 & b4 & b5). repeat split; congruence. Qed.

  Lemma drain_shift m : forall g g',
    ERel g g' -> pos g' = pos g + k ->
    orel k (fun r r' => ERel (fst r) (fst r') /\ same_zip g (fst r) /\ same_zip g' (fst r') /\ snd r' = option_map shL (snd r))
         (drain m g) (drain m g').
  Proof.
    induction m as [|m IH]; intros g g' HE C.
    - cbn [drain orel fst snd option_map]. split; [exact HE|]. repeat split.
    - cbn [drain]. pose proof HE as [E1 E2 E3 E4 E5 E6]. rewrite E1.
      destruct (finds g) as [|ev fs]; cbn [map orel]; [reflexivity|].
      assert (HE2 : ERel (set_finds g fs) (set_finds g' (map shev fs))).
      { split; cbn [reg sstk pos pre rest finds estk lastp set_finds]; auto. inversion E2; assumption. }
      eapply orel_bind; [apply (process_event_shift ev _ _ HE2); [exact C | inversion E2; assumption]|].
      intros r r' (R1 & R2 & R3 & R4 & R5). rewrite R4.
      assert (Z1 : same_zip g (fst r)) by (eapply same_zip_trans; [|exact R2]; repeat split).
      assert (Z2 : same_zip g' (fst r')) by (eapply same_zip_trans; [|exact R3]; repeat split).
      destruct (snd r) as [l|] eqn:Sr; cbn [option_map].
      + destruct (R5 l eq_refl) as [L1 L2].
        destruct (note_lexeme_shift l _ _ R1 L1 L2) as (N1 & N2 & N3).
        cbn [orel fst snd option_map]. split; [exact N1|].
        split; [eapply same_zip_trans; eauto|]. split; [eapply same_zip_trans; eauto | reflexivity].
      + assert (C2 : pos (fst r') = pos (fst r) + k).
        { destruct Z1 as (_ & _ & P1 & _), Z2 as (_ & _ & P2 & _). rewrite P1, P2. exact C. }
        pose proof (IH _ _ R1 C2) as H.
        destruct (drain m (fst r)) as [q| | |], (drain m (fst r')) as [q'| | |]; cbn [orel] in *; try contradiction; auto.
        destruct H as (Q1 & Q2 & Q3 & Q4). split; [exact Q1|].
        split; [eapply same_zip_trans; eauto|]. split; [eapply same_zip_trans; eauto | exact Q4].
  Qed.

  Lemma LRel_same_zip g g' h h' : LRel g g' -> same_zip g h -> same_zip g' h' -> ERel h h' -> LRel h h'.
  Proof.
    intros [[Z0 _] [Hc Hpc]] S1 S2 HE. split; [|split].
    - split; [eapply ZRel_same_zip; eauto | exact HE].
    - destruct S1 as (a1 & a2 & a3 & a4 & a5). rewrite a1, a3. intros Hp.
      split; [eapply ZRel_same_zip; [exact (proj1 (Hc Hp))| repeat split; assumption | exact S2] | exact HE].
    - destruct S1 as (a1 & a2 & _). unfold pairc. rewrite a1, a2. exact Hpc.
  Qed.

  (* ---- the byte loop, Next(), the whole scan ---- *)
  Definition RR (r r' : cfg * option lexeme) : Prop := LRel (fst r) (fst r') /\ snd r' = option_map shL (snd r).

  Lemma main_loop_shift f : forall g g',
    LRel g g' -> orel k RR (main_loop jsc enum D size f g) (main_loop jsc enum D' size' f g').
  Proof.
    induction f as [|f IH]; intros g g' HL; [exact I|].
    cbn [main_loop]. pose proof HL as [[Z0 E0] [Hc Hpc]].
    unfold size' at 1 2 3. rewrite (Z_pos _ _ _ Z0), leb_shift, eqb_shift, (Z_rest _ _ _ Z0).
    destruct (pos g <=? size) eqn:Hp; [|cbn [orel]; split; [exact HL | reflexivity]].
    apply N.leb_le in Hp. specialize (Hc Hp).
    destruct (if pos g =? size then Some 0 else hd_error (rest g)) as [c|]; cbn [orel]; [|reflexivity].
    destruct ((c =? 0) && negb (pos g =? size)); cbn [orel]; [split; reflexivity|].
    eapply orel_bind; [apply dispatch_shift; [exact Hc | exact Hpc]|].
    intros g1 g1' H1. apply advance1_shift in H1.
    assert (Hlen : List.length (finds (advance g1' 1)) = List.length (finds (advance g1 1))).
    { rewrite (E_finds _ _ (proj2 (proj1 H1))). apply map_length. }
    rewrite Hlen.
    eapply orel_bind; [apply drain_shift; [exact (proj2 (proj1 H1)) | exact (Z_pos _ _ _ (proj1 (proj1 H1)))]|].
    intros r r' (R1 & R2 & R3 & R4). rewrite R4.
    assert (HL2 : LRel (fst r) (fst r')) by (eapply LRel_same_zip; eauto).
    destruct (snd r) as [l|] eqn:Sr; cbn [option_map].
    - cbn [orel]. split; [exact HL2|]. rewrite R4, Sr. reflexivity.
    - apply IH. exact HL2.
  Qed.

  Lemma next_shift f g g' :
    LRel g g' -> orel k RR (next jsc enum D size f g) (next jsc enum D' size' f g').
  Proof.
    intros HL. unfold next. pose proof HL as [[Z0 E0] [Hc Hpc]]. pose proof E0 as [E1 E2 E3 E4 E5 E6]. rewrite E1.
    destruct (finds g) as [|ev fs] eqn:Ef; cbn [map]; [apply main_loop_shift; exact HL|].
    assert (HE2 : ERel (set_finds g fs) (set_finds g' (map shev fs))).
    { split; cbn [reg sstk pos pre rest finds estk lastp set_finds]; auto. inversion E2; assumption. }
    eapply orel_bind; [apply (process_event_shift ev _ _ HE2); [exact (Z_pos _ _ _ Z0) | inversion E2; assumption]|].
    intros r r' (R1 & R2 & R3 & R4 & R5). rewrite R4.
    assert (HL2 : LRel (fst r) (fst r')).
    { eapply LRel_same_zip; [exact HL | | | exact R1]; (eapply same_zip_trans; [|eassumption]; repeat split). }
    destruct (snd r) as [l|] eqn:Sr; cbn [option_map].
    - cbn [orel]. split; [exact HL2|]. rewrite R4, Sr. reflexivity.
    - apply main_loop_shift. exact HL2.
  Qed.

  Definition she (e : scan_end) : scan_end := match e with SErr p x => SErr (p + k) x | _ => e end.

  (* the scan from a configuration: the same verdict, the lexemes still to come shifted by k *)
  Lemma scan_all_shift f : forall g g' acc acc',
    LRel g g' ->
    exists ls, fst (fst (scan_all jsc enum D size f g acc)) = rev acc ++ ls /\
               fst (fst (scan_all jsc enum D' size' f g' acc')) = rev acc' ++ map shL ls /\
               snd (fst (scan_all jsc enum D' size' f g' acc')) = she (snd (fst (scan_all jsc enum D size f g acc))).
  Proof.
    induction f as [|f IH]; intros g g' acc acc' HL.
    - exists []. cbn. rewrite !app_nil_r. auto.
    - cbn [scan_all]. pose proof (next_shift (S f) g g' HL) as H.
      destruct (next jsc enum D size (S f) g) as [[g1 ol]| | |], (next jsc enum D' size' (S f) g' ) as [[g1' ol']| | |];
        cbn [orel] in H; try contradiction.
      + destruct H as [H1 H2]. cbn [fst snd] in H1, H2. subst ol'. destruct ol as [l|]; cbn [option_map].
        * destruct (IH g1 g1' (l :: acc) (shL l :: acc') H1) as (ls & A & B & C).
          exists (l :: ls). rewrite A, B, C. cbn [rev map]. rewrite <- !app_assoc. auto.
        * exists []. cbn. rewrite !app_nil_r. auto.
      + destruct H as [-> ->]. exists []. cbn. rewrite !app_nil_r. auto.
      + subst. exists []. cbn. rewrite !app_nil_r. auto.
      + exists []. cbn. rewrite !app_nil_r. auto.
  Qed.
End Shift.

(* ---------------------------------------------------------------------------------------------- *)
(* 3. one turn of the byte loop; fuel; the run up to a configuration *)

Section Run.
  Variables jsc enum : bytes -> len_result.
  Variable D : bytes.
  Variable size : N.

  (* the body of the `for s.curIndex <= s.dataSize` loop *)
  Definition mstep (g : cfg) : outcome (cfg * option lexeme) :=
    match (if pos g =? size then Some 0 else hd_error (rest g)) with
    | None => Panic "index out of range"
    | Some c =>
      if (c =? 0) && negb (pos g =? size) then Err (pos g) ENul
      else obind (dispatch jsc enum D size redo_fuel c g) (fun g1 =>
           let g2 := advance g1 1 in drain (List.length (finds g2)) g2)
    end.

  Lemma main_loop_unfold f g :
    main_loop jsc enum D size (S f) g =
    if pos g <=? size then
      obind (mstep g) (fun r => match snd r with Some _ => Ok r | None => main_loop jsc enum D size f (fst r) end)
    else Ok (g, None).
  Proof.
    cbn [main_loop]. unfold mstep. destruct (pos g <=? size); [|reflexivity].
    destruct (if pos g =? size then Some 0 else hd_error (rest g)) as [c|]; [|reflexivity].
    destruct ((c =? 0) && negb (pos g =? size)); [reflexivity|].
    destruct (dispatch jsc enum D size redo_fuel c g); reflexivity.
  Qed.

  Lemma main_loop_S f : forall g,
    main_loop jsc enum D size f g <> OutOfFuel -> main_loop jsc enum D size (S f) g = main_loop jsc enum D size f g.
  Proof.
    induction f as [|f IH]; intros g H; [exfalso; apply H; reflexivity|].
    rewrite main_loop_unfold in H. rewrite (main_loop_unfold (S f)), (main_loop_unfold f).
    destruct (pos g <=? size); [|reflexivity].
    destruct (mstep g) as [r| | |]; cbn [obind] in *; try reflexivity.
    destruct (snd r); [reflexivity|]. apply IH. exact H.
  Qed.

  Lemma main_loop_mono f f' g :
    (f <= f')%nat -> main_loop jsc enum D size f g <> OutOfFuel ->
    main_loop jsc enum D size f' g = main_loop jsc enum D size f g.
  Proof.
    intros Hle H. induction Hle as [|m Hle IH]; [reflexivity|].
    rewrite main_loop_S; [exact IH|]. rewrite IH. exact H.
  Qed.

  Lemma next_mono f f' g :
    (f <= f')%nat -> next jsc enum D size f g <> OutOfFuel -> next jsc enum D size f' g = next jsc enum D size f g.
  Proof.
    intros Hle H. unfold next in *. destruct (finds g) as [|ev fs]; [apply main_loop_mono; assumption|].
    destruct (process_event ev (set_finds g fs)) as [r| | |]; cbn [obind] in *; try reflexivity.
    destruct (snd r); [reflexivity|]. apply main_loop_mono; assumption.
  Qed.

  Definition verdict (r : list lexeme * scan_end * cfg) : scan_end := snd (fst r).

  Lemma scan_all_mono f : forall f' g acc,
    (f <= f')%nat -> verdict (scan_all jsc enum D size f g acc) <> SFuel ->
    scan_all jsc enum D size f' g acc = scan_all jsc enum D size f g acc.
  Proof.
    induction f as [|f IH]; intros f' g acc Hle H; [exfalso; apply H; reflexivity|].
    destruct f' as [|f']; [lia|]. cbn [scan_all] in *.
    assert (Hn : next jsc enum D size (S f) g <> OutOfFuel).
    { intros E. rewrite E in H. apply H. reflexivity. }
    rewrite (next_mono (S f) (S f') g Hle Hn).
    destruct (next jsc enum D size (S f) g) as [[g1 [l|]]| | |]; try reflexivity.
    apply IH; [lia | exact H].
  Qed.

  (* the run of the scanner up to a configuration, with the lexemes returned so far (last first): whole calls of
     Next() that return a lexeme, and single quiet turns of the byte loop *)
  Inductive reach : cfg -> list lexeme -> Prop :=
  | reach_init : reach (init_cfg D) []
  | reach_next g acc f g' l : reach g acc -> next jsc enum D size f g = Ok (g', Some l) -> reach g' (l :: acc)
  | reach_loop g acc g' : reach g acc -> finds g = [] -> pos g <= size -> mstep g = Ok (g', None) -> reach g' acc.

  Lemma process_event_finds ev g r : process_event ev g = Ok r -> finds (fst r) = finds g.
  Proof.
    unfold process_event. destruct ev as [e p].
    destruct (evt_in e evt_beginning); [intros H; injection H as <-; reflexivity|].
    destruct (evt_in e evt_ending).
    { destruct (estk g) as [|[se sp] st]; [discriminate|]. destruct (pair_ok se e); [|discriminate].
      destruct (evt_lexkind e); [|discriminate]. intros H; injection H as <-; reflexivity. }
    destruct (evt_in e evt_single); [|discriminate].
    destruct (evt_lexkind e); [|discriminate]. intros H; injection H as <-; reflexivity.
  Qed.

  Lemma drain_none m : forall g g', drain m g = Ok (g', None) -> List.length (finds g) = m -> finds g' = [].
  Proof.
    induction m as [|m IH]; intros g g' H L.
    - cbn in H. injection H as <-. destruct (finds g); [reflexivity | discriminate].
    - cbn [drain] in H. destruct (finds g) as [|ev fs] eqn:Ef; [discriminate|].
      destruct (process_event ev (set_finds g fs)) as [r| | |] eqn:Ep; cbn [obind] in H; try discriminate.
      destruct (snd r); [discriminate|]. apply (IH _ _ H).
      rewrite (process_event_finds _ _ _ Ep). cbn in *. lia.
  Qed.

  Lemma mstep_none g g' : mstep g = Ok (g', None) -> finds g' = [].
  Proof.
    unfold mstep. destruct (if pos g =? size then Some 0 else hd_error (rest g)) as [c|]; [|discriminate].
    destruct ((c =? 0) && negb (pos g =? size)); [discriminate|].
    destruct (dispatch jsc enum D size redo_fuel c g) as [g1| | |]; cbn [obind]; try discriminate.
    intros H. eapply drain_none; [exact H | reflexivity].
  Qed.

  (* a scan that does not run out of fuel passes through every configuration of its run *)
  Lemma reach_scan g acc : reach g acc -> forall F,
    verdict (scan_all jsc enum D size F (init_cfg D) []) <> SFuel ->
    exists f, fst (scan_all jsc enum D size f g acc) = fst (scan_all jsc enum D size F (init_cfg D) []).
  Proof.
    induction 1 as [|g acc f0 g' l Hr IH Hn|g acc g' Hr IH Hf Hp Hm]; intros F HF.
    - exists F. reflexivity.
    - destruct (IH F HF) as [f E]. unfold verdict in HF. rewrite <- E in HF.
      destruct f as [|f]; [exfalso; apply HF; reflexivity|]. cbn [scan_all] in E, HF.
      assert (Hne : next jsc enum D size (S f) g <> OutOfFuel).
      { intros X. rewrite X in HF. apply HF. reflexivity. }
      assert (Hn2 : next jsc enum D size (S f) g = Ok (g', Some l)).
      { rewrite <- Hn. destruct (PeanoNat.Nat.le_ge_cases (S f) f0) as [L|L].
        - symmetry. apply next_mono; assumption.
        - apply next_mono; [exact L|]. rewrite Hn. discriminate. }
      rewrite Hn2 in E. exists f. exact E.
    - destruct (IH F HF) as [f E]. unfold verdict in HF. rewrite <- E in HF.
      destruct f as [|f]; [exfalso; apply HF; reflexivity|].
      exists (S f). rewrite <- E. cbn [scan_all] in HF |- *.
      assert (N1 : next jsc enum D size (S f) g = main_loop jsc enum D size f g').
      { unfold next. rewrite Hf, main_loop_unfold.
        replace (pos g <=? size) with true by (symmetry; apply N.leb_le; exact Hp). rewrite Hm. reflexivity. }
      rewrite N1 in HF |- *.
      assert (Hne : main_loop jsc enum D size f g' <> OutOfFuel).
      { intros X. rewrite X in HF. apply HF. reflexivity. }
      assert (N2 : next jsc enum D size (S f) g' = main_loop jsc enum D size f g').
      { unfold next. rewrite (mstep_none _ _ Hm). apply main_loop_S. exact Hne. }
      rewrite N2. destruct (main_loop jsc enum D size f g') as [[g2 [l|]]| | |]; reflexivity.
  Qed.
End Run.

(* ---------------------------------------------------------------------------------------------- *)
(* 4. the whole input: data = a ++ b, blanks w inserted at |a| *)

(* the leaf a byte reaches through byte tests alone *)
Fixpoint byte_leaf (c : N) (t : tree) : option (list act * exit) :=
  match t with
  | Leaf a x => Some (a, x)
  | Node (CByteIn l) t e => if in_set l c then byte_leaf c t else byte_leaf c e
  | Node _ _ _ => None
  end.

Lemma byte_leaf_eval data size c t g ax : byte_leaf c t = Some ax -> eval_tree data size t c g = Ok ax.
Proof.
  induction t as [acts x | q t1 IH1 t2 IH2]; cbn [byte_leaf eval_tree]; intros H.
  - injection H as <-. reflexivity.
  - destruct q; try discriminate. cbn [eval_cond obind]. destruct (in_set l c); auto.
Qed.

Definition blank_leaf (s : state) (c : N) : bool :=
  match byte_leaf c (step_tree s) with Some ([], XNil) => true | _ => false end.

Lemma blank_leaf_table : forallb (fun s => forallb (blank_leaf s) blank_bytes) shift_states = true.
Proof. vm_compute. reflexivity. Qed.

Lemma shift_state_dist s : In s shift_states -> dist s = 0.
Proof. unfold shift_states. rewrite filter_In. intros [_ H]. apply N.eqb_eq. exact H. Qed.

Lemma slice_prefix (a x : bytes) i m :
  (i + m <= List.length a)%nat -> firstn m (skipn i (a ++ x)) = firstn m (skipn i a).
Proof.
  intros H. rewrite skipn_app, firstn_app, skipn_length.
  replace (m - (List.length a - i))%nat with 0%nat by lia. cbn [firstn]. apply app_nil_r.
Qed.

Lemma skipn_past (a x : bytes) i : (List.length a <= i)%nat -> skipn i (a ++ x) = skipn (i - List.length a) x.
Proof. intros H. rewrite skipn_app, skipn_all2 by exact H. reflexivity. Qed.

Section Whole.
  Variables jsc enum : bytes -> len_result.
  Variables a w b : bytes.

  Local Notation D := (a ++ b).
  Local Notation D' := (a ++ w ++ b).
  Local Notation n := (N.of_nat (List.length a)).
  Local Notation k := (N.of_nat (List.length w)).
  Local Notation size := (N.of_nat (List.length (a ++ b))).

  Lemma size_ins : N.of_nat (List.length (a ++ w ++ b)) = size' size k.
  Proof. unfold size'. rewrite !app_length. lia. Qed.

  Lemma lex_value_lo l : le l < n -> lex_value D' (size' size k) l = lex_value D size l.
  Proof.
    intros H. unfold lex_value, size', suffix. rewrite !app_length.
    replace (le l + 1 <=? N.of_nat (List.length a + List.length b) + k) with true by (symmetry; apply N.leb_le; lia).
    replace (le l + 1 <=? N.of_nat (List.length a + List.length b)) with true by (symmetry; apply N.leb_le; lia).
    destruct (lb l <=? le l + 1) eqn:E; [|reflexivity]. apply N.leb_le in E. cbn [andb]. f_equal.
    rewrite !slice_prefix by lia. reflexivity.
  Qed.

  Lemma lex_value_hi l : n <= lb l -> lex_value D' (size' size k) (shL k l) = lex_value D size l.
  Proof.
    intros H. unfold lex_value, size', suffix, shL. cbn [lb le].
    replace (lb l + k <=? le l + k + 1) with (lb l <=? le l + 1)
      by (destruct (N.leb_spec (lb l) (le l + 1)), (N.leb_spec (lb l + k) (le l + k + 1)); try reflexivity; lia).
    replace (le l + k + 1 <=? size + k) with (le l + 1 <=? size)
      by (destruct (N.leb_spec (le l + 1) size), (N.leb_spec (le l + k + 1) (size + k)); try reflexivity; lia).
    destruct ((lb l <=? le l + 1) && (le l + 1 <=? size)); [|reflexivity]. f_equal.
    replace (le l + k + 1 - (lb l + k)) with (le l + 1 - lb l) by lia. f_equal.
    rewrite !skipn_past by lia. f_equal. lia.
  Qed.

  Definition blank (c : N) : Prop := In c blank_bytes.

  (* one inserted blank: a quiet turn of the byte loop that only moves the read position *)
  Lemma blank_mstep X sz g c r :
    In (reg g) shift_states -> blank c -> finds g = [] -> rest g = c :: r -> pos g < sz ->
    mstep jsc enum X sz g = Ok (advance g 1, None).
  Proof.
    intros Hs Hc Hf Hr Hp. unfold mstep.
    replace (pos g =? sz) with false by (symmetry; apply N.eqb_neq; lia). rewrite Hr. cbn [hd_error].
    assert (c =? 0 = false) as -> by (destruct Hc as [<-|[<-|[<-|[<-|[]]]]]; reflexivity). cbn [andb].
    change redo_fuel with (S 63). rewrite dispatch_one_step. unfold one_step.
    pose proof blank_leaf_table as T. rewrite forallb_forall in T. specialize (T _ Hs).
    rewrite forallb_forall in T. specialize (T _ Hc). unfold blank_leaf in T.
    destruct (byte_leaf c (step_tree (reg g))) as [[acts x]|] eqn:B; [|discriminate].
    destruct acts; [|discriminate]. destruct x; try discriminate.
    rewrite (byte_leaf_eval X sz _ _ g _ B). cbn [obind fst snd exec_acts].
    assert (finds (advance g 1) = []) as -> by exact Hf. reflexivity.
  Qed.

  Lemma blanks_reach X sz acc : forall v g r,
    Forall blank v -> In (reg g) shift_states -> finds g = [] -> rest g = v ++ r ->
    pos g + N.of_nat (List.length v) <= sz ->
    reach jsc enum X sz g acc ->
    reach jsc enum X sz (set_zip g (pos g + N.of_nat (List.length v)) (rev v ++ pre g) r) acc.
  Proof.
    induction v as [|c v IH]; intros g r Hv Hs Hf Hr Hp HR.
    - cbn [List.length rev app N.of_nat] in *. rewrite N.add_0_r. clear Hs Hv Hp Hf.
      destruct g as [g1 g2 g3 g4 g5 g6 g7 g8]; cbn [rest pos pre set_zip reg sstk finds estk lastp] in *; subst; exact HR.
    - inversion Hv as [|? ? Hc Hv']; subst. cbn [app] in Hr. cbn [List.length] in Hp.
      assert (A : advance g 1 = set_zip g (pos g + 1) (c :: pre g) (v ++ r)).
      { unfold advance. rewrite Hr. reflexivity. }
      assert (R1 : reach jsc enum X sz (advance g 1) acc).
      { eapply reach_loop; [exact HR | exact Hf | lia |]. eapply blank_mstep; eauto. lia. }
      rewrite A in R1.
      specialize (IH (set_zip g (pos g + 1) (c :: pre g) (v ++ r)) r Hv' Hs Hf eq_refl). cbn [pos pre set_zip] in IH.
      assert (Hp2 : pos g + 1 + N.of_nat (List.length v) <= sz) by lia.
      specialize (IH Hp2 R1). unfold set_zip in IH |- *. cbn [reg sstk finds estk lastp] in IH.
      cbn [rev List.length]. rewrite <- app_assoc. cbn [app].
      replace (pos g + N.of_nat (S (List.length v))) with (pos g + 1 + N.of_nat (List.length v)) by lia. exact IH.
  Qed.

  Lemma she_fuel e : e <> SFuel -> she k e <> SFuel.
  Proof. destruct e; cbn; congruence. Qed.

  (* the configuration after the inserted bytes: g moved by |w| *)
  Definition moved (g : cfg) : cfg := set_zip g (pos g + k) (rev w ++ pre g) (rest g).

  (* ANY inserted bytes w (here no assumption on w): if the longer input is scanned up to the configuration of the
     shorter one moved by |w|, the rest of the scan is the same, moved by |w| *)
  Theorem insertion_shift_lemma g acc :
    reach jsc enum D size g acc ->
    reach jsc enum D' (size' size k) (moved g) acc ->
    pos g = n -> pre g = rev a -> rest g = b -> finds g = [] -> estk g = [] ->
    dist (reg g) = 0 ->
    stack_inv g ->
    Forall (fun l => le l < n) (lastp g) ->
    verdict (scan jsc enum D) <> SFuel -> verdict (scan jsc enum D') <> SFuel ->
    exists ls,
      fst (fst (scan jsc enum D)) = rev acc ++ ls /\
      fst (fst (scan jsc enum D')) = rev acc ++ map (shL k) ls /\
      verdict (scan jsc enum D') = she k (verdict (scan jsc enum D)).
  Proof.
    intros R1 R3 Hpos Hpre Hrest Hf He Hs [Hstk [Hpc Hch]] Hlast V1 V2.
    set (gs := moved g) in *.
    assert (HR0 : Rel size n k (rev a) (rev w ++ rev a) 0 g gs).
    { split; split; cbn [reg sstk pos pre rest finds estk lastp set_zip gs moved]; auto.
      - exists []. rewrite Hpre. cbn. repeat split; lia.
      - rewrite Hpos, Hrest, app_length. lia.
      - rewrite Hf. reflexivity.
      - rewrite Hf. constructor.
      - rewrite He. reflexivity.
      - rewrite He. constructor.
      - clear -Hlast. induction Hlast as [|l ls Hl _ IH]; [reflexivity|]. cbn [map]. rewrite <- IH. f_equal.
        unfold shl. replace (le l <? n) with true by (symmetry; apply N.ltb_lt; exact Hl). reflexivity.
      - eapply Forall_impl; [|exact Hlast]. intros l Hl. left. exact Hl. }
    assert (HL : LRel size n k (rev a) (rev w ++ rev a) g gs).
    { split; [exact HR0|]. split; [intros _; rewrite Hs; exact HR0 | exact Hpc]. }
    unfold scan in *. rewrite size_ins in *.
    destruct (reach_scan _ _ _ _ _ _ R1 _ V1) as [f1 E1].
    destruct (reach_scan _ _ _ _ _ _ R3 _ V2) as [f2 E2].
    destruct (scan_all_shift jsc enum D D' size n k (rev a) (rev w ++ rev a) lex_value_lo lex_value_hi f1 g gs acc acc HL)
      as (ls & A & B & C).
    assert (W1 : verdict (scan_all jsc enum D size f1 g acc) <> SFuel) by (unfold verdict in *; rewrite E1; exact V1).
    assert (W2 : verdict (scan_all jsc enum D' (size' size k) f1 gs acc) <> SFuel).
    { unfold verdict in *. rewrite C. apply she_fuel. exact W1. }
    assert (W3 : verdict (scan_all jsc enum D' (size' size k) f2 gs acc) <> SFuel) by (unfold verdict in *; rewrite E2; exact V2).
    assert (EQ : scan_all jsc enum D' (size' size k) f1 gs acc = scan_all jsc enum D' (size' size k) f2 gs acc).
    { rewrite <- (scan_all_mono jsc enum D' (size' size k) f1 (Nat.max f1 f2) gs acc (PeanoNat.Nat.le_max_l _ _) W2).
      apply (scan_all_mono jsc enum D' (size' size k) f2 (Nat.max f1 f2) gs acc (PeanoNat.Nat.le_max_r _ _) W3). }
    exists ls. unfold verdict. rewrite <- E1, <- E2, <- EQ. auto.
  Qed.

  (* blanks inserted in a state where they are inert, with nothing pending and no lexeme open: the lexemes returned
     before the insertion point stay, those after it are shifted, the verdict is the same (its position shifted).
     Premises: the two runs up to the insertion point (same configuration but for the text ahead). *)
  Theorem blank_insertion_shift_lemma g acc :
    Forall blank w ->
    reach jsc enum D size g acc ->
    reach jsc enum D' (size' size k) (set_zip g (pos g) (pre g) (w ++ b)) acc ->
    pos g = n -> pre g = rev a -> rest g = b -> finds g = [] -> estk g = [] ->
    In (reg g) shift_states ->
    stack_inv g ->
    Forall (fun l => le l < n) (lastp g) ->
    verdict (scan jsc enum D) <> SFuel -> verdict (scan jsc enum D') <> SFuel ->
    exists ls,
      fst (fst (scan jsc enum D)) = rev acc ++ ls /\
      fst (fst (scan jsc enum D')) = rev acc ++ map (shL k) ls /\
      verdict (scan jsc enum D') = she k (verdict (scan jsc enum D)).
  Proof.
    intros Hw R1 R2 Hpos Hpre Hrest Hf He Hs Hstk Hlast V1 V2.
    pose proof (blanks_reach D' (size' size k) acc w (set_zip g (pos g) (pre g) (w ++ b)) b Hw Hs Hf eq_refl) as R3.
    cbn [pos pre set_zip] in R3.
    assert (Hle : pos g + k <= size' size k) by (unfold size'; rewrite Hpos, app_length; lia).
    specialize (R3 Hle R2).
    apply (insertion_shift_lemma g acc); try assumption; [|apply shift_state_dist; exact Hs].
    unfold moved. rewrite Hrest. exact R3.
  Qed.
End Whole.

(* ---------------------------------------------------------------------------------------------- *)
(* 5. corollaries: total scans; blanks at the very beginning; the run up to a position, by computation *)
From JV.proofs Require Import TM_Events TM_Loop ScanTheorems.

Lemma blank_isb c : blank c -> isb c.
Proof. unfold isb. intros [<-|[<-|[<-|[<-|[]]]]]; reflexivity. Qed.

(* for oracles that answer inside the text they are given and inputs made of bytes, no scan runs out of fuel
   (ScanTheorems.scan_total_lemma): the fuel premises go away *)
Theorem blank_insertion_shift_total_lemma jsc enum a w b g acc :
  len_sane jsc -> len_sane enum -> Forall isb (a ++ b) ->
  Forall blank w ->
  reach jsc enum (a ++ b) (N.of_nat (List.length (a ++ b))) g acc ->
  reach jsc enum (a ++ w ++ b) (N.of_nat (List.length (a ++ w ++ b))) (set_zip g (pos g) (pre g) (w ++ b)) acc ->
  pos g = N.of_nat (List.length a) -> pre g = rev a -> rest g = b -> finds g = [] -> estk g = [] ->
  In (reg g) shift_states ->
  stack_inv g ->
  Forall (fun l => le l < N.of_nat (List.length a)) (lastp g) ->
  exists ls,
    fst (fst (scan jsc enum (a ++ b))) = rev acc ++ ls /\
    fst (fst (scan jsc enum (a ++ w ++ b))) = rev acc ++ map (shL (N.of_nat (List.length w))) ls /\
    verdict (scan jsc enum (a ++ w ++ b)) = she (N.of_nat (List.length w)) (verdict (scan jsc enum (a ++ b))).
Proof.
  intros S1 S2 HB Hw R1 R2. rewrite size_ins in R2.
  assert (HB' : Forall isb (a ++ w ++ b)).
  { apply Forall_app in HB as [Ha Hb]. apply Forall_app. split; [exact Ha|]. apply Forall_app. split; [|exact Hb].
    eapply Forall_impl; [|exact Hw]. exact blank_isb. }
  intros. eapply blank_insertion_shift_lemma; eauto.
  - pose proof (scan_total_lemma jsc enum (a ++ b) S1 S2 HB) as T. unfold scan_result, verdict in *.
    intros E. rewrite E in T. exact T.
  - pose proof (scan_total_lemma jsc enum (a ++ w ++ b) S1 S2 HB') as T. unfold scan_result, verdict in *.
    intros E. rewrite E in T. exact T.
Qed.

(* blank lines, indentation before the first directive: no premise about any run is left *)
Theorem leading_blanks_shift_lemma jsc enum w b :
  len_sane jsc -> len_sane enum -> Forall isb b -> Forall blank w ->
  let k := N.of_nat (List.length w) in
  fst (fst (scan jsc enum (w ++ b))) = map (shL k) (fst (fst (scan jsc enum b))) /\
  verdict (scan jsc enum (w ++ b)) = she k (verdict (scan jsc enum b)).
Proof.
  intros S1 S2 HB Hw k.
  assert (Hs : In (reg (init_cfg b)) shift_states) by (vm_compute; auto 20).
  destruct (blank_insertion_shift_total_lemma jsc enum [] w b (init_cfg b) [] S1 S2 HB Hw
              (reach_init jsc enum b _) (reach_init jsc enum (w ++ b) _)
              eq_refl eq_refl eq_refl eq_refl eq_refl Hs (conj (Forall_nil _) (conj (fun _ => I) I)) (Forall_nil _)) as (ls & A & B & C).
  cbn [app rev] in A, B, C. rewrite A, B, C. split; reflexivity.
Qed.

(* the run up to the first turn of the byte loop that starts at position [stop] with nothing pending, computed *)
Section RunTo.
  Variables jsc enum : bytes -> len_result.
  Variable D : bytes.
  Variable size : N.
  Variable stop : N.

  Fixpoint run_to (fuel : nat) (g : cfg) (acc : list lexeme) : option (cfg * list lexeme) :=
    match fuel with
    | O => None
    | S f =>
      match finds g with
      | [] =>
        if pos g =? stop then Some (g, acc)
        else if pos g <=? size then
          match mstep jsc enum D size g with
          | Ok (g', None) => run_to f g' acc
          | Ok (g', Some l) => run_to f g' (l :: acc)
          | _ => None
          end
        else None
      | ev :: fs =>
        match process_event ev (set_finds g fs) with
        | Ok (g', Some l) => run_to f g' (l :: acc)
        | _ => None
        end
      end
    end.

  Lemma run_to_reach fuel : forall g acc r,
    reach jsc enum D size g acc -> run_to fuel g acc = Some r -> reach jsc enum D size (fst r) (snd r).
  Proof.
    induction fuel as [|f IH]; intros g acc r HR H; [discriminate|].
    cbn [run_to] in H. destruct (finds g) as [|ev fs] eqn:Ef.
    - destruct (pos g =? stop); [injection H as <-; exact HR|].
      destruct (pos g <=? size) eqn:Hp; [|discriminate].
      destruct (mstep jsc enum D size g) as [[g' [l|]]| | |] eqn:Em; try discriminate.
      + apply (IH _ _ _ (reach_next jsc enum D size g acc 1 g' l HR
                 ltac:(unfold next; rewrite Ef, main_loop_unfold, Hp, Em; reflexivity)) H).
      + apply N.leb_le in Hp. apply (IH _ _ _ (reach_loop jsc enum D size g acc g' HR Ef Hp Em) H).
    - destruct (process_event ev (set_finds g fs)) as [[g' [l|]]| | |] eqn:Ep; try discriminate.
      apply (IH _ _ _ (reach_next jsc enum D size g acc 0 g' l HR
               ltac:(unfold next; rewrite Ef, Ep; reflexivity)) H).
  Qed.
End RunTo.

Definition prefix_run jsc enum (D : bytes) (stop : N) : option (cfg * list lexeme) :=
  run_to jsc enum D (N.of_nat (List.length D)) stop (scan_fuel D) (init_cfg D) [].

Lemma prefix_run_reach jsc enum D stop g acc :
  prefix_run jsc enum D stop = Some (g, acc) -> reach jsc enum D (N.of_nat (List.length D)) g acc.
Proof. intros H. apply (run_to_reach _ _ _ _ _ _ _ _ _ (reach_init _ _ _ _) H). Qed.

(* the same with the two runs up to the insertion point given by computation *)
Theorem blank_insertion_shift_run_lemma jsc enum a w b g acc :
  len_sane jsc -> len_sane enum -> Forall isb (a ++ b) -> Forall blank w ->
  prefix_run jsc enum (a ++ b) (N.of_nat (List.length a)) = Some (g, acc) ->
  prefix_run jsc enum (a ++ w ++ b) (N.of_nat (List.length a)) = Some (set_zip g (pos g) (pre g) (w ++ b), acc) ->
  pos g = N.of_nat (List.length a) -> pre g = rev a -> rest g = b -> finds g = [] -> estk g = [] ->
  In (reg g) shift_states ->
  stack_inv g ->
  Forall (fun l => le l < N.of_nat (List.length a)) (lastp g) ->
  exists ls,
    fst (fst (scan jsc enum (a ++ b))) = rev acc ++ ls /\
    fst (fst (scan jsc enum (a ++ w ++ b))) = rev acc ++ map (shL (N.of_nat (List.length w))) ls /\
    verdict (scan jsc enum (a ++ w ++ b)) = she (N.of_nat (List.length w)) (verdict (scan jsc enum (a ++ b))).
Proof.
  intros S1 S2 HB Hw P1 P2. apply blank_insertion_shift_total_lemma; try assumption.
  - eapply prefix_run_reach; exact P1.
  - eapply prefix_run_reach; exact P2.
Qed.

(* non-vacuity: "JSIGHT 0.3 / URL /a / GET", a line of blanks (space, tab, CR, LF) inserted between URL and GET.
   All premises hold by computation; GET moves from 18..20 to 22..24, everything before stays. *)
Module ShiftExample.
  Definition o0 : bytes -> len_result := fun _ => LenOk 0.
  Definition a : bytes := bs "JSIGHT 0.3" ++ [10] ++ bs "URL /a" ++ [10].
  Definition w : bytes := [32; 9; 13; 10].
  Definition b : bytes := bs "GET" ++ [10].
  Definition spans (r : list lexeme * scan_end * cfg) : list (N * N) := map (fun l => (lb l, le l)) (fst (fst r)).

  Lemma o0_sane : len_sane o0.
  Proof. intros s. cbn. lia. Qed.

  Example premises :
    exists g acc,
      prefix_run o0 o0 (a ++ b) 18 = Some (g, acc) /\
      prefix_run o0 o0 (a ++ w ++ b) 18 = Some (set_zip g (pos g) (pre g) (w ++ b), acc) /\
      reg g = StExpectKeyword /\ pos g = 18 /\ pre g = rev a /\ rest g = b /\ finds g = [] /\ estk g = [] /\
      sstk g = [] /\ map (fun l => (lb l, le l)) (lastp g) = [(15, 16)] /\ List.length acc = 4%nat.
  Proof. eexists. eexists. split; [vm_compute; reflexivity|]. repeat split; vm_compute; reflexivity. Qed.

  Example blank_line_between_directives :
    spans (scan o0 o0 (a ++ b)) = [(0, 5); (7, 9); (11, 13); (15, 16); (18, 20)] /\
    spans (scan o0 o0 (a ++ w ++ b)) = [(0, 5); (7, 9); (11, 13); (15, 16); (22, 24)] /\
    verdict (scan o0 o0 (a ++ b)) = SEof /\ verdict (scan o0 o0 (a ++ w ++ b)) = SEof.
  Proof. repeat split; vm_compute; reflexivity. Qed.

  (* the theorem applied to this document *)
  Example theorem_applies :
    exists acc ls,
      fst (fst (scan o0 o0 (a ++ b))) = rev acc ++ ls /\
      fst (fst (scan o0 o0 (a ++ w ++ b))) = rev acc ++ map (shL 4) ls /\
      List.length acc = 4%nat /\ List.length ls = 1%nat.
  Proof.
    destruct premises as (g & acc & P1 & P2 & Hreg & Hpos & Hpre & Hrest & Hf & He & Hst & Hl & Hn).
    destruct (blank_insertion_shift_run_lemma o0 o0 a w b g acc o0_sane o0_sane) as (ls & A & B & C); try assumption.
    - unfold isb. vm_compute. repeat constructor.
    - unfold w. repeat (apply Forall_cons; [unfold blank, blank_bytes; cbn [In]; auto 10|]). apply Forall_nil.
    - rewrite Hreg. vm_compute. auto 20.
    - unfold stack_inv. rewrite Hst. split; [constructor | split; [intros _; exact I | exact I]].
    - clear -Hl. destruct (lastp g) as [|l [|l2 r]]; try discriminate. injection Hl as E1 E2.
      constructor; [|constructor]. rewrite E2. reflexivity.
    - exists acc, ls. split; [exact A|]. split; [exact B|]. split; [exact Hn|].
      assert (E : List.length (fst (fst (scan o0 o0 (a ++ b)))) = 5%nat) by (vm_compute; reflexivity).
      rewrite A, app_length, rev_length, Hn in E. lia.
  Qed.
End ShiftExample.

(* ---------------------------------------------------------------------------------------------- *)
(* 6. the bound on the state stack holds in every run *)
Section StackInv.
  Variables jsc enum : bytes -> len_result.
  Variable D : bytes.
  Variable size : N.

  Definition stk_ok (g : cfg) : Prop := stack_inv g.

  (* inside a leaf *)
  Definition J (dr : N * rk * bool) (g : cfg) : Prop :=
    regok (snd (fst dr)) g /\ topz (snd dr) g /\ Forall (fun s => dist s <= stack_bound) (sstk g) /\ chain (sstk g).

  Lemma exec_act_stk a dr dr' g g' :
    fstep dr a = Some dr' -> J dr g -> exec_act jsc enum a g = Ok g' -> J dr' g'.
  Proof.
    destruct dr as [[d r] z]. intros Hf (Hr & Hz & Hs & Hc) He. cbn [fst snd] in *.
    assert (Keep : forall h, sstk h = sstk g -> reg h = reg g -> J (d, r, z) h).
    { intros h E1 E2. unfold J, topz, pairc. cbn [fst snd]. rewrite E1. repeat split; auto.
      destruct r as [s|zz]; cbn [regok] in *; unfold pairc in *; rewrite ?E1, ?E2; exact Hr. }
    destruct a as [back e|s|s| | |m| |]; cbn [fstep] in Hf; cbn [exec_act] in He.
    - destruct (back <=? d); [|discriminate]. injection Hf as <-. destruct (pos g <? back); [discriminate|].
      injection He as <-. apply Keep; reflexivity.
    - injection Hf as <-. injection He as <-. repeat split; auto.
    - destruct r as [s0|zz]; [|discriminate].
      destruct ((dist s <=? stack_bound) && (negb (tight s) || z)) eqn:E; [|discriminate]. injection Hf as <-. injection He as <-.
      apply andb_true_iff in E as [E1 E2]. apply N.leb_le in E1. unfold J, topz. cbn [fst snd sstk set_sstk regok reg].
      split; [exact Hr|]. split; [intros Hd; cbn [top_zero]; apply N.eqb_eq; exact Hd|]. split; [constructor; assumption|].
      split; [|exact Hc]. intros Ht. rewrite Ht in E2. cbn in E2. apply Hz. exact E2.
    - destruct r as [s0|zz]; [|discriminate]. cbn [regok] in Hr.
      destruct ((dist s0 <=? stack_bound) && (negb (tight s0) || z)) eqn:E; [|discriminate]. injection Hf as <-. injection He as <-.
      apply andb_true_iff in E as [E1 E2]. apply N.leb_le in E1. unfold J, topz. cbn [fst snd sstk set_sstk regok reg].
      split; [exact Hr|]. split; [intros Hd; cbn [top_zero]; rewrite Hr; apply N.eqb_eq; exact Hd|].
      split; [constructor; [rewrite Hr; exact E1 | exact Hs]|].
      split; [|exact Hc]. rewrite Hr. intros Ht. rewrite Ht in E2. cbn in E2. apply Hz. exact E2.
    - injection Hf as <-. destruct (sstk g) as [|s st] eqn:Es; [discriminate|]. injection He as <-.
      destruct Hc as [Hc1 Hc2]. unfold J, topz, pairc. cbn [fst snd sstk reg set_sstk set_reg regok].
      split; [split|].
      + destruct z; [|inversion Hs; assumption]. unfold topz in Hz. rewrite Es in Hz. pose proof (Hz eq_refl) as Hz0.
        cbn [top_zero] in Hz0. rewrite Hz0. lia.
      + unfold pairc. cbn [sstk reg set_sstk set_reg]. exact Hc1.
      + split; [discriminate|]. split; [inversion Hs; assumption | exact Hc2].
    - destruct (m <=? d); [|discriminate]. injection Hf as <-. destruct (pos g <? m); [discriminate|].
      injection He as <-. destruct (Keep (retreat g m) eq_refl eq_refl) as (K1 & K2 & K3 & K4). repeat split; assumption.
    - injection Hf as <-. unfold read_body in He. destruct (jsc (rest g)); [|discriminate]. injection He as <-.
      destruct (0 <? n); apply Keep; reflexivity.
    - injection Hf as <-. unfold read_body in He. destruct (enum (rest g)); [|discriminate]. injection He as <-.
      destruct (0 <? n); apply Keep; reflexivity.
  Qed.

  Lemma exec_acts_stk acts : forall dr dr' g g',
    ffold dr acts = Some dr' -> J dr g -> exec_acts jsc enum acts g = Ok g' -> J dr' g'.
  Proof.
    induction acts as [|a acts IH]; intros dr dr' g g' Hf HJ He.
    - cbn in He, Hf. injection He as <-. injection Hf as <-. exact HJ.
    - cbn [ffold] in Hf. destruct (fstep dr a) as [dr1|] eqn:F1; [|discriminate].
      cbn [exec_acts] in He. destruct (exec_act jsc enum a g) as [g1| | |] eqn:E1; cbn [obind] in He; try discriminate.
      eapply IH; eauto. eapply exec_act_stk; eauto.
  Qed.

  Lemma dispatch_stk f : forall c g g', stk_ok g -> dispatch jsc enum D size f c g = Ok g' -> stk_ok g'.
  Proof.
    induction f as [|f IH]; intros c g g' Hs H; [discriminate|].
    cbn [dispatch] in H.
    destruct (eval_tree D size (step_tree (reg g)) c g) as [ax| | |] eqn:Eax; cbn [obind] in H; try discriminate.
    destruct (dist_ok_state (reg g)) as [_ Hl]. specialize (Hl ax (eval_tree_in_leaves _ _ _ _ _ _ Eax)).
    unfold leaf_dist_ok in Hl.
    destruct (ffold (dist (reg g), RK (reg g), tight (reg g)) (fst ax)) as [[[d1 r1] z1]|] eqn:Ff; [|discriminate].
    destruct (exec_acts jsc enum (fst ax) g) as [g1| | |] eqn:Ex; cbn [obind] in H; try discriminate.
    destruct Hs as [Hs1 [Hs2 Hs3]].
    assert (J0 : J (dist (reg g), RK (reg g), tight (reg g)) g) by (repeat split; auto).
    destruct (exec_acts_stk _ _ _ _ _ Ff J0 Ex) as (K1 & K2 & K3 & K4). cbn [fst snd] in K1, K2.
    assert (Hfin : forall b, (dist_reg r1 <=? d1 + b) && match r1 with RK t => negb (tight t) || z1 | RPop _ => true end = true -> stk_ok g1).
    { intros b Hb. apply andb_true_iff in Hb as [_ Hb2]. split; [exact K3|]. split; [|exact K4].
      destruct r1 as [s|zz]; cbn [regok] in K1.
      - rewrite K1. intros Ht. rewrite Ht in Hb2. cbn in Hb2. apply K2. exact Hb2.
      - exact (proj2 K1). }
    destruct (snd ax); [injection H as <-; eapply Hfin; eauto | eapply IH; [eapply Hfin; eauto | exact H] | discriminate].
  Qed.

  Lemma process_event_reg ev g r : process_event ev g = Ok r -> reg (fst r) = reg g.
  Proof.
    unfold process_event. destruct ev as [e p].
    destruct (evt_in e evt_beginning); [intros H; injection H as <-; reflexivity|].
    destruct (evt_in e evt_ending).
    { destruct (estk g) as [|[se sp] st]; [discriminate|]. destruct (pair_ok se e); [|discriminate].
      destruct (evt_lexkind e); [|discriminate]. intros H; injection H as <-; reflexivity. }
    destruct (evt_in e evt_single); [|discriminate].
    destruct (evt_lexkind e); [|discriminate]. intros H; injection H as <-; reflexivity.
  Qed.

  Lemma note_lexeme_reg l g : reg (note_lexeme l g) = reg g.
  Proof. unfold note_lexeme. destruct (lexkind_eqb (lk l) LParameter); [reflexivity|]. destruct (lexkind_eqb (lk l) LKeyword); reflexivity. Qed.

  Lemma process_event_sstk ev g r : process_event ev g = Ok r -> sstk (fst r) = sstk g.
  Proof.
    unfold process_event. destruct ev as [e p].
    destruct (evt_in e evt_beginning); [intros H; injection H as <-; reflexivity|].
    destruct (evt_in e evt_ending).
    { destruct (estk g) as [|[se sp] st]; [discriminate|]. destruct (pair_ok se e); [|discriminate].
      destruct (evt_lexkind e); [|discriminate]. intros H; injection H as <-; reflexivity. }
    destruct (evt_in e evt_single); [|discriminate].
    destruct (evt_lexkind e); [|discriminate]. intros H; injection H as <-; reflexivity.
  Qed.

  Lemma note_lexeme_sstk l g : sstk (note_lexeme l g) = sstk g.
  Proof. unfold note_lexeme. destruct (lexkind_eqb (lk l) LParameter); [reflexivity|]. destruct (lexkind_eqb (lk l) LKeyword); reflexivity. Qed.

  Lemma drain_sstk m : forall g r, drain m g = Ok r -> sstk (fst r) = sstk g.
  Proof.
    induction m as [|m IH]; intros g r H.
    - cbn in H. injection H as <-. reflexivity.
    - cbn [drain] in H. destruct (finds g) as [|ev fs]; [discriminate|].
      destruct (process_event ev (set_finds g fs)) as [r1| | |] eqn:Ep; cbn [obind] in H; try discriminate.
      pose proof (process_event_sstk _ _ _ Ep) as E1. cbn in E1.
      destruct (snd r1).
      + injection H as <-. cbn [fst]. rewrite note_lexeme_sstk. exact E1.
      + rewrite (IH _ _ H). exact E1.
  Qed.

  Lemma drain_reg m : forall g r, drain m g = Ok r -> reg (fst r) = reg g.
  Proof.
    induction m as [|m IH]; intros g r H.
    - cbn in H. injection H as <-. reflexivity.
    - cbn [drain] in H. destruct (finds g) as [|ev fs]; [discriminate|].
      destruct (process_event ev (set_finds g fs)) as [r1| | |] eqn:Ep; cbn [obind] in H; try discriminate.
      pose proof (process_event_reg _ _ _ Ep) as E1. cbn in E1.
      destruct (snd r1).
      + injection H as <-. cbn [fst]. rewrite note_lexeme_reg. exact E1.
      + rewrite (IH _ _ H). exact E1.
  Qed.

  Lemma stk_ok_same g h : sstk h = sstk g -> reg h = reg g -> stk_ok g -> stk_ok h.
  Proof. intros E1 E2 H. unfold stk_ok, stack_inv in *. cbn [chain] in *. rewrite E1, E2. exact H. Qed.

  Lemma mstep_stk g r : stk_ok g -> mstep jsc enum D size g = Ok r -> stk_ok (fst r).
  Proof.
    intros Hs H. unfold mstep in H.
    destruct (if pos g =? size then Some 0 else hd_error (rest g)) as [c|]; [|discriminate].
    destruct ((c =? 0) && negb (pos g =? size)); [discriminate|].
    destruct (dispatch jsc enum D size redo_fuel c g) as [g1| | |] eqn:Ed; cbn [obind] in H; try discriminate.
    eapply stk_ok_same; [exact (drain_sstk _ _ _ H) | exact (drain_reg _ _ _ H) |].
    eapply (stk_ok_same g1); [reflexivity | reflexivity | exact (dispatch_stk _ _ _ _ Hs Ed)].
  Qed.

  Lemma main_loop_stk f : forall g r, stk_ok g -> main_loop jsc enum D size f g = Ok r -> stk_ok (fst r).
  Proof.
    induction f as [|f IH]; intros g r Hs H; [discriminate|].
    rewrite main_loop_unfold in H. destruct (pos g <=? size); [|injection H as <-; exact Hs].
    destruct (mstep jsc enum D size g) as [r1| | |] eqn:Em; cbn [obind] in H; try discriminate.
    pose proof (mstep_stk _ _ Hs Em) as S1.
    destruct (snd r1); [injection H as <-; exact S1 | eapply IH; eauto].
  Qed.

  Lemma next_stk f g r : stk_ok g -> next jsc enum D size f g = Ok r -> stk_ok (fst r).
  Proof.
    intros Hs H. unfold next in H. destruct (finds g) as [|ev fs]; [eapply main_loop_stk; eauto|].
    destruct (process_event ev (set_finds g fs)) as [r1| | |] eqn:Ep; cbn [obind] in H; try discriminate.
    assert (S1 : stk_ok (fst r1)).
    { eapply stk_ok_same; [exact (process_event_sstk _ _ _ Ep) | exact (process_event_reg _ _ _ Ep) | exact Hs]. }
    destruct (snd r1); [injection H as <-; exact S1 | eapply main_loop_stk; eauto].
  Qed.

  Lemma reach_stk g acc : reach jsc enum D size g acc -> stk_ok g.
  Proof.
    induction 1 as [|g acc f g' l _ IH Hn|g acc g' _ IH _ _ Hm].
    - split; [constructor | split; [intros _; exact I | exact I]].
    - exact (next_stk _ _ _ IH Hn).
    - exact (mstep_stk _ _ IH Hm).
  Qed.
End StackInv.

(* ... so that premise goes away *)
Theorem blank_insertion_shift_final_lemma jsc enum a w b g acc :
  len_sane jsc -> len_sane enum -> Forall isb (a ++ b) ->
  Forall blank w ->
  reach jsc enum (a ++ b) (N.of_nat (List.length (a ++ b))) g acc ->
  reach jsc enum (a ++ w ++ b) (N.of_nat (List.length (a ++ w ++ b))) (set_zip g (pos g) (pre g) (w ++ b)) acc ->
  pos g = N.of_nat (List.length a) -> pre g = rev a -> rest g = b -> finds g = [] -> estk g = [] ->
  In (reg g) shift_states ->
  Forall (fun l => le l < N.of_nat (List.length a)) (lastp g) ->
  exists ls,
    fst (fst (scan jsc enum (a ++ b))) = rev acc ++ ls /\
    fst (fst (scan jsc enum (a ++ w ++ b))) = rev acc ++ map (shL (N.of_nat (List.length w))) ls /\
    verdict (scan jsc enum (a ++ w ++ b)) = she (N.of_nat (List.length w)) (verdict (scan jsc enum (a ++ b))).
Proof.
  intros S1 S2 HB Hw R1 R2 Hpos Hpre Hrest Hf He Hs Hl.
  apply (blank_insertion_shift_total_lemma jsc enum a w b g acc); try assumption. exact (reach_stk _ _ _ _ _ _ R1).
Qed.

Theorem blank_insertion_shift_run_final_lemma jsc enum a w b g acc :
  len_sane jsc -> len_sane enum -> Forall isb (a ++ b) -> Forall blank w ->
  prefix_run jsc enum (a ++ b) (N.of_nat (List.length a)) = Some (g, acc) ->
  prefix_run jsc enum (a ++ w ++ b) (N.of_nat (List.length a)) = Some (set_zip g (pos g) (pre g) (w ++ b), acc) ->
  pos g = N.of_nat (List.length a) -> pre g = rev a -> rest g = b -> finds g = [] -> estk g = [] ->
  In (reg g) shift_states ->
  Forall (fun l => le l < N.of_nat (List.length a)) (lastp g) ->
  exists ls,
    fst (fst (scan jsc enum (a ++ b))) = rev acc ++ ls /\
    fst (fst (scan jsc enum (a ++ w ++ b))) = rev acc ++ map (shL (N.of_nat (List.length w))) ls /\
    verdict (scan jsc enum (a ++ w ++ b)) = she (N.of_nat (List.length w)) (verdict (scan jsc enum (a ++ b))).
Proof.
  intros S1 S2 HB Hw P1 P2. apply (blank_insertion_shift_final_lemma jsc enum a w b g acc); try assumption.
  - eapply prefix_run_reach; exact P1.
  - eapply prefix_run_reach; exact P2.
Qed.

(* ---------------------------------------------------------------------------------------------- *)
(* 7. a whole comment line "# text" + LF inserted where a comment may start and blanks are inert *)

Definition hash_leaf (s : state) : bool :=
  match byte_leaf 35 (step_tree s) with Some (a, x) => comment_entry_leaf a x | None => false end.

(* in every shift state that admits a comment, '#' reaches the comment-opening leaf through byte tests alone *)
Lemma hash_leaf_table :
  forallb (fun s => negb (in_states s comment_entry_states) || hash_leaf s) shift_states = true.
Proof. vm_compute. reflexivity. Qed.

Lemma in_states_complete s l : In s l -> in_states s l = true.
Proof.
  intros H. unfold in_states. apply existsb_exists. exists s. split; [exact H|]. unfold TriviaProofs.state_eqb. apply N.eqb_refl.
Qed.

Section CommentLine.
  Variables jsc enum : bytes -> len_result.
  Variable X : bytes.
  Variable sz : N.

  (* a configuration that differs from g in the state registers and the read position only *)
  Definition mk (g : cfg) rg st p pr rs : cfg :=
    {| reg := rg; sstk := st; pos := p; pre := pr; rest := rs; finds := finds g; estk := estk g; lastp := lastp g |}.

  Lemma hash_mstep g s st p pr r :
    In s shift_states -> In s comment_entry_states -> finds g = [] -> p < sz ->
    mstep jsc enum X sz (mk g s st p pr (35 :: r)) = Ok (mk g StCommentStarted (s :: st) (p + 1) (35 :: pr) r, None).
  Proof.
    intros Hs Hc Hf Hp. unfold mstep. cbn [pos rest mk hd_error].
    replace (p =? sz) with false by (symmetry; apply N.eqb_neq; lia). cbn [N.eqb andb].
    change redo_fuel with (S 63). rewrite dispatch_one_step. unfold one_step. cbn [reg mk].
    pose proof hash_leaf_table as T. rewrite forallb_forall in T. specialize (T _ Hs).
    rewrite (in_states_complete _ _ Hc) in T. cbn [negb orb] in T. unfold hash_leaf in T.
    destruct (byte_leaf 35 (step_tree s)) as [[acts x]|] eqn:B; [|discriminate].
    apply comment_entry_leaf_inv in T as [-> ->].
    rewrite (byte_leaf_eval X sz _ _ _ _ B). cbn [obind fst snd exec_acts exec_act].
    cbn [sstk reg mk set_sstk set_reg]. cbn [obind]. unfold advance. cbn. rewrite Hf. reflexivity.
  Qed.

  Lemma plain_not_nul c : plain_comment_byte c = true -> (c =? 0) = false.
  Proof.
    unfold plain_comment_byte, in_set. cbn [existsb]. intros H. apply negb_true_iff in H.
    apply orb_false_iff in H as [H0 _]. exact H0.
  Qed.

  Lemma text_mstep g rg st p pr c r :
    plain_comment_byte c = true -> rg = StCommentStarted \/ rg = StSingleComment -> finds g = [] -> p < sz ->
    mstep jsc enum X sz (mk g rg st p pr (c :: r)) = Ok (mk g StSingleComment st (p + 1) (c :: pr) r, None).
  Proof.
    intros Hc Hr Hf Hp. unfold mstep. cbn [pos rest mk hd_error].
    replace (p =? sz) with false by (symmetry; apply N.eqb_neq; lia). rewrite (plain_not_nul _ Hc). cbn [andb].
    change redo_fuel with (S 63). rewrite dispatch_one_step. unfold one_step. cbn [reg mk].
    destruct single_comment_table as [_ T]. destruct (T c Hc) as [T1 T2].
    destruct Hr as [-> | ->].
    - rewrite (eval_tree_bytes_only X sz _ c _ (init_cfg [])) by reflexivity. rewrite T1.
      cbn [obind fst snd exec_acts exec_act]. unfold advance. cbn. rewrite Hf. reflexivity.
    - rewrite (eval_tree_bytes_only X sz _ c _ (init_cfg [])) by reflexivity. rewrite T2.
      cbn [obind fst snd exec_acts exec_act]. unfold advance. cbn. rewrite Hf. reflexivity.
  Qed.

  Lemma lf_mstep g s st p pr r :
    In s shift_states -> finds g = [] -> p < sz ->
    mstep jsc enum X sz (mk g StSingleComment (s :: st) p pr (10 :: r)) = Ok (mk g s st (p + 1) (10 :: pr) r, None).
  Proof.
    intros Hs Hf Hp. unfold mstep. cbn [pos rest mk hd_error].
    replace (p =? sz) with false by (symmetry; apply N.eqb_neq; lia). cbn [N.eqb andb].
    change redo_fuel with (S (S 62)).
    rewrite (line_comment_end_lemma jsc enum X sz (S 62) 10 (mk g StSingleComment (s :: st) p pr (10 :: r)) s st (or_introl eq_refl) eq_refl eq_refl).
    rewrite dispatch_one_step. unfold one_step. cbn [reg mk set_reg set_sstk].
    pose proof blank_leaf_table as T. rewrite forallb_forall in T. specialize (T _ Hs).
    rewrite forallb_forall in T. specialize (T 10). unfold blank_leaf in T.
    destruct (byte_leaf 10 (step_tree s)) as [[acts x]|] eqn:B; [|discriminate T; cbn; auto].
    assert (T' : match acts with [] => match x with XNil => true | _ => false end | _ => false end = true)
      by (apply T; cbn; auto).
    destruct acts; [|discriminate]. destruct x; try discriminate.
    rewrite (byte_leaf_eval X sz _ _ _ _ B). cbn [obind fst snd exec_acts].
    unfold advance. cbn. rewrite Hf. reflexivity.
  Qed.

  Lemma text_reach g st acc : forall text p pr r,
    forallb plain_comment_byte text = true -> finds g = [] -> p + N.of_nat (List.length text) <= sz ->
    reach jsc enum X sz (mk g StSingleComment st p pr (text ++ r)) acc ->
    reach jsc enum X sz (mk g StSingleComment st (p + N.of_nat (List.length text)) (rev text ++ pr) r) acc.
  Proof.
    induction text as [|c text IH]; intros p pr r Ht Hf Hp HR.
    - cbn [List.length rev app N.of_nat] in *. rewrite N.add_0_r. exact HR.
    - cbn [forallb] in Ht. apply andb_true_iff in Ht as [Hc Ht]. cbn [List.length] in Hp. cbn [app] in HR.
      assert (R1 : reach jsc enum X sz (mk g StSingleComment st (p + 1) (c :: pr) (text ++ r)) acc).
      { eapply reach_loop; [exact HR | exact Hf | cbn [pos mk]; lia |].
        apply text_mstep; [exact Hc | right; reflexivity | exact Hf | lia]. }
      assert (Hp2 : p + 1 + N.of_nat (List.length text) <= sz) by lia.
      specialize (IH _ _ r Ht Hf Hp2 R1).
      cbn [rev List.length]. rewrite <- app_assoc. cbn [app].
      replace (p + N.of_nat (S (List.length text))) with (p + 1 + N.of_nat (List.length text)) by lia. exact IH.
  Qed.

  (* '#', at least one plain byte, LF: back in the interrupted state, only the read position has moved *)
  Lemma comment_line_reach g acc text r :
    In (reg g) shift_states -> In (reg g) comment_entry_states -> finds g = [] ->
    forallb plain_comment_byte text = true -> text <> [] ->
    rest g = (35 :: text ++ [10]) ++ r ->
    pos g + N.of_nat (List.length (35 :: text ++ [10])) <= sz ->
    reach jsc enum X sz g acc ->
    reach jsc enum X sz (set_zip g (pos g + N.of_nat (List.length (35 :: text ++ [10]))) (rev (35 :: text ++ [10]) ++ pre g) r) acc.
  Proof.
    intros Hs Hc Hf Ht Hne Hr Hp HR.
    destruct text as [|c text]; [contradiction|]. cbn [forallb] in Ht. apply andb_true_iff in Ht as [Hc1 Ht].
    cbn [List.length] in Hp. rewrite app_length in Hp. cbn [List.length] in Hp.
    assert (G0 : g = mk g (reg g) (sstk g) (pos g) (pre g) (35 :: c :: (text ++ [10] ++ r))).
    { destruct g as [g1 g2 g3 g4 g5 g6 g7 g8]. cbn [rest] in Hr. unfold mk. cbn. rewrite Hr.
      cbn [app]. rewrite <- app_assoc. reflexivity. }
    rewrite G0 in HR.
    assert (R1 : reach jsc enum X sz (mk g StCommentStarted (reg g :: sstk g) (pos g + 1) (35 :: pre g) (c :: (text ++ [10] ++ r))) acc).
    { eapply reach_loop; [exact HR | exact Hf | cbn [pos mk]; lia | apply hash_mstep; auto; lia]. }
    assert (R2 : reach jsc enum X sz (mk g StSingleComment (reg g :: sstk g) (pos g + 1 + 1) (c :: 35 :: pre g) (text ++ [10] ++ r)) acc).
    { eapply reach_loop; [exact R1 | exact Hf | cbn [pos mk]; lia | apply text_mstep; auto; lia]. }
    assert (Hp3 : pos g + 1 + 1 + N.of_nat (List.length text) <= sz) by lia.
    pose proof (text_reach g _ acc text _ _ ([10] ++ r) Ht Hf Hp3 R2) as R3.
    assert (R4 : reach jsc enum X sz (mk g (reg g) (sstk g) (pos g + 1 + 1 + N.of_nat (List.length text) + 1)
                                        (10 :: rev text ++ c :: 35 :: pre g) r) acc).
    { eapply reach_loop; [exact R3 | exact Hf | cbn [pos mk]; lia | apply lf_mstep; auto; lia]. }
    match goal with |- reach _ _ _ _ ?h _ => replace h with
      (mk g (reg g) (sstk g) (pos g + 1 + 1 + N.of_nat (List.length text) + 1) (10 :: rev text ++ c :: 35 :: pre g) r) end;
      [exact R4|].
    unfold mk, set_zip. f_equal.
    - cbn [List.length app]. rewrite app_length. cbn [List.length]. lia.
    - cbn [rev app]. rewrite rev_app_distr. cbn [rev app]. rewrite <- !app_assoc. reflexivity.
  Qed.
End CommentLine.

(* any inserted bytes, total scans, the stack bound discharged *)
Theorem insertion_shift_total_lemma jsc enum a w b g acc :
  len_sane jsc -> len_sane enum -> Forall isb (a ++ b) -> Forall isb w ->
  reach jsc enum (a ++ b) (N.of_nat (List.length (a ++ b))) g acc ->
  reach jsc enum (a ++ w ++ b) (N.of_nat (List.length (a ++ w ++ b))) (moved w g) acc ->
  pos g = N.of_nat (List.length a) -> pre g = rev a -> rest g = b -> finds g = [] -> estk g = [] ->
  dist (reg g) = 0 ->
  Forall (fun l => le l < N.of_nat (List.length a)) (lastp g) ->
  exists ls,
    fst (fst (scan jsc enum (a ++ b))) = rev acc ++ ls /\
    fst (fst (scan jsc enum (a ++ w ++ b))) = rev acc ++ map (shL (N.of_nat (List.length w))) ls /\
    verdict (scan jsc enum (a ++ w ++ b)) = she (N.of_nat (List.length w)) (verdict (scan jsc enum (a ++ b))).
Proof.
  intros S1 S2 HB HW R1 R2 Hpos Hpre Hrest Hf He Hs Hl. rewrite size_ins in R2.
  assert (HB' : Forall isb (a ++ w ++ b)).
  { apply Forall_app in HB as [Ha Hb]. apply Forall_app. split; [exact Ha|]. apply Forall_app. split; assumption. }
  apply (insertion_shift_lemma jsc enum a w b g acc); try assumption.
  - exact (reach_stk _ _ _ _ _ _ R1).
  - pose proof (scan_total_lemma jsc enum (a ++ b) S1 S2 HB) as T. unfold scan_result, verdict in *.
    intros E. rewrite E in T. exact T.
  - pose proof (scan_total_lemma jsc enum (a ++ w ++ b) S1 S2 HB') as T. unfold scan_result, verdict in *.
    intros E. rewrite E in T. exact T.
Qed.

Definition comment_line (text : bytes) : bytes := 35 :: text ++ [10].

Theorem comment_line_shift_lemma jsc enum a text b g acc :
  len_sane jsc -> len_sane enum -> Forall isb (a ++ b) -> Forall isb text ->
  forallb plain_comment_byte text = true -> text <> [] ->
  let w := comment_line text in
  reach jsc enum (a ++ b) (N.of_nat (List.length (a ++ b))) g acc ->
  reach jsc enum (a ++ w ++ b) (N.of_nat (List.length (a ++ w ++ b))) (set_zip g (pos g) (pre g) (w ++ b)) acc ->
  pos g = N.of_nat (List.length a) -> pre g = rev a -> rest g = b -> finds g = [] -> estk g = [] ->
  In (reg g) shift_states -> In (reg g) comment_entry_states ->
  Forall (fun l => le l < N.of_nat (List.length a)) (lastp g) ->
  exists ls,
    fst (fst (scan jsc enum (a ++ b))) = rev acc ++ ls /\
    fst (fst (scan jsc enum (a ++ w ++ b))) = rev acc ++ map (shL (N.of_nat (List.length w))) ls /\
    verdict (scan jsc enum (a ++ w ++ b)) = she (N.of_nat (List.length w)) (verdict (scan jsc enum (a ++ b))).
Proof.
  intros S1 S2 HB HT Hplain Hne w R1 R2 Hpos Hpre Hrest Hf He Hs Hc Hl.
  assert (HW : Forall isb w).
  { unfold w, comment_line. constructor; [reflexivity|]. apply Forall_app. split; [exact HT|]. constructor; [reflexivity|constructor]. }
  apply (insertion_shift_total_lemma jsc enum a w b g acc); try assumption; [|apply shift_state_dist; exact Hs].
  pose proof (comment_line_reach jsc enum (a ++ w ++ b) (N.of_nat (List.length (a ++ w ++ b)))
                (set_zip g (pos g) (pre g) (w ++ b)) acc text b Hs Hc Hf Hplain Hne eq_refl) as R3.
  cbn [pos pre set_zip] in R3. unfold moved. rewrite Hrest. apply R3; [|exact R2].
  rewrite Hpos, !app_length. fold (comment_line text). fold w. lia.
Qed.

(* ---------------------------------------------------------------------------------------------- *)
(* 8. the run of the longer input up to the insertion point, when the insertion point is at the start of a line and
      no call of the schema library made before it looked beyond it *)

(* the calls of the schema library (false = readSchemaWithJsc, true = the enum reader; the text handed over) made by
   the run, in order *)
Section Calls.
  Variables jsc enum : bytes -> len_result.
  Variable D : bytes.
  Variable size : N.

  Definition call : Set := (bool * bytes)%type.

  Definition act_calls (x : act) (h : cfg) : list call :=
    match x with AReadSchema => [(false, rest h)] | AReadEnum => [(true, rest h)] | _ => [] end.

  Fixpoint acts_calls (l : list act) (h : cfg) : list call :=
    match l with
    | [] => []
    | x :: r => act_calls x h ++ match exec_act jsc enum x h with Ok h1 => acts_calls r h1 | _ => [] end
    end.

  Fixpoint dispatch_calls (fuel : nat) (c : N) (h : cfg) : list call :=
    match fuel with
    | O => []
    | S f =>
      match eval_tree D size (step_tree (reg h)) c h with
      | Ok ax =>
        acts_calls (fst ax) h ++
        match exec_acts jsc enum (fst ax) h with
        | Ok h1 => match snd ax with XRedo => dispatch_calls f c h1 | _ => [] end
        | _ => []
        end
      | _ => []
      end
    end.

  Definition mstep_calls (h : cfg) : list call :=
    match (if pos h =? size then Some 0 else hd_error (rest h)) with
    | Some c => if (c =? 0) && negb (pos h =? size) then [] else dispatch_calls redo_fuel c h
    | None => []
    end.

  Fixpoint run_to_calls (stop : N) (fuel : nat) (h : cfg) : list call :=
    match fuel with
    | O => []
    | S f =>
      match finds h with
      | [] =>
        if pos h =? stop then []
        else if pos h <=? size then
          mstep_calls h ++ match mstep jsc enum D size h with Ok (h', _) => run_to_calls stop f h' | _ => [] end
        else []
      | ev :: fs =>
        match process_event ev (set_finds h fs) with
        | Ok (h', Some _) => run_to_calls stop f h'
        | _ => []
        end
      end
    end.

  Lemma run_to_fuel stop f : forall m h acc r,
    run_to jsc enum D size stop f h acc = Some r -> run_to jsc enum D size stop (f + m) h acc = Some r.
  Proof.
    induction f as [|f IH]; intros m h acc r H; [discriminate|].
    cbn [run_to Nat.add] in *. destruct (finds h) as [|ev fs].
    - destruct (pos h =? stop); [exact H|]. destruct (pos h <=? size); [|discriminate].
      destruct (mstep jsc enum D size h) as [[h' [l|]]| | |]; try discriminate; apply IH; exact H.
    - destruct (process_event ev (set_finds h fs)) as [[h' [l|]]| | |]; try discriminate. apply IH; exact H.
  Qed.
End Calls.

Definition prefix_calls jsc enum (D : bytes) (stop : N) : list call :=
  run_to_calls jsc enum D (N.of_nat (List.length D)) stop (scan_fuel D) (init_cfg D).

Lemma take_until_lf_app r y : In 10 r -> take_until_lf (r ++ y) = take_until_lf r.
Proof.
  induction r as [|c r IH]; intros H; [contradiction|]. cbn [app take_until_lf].
  destruct (c =? 10) eqn:E; [reflexivity|]. f_equal. apply IH. destruct H as [H|H]; [|exact H].
  subst c. discriminate.
Qed.

Section Prefix.
  Variables jsc enum : bytes -> len_result.
  Variables a w b : bytes.

  Local Notation D := (a ++ b).
  Local Notation D' := (a ++ w ++ b).
  Local Notation n := (N.of_nat (List.length a)).
  Local Notation k := (N.of_nat (List.length w)).
  Local Notation size := (N.of_nat (List.length (a ++ b))).

  (* the insertion point is at the start of a line *)
  Definition line_start : Prop := a = [] \/ exists a0, a = a0 ++ [10].

  (* a call that did not look beyond the insertion point: the same answer with the bytes inserted, and a body that
     ends before the insertion point *)
  Definition local_call (c : call) : Prop :=
    let f := if fst c then enum else jsc in
    let s := snd c in
    let r := firstn (List.length s - List.length b) s in
    f (r ++ w ++ b) = f s /\ forall m, f s = LenOk m -> m + N.of_nat (List.length b) <= N.of_nat (List.length s).

  Definition setrest (h : cfg) (s : bytes) : cfg := set_zip h (pos h) (pre h) s.

  Definition before (h : cfg) : Prop :=
    Forall (fun e => snd e < n) (finds h) /\ Forall (fun e => snd e < n) (estk h) /\ Forall (fun l => le l < n) (lastp h).

  (* the two runs before the insertion point: the same configuration but for the text ahead; r = what is left of a *)
  Record P (r : bytes) (h h' : cfg) : Prop := {
    P_eq : h' = setrest h (r ++ w ++ b);
    P_rest : rest h = r ++ b;
    P_a : a = rev (pre h) ++ r;
    P_pos : N.of_nat (List.length (pre h)) = pos h;
    P_before : before h
  }.

  Lemma P_pos_r r h h' : P r h h' -> pos h + N.of_nat (List.length r) = n.
  Proof. intros [_ _ A L _]. apply (f_equal (@List.length N)) in A. rewrite app_length, rev_length in A. lia. Qed.

  Lemma suffix_lf r p : line_start -> a = p ++ r -> r <> [] -> In 10 r.
  Proof.
    intros [E|[a0 E]] A Hr.
    - rewrite E in A. destruct p, r; try discriminate. contradiction.
    - destruct (exists_last Hr) as (r0 & x & ->). rewrite E, app_assoc in A. apply app_inj_tail in A as [_ <-].
      apply in_or_app. right. left. reflexivity.
  Qed.

  Lemma values_before ls : Forall (fun l => le l < n) ls -> values D' (size' size k) ls = values D size ls.
  Proof.
    induction 1 as [|l ls Hl _ IH]; [reflexivity|]. cbn [values]. rewrite IH, (lex_value_lo a w b l Hl). reflexivity.
  Qed.

  Hypothesis Hline : line_start.

  Lemma eval_cond_pre r h h' q c : P r h h' -> r <> [] ->
    eval_cond D' (size' size k) q c h' = eval_cond D size q c h.
  Proof.
    intros HP Hr. pose proof (P_pos_r _ _ _ HP) as Hn. destruct HP as [E R A L (B1 & B2 & B3)]. subst h'.
    assert (Hs : n <= size) by (rewrite app_length; lia).
    assert (Hlt : (size <? pos h) = false) by (apply N.ltb_ge; lia).
    assert (Hlt' : (size' size k <? pos h) = false) by (apply N.ltb_ge; unfold size'; lia).
    destruct q as [l| | | | |x]; cbn [eval_cond lastp pre pos setrest set_zip].
    - reflexivity.
    - unfold is_directive_at. cbn [pos rest setrest set_zip]. rewrite Hlt, Hlt', R.
      rewrite !(take_until_lf_app r) by (eapply suffix_lf; eauto). reflexivity.
    - rewrite (values_before _ B3). reflexivity.
    - rewrite (values_before _ B3). reflexivity.
    - rewrite (values_before _ B3). reflexivity.
    - rewrite Hlt, Hlt'. reflexivity.
  Qed.

  Lemma eval_tree_pre r h h' t c : P r h h' -> r <> [] ->
    eval_tree D' (size' size k) t c h' = eval_tree D size t c h.
  Proof.
    intros HP Hr. induction t as [acts x | q t1 IH1 t2 IH2]; [reflexivity|]. cbn [eval_tree].
    rewrite (eval_cond_pre _ _ _ q c HP Hr). destruct (eval_cond D size q c h) as [v| | |]; cbn [obind]; try reflexivity.
    destruct v; assumption.
  Qed.

  Definition Pn (h h' : cfg) : Prop := exists r, P r h h' /\ r <> [].

  Lemma firstn_skipn_rev (l : bytes) m : rev (skipn m l) ++ rev (firstn m l) = rev l.
  Proof. rewrite <- rev_app_distr, firstn_skipn. reflexivity. Qed.

  Lemma read_pre f (kind : bool) r h h' :
    (if kind then enum else jsc) = f -> P r h h' -> r <> [] -> local_call (kind, rest h) ->
    orel 0 Pn (read_body f h) (read_body f h').
  Proof.
    intros Hk HP Hr [L1 L2]. cbn [fst snd] in L1, L2. rewrite Hk in L1, L2.
    pose proof (P_pos_r _ _ _ HP) as Hn. destruct HP as [E R A L B]. subst h'.
    rewrite R in L1, L2. rewrite app_length in L1, L2.
    replace (List.length r + List.length b - List.length b)%nat with (List.length r) in L1 by lia.
    rewrite firstn_app, firstn_all, PeanoNat.Nat.sub_diag in L1. cbn [firstn] in L1. rewrite app_nil_r in L1.
    unfold read_body. cbn [rest pos setrest set_zip]. rewrite L1, R.
    destruct (f (r ++ b)) as [m|p msg] eqn:Ef; cbn [orel]; [|split; [lia | reflexivity]].
    specialize (L2 m eq_refl).
    destruct (0 <? m) eqn:Em.
    - apply N.ltb_lt in Em. exists (skipn (N.to_nat (m - 1)) r). split.
      + unfold advance, setrest. cbn [pos pre rest set_zip]. rewrite R, !fwd_eq. cbn [fst snd set_zip pos pre rest].
        assert (Hm : (N.to_nat (m - 1) <= List.length r)%nat) by lia.
        assert (F1 : forall y, firstn (N.to_nat (m - 1)) (r ++ y) = firstn (N.to_nat (m - 1)) r).
        { intros y. rewrite firstn_app. replace (N.to_nat (m - 1) - List.length r)%nat with 0%nat by lia.
          cbn [firstn]. apply app_nil_r. }
        assert (F2 : forall y, skipn (N.to_nat (m - 1)) (r ++ y) = skipn (N.to_nat (m - 1)) r ++ y).
        { intros y. rewrite skipn_app. replace (N.to_nat (m - 1) - List.length r)%nat with 0%nat by lia. reflexivity. }
        rewrite !F1, !F2.
        split; cbn [pos pre rest set_zip reg sstk finds estk lastp].
        * reflexivity.
        * reflexivity.
        * rewrite rev_app_distr, rev_involutive, <- app_assoc, firstn_skipn. exact A.
        * rewrite app_length, rev_length, firstn_length. lia.
        * exact B.
      + intros E0. apply (f_equal (@List.length N)) in E0. rewrite skipn_length in E0. cbn in E0. lia.
    - exists r. split; [|exact Hr]. split; auto.
  Qed.

  Lemma exec_act_pre x h h' : Pn h h' -> Forall local_call (act_calls x h) ->
    orel 0 Pn (exec_act jsc enum x h) (exec_act jsc enum x h').
  Proof.
    intros (r & HP & Hr) Hc. pose proof (P_pos_r _ _ _ HP) as Hn.
    assert (Hrl : (0 < List.length r)%nat) by (destruct r; [contradiction | cbn; lia]).
    destruct x as [back e|s|s| | |m| |]; cbn [exec_act act_calls] in *.
    - destruct HP as [E R A L (B1 & B2 & B3)]. subst h'. cbn [pos finds setrest set_zip].
      destruct (pos h <? back) eqn:Eb; cbn [orel]; [reflexivity|]. apply N.ltb_ge in Eb.
      exists r. split; [|exact Hr]. split; auto. split; [|split; assumption]. cbn [finds set_finds].
      apply Forall_app. split; [exact B1|]. constructor; [cbn; lia | constructor].
    - destruct HP as [E R A L B]. subst h'. cbn [orel]. exists r. split; [|exact Hr]. split; auto.
    - destruct HP as [E R A L B]. subst h'. cbn [orel]. exists r. split; [|exact Hr]. split; auto.
    - destruct HP as [E R A L B]. subst h'. cbn [orel]. exists r. split; [|exact Hr]. split; auto.
    - destruct HP as [E R A L B]. subst h'. cbn [sstk setrest set_zip]. destruct (sstk h) as [|s st]; cbn [orel]; [reflexivity|].
      exists r. split; [|exact Hr]. split; auto.
    - destruct HP as [E R A L B]. subst h'. cbn [pos setrest set_zip].
      destruct (pos h <? m) eqn:Em; cbn [orel]; [reflexivity|]. apply N.ltb_ge in Em.
      assert (Hm : (N.to_nat m <= List.length (pre h))%nat) by lia.
      exists (rev (firstn (N.to_nat m) (pre h)) ++ r). split.
      + unfold retreat, setrest. cbn [pos pre rest set_zip]. rewrite R, !fwd_eq. cbn [fst snd].
        split; cbn [pos pre rest set_zip reg sstk finds estk lastp].
        * rewrite <- app_assoc. reflexivity.
        * rewrite <- app_assoc. reflexivity.
        * rewrite app_assoc, firstn_skipn_rev. exact A.
        * rewrite skipn_length. lia.
        * exact B.
      + intros E0. apply app_eq_nil in E0 as [_ E0]. contradiction.
    - inversion Hc as [|? ? Hc1 _]; subst. apply (read_pre jsc false r h h' eq_refl HP Hr Hc1).
    - inversion Hc as [|? ? Hc1 _]; subst. apply (read_pre enum true r h h' eq_refl HP Hr Hc1).
  Qed.

  Lemma exec_acts_pre acts : forall h h', Pn h h' -> Forall local_call (acts_calls jsc enum acts h) ->
    orel 0 Pn (exec_acts jsc enum acts h) (exec_acts jsc enum acts h').
  Proof.
    induction acts as [|x acts IH]; intros h h' HP Hc; [exact HP|].
    cbn [acts_calls] in Hc. apply Forall_app in Hc as [Hc1 Hc2]. cbn [exec_acts].
    pose proof (exec_act_pre x h h' HP Hc1) as H1.
    destruct (exec_act jsc enum x h) as [h1| | |], (exec_act jsc enum x h') as [h1'| | |]; cbn [orel obind] in *;
      try contradiction; auto.
  Qed.

  Lemma dispatch_pre f : forall c h h', Pn h h' -> Forall local_call (dispatch_calls jsc enum D size f c h) ->
    orel 0 Pn (dispatch jsc enum D size f c h) (dispatch jsc enum D' (size' size k) f c h').
  Proof.
    induction f as [|f IH]; intros c h h' HP Hc; [exact I|].
    cbn [dispatch dispatch_calls] in *. destruct HP as (r & HP & Hr).
    assert (Er : reg h' = reg h) by (rewrite (P_eq _ _ _ HP); reflexivity). rewrite Er.
    rewrite (eval_tree_pre _ _ _ _ c HP Hr).
    destruct (eval_tree D size (step_tree (reg h)) c h) as [ax|p0 e0| |] eqn:Eax; cbn [obind orel]; auto;
      [|exfalso; eapply eval_tree_not_err; eauto].
    apply Forall_app in Hc as [Hc1 Hc2].
    pose proof (exec_acts_pre (fst ax) h h' (ex_intro _ r (conj HP Hr)) Hc1) as H1.
    destruct (exec_acts jsc enum (fst ax) h) as [h1| | |], (exec_acts jsc enum (fst ax) h') as [h1'| | |];
      cbn [orel obind] in *; try contradiction; auto.
    destruct (snd ax) as [| |e]; cbn [orel].
    - exact H1.
    - apply IH; assumption.
    - destruct H1 as (r1 & H1 & _). rewrite (P_eq _ _ _ H1). cbn. split; [lia | reflexivity].
  Qed.

  (* lexeme events: the text ahead plays no part *)
  Lemma process_event_rest ev h s :
    process_event ev (setrest h s) =
    match process_event ev h with Ok q => Ok (setrest (fst q) s, snd q) | Err p e => Err p e | Panic x => Panic x | OutOfFuel => OutOfFuel end.
  Proof.
    unfold process_event. destruct ev as [e p]. cbn [estk pos setrest set_zip].
    destruct (evt_in e evt_beginning); [reflexivity|].
    destruct (evt_in e evt_ending).
    { destruct (estk h) as [|[se sp] st]; [reflexivity|]. destruct (pair_ok se e); [|reflexivity].
      destruct (evt_lexkind e); reflexivity. }
    destruct (evt_in e evt_single); [|reflexivity]. destruct (evt_lexkind e); reflexivity.
  Qed.

  Lemma note_lexeme_rest l h s : note_lexeme l (setrest h s) = setrest (note_lexeme l h) s.
  Proof. unfold note_lexeme. destruct (lexkind_eqb (lk l) LParameter); [reflexivity|]. destruct (lexkind_eqb (lk l) LKeyword); reflexivity. Qed.

  Lemma drain_rest m : forall h s,
    drain m (setrest h s) =
    match drain m h with Ok q => Ok (setrest (fst q) s, snd q) | Err p e => Err p e | Panic x => Panic x | OutOfFuel => OutOfFuel end.
  Proof.
    induction m as [|m IH]; intros h s; [reflexivity|]. cbn [drain]. cbn [finds setrest set_zip].
    destruct (finds h) as [|ev fs]; [reflexivity|].
    change (set_finds (setrest h s) fs) with (setrest (set_finds h fs) s).
    rewrite process_event_rest.
    destruct (process_event ev (set_finds h fs)) as [q| | |]; cbn [obind]; try reflexivity. cbn [fst snd].
    destruct (snd q); [rewrite note_lexeme_rest; reflexivity | apply IH].
  Qed.

  (* ... and keeps the read position; positions before n stay before n *)
  Definition frame (h q : cfg) : Prop := pos q = pos h /\ pre q = pre h /\ rest q = rest h.

  Lemma process_event_frame ev h q :
    process_event ev h = Ok q -> snd ev < n -> before h ->
    frame h (fst q) /\ before (fst q) /\ finds (fst q) = finds h /\ (forall l, snd q = Some l -> le l < n).
  Proof.
    unfold process_event. destruct ev as [e p]. cbn [snd]. intros H Hp (B1 & B2 & B3).
    destruct (evt_in e evt_beginning).
    { injection H as <-. cbn. repeat split; auto; try discriminate. constructor; assumption. }
    destruct (evt_in e evt_ending).
    { destruct (estk h) as [|[se sp] st] eqn:Es; [discriminate|]. destruct (pair_ok se e); [|discriminate].
      destruct (evt_lexkind e) as [kd|]; [|discriminate]. injection H as <-. cbn. repeat split; auto.
      - inversion B2; assumption.
      - intros l Hl. injection Hl as <-. exact Hp. }
    destruct (evt_in e evt_single); [|discriminate]. destruct (evt_lexkind e) as [kd|]; [|discriminate].
    injection H as <-. cbn. repeat split; auto. intros l Hl. injection Hl as <-. exact Hp.
  Qed.

  Lemma note_lexeme_frame l h : le l < n -> before h -> frame h (note_lexeme l h) /\ before (note_lexeme l h) /\ finds (note_lexeme l h) = finds h.
  Proof.
    intros Hl (B1 & B2 & B3). unfold note_lexeme.
    destruct (lexkind_eqb (lk l) LParameter); [|destruct (lexkind_eqb (lk l) LKeyword)]; cbn; repeat split; auto;
      try (apply Forall_app; split; [exact B3|]; constructor; [exact Hl | constructor]); try constructor.
  Qed.

  Lemma drain_frame m : forall h q, drain m h = Ok q -> before h -> frame h (fst q) /\ before (fst q).
  Proof.
    induction m as [|m IH]; intros h q H B.
    - cbn in H. injection H as <-. cbn [fst]. split; [repeat split | exact B].
    - cbn [drain] in H. destruct (finds h) as [|ev fs] eqn:Ef; [discriminate|].
      destruct (process_event ev (set_finds h fs)) as [q1| | |] eqn:Ep; cbn [obind] in H; try discriminate.
      assert (B' : before (set_finds h fs)).
      { destruct B as (B1 & B2 & B3). rewrite Ef in B1. inversion B1; subst. repeat split; assumption. }
      assert (Hev : snd ev < n) by (destruct B as (B1 & _); rewrite Ef in B1; inversion B1; assumption).
      destruct (process_event_frame _ _ _ Ep Hev B') as (F1 & B1 & _ & L1).
      destruct (snd q1) as [l|] eqn:Sq.
      + injection H as <-. cbn [fst]. destruct (note_lexeme_frame l (fst q1) (L1 l eq_refl) B1) as ((a1 & a2 & a3) & N2 & _).
        destruct F1 as (b1 & b2 & b3). cbn in b1, b2, b3. split; [|exact N2]. repeat split; congruence.
      + destruct (IH _ _ H B1) as ((a1 & a2 & a3) & B2). destruct F1 as (b1 & b2 & b3). cbn in b1, b2, b3.
        split; [|exact B2]. repeat split; congruence.
  Qed.

  Lemma P_frame r h q s : P r h (setrest h s) -> frame h q -> before q -> P r q (setrest q (r ++ w ++ b)).
  Proof.
    intros [E R A L _] (a1 & a2 & a3) B. split; auto; rewrite ?a1, ?a2, ?a3; assumption.
  Qed.

  (* one turn of the byte loop before the insertion point *)
  Definition Q (q q' : cfg * option lexeme) : Prop := (exists r, P r (fst q) (fst q')) /\ snd q' = snd q.

  Lemma mstep_pre h h' : Pn h h' -> Forall local_call (mstep_calls jsc enum D size h) ->
    orel 0 Q (mstep jsc enum D size h) (mstep jsc enum D' (size' size k) h').
  Proof.
    intros (r & HP & Hr) Hc. pose proof (P_pos_r _ _ _ HP) as Hn.
    assert (Hrl : (0 < List.length r)%nat) by (destruct r; [contradiction | cbn; lia]).
    assert (Hs : n <= size) by (rewrite app_length; lia).
    unfold mstep, mstep_calls in *.
    assert (E1 : pos h' = pos h) by (rewrite (P_eq _ _ _ HP); reflexivity).
    assert (E2 : hd_error (rest h') = hd_error (rest h)).
    { rewrite (P_eq _ _ _ HP), (P_rest _ _ _ HP). cbn [rest setrest set_zip]. destruct r; [contradiction | reflexivity]. }
    rewrite E1, E2.
    replace (pos h =? size' size k) with false by (symmetry; apply N.eqb_neq; unfold size'; lia).
    replace (pos h =? size) with false in * by (symmetry; apply N.eqb_neq; lia).
    destruct (hd_error (rest h)) as [c|]; cbn [orel]; [|reflexivity].
    rewrite andb_true_r in *. destruct (c =? 0); cbn [orel]; [split; [lia | reflexivity]|].
    eapply orel_bind; [apply dispatch_pre; [exists r; split; assumption | exact Hc]|].
    intros h1 h1' (r1 & H1 & Hr1).
    (* the byte just handled *)
    destruct r1 as [|c1 r1]; [contradiction|].
    assert (H2 : P r1 (advance h1 1) (advance h1' 1)).
    { destruct H1 as [E R A L B]. subst h1'. unfold advance, setrest. cbn [pos pre rest set_zip]. rewrite R.
      change (N.to_nat 1) with 1%nat. cbn [app fwd fst snd].
      split; cbn [pos pre rest set_zip reg sstk finds estk lastp]; auto.
      - cbn [rev]. rewrite <- app_assoc. exact A.
      - cbn [List.length]. lia. }
    assert (E3 : advance h1' 1 = setrest (advance h1 1) (r1 ++ w ++ b)) by exact (P_eq _ _ _ H2).
    rewrite E3. cbn [finds setrest set_zip]. rewrite drain_rest.
    destruct (drain (List.length (finds (advance h1 1))) (advance h1 1)) as [q| | |] eqn:Ed; cbn [orel]; auto;
      [|split; [lia | reflexivity]].
    destruct (drain_frame _ _ _ Ed (P_before _ _ _ H2)) as (F & B).
    split; [|reflexivity]. exists r1. cbn [fst]. rewrite E3 in H2. eapply P_frame; eauto.
  Qed.

  (* the run up to the insertion point *)
  Lemma run_to_pre f : forall h h' acc g acc1 r,
    P r h h' -> Forall local_call (run_to_calls jsc enum D size n f h) ->
    run_to jsc enum D size n f h acc = Some (g, acc1) ->
    run_to jsc enum D' (size' size k) n f h' acc = Some (setrest g (w ++ b), acc1) /\
    pos g = n /\ pre g = rev a /\ rest g = b /\ finds g = [] /\ Forall (fun l => le l < n) (lastp g).
  Proof.
    induction f as [|f IH]; intros h h' acc g acc1 r HP Hc H; [discriminate|].
    cbn [run_to run_to_calls] in *. pose proof (P_pos_r _ _ _ HP) as Hn.
    assert (Ef : finds h' = finds h) by (rewrite (P_eq _ _ _ HP); reflexivity).
    assert (Ep : pos h' = pos h) by (rewrite (P_eq _ _ _ HP); reflexivity).
    assert (Hs : n <= size) by (rewrite app_length; lia).
    rewrite Ef, Ep. destruct (finds h) as [|ev fs] eqn:Efh.
    - destruct (pos h =? n) eqn:En.
      + injection H as <- <-. apply N.eqb_eq in En.
        assert (r = []) as -> by (destruct r; [reflexivity | cbn in Hn; lia]).
        destruct HP as [E R A L (B1 & B2 & B3)]. split; [rewrite E; reflexivity|].
        rewrite app_nil_r in A. repeat split; auto. rewrite A, rev_involutive. reflexivity.
      + apply N.eqb_neq in En. assert (Hr : r <> []) by (intros ->; cbn in Hn; lia).
        replace (pos h <=? size' size k) with true by (symmetry; apply N.leb_le; unfold size'; lia).
        replace (pos h <=? size) with true in * by (symmetry; apply N.leb_le; lia).
        apply Forall_app in Hc as [Hc1 Hc2].
        pose proof (mstep_pre h h' (ex_intro _ r (conj HP Hr)) Hc1) as HM.
        destruct (mstep jsc enum D size h) as [[h2 ol]| | |], (mstep jsc enum D' (size' size k) h') as [[h2' ol']| | |];
          cbn [orel] in HM; try contradiction; try discriminate.
        destruct HM as ((r2 & H2) & Eo). cbn [fst snd] in H2, Eo. subst ol'.
        destruct ol as [l|]; eapply IH; eauto.
    - destruct HP as [E R A L B]. subst h'.
      change (set_finds (setrest h (r ++ w ++ b)) fs) with (setrest (set_finds h fs) (r ++ w ++ b)).
      rewrite process_event_rest.
      destruct (process_event ev (set_finds h fs)) as [[h2 [l|]]| | |] eqn:Epe; try discriminate. cbn [fst snd].
      assert (B' : before (set_finds h fs)).
      { destruct B as (B1 & B2 & B3). rewrite Efh in B1. inversion B1; subst. repeat split; assumption. }
      assert (Hev : snd ev < n) by (destruct B as (B1 & _); rewrite Efh in B1; inversion B1; assumption).
      destruct (process_event_frame _ _ _ Epe Hev B') as ((a1 & a2 & a3) & B2 & _).
      cbn in a1, a2, a3. eapply IH; [|exact Hc|exact H].
      split; auto; rewrite ?a1, ?a2, ?a3; assumption.
  Qed.

  Theorem prefix_run_ins_lemma g acc :
    prefix_run jsc enum D n = Some (g, acc) ->
    Forall local_call (prefix_calls jsc enum D n) ->
    prefix_run jsc enum D' n = Some (setrest g (w ++ b), acc) /\
    pos g = n /\ pre g = rev a /\ rest g = b /\ finds g = [] /\ Forall (fun l => le l < n) (lastp g).
  Proof.
    unfold prefix_run, prefix_calls. intros H Hc.
    assert (P0 : P a (init_cfg D) (init_cfg D')).
    { split; try reflexivity. repeat split; constructor. }
    destruct (run_to_pre _ _ _ _ _ _ _ P0 Hc H) as (R & Rest). split; [|exact Rest].
    rewrite size_ins. unfold scan_fuel. rewrite (app_length a (w ++ b)), (app_length w b), (app_length a b).
    replace (42 * (List.length a + (List.length w + List.length b)) + 512)%nat
      with (42 * (List.length a + List.length b) + 512 + 42 * List.length w)%nat by lia.
    apply run_to_fuel. unfold scan_fuel in R. rewrite (app_length a b) in R. exact R.
  Qed.
End Prefix.

(* ---------------------------------------------------------------------------------------------- *)
(* 9. insertion at the start of a line: no premise about the run of the longer input *)

Theorem blanks_at_line_start_shift_lemma jsc enum a w b g acc :
  len_sane jsc -> len_sane enum -> Forall isb (a ++ b) -> Forall blank w ->
  line_start a ->
  prefix_run jsc enum (a ++ b) (N.of_nat (List.length a)) = Some (g, acc) ->
  Forall (local_call jsc enum w b) (prefix_calls jsc enum (a ++ b) (N.of_nat (List.length a))) ->
  estk g = [] -> In (reg g) shift_states ->
  exists ls,
    fst (fst (scan jsc enum (a ++ b))) = rev acc ++ ls /\
    fst (fst (scan jsc enum (a ++ w ++ b))) = rev acc ++ map (shL (N.of_nat (List.length w))) ls /\
    verdict (scan jsc enum (a ++ w ++ b)) = she (N.of_nat (List.length w)) (verdict (scan jsc enum (a ++ b))).
Proof.
  intros S1 S2 HB Hw Hl P1 Hc He Hs.
  destruct (prefix_run_ins_lemma jsc enum a w b Hl g acc P1 Hc) as (P2 & Hpos & Hpre & Hrest & Hf & Hlast).
  apply (blank_insertion_shift_run_final_lemma jsc enum a w b g acc); assumption.
Qed.

Theorem comment_line_at_line_start_shift_lemma jsc enum a text b g acc :
  len_sane jsc -> len_sane enum -> Forall isb (a ++ b) -> Forall isb text ->
  forallb plain_comment_byte text = true -> text <> [] ->
  line_start a ->
  let w := comment_line text in
  prefix_run jsc enum (a ++ b) (N.of_nat (List.length a)) = Some (g, acc) ->
  Forall (local_call jsc enum w b) (prefix_calls jsc enum (a ++ b) (N.of_nat (List.length a))) ->
  estk g = [] -> In (reg g) shift_states -> In (reg g) comment_entry_states ->
  exists ls,
    fst (fst (scan jsc enum (a ++ b))) = rev acc ++ ls /\
    fst (fst (scan jsc enum (a ++ w ++ b))) = rev acc ++ map (shL (N.of_nat (List.length w))) ls /\
    verdict (scan jsc enum (a ++ w ++ b)) = she (N.of_nat (List.length w)) (verdict (scan jsc enum (a ++ b))).
Proof.
  intros S1 S2 HB HT Hplain Hne Hl w P1 Hc He Hs Hce.
  destruct (prefix_run_ins_lemma jsc enum a w b Hl g acc P1 Hc) as (P2 & Hpos & Hpre & Hrest & Hf & Hlast).
  apply (comment_line_shift_lemma jsc enum a text b g acc); try assumption.
  - eapply prefix_run_reach; exact P1.
  - eapply prefix_run_reach; exact P2.
Qed.

(* removal: the same equalities read from the longer input to the shorter one *)
Definition unL (k : N) (l : lexeme) : lexeme := {| lk := lk l; lb := lb l - k; le := le l - k |}.
Definition une (k : N) (e : scan_end) : scan_end := match e with SErr p x => SErr (p - k) x | _ => e end.

Lemma shift_back k (L L' pre0 : list lexeme) (v v' : scan_end) :
  (exists ls, L = pre0 ++ ls /\ L' = pre0 ++ map (shL k) ls /\ v' = she k v) ->
  exists ls', L' = pre0 ++ ls' /\ L = pre0 ++ map (unL k) ls' /\ v = une k v'.
Proof.
  intros (ls & A & B & C). exists (map (shL k) ls). split; [exact B|]. split.
  - rewrite A. f_equal. rewrite map_map. rewrite <- (map_id ls) at 1. apply map_ext.
    intros [kd x y]. unfold unL, shL. cbn. f_equal; lia.
  - rewrite C. destruct v; cbn; try reflexivity. f_equal. lia.
Qed.

Theorem blanks_removal_lemma jsc enum a w b g acc :
  len_sane jsc -> len_sane enum -> Forall isb (a ++ b) -> Forall blank w ->
  reach jsc enum (a ++ b) (N.of_nat (List.length (a ++ b))) g acc ->
  reach jsc enum (a ++ w ++ b) (N.of_nat (List.length (a ++ w ++ b))) (set_zip g (pos g) (pre g) (w ++ b)) acc ->
  pos g = N.of_nat (List.length a) -> pre g = rev a -> rest g = b -> finds g = [] -> estk g = [] ->
  In (reg g) shift_states ->
  Forall (fun l => le l < N.of_nat (List.length a)) (lastp g) ->
  exists ls',
    fst (fst (scan jsc enum (a ++ w ++ b))) = rev acc ++ ls' /\
    fst (fst (scan jsc enum (a ++ b))) = rev acc ++ map (unL (N.of_nat (List.length w))) ls' /\
    verdict (scan jsc enum (a ++ b)) = une (N.of_nat (List.length w)) (verdict (scan jsc enum (a ++ w ++ b))).
Proof. intros. apply shift_back. apply (blank_insertion_shift_final_lemma jsc enum a w b g acc); assumption. Qed.

Theorem blanks_removal_at_line_start_lemma jsc enum a w b g acc :
  len_sane jsc -> len_sane enum -> Forall isb (a ++ b) -> Forall blank w ->
  line_start a ->
  prefix_run jsc enum (a ++ b) (N.of_nat (List.length a)) = Some (g, acc) ->
  Forall (local_call jsc enum w b) (prefix_calls jsc enum (a ++ b) (N.of_nat (List.length a))) ->
  estk g = [] -> In (reg g) shift_states ->
  exists ls',
    fst (fst (scan jsc enum (a ++ w ++ b))) = rev acc ++ ls' /\
    fst (fst (scan jsc enum (a ++ b))) = rev acc ++ map (unL (N.of_nat (List.length w))) ls' /\
    verdict (scan jsc enum (a ++ b)) = une (N.of_nat (List.length w)) (verdict (scan jsc enum (a ++ w ++ b))).
Proof. intros. apply shift_back. apply (blanks_at_line_start_shift_lemma jsc enum a w b g acc); assumption. Qed.

Theorem comment_line_removal_at_line_start_lemma jsc enum a text b g acc :
  len_sane jsc -> len_sane enum -> Forall isb (a ++ b) -> Forall isb text ->
  forallb plain_comment_byte text = true -> text <> [] ->
  line_start a ->
  let w := comment_line text in
  prefix_run jsc enum (a ++ b) (N.of_nat (List.length a)) = Some (g, acc) ->
  Forall (local_call jsc enum w b) (prefix_calls jsc enum (a ++ b) (N.of_nat (List.length a))) ->
  estk g = [] -> In (reg g) shift_states -> In (reg g) comment_entry_states ->
  exists ls',
    fst (fst (scan jsc enum (a ++ w ++ b))) = rev acc ++ ls' /\
    fst (fst (scan jsc enum (a ++ b))) = rev acc ++ map (unL (N.of_nat (List.length w))) ls' /\
    verdict (scan jsc enum (a ++ b)) = une (N.of_nat (List.length w)) (verdict (scan jsc enum (a ++ w ++ b))).
Proof. intros. apply shift_back. apply (comment_line_at_line_start_shift_lemma jsc enum a text b g acc); assumption. Qed.

(* non-vacuity: "JSIGHT 0.3 / URL /a / GET" with the line "# note" inserted before GET; the prefix run makes no call of
   the schema library at all; GET moves from 18..20 to 25..27 *)
Module CommentExample.
  Import ShiftExample.
  Definition text : bytes := bs " note".
  Definition cw : bytes := comment_line text.

  Example premises :
    exists g acc,
      prefix_run o0 o0 (a ++ b) 18 = Some (g, acc) /\ prefix_calls o0 o0 (a ++ b) 18 = [] /\
      reg g = StExpectKeyword /\ estk g = [] /\ List.length acc = 4%nat /\
      forallb plain_comment_byte text = true /\ line_start a.
  Proof.
    eexists. eexists. split; [vm_compute; reflexivity|]. repeat split; try (vm_compute; reflexivity).
    right. exists (bs "JSIGHT 0.3" ++ [10] ++ bs "URL /a"). vm_compute. reflexivity.
  Qed.

  Example comment_line_between_directives :
    spans (scan o0 o0 (a ++ b)) = [(0, 5); (7, 9); (11, 13); (15, 16); (18, 20)] /\
    spans (scan o0 o0 (a ++ cw ++ b)) = [(0, 5); (7, 9); (11, 13); (15, 16); (25, 27)] /\
    verdict (scan o0 o0 (a ++ cw ++ b)) = SEof.
  Proof. repeat split; vm_compute; reflexivity. Qed.

  Example theorem_applies :
    exists acc ls,
      fst (fst (scan o0 o0 (a ++ b))) = rev acc ++ ls /\
      fst (fst (scan o0 o0 (a ++ cw ++ b))) = rev acc ++ map (shL 7) ls /\ List.length acc = 4%nat.
  Proof.
    destruct premises as (g & acc & P1 & Pc & Hreg & He & Hn & Hp & Hl).
    destruct (comment_line_at_line_start_shift_lemma o0 o0 a text b g acc o0_sane o0_sane) as (ls & A & B & C); try assumption.
    - unfold isb. vm_compute. repeat constructor.
    - unfold isb. vm_compute. repeat constructor.
    - discriminate.
    - change (N.of_nat (List.length a)) with 18. rewrite Pc. constructor.
    - rewrite Hreg. vm_compute. auto 20.
    - rewrite Hreg. vm_compute. auto 20.
    - exists acc, ls. split; [exact A|]. split; [exact B | exact Hn].
  Qed.
End CommentExample.
