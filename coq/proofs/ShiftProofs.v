(* C05 - surface syntax, scanner level: blank bytes inserted where blanks are inert only SHIFT the lexemes.

   Plan.  (1) a finite fact about the table REGENERATED from scanner/steps*.go: a "look-back typing" [dist] of the
   states (how many bytes the state may reach back: AFound back, ARewind n, CPrevIs), inferred and CHECKED by
   evaluation ([dist_ok]); (2) a translation relation [Rel] between a configuration of the run on the original input
   and a configuration of the run on the input with the blanks inserted, and the proof that every level of the
   semantics (eval_cond ... scan_all) commutes with it; (3) the inserted blanks themselves are consumed without
   any effect ([blank_inert] states); (4) the whole-input theorem on [scan], with the run up to the insertion point
   as a premise ([reach]) - discharged for an insertion at the very beginning of the file. *)
From Coq Require Import List NArith Bool String Lia.
Import ListNotations.
From JV.lib Require Import Bytes.
From JV.gen Require Import ScannerTable.
From JV.model Require Import ScannerSem.
From JV.proofs Require Import TM_Basics TriviaProofs.
Open Scope N_scope.

(* ---------------------------------------------------------------------------------------------- *)
(* 1. the look-back typing *)

Fixpoint tree_leaves (t : tree) : list (list act * exit) :=
  match t with Leaf a x => [(a, x)] | Node _ a b => tree_leaves a ++ tree_leaves b end.

Fixpoint uses_prev (t : tree) : bool :=
  match t with
  | Leaf _ _ => false
  | Node (CPrevIs _) _ _ => true
  | Node _ a b => uses_prev a || uses_prev b
  end.

Definition dtab := list N.
Definition dget (tb : dtab) (s : state) : N := nth (N.to_nat (state_idx s)) tb 0.
(* what a state found on the state stack may need at most (checked: nothing that needs more is ever pushed) *)
Definition stack_bound : N := 1.
Definition dreg (tb : dtab) (r : option state) : N := match r with Some s => dget tb s | None => stack_bound end.
Definition bump (x : exit) : N := match x with XNil => 1 | _ => 0 end.

(* the least number of bytes a leaf needs behind the read position, given the needs of the other states;
   r = the state register as far as it is known inside the leaf (None after a pop: a state taken from the stack) *)
Fixpoint leaf_need (tb : dtab) (r : option state) (acts : list act) (x : exit) : N :=
  match acts with
  | [] => match x with XErr _ => 0 | _ => dreg tb r - bump x end
  | AFound back _ :: l => N.max back (leaf_need tb r l x)
  | ARewind m :: l => m + leaf_need tb r l x
  | ASetStep t :: l => leaf_need tb (Some t) l x
  | APop :: l => leaf_need tb None l x
  | _ :: l => leaf_need tb r l x
  end.

Definition state_need (tb : dtab) (s : state) : N :=
  fold_left N.max (map (fun lf => leaf_need tb (Some s) (fst lf) (snd lf)) (tree_leaves (step_tree s)))
            (if uses_prev (step_tree s) then 1 else 0).

Fixpoint infer (n : nat) (tb : dtab) : dtab :=
  match n with O => tb | S m => infer m (map (state_need tb) all_states) end.

(* inferred by evaluation; nothing below trusts it: only [dist_ok] counts *)
Definition dist_table : dtab := Eval vm_compute in infer 12 (map (fun _ => 0) all_states).
Definition dist (s : state) : N := dget dist_table s.
Definition dist_reg (r : option state) : N := match r with Some s => dist s | None => stack_bound end.

(* the check, forwards: d = number of bytes known to have been read since the insertion point *)
Definition fstep (dr : N * option state) (a : act) : option (N * option state) :=
  let (d, r) := dr in
  match a with
  | AFound back _ => if back <=? d then Some (d, r) else None
  | ARewind m => if m <=? d then Some (d - m, r) else None
  | ASetStep t => Some (d, Some t)
  | APush t => if dist t <=? stack_bound then Some (d, r) else None
  | APushCur => if dist_reg r <=? stack_bound then Some (d, r) else None
  | APop => Some (d, None)
  | AReadSchema | AReadEnum => Some (d, r)
  end.

Fixpoint ffold (dr : N * option state) (l : list act) : option (N * option state) :=
  match l with
  | [] => Some dr
  | a :: r => match fstep dr a with Some dr' => ffold dr' r | None => None end
  end.

Definition leaf_dist_ok (s : state) (lf : list act * exit) : bool :=
  match ffold (dist s, Some s) (fst lf) with
  | Some (d, r) => match snd lf with XErr _ => true | x => dist_reg r <=? d + bump x end
  | None => false
  end.

Definition dist_ok : bool :=
  forallb (fun s => (negb (uses_prev (step_tree s)) || (1 <=? dist s)) &&
                    forallb (leaf_dist_ok s) (tree_leaves (step_tree s))) all_states.

Lemma dist_table_ok : dist_ok = true.
Proof. vm_compute. reflexivity. Qed.

(* the states in which blanks may be inserted: blank-inert, and nothing reaches back from them *)
Definition shift_states : list state := filter (fun s => dist s =? 0) blank_inert_states.

(* ---------------------------------------------------------------------------------------------- *)
(* 2. the translation relation *)

(* outcomes related up to a shift of the error position *)
Definition orel {A B} (k : N) (R : A -> B -> Prop) (o : outcome A) (o' : outcome B) : Prop :=
  match o, o' with
  | Ok a, Ok b => R a b
  | Err p e, Err p' e' => p' = p + k /\ e' = e
  | Panic w, Panic w' => w' = w
  | OutOfFuel, OutOfFuel => True
  | _, _ => False
  end.

Lemma orel_bind {A B A2 B2} k (R : A -> B -> Prop) (S : A2 -> B2 -> Prop) o o' f f' :
  orel k R o o' -> (forall a b, R a b -> orel k S (f a) (f' b)) -> orel k S (obind o f) (obind o' f').
Proof.
  intros H Hf. destruct o, o'; cbn in *; try contradiction; auto.
Qed.

Lemma fwd_eq m : forall a b, fwd m a b = (rev (firstn m b) ++ a, skipn m b).
Proof.
  induction m as [|m IH]; intros a b; [reflexivity|].
  destruct b as [|c b]; [reflexivity|]. cbn [fwd firstn skipn rev]. rewrite IH. rewrite <- app_assoc. reflexivity.
Qed.

Lemma eval_tree_in_leaves data size t c g ax : eval_tree data size t c g = Ok ax -> In ax (tree_leaves t).
Proof.
  induction t as [acts x | q a IHa b IHb]; cbn [eval_tree tree_leaves]; intros H.
  - injection H as <-. left. reflexivity.
  - destruct (eval_cond data size q c g) as [v| | |]; cbn [obind] in H; try discriminate.
    apply in_or_app. destruct v; [left; apply IHa | right; apply IHb]; exact H.
Qed.

Lemma values_not_err data size ls p e : values data size ls <> Err p e.
Proof.
  induction ls as [|l ls IH]; cbn [values]; [discriminate|].
  unfold lex_value. destruct ((lb l <=? le l + 1) && (le l + 1 <=? size)); cbn [obind]; [|discriminate].
  destruct (values data size ls); cbn [obind]; try discriminate. exact IH.
Qed.

Lemma eval_tree_not_err data size t c g p e : eval_tree data size t c g <> Err p e.
Proof.
  induction t as [acts x | q a IHa b IHb]; cbn [eval_tree]; [discriminate|].
  destruct (eval_cond data size q c g) as [v|p0 e0| |] eqn:E; cbn [obind]; try discriminate.
  - destruct v; assumption.
  - exfalso. destruct q; cbn [eval_cond] in E; try discriminate.
    + destruct (values data size (lastp g)) eqn:V; cbn [obind] in E; try discriminate. eapply values_not_err; eauto.
    + destruct (values data size (lastp g)) eqn:V; cbn [obind] in E; try discriminate. eapply values_not_err; eauto.
    + destruct (values data size (lastp g)) eqn:V; cbn [obind] in E; try discriminate. eapply values_not_err; eauto.
    + destruct (pre g); [discriminate|]. destruct (size <? pos g); discriminate.
Qed.

Section Shift.
  Variables jsc enum : bytes -> len_result.
  Variables D D' : bytes.          (* the input, the input with the blanks inserted *)
  Variables size n k : N.          (* len D, the insertion point, the number of inserted bytes *)
  Variables pa pa' : bytes.        (* what lies before the insertion point / before its end, reversed *)

  Definition size' : N := size + k.
  Definition shL (l : lexeme) : lexeme := {| lk := lk l; lb := lb l + k; le := le l + k |}.
  Definition shl (l : lexeme) : lexeme := if le l <? n then l else shL l.
  Definition shev (e : evt * N) : evt * N := (fst e, snd e + k).
  Definition okl (l : lexeme) : Prop := le l < n \/ (n <= lb l /\ n <= le l).
  Definition after (e : evt * N) : Prop := n <= snd e.

  (* the two inputs agree on the lexemes before the insertion point and, shifted, on those after it *)
  Hypothesis Hlo : forall l, le l < n -> lex_value D' size' l = lex_value D size l.
  Hypothesis Hhi : forall l, n <= lb l -> lex_value D' size' (shL l) = lex_value D size l.

  (* the part of the relation that concerns the read position and the state registers; d = number of bytes, read
     after the insertion point, that are known to lie behind the read position *)
  Record ZRel (d : N) (g g' : cfg) : Prop := {
    Z_reg : reg g' = reg g;
    Z_sstk : sstk g' = sstk g;
    Z_pos : pos g' = pos g + k;
    Z_rest : rest g' = rest g;
    Z_pre : exists x, pre g = x ++ pa /\ pre g' = x ++ pa' /\
                      n + N.of_nat (List.length x) <= pos g /\ d <= N.of_nat (List.length x);
    Z_len : size <= pos g + N.of_nat (List.length (rest g));
    Z_stk : Forall (fun s => dist s <= stack_bound) (sstk g)
  }.

  (* ... and the recorded positions: all pending events and open lexemes lie after the insertion point; the remembered
     parameters lie before it (unchanged) or after it (shifted) *)
  Record ERel (g g' : cfg) : Prop := {
    E_finds : finds g' = map shev (finds g);
    E_finds_after : Forall after (finds g);
    E_estk : estk g' = map shev (estk g);
    E_estk_after : Forall after (estk g);
    E_lastp : lastp g' = map shl (lastp g);
    E_lastp_ok : Forall okl (lastp g)
  }.

  Definition Rel (d : N) (g g' : cfg) : Prop := ZRel d g g' /\ ERel g g'.

  Lemma ZRel_weaken d d' g g' : d' <= d -> ZRel d g g' -> ZRel d' g g'.
  Proof.
    intros H [A B C E (x & X1 & X2 & X3 & X4) F G]. split; auto. exists x. repeat split; auto. lia.
  Qed.

  Lemma Rel_weaken d d' g g' : d' <= d -> Rel d g g' -> Rel d' g g'.
  Proof. intros H [A B]. split; [eapply ZRel_weaken; eauto | exact B]. Qed.

  (* ---- conditions ---- *)
  Lemma values_shift ls : Forall okl ls -> values D' size' (map shl ls) = values D size ls.
  Proof.
    induction 1 as [|l ls Hl _ IH]; [reflexivity|]. cbn [map values]. rewrite IH.
    assert (E : lex_value D' size' (shl l) = lex_value D size l).
    { unfold shl. destruct Hl as [Hl|[Hl1 Hl2]].
      - replace (le l <? n) with true by (symmetry; apply N.ltb_lt; exact Hl). apply Hlo. exact Hl.
      - replace (le l <? n) with false by (symmetry; apply N.ltb_ge; exact Hl2). apply Hhi. exact Hl1. }
    rewrite E. reflexivity.
  Qed.

  Lemma ltb_shift a b : (a + k <? b + k) = (a <? b).
  Proof. destruct (N.ltb_spec a b), (N.ltb_spec (a + k) (b + k)); try reflexivity; lia. Qed.
  Lemma leb_shift a b : (a + k <=? b + k) = (a <=? b).
  Proof. destruct (N.leb_spec a b), (N.leb_spec (a + k) (b + k)); try reflexivity; lia. Qed.
  Lemma eqb_shift a b : (a + k =? b + k) = (a =? b).
  Proof. destruct (N.eqb_spec a b), (N.eqb_spec (a + k) (b + k)); try reflexivity; lia. Qed.

  Lemma eval_cond_shift d q c g g' :
    Rel d g g' -> (match q with CPrevIs _ => 1 <= d | _ => True end) ->
    eval_cond D' size' q c g' = eval_cond D size q c g.
  Proof.
    intros [Z E] Hq. destruct q as [l| | | | |b]; cbn [eval_cond].
    - reflexivity.
    - unfold is_directive_at, size'. rewrite (Z_pos _ _ _ Z), (Z_rest _ _ _ Z), ltb_shift. reflexivity.
    - rewrite (E_lastp _ _ E), (values_shift _ (E_lastp_ok _ _ E)). reflexivity.
    - rewrite (E_lastp _ _ E), (values_shift _ (E_lastp_ok _ _ E)). reflexivity.
    - rewrite (E_lastp _ _ E), (values_shift _ (E_lastp_ok _ _ E)). reflexivity.
    - destruct (Z_pre _ _ _ Z) as (x & X1 & X2 & X3 & X4). rewrite X1, X2.
      destruct x as [|b0 x]; [cbn in X4; lia|]. cbn [app].
      unfold size'. rewrite (Z_pos _ _ _ Z), ltb_shift. reflexivity.
  Qed.

  Lemma eval_tree_shift d t c g g' :
    Rel d g g' -> (uses_prev t = true -> 1 <= d) ->
    eval_tree D' size' t c g' = eval_tree D size t c g.
  Proof.
    intros HR. induction t as [acts x | q a IHa b IHb]; intros Hp; [reflexivity|].
    cbn [eval_tree].
    rewrite (eval_cond_shift d q c g g' HR).
    - destruct (eval_cond D size q c g) as [v| | |]; cbn [obind]; try reflexivity.
      destruct v; [apply IHa | apply IHb]; intros H; apply Hp; cbn [uses_prev]; destruct q; rewrite ?H, ?orb_true_r; reflexivity.
    - destruct q; try exact I. apply Hp. reflexivity.
  Qed.

  (* ---- actions ---- *)
  Definition regok (r : option state) (g : cfg) : Prop :=
    match r with Some s => reg g = s | None => dist (reg g) <= stack_bound end.
  Definition RelS (dr : N * option state) (g g' : cfg) : Prop := Rel (fst dr) g g' /\ regok (snd dr) g.

  Lemma advance_shift d g g' m :
    Rel d g g' -> Rel (d + N.min m (N.of_nat (List.length (rest g)))) (advance g m) (advance g' m).
  Proof.
    intros [[A B C E (x & X1 & X2 & X3 & X4) F G] [E1 E2 E3 E4 E5 E6]].
    unfold advance. rewrite E, X1, X2, !fwd_eq. cbn [fst snd].
    split; split; cbn [reg sstk pos pre rest finds estk lastp set_zip]; auto.
    - lia.
    - exists (rev (firstn (N.to_nat m) (rest g)) ++ x). rewrite <- !app_assoc.
      split; [reflexivity|]. split; [reflexivity|].
      rewrite app_length, rev_length, firstn_length. split; lia.
    - rewrite skipn_length. lia.
  Qed.

  Lemma retreat_shift d g g' m :
    Rel d g g' -> m <= d -> Rel (d - m) (retreat g m) (retreat g' m).
  Proof.
    intros [[A B C E (x & X1 & X2 & X3 & X4) F G] [E1 E2 E3 E4 E5 E6]] Hm.
    unfold retreat. rewrite E, X1, X2, !fwd_eq. cbn [fst snd].
    rewrite !firstn_app, !skipn_app.
    replace (N.to_nat m - List.length x)%nat with 0%nat by lia. cbn [firstn skipn]. rewrite !app_nil_r.
    split; split; cbn [reg sstk pos pre rest finds estk lastp set_zip]; auto.
    - lia.
    - exists (skipn (N.to_nat m) x). split; [reflexivity|]. split; [reflexivity|]. rewrite skipn_length. split; lia.
    - rewrite app_length, rev_length, firstn_length. lia.
  Qed.

  Lemma exec_act_shift a dr dr' g g' :
    RelS dr g g' -> fstep dr a = Some dr' ->
    orel k (RelS dr') (exec_act jsc enum a g) (exec_act jsc enum a g').
  Proof.
    destruct dr as [d r]. intros [HR Hr] Hf. cbn [fst snd] in *.
    pose proof HR as [[A B C E (x & X1 & X2 & X3 & X4) F G] [E1 E2 E3 E4 E5 E6]].
    destruct a as [back e|s|s| | |m| |]; cbn [fstep] in Hf; cbn [exec_act].
    - (* AFound *)
      destruct (back <=? d) eqn:Hb; [|discriminate]. injection Hf as <-. apply N.leb_le in Hb.
      rewrite C.
      replace (pos g <? back) with false by (symmetry; apply N.ltb_ge; lia).
      replace (pos g + k <? back) with false by (symmetry; apply N.ltb_ge; lia).
      cbn [orel]. split; [|exact Hr]. split; split; cbn [reg sstk pos pre rest finds estk lastp set_finds]; auto.
      + exists x. auto.
      + rewrite E1, map_app. cbn [map]. unfold shev at 2. cbn [fst snd]. replace (pos g + k - back) with (pos g - back + k) by lia. reflexivity.
      + apply Forall_app. split; [exact E2|]. constructor; [|constructor]. unfold after. cbn [snd]. lia.
    - (* ASetStep *)
      injection Hf as <-. cbn [orel]. split; [|reflexivity].
      split; split; cbn [reg sstk pos pre rest finds estk lastp set_reg]; auto. exists x. auto.
    - (* APush *)
      destruct (dist s <=? stack_bound) eqn:Hs; [|discriminate]. injection Hf as <-. apply N.leb_le in Hs.
      cbn [orel]. split; [|exact Hr].
      split; split; cbn [reg sstk pos pre rest finds estk lastp set_sstk]; auto.
      + rewrite B. reflexivity.
      + exists x. auto.
    - (* APushCur *)
      destruct (dist_reg r <=? stack_bound) eqn:Hs; [|discriminate]. injection Hf as <-. apply N.leb_le in Hs.
      cbn [orel]. split; [|exact Hr].
      split; split; cbn [reg sstk pos pre rest finds estk lastp set_sstk]; auto.
      + rewrite A, B. reflexivity.
      + exists x. auto.
      + constructor; [|exact G]. destruct r as [s|]; cbn [regok dist_reg] in *; [rewrite Hr; exact Hs | exact Hr].
    - (* APop *)
      injection Hf as <-. rewrite B. destruct (sstk g) as [|s st] eqn:Est; cbn [orel]; [reflexivity|].
      split.
      + split; split; cbn [reg sstk pos pre rest finds estk lastp set_sstk set_reg]; auto.
        * exists x. auto.
        * inversion G; assumption.
      + cbn [regok reg set_reg snd]. inversion G; assumption.
    - (* ARewind *)
      destruct (m <=? d) eqn:Hm; [|discriminate]. injection Hf as <-. apply N.leb_le in Hm.
      rewrite C.
      replace (pos g <? m) with false by (symmetry; apply N.ltb_ge; lia).
      replace (pos g + k <? m) with false by (symmetry; apply N.ltb_ge; lia).
      cbn [orel]. split; [apply retreat_shift; assumption|].
      destruct r; cbn [regok snd] in *; exact Hr.
    - (* AReadSchema *)
      injection Hf as <-. unfold read_body. rewrite E, C. destruct (jsc (rest g)) as [len|p msg]; cbn [orel].
      + split; [|destruct (0 <? len), r; cbn [regok snd] in *; exact Hr].
        destruct (0 <? len); [|exact HR]. cbn [fst]. eapply Rel_weaken; [|apply advance_shift; exact HR]. lia.
      + split; [lia | reflexivity].
    - (* AReadEnum *)
      injection Hf as <-. unfold read_body. rewrite E, C. destruct (enum (rest g)) as [len|p msg]; cbn [orel].
      + split; [|destruct (0 <? len), r; cbn [regok snd] in *; exact Hr].
        destruct (0 <? len); [|exact HR]. cbn [fst]. eapply Rel_weaken; [|apply advance_shift; exact HR]. lia.
      + split; [lia | reflexivity].
  Qed.

  Lemma exec_acts_shift acts : forall dr dr' g g',
    RelS dr g g' -> ffold dr acts = Some dr' ->
    orel k (RelS dr') (exec_acts jsc enum acts g) (exec_acts jsc enum acts g').
  Proof.
    induction acts as [|a acts IH]; intros dr dr' g g' HR Hf.
    - cbn in Hf. injection Hf as <-. exact HR.
    - cbn [ffold] in Hf. destruct (fstep dr a) as [dr1|] eqn:F1; [|discriminate].
      cbn [exec_acts]. eapply orel_bind; [eapply exec_act_shift; eauto|].
      intros g1 g1' H1. eapply IH; eauto.
  Qed.
  (* ---- one call of a step function and its re-dispatches ---- *)
  Lemma dist_ok_state s :
    (uses_prev (step_tree s) = true -> 1 <= dist s) /\
    forall lf, In lf (tree_leaves (step_tree s)) -> leaf_dist_ok s lf = true.
  Proof.
    pose proof dist_table_ok as H. unfold dist_ok in H. rewrite forallb_forall in H.
    specialize (H s (all_states_complete s)). apply andb_true_iff in H as [H1 H2]. split.
    - intros U. rewrite U in H1. cbn in H1. apply N.leb_le. exact H1.
    - rewrite forallb_forall in H2. exact H2.
  Qed.

  (* after the call: d bytes lie behind, and the new state asks for at most one more - the byte just handled *)
  Definition Rel1 (g g' : cfg) : Prop := exists d, Rel d g g' /\ dist (reg g) <= d + 1.

  Lemma dispatch_shift f : forall c g g',
    Rel (dist (reg g)) g g' ->
    orel k Rel1 (dispatch jsc enum D size f c g) (dispatch jsc enum D' size' f c g').
  Proof.
    induction f as [|f IH]; intros c g g' HR; [exact I|].
    cbn [dispatch]. destruct (dist_ok_state (reg g)) as [Hp Hl].
    rewrite (Z_reg _ _ _ (proj1 HR)).
    rewrite (eval_tree_shift _ _ c _ _ HR Hp).
    destruct (eval_tree D size (step_tree (reg g)) c g) as [ax|p0 e0| |] eqn:Eax; cbn [obind orel]; auto;
      [|exfalso; eapply eval_tree_not_err; eauto].
    specialize (Hl ax (eval_tree_in_leaves _ _ _ _ _ _ Eax)). unfold leaf_dist_ok in Hl.
    destruct (ffold (dist (reg g), Some (reg g)) (fst ax)) as [[d1 r1]|] eqn:Ff; [|discriminate].
    eapply orel_bind; [eapply exec_acts_shift; [|exact Ff]; split; [exact HR | reflexivity]|].
    intros g1 g1' [H1 H2]. cbn [fst snd] in H1, H2.
    assert (Hreg : forall b, dist_reg r1 <= d1 + b -> dist (reg g1) <= d1 + b).
    { intros b Hb. destruct r1 as [s|]; cbn [regok dist_reg] in *; [rewrite H2; exact Hb | lia]. }
    destruct (snd ax) as [| |e]; cbn [orel].
    - exists d1. split; [exact H1|]. apply Hreg. apply N.leb_le. exact Hl.
    - apply IH. eapply Rel_weaken; [|exact H1]. apply N.leb_le in Hl. cbn [bump] in Hl.
      specialize (Hreg 0). rewrite !N.add_0_r in Hreg, Hl. apply Hreg. exact Hl.
    - split; [exact (Z_pos _ _ _ (proj1 H1)) | reflexivity].
  Qed.

  (* ---- the invariant of the byte loop ---- *)
  Definition LRel (g g' : cfg) : Prop := Rel 0 g g' /\ (pos g <= size -> Rel (dist (reg g)) g g').

  Lemma advance1_shift g1 g1' : Rel1 g1 g1' -> LRel (advance g1 1) (advance g1' 1).
  Proof.
    intros (d & HR & Hd). pose proof (advance_shift d g1 g1' 1 HR) as H. split.
    - eapply Rel_weaken; [|exact H]. lia.
    - intros Hp. eapply Rel_weaken; [|exact H].
      pose proof (Z_len _ _ _ (proj1 HR)) as L. unfold advance in Hp |- *. cbn [pos reg set_zip] in Hp |- *. lia.
  Qed.

  (* ---- lexeme events ---- *)
  Definition same_zip (g h : cfg) : Prop :=
    reg h = reg g /\ sstk h = sstk g /\ pos h = pos g /\ pre h = pre g /\ rest h = rest g.

  Lemma ZRel_same_zip d g g' h h' : ZRel d g g' -> same_zip g h -> same_zip g' h' -> ZRel d h h'.
  Proof.
    intros [A B C E X F G] (a1 & a2 & a3 & a4 & a5) (b1 & b2 & b3 & b4 & b5).
    split; rewrite ?a1, ?a2, ?a3, ?a4, ?a5, ?b1, ?b2, ?b3, ?b4, ?b5; assumption.
  Qed.

  Definition EvR (g g' : cfg) (r r' : cfg * option lexeme) : Prop :=
    ERel (fst r) (fst r') /\ same_zip g (fst r) /\ same_zip g' (fst r') /\
    snd r' = option_map shL (snd r) /\ (forall l, snd r = Some l -> n <= lb l /\ n <= le l).

  Lemma process_event_shift ev g g' :
    ERel g g' -> pos g' = pos g + k -> after ev ->
    orel k (EvR g g') (process_event ev g) (process_event (shev ev) g').
  Proof.
    intros [E1 E2 E3 E4 E5 E6] C Hev. destruct ev as [e p]. unfold after in Hev. cbn [snd] in Hev.
    unfold process_event, shev. cbn [fst snd].
    destruct (evt_in e evt_beginning).
    { cbn [orel]. unfold EvR. cbn [fst snd option_map]. split; [|repeat split; discriminate].
      split; cbn [reg sstk pos pre rest finds estk lastp set_estk]; auto.
      rewrite E3. reflexivity. }
    destruct (evt_in e evt_ending).
    { rewrite E3. destruct (estk g) as [|[se sp] st]; cbn [map orel]; [reflexivity|].
      unfold shev at 1. cbn [fst snd].
      destruct (pair_ok se e); [|cbn [orel]; split; [exact C | reflexivity]].
      destruct (evt_lexkind e) as [kd|]; cbn [orel]; [|reflexivity].
      unfold EvR. cbn [fst snd option_map]. split; [|split; [repeat split|split; [repeat split|split; [reflexivity|]]]].
      - split; cbn [reg sstk pos pre rest finds estk lastp set_estk]; auto. inversion E4; assumption.
      - intros l Hl. injection Hl as <-. cbn [lb le]. inversion E4 as [|? ? Hsp ?]. unfold after in Hsp. cbn in Hsp. split; assumption. }
    destruct (evt_in e evt_single); [|cbn [orel]; split; [exact C | reflexivity]].
    destruct (evt_lexkind e) as [kd|]; cbn [orel]; [|reflexivity].
    unfold EvR. cbn [fst snd option_map]. split; [|split; [repeat split|split; [repeat split|split; [reflexivity|]]]].
    - split; assumption.
    - intros l Hl. injection Hl as <-. cbn [lb le]. split; assumption.
  Qed.

  Lemma note_lexeme_shift l g g' :
    ERel g g' -> n <= lb l -> n <= le l ->
    ERel (note_lexeme l g) (note_lexeme (shL l) g') /\ same_zip g (note_lexeme l g) /\ same_zip g' (note_lexeme (shL l) g').
  Proof.
    intros [E1 E2 E3 E4 E5 E6] H1 H2. unfold note_lexeme. cbn [shL lk].
    destruct (lexkind_eqb (lk l) LParameter); [|destruct (lexkind_eqb (lk l) LKeyword)].
    - split; [|repeat split]. split; cbn [reg sstk pos pre rest finds estk lastp set_lastp]; auto.
      + rewrite E5, map_app. cbn [map]. f_equal. unfold shl.
        replace (le l <? n) with false by (symmetry; apply N.ltb_ge; exact H2). reflexivity.
      + apply Forall_app. split; [exact E6|]. constructor; [|constructor]. right. split; assumption.
    - split; [|repeat split]. split; cbn [reg sstk pos pre rest finds estk lastp set_lastp]; auto.
    - split; [|repeat split]. split; assumption.
  Qed.

  Lemma same_zip_trans a b c : same_zip a b -> same_zip b c -> same_zip a c.
  Proof. intros (a1 & a2 & a3 & a4 & a5) (b1 & b2 & b3 & b4 & b5). repeat split; congruence. Qed.

  Lemma drain_shift m : forall g g',
    ERel g g' -> pos g' = pos g + k ->
    orel k (fun r r' => ERel (fst r) (fst r') /\ same_zip g (fst r) /\ same_zip g' (fst r') /\ snd r' = option_map shL (snd r))
         (drain m g) (drain m g').
  Proof.
    induction m as [|m IH]; intros g g' HE C.
    - cbn [drain orel fst snd option_map]. split; [exact HE|]. repeat split.
    - cbn [drain]. pose proof HE as [E1 E2 E3 E4 E5 E6]. rewrite E1.
      destruct (finds g) as [|ev fs]; cbn [map orel]; [reflexivity|].
      assert (HE2 : ERel (set_finds g fs) (set_finds g' (map shev fs))).
      { split; cbn [reg sstk pos pre rest finds estk lastp set_finds]; auto. inversion E2; assumption. }
      eapply orel_bind; [apply (process_event_shift ev _ _ HE2); [exact C | inversion E2; assumption]|].
      intros r r' (R1 & R2 & R3 & R4 & R5). rewrite R4.
      assert (Z1 : same_zip g (fst r)) by (eapply same_zip_trans; [|exact R2]; repeat split).
      assert (Z2 : same_zip g' (fst r')) by (eapply same_zip_trans; [|exact R3]; repeat split).
      destruct (snd r) as [l|] eqn:Sr; cbn [option_map].
      + destruct (R5 l eq_refl) as [L1 L2].
        destruct (note_lexeme_shift l _ _ R1 L1 L2) as (N1 & N2 & N3).
        cbn [orel fst snd option_map]. split; [exact N1|].
        split; [eapply same_zip_trans; eauto|]. split; [eapply same_zip_trans; eauto | reflexivity].
      + assert (C2 : pos (fst r') = pos (fst r) + k).
        { destruct Z1 as (_ & _ & P1 & _), Z2 as (_ & _ & P2 & _). rewrite P1, P2. exact C. }
        pose proof (IH _ _ R1 C2) as H.
        destruct (drain m (fst r)) as [q| | |], (drain m (fst r')) as [q'| | |]; cbn [orel] in *; try contradiction; auto.
        destruct H as (Q1 & Q2 & Q3 & Q4). split; [exact Q1|].
        split; [eapply same_zip_trans; eauto|]. split; [eapply same_zip_trans; eauto | exact Q4].
  Qed.

  Lemma LRel_same_zip g g' h h' : LRel g g' -> same_zip g h -> same_zip g' h' -> ERel h h' -> LRel h h'.
  Proof.
    intros [[Z0 _] Hc] S1 S2 HE. split.
    - split; [eapply ZRel_same_zip; eauto | exact HE].
    - destruct S1 as (a1 & a2 & a3 & a4 & a5). rewrite a1, a3. intros Hp.
      split; [eapply ZRel_same_zip; [exact (proj1 (Hc Hp))| repeat split; assumption | exact S2] | exact HE].
  Qed.

  (* ---- the byte loop, Next(), the whole scan ---- *)
  Definition RR (r r' : cfg * option lexeme) : Prop := LRel (fst r) (fst r') /\ snd r' = option_map shL (snd r).

  Lemma main_loop_shift f : forall g g',
    LRel g g' -> orel k RR (main_loop jsc enum D size f g) (main_loop jsc enum D' size' f g').
  Proof.
    induction f as [|f IH]; intros g g' HL; [exact I|].
    cbn [main_loop]. pose proof HL as [[Z0 E0] Hc].
    unfold size' at 1 2 3. rewrite (Z_pos _ _ _ Z0), leb_shift, eqb_shift, (Z_rest _ _ _ Z0).
    destruct (pos g <=? size) eqn:Hp; [|cbn [orel]; split; [exact HL | reflexivity]].
    apply N.leb_le in Hp. specialize (Hc Hp).
    destruct (if pos g =? size then Some 0 else hd_error (rest g)) as [c|]; cbn [orel]; [|reflexivity].
    destruct ((c =? 0) && negb (pos g =? size)); cbn [orel]; [split; reflexivity|].
    eapply orel_bind; [apply dispatch_shift; exact Hc|].
    intros g1 g1' H1. apply advance1_shift in H1.
    assert (Hlen : List.length (finds (advance g1' 1)) = List.length (finds (advance g1 1))).
    { rewrite (E_finds _ _ (proj2 (proj1 H1))). apply map_length. }
    rewrite Hlen.
    eapply orel_bind; [apply drain_shift; [exact (proj2 (proj1 H1)) | exact (Z_pos _ _ _ (proj1 (proj1 H1)))]|].
    intros r r' (R1 & R2 & R3 & R4). rewrite R4.
    assert (HL2 : LRel (fst r) (fst r')) by (eapply LRel_same_zip; eauto).
    destruct (snd r) as [l|] eqn:Sr; cbn [option_map].
    - cbn [orel]. split; [exact HL2|]. rewrite R4, Sr. reflexivity.
    - apply IH. exact HL2.
  Qed.

  Lemma next_shift f g g' :
    LRel g g' -> orel k RR (next jsc enum D size f g) (next jsc enum D' size' f g').
  Proof.
    intros HL. unfold next. pose proof HL as [[Z0 E0] Hc]. pose proof E0 as [E1 E2 E3 E4 E5 E6]. rewrite E1.
    destruct (finds g) as [|ev fs] eqn:Ef; cbn [map]; [apply main_loop_shift; exact HL|].
    assert (HE2 : ERel (set_finds g fs) (set_finds g' (map shev fs))).
    { split; cbn [reg sstk pos pre rest finds estk lastp set_finds]; auto. inversion E2; assumption. }
    eapply orel_bind; [apply (process_event_shift ev _ _ HE2); [exact (Z_pos _ _ _ Z0) | inversion E2; assumption]|].
    intros r r' (R1 & R2 & R3 & R4 & R5). rewrite R4.
    assert (HL2 : LRel (fst r) (fst r')).
    { eapply LRel_same_zip; [exact HL | | | exact R1]; (eapply same_zip_trans; [|eassumption]; repeat split). }
    destruct (snd r) as [l|] eqn:Sr; cbn [option_map].
    - cbn [orel]. split; [exact HL2|]. rewrite R4, Sr. reflexivity.
    - apply main_loop_shift. exact HL2.
  Qed.

  Definition she (e : scan_end) : scan_end := match e with SErr p x => SErr (p + k) x | _ => e end.

  (* the scan from a configuration: the same verdict, the lexemes still to come shifted by k *)
  Lemma scan_all_shift f : forall g g' acc acc',
    LRel g g' ->
    exists ls, fst (fst (scan_all jsc enum D size f g acc)) = rev acc ++ ls /\
               fst (fst (scan_all jsc enum D' size' f g' acc')) = rev acc' ++ map shL ls /\
               snd (fst (scan_all jsc enum D' size' f g' acc')) = she (snd (fst (scan_all jsc enum D size f g acc))).
  Proof.
    induction f as [|f IH]; intros g g' acc acc' HL.
    - exists []. cbn. rewrite !app_nil_r. auto.
    - cbn [scan_all]. pose proof (next_shift (S f) g g' HL) as H.
      destruct (next jsc enum D size (S f) g) as [[g1 ol]| | |], (next jsc enum D' size' (S f) g' ) as [[g1' ol']| | |];
        cbn [orel] in H; try contradiction.
      + destruct H as [H1 H2]. cbn [fst snd] in H1, H2. subst ol'. destruct ol as [l|]; cbn [option_map].
        * destruct (IH g1 g1' (l :: acc) (shL l :: acc') H1) as (ls & A & B & C).
          exists (l :: ls). rewrite A, B, C. cbn [rev map]. rewrite <- !app_assoc. auto.
        * exists []. cbn. rewrite !app_nil_r. auto.
      + destruct H as [-> ->]. exists []. cbn. rewrite !app_nil_r. auto.
      + subst. exists []. cbn. rewrite !app_nil_r. auto.
      + exists []. cbn. rewrite !app_nil_r. auto.
  Qed.
End Shift.

(* ---------------------------------------------------------------------------------------------- *)
(* 3. one turn of the byte loop; fuel; the run up to a configuration *)

Section Run.
  Variables jsc enum : bytes -> len_result.
  Variable D : bytes.
  Variable size : N.

  (* the body of the `for s.curIndex <= s.dataSize` loop *)
  Definition mstep (g : cfg) : outcome (cfg * option lexeme) :=
    match (if pos g =? size then Some 0 else hd_error (rest g)) with
    | None => Panic "index out of range"
    | Some c =>
      if (c =? 0) && negb (pos g =? size) then Err (pos g) ENul
      else obind (dispatch jsc enum D size redo_fuel c g) (fun g1 =>
           let g2 := advance g1 1 in drain (List.length (finds g2)) g2)
    end.

  Lemma main_loop_unfold f g :
    main_loop jsc enum D size (S f) g =
    if pos g <=? size then
      obind (mstep g) (fun r => match snd r with Some _ => Ok r | None => main_loop jsc enum D size f (fst r) end)
    else Ok (g, None).
  Proof.
    cbn [main_loop]. unfold mstep. destruct (pos g <=? size); [|reflexivity].
    destruct (if pos g =? size then Some 0 else hd_error (rest g)) as [c|]; [|reflexivity].
    destruct ((c =? 0) && negb (pos g =? size)); [reflexivity|].
    destruct (dispatch jsc enum D size redo_fuel c g); reflexivity.
  Qed.

  Lemma main_loop_S f : forall g,
    main_loop jsc enum D size f g <> OutOfFuel -> main_loop jsc enum D size (S f) g = main_loop jsc enum D size f g.
  Proof.
    induction f as [|f IH]; intros g H; [exfalso; apply H; reflexivity|].
    rewrite main_loop_unfold in H. rewrite (main_loop_unfold (S f)), (main_loop_unfold f).
    destruct (pos g <=? size); [|reflexivity].
    destruct (mstep g) as [r| | |]; cbn [obind] in *; try reflexivity.
    destruct (snd r); [reflexivity|]. apply IH. exact H.
  Qed.

  Lemma main_loop_mono f f' g :
    (f <= f')%nat -> main_loop jsc enum D size f g <> OutOfFuel ->
    main_loop jsc enum D size f' g = main_loop jsc enum D size f g.
  Proof.
    intros Hle H. induction Hle as [|m Hle IH]; [reflexivity|].
    rewrite main_loop_S; [exact IH|]. rewrite IH. exact H.
  Qed.

  Lemma next_mono f f' g :
    (f <= f')%nat -> next jsc enum D size f g <> OutOfFuel -> next jsc enum D size f' g = next jsc enum D size f g.
  Proof.
    intros Hle H. unfold next in *. destruct (finds g) as [|ev fs]; [apply main_loop_mono; assumption|].
    destruct (process_event ev (set_finds g fs)) as [r| | |]; cbn [obind] in *; try reflexivity.
    destruct (snd r); [reflexivity|]. apply main_loop_mono; assumption.
  Qed.

  Definition verdict (r : list lexeme * scan_end * cfg) : scan_end := snd (fst r).

  Lemma scan_all_mono f : forall f' g acc,
    (f <= f')%nat -> verdict (scan_all jsc enum D size f g acc) <> SFuel ->
    scan_all jsc enum D size f' g acc = scan_all jsc enum D size f g acc.
  Proof.
    induction f as [|f IH]; intros f' g acc Hle H; [exfalso; apply H; reflexivity|].
    destruct f' as [|f']; [lia|]. cbn [scan_all] in *.
    assert (Hn : next jsc enum D size (S f) g <> OutOfFuel).
    { intros E. rewrite E in H. apply H. reflexivity. }
    rewrite (next_mono (S f) (S f') g Hle Hn).
    destruct (next jsc enum D size (S f) g) as [[g1 [l|]]| | |]; try reflexivity.
    apply IH; [lia | exact H].
  Qed.

  (* the run of the scanner up to a configuration, with the lexemes returned so far (last first): whole calls of
     Next() that return a lexeme, and single quiet turns of the byte loop *)
  Inductive reach : cfg -> list lexeme -> Prop :=
  | reach_init : reach (init_cfg D) []
  | reach_next g acc f g' l : reach g acc -> next jsc enum D size f g = Ok (g', Some l) -> reach g' (l :: acc)
  | reach_loop g acc g' : reach g acc -> finds g = [] -> pos g <= size -> mstep g = Ok (g', None) -> reach g' acc.

  Lemma process_event_finds ev g r : process_event ev g = Ok r -> finds (fst r) = finds g.
  Proof.
    unfold process_event. destruct ev as [e p].
    destruct (evt_in e evt_beginning); [intros H; injection H as <-; reflexivity|].
    destruct (evt_in e evt_ending).
    { destruct (estk g) as [|[se sp] st]; [discriminate|]. destruct (pair_ok se e); [|discriminate].
      destruct (evt_lexkind e); [|discriminate]. intros H; injection H as <-; reflexivity. }
    destruct (evt_in e evt_single); [|discriminate].
    destruct (evt_lexkind e); [|discriminate]. intros H; injection H as <-; reflexivity.
  Qed.

  Lemma drain_none m : forall g g', drain m g = Ok (g', None) -> List.length (finds g) = m -> finds g' = [].
  Proof.
    induction m as [|m IH]; intros g g' H L.
    - cbn in H. injection H as <-. destruct (finds g); [reflexivity | discriminate].
    - cbn [drain] in H. destruct (finds g) as [|ev fs] eqn:Ef; [discriminate|].
      destruct (process_event ev (set_finds g fs)) as [r| | |] eqn:Ep; cbn [obind] in H; try discriminate.
      destruct (snd r); [discriminate|]. apply (IH _ _ H).
      rewrite (process_event_finds _ _ _ Ep). cbn in *. lia.
  Qed.

  Lemma mstep_none g g' : mstep g = Ok (g', None) -> finds g' = [].
  Proof.
    unfold mstep. destruct (if pos g =? size then Some 0 else hd_error (rest g)) as [c|]; [|discriminate].
    destruct ((c =? 0) && negb (pos g =? size)); [discriminate|].
    destruct (dispatch jsc enum D size redo_fuel c g) as [g1| | |]; cbn [obind]; try discriminate.
    intros H. eapply drain_none; [exact H | reflexivity].
  Qed.

  (* a scan that does not run out of fuel passes through every configuration of its run *)
  Lemma reach_scan g acc : reach g acc -> forall F,
    verdict (scan_all jsc enum D size F (init_cfg D) []) <> SFuel ->
    exists f, fst (scan_all jsc enum D size f g acc) = fst (scan_all jsc enum D size F (init_cfg D) []).
  Proof.
    induction 1 as [|g acc f0 g' l Hr IH Hn|g acc g' Hr IH Hf Hp Hm]; intros F HF.
    - exists F. reflexivity.
    - destruct (IH F HF) as [f E]. unfold verdict in HF. rewrite <- E in HF.
      destruct f as [|f]; [exfalso; apply HF; reflexivity|]. cbn [scan_all] in E, HF.
      assert (Hne : next jsc enum D size (S f) g <> OutOfFuel).
      { intros X. rewrite X in HF. apply HF. reflexivity. }
      assert (Hn2 : next jsc enum D size (S f) g = Ok (g', Some l)).
      { rewrite <- Hn. destruct (PeanoNat.Nat.le_ge_cases (S f) f0) as [L|L].
        - symmetry. apply next_mono; assumption.
        - apply next_mono; [exact L|]. rewrite Hn. discriminate. }
      rewrite Hn2 in E. exists f. exact E.
    - destruct (IH F HF) as [f E]. unfold verdict in HF. rewrite <- E in HF.
      destruct f as [|f]; [exfalso; apply HF; reflexivity|].
      exists (S f). rewrite <- E. cbn [scan_all] in HF |- *.
      assert (N1 : next jsc enum D size (S f) g = main_loop jsc enum D size f g').
      { unfold next. rewrite Hf, main_loop_unfold.
        replace (pos g <=? size) with true by (symmetry; apply N.leb_le; exact Hp). rewrite Hm. reflexivity. }
      rewrite N1 in HF |- *.
      assert (Hne : main_loop jsc enum D size f g' <> OutOfFuel).
      { intros X. rewrite X in HF. apply HF. reflexivity. }
      assert (N2 : next jsc enum D size (S f) g' = main_loop jsc enum D size f g').
      { unfold next. rewrite (mstep_none _ _ Hm). apply main_loop_S. exact Hne. }
      rewrite N2. destruct (main_loop jsc enum D size f g') as [[g2 [l|]]| | |]; reflexivity.
  Qed.
End Run.

(* ---------------------------------------------------------------------------------------------- *)
(* 4. the whole input: data = a ++ b, blanks w inserted at |a| *)

(* the leaf a byte reaches through byte tests alone *)
Fixpoint byte_leaf (c : N) (t : tree) : option (list act * exit) :=
  match t with
  | Leaf a x => Some (a, x)
  | Node (CByteIn l) t e => if in_set l c then byte_leaf c t else byte_leaf c e
  | Node _ _ _ => None
  end.

Lemma byte_leaf_eval data size c t g ax : byte_leaf c t = Some ax -> eval_tree data size t c g = Ok ax.
Proof.
  induction t as [acts x | q t1 IH1 t2 IH2]; cbn [byte_leaf eval_tree]; intros H.
  - injection H as <-. reflexivity.
  - destruct q; try discriminate. cbn [eval_cond obind]. destruct (in_set l c); auto.
Qed.

Definition blank_leaf (s : state) (c : N) : bool :=
  match byte_leaf c (step_tree s) with Some ([], XNil) => true | _ => false end.

Lemma blank_leaf_table : forallb (fun s => forallb (blank_leaf s) blank_bytes) shift_states = true.
Proof. vm_compute. reflexivity. Qed.

Lemma shift_state_dist s : In s shift_states -> dist s = 0.
Proof. unfold shift_states. rewrite filter_In. intros [_ H]. apply N.eqb_eq. exact H. Qed.

Lemma slice_prefix (a x : bytes) i m :
  (i + m <= List.length a)%nat -> firstn m (skipn i (a ++ x)) = firstn m (skipn i a).
Proof.
  intros H. rewrite skipn_app, firstn_app, skipn_length.
  replace (m - (List.length a - i))%nat with 0%nat by lia. cbn [firstn]. apply app_nil_r.
Qed.

Lemma skipn_past (a x : bytes) i : (List.length a <= i)%nat -> skipn i (a ++ x) = skipn (i - List.length a) x.
Proof. intros H. rewrite skipn_app, skipn_all2 by exact H. reflexivity. Qed.

Section Whole.
  Variables jsc enum : bytes -> len_result.
  Variables a w b : bytes.

  Local Notation D := (a ++ b).
  Local Notation D' := (a ++ w ++ b).
  Local Notation n := (N.of_nat (List.length a)).
  Local Notation k := (N.of_nat (List.length w)).
  Local Notation size := (N.of_nat (List.length (a ++ b))).

  Lemma size_ins : N.of_nat (List.length (a ++ w ++ b)) = size' size k.
  Proof. unfold size'. rewrite !app_length. lia. Qed.

  Lemma lex_value_lo l : le l < n -> lex_value D' (size' size k) l = lex_value D size l.
  Proof.
    intros H. unfold lex_value, size', suffix. rewrite !app_length.
    replace (le l + 1 <=? N.of_nat (List.length a + List.length b) + k) with true by (symmetry; apply N.leb_le; lia).
    replace (le l + 1 <=? N.of_nat (List.length a + List.length b)) with true by (symmetry; apply N.leb_le; lia).
    destruct (lb l <=? le l + 1) eqn:E; [|reflexivity]. apply N.leb_le in E. cbn [andb]. f_equal.
    rewrite !slice_prefix by lia. reflexivity.
  Qed.

  Lemma lex_value_hi l : n <= lb l -> lex_value D' (size' size k) (shL k l) = lex_value D size l.
  Proof.
    intros H. unfold lex_value, size', suffix, shL. cbn [lb le].
    replace (lb l + k <=? le l + k + 1) with (lb l <=? le l + 1)
      by (destruct (N.leb_spec (lb l) (le l + 1)), (N.leb_spec (lb l + k) (le l + k + 1)); try reflexivity; lia).
    replace (le l + k + 1 <=? size + k) with (le l + 1 <=? size)
      by (destruct (N.leb_spec (le l + 1) size), (N.leb_spec (le l + k + 1) (size + k)); try reflexivity; lia).
    destruct ((lb l <=? le l + 1) && (le l + 1 <=? size)); [|reflexivity]. f_equal.
    replace (le l + k + 1 - (lb l + k)) with (le l + 1 - lb l) by lia. f_equal.
    rewrite !skipn_past by lia. f_equal. lia.
  Qed.

  Definition blank (c : N) : Prop := In c blank_bytes.

  (* one inserted blank: a quiet turn of the byte loop that only moves the read position *)
  Lemma blank_mstep X sz g c r :
    In (reg g) shift_states -> blank c -> finds g = [] -> rest g = c :: r -> pos g < sz ->
    mstep jsc enum X sz g = Ok (advance g 1, None).
  Proof.
    intros Hs Hc Hf Hr Hp. unfold mstep.
    replace (pos g =? sz) with false by (symmetry; apply N.eqb_neq; lia). rewrite Hr. cbn [hd_error].
    assert (c =? 0 = false) as -> by (destruct Hc as [<-|[<-|[<-|[<-|[]]]]]; reflexivity). cbn [andb].
    change redo_fuel with (S 63). rewrite dispatch_one_step. unfold one_step.
    pose proof blank_leaf_table as T. rewrite forallb_forall in T. specialize (T _ Hs).
    rewrite forallb_forall in T. specialize (T _ Hc). unfold blank_leaf in T.
    destruct (byte_leaf c (step_tree (reg g))) as [[acts x]|] eqn:B; [|discriminate].
    destruct acts; [|discriminate]. destruct x; try discriminate.
    rewrite (byte_leaf_eval X sz _ _ g _ B). cbn [obind fst snd exec_acts].
    assert (finds (advance g 1) = []) as -> by exact Hf. reflexivity.
  Qed.

  Lemma blanks_reach X sz acc : forall v g r,
    Forall blank v -> In (reg g) shift_states -> finds g = [] -> rest g = v ++ r ->
    pos g + N.of_nat (List.length v) <= sz ->
    reach jsc enum X sz g acc ->
    reach jsc enum X sz (set_zip g (pos g + N.of_nat (List.length v)) (rev v ++ pre g) r) acc.
  Proof.
    induction v as [|c v IH]; intros g r Hv Hs Hf Hr Hp HR.
    - cbn [List.length rev app N.of_nat] in *. rewrite N.add_0_r. clear Hs Hv Hp Hf.
      destruct g as [g1 g2 g3 g4 g5 g6 g7 g8]; cbn [rest pos pre set_zip reg sstk finds estk lastp] in *; subst; exact HR.
    - inversion Hv as [|? ? Hc Hv']; subst. cbn [app] in Hr. cbn [List.length] in Hp.
      assert (A : advance g 1 = set_zip g (pos g + 1) (c :: pre g) (v ++ r)).
      { unfold advance. rewrite Hr. reflexivity. }
      assert (R1 : reach jsc enum X sz (advance g 1) acc).
      { eapply reach_loop; [exact HR | exact Hf | lia |]. eapply blank_mstep; eauto. lia. }
      rewrite A in R1.
      specialize (IH (set_zip g (pos g + 1) (c :: pre g) (v ++ r)) r Hv' Hs Hf eq_refl). cbn [pos pre set_zip] in IH.
      assert (Hp2 : pos g + 1 + N.of_nat (List.length v) <= sz) by lia.
      specialize (IH Hp2 R1). unfold set_zip in IH |- *. cbn [reg sstk finds estk lastp] in IH.
      cbn [rev List.length]. rewrite <- app_assoc. cbn [app].
      replace (pos g + N.of_nat (S (List.length v))) with (pos g + 1 + N.of_nat (List.length v)) by lia. exact IH.
  Qed.

  Lemma she_fuel e : e <> SFuel -> she k e <> SFuel.
  Proof. destruct e; cbn; congruence. Qed.

  (* blanks inserted in a state where they are inert, with nothing pending and no lexeme open: the lexemes returned
     before the insertion point stay, those after it are shifted, the verdict is the same (its position shifted).
     Premises: the two runs up to the insertion point (same configuration but for the text ahead). *)
  Theorem blank_insertion_shift_lemma g acc :
    Forall blank w ->
    reach jsc enum D size g acc ->
    reach jsc enum D' (size' size k) (set_zip g (pos g) (pre g) (w ++ b)) acc ->
    pos g = n -> pre g = rev a -> rest g = b -> finds g = [] -> estk g = [] ->
    In (reg g) shift_states ->
    Forall (fun s => dist s <= stack_bound) (sstk g) ->
    Forall (fun l => le l < n) (lastp g) ->
    verdict (scan jsc enum D) <> SFuel -> verdict (scan jsc enum D') <> SFuel ->
    exists ls,
      fst (fst (scan jsc enum D)) = rev acc ++ ls /\
      fst (fst (scan jsc enum D')) = rev acc ++ map (shL k) ls /\
      verdict (scan jsc enum D') = she k (verdict (scan jsc enum D)).
  Proof.
    intros Hw R1 R2 Hpos Hpre Hrest Hf He Hs Hstk Hlast V1 V2.
    (* the inserted blanks *)
    pose proof (blanks_reach D' (size' size k) acc w (set_zip g (pos g) (pre g) (w ++ b)) b Hw Hs Hf eq_refl) as R3.
    cbn [pos pre set_zip] in R3.
    assert (Hle : pos g + k <= size' size k) by (unfold size'; rewrite Hpos, app_length; lia).
    specialize (R3 Hle R2).
    set (gs := set_zip (set_zip g (pos g) (pre g) (w ++ b)) (pos g + k) (rev w ++ pre g) b) in R3.
    (* the translation relation holds there *)
    assert (HR0 : Rel size n k (rev a) (rev w ++ rev a) 0 g gs).
    { split; split; cbn [reg sstk pos pre rest finds estk lastp set_zip gs]; auto.
      - exists []. rewrite Hpre. cbn. repeat split; lia.
      - rewrite Hpos, Hrest, app_length. lia.
      - rewrite Hf. reflexivity.
      - rewrite Hf. constructor.
      - rewrite He. reflexivity.
      - rewrite He. constructor.
      - clear -Hlast. induction Hlast as [|l ls Hl _ IH]; [reflexivity|]. cbn [map]. rewrite <- IH. f_equal.
        unfold shl. replace (le l <? n) with true by (symmetry; apply N.ltb_lt; exact Hl). reflexivity.
      - eapply Forall_impl; [|exact Hlast]. intros l Hl. left. exact Hl. }
    assert (HL : LRel size n k (rev a) (rev w ++ rev a) g gs).
    { split; [exact HR0|]. intros _. rewrite (shift_state_dist _ Hs). exact HR0. }
    (* both scans pass through these configurations *)
    unfold scan in *. rewrite size_ins in *.
    destruct (reach_scan _ _ _ _ _ _ R1 _ V1) as [f1 E1].
    destruct (reach_scan _ _ _ _ _ _ R3 _ V2) as [f2 E2].
    destruct (scan_all_shift jsc enum D D' size n k (rev a) (rev w ++ rev a) lex_value_lo lex_value_hi f1 g gs acc acc HL)
      as (ls & A & B & C).
    assert (W1 : verdict (scan_all jsc enum D size f1 g acc) <> SFuel) by (unfold verdict in *; rewrite E1; exact V1).
    assert (W2 : verdict (scan_all jsc enum D' (size' size k) f1 gs acc) <> SFuel).
    { unfold verdict in *. rewrite C. apply she_fuel. exact W1. }
    assert (W3 : verdict (scan_all jsc enum D' (size' size k) f2 gs acc) <> SFuel) by (unfold verdict in *; rewrite E2; exact V2).
    assert (EQ : scan_all jsc enum D' (size' size k) f1 gs acc = scan_all jsc enum D' (size' size k) f2 gs acc).
    { rewrite <- (scan_all_mono jsc enum D' (size' size k) f1 (Nat.max f1 f2) gs acc (PeanoNat.Nat.le_max_l _ _) W2).
      apply (scan_all_mono jsc enum D' (size' size k) f2 (Nat.max f1 f2) gs acc (PeanoNat.Nat.le_max_r _ _) W3). }
    exists ls. unfold verdict. rewrite <- E1, <- E2, <- EQ. auto.
  Qed.
End Whole.

(* ---------------------------------------------------------------------------------------------- *)
(* 5. corollaries: total scans; blanks at the very beginning; the run up to a position, by computation *)
From JV.proofs Require Import TM_Events TM_Loop ScanTheorems.

Lemma blank_isb c : blank c -> isb c.
Proof. unfold isb. intros [<-|[<-|[<-|[<-|[]]]]]; reflexivity. Qed.

(* for oracles that answer inside the text they are given and inputs made of bytes, no scan runs out of fuel
   (ScanTheorems.scan_total_lemma): the fuel premises go away *)
Theorem blank_insertion_shift_total_lemma jsc enum a w b g acc :
  len_sane jsc -> len_sane enum -> Forall isb (a ++ b) ->
  Forall blank w ->
  reach jsc enum (a ++ b) (N.of_nat (List.length (a ++ b))) g acc ->
  reach jsc enum (a ++ w ++ b) (N.of_nat (List.length (a ++ w ++ b))) (set_zip g (pos g) (pre g) (w ++ b)) acc ->
  pos g = N.of_nat (List.length a) -> pre g = rev a -> rest g = b -> finds g = [] -> estk g = [] ->
  In (reg g) shift_states ->
  Forall (fun s => dist s <= stack_bound) (sstk g) ->
  Forall (fun l => le l < N.of_nat (List.length a)) (lastp g) ->
  exists ls,
    fst (fst (scan jsc enum (a ++ b))) = rev acc ++ ls /\
    fst (fst (scan jsc enum (a ++ w ++ b))) = rev acc ++ map (shL (N.of_nat (List.length w))) ls /\
    verdict (scan jsc enum (a ++ w ++ b)) = she (N.of_nat (List.length w)) (verdict (scan jsc enum (a ++ b))).
Proof.
  intros S1 S2 HB Hw R1 R2. rewrite size_ins in R2.
  assert (HB' : Forall isb (a ++ w ++ b)).
  { apply Forall_app in HB as [Ha Hb]. apply Forall_app. split; [exact Ha|]. apply Forall_app. split; [|exact Hb].
    eapply Forall_impl; [|exact Hw]. exact blank_isb. }
  intros. eapply blank_insertion_shift_lemma; eauto.
  - pose proof (scan_total_lemma jsc enum (a ++ b) S1 S2 HB) as T. unfold scan_result, verdict in *.
    intros E. rewrite E in T. exact T.
  - pose proof (scan_total_lemma jsc enum (a ++ w ++ b) S1 S2 HB') as T. unfold scan_result, verdict in *.
    intros E. rewrite E in T. exact T.
Qed.

(* blank lines, indentation before the first directive: no premise about any run is left *)
Theorem leading_blanks_shift_lemma jsc enum w b :
  len_sane jsc -> len_sane enum -> Forall isb b -> Forall blank w ->
  let k := N.of_nat (List.length w) in
  fst (fst (scan jsc enum (w ++ b))) = map (shL k) (fst (fst (scan jsc enum b))) /\
  verdict (scan jsc enum (w ++ b)) = she k (verdict (scan jsc enum b)).
Proof.
  intros S1 S2 HB Hw k.
  assert (Hs : In (reg (init_cfg b)) shift_states) by (vm_compute; auto 20).
  destruct (blank_insertion_shift_total_lemma jsc enum [] w b (init_cfg b) [] S1 S2 HB Hw
              (reach_init jsc enum b _) (reach_init jsc enum (w ++ b) _)
              eq_refl eq_refl eq_refl eq_refl eq_refl Hs (Forall_nil _) (Forall_nil _)) as (ls & A & B & C).
  cbn [app rev] in A, B, C. rewrite A, B, C. split; reflexivity.
Qed.

(* the run up to the first turn of the byte loop that starts at position [stop] with nothing pending, computed *)
Section RunTo.
  Variables jsc enum : bytes -> len_result.
  Variable D : bytes.
  Variable size : N.
  Variable stop : N.

  Fixpoint run_to (fuel : nat) (g : cfg) (acc : list lexeme) : option (cfg * list lexeme) :=
    match fuel with
    | O => None
    | S f =>
      match finds g with
      | [] =>
        if pos g =? stop then Some (g, acc)
        else if pos g <=? size then
          match mstep jsc enum D size g with
          | Ok (g', None) => run_to f g' acc
          | Ok (g', Some l) => run_to f g' (l :: acc)
          | _ => None
          end
        else None
      | ev :: fs =>
        match process_event ev (set_finds g fs) with
        | Ok (g', Some l) => run_to f g' (l :: acc)
        | _ => None
        end
      end
    end.

  Lemma run_to_reach fuel : forall g acc r,
    reach jsc enum D size g acc -> run_to fuel g acc = Some r -> reach jsc enum D size (fst r) (snd r).
  Proof.
    induction fuel as [|f IH]; intros g acc r HR H; [discriminate|].
    cbn [run_to] in H. destruct (finds g) as [|ev fs] eqn:Ef.
    - destruct (pos g =? stop); [injection H as <-; exact HR|].
      destruct (pos g <=? size) eqn:Hp; [|discriminate].
      destruct (mstep jsc enum D size g) as [[g' [l|]]| | |] eqn:Em; try discriminate.
      + apply (IH _ _ _ (reach_next jsc enum D size g acc 1 g' l HR
                 ltac:(unfold next; rewrite Ef, main_loop_unfold, Hp, Em; reflexivity)) H).
      + apply N.leb_le in Hp. apply (IH _ _ _ (reach_loop jsc enum D size g acc g' HR Ef Hp Em) H).
    - destruct (process_event ev (set_finds g fs)) as [[g' [l|]]| | |] eqn:Ep; try discriminate.
      apply (IH _ _ _ (reach_next jsc enum D size g acc 0 g' l HR
               ltac:(unfold next; rewrite Ef, Ep; reflexivity)) H).
  Qed.
End RunTo.

Definition prefix_run jsc enum (D : bytes) (stop : N) : option (cfg * list lexeme) :=
  run_to jsc enum D (N.of_nat (List.length D)) stop (scan_fuel D) (init_cfg D) [].

Lemma prefix_run_reach jsc enum D stop g acc :
  prefix_run jsc enum D stop = Some (g, acc) -> reach jsc enum D (N.of_nat (List.length D)) g acc.
Proof. intros H. apply (run_to_reach _ _ _ _ _ _ _ _ _ (reach_init _ _ _ _) H). Qed.

(* the same with the two runs up to the insertion point given by computation *)
Theorem blank_insertion_shift_run_lemma jsc enum a w b g acc :
  len_sane jsc -> len_sane enum -> Forall isb (a ++ b) -> Forall blank w ->
  prefix_run jsc enum (a ++ b) (N.of_nat (List.length a)) = Some (g, acc) ->
  prefix_run jsc enum (a ++ w ++ b) (N.of_nat (List.length a)) = Some (set_zip g (pos g) (pre g) (w ++ b), acc) ->
  pos g = N.of_nat (List.length a) -> pre g = rev a -> rest g = b -> finds g = [] -> estk g = [] ->
  In (reg g) shift_states ->
  Forall (fun s => dist s <= stack_bound) (sstk g) ->
  Forall (fun l => le l < N.of_nat (List.length a)) (lastp g) ->
  exists ls,
    fst (fst (scan jsc enum (a ++ b))) = rev acc ++ ls /\
    fst (fst (scan jsc enum (a ++ w ++ b))) = rev acc ++ map (shL (N.of_nat (List.length w))) ls /\
    verdict (scan jsc enum (a ++ w ++ b)) = she (N.of_nat (List.length w)) (verdict (scan jsc enum (a ++ b))).
Proof.
  intros S1 S2 HB Hw P1 P2. apply blank_insertion_shift_total_lemma; try assumption.
  - eapply prefix_run_reach; exact P1.
  - eapply prefix_run_reach; exact P2.
Qed.

(* non-vacuity: "JSIGHT 0.3 / URL /a / GET", a line of blanks (space, tab, CR, LF) inserted between URL and GET.
   All premises hold by computation; GET moves from 18..20 to 22..24, everything before stays. *)
Module ShiftExample.
  Definition o0 : bytes -> len_result := fun _ => LenOk 0.
  Definition a : bytes := bs "JSIGHT 0.3" ++ [10] ++ bs "URL /a" ++ [10].
  Definition w : bytes := [32; 9; 13; 10].
  Definition b : bytes := bs "GET" ++ [10].
  Definition spans (r : list lexeme * scan_end * cfg) : list (N * N) := map (fun l => (lb l, le l)) (fst (fst r)).

  Lemma o0_sane : len_sane o0.
  Proof. intros s. cbn. lia. Qed.

  Example premises :
    exists g acc,
      prefix_run o0 o0 (a ++ b) 18 = Some (g, acc) /\
      prefix_run o0 o0 (a ++ w ++ b) 18 = Some (set_zip g (pos g) (pre g) (w ++ b), acc) /\
      reg g = StExpectKeyword /\ pos g = 18 /\ pre g = rev a /\ rest g = b /\ finds g = [] /\ estk g = [] /\
      sstk g = [] /\ map (fun l => (lb l, le l)) (lastp g) = [(15, 16)] /\ List.length acc = 4%nat.
  Proof. eexists. eexists. split; [vm_compute; reflexivity|]. repeat split; vm_compute; reflexivity. Qed.

  Example blank_line_between_directives :
    spans (scan o0 o0 (a ++ b)) = [(0, 5); (7, 9); (11, 13); (15, 16); (18, 20)] /\
    spans (scan o0 o0 (a ++ w ++ b)) = [(0, 5); (7, 9); (11, 13); (15, 16); (22, 24)] /\
    verdict (scan o0 o0 (a ++ b)) = SEof /\ verdict (scan o0 o0 (a ++ w ++ b)) = SEof.
  Proof. repeat split; vm_compute; reflexivity. Qed.

  (* the theorem applied to this document *)
  Example theorem_applies :
    exists acc ls,
      fst (fst (scan o0 o0 (a ++ b))) = rev acc ++ ls /\
      fst (fst (scan o0 o0 (a ++ w ++ b))) = rev acc ++ map (shL 4) ls /\
      List.length acc = 4%nat /\ List.length ls = 1%nat.
  Proof.
    destruct premises as (g & acc & P1 & P2 & Hreg & Hpos & Hpre & Hrest & Hf & He & Hst & Hl & Hn).
    destruct (blank_insertion_shift_run_lemma o0 o0 a w b g acc o0_sane o0_sane) as (ls & A & B & C); try assumption.
    - unfold isb. vm_compute. repeat constructor.
    - unfold w. repeat (apply Forall_cons; [unfold blank, blank_bytes; cbn [In]; auto 10|]). apply Forall_nil.
    - rewrite Hreg. vm_compute. auto 20.
    - rewrite Hst. constructor.
    - clear -Hl. destruct (lastp g) as [|l [|l2 r]]; try discriminate. injection Hl as E1 E2.
      constructor; [|constructor]. rewrite E2. reflexivity.
    - exists acc, ls. split; [exact A|]. split; [exact B|]. split; [exact Hn|].
      assert (E : List.length (fst (fst (scan o0 o0 (a ++ b)))) = 5%nat) by (vm_compute; reflexivity).
      rewrite A, app_length, rev_length, Hn in E. lia.
  Qed.
End ShiftExample.

(* ---------------------------------------------------------------------------------------------- *)
(* 6. the bound on the state stack holds in every run *)
Section StackInv.
  Variables jsc enum : bytes -> len_result.
  Variable D : bytes.
  Variable size : N.

  Definition stk_ok (g : cfg) : Prop := Forall (fun s => dist s <= stack_bound) (sstk g).

  Lemma exec_act_stk a dr dr' g g' :
    fstep dr a = Some dr' -> regok (snd dr) g -> stk_ok g -> exec_act jsc enum a g = Ok g' ->
    stk_ok g' /\ regok (snd dr') g'.
  Proof.
    destruct dr as [d r]. cbn [snd]. intros Hf Hr Hs He.
    assert (Keep : forall h, sstk h = sstk g -> reg h = reg g -> stk_ok h /\ regok r h).
    { intros h E1 E2. unfold stk_ok. rewrite E1. split; [exact Hs|]. destruct r; cbn [regok] in *; rewrite E2; exact Hr. }
    destruct a as [back e|s|s| | |m| |]; cbn [fstep] in Hf; cbn [exec_act] in He.
    - destruct (back <=? d); [|discriminate]. injection Hf as <-. destruct (pos g <? back); [discriminate|].
      injection He as <-. apply Keep; reflexivity.
    - injection Hf as <-. injection He as <-. split; [exact Hs | reflexivity].
    - destruct (dist s <=? stack_bound) eqn:E; [|discriminate]. injection Hf as <-. injection He as <-.
      apply N.leb_le in E. split; [constructor; assumption | exact Hr].
    - destruct (dist_reg r <=? stack_bound) eqn:E; [|discriminate]. injection Hf as <-. injection He as <-.
      apply N.leb_le in E. split; [|exact Hr]. constructor; [|exact Hs].
      destruct r as [s|]; cbn [regok dist_reg] in *; [rewrite Hr; exact E | exact Hr].
    - injection Hf as <-. destruct (sstk g) as [|s st] eqn:Es; [discriminate|]. injection He as <-.
      unfold stk_ok in *. rewrite Es in Hs. inversion Hs; subst. split; assumption.
    - destruct (m <=? d); [|discriminate]. injection Hf as <-. destruct (pos g <? m); [discriminate|].
      injection He as <-. apply Keep; reflexivity.
    - injection Hf as <-. unfold read_body in He. destruct (jsc (rest g)); [|discriminate]. injection He as <-.
      destruct (0 <? n); apply Keep; reflexivity.
    - injection Hf as <-. unfold read_body in He. destruct (enum (rest g)); [|discriminate]. injection He as <-.
      destruct (0 <? n); apply Keep; reflexivity.
  Qed.

  Lemma exec_acts_stk acts : forall dr dr' g g',
    ffold dr acts = Some dr' -> regok (snd dr) g -> stk_ok g -> exec_acts jsc enum acts g = Ok g' -> stk_ok g'.
  Proof.
    induction acts as [|a acts IH]; intros dr dr' g g' Hf Hr Hs He.
    - cbn in He. injection He as <-. exact Hs.
    - cbn [ffold] in Hf. destruct (fstep dr a) as [dr1|] eqn:F1; [|discriminate].
      cbn [exec_acts] in He. destruct (exec_act jsc enum a g) as [g1| | |] eqn:E1; cbn [obind] in He; try discriminate.
      destruct (exec_act_stk _ _ _ _ _ F1 Hr Hs E1) as [S1 R1]. eapply IH; eauto.
  Qed.

  Lemma dispatch_stk f : forall c g g', stk_ok g -> dispatch jsc enum D size f c g = Ok g' -> stk_ok g'.
  Proof.
    induction f as [|f IH]; intros c g g' Hs H; [discriminate|].
    cbn [dispatch] in H.
    destruct (eval_tree D size (step_tree (reg g)) c g) as [ax| | |] eqn:Eax; cbn [obind] in H; try discriminate.
    destruct (dist_ok_state (reg g)) as [_ Hl]. specialize (Hl ax (eval_tree_in_leaves _ _ _ _ _ _ Eax)).
    unfold leaf_dist_ok in Hl. destruct (ffold (dist (reg g), Some (reg g)) (fst ax)) as [dr1|] eqn:Ff; [|discriminate].
    destruct (exec_acts jsc enum (fst ax) g) as [g1| | |] eqn:Ex; cbn [obind] in H; try discriminate.
    pose proof (exec_acts_stk _ _ _ _ _ Ff eq_refl Hs Ex) as S1.
    destruct (snd ax); [injection H as <-; exact S1 | eapply IH; eauto | discriminate].
  Qed.

  Lemma process_event_sstk ev g r : process_event ev g = Ok r -> sstk (fst r) = sstk g.
  Proof.
    unfold process_event. destruct ev as [e p].
    destruct (evt_in e evt_beginning); [intros H; injection H as <-; reflexivity|].
    destruct (evt_in e evt_ending).
    { destruct (estk g) as [|[se sp] st]; [discriminate|]. destruct (pair_ok se e); [|discriminate].
      destruct (evt_lexkind e); [|discriminate]. intros H; injection H as <-; reflexivity. }
    destruct (evt_in e evt_single); [|discriminate].
    destruct (evt_lexkind e); [|discriminate]. intros H; injection H as <-; reflexivity.
  Qed.

  Lemma note_lexeme_sstk l g : sstk (note_lexeme l g) = sstk g.
  Proof. unfold note_lexeme. destruct (lexkind_eqb (lk l) LParameter); [reflexivity|]. destruct (lexkind_eqb (lk l) LKeyword); reflexivity. Qed.

  Lemma drain_sstk m : forall g r, drain m g = Ok r -> sstk (fst r) = sstk g.
  Proof.
    induction m as [|m IH]; intros g r H.
    - cbn in H. injection H as <-. reflexivity.
    - cbn [drain] in H. destruct (finds g) as [|ev fs]; [discriminate|].
      destruct (process_event ev (set_finds g fs)) as [r1| | |] eqn:Ep; cbn [obind] in H; try discriminate.
      pose proof (process_event_sstk _ _ _ Ep) as E1. cbn in E1.
      destruct (snd r1).
      + injection H as <-. cbn [fst]. rewrite note_lexeme_sstk. exact E1.
      + rewrite (IH _ _ H). exact E1.
  Qed.

  Lemma mstep_stk g r : stk_ok g -> mstep jsc enum D size g = Ok r -> stk_ok (fst r).
  Proof.
    intros Hs H. unfold mstep in H.
    destruct (if pos g =? size then Some 0 else hd_error (rest g)) as [c|]; [|discriminate].
    destruct ((c =? 0) && negb (pos g =? size)); [discriminate|].
    destruct (dispatch jsc enum D size redo_fuel c g) as [g1| | |] eqn:Ed; cbn [obind] in H; try discriminate.
    unfold stk_ok. rewrite (drain_sstk _ _ _ H). exact (dispatch_stk _ _ _ _ Hs Ed).
  Qed.

  Lemma main_loop_stk f : forall g r, stk_ok g -> main_loop jsc enum D size f g = Ok r -> stk_ok (fst r).
  Proof.
    induction f as [|f IH]; intros g r Hs H; [discriminate|].
    rewrite main_loop_unfold in H. destruct (pos g <=? size); [|injection H as <-; exact Hs].
    destruct (mstep jsc enum D size g) as [r1| | |] eqn:Em; cbn [obind] in H; try discriminate.
    pose proof (mstep_stk _ _ Hs Em) as S1.
    destruct (snd r1); [injection H as <-; exact S1 | eapply IH; eauto].
  Qed.

  Lemma next_stk f g r : stk_ok g -> next jsc enum D size f g = Ok r -> stk_ok (fst r).
  Proof.
    intros Hs H. unfold next in H. destruct (finds g) as [|ev fs]; [eapply main_loop_stk; eauto|].
    destruct (process_event ev (set_finds g fs)) as [r1| | |] eqn:Ep; cbn [obind] in H; try discriminate.
    assert (S1 : stk_ok (fst r1)) by (unfold stk_ok; rewrite (process_event_sstk _ _ _ Ep); exact Hs).
    destruct (snd r1); [injection H as <-; exact S1 | eapply main_loop_stk; eauto].
  Qed.

  Lemma reach_stk g acc : reach jsc enum D size g acc -> stk_ok g.
  Proof.
    induction 1 as [|g acc f g' l _ IH Hn|g acc g' _ IH _ _ Hm].
    - constructor.
    - exact (next_stk _ _ _ IH Hn).
    - exact (mstep_stk _ _ IH Hm).
  Qed.
End StackInv.

(* ... so that premise goes away *)
Theorem blank_insertion_shift_final_lemma jsc enum a w b g acc :
  len_sane jsc -> len_sane enum -> Forall isb (a ++ b) ->
  Forall blank w ->
  reach jsc enum (a ++ b) (N.of_nat (List.length (a ++ b))) g acc ->
  reach jsc enum (a ++ w ++ b) (N.of_nat (List.length (a ++ w ++ b))) (set_zip g (pos g) (pre g) (w ++ b)) acc ->
  pos g = N.of_nat (List.length a) -> pre g = rev a -> rest g = b -> finds g = [] -> estk g = [] ->
  In (reg g) shift_states ->
  Forall (fun l => le l < N.of_nat (List.length a)) (lastp g) ->
  exists ls,
    fst (fst (scan jsc enum (a ++ b))) = rev acc ++ ls /\
    fst (fst (scan jsc enum (a ++ w ++ b))) = rev acc ++ map (shL (N.of_nat (List.length w))) ls /\
    verdict (scan jsc enum (a ++ w ++ b)) = she (N.of_nat (List.length w)) (verdict (scan jsc enum (a ++ b))).
Proof.
  intros S1 S2 HB Hw R1 R2 Hpos Hpre Hrest Hf He Hs Hl.
  apply (blank_insertion_shift_total_lemma jsc enum a w b g acc); try assumption. exact (reach_stk _ _ _ _ _ _ R1).
Qed.

Theorem blank_insertion_shift_run_final_lemma jsc enum a w b g acc :
  len_sane jsc -> len_sane enum -> Forall isb (a ++ b) -> Forall blank w ->
  prefix_run jsc enum (a ++ b) (N.of_nat (List.length a)) = Some (g, acc) ->
  prefix_run jsc enum (a ++ w ++ b) (N.of_nat (List.length a)) = Some (set_zip g (pos g) (pre g) (w ++ b), acc) ->
  pos g = N.of_nat (List.length a) -> pre g = rev a -> rest g = b -> finds g = [] -> estk g = [] ->
  In (reg g) shift_states ->
  Forall (fun l => le l < N.of_nat (List.length a)) (lastp g) ->
  exists ls,
    fst (fst (scan jsc enum (a ++ b))) = rev acc ++ ls /\
    fst (fst (scan jsc enum (a ++ w ++ b))) = rev acc ++ map (shL (N.of_nat (List.length w))) ls /\
    verdict (scan jsc enum (a ++ w ++ b)) = she (N.of_nat (List.length w)) (verdict (scan jsc enum (a ++ b))).
Proof.
  intros S1 S2 HB Hw P1 P2. apply (blank_insertion_shift_final_lemma jsc enum a w b g acc); try assumption.
  - eapply prefix_run_reach; exact P1.
  - eapply prefix_run_reach; exact P2.
Qed.
